import M3d.Lemmas.MsLift
import Batteries.Data.Nat.Lemmas
import Mathlib.Data.Fintype.Basic
import Mathlib.Tactic.FinCases
/-!
# `Bitmap.Mesh` is closed on EVERY bitmap: the local→global lift (property C01)

`M3d.C01.bitmap_in_out_one` is kernel-decided over the 65 536 labellings of a 4×4 pixel window: every mesh
vertex sitting at the window's central lattice corner (the corner or one of its four pulled-in copies) has
exactly one incoming and one outgoing segment.  Here it is lifted to `bitmapMesh g w h` for every size and
every bitmap:

* `pixelSegs_local`: what a pixel draws is a function of the nine pixels round it, placed at the pixel's
  position (`pixelLocal`, `place`);
* `cntAt_pixel`: the number of its segments starting/ending at a global point only depends on those nine
  pixels and on the point's offset from the pixel;
* `cnt_mesh`: the count over the whole mesh at a point near lattice corner `(cx, cy)` is the sum over the
  four pixels round that corner (`rsum_corner`, everything else is too far away; pixels outside the image
  are false and draw nothing);
* `window_of`: the 4×4 pixels round the corner, read as a window number `< 65536` (`Nat.ofBits`), have the
  same nine-pixel neighbourhoods, hence the same four counts.
-/
namespace M3d.Marching.Bitmap

/-! ### counts as `countP` -/

/-- the start (`e = false`) or end (`e = true`) point of a packed segment -/
def selP (e : Bool) (s : Nat) : Nat := if e then segEnd s else segStart s

def cntAt (e : Bool) (segs : List Nat) (v : Nat) : Nat := segs.countP fun t => Nat.beq (selP e t) v

theorem foldl_count (p : Nat → Bool) (l : List Nat) (a : Nat) :
    l.foldl (fun n t => if p t then n + 1 else n) a = a + l.countP p := by
  induction l generalizing a with
  | nil => simp
  | cons x r ih =>
    simp only [List.foldl_cons, List.countP_cons]
    rw [ih]
    cases p x <;> simp <;> omega

theorem countStart_eq (segs : List Nat) (v : Nat) : countStart segs v = cntAt false segs v := by
  unfold countStart cntAt selP
  rw [foldl_count (fun t => Nat.beq (segStart t) v)]
  simp

theorem countEnd_eq (segs : List Nat) (v : Nat) : countEnd segs v = cntAt true segs v := by
  unfold countEnd cntAt selP
  rw [foldl_count (fun t => Nat.beq (segEnd t) v)]
  simp

theorem cntAt_append (e : Bool) (a b : List Nat) (v : Nat) : cntAt e (a ++ b) v = cntAt e a v + cntAt e b v := by
  unfold cntAt; rw [List.countP_append]

/-! ### the local form of a pixel -/

abbrev LSeg := (Nat × Nat) × (Nat × Nat)

/-- what a true pixel draws, in quarter pixels relative to its lower left corner, from its eight
neighbours (`l r t b` = left right top bottom, `bl br tr tl` the diagonal ones) -/
def pl8 (l r t b bl br tr tl : Bool) : List LSeg :=
  let p1 : Nat × Nat := if !l && !b && bl then (1, 1) else (0, 0)
  let p2 : Nat × Nat := if !r && !b && br then (3, 1) else (4, 0)
  let p3 : Nat × Nat := if !r && !t && tr then (3, 3) else (4, 4)
  let p4 : Nat × Nat := if !l && !t && tl then (1, 3) else (0, 4)
  (if !l then [(p1, p4)] else []) ++ (if !r then [(p3, p2)] else []) ++
  (if !t then [(p4, p3)] else []) ++ (if !b then [(p2, p1)] else [])

/-- the same from a 3×3 neighbourhood `n` (centre `n 1 1`) -/
def pixelLocal (n : Nat → Nat → Bool) : List LSeg :=
  if !n 1 1 then [] else pl8 (n 0 1) (n 2 1) (n 1 2) (n 1 0) (n 0 0) (n 2 0) (n 2 2) (n 0 2)

/-- the 3×3 neighbourhood of pixel `(i, j)` -/
def nbOf (g : Nat → Nat → Bool) (i j : Nat) : Nat → Nat → Bool := fun a b => g (i - 1 + a) (j - 1 + b)

def place (i j : Nat) (s : LSeg) : Nat :=
  qseg (qpt (4 * i + s.1.1) (4 * j + s.1.2)) (qpt (4 * i + s.2.1) (4 * j + s.2.2))

theorem pixelSegs_local (g : Nat → Nat → Bool) (i j : Nat) (hi : 1 ≤ i) (hj : 1 ≤ j) :
    pixelSegs g i j = (pixelLocal (nbOf g i j)).map (place i j) := by
  have e1 : i - 1 + 1 = i := by omega
  have e2 : j - 1 + 1 = j := by omega
  have e3 : i - 1 + 2 = i + 1 := by omega
  have e4 : j - 1 + 2 = j + 1 := by omega
  simp only [pixelSegs, pixelLocal, nbOf, e1, e2, e3, e4, Nat.add_zero]
  cases g i j
  · rfl
  · simp only [Bool.not_true, Bool.false_eq_true, if_false]
    cases g (i - 1) j <;> cases g (i + 1) j <;> cases g i (j + 1) <;> cases g i (j - 1) <;>
      cases g (i - 1) (j - 1) <;> cases g (i + 1) (j - 1) <;> cases g (i + 1) (j + 1) <;>
      cases g (i - 1) (j + 1) <;> rfl

/-- every local coordinate is one of 0, 1, 3, 4 -/
def okCoord (c : Nat) : Bool := c == 0 || c == 1 || c == 3 || c == 4

theorem pl8_coords : ∀ l r t b bl br tr tl : Bool, (pl8 l r t b bl br tr tl).all (fun s =>
    okCoord s.1.1 && okCoord s.1.2 && okCoord s.2.1 && okCoord s.2.2) = true := by decide

theorem pixelLocal_coords (n : Nat → Nat → Bool) (s : LSeg) (hs : s ∈ pixelLocal n) :
    okCoord s.1.1 = true ∧ okCoord s.1.2 = true ∧ okCoord s.2.1 = true ∧ okCoord s.2.2 = true := by
  unfold pixelLocal at hs
  split at hs
  · cases hs
  · have := List.all_eq_true.1 (pl8_coords _ _ _ _ _ _ _ _) s hs
    simpa [Bool.and_eq_true, and_assoc] using this

theorem okCoord_le {c : Nat} (h : okCoord c = true) : c ≤ 4 := by
  simp only [okCoord, Bool.or_eq_true, beq_iff_eq] at h
  omega

theorem okCoord_ne2 {c : Nat} (h : okCoord c = true) : c ≤ 1 ∨ (3 ≤ c ∧ c ≤ 4) := by
  simp only [okCoord, Bool.or_eq_true, beq_iff_eq] at h
  omega

/-- the end point `e` of a local segment -/
def pe (e : Bool) (s : LSeg) : Nat × Nat := if e then s.2 else s.1

theorem selP_place (e : Bool) (i j : Nat) (s : LSeg) (hi : i ≤ 16000) (hj : j ≤ 16000)
    (h1 : s.1.1 ≤ 4) (h2 : s.1.2 ≤ 4) (h3 : s.2.1 ≤ 4) (h4 : s.2.2 ≤ 4) :
    selP e (place i j s) = qpt (4 * i + (pe e s).1) (4 * j + (pe e s).2) := by
  unfold selP place pe qseg segStart segEnd qpt
  cases e <;> simp only [Bool.false_eq_true, if_false, if_true] <;> omega

theorem qpt_eq_iff (x y x' y' : Nat) (hy : y < 65536) (hy' : y' < 65536) :
    qpt x y = qpt x' y' ↔ x = x' ∧ y = y' := by
  unfold qpt
  constructor
  · intro h; omega
  · rintro ⟨rfl, rfl⟩; rfl

/-- local count: segments of the neighbourhood `n` whose end `e` sits at offset `(dx, dy)` from the
pixel's lower left corner, when the pixel is `(a, b)` pixels away from a reference position -/
def lc (e : Bool) (n : Nat → Nat → Bool) (a b ex ey : Nat) : Nat :=
  (pixelLocal n).countP fun s => decide (4 * a + (pe e s).1 = ex) && decide (4 * b + (pe e s).2 = ey)

/-- **One pixel at a global point.**  Pixel `(i0 + a, j0 + b)` (≥ 1) contributes at the point
`(4·i0 + ex, 4·j0 + ey)` exactly `lc` of its neighbourhood. -/
theorem cntAt_pixel (e : Bool) (g : Nat → Nat → Bool) (i0 j0 a b ex ey : Nat)
    (hi : 1 ≤ i0 + a) (hj : 1 ≤ j0 + b) (hi' : i0 + a ≤ 16000) (hj' : j0 + b ≤ 16000)
    (hex : ex ≤ 8) (hey : ey ≤ 8) :
    cntAt e (pixelSegs g (i0 + a) (j0 + b)) (qpt (4 * i0 + ex) (4 * j0 + ey)) =
      lc e (nbOf g (i0 + a) (j0 + b)) a b ex ey := by
  rw [pixelSegs_local g _ _ hi hj]
  unfold cntAt lc
  rw [List.countP_map]
  apply List.countP_congr
  intro s hs
  obtain ⟨c1, c2, c3, c4⟩ := pixelLocal_coords _ s hs
  have b1 := okCoord_le c1; have b2 := okCoord_le c2; have b3 := okCoord_le c3; have b4 := okCoord_le c4
  simp only [Function.comp]
  rw [selP_place e _ _ s hi' hj' b1 b2 b3 b4]
  have hp : (pe e s).1 ≤ 4 ∧ (pe e s).2 ≤ 4 := by
    unfold pe; cases e <;> simp [b1, b2, b3, b4]
  have hq := qpt_eq_iff (4 * (i0 + a) + (pe e s).1) (4 * (j0 + b) + (pe e s).2) (4 * i0 + ex) (4 * j0 + ey)
    (by omega) (by omega)
  constructor
  · intro h
    have := hq.1 (Nat.eq_of_beq_eq_true h)
    simp only [Bool.and_eq_true, decide_eq_true_eq]
    omega
  · intro h
    simp only [Bool.and_eq_true, decide_eq_true_eq] at h
    have : qpt (4 * (i0 + a) + (pe e s).1) (4 * (j0 + b) + (pe e s).2) = qpt (4 * i0 + ex) (4 * j0 + ey) :=
      hq.2 (by omega)
    rw [this]
    exact Nat.beq_refl _

/-! ### the whole mesh at a point -/

theorem cnt_bitmapMesh (e : Bool) (g : Nat → Nat → Bool) (w h v : Nat) :
    cntAt e (bitmapMesh g w h) v =
      rsum h fun j => rsum w fun i => cntAt e (pixelSegs g (i + 1) (j + 1)) v := by
  unfold bitmapMesh cntAt rsum
  rw [List.countP_flatMap]
  congr 1
  apply List.map_congr_left
  intro j _
  simp only [Function.comp]
  rw [List.countP_flatMap]
  rfl

theorem pixelSegs_false (g : Nat → Nat → Bool) (i j : Nat) (h : g i j = false) : pixelSegs g i j = [] := by
  unfold pixelSegs
  simp [h]

/-- a pixel draws nothing at a point outside its own closed square -/
theorem cntAt_pixel_far (e : Bool) (g : Nat → Nat → Bool) (i j x y : Nat)
    (hi : 1 ≤ i) (hj : 1 ≤ j) (hi' : i ≤ 16000) (hj' : j ≤ 16000) (hy : y < 65536)
    (hfar : x < 4 * i ∨ 4 * i + 4 < x ∨ y < 4 * j ∨ 4 * j + 4 < y) :
    cntAt e (pixelSegs g i j) (qpt x y) = 0 := by
  rw [pixelSegs_local g _ _ hi hj]
  unfold cntAt
  rw [List.countP_map, List.countP_eq_zero]
  intro s hs
  obtain ⟨c1, c2, c3, c4⟩ := pixelLocal_coords _ s hs
  have b1 := okCoord_le c1; have b2 := okCoord_le c2; have b3 := okCoord_le c3; have b4 := okCoord_le c4
  simp only [Function.comp]
  rw [selP_place e _ _ s hi' hj' b1 b2 b3 b4]
  have hp : (pe e s).1 ≤ 4 ∧ (pe e s).2 ≤ 4 := by
    unfold pe; cases e <;> simp [b1, b2, b3, b4]
  intro h
  have := (qpt_eq_iff _ _ _ _ (by omega) hy).1 (Nat.eq_of_beq_eq_true h)
  omega

/-- A sum over the pixels `1 … n` of a row that is supported on the two pixels `c-1`, `c` round a
lattice corner `c ≥ 1` (pixels `0` and `> n` are outside the image). -/
theorem rsum_corner (n c : Nat) (F : Nat → Nat) (hc : 1 ≤ c) (h0 : ∀ i, (i = 0 ∨ n < i) → F i = 0)
    (hs : ∀ i, i ≠ c - 1 → i ≠ c → F i = 0) : rsum n (fun i => F (i + 1)) = F (c - 1) + F c := by
  by_cases h1 : c = 1
  · subst h1
    rw [rsum_single n 0 (fun i => F (i + 1)) (fun k _ hk => hs (k + 1) (by omega) (by omega))]
    rw [h0 0 (Or.inl rfl)]
    by_cases hn : 0 < n
    · simp [hn]
    · have : F 1 = 0 := h0 1 (Or.inr (by omega))
      simp [hn, this]
  · rw [rsum_pair n (c - 2) (c - 1) (by omega) (fun i => F (i + 1))
      (fun k _ ha hb => hs (k + 1) (by omega) (by omega))]
    have e1 : c - 2 + 1 = c - 1 := by omega
    have e2 : c - 1 + 1 = c := by omega
    simp only [e1, e2]
    by_cases ha : c - 2 < n
    · by_cases hb : c - 1 < n
      · simp [ha, hb]
      · have : F c = 0 := h0 c (Or.inr (by omega))
        simp [ha, hb, this]
    · have t1 : F (c - 1) = 0 := h0 (c - 1) (Or.inr (by omega))
      have t2 : F c = 0 := h0 c (Or.inr (by omega))
      have hb : ¬ c - 1 < n := by omega
      simp [ha, hb, t1, t2]

/-- **The whole mesh at a point near lattice corner `(cx, cy)`** (the corner itself or a pulled-in copy:
offsets `ex, ey ∈ {3,4,5}` from pixel `(cx-1, cy-1)`) is the sum over the four pixels round the corner. -/
theorem cnt_mesh_corner (e : Bool) (g : Nat → Nat → Bool) (w h : Nat) (hw : w < 16000) (hh : h < 16000)
    (hg : ∀ i j, (i = 0 ∨ j = 0 ∨ w < i ∨ h < j) → g i j = false)
    (cx cy ex ey : Nat) (hcx : 1 ≤ cx) (hcy : 1 ≤ cy) (hcx' : cx ≤ w + 1) (hcy' : cy ≤ h + 1)
    (hex : 3 ≤ ex ∧ ex ≤ 5) (hey : 3 ≤ ey ∧ ey ≤ 5) :
    let v := qpt (4 * (cx - 1) + ex) (4 * (cy - 1) + ey)
    cntAt e (bitmapMesh g w h) v =
      (cntAt e (pixelSegs g (cx - 1) (cy - 1)) v + cntAt e (pixelSegs g cx (cy - 1)) v) +
      (cntAt e (pixelSegs g (cx - 1) cy) v + cntAt e (pixelSegs g cx cy) v) := by
  intro v
  rw [cnt_bitmapMesh]
  -- pixels outside the image draw nothing
  have hout : ∀ i j, (i = 0 ∨ j = 0 ∨ w < i ∨ h < j) → cntAt e (pixelSegs g i j) v = 0 := by
    intro i j hij
    rw [pixelSegs_false g i j (hg i j hij)]
    rfl
  -- pixels of the image far from the corner draw nothing at v
  have hfar : ∀ i j, (i ≠ cx - 1 ∧ i ≠ cx) ∨ (j ≠ cy - 1 ∧ j ≠ cy) → cntAt e (pixelSegs g i j) v = 0 := by
    intro i j hij
    by_cases hin : i = 0 ∨ j = 0 ∨ w < i ∨ h < j
    · exact hout i j hin
    · apply cntAt_pixel_far e g i j _ _ (by omega) (by omega) (by omega) (by omega)
      · omega
      · omega
  -- rows
  have hrow : ∀ j, rsum w (fun i => cntAt e (pixelSegs g (i + 1) j) v) =
      cntAt e (pixelSegs g (cx - 1) j) v + cntAt e (pixelSegs g cx j) v := by
    intro j
    exact rsum_corner w cx (fun i => cntAt e (pixelSegs g i j) v) hcx
      (fun i hi => hout i j (by omega)) (fun i h1 h2 => hfar i j (Or.inl ⟨h1, h2⟩))
  have := rsum_corner h cy (fun j => rsum w (fun i => cntAt e (pixelSegs g (i + 1) j) v)) hcy
    (fun j hj => by
      rw [hrow j, hout _ j (by omega), hout _ j (by omega)])
    (fun j h1 h2 => by
      rw [hrow j, hfar _ j (Or.inr ⟨h1, h2⟩), hfar _ j (Or.inr ⟨h1, h2⟩)])
  rw [this, hrow, hrow]

/-! ### the window round a corner -/

/-- the 4×4 pixels round lattice corner `(cx, cy)`: window position `(U, V)` is pixel
`(cx - 2 + U, cy - 2 + V)`; pixels with a negative index are outside the image -/
def gwin (g : Nat → Nat → Bool) (cx cy : Nat) : Nat → Nat → Bool := fun U V =>
  if cx + U < 2 ∨ cy + V < 2 then false else g (cx + U - 2) (cy + V - 2)

/-- a window as the 16-bit number `windowFn` reads -/
def encWin (gw : Nat → Nat → Bool) : Nat := Nat.ofBits fun k : Fin 16 => gw (k.val % 4) (k.val / 4)

theorem encWin_lt (gw : Nat → Nat → Bool) : encWin gw < 65536 := by
  have := Nat.ofBits_lt_two_pow (fun k : Fin 16 => gw (k.val % 4) (k.val / 4))
  simpa [encWin] using this

theorem windowFn_encWin (gw : Nat → Nat → Bool) (U V : Nat) (hU : U < 4) (hV : V < 4) :
    windowFn (encWin gw) U V = gw U V := by
  unfold windowFn encWin
  rw [Nat.testBit_ofBits_lt _ _ (by omega)]
  have e1 : (U + 4 * V) % 4 = U := by omega
  have e2 : (U + 4 * V) / 4 = V := by omega
  simp only [e1, e2]

theorem pixelLocal_congr (n n' : Nat → Nat → Bool) (h : ∀ u v, u ≤ 2 → v ≤ 2 → n u v = n' u v) :
    pixelLocal n = pixelLocal n' := by
  unfold pixelLocal
  rw [h 1 1 (by omega) (by omega), h 0 1 (by omega) (by omega), h 2 1 (by omega) (by omega),
    h 1 2 (by omega) (by omega), h 1 0 (by omega) (by omega), h 0 0 (by omega) (by omega),
    h 2 0 (by omega) (by omega), h 2 2 (by omega) (by omega), h 0 2 (by omega) (by omega)]

/-- the neighbourhood of pixel `(cx-1+a, cy-1+b)` (inside the image's index range) is the neighbourhood
of window pixel `(1+a, 1+b)` -/
theorem nb_window (g : Nat → Nat → Bool) (cx cy a b : Nat) (ha : a ≤ 1) (hb : b ≤ 1)
    (hI : 1 ≤ cx - 1 + a) (hJ : 1 ≤ cy - 1 + b) (hcx : 1 ≤ cx) (hcy : 1 ≤ cy) :
    pixelLocal (nbOf g (cx - 1 + a) (cy - 1 + b)) =
      pixelLocal (nbOf (windowFn (encWin (gwin g cx cy))) (1 + a) (1 + b)) := by
  apply pixelLocal_congr
  intro u v hu hv
  unfold nbOf
  rw [windowFn_encWin _ _ _ (by omega) (by omega)]
  unfold gwin
  have hc : ¬ (cx + (1 + a - 1 + u) < 2 ∨ cy + (1 + b - 1 + v) < 2) := by omega
  rw [if_neg hc]
  have e1 : cx - 1 + a - 1 + u = cx + (1 + a - 1 + u) - 2 := by omega
  have e2 : cy - 1 + b - 1 + v = cy + (1 + b - 1 + v) - 2 := by omega
  rw [e1, e2]

/-- **A pixel round the corner and its window twin draw the same at corresponding points.** -/
theorem pixel_eq_window (e : Bool) (g : Nat → Nat → Bool)
    (hg0 : ∀ i j, (i = 0 ∨ j = 0) → g i j = false)
    (cx cy a b ex ey : Nat) (ha : a ≤ 1) (hb : b ≤ 1) (hcx : 1 ≤ cx) (hcy : 1 ≤ cy)
    (hcx' : cx ≤ 15999) (hcy' : cy ≤ 15999) (hex : ex ≤ 8) (hey : ey ≤ 8) :
    cntAt e (pixelSegs g (cx - 1 + a) (cy - 1 + b)) (qpt (4 * (cx - 1) + ex) (4 * (cy - 1) + ey)) =
    cntAt e (pixelSegs (windowFn (encWin (gwin g cx cy))) (1 + a) (1 + b)) (qpt (4 * 1 + ex) (4 * 1 + ey)) := by
  by_cases hIJ : 1 ≤ cx - 1 + a ∧ 1 ≤ cy - 1 + b
  · rw [cntAt_pixel e g (cx - 1) (cy - 1) a b ex ey hIJ.1 hIJ.2 (by omega) (by omega) hex hey,
      cntAt_pixel e _ 1 1 a b ex ey (by omega) (by omega) (by omega) (by omega) hex hey]
    unfold lc
    rw [nb_window g cx cy a b ha hb hIJ.1 hIJ.2 hcx hcy]
  · have hz : cx - 1 + a = 0 ∨ cy - 1 + b = 0 := by omega
    rw [pixelSegs_false g _ _ (hg0 _ _ hz)]
    have hw : windowFn (encWin (gwin g cx cy)) (1 + a) (1 + b) = false := by
      rw [windowFn_encWin _ _ _ (by omega) (by omega)]
      unfold gwin
      have hc : ¬ (cx + (1 + a) < 2 ∨ cy + (1 + b) < 2) := by omega
      rw [if_neg hc]
      apply hg0
      omega
    rw [pixelSegs_false _ _ _ hw]
    simp [cntAt]

/-! ### the lift -/

theorem nearCentre_qpt (x y : Nat) (hx : 7 ≤ x ∧ x ≤ 9) (hy : 7 ≤ y ∧ y ≤ 9) : nearCentre (qpt x y) = true := by
  unfold nearCentre qpt
  have e1 : (x * 65536 + y) / 65536 = x := by omega
  have e2 : (x * 65536 + y) % 65536 = y := by omega
  simp only [e1, e2, Nat.ble_eq, Bool.and_eq_true, decide_eq_true_eq]
  omega

theorem inOutOneAt_iff (segs : List Nat) (v : Nat) :
    inOutOneAt segs v = true ↔ cntAt false segs v = 1 ∧ cntAt true segs v = 1 := by
  unfold inOutOneAt
  rw [countStart_eq, countEnd_eq]
  simp only [Bool.and_eq_true]
  constructor
  · rintro ⟨h1, h2⟩; exact ⟨Nat.eq_of_beq_eq_true h1, Nat.eq_of_beq_eq_true h2⟩
  · rintro ⟨h1, h2⟩; rw [h1, h2]; exact ⟨rfl, rfl⟩

theorem selP_false (t : Nat) : selP false t = segStart t := rfl
theorem selP_true (t : Nat) : selP true t = segEnd t := rfl

theorem win_end (e : Bool) (W : List Nat) (t : Nat)
    (h : (nearCentre (segStart t) = false ∨ inOutOneAt W (segStart t) = true) ∧
      (nearCentre (segEnd t) = false ∨ inOutOneAt W (segEnd t) = true)) :
    nearCentre (selP e t) = false ∨ inOutOneAt W (selP e t) = true := by
  cases e
  · rw [selP_false]; exact h.1
  · rw [selP_true]; exact h.2

/-- **`Bitmap.Mesh` is closed on every bitmap.**  If every 4×4 window is fine at its central corner
(`hwin`, kernel-decided in `M3d.C01.bitmap_in_out_one`), then for every size and every bitmap that is false
outside `[1,w] × [1,h]` (the image, shifted by one pixel), every end point of every segment of
`bitmapMesh g w h` has exactly one outgoing and one incoming segment. -/
theorem bitmap_lift (hwin : ∀ k, k < 65536 → windowOk k = true)
    (g : Nat → Nat → Bool) (w h : Nat) (hw : w < 15999) (hh : h < 15999)
    (hg : ∀ i j, (i = 0 ∨ j = 0 ∨ w < i ∨ h < j) → g i j = false) :
    inOutOne (bitmapMesh g w h) = true := by
  have hg0 : ∀ i j, (i = 0 ∨ j = 0) → g i j = false := fun i j hij => hg i j (by omega)
  -- the statement for one end of one segment
  have key : ∀ (e : Bool) (i0 j0 : Nat), i0 < w → j0 < h → ∀ ls ∈ pixelLocal (nbOf g (i0 + 1) (j0 + 1)),
      inOutOneAt (bitmapMesh g w h) (selP e (place (i0 + 1) (j0 + 1) ls)) = true := by
    intro e i0 j0 hi0 hj0 ls hls
    obtain ⟨c1, c2, c3, c4⟩ := pixelLocal_coords _ ls hls
    have b1 := okCoord_le c1; have b2 := okCoord_le c2; have b3 := okCoord_le c3; have b4 := okCoord_le c4
    rw [selP_place e _ _ ls (by omega) (by omega) b1 b2 b3 b4]
    have hpx : (pe e ls).1 ≤ 1 ∨ (3 ≤ (pe e ls).1 ∧ (pe e ls).1 ≤ 4) := by
      unfold pe; cases e
      · exact okCoord_ne2 c1
      · exact okCoord_ne2 c3
    have hpy : (pe e ls).2 ≤ 1 ∨ (3 ≤ (pe e ls).2 ∧ (pe e ls).2 ≤ 4) := by
      unfold pe; cases e
      · exact okCoord_ne2 c2
      · exact okCoord_ne2 c4
    -- the corner this end point sits at, and the pixel's position relative to it
    obtain ⟨a, cx, ex, ha, hcx, hI, hX, hex⟩ : ∃ a cx ex, a ≤ 1 ∧ 1 ≤ cx ∧ i0 + 1 = cx - 1 + a ∧
        4 * (i0 + 1) + (pe e ls).1 = 4 * (cx - 1) + ex ∧ (3 ≤ ex ∧ ex ≤ 5) ∧ ex = 4 * a + (pe e ls).1 := by
      rcases hpx with h1 | h1
      · exact ⟨1, i0 + 1, 4 + (pe e ls).1, by omega, by omega, by omega, by omega, by omega, by omega⟩
      · exact ⟨0, i0 + 2, (pe e ls).1, by omega, by omega, by omega, by omega, by omega, by omega⟩
    obtain ⟨b, cy, ey, hb, hcy, hJ, hY, hey⟩ : ∃ b cy ey, b ≤ 1 ∧ 1 ≤ cy ∧ j0 + 1 = cy - 1 + b ∧
        4 * (j0 + 1) + (pe e ls).2 = 4 * (cy - 1) + ey ∧ (3 ≤ ey ∧ ey ≤ 5) ∧ ey = 4 * b + (pe e ls).2 := by
      rcases hpy with h1 | h1
      · exact ⟨1, j0 + 1, 4 + (pe e ls).2, by omega, by omega, by omega, by omega, by omega, by omega⟩
      · exact ⟨0, j0 + 2, (pe e ls).2, by omega, by omega, by omega, by omega, by omega, by omega⟩
    rw [hX, hY]
    -- the window round that corner
    have hok := hwin _ (encWin_lt (gwin g cx cy))
    simp only [windowOk] at hok
    have hnb := nb_window g cx cy a b ha hb (by omega) (by omega) hcx hcy
    rw [← hI, ← hJ] at hnb
    have hpw : ∀ (e2 : Bool) (a' b' : Nat), a' ≤ 1 → b' ≤ 1 →
        cntAt e2 (pixelSegs g (cx - 1 + a') (cy - 1 + b')) (qpt (4 * (cx - 1) + ex) (4 * (cy - 1) + ey)) =
        cntAt e2 (pixelSegs (windowFn (encWin (gwin g cx cy))) (1 + a') (1 + b')) (qpt (4 * 1 + ex) (4 * 1 + ey)) :=
      fun e2 a' b' ha' hb' => pixel_eq_window e2 g hg0 cx cy a' b' ex ey ha' hb' hcx hcy (by omega) (by omega)
        (by omega) (by omega)
    generalize hg' : windowFn (encWin (gwin g cx cy)) = g' at hok hnb hpw
    -- the twin of our segment in the window
    have hmem : place (1 + a) (1 + b) ls ∈ pixelSegs g' (1 + a) (1 + b) := by
      rw [pixelSegs_local g' _ _ (by omega) (by omega), ← hnb]
      exact List.mem_map_of_mem hls
    have hmemW : place (1 + a) (1 + b) ls ∈
        pixelSegs g' 1 1 ++ pixelSegs g' 2 1 ++ pixelSegs g' 1 2 ++ pixelSegs g' 2 2 := by
      have ha' : a = 0 ∨ a = 1 := by omega
      have hb' : b = 0 ∨ b = 1 := by omega
      rcases ha' with rfl | rfl <;> rcases hb' with rfl | rfl
      · exact List.mem_append_left _ (List.mem_append_left _ (List.mem_append_left _ hmem))
      · exact List.mem_append_left _ (List.mem_append_right _ hmem)
      · exact List.mem_append_left _ (List.mem_append_left _ (List.mem_append_right _ hmem))
      · exact List.mem_append_right _ hmem
    have hs := List.all_eq_true.1 hok _ hmemW
    simp only [Bool.and_eq_true, Bool.or_eq_true, Bool.not_eq_true'] at hs
    have hsel : selP e (place (1 + a) (1 + b) ls) = qpt (4 * 1 + ex) (4 * 1 + ey) := by
      rw [selP_place e _ _ ls (by omega) (by omega) b1 b2 b3 b4]
      congr 1 <;> omega
    have hnear : nearCentre (selP e (place (1 + a) (1 + b) ls)) = true := by
      rw [hsel]; exact nearCentre_qpt _ _ (by omega) (by omega)
    have hone : inOutOneAt (pixelSegs g' 1 1 ++ pixelSegs g' 2 1 ++ pixelSegs g' 1 2 ++ pixelSegs g' 2 2)
        (qpt (4 * 1 + ex) (4 * 1 + ey)) = true := by
      have hE := win_end e _ _ hs
      rw [hsel] at hE hnear
      rcases hE with h | h
      · rw [hnear] at h; cases h
      · exact h
    rw [inOutOneAt_iff] at hone ⊢
    -- counts of the mesh = counts of the window, pixel by pixel
    have hcount : ∀ e2 : Bool, cntAt e2 (bitmapMesh g w h) (qpt (4 * (cx - 1) + ex) (4 * (cy - 1) + ey)) =
        cntAt e2 (pixelSegs g' 1 1 ++ pixelSegs g' 2 1 ++ pixelSegs g' 1 2 ++ pixelSegs g' 2 2)
          (qpt (4 * 1 + ex) (4 * 1 + ey)) := by
      intro e2
      have hm := cnt_mesh_corner e2 g w h (by omega) (by omega) hg cx cy ex ey hcx hcy (by omega) (by omega)
        hex.1 hey.1
      simp only at hm
      rw [hm, cntAt_append, cntAt_append, cntAt_append]
      have p00 := hpw e2 0 0 (by omega) (by omega)
      have p10 := hpw e2 1 0 (by omega) (by omega)
      have p01 := hpw e2 0 1 (by omega) (by omega)
      have p11 := hpw e2 1 1 (by omega) (by omega)
      have e1 : cx - 1 + 1 = cx := by omega
      have e2' : cy - 1 + 1 = cy := by omega
      simp only [Nat.add_zero, Nat.reduceAdd, e1, e2'] at p00 p10 p01 p11
      rw [p00, p10, p01, p11]
      omega
    rw [hcount false, hcount true]
    exact hone
  -- every segment of the mesh is a placed local segment of some pixel of the image
  unfold inOutOne
  rw [List.all_eq_true]
  intro s hs
  unfold bitmapMesh at hs
  obtain ⟨j0, hj0, hs⟩ := List.mem_flatMap.1 hs
  obtain ⟨i0, hi0, hs⟩ := List.mem_flatMap.1 hs
  rw [pixelSegs_local g _ _ (by omega) (by omega)] at hs
  obtain ⟨ls, hls, rfl⟩ := List.mem_map.1 hs
  have k1 := key false i0 j0 (List.mem_range.1 hi0) (List.mem_range.1 hj0) ls hls
  have k2 := key true i0 j0 (List.mem_range.1 hi0) (List.mem_range.1 hj0) ls hls
  rw [selP_false] at k1
  rw [selP_true] at k2
  rw [k1, k2]
  rfl

end M3d.Marching.Bitmap
