import M3d.Gen.Kernels
import M3d.Model.SmartSqueeze
import M3d.Lemmas.LoopFrom
import Mathlib.Tactic.SplitIfs
import Mathlib.Algebra.Order.Field.Basic
import Mathlib.Algebra.Order.Field.Rat
import Mathlib.Tactic.NormNum
/-!
# Tie between the REGENERATED `toolbox3d.SmartSqueeze.checkSqueezed` and the scan of the C05 model

`SmartSqueeze.Transform` (`toolbox3d/squeeze.go`) walks along the axis with `checkSqueezed(value)`: two loops
(over `Unsqueezable`, then over the pinch ranges `[p − PinchRange, p + PinchRange)`) that share the variable
`next`, initially `math.Inf(1)`, and return early when `value` lies in a range.  `M3d/Model/SmartSqueeze.lean`
models them as `scanRanges v (smartRanges …) none` with `none` standing for `+Inf`; the theorems
`M3d.C05.smart_squeeze_terminates / _pieces / _slope / _rigid / _inverse` are about the loop built on that scan.

`checkSqueezed_eq` proves, over every linear ordered field, that the definition the translator regenerates from the
current source (`M3d/Gen/Kernels.lean`, two `loopFrom`s with `Loop.ret`) **is** that scan, under the one hypothesis
`+Inf` needs in a field: every range start is below `HasInf.posInf`.
-/
namespace M3d.KernelsTie.Squeeze
open M3d.Tf M3d.Gen.Kernels M3d.GenPrelude
set_option linter.unusedSectionVars false
set_option linter.unusedVariables false
set_option linter.unusedSimpArgs false

variable {K : Type} [Field K] [LinearOrder K] [IsStrictOrderedRing K] [HasInf K]

/-- the Go variable `next`: `+Inf` until a range start above `value` has been seen -/
def nx (o : Option K) : K := o.getD HasInf.posInf

/-- The scan of one list of ranges: `Sum.inl e` when `v` lies in a range (`e` = that range's end: the early
`return false, e`), otherwise the updated `next`. -/
def scanStep (v : K) : List (K × K) → Option K → Sum K (Option K)
  | [], o => Sum.inr o
  | (a, b) :: rest, o =>
      if a ≤ v ∧ v < b then Sum.inl b
      else if v < a ∧ ltNext a o = true then scanStep v rest (some a)
      else scanStep v rest o

theorem scanRanges_eq (v : K) : ∀ (l : List (K × K)) (o : Option K),
    scanRanges v l o = match scanStep v l o with
      | Sum.inl e => (false, some e)
      | Sum.inr o' => (true, o')
  | [], o => rfl
  | (a, b) :: rest, o => by
      simp only [scanRanges, scanStep]
      split_ifs
      · rfl
      · exact scanRanges_eq v rest (some a)
      · exact scanRanges_eq v rest o

theorem scanStep_append (v : K) : ∀ (l l' : List (K × K)) (o : Option K),
    scanStep v (l ++ l') o = match scanStep v l o with
      | Sum.inl e => Sum.inl e
      | Sum.inr o' => scanStep v l' o'
  | [], l', o => rfl
  | (a, b) :: rest, l', o => by
      simp only [List.cons_append, scanStep]
      split_ifs
      · rfl
      · exact scanStep_append v rest l' (some a)
      · exact scanStep_append v rest l' o

/-- One scanning loop of `checkSqueezed`, for any loop body `f` that behaves like the Go body on the range
`rng el` of each element: early return inside a range, otherwise `next` moves down to a closer start. -/
theorem scanLoop {ε : Type} (v : K) (f : Bool × K → Nat → ε → Loop (Bool × K) (Bool × K)) (rng : ε → K × K)
    (hf : ∀ b n i el, f (b, n) i el =
      if (rng el).1 ≤ v ∧ v < (rng el).2 then Loop.ret (false, (rng el).2)
      else Loop.next (b, if v < (rng el).1 ∧ (rng el).1 < n then (rng el).1 else n)) :
    ∀ (els : List ε) (i : Nat) (b : Bool) (n : K) (o : Option K), n = nx o →
      (∀ el ∈ els, (rng el).1 < HasInf.posInf) →
      loopFrom f els i (b, n) = match scanStep v (els.map rng) o with
        | Sum.inl e => Sum.inl (false, e)
        | Sum.inr o' => Sum.inr (b, nx o')
  | [], i, b, n, o, hn, _ => by simp [scanStep, hn]
  | el :: els, i, b, n, o, hn, hst => by
      have hlt : (rng el).1 < HasInf.posInf := hst el (List.mem_cons_self ..)
      have hrest : ∀ el' ∈ els, (rng el').1 < HasInf.posInf := fun el' h => hst el' (List.mem_cons_of_mem _ h)
      have hnext : ((rng el).1 < n) = (ltNext (rng el).1 o = true) := by
        subst hn
        cases o with
        | none => simp [nx, ltNext, hlt]
        | some x => simp [nx, ltNext]
      rw [loopFrom_cons, hf]
      rcases hr : rng el with ⟨a, e⟩
      simp only [hr] at hnext hlt
      simp only [List.map_cons, hr, scanStep]
      by_cases h1 : a ≤ v ∧ v < e
      · simp only [h1, and_self, if_true]
      · simp only [h1, if_false]
        by_cases h2 : v < a ∧ a < n
        · have h2' : v < a ∧ ltNext a o = true := ⟨h2.1, by rw [← hnext]; exact h2.2⟩
          simp only [h2, h2', and_self, if_true]
          exact scanLoop v f rng hf els (i + 1) b a (some a) rfl hrest
        · have h2' : ¬ (v < a ∧ ltNext a o = true) := by
            rintro ⟨h3, h4⟩; exact h2 ⟨h3, by rw [hnext]; exact h4⟩
          simp only [h2, h2', if_false]
          exact scanLoop v f rng hf els (i + 1) b n o hn hrest

/-- **`SmartSqueeze.checkSqueezed`, as the source defines it now, is the model's scan** of the unsqueezable
ranges followed by the pinch ranges (`none` = `+Inf`), provided every range start is below `+Inf`. -/
theorem checkSqueezed_eq (s : toolbox3d.SmartSqueeze K) (v : K)
    (hU : ∀ a ∈ s.Unsqueezable, a.e0 < HasInf.posInf)
    (hP : ∀ p ∈ s.Pinches, p - s.PinchRange < HasInf.posInf) :
    toolbox3d.SmartSqueeze_checkSqueezed s v =
      ((scanRanges v (smartRanges (s.Unsqueezable.map fun a => (a.e0, a.e1)) s.Pinches s.PinchRange) none).1,
        nx (scanRanges v (smartRanges (s.Unsqueezable.map fun a => (a.e0, a.e1)) s.Pinches s.PinchRange) none).2) := by
  unfold toolbox3d.SmartSqueeze_checkSqueezed
  simp only [scanRanges_eq, smartRanges, scanStep_append]
  rw [scanLoop v _ (fun a : Arr2 K => (a.e0, a.e1)) ?_ s.Unsqueezable 0 false HasInf.posInf none rfl hU]
  · cases h1 : scanStep v (s.Unsqueezable.map fun a => (a.e0, a.e1)) none with
    | inl e => simp [nx]
    | inr o' =>
        simp only []
        rw [scanLoop v _ (fun p : K => (p - s.PinchRange, p + s.PinchRange)) ?_ s.Pinches 0 false (nx o') o' rfl hP]
        · cases h2 : scanStep v (s.Pinches.map fun p => (p - s.PinchRange, p + s.PinchRange)) o' with
          | inl e => simp [nx]
          | inr o'' => simp
        · intro b n i el
          simp only [ge_iff_le, gt_iff_lt, Bool.and_eq_true, decide_eq_true_eq]
  · intro b n i el
    simp only [ge_iff_le, gt_iff_lt, Bool.and_eq_true, decide_eq_true_eq]

/-- non-vacuity: with `+Inf` interpreted as any bound above the range starts (here 1000 at `ℚ`) the hypotheses hold. -/
example : (letI : HasInf ℚ := ⟨1000, -1000, fun _ => false⟩
    ∀ a ∈ [(⟨1, 2⟩ : Arr2 ℚ), ⟨5 / 2, 3⟩], a.e0 < (HasInf.posInf : ℚ)) := by
  intro a ha
  simp only [List.mem_cons, List.not_mem_nil, or_false] at ha
  rcases ha with rfl | rfl <;> norm_num [HasInf.posInf]

end M3d.KernelsTie.Squeeze
