import M3d.Lemmas.MsLift
/-!
The local→global lift for marching cubes, part 1 (definitions, what one cell contributes, the
triple sum).  From facts about single rows of the 256-row lookup table (and pairs of rows across a
shared lattice face) to *every* lattice labelling with an empty outer layer: every directed mesh
edge is matched by exactly one oppositely directed edge.  Core-only.
-/
namespace M3d.Marching

/-- A position in doubled coordinates (local: inside the 3×3×3 box of a cell; global: `GV`). -/
abbrev P3 := Nat × Nat × Nat

/-- Local doubled position of the vertex on cube edge `e` inside its cell (each coordinate 0, 1 or 2;
exactly one of them is 1 for a genuine cube edge). -/
def loc3 (e : Vtx) : P3 :=
  (bit e.1 0 + bit e.2 0, bit e.1 1 + bit e.2 1, bit e.1 2 + bit e.2 2)

/-- A local position packed into one number `< 27`. -/
def pc3 (a b c : Nat) : Nat := a + 3 * b + 9 * c

def pcode (p : P3) : Nat := pc3 p.1 p.2.1 p.2.2

/-- A directed local edge packed into one number `< 729`. -/
def ecode (d : DEdge) : Nat := 27 * pcode (loc3 d.1) + pcode (loc3 d.2)

/-- LOCAL directed-edge count of a row: how many triangle sides of the row run from the local
position with code `n / 27` to the one with code `n % 27`. -/
def lcnt (row : List (List Nat)) (n : Nat) : Nat :=
  (rowEdges row).countP fun d => Nat.beq (ecode d) n

/-- The triangles cell `(x,y,z)` contributes to `mcMesh`. -/
def cellTris (table : List (List (List Nat))) (lab : Nat → Nat → Nat → Bool) (x y z : Nat) :
    List (GV × GV × GV) :=
  (getRow table (cellCfg lab x y z)).filterMap fun r => match r with
    | [a0, a1, b0, b1, c0, c1] => some (gvOf x y z a0 a1, gvOf x y z b0 b1, gvOf x y z c0 c1)
    | _ => none

theorem mcMesh_eq (table : List (List (List Nat))) (nx ny nz : Nat) (lab : Nat → Nat → Nat → Bool) :
    mcMesh table nx ny nz lab =
      (List.range nz).flatMap fun z => (List.range ny).flatMap fun y => (List.range nx).flatMap fun x =>
        cellTris table lab x y z := rfl

/-- Put a local position into cell `(x,y,z)`. -/
def place (x y z : Nat) (p : P3) : GV := (2 * x + p.1, 2 * y + p.2.1, 2 * z + p.2.2)

theorem gvOf_eq_loc3 (x y z a b : Nat) : gvOf x y z a b = place x y z (loc3 (mkVtx a b)) := by
  unfold gvOf place loc3 mkVtx cornerOff
  by_cases h : a ≤ b
  · simp [h, Nat.add_assoc]
  · simp [h]; omega

/-- The three directed sides of a triangle. -/
def gsides (t : GV × GV × GV) : List (GV × GV) := [(t.1, t.2.1), (t.2.1, t.2.2), (t.2.2, t.1)]

/-- Directed-edge count of a mesh: the number of (triangle, side) pairs whose side runs `d.1 → d.2`. -/
def ecnt (m : List (GV × GV × GV)) (d : GV × GV) : Nat := (m.flatMap gsides).countP fun e => e == d

theorem cellTris_eq_map (table : List (List (List Nat))) (lab : Nat → Nat → Nat → Bool) (x y z : Nat) :
    cellTris table lab x y z =
      (rowTris (getRow table (cellCfg lab x y z))).map fun t =>
        (place x y z (loc3 t.1), place x y z (loc3 t.2.1), place x y z (loc3 t.2.2)) := by
  unfold cellTris rowTris
  rw [List.map_filterMap]
  congr 1
  funext r
  rcases r with _ | ⟨a0, _ | ⟨a1, _ | ⟨b0, _ | ⟨b1, _ | ⟨c0, _ | ⟨c1, _ | ⟨d, r⟩⟩⟩⟩⟩⟩⟩ <;>
    simp [triVerts, gvOf_eq_loc3]

/-- The directed sides of a cell's triangles are the row's directed edges, placed into the cell. -/
theorem cellTris_sides (table : List (List (List Nat))) (lab : Nat → Nat → Nat → Bool) (x y z : Nat) :
    (cellTris table lab x y z).flatMap gsides =
      (rowEdges (getRow table (cellCfg lab x y z))).map fun d =>
        (place x y z (loc3 d.1), place x y z (loc3 d.2)) := by
  rw [cellTris_eq_map]
  unfold rowEdges
  rw [List.flatMap_map, List.map_flatMap]
  rfl

theorem loc3_le (e : Vtx) : (loc3 e).1 ≤ 2 ∧ (loc3 e).2.1 ≤ 2 ∧ (loc3 e).2.2 ≤ 2 := by
  unfold loc3 bit
  refine ⟨?_, ?_, ?_⟩ <;> dsimp only <;> omega

/-- `U` lies in the 3×3×3 box of doubled positions of cell `(x,y,z)`. -/
def inBox (x y z : Nat) (U : GV) : Prop :=
  2 * x ≤ U.1 ∧ U.1 ≤ 2 * x + 2 ∧ 2 * y ≤ U.2.1 ∧ U.2.1 ≤ 2 * y + 2 ∧ 2 * z ≤ U.2.2 ∧ U.2.2 ≤ 2 * z + 2

instance (x y z : Nat) (U : GV) : Decidable (inBox x y z U) := by unfold inBox; infer_instance

/-- Code of the local directed edge `U − 2c → V − 2c`. -/
def lcode (x y z : Nat) (U V : GV) : Nat :=
  27 * pc3 (U.1 - 2 * x) (U.2.1 - 2 * y) (U.2.2 - 2 * z) + pc3 (V.1 - 2 * x) (V.2.1 - 2 * y) (V.2.2 - 2 * z)

/-- What a single cell contributes at a global directed edge. -/
theorem ecnt_cellTris (table : List (List (List Nat))) (lab : Nat → Nat → Nat → Bool)
    (x y z : Nat) (U V : GV) :
    ecnt (cellTris table lab x y z) (U, V) =
      if inBox x y z U ∧ inBox x y z V then
        lcnt (getRow table (cellCfg lab x y z)) (lcode x y z U V)
      else 0 := by
  unfold ecnt lcnt
  rw [cellTris_sides, List.countP_map]
  obtain ⟨U1, U2, U3⟩ := U
  obtain ⟨V1, V2, V3⟩ := V
  by_cases hb : inBox x y z (U1, U2, U3) ∧ inBox x y z (V1, V2, V3)
  · rw [if_pos hb]
    apply List.countP_congr
    intro d _
    have h1 := loc3_le d.1
    have h2 := loc3_le d.2
    unfold inBox at hb
    simp only [Function.comp, beq_iff_eq, Prod.ext_iff, place, lcode, ecode, pcode, pc3,
      Nat.beq_eq] at hb ⊢
    constructor <;> intro h <;> omega
  · rw [if_neg hb]
    apply List.countP_eq_zero.2
    intro d _
    have h1 := loc3_le d.1
    have h2 := loc3_le d.2
    unfold inBox at hb
    simp only [Function.comp, beq_iff_eq, Prod.ext_iff, place] at hb ⊢
    intro h
    apply hb
    omega

/-- The directed-edge count of the whole mesh is the triple sum of the cells' contributions. -/
theorem ecnt_mcMesh (table : List (List (List Nat))) (nx ny nz : Nat)
    (lab : Nat → Nat → Nat → Bool) (d : GV × GV) :
    ecnt (mcMesh table nx ny nz lab) d =
      rsum nz fun z => rsum ny fun y => rsum nx fun x => ecnt (cellTris table lab x y z) d := by
  rw [mcMesh_eq]
  unfold ecnt rsum
  rw [List.flatMap_assoc, List.countP_flatMap]
  congr 1
  apply List.map_congr_left
  intro z _
  simp only [Function.comp]
  rw [List.flatMap_assoc, List.countP_flatMap]
  congr 1
  apply List.map_congr_left
  intro y _
  simp only [Function.comp]
  rw [List.flatMap_assoc, List.countP_flatMap]
  rfl

/-! ### Sums over a range that vanish outside the range and off one or two indices -/

theorem rsum_one (n a : Nat) (f : Nat → Nat) (h : ∀ k, k < n → k ≠ a → f k = 0)
    (hr : n ≤ a → f a = 0) : rsum n f = f a := by
  rw [rsum_single n a f h]
  by_cases ha : a < n
  · simp [ha]
  · simp [ha]; exact (hr (by omega)).symm

theorem rsum_two (n a b : Nat) (hab : a ≠ b) (f : Nat → Nat)
    (h : ∀ k, k < n → k ≠ a → k ≠ b → f k = 0)
    (hra : n ≤ a → f a = 0) (hrb : n ≤ b → f b = 0) : rsum n f = f a + f b := by
  rw [rsum_pair n a b hab f h]
  by_cases ha : a < n <;> by_cases hb : b < n <;> simp [ha, hb]
  · exact hrb (by omega)
  · exact hra (by omega)
  · rw [hra (by omega), hrb (by omega)]

/-- Axis condition: cell coordinate `c` has both `u` and `v` in its doubled range. -/
def ax (c u v : Nat) : Prop := 2 * c ≤ u ∧ u ≤ 2 * c + 2 ∧ 2 * c ≤ v ∧ v ≤ 2 * c + 2

/-- The (larger) candidate cell coordinate for doubled coordinates `u`, `v`. -/
def hi (u v : Nat) : Nat := if u ≤ v then u / 2 else v / 2

theorem hi_comm (u v : Nat) : hi u v = hi v u := by
  unfold hi
  by_cases h1 : u ≤ v <;> by_cases h2 : v ≤ u <;> simp [h1, h2] <;> omega

/-- `u = v` is an even doubled coordinate `≥ 2`: two cells (`u/2` and `u/2 − 1`) contain it. -/
def und (u v : Nat) : Prop := u = v ∧ u % 2 = 0 ∧ 2 ≤ u

instance (u v : Nat) : Decidable (und u v) := by unfold und; infer_instance

/-- One level of the triple sum: a function of a cell coordinate that vanishes off the cells
containing `u` and `v` and outside the lattice sums to its values at the one or two candidates. -/
theorem rsum_lvl (n u v : Nat) (f : Nat → Nat) (hs : ∀ c, ¬ ax c u v → f c = 0)
    (hr : ∀ c, n ≤ c → f c = 0) :
    rsum n f = f (hi u v) + (if und u v then f (hi u v - 1) else 0) := by
  by_cases hu : und u v
  · rw [if_pos hu]
    unfold und at hu
    have e : hi u v = u / 2 := by unfold hi; simp [hu.1]
    rw [e]
    apply rsum_two n (u / 2) (u / 2 - 1) (by omega) f
    · intro k _ h1 h2
      apply hs
      unfold ax
      omega
    · exact hr _
    · exact hr _
  · rw [if_neg hu, Nat.add_zero]
    apply rsum_one n (hi u v) f
    · intro k _ h1
      apply hs
      unfold ax
      unfold und at hu
      unfold hi at h1
      by_cases h : u ≤ v
      · simp only [h, if_true] at h1; omega
      · simp only [h, if_false] at h1; omega
    · exact hr _

end M3d.Marching
