import Mathlib.Order.WithBot
import Mathlib.Tactic.Order
import Mathlib.Tactic.SplitIfs
import M3d.Model.SolidAlg
/-!
Helper lemmas for C04: the `closestDists` update of the smooth joins keeps the two largest
values seen so far.  The order reasoning is done once over a linear order `κ`
(instantiated with `WithBot K`: distances together with `-Inf`), then transported to the
executable model (`leE`, `ins`, `step`, `smoothLoop` on `Option K`).
-/
namespace M3d.SolidAlg
set_option linter.unusedSectionVars false
set_option linter.unusedVariables false

section Top2
variable {κ : Type} [LinearOrder κ]

/-- The insertion step on a linear order (what `ins` is for `key = id`). -/
def ins1 (st : κ × κ) (d : κ) : κ × κ :=
  if st.1 ≤ d then (d, st.1) else if st.2 < d then (st.1, d) else st

theorem ins1_ordered {st : κ × κ} (h : st.2 ≤ st.1) (d : κ) : (ins1 st d).2 ≤ (ins1 st d).1 := by
  obtain ⟨c0, c1⟩ := st
  simp only [ins1]; split_ifs <;> order

theorem ins1_comm {st : κ × κ} (h : st.2 ≤ st.1) (a b : κ) :
    ins1 (ins1 st a) b = ins1 (ins1 st b) a := by
  obtain ⟨c0, c1⟩ := st
  simp only at h
  simp only [ins1]
  split_ifs <;> (try dsimp only at *) <;> (try simp only [Prod.mk.injEq]) <;>
    first | trivial | order | (constructor <;> first | trivial | order)

theorem foldl_ins1_perm {l₁ l₂ : List κ} (hp : l₁.Perm l₂) :
    ∀ {st : κ × κ}, st.2 ≤ st.1 → l₁.foldl ins1 st = l₂.foldl ins1 st := by
  induction hp with
  | nil => intro st _; rfl
  | cons a _ ih => intro st h; exact ih (ins1_ordered h a)
  | swap a b l => intro st h; simp only [List.foldl_cons]; rw [ins1_comm h]
  | trans _ _ ih₁ ih₂ => intro st h; rw [ih₁ h, ih₂ h]

/-- Once the slots hold `a ≥ b`, values `≤ b` change nothing. -/
theorem foldl_ins1_small {a b : κ} (hab : b ≤ a) (l : List κ) (hl : ∀ d ∈ l, d ≤ b) :
    l.foldl ins1 (a, b) = (a, b) := by
  induction l with
  | nil => rfl
  | cons d l ih =>
    have hd : d ≤ b := hl d (by simp)
    have : ins1 (a, b) d = (a, b) := by
      simp only [ins1]
      split_ifs with h1 h2
      · have e1 : d = a := by order
        have e2 : b = a := by order
        simp [e1, e2]
      · exact absurd hd (by order)
      · rfl
    simp only [List.foldl_cons, this]
    exact ih (fun d hd => hl d (by simp [hd]))

/-- On a list sorted downwards the fold returns its first two entries. -/
theorem foldl_ins1_sorted [OrderBot κ] (a b : κ) (rest : List κ) (hb : b ≠ ⊥)
    (hab : b ≤ a) (hrest : ∀ d ∈ rest, d ≤ b) :
    (a :: b :: rest).foldl ins1 (⊥, ⊥) = (a, b) := by
  have h1 : ins1 ((⊥ : κ), (⊥ : κ)) a = (a, ⊥) := by simp [ins1]
  have h2 : ins1 (a, (⊥ : κ)) b = (a, b) := by
    simp only [ins1]
    split_ifs with h h'
    · have : a = b := by order
      simp [this]
    · rfl
    · exact absurd (bot_lt_iff_ne_bot.mpr hb) h'
  simp only [List.foldl_cons, h1, h2]
  exact foldl_ins1_small hab rest hrest

end Top2

/-! ### Transport to the executable model -/
section Model
variable {K : Type} [LinearOrder K]

/-- `ins` with `key = id` is the order-theoretic insertion on `WithBot K`. -/
theorem ins_id_eq (st : Option K × Option K) (e : Option K) :
    ins (E := Option K) id st e = ins1 (κ := WithBot K) st e := by
  obtain ⟨c0, c1⟩ := st
  cases c0 <;> cases c1 <;> cases e <;>
    simp only [ins, leE, id, Bool.not_true, Bool.not_false, if_true, if_false, Bool.false_eq_true,
      decide_eq_true_eq, Bool.not_eq_true', decide_eq_false_iff_not] <;>
    simp [ins1, WithBot.none_eq_bot, WithBot.some_eq_coe] <;> rfl

/-- The state after running the loop body over a list, when no early return happens. -/
def stepFold {α E} [LE α] [DecidableLE α] (key : E → Option α) : Nat → E × E → List E → E × E
  | _, st, [] => st
  | i, st, e :: es => stepFold key (i + 1) (step key i st e) es

theorem smoothLoop_eq {α E} [LE α] [DecidableLE α] [LT α] [DecidableLT α] [OfNat α 0]
    (key : E → Option α) (i : Nat) (st : E × E) (l : List E) :
    smoothLoop key i st l = if l.any (fun e => posE (key e)) then none else some (stepFold key i st l) := by
  induction l generalizing i st with
  | nil => simp [smoothLoop, stepFold]
  | cons e es ih =>
    simp only [smoothLoop, List.any_cons, stepFold]
    by_cases h : posE (key e) = true
    · simp [h]
    · rw [Bool.not_eq_true] at h
      simp only [h, Bool.false_eq_true, if_false, Bool.false_or]
      exact ih _ _

theorem stepFold_ge2 {α E} [LE α] [DecidableLE α] (key : E → Option α) (i : Nat) (hi : 2 ≤ i)
    (st : E × E) (l : List E) : stepFold key i st l = l.foldl (ins key) st := by
  induction l generalizing i st with
  | nil => rfl
  | cons e es ih =>
    have : ¬ i < 2 := by omega
    simp only [stepFold, List.foldl_cons, step, this, if_false]
    exact ih (i + 1) (by omega) _

theorem step01 (a b : K) :
    step (E := Option K) id 1 (step (E := Option K) id 0 (none, none) (some a)) (some b)
      = ins1 (κ := WithBot K) (ins1 (κ := WithBot K) (⊥, ⊥) (a : WithBot K)) (b : WithBot K) := by
  have hL0 : step (E := Option K) id 0 (none, none) (some a) = (some a, none) := by simp [step]
  have hR0 : ins1 (κ := WithBot K) (⊥, ⊥) (a : WithBot K) = ((a : WithBot K), ⊥) := by simp [ins1]
  rw [hL0, hR0]
  have hL1 : step (E := Option K) id 1 (some a, none) (some b)
      = if a < b then (some b, some a) else (some a, some b) := by
    simp [step, leE]
  rw [hL1]
  simp only [ins1, WithBot.coe_le_coe, WithBot.bot_lt_coe, if_true]
  by_cases h : a ≤ b
  · by_cases h' : a < b
    · simp [h, h']; rfl
    · have : a = b := le_antisymm h (le_of_not_gt h')
      subst this
      simp; rfl
  · have h' : ¬ a < b := fun h' => h (le_of_lt h')
    simp [h, h']; rfl

theorem foldl_ins_id_eq (st : Option K × Option K) (l : List (Option K)) :
    l.foldl (ins (E := Option K) id) st = l.foldl (ins1 (κ := WithBot K)) st := by
  induction l generalizing st with
  | nil => rfl
  | cons e es ih =>
    simp only [List.foldl_cons]
    rw [ins_id_eq]
    exact ih _

/-- For real distances (`some d`) the indexed loop body is the plain insertion from `(-Inf, -Inf)`. -/
theorem stepFold_id_eq (ds : List K) :
    stepFold (E := Option K) id 0 (none, none) (ds.map some)
      = (ds.map some).foldl (ins1 (κ := WithBot K)) (⊥, ⊥) := by
  match ds with
  | [] => rfl
  | [a] =>
    have hL0 : step (E := Option K) id 0 (none, none) (some a) = (some a, none) := by simp [step]
    have hR0 : ins1 (κ := WithBot K) (⊥, ⊥) (a : WithBot K) = ((a : WithBot K), ⊥) := by simp [ins1]
    simp only [List.map_cons, List.map_nil, stepFold, List.foldl_cons, List.foldl_nil, hL0]
    exact hR0.symm
  | a :: b :: rest =>
    simp only [List.map_cons, stepFold, List.foldl_cons]
    rw [stepFold_ge2 _ _ (by omega), foldl_ins_id_eq]
    exact congrArg (fun st => List.foldl (ins1 (κ := WithBot K)) st (List.map some rest)) (step01 a b)

end Model
end M3d.SolidAlg

namespace M3d.SolidAlg
section Spec
variable {K : Type} [LinearOrder K]

theorem geB_trans (a b c : K) : decide (b ≤ a) = true → decide (c ≤ b) = true → decide (c ≤ a) = true := by
  simp only [decide_eq_true_eq]; intro h1 h2; exact le_trans h2 h1

theorem geB_total (a b : K) : (decide (b ≤ a) || decide (a ≤ b)) = true := by
  simp only [Bool.or_eq_true, decide_eq_true_eq]; exact le_total b a

/-- The sorted list `top2Spec` looks at. -/
def sortedDesc (ds : List K) : List K := ds.mergeSort (fun a b => decide (b ≤ a))

theorem sortedDesc_perm (ds : List K) : (sortedDesc ds).Perm ds := List.mergeSort_perm _ _

theorem sortedDesc_pairwise (ds : List K) : (sortedDesc ds).Pairwise (fun a b => b ≤ a) := by
  have := List.pairwise_mergeSort (le := fun a b : K => decide (b ≤ a)) geB_trans geB_total ds
  simpa [sortedDesc] using this

theorem top2Spec_eq (ds : List K) : top2Spec ds = ((sortedDesc ds)[0]?, (sortedDesc ds)[1]?) := rfl

/-- The insertion fold from `(-Inf, -Inf)` returns the first two entries of the list sorted downwards. -/
theorem foldl_ins1_eq_top2Spec (ds : List K) :
    (ds.map some).foldl (ins1 (κ := WithBot K)) (⊥, ⊥) = top2Spec ds := by
  have hp : ((sortedDesc ds).map some).Perm (ds.map some) := (sortedDesc_perm ds).map _
  have hpw := sortedDesc_pairwise ds
  rw [← foldl_ins1_perm (κ := WithBot K) hp (st := (⊥, ⊥)) (le_refl _), top2Spec_eq]
  generalize sortedDesc ds = s at hpw
  match s, hpw with
  | [], _ => rfl
  | [a], _ =>
    show ins1 (κ := WithBot K) (⊥, ⊥) (a : WithBot K) = _
    simp [ins1]; rfl
  | a :: b :: rest, hpw =>
    have hab : b ≤ a := List.rel_of_pairwise_cons hpw (List.mem_cons_self)
    have hrest : ∀ d ∈ rest, d ≤ b := by
      intro d hd
      have h2 := (List.pairwise_cons.mp hpw).2
      exact List.rel_of_pairwise_cons h2 hd
    have := foldl_ins1_sorted (κ := WithBot K) (a : WithBot K) (b : WithBot K) (rest.map some)
      WithBot.coe_ne_bot (WithBot.coe_le_coe.mpr hab)
      (by
        intro d hd
        obtain ⟨x, hx, rfl⟩ := List.mem_map.mp hd
        exact WithBot.coe_le_coe.mpr (hrest x hx))
    exact this

theorem top2Spec_perm {ds₁ ds₂ : List K} (h : ds₁.Perm ds₂) : top2Spec ds₁ = top2Spec ds₂ := by
  rw [← foldl_ins1_eq_top2Spec, ← foldl_ins1_eq_top2Spec]
  exact foldl_ins1_perm (κ := WithBot K) (h.map _) (st := (⊥, ⊥)) (le_refl _)

/-- Shape of `top2Spec`: either nothing, one entry, or the two largest with everything else below. -/
theorem top2Spec_cases (ds : List K) :
    (ds = [] ∧ top2Spec ds = (none, none)) ∨
    (∃ a, ds = [a] ∧ top2Spec ds = (some a, none)) ∨
    (∃ a b rest, (a :: b :: rest).Perm ds ∧ b ≤ a ∧ (∀ d ∈ rest, d ≤ b) ∧ top2Spec ds = (some a, some b)) := by
  have hp := sortedDesc_perm ds
  have hpw := sortedDesc_pairwise ds
  rw [top2Spec_eq]
  generalize sortedDesc ds = s at hp hpw
  match s, hp, hpw with
  | [], hp, _ => left; exact ⟨(List.perm_nil.mp hp.symm), rfl⟩
  | [a], hp, _ => right; left; exact ⟨a, (List.perm_singleton.mp hp.symm), rfl⟩
  | a :: b :: rest, hp, hpw =>
    right; right
    refine ⟨a, b, rest, hp, ?_, ?_, rfl⟩
    · exact List.rel_of_pairwise_cons hpw (List.mem_cons_self)
    · intro d hd
      exact List.rel_of_pairwise_cons (List.pairwise_cons.mp hpw).2 hd

end Spec
end M3d.SolidAlg

/-! ### `SmoothJoinV2`: the distances evolve exactly as in `SmoothJoin`; the normals ride along -/
namespace M3d.SolidAlg
section V2
variable {α E : Type} [LE α] [DecidableLE α]

theorem step_key (key : E → Option α) (i : Nat) (st : E × E) (e : E) :
    Prod.map key key (step key i st e) = step (E := Option α) id i (Prod.map key key st) (key e) := by
  obtain ⟨c0, c1⟩ := st
  simp only [step, ins, Prod.map, id]
  split_ifs <;> rfl

theorem stepFold_key (key : E → Option α) (i : Nat) (st : E × E) (l : List E) :
    Prod.map key key (stepFold key i st l) = stepFold (E := Option α) id i (Prod.map key key st) (l.map key) := by
  induction l generalizing i st with
  | nil => rfl
  | cons e es ih => simp only [stepFold, List.map_cons]; rw [ih, step_key]

/-- Every slot holds the initial value or one of the operands' answers. -/
theorem step_mem (key : E → Option α) (i : Nat) (st : E × E) (e : E) :
    ((step key i st e).1 = st.1 ∨ (step key i st e).1 = st.2 ∨ (step key i st e).1 = e) ∧
    ((step key i st e).2 = st.1 ∨ (step key i st e).2 = st.2 ∨ (step key i st e).2 = e) := by
  obtain ⟨c0, c1⟩ := st
  simp only [step, ins]
  split_ifs <;> simp

theorem stepFold_mem (key : E → Option α) (i : Nat) (st : E × E) (l : List E) :
    ((stepFold key i st l).1 = st.1 ∨ (stepFold key i st l).1 = st.2 ∨ (stepFold key i st l).1 ∈ l) ∧
    ((stepFold key i st l).2 = st.1 ∨ (stepFold key i st l).2 = st.2 ∨ (stepFold key i st l).2 ∈ l) := by
  induction l generalizing i st with
  | nil => simp [stepFold]
  | cons e es ih =>
    simp only [stepFold]
    have h := ih (i + 1) (step key i st e)
    have hs := step_mem key i st e
    constructor
    · rcases h.1 with h1 | h1 | h1
      · rw [h1]; rcases hs.1 with h2 | h2 | h2 <;> simp [h2]
      · rw [h1]; rcases hs.2 with h2 | h2 | h2 <;> simp [h2]
      · simp [h1]
    · rcases h.2 with h1 | h1 | h1
      · rw [h1]; rcases hs.1 with h2 | h2 | h2 <;> simp [h2]
      · rw [h1]; rcases hs.2 with h2 | h2 | h2 <;> simp [h2]
      · simp [h1]

end V2
end M3d.SolidAlg

namespace M3d.SolidAlg
section Desc
variable {K : Type} [LinearOrder K]

/-- On a list that is already sorted downwards, the two largest entries are the first two. -/
theorem top2Spec_of_desc (l : List K) (h : l.Pairwise (fun a b => b ≤ a)) : top2Spec l = (l[0]?, l[1]?) := by
  rw [← foldl_ins1_eq_top2Spec]
  match l, h with
  | [], _ => rfl
  | [a], _ =>
    show ins1 (κ := WithBot K) (⊥, ⊥) (a : WithBot K) = _
    simp [ins1]; rfl
  | a :: b :: rest, h =>
    have hab : b ≤ a := List.rel_of_pairwise_cons h (List.mem_cons_self)
    have hrest : ∀ d ∈ rest, d ≤ b := fun d hd =>
      List.rel_of_pairwise_cons (List.pairwise_cons.mp h).2 hd
    exact foldl_ins1_sorted (κ := WithBot K) (a : WithBot K) (b : WithBot K) (rest.map some)
      WithBot.coe_ne_bot (WithBot.coe_le_coe.mpr hab)
      (by
        intro d hd
        obtain ⟨x, hx, rfl⟩ := List.mem_map.mp hd
        exact WithBot.coe_le_coe.mpr (hrest x hx))

/-- The distances in the two slots of `SmoothJoinV2` are the top two distances. -/
theorem stepFold_keys {V : Type} (z : V) (es : List (K × V)) :
    Prod.map Prod.fst Prod.fst (stepFold (E := Option K × V) Prod.fst 0 ((none, z), (none, z))
      (es.map fun e => (some e.1, e.2)))
    = top2Spec (es.map (·.1)) := by
  rw [stepFold_key]
  simp only [Prod.map, List.map_map, Function.comp_def]
  have := stepFold_id_eq (es.map (·.1))
  simp only [List.map_map, Function.comp_def] at this
  rw [this]
  have := foldl_ins1_eq_top2Spec (es.map (·.1))
  simp only [List.map_map, Function.comp_def] at this
  exact this

end Desc
end M3d.SolidAlg
