import M3d.Gen.Kernels
import M3d.Model.Box
import M3d.Model.Spatial
import Mathlib.Tactic.Ring
import Mathlib.Tactic.SplitIfs
import Mathlib.Algebra.Order.Field.Basic
/-!
# Tie between the REGENERATED kernels and the box prefilters of C08 (`M3d/Model/Box.lean`)

`pointToBoundsDistSquared`, `sphereTouchesBounds` / `circleTouchesBounds` (the pruning bounds of every
hierarchy query of C08: the loop over the axes with its shadowed `min`/`max`, unrolled by the translator)
and `Coord3D.Min/Max/SquaredDist` as the Go source defines them NOW are the model functions
`ptBoxDistSq3/2`, `sphereTouches3/2`, `V3.min/max`, `V3.sqDist` that the C08 soundness theorems
(`M3d/Lemmas/Box.lean`, `Prune`) are about; `boundsArea` (the score of `bestSplitAxis` /
`multipleBoundsArea` in `GroupBounders`, and of `areaDensityBVHSplit`) is `boundsArea3/2` of
`M3d/Model/Spatial.lean`, which the driver runs in the `group` kind.
-/
namespace M3d.KernelsTie.Box
open M3d.Box M3d.Gen.Kernels M3d.GenPrelude
set_option linter.unusedSectionVars false
set_option linter.unusedVariables false
set_option linter.unusedSimpArgs false

variable {K : Type} [Field K] [LinearOrder K] [IsStrictOrderedRing K]

@[reducible] def g3 (a : V3 K) : model3d.Coord3D K := ⟨a.x, a.y, a.z⟩
@[reducible] def g2 (a : V2 K) : model2d.Coord K := ⟨a.x, a.y⟩

theorem min3 (a b : V3 K) : model3d.Coord3D_Min (g3 a) (g3 b) = g3 (a.min b) := rfl
theorem max3 (a b : V3 K) : model3d.Coord3D_Max (g3 a) (g3 b) = g3 (a.max b) := rfl
theorem min2 (a b : V2 K) : model2d.Coord_Min (g2 a) (g2 b) = g2 (a.min b) := rfl
theorem max2 (a b : V2 K) : model2d.Coord_Max (g2 a) (g2 b) = g2 (a.max b) := rfl
theorem sqDist3 (a b : V3 K) : model3d.Coord3D_SquaredDist (g3 a) (g3 b) = a.sqDist b := rfl
theorem sqDist2 (a b : V2 K) : model2d.Coord_SquaredDist (g2 a) (g2 b) = a.sqDist b := rfl

theorem ptBoxDistSq3_eq (c : V3 K) (b : Box3 K) :
    model3d.pointToBoundsDistSquared (g3 c) (g3 b.min) (g3 b.max) = ptBoxDistSq3 c b := by
  unfold model3d.pointToBoundsDistSquared ptBoxDistSq3
  simp only [decide_eq_true_eq, gt_iff_lt]
  simp only [model3d.Coord3D_Array, g3, axDistSq]
  by_cases h1 : c.x < b.min.x <;> by_cases h2 : b.max.x < c.x <;>
    by_cases h3 : c.y < b.min.y <;> by_cases h4 : b.max.y < c.y <;>
    by_cases h5 : c.z < b.min.z <;> by_cases h6 : b.max.z < c.z <;>
    simp only [h1, h2, h3, h4, h5, h6, if_true, if_false, add_zero]

theorem ptBoxDistSq2_eq (c : V2 K) (b : Box2 K) :
    model2d.pointToBoundsDistSquared (g2 c) (g2 b.min) (g2 b.max) = ptBoxDistSq2 c b := by
  unfold model2d.pointToBoundsDistSquared ptBoxDistSq2
  simp only [decide_eq_true_eq, gt_iff_lt]
  simp only [model2d.Coord_Array, g2, axDistSq]
  by_cases h1 : c.x < b.min.x <;> by_cases h2 : b.max.x < c.x <;>
    by_cases h3 : c.y < b.min.y <;> by_cases h4 : b.max.y < c.y <;>
    simp only [h1, h2, h3, h4, if_true, if_false, add_zero]

theorem sphereTouches3_eq (c : V3 K) (r : K) (b : Box3 K) :
    model3d.sphereTouchesBounds (g3 c) r (g3 b.min) (g3 b.max) = sphereTouches3 c r b := by
  unfold model3d.sphereTouchesBounds sphereTouches3
  rw [ptBoxDistSq3_eq]

theorem circleTouches2_eq (c : V2 K) (r : K) (b : Box2 K) :
    model2d.circleTouchesBounds (g2 c) r (g2 b.min) (g2 b.max) = sphereTouches2 c r b := by
  unfold model2d.circleTouchesBounds sphereTouches2
  rw [ptBoxDistSq2_eq]

/-- `boundsArea` (3D; `max.Sub(min)` is `max + min·(-1)` in the source). -/
theorem boundsArea3_eq (b : Box3 K) :
    model3d.boundsArea (g3 b.min) (g3 b.max) = M3d.Spatial.boundsArea3 b := by
  unfold model3d.boundsArea M3d.Spatial.boundsArea3
  simp only [model3d.Coord3D_Sub, model3d.Coord3D_Add, model3d.Coord3D_Scale, g3]
  ring

/-- `boundsArea` (2D: the perimeter). -/
theorem boundsArea2_eq (b : Box2 K) :
    model2d.boundsArea (g2 b.min) (g2 b.max) = M3d.Spatial.boundsArea2 b := by
  unfold model2d.boundsArea M3d.Spatial.boundsArea2
  simp only [model2d.Coord_Sub, model2d.Coord_Add, model2d.Coord_Scale, g2]
  ring

end M3d.KernelsTie.Box
