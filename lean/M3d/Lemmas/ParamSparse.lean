import M3d.Model.ParamSparse
import M3d.Lemmas.ParamNum
import Mathlib.Tactic.Ring
import Mathlib.Tactic.Linarith
import Mathlib.Data.List.Perm.Basic
import Mathlib.Data.List.Range
/-!
# `numerical.SparseMatrix`: every row owns its entries, `Apply` is the matrix–vector product, and the matrix
`floater97` assembles has the rows of `floaterRow` — for every number of entries per row.
-/
namespace M3d.Sparse
open M3d.Param

section Basic
variable {α : Type}

/-- The representation invariant: as many index rows as value rows, and every row has as many columns as values. -/
structure SM.WF (s : SM α) : Prop where
  len : s.rows.length = s.indices.length
  row : ∀ i, (s.rows.getD i []).length = (s.indices.getD i []).length

theorem getD_replicate_nil {β : Type} (n i : Nat) : (List.replicate n ([] : List β)).getD i [] = [] := by
  simp only [List.getD_eq_getElem?_getD, List.getElem?_replicate]
  split <;> rfl

theorem getD_modify {β : Type} (l : List (List β)) (r i : Nat) (f : List β → List β) :
    (l.modify r f).getD i [] = if r = i ∧ i < l.length then f (l.getD i []) else l.getD i [] := by
  simp only [List.getD_eq_getElem?_getD, List.getElem?_modify]
  by_cases hi : i < l.length
  · rw [List.getElem?_eq_getElem hi]
    by_cases hr : r = i <;> simp [hr, hi]
  · rw [List.getElem?_eq_none (by omega)]
    simp [hi]

theorem SM.new_wf (n : Nat) : (SM.new n : SM α).WF :=
  ⟨by simp [SM.new], fun i => by
    show ((List.replicate n ([] : List α)).getD i []).length = ((List.replicate n ([] : List Nat)).getD i []).length
    rw [getD_replicate_nil, getD_replicate_nil]; rfl⟩

theorem SM.set_wf (s : SM α) (h : s.WF) (r c : Nat) (x : α) : (s.set r c x).WF := by
  refine ⟨by simp [SM.set, h.len], fun i => ?_⟩
  show ((s.rows.modify r (· ++ [x])).getD i []).length = ((s.indices.modify r (· ++ [c])).getD i []).length
  rw [getD_modify, getD_modify, ← h.len]
  split_ifs
  · rw [List.length_append, List.length_append, h.row i]; rfl
  · exact h.row i

theorem SM.size_set (s : SM α) (r c : Nat) (x : α) : (s.set r c x).size = s.size := by
  simp [SM.set, SM.size]

theorem SM.entries_new (n i : Nat) : (SM.new n : SM α).entries i = [] := by
  show ((List.replicate n ([] : List Nat)).getD i []).zip ((List.replicate n ([] : List α)).getD i []) = []
  rw [getD_replicate_nil, getD_replicate_nil]; rfl

/-- **`Set` appends one entry to its own row and touches no other row** — whatever the lengths of the rows. -/
theorem SM.entries_set (s : SM α) (h : s.WF) (r c : Nat) (x : α) (i : Nat) :
    (s.set r c x).entries i = if r = i ∧ i < s.size then s.entries i ++ [(c, x)] else s.entries i := by
  show ((s.indices.modify r (· ++ [c])).getD i []).zip ((s.rows.modify r (· ++ [x])).getD i []) = _
  rw [getD_modify, getD_modify, ← h.len]
  unfold SM.size
  split_ifs
  · show (s.indices.getD i [] ++ [c]).zip (s.rows.getD i [] ++ [x]) = _
    rw [List.zip_append (h.row i).symm]; rfl
  · rfl

theorem SM.build_wf (n : Nat) (ops : List (Nat × Nat × α)) : (SM.build n ops).WF := by
  unfold SM.build
  generalize hs : (SM.new n : SM α) = s0
  have h0 : s0.WF := hs ▸ SM.new_wf n
  clear hs
  induction ops generalizing s0 with
  | nil => exact h0
  | cons o r ih => exact ih _ (SM.set_wf s0 h0 _ _ _)

theorem SM.build_size (n : Nat) (ops : List (Nat × Nat × α)) : (SM.build n ops).size = n := by
  unfold SM.build
  generalize hs : (SM.new n : SM α) = s0
  have h0 : s0.size = n := by rw [← hs]; simp [SM.new, SM.size]
  clear hs
  induction ops generalizing s0 with
  | nil => exact h0
  | cons o r ih => exact ih _ (by rw [SM.size_set]; exact h0)

theorem SM.entries_foldl_set (ops : List (Nat × Nat × α)) (s0 : SM α) (h0 : s0.WF) (i : Nat) (hi : i < s0.size) :
    (ops.foldl (fun s o => s.set o.1 o.2.1 o.2.2) s0).entries i =
      s0.entries i ++ (ops.filter fun o => o.1 == i).map fun o => (o.2.1, o.2.2) := by
  induction ops generalizing s0 with
  | nil => simp
  | cons o r ih =>
    rw [List.foldl_cons, ih _ (SM.set_wf s0 h0 _ _ _) (by rw [SM.size_set]; exact hi), SM.entries_set s0 h0]
    by_cases ho : o.1 = i
    · simp [ho, hi]
    · simp [ho]

/-- **The rows of a matrix are exactly what was `Set` in them**: after any sequence of `Set` calls, in any order and
of any length, row `i` enumerates the calls with `row = i` in the order they were made — no entry of another row,
none missing. -/
theorem SM.entries_build (n : Nat) (ops : List (Nat × Nat × α)) (i : Nat) (hi : i < n) :
    (SM.build n ops).entries i = (ops.filter fun o => o.1 == i).map fun o => (o.2.1, o.2.2) := by
  unfold SM.build
  rw [SM.entries_foldl_set ops _ (SM.new_wf n) i (by simpa [SM.new, SM.size] using hi), SM.entries_new]
  rfl

end Basic

section Numeric
variable {K : Type} [Field K]

theorem dotRow_fold (x : List K) (es : List (Nat × K)) (a : K) :
    es.foldl (fun acc cv => acc + x.getD cv.1 0 * cv.2) a = a + (es.map fun cv => x.getD cv.1 0 * cv.2).sum := by
  induction es generalizing a with
  | nil => simp
  | cons e r ih => rw [List.foldl_cons, ih, List.map_cons, List.sum_cons]; ring

theorem dotRow_eq_sum (x : List K) (es : List (Nat × K)) :
    dotRow 0 x es = (es.map fun cv => x.getD cv.1 0 * cv.2).sum := by
  unfold dotRow; rw [dotRow_fold]; ring

theorem SM.getD_apply (s : SM K) (x : List K) (i : Nat) (hi : i < x.length) :
    (s.apply x).getD i 0 = dotRow 0 x (s.entries i) := by
  simp [SM.apply, List.getD_eq_getElem?_getD, hi]

/-- **`Apply` after any sequence of `Set` calls is the sparse matrix–vector product of those calls**: component `i`
is `Σ x[col] · value` over the calls with `row = i`. -/
theorem SM.apply_build (n : Nat) (ops : List (Nat × Nat × K)) (x : List K) (i : Nat) (hi : i < n) (hx : i < x.length) :
    ((SM.build n ops).apply x).getD i 0 =
      ((ops.filter fun o => o.1 == i).map fun o => x.getD o.2.1 0 * o.2.2).sum := by
  rw [SM.getD_apply _ _ _ hx, dotRow_eq_sum, SM.entries_build n ops i hi, List.map_map]
  rfl

end Numeric

/-! ## `Transpose`, `Permute`, and the dense reading `A[i][j]` -/

section Tr
variable {α : Type}

/-- `Transpose()` is the matrix built by the calls `Set(col, row, value)` over the rows in ascending order. -/
theorem SM.transpose_eq_build (s : SM α) :
    s.transpose = SM.build s.size ((List.range s.size).flatMap fun i => (s.entries i).map fun jx => (jx.1, i, jx.2)) := by
  unfold SM.transpose SM.build
  rw [List.foldl_flatMap]
  congr 1
  funext res i
  rw [List.foldl_map]

/-- **Row `j` of the transpose** enumerates, for the rows `i` in ascending order, the entries of row `i` in column
`j` — with the row index as the new column. -/
theorem SM.entries_transpose (s : SM α) (j : Nat) (hj : j < s.size) :
    s.transpose.entries j =
      (List.range s.size).flatMap fun i => ((s.entries i).filter fun jx => jx.1 == j).map fun jx => (i, jx.2) := by
  rw [SM.transpose_eq_build, SM.entries_build _ _ _ hj, List.filter_flatMap, List.map_flatMap]
  congr 1
  funext i
  rw [List.filter_map, List.map_map]
  rfl

/-- Later `set`s at other positions do not change position `j`. -/
theorem foldl_set_getD_of_not_mem (l : List (Nat × Nat)) (inv : List Nat) (j : Nat) (hj : j ∉ l.map Prod.fst) :
    (l.foldl (fun inv ji => inv.set ji.1 ji.2) inv).getD j 0 = inv.getD j 0 := by
  induction l generalizing inv with
  | nil => rfl
  | cons a l ih =>
    rw [List.map_cons, List.mem_cons, not_or] at hj
    rw [List.foldl_cons, ih _ hj.2]
    simp only [List.getD_eq_getElem?_getD]
    rw [List.getElem?_set_ne (fun h => hj.1 h.symm)]

theorem foldl_set_length (l : List (Nat × Nat)) (inv : List Nat) :
    (l.foldl (fun inv ji => inv.set ji.1 ji.2) inv).length = inv.length := by
  induction l generalizing inv with
  | nil => rfl
  | cons a l ih => rw [List.foldl_cons, ih, List.length_set]

theorem foldl_set_getD_of_mem (l : List (Nat × Nat)) (inv : List Nat) (hnd : (l.map Prod.fst).Nodup)
    (hlt : ∀ ji ∈ l, ji.1 < inv.length) (j i : Nat) (h : (j, i) ∈ l) :
    (l.foldl (fun inv ji => inv.set ji.1 ji.2) inv).getD j 0 = i := by
  induction l generalizing inv with
  | nil => simp at h
  | cons a l ih =>
    rw [List.map_cons, List.nodup_cons] at hnd
    rw [List.foldl_cons]
    rcases List.mem_cons.1 h with rfl | h
    · rw [foldl_set_getD_of_not_mem _ _ _ hnd.1]
      have := hlt (j, i) List.mem_cons_self
      simp [List.getD_eq_getElem?_getD, this]
    · exact ih _ hnd.2 (fun ji hji => by rw [List.length_set]; exact hlt ji (List.mem_cons_of_mem _ hji)) h

/-- `permInv` inverts a permutation of `0..n-1`. -/
theorem permInv_spec (perm : List Nat) (hnd : perm.Nodup) (hlt : ∀ j ∈ perm, j < perm.length) (i j : Nat)
    (h : perm[i]? = some j) : (permInv perm).getD j 0 = i := by
  unfold permInv
  apply foldl_set_getD_of_mem
  · rw [List.zipIdx_map_fst]; exact hnd
  · intro ji hji
    rw [List.length_replicate]
    exact hlt _ (List.fst_mem_of_mem_zipIdx hji)
  · exact List.mk_mem_zipIdx_iff_getElem?.2 h

/-- **Row `i` of `Permute(perm)`** is row `perm[i]` of the matrix with every column `k` renamed `permInv[k]`. -/
theorem SM.entries_permute (s : SM α) (perm : List Nat) (i j : Nat) (h : perm[i]? = some j) :
    (s.permute perm).entries i = (s.entries j).map fun cv => ((permInv perm).getD cv.1 0, cv.2) := by
  unfold SM.permute SM.entries
  simp only [List.getD_eq_getElem?_getD, List.getElem?_map, h, Option.map_some, Option.getD_some]
  rw [List.zip_map_left]
  rfl

end Tr

section Dense
variable {K : Type} [Field K]

/-- The matrix entry `A[i][j]`: the sum of the values set at `(i, j)` (one value when the contract of `Set` —
"the entry should not already be set" — is respected, `0` when none). -/
def SM.entry (s : SM K) (i j : Nat) : K := (((s.entries i).filter fun cv => cv.1 == j).map Prod.snd).sum

theorem sum_range_indicator (m c : Nat) (v : K) (x : Nat → K) (hc : c < m) :
    ((List.range m).map fun j => (if c = j then v else 0) * x j).sum = v * x c := by
  induction m with
  | zero => omega
  | succ m ih =>
    rw [List.range_succ, List.map_append, List.sum_append]
    by_cases h : c = m
    · subst h
      have : ((List.range c).map fun j => (if c = j then v else 0) * x j) = (List.range c).map fun _ => 0 := by
        apply List.map_congr_left
        intro j hj
        have : c ≠ j := by have := List.mem_range.1 hj; omega
        simp [this]
      rw [this]
      simp
    · rw [ih (by omega)]
      simp [h]

theorem sum_map_add {β : Type} (l : List β) (f g : β → K) :
    (l.map fun a => f a + g a).sum = (l.map f).sum + (l.map g).sum := by
  induction l with
  | nil => simp
  | cons a l ih => simp only [List.map_cons, List.sum_cons, ih]; ring

/-- A sparse row times a vector, regrouped by column. -/
theorem sparse_row_dense (es : List (Nat × K)) (x : Nat → K) (m : Nat) (hc : ∀ cv ∈ es, cv.1 < m) :
    (es.map fun cv => x cv.1 * cv.2).sum =
      ((List.range m).map fun j => (((es.filter fun cv => cv.1 == j).map Prod.snd).sum) * x j).sum := by
  induction es with
  | nil => simp
  | cons e r ih =>
    rw [List.map_cons, List.sum_cons, ih (fun cv h => hc cv (List.mem_cons_of_mem _ h))]
    have hE : ∀ j, (((e :: r).filter fun cv => cv.1 == j).map Prod.snd).sum * x j =
        (if e.1 = j then e.2 else 0) * x j + (((r.filter fun cv => cv.1 == j).map Prod.snd).sum) * x j := by
      intro j
      by_cases h : e.1 = j
      · simp [h]; ring
      · simp [h]
    rw [List.map_congr_left (fun j _ => hE j), sum_map_add, sum_range_indicator m e.1 e.2 x (hc e List.mem_cons_self)]
    ring

/-- **`Apply` computes `A·x`**: component `i` is `Σⱼ A[i][j] · x[j]` over all columns. -/
theorem SM.apply_eq_matrix_product (s : SM K) (x : List K) (i : Nat) (hi : i < x.length)
    (hc : ∀ cv ∈ s.entries i, cv.1 < x.length) :
    (s.apply x).getD i 0 = ((List.range x.length).map fun j => s.entry i j * x.getD j 0).sum := by
  rw [SM.getD_apply _ _ _ hi, dotRow_eq_sum]
  exact sparse_row_dense (s.entries i) (fun j => x.getD j 0) x.length hc

theorem filter_flatMap_range {β : Type} (g : Nat → List β) (n i : Nat) :
    ((List.range n).flatMap fun i' => (g i').map fun v => (i', v)).filter (fun p => p.1 == i) =
      if i < n then (g i).map fun v => (i, v) else [] := by
  induction n with
  | zero => simp
  | succ n ih =>
    rw [List.range_succ, List.flatMap_append, List.filter_append, ih]
    by_cases h : i = n
    · subst h
      simp
    · have hne : ∀ v : β, ¬ ((n, v).1 == i) = true := by intro v; simp; omega
      by_cases hlt : i < n
      · have : i < n + 1 := by omega
        simp [hlt, this]
        intro a _ ; omega
      · have : ¬ i < n + 1 := by omega
        simp [hlt, this]
        intro a _; omega

/-- **`Transpose()` is the transposed matrix**: `Aᵀ[j][i] = A[i][j]`. -/
theorem SM.entry_transpose (s : SM K) (i j : Nat) (hi : i < s.size) (hj : j < s.size) :
    s.transpose.entry j i = s.entry i j := by
  unfold SM.entry
  rw [SM.entries_transpose s j hj]
  have := filter_flatMap_range (fun i' => ((s.entries i').filter fun jx => jx.1 == j).map Prod.snd) s.size i
  simp only [List.map_map] at this
  rw [show ((List.range s.size).flatMap fun i => ((s.entries i).filter fun jx => jx.1 == j).map fun jx => (i, jx.2)) =
      ((List.range s.size).flatMap fun i' => ((s.entries i').filter fun jx => jx.1 == j).map ((fun v => (i', v)) ∘ Prod.snd)) from rfl,
    this]
  simp [hi, List.map_map, Function.comp_def]

/-- **`Permute(perm)` is the matrix with rows and columns permuted**: for `perm` a permutation of `0..n-1` and a matrix
whose columns are `< n`: `B[i][k] = A[perm[i]][perm[k]]`. -/
theorem SM.entry_permute (s : SM K) (perm : List Nat) (hp : perm.Perm (List.range perm.length)) (i k pi pk : Nat)
    (hi : perm[i]? = some pi) (hk : perm[k]? = some pk) (hc : ∀ cv ∈ s.entries pi, cv.1 < perm.length) :
    (s.permute perm).entry i k = s.entry pi pk := by
  have hnd : perm.Nodup := hp.nodup_iff.2 List.nodup_range
  have hlt : ∀ j ∈ perm, j < perm.length := fun j hj => List.mem_range.1 (hp.mem_iff.1 hj)
  unfold SM.entry
  rw [SM.entries_permute s perm i pi hi, List.filter_map, List.map_map]
  congr 1
  apply congrArg
  apply List.filter_congr
  intro cv hcv
  have hcm : cv.1 ∈ perm := hp.mem_iff.2 (List.mem_range.2 (hc cv hcv))
  obtain ⟨k', hk'⟩ := List.getElem?_of_mem hcm
  have hinv := permInv_spec perm hnd hlt k' cv.1 hk'
  simp only [Function.comp_apply, hinv]
  by_cases h : cv.1 = pk
  · have : k' = k := by
      have hk1 := (List.getElem?_eq_some_iff.1 hk').1
      have hk2 := (List.getElem?_eq_some_iff.1 hk).1
      have e1 := (List.getElem?_eq_some_iff.1 hk').2
      have e2 := (List.getElem?_eq_some_iff.1 hk).2
      exact (List.Nodup.getElem_inj_iff hnd).1 (by rw [e1, e2, h])
    simp [h, this]
  · have : k' ≠ k := by
      intro e; subst e; rw [hk'] at hk; exact h (Option.some.inj hk)
    simp [h, this]


end Dense

/-! ## `Apply` is linear -/

section Linear
variable {K : Type} [Field K]

theorem getD_zipWith_add (x y : List K) (h : x.length = y.length) (i : Nat) :
    (List.zipWith (· + ·) x y).getD i 0 = x.getD i 0 + y.getD i 0 := by
  simp only [List.getD_eq_getElem?_getD, List.getElem?_zipWith]
  by_cases hi : i < x.length
  · have hj : i < y.length := h ▸ hi
    simp [List.getElem?_eq_getElem hi, List.getElem?_eq_getElem hj]
  · have hj : ¬ i < y.length := h ▸ hi
    simp [List.getElem?_eq_none (Nat.le_of_not_lt hi), List.getElem?_eq_none (Nat.le_of_not_lt hj)]

theorem getD_map_mul (c : K) (x : List K) (i : Nat) : (x.map (· * c)).getD i 0 = x.getD i 0 * c := by
  simp only [List.getD_eq_getElem?_getD, List.getElem?_map]
  cases x[i]? <;> simp

theorem dotRow_add (x y : List K) (h : x.length = y.length) (es : List (Nat × K)) :
    dotRow 0 (List.zipWith (· + ·) x y) es = dotRow 0 x es + dotRow 0 y es := by
  rw [dotRow_eq_sum, dotRow_eq_sum, dotRow_eq_sum]
  induction es with
  | nil => simp
  | cons e r ih =>
    rw [List.map_cons, List.sum_cons, ih, getD_zipWith_add x y h]
    simp only [List.map_cons, List.sum_cons]
    ring

theorem dotRow_scale (c : K) (x : List K) (es : List (Nat × K)) :
    dotRow 0 (x.map (· * c)) es = dotRow 0 x es * c := by
  rw [dotRow_eq_sum, dotRow_eq_sum]
  induction es with
  | nil => simp
  | cons e r ih =>
    rw [List.map_cons, List.sum_cons, ih, getD_map_mul]
    simp only [List.map_cons, List.sum_cons]
    ring

/-- **`Apply` is linear**: `A(x + y) = A x + A y` (`Vec.Add`) and `A(x·c) = (A x)·c` (`Vec.Scale`), componentwise. -/
theorem SM.apply_linear (s : SM K) (x y : List K) (h : x.length = y.length) (c : K) :
    s.apply (List.zipWith (· + ·) x y) = List.zipWith (· + ·) (s.apply x) (s.apply y) ∧
    s.apply (x.map (· * c)) = (s.apply x).map (· * c) := by
  constructor
  · apply List.ext_getElem
    · simp [SM.apply, h]
    · intro i h1 h2
      simp only [SM.apply, List.getElem_map, List.getElem_range, List.getElem_zipWith]
      exact dotRow_add x y h _
  · apply List.ext_getElem
    · simp [SM.apply]
    · intro i h1 h2
      simp only [SM.apply, List.getElem_map, List.getElem_range]
      exact dotRow_scale c x _

end Linear

/-! ## The matrix `floater97` assembles -/

section Floater
variable {K : Type} [Field K]

omit [Field K] in
theorem filter_rowOps_self (col : Nat → Nat) (k : Nat) (r : Row K) :
    (rowOps col k r).filter (fun o => o.1 == k) = rowOps col k r := by
  apply List.filter_eq_self.2
  intro o ho
  simp only [rowOps, List.mem_cons, List.mem_map] at ho
  rcases ho with rfl | ⟨jw, _, rfl⟩ <;> simp

omit [Field K] in
theorem filter_rowOps_ne (col : Nat → Nat) (k i : Nat) (h : k ≠ i) (r : Row K) :
    (rowOps col k r).filter (fun o => o.1 == i) = [] := by
  apply List.filter_eq_nil_iff.2
  intro o ho
  simp only [rowOps, List.mem_cons, List.mem_map] at ho
  rcases ho with rfl | ⟨jw, _, rfl⟩ <;> simp [h]

omit [Field K] in
/-- The calls with `row = i` among the calls for the unknowns `k, k+1, …` are the calls for unknown `i`. -/
theorem filter_opsFrom (col : Nat → Nat) (rs : List (Row K)) (k i : Nat) :
    (opsFrom col k rs).filter (fun o => o.1 == i) =
      if k ≤ i then (match rs[i - k]? with | some r => rowOps col i r | none => []) else [] := by
  induction rs generalizing k with
  | nil => simp [opsFrom]
  | cons r rs ih =>
    rw [opsFrom, List.filter_append, ih (k + 1)]
    by_cases hki : k = i
    · subst hki
      rw [filter_rowOps_self]
      simp
    · rw [filter_rowOps_ne col k i hki]
      by_cases hlt : k < i
      · have h1 : k + 1 ≤ i := hlt
        have h2 : k ≤ i := by omega
        have h3 : i - k = (i - (k + 1)) + 1 := by omega
        simp only [h1, h2, if_true, List.nil_append]
        rw [h3, List.getElem?_cons_succ]
      · have h1 : ¬ (k + 1 ≤ i) := by omega
        have h2 : ¬ (k ≤ i) := by omega
        simp [h1, h2]

theorem rowLhs_eq_sum (r : Row K) (c : Nat) (x : Nat → K) :
    rowLhs r c x = r.diag * x c + (r.offs.map fun jw => jw.2 * x jw.1).sum := by
  unfold rowLhs
  generalize r.diag * x c = a
  induction r.offs generalizing a with
  | nil => simp
  | cons e l ih => rw [List.foldl_cons, ih, List.map_cons, List.sum_cons]; ring

theorem rowOps_sum (col : Nat → Nat) (k : Nat) (r : Row K) (xs : List K) :
    ((rowOps col k r).map fun o => xs.getD o.2.1 0 * o.2.2).sum =
      xs.getD k 0 * r.diag + (r.offs.map fun jw => xs.getD (col jw.1) 0 * jw.2).sum := by
  simp [rowOps, List.map_map, Function.comp_def]

theorem getD_map_idxOf (cs : List Nat) (x : Nat → K) (j : Nat) (hj : j ∈ cs) :
    (cs.map x).getD (cs.idxOf j) 0 = x j := by
  have hlt : cs.idxOf j < cs.length := List.idxOf_lt_length_of_mem hj
  rw [List.getD_eq_getElem?_getD, List.getElem?_map, List.getElem?_eq_getElem hlt]
  simp [List.getElem_idxOf hlt]

/-- **The operator `floater97` hands to the solver has the rows of `floaterRow`, for every number of neighbours.**
`sys` lists the unknowns (centre vertex, assembled row) in the order of `nonBoundary`; every interior neighbour of a
centre is an unknown.  Then component `k` of `matrix.Apply` at the vector of the positions `x` of the unknowns is
`rowLhs` of the `k`-th row: `−x(centre) + Σ wⱼ x(j)` over ALL interior neighbours `j` of the centre — no
neighbour is lost and none of another vertex is mixed in, however many there are. -/
theorem floaterMatrix_apply (sys : List (Nat × Row K))
    (hcl : ∀ cr ∈ sys, ∀ jw ∈ cr.2.offs, jw.1 ∈ sys.map Prod.fst) (x : Nat → K) (k c : Nat) (r : Row K)
    (hk : sys[k]? = some (c, r)) :
    ((floaterMatrix sys).apply ((sys.map Prod.fst).map x)).getD k 0 = rowLhs r c x := by
  have hlen : k < sys.length := by
    by_contra h
    rw [List.getElem?_eq_none (by omega)] at hk
    exact absurd hk (by simp)
  have hmem : (c, r) ∈ sys := List.mem_of_getElem? hk
  unfold floaterMatrix floaterOps
  rw [SM.apply_build _ _ _ k hlen (by simpa using hlen), filter_opsFrom]
  simp only [Nat.zero_le, if_true, Nat.sub_zero, List.getElem?_map, hk, Option.map_some]
  rw [rowLhs_eq_sum, rowOps_sum]
  have hkx : ((sys.map Prod.fst).map x).getD k 0 = x c := by
    rw [List.getD_eq_getElem?_getD, List.getElem?_map, List.getElem?_map, hk]; rfl
  rw [hkx, mul_comm]
  congr 1
  apply congrArg List.sum
  apply List.map_congr_left
  intro jw hjw
  show ((sys.map Prod.fst).map x).getD ((sys.map Prod.fst).idxOf jw.1) 0 * jw.2 = jw.2 * x jw.1
  rw [getD_map_idxOf _ x _ (hcl _ hmem jw hjw), mul_comm]

/-- The off-diagonal entries of `floaterRow` are the interior (variable) neighbours with their weights, in order. -/
theorem floaterRow_offs (nbs : List (Nb K)) :
    (floaterRow nbs).offs = nbs.filterMap fun nb => match nb with
      | .var j w => some (j, w)
      | .fixed _ _ => none := by
  unfold floaterRow
  have key : ∀ (l : List (Nb K)) (r0 : Row K),
      (l.foldl (fun r nb =>
        match nb with
        | .var j w => { r with offs := r.offs ++ [(j, w)] }
        | .fixed p w => { r with bias := r.bias.add (p.scale (-w)) }) r0).offs =
      r0.offs ++ l.filterMap fun nb => match nb with
        | .var j w => some (j, w)
        | .fixed _ _ => none := by
    intro l
    induction l with
    | nil => intro r0; simp
    | cons nb l ih =>
      intro r0
      rw [List.foldl_cons, ih]
      cases nb <;> simp
  exact (key nbs _).trans (List.nil_append _)

end Floater

/-! ## The system `floaterSystem` of a mesh: every interior neighbour is an unknown -/

section System
variable {K : Type} [Field K]
open M3d.Surface

theorem mapM_option_forall2 {β γ : Type} (f : β → Option γ) (l : List β) (r : List γ) (h : l.mapM f = some r) :
    List.Forall₂ (fun a b => f a = some b) l r := by
  induction l generalizing r with
  | nil =>
    simp only [List.mapM_nil] at h
    cases h
    exact List.Forall₂.nil
  | cons a l ih =>
    rw [List.mapM_cons] at h
    cases hfa : f a with
    | none => simp [hfa] at h
    | some b =>
      cases hl : l.mapM f with
      | none => simp [hfa, hl] at h
      | some bs =>
        simp only [hfa, hl] at h
        cases h
        exact List.Forall₂.cons hfa (ih bs hl)

theorem forall2_mem_right {β γ : Type} {R : β → γ → Prop} {l : List β} {r : List γ} (h : List.Forall₂ R l r)
    (b : γ) (hb : b ∈ r) : ∃ a ∈ l, R a b := by
  induction h with
  | nil => simp at hb
  | cons hab _ ih =>
    rcases List.mem_cons.1 hb with rfl | hb
    · exact ⟨_, List.mem_cons_self, hab⟩
    · obtain ⟨a, ha, hr⟩ := ih hb
      exact ⟨a, List.mem_cons_of_mem _ ha, hr⟩

theorem forall2_map_fst {β γ : Type} {g : γ → β} {R : β → γ → Prop} {l : List β} {r : List γ}
    (h : List.Forall₂ R l r) (hg : ∀ a b, R a b → g b = a) : r.map g = l := by
  induction h with
  | nil => rfl
  | cons hab _ ih => rw [List.map_cons, hg _ _ hab, ih]

omit [Field K] in
theorem vertNbrs_subset (ts : List Tri) (c n : Nat) (h : n ∈ vertNbrs ts c) : n ∈ verts ts := by
  unfold vertNbrs at h
  rw [List.mem_eraseDups, List.mem_flatMap] at h
  obtain ⟨t, ht, hn⟩ := h
  unfold verts vertsAll
  rw [List.mem_eraseDups, List.mem_flatMap]
  exact ⟨t, (List.mem_filter.1 ht).1, (List.mem_filter.1 hn).1⟩

omit [Field K] in
/-- A variable neighbour in the list `floater97` sees is a mesh vertex without a boundary position. -/
theorem nbList_var (ts : List Tri) (bpos : Nat → Option (V2 K)) (w : Nat → Nat → Option K) (c : Nat)
    (nbs : List (Nb K)) (h : nbList ts bpos w c = some nbs) (j : Nat) (wt : K) (hj : Nb.var j wt ∈ nbs) :
    j ∈ verts ts ∧ bpos j = none := by
  obtain ⟨n, hn, hr⟩ := forall2_mem_right (mapM_option_forall2 _ _ _ h) _ hj
  cases hw : w c n with
  | none => simp [hw] at hr
  | some wt' =>
    cases hb : bpos n with
    | some p => simp [hw, hb] at hr
    | none =>
      simp only [hw, hb, Option.some.injEq, Nb.var.injEq] at hr
      obtain ⟨rfl, _⟩ := hr
      exact ⟨vertNbrs_subset ts c n hn, hb⟩

/-- **The unknowns of `floaterSystem` are closed under "interior neighbour"**: the centres are the mesh vertices
without a boundary position, each once, and every off-diagonal entry of every row refers to one of them — the
hypothesis of `floaterMatrix_apply`. -/
theorem floaterSystem_closed (ts : List Tri) (bpos : Nat → Option (V2 K)) (w : Nat → Nat → Option K)
    (sys : List (Nat × Row K)) (h : floaterSystem ts bpos w = some sys) :
    sys.map Prod.fst = ((verts ts).filter fun v => (bpos v).isNone) ∧
    (∀ cr ∈ sys, ∃ nbs, nbList ts bpos w cr.1 = some nbs ∧ cr.2 = floaterRow nbs) ∧
    ∀ cr ∈ sys, ∀ jw ∈ cr.2.offs, jw.1 ∈ sys.map Prod.fst := by
  have hf := mapM_option_forall2 _ _ _ h
  have hfst : sys.map Prod.fst = ((verts ts).filter fun v => (bpos v).isNone) := by
    apply forall2_map_fst hf
    intro c cr hr
    cases hn : nbList ts bpos w c with
    | none => simp [hn] at hr
    | some nbs =>
      simp only [hn, Option.map_some, Option.some.injEq] at hr
      rw [← hr]
  have hrow : ∀ cr ∈ sys, ∃ nbs, nbList ts bpos w cr.1 = some nbs ∧ cr.2 = floaterRow nbs := by
    intro cr hcr
    obtain ⟨c, _, hr⟩ := forall2_mem_right hf cr hcr
    cases hn : nbList ts bpos w c with
    | none => simp [hn] at hr
    | some nbs =>
      simp only [hn, Option.map_some, Option.some.injEq] at hr
      subst hr
      exact ⟨nbs, hn, rfl⟩
  refine ⟨hfst, hrow, ?_⟩
  intro cr hcr jw hjw
  obtain ⟨nbs, hn, hrw⟩ := hrow cr hcr
  rw [hrw, floaterRow_offs, List.mem_filterMap] at hjw
  obtain ⟨nb, hnb, he⟩ := hjw
  cases nb with
  | fixed p wt => simp at he
  | var j wt =>
    simp only [Option.some.injEq] at he
    subst he
    obtain ⟨hv, hb⟩ := nbList_var ts bpos w cr.1 nbs hn j wt hnb
    rw [hfst, List.mem_filter]
    exact ⟨hv, by simp [hb]⟩

end System

end M3d.Sparse
