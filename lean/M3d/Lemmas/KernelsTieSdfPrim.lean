import M3d.Lemmas.KernelsTieSdf
import M3d.Lemmas.SdfMisc
import M3d.Lemmas.SdfRect
/-!
# Tie between the REGENERATED `genericSDF` family of the primitives and the hand-written C06 models

`M3d/Gen/Kernels.lean` contains (translated on every run from the current `model3d/shapes.go`, `model2d/shapes.go`)
`Rect/Capsule/Cylinder/Cone/Torus.genericSDF` with their out-pointer parameters as `Option` arguments / extra results,
and `SDF`, `PointSDF`, `NormalSDF` calling them.  The theorems below prove, for every linear ordered field, that the
three entry points compute the value, the normal and the nearest point of the hand-written models
(`capsuleOut3/2`, `rectOut3/2`, … of `M3d/Model/Sdf.lean`) that the C06 theorems are about.
-/
namespace M3d.KernelsTie.SdfPrim
open M3d.Sdf M3d.Gen.Kernels M3d.GenPrelude M3d.KernelsTie.Sdf
set_option linter.unusedSectionVars false
set_option linter.unusedVariables false
set_option linter.unusedSimpArgs false
set_option linter.unreachableTactic false
set_option linter.unusedTactic false

variable {K : Type} [Field K] [LinearOrder K] [IsStrictOrderedRing K]
variable (E : Env K)

/-- component-wise `==` of the generated code is the model's `vecEq3` -/
theorem feq3_eq (a b : V3 K) : (feq a.x b.x && feq a.y b.y && feq a.z b.z) = vecEq3 a b := by
  simp only [vecEq3, feq_eq_isZero_sub]
theorem feq2_eq (a b : V2 K) : (feq a.x b.x && feq a.y b.y) = vecEq2 a b := by
  simp only [vecEq2, feq_eq_isZero_sub]

/-- value of `sphereOut` is `Sphere.SDF` also at the centre -/
theorem sphereOut_val (center : V3 K) (r : K) (c : V3 K) : (sphereOut E center r c).val = sphereSDF E center r c := by
  unfold sphereOut
  dsimp only
  split_ifs with h
  · have : (c.sub center).norm E = 0 := (isZero_iff _).mp h
    show r = r - c.dist E center
    have hd : c.dist E center = (c.sub center).norm E := rfl
    rw [hd, this, sub_zero]
  · rfl

theorem circleOut_val (center : V2 K) (r : K) (c : V2 K) : (circleOut E center r c).val = circleSDF E center r c := by
  unfold circleOut
  dsimp only
  split_ifs with h
  · have : (c.sub center).norm E = 0 := (isZero_iff _).mp h
    show r = r - c.dist E center
    have hd : c.dist E center = (c.sub center).norm E := rfl
    rw [hd, this, sub_zero]
  · rfl

/-- the model's outputs as the generated out-pointer results: a `nil` pointer stays `none`, a non-nil one receives
the model's value -/
@[reducible] def outN3 (o : Out3 K) (no : Option (model3d.Coord3D K)) : Option (model3d.Coord3D K) :=
  no.map fun _ => g3 o.n
@[reducible] def outP3 (o : Out3 K) (po : Option (model3d.Coord3D K)) : Option (model3d.Coord3D K) :=
  po.map fun _ => g3 o.p
@[reducible] def outN2 (o : Out2 K) (no : Option (model2d.Coord K)) : Option (model2d.Coord K) :=
  no.map fun _ => g2 o.n
@[reducible] def outP2 (o : Out2 K) (po : Option (model2d.Coord K)) : Option (model2d.Coord K) :=
  po.map fun _ => g2 o.p

/-- **3-D `Capsule.genericSDF`** for every combination of `nil` / non-`nil` out-pointers: the value of the model,
and the model's normal / point stored through the non-`nil` pointers. -/
theorem capsule_genericSDF_eq (he : E.eps5 = (1.0e-5 : K)) (p1 p2 : V3 K) (r : K) (c : V3 K)
    (no po : Option (model3d.Coord3D K)) :
    (letI := sqrtOf E; model3d.Capsule_genericSDF ⟨g3 p1, g3 p2, r⟩ (g3 c) no po) =
      ((capsuleOut3 E p1 p2 r c).val, outN3 (capsuleOut3 E p1 p2 r c) no, outP3 (capsuleOut3 E p1 p2 r c) po) := by
  unfold model3d.Capsule_genericSDF capsuleOut3
  simp only [coord3_sub, coord3_norm, coord3_scale, coord3_dot, coord3_add, gt_iff_lt, Bool.or_eq_true,
    decide_eq_true_eq]
  generalize (p2.sub p1).scale (1 / V3.norm E (p2.sub p1)) = axis
  generalize (c.sub p1).dot axis = dot
  -- (the two range tests are split separately, so that the order of the disjuncts in the source does not matter)
  by_cases hB : dot < 0
  · simp only [hB, true_or, or_true, if_true, g3_X, g3_Y, g3_Z, feq3_eq]
    by_cases hC : vecEq3 c p1 = true
    · simp only [hC, if_true]
      cases no <;> cases po <;> simp [coord3_add, coord3_scale]
    · simp only [hC, if_false, Bool.false_eq_true, sphere_sdf, (sphere_point_normal_sdf E p1 r c).1,
        (sphere_point_normal_sdf E p1 r c).2, sphereOut_val]
      cases no <;> cases po <;> simp
  · by_cases hD : V3.norm E (p2.sub p1) < dot
    · simp only [hB, hD, true_or, or_true, if_true, if_false, g3_X, g3_Y, g3_Z, feq3_eq]
      by_cases hC : vecEq3 c p2 = true
      · simp only [hC, if_true]
        cases no <;> cases po <;> simp [coord3_add, coord3_scale]
      · simp only [hC, if_false, Bool.false_eq_true, sphere_sdf, (sphere_point_normal_sdf E p2 r c).1,
          (sphere_point_normal_sdf E p2 r c).2, sphereOut_val]
        cases no <;> cases po <;> simp
    · simp only [hB, hD, or_self, if_false, segment_dist, coord3_orthoBasis, safeNormal3_eq E he, coord3_add,
        coord3_scale, coord3_sub, sideNormal3]
      cases no <;> cases po <;> simp

/-- **3-D `Capsule.SDF / NormalSDF / PointSDF`** (through `Capsule.genericSDF` with `nil` / `&n` / `&p`) are the
value, normal and point of the model `capsuleOut3`. -/
theorem capsule_sdf_family (he : E.eps5 = (1.0e-5 : K)) (p1 p2 : V3 K) (r : K) (c : V3 K) :
    (letI := sqrtOf E; model3d.Capsule_SDF ⟨g3 p1, g3 p2, r⟩ (g3 c)) = (capsuleOut3 E p1 p2 r c).val ∧
    (letI := sqrtOf E; model3d.Capsule_NormalSDF ⟨g3 p1, g3 p2, r⟩ (g3 c)) =
      (g3 (capsuleOut3 E p1 p2 r c).n, (capsuleOut3 E p1 p2 r c).val) ∧
    (letI := sqrtOf E; model3d.Capsule_PointSDF ⟨g3 p1, g3 p2, r⟩ (g3 c)) =
      (g3 (capsuleOut3 E p1 p2 r c).p, (capsuleOut3 E p1 p2 r c).val) := by
  unfold model3d.Capsule_SDF model3d.Capsule_NormalSDF model3d.Capsule_PointSDF
  have h := capsule_genericSDF_eq E he p1 p2 r c
  refine ⟨?_, ?_, ?_⟩
  · rw [h]
  · simp only [h]; rfl
  · simp only [h]; rfl

/-! ## 2-D `Capsule` -/

theorem xy_eq (x y : K) : model2d.XY x y = g2 ⟨x, y⟩ := rfl

theorem capsule2_genericSDF_eq (he : E.eps5 = (1.0e-5 : K)) (p1 p2 : V2 K) (r : K) (c : V2 K)
    (no po : Option (model2d.Coord K)) :
    (letI := sqrtOf E; model2d.Capsule_genericSDF ⟨g2 p1, g2 p2, r⟩ (g2 c) no po) =
      ((capsuleOut2 E p1 p2 r c).val, outN2 (capsuleOut2 E p1 p2 r c) no, outP2 (capsuleOut2 E p1 p2 r c) po) := by
  unfold model2d.Capsule_genericSDF capsuleOut2
  simp only [coord2_sub, coord2_norm, coord2_scale, coord2_dot, coord2_add, gt_iff_lt, Bool.or_eq_true,
    decide_eq_true_eq]
  generalize (p2.sub p1).scale (1 / V2.norm E (p2.sub p1)) = axis
  generalize (c.sub p1).dot axis = dot
  by_cases hB : dot < 0
  · simp only [hB, true_or, or_true, if_true, g2_X, g2_Y, feq2_eq]
    by_cases hC : vecEq2 c p1 = true
    · simp only [hC, if_true]
      cases no <;> cases po <;> simp [coord2_add, coord2_scale]
    · simp only [hC, if_false, Bool.false_eq_true, circle_sdf, (circle_point_normal_sdf E p1 r c).1,
        (circle_point_normal_sdf E p1 r c).2, circleOut_val]
      cases no <;> cases po <;> simp
  · by_cases hD : V2.norm E (p2.sub p1) < dot
    · simp only [hB, hD, true_or, or_true, if_true, if_false, g2_X, g2_Y, feq2_eq]
      by_cases hC : vecEq2 c p2 = true
      · simp only [hC, if_true]
        cases no <;> cases po <;> simp [coord2_add, coord2_scale]
      · simp only [hC, if_false, Bool.false_eq_true, circle_sdf, (circle_point_normal_sdf E p2 r c).1,
          (circle_point_normal_sdf E p2 r c).2, circleOut_val]
        cases no <;> cases po <;> simp
    · simp only [hB, hD, or_self, if_false, segment2_dist, g2_X, g2_Y, xy_eq, safeNormal2_eq E he, coord2_add,
        coord2_scale, coord2_sub]
      cases no <;> cases po <;> simp

/-- **2-D `Capsule.SDF / NormalSDF / PointSDF`** are the value, normal and point of the model `capsuleOut2`. -/
theorem capsule2_sdf_family (he : E.eps5 = (1.0e-5 : K)) (p1 p2 : V2 K) (r : K) (c : V2 K) :
    (letI := sqrtOf E; model2d.Capsule_SDF ⟨g2 p1, g2 p2, r⟩ (g2 c)) = (capsuleOut2 E p1 p2 r c).val ∧
    (letI := sqrtOf E; model2d.Capsule_NormalSDF ⟨g2 p1, g2 p2, r⟩ (g2 c)) =
      (g2 (capsuleOut2 E p1 p2 r c).n, (capsuleOut2 E p1 p2 r c).val) ∧
    (letI := sqrtOf E; model2d.Capsule_PointSDF ⟨g2 p1, g2 p2, r⟩ (g2 c)) =
      (g2 (capsuleOut2 E p1 p2 r c).p, (capsuleOut2 E p1 p2 r c).val) := by
  unfold model2d.Capsule_SDF model2d.Capsule_NormalSDF model2d.Capsule_PointSDF
  have h := capsule2_genericSDF_eq E he p1 p2 r c
  refine ⟨?_, ?_, ?_⟩
  · rw [h]
  · simp only [h]; rfl
  · simp only [h]; rfl

/-- 2-D `Segment.Normal` (the normal `meshSDF.NormalSDF` reports) is the model's `segNormal2`. -/
theorem segment2_normal (s0 s1 : V2 K) :
    (letI := sqrtOf E; model2d.Segment_Normal ⟨g2 s0, g2 s1⟩) = g2 (segNormal2 E s0 s1) := by
  unfold model2d.Segment_Normal segNormal2
  simp only [coord2_sub, g2_X, g2_Y]
  exact coord2_normalize E ⟨-(s1.sub s0).y, (s1.sub s0).x⟩

/-! ## `Rect`

`Rect.normalAt` and the inside loop of `Rect.genericSDF` start their running minimum at `math.Inf(1)`
(`HasInf.posInf`); the models' `pickMin` lets the first candidate win unconditionally.  Over a field with ANY `HasInf`
instance the two agree as soon as that first candidate is below `posInf` (hypotheses `hinf`). -/

section rect
variable [I : HasInf K]

theorem rect2_normalAt (lo hi c : V2 K) (hinf : Sdf.absS (c.x - lo.x) < I.posInf) :
    model2d.Rect_normalAt ⟨g2 lo, g2 hi⟩ (g2 c) = g2 (faceNormal2 (normalAtFace2 lo hi c)) := by
  unfold model2d.Rect_normalAt normalAtFace2 normalAtCands2 faceNormal2
  simp only [model2d.Coord_Array, model2d.NewCoordArray, g2_X, g2_Y, M3d.KernelsTie.Sdf.absS_eq, hinf, decide_true,
    if_true, List.drop_succ_cons, List.drop_zero, pickMin, decide_eq_true_eq]
  generalize Sdf.absS (c.x - lo.x) = d0 at *
  generalize Sdf.absS (c.x - hi.x) = d1
  generalize Sdf.absS (c.y - lo.y) = d2
  generalize Sdf.absS (c.y - hi.y) = d3
  by_cases h1 : d1 < d0 <;> by_cases h2 : d2 < d1 <;> by_cases h3 : d3 < d2 <;> by_cases h4 : d2 < d0 <;>
    by_cases h5 : d3 < d1 <;> by_cases h6 : d3 < d0 <;>
    simp [h1, h2, h3, h4, h5, h6, V2.unit, V2.set, V2.zero, g2]

/-- the first candidates of the two running minima of 2-D `Rect.genericSDF` are below `math.Inf(1)` -/
def RectFinite2 (lo hi c : V2 K) : Prop :=
  Sdf.absS (((c.vmin hi).vmax lo).x - lo.x) < I.posInf ∧ Sdf.mn (c.x - lo.x) (hi.x - c.x) < I.posInf

theorem rect2_genericSDF_eq (lo hi c : V2 K) (hf : RectFinite2 lo hi c) (no po : Option (model2d.Coord K)) :
    (letI := sqrtOf E; model2d.Rect_genericSDF ⟨g2 lo, g2 hi⟩ (g2 c) no po) =
      ((rectOut2 E lo hi c).val, outN2 (rectOut2 E lo hi c) no, outP2 (rectOut2 E lo hi c) po) := by
  unfold model2d.Rect_genericSDF rectOut2
  simp only [rect2_contains]
  by_cases hc : rectContains2 lo hi c = true
  · have hf2 : GenPrelude.mn (c.x - lo.x) (hi.x - c.x) < HasInf.posInf := hf.2
    simp only [hc, Bool.not_true, Bool.false_eq_true, if_false, model2d.Coord_Array, model2d.NewCoordArray, g2_X, g2_Y,
      hf2, decide_true, if_true, rectInsidePick2, pickMin, insideCand, decide_eq_true_eq]
    by_cases h1 : Sdf.mn (c.y - lo.y) (hi.y - c.y) < Sdf.mn (c.x - lo.x) (hi.x - c.x) <;>
      by_cases h2 : c.x - lo.x < hi.x - c.x <;> by_cases h3 : c.y - lo.y < hi.y - c.y <;>
      cases no <;> cases po <;>
      simp [h1, h2, h3, M3d.KernelsTie.Sdf.mn_eq, faceNormal2, V2.unit, V2.set, V2.get, V2.zero, g2]
  · have hc' : rectContains2 lo hi c = false := by simpa using hc
    simp only [hc', Bool.not_false, if_true, coord2_min, coord2_max, coord2_dist, rect2_normalAt lo hi _ hf.1]
    cases no <;> cases po <;> simp

/-- **2-D `Rect.SDF / NormalSDF / PointSDF`** are the value, normal and point of the model `rectOut2`. -/
theorem rect2_sdf_family (lo hi c : V2 K) (hf : RectFinite2 lo hi c) :
    (letI := sqrtOf E; model2d.Rect_SDF ⟨g2 lo, g2 hi⟩ (g2 c)) = (rectOut2 E lo hi c).val ∧
    (letI := sqrtOf E; model2d.Rect_NormalSDF ⟨g2 lo, g2 hi⟩ (g2 c)) =
      (g2 (rectOut2 E lo hi c).n, (rectOut2 E lo hi c).val) ∧
    (letI := sqrtOf E; model2d.Rect_PointSDF ⟨g2 lo, g2 hi⟩ (g2 c)) =
      (g2 (rectOut2 E lo hi c).p, (rectOut2 E lo hi c).val) := by
  unfold model2d.Rect_SDF model2d.Rect_NormalSDF model2d.Rect_PointSDF
  have h := rect2_genericSDF_eq E lo hi c hf
  refine ⟨?_, ?_, ?_⟩
  · rw [h]
  · simp only [h]; rfl
  · simp only [h]; rfl

/-- one iteration of the loop of `Rect.normalAt` on the state `(axis, minDist, sign)` -/
def nstep (st : Int × K × K) (d : K) (a : Int) (s : K) : Int × K × K :=
  if decide (d < st.2.1) then (a, d, s) else st

/-- the state of `Rect.normalAt` that corresponds to a `(distance, face)` candidate of the model -/
def phi (b : K × Face) : Int × K × K := ((b.2.1 : Int), b.1, if b.2.2 then 1 else -1)

theorem nstep_phi (b : K × Face) (d : K) (a : Nat) (m : Bool) :
    nstep (phi b) d (a : Int) (if m then 1 else -1) = phi (if d < b.1 then (d, ((a, m) : Face)) else b) := by
  unfold nstep phi
  by_cases h : d < b.1 <;> simp [h]

/-- `resArr[axis] = sign; NewCoord3DArray(resArr)` -/
def nfinal3 (st : Int × K × K) : model3d.Coord3D K :=
  model3d.NewCoord3DArray
    (if st.1 = 0 then { e0 := st.2.2, e1 := 0, e2 := 0 } else if st.1 = 1 then { e0 := 0, e1 := st.2.2, e2 := 0 }
      else { e0 := 0, e1 := 0, e2 := st.2.2 })

/-- the generated `Rect.normalAt` is the chain of six loop iterations -/
theorem rect3_normalAt_chain (r : model3d.Rect K) (c : model3d.Coord3D K) :
    model3d.Rect_normalAt r c =
      nfinal3 (nstep (nstep (nstep (nstep (nstep (nstep (0, I.posInf, 0)
        (GenPrelude.absS (c.X - r.MinVal.X)) 0 (-1)) (GenPrelude.absS (c.X - r.MaxVal.X)) 0 1)
        (GenPrelude.absS (c.Y - r.MinVal.Y)) 1 (-1)) (GenPrelude.absS (c.Y - r.MaxVal.Y)) 1 1)
        (GenPrelude.absS (c.Z - r.MinVal.Z)) 2 (-1)) (GenPrelude.absS (c.Z - r.MaxVal.Z)) 2 1) := rfl

theorem nfinal3_phi (b : K × Face) (hb : b.2.1 < 3) : nfinal3 (phi b) = g3 (faceNormal3 b.2) := by
  obtain ⟨d, a, m⟩ := b
  simp only at hb
  have : a = 0 ∨ a = 1 ∨ a = 2 := by omega
  unfold nfinal3 phi faceNormal3
  rcases this with rfl | rfl | rfl <;> simp [V3.unit, V3.set, V3.zero, g3, model3d.NewCoord3DArray]

/-- the loop of `Rect.normalAt` over a list of candidates is the model's `pickMin` -/
theorem nchain (l : List (K × Face)) (b : K × Face) :
    l.foldl (fun st x => nstep st x.1 (x.2.1 : Int) (if x.2.2 then 1 else -1)) (phi b) = phi (pickMin b l) := by
  induction l generalizing b with
  | nil => rfl
  | cons x xs ih =>
      obtain ⟨d, a, m⟩ := x
      simp only [List.foldl_cons, pickMin]
      rw [nstep_phi b d a m]
      exact ih _

theorem rect3_normalAt (lo hi c : V3 K) (hinf : Sdf.absS (c.x - lo.x) < I.posInf) :
    model3d.Rect_normalAt ⟨g3 lo, g3 hi⟩ (g3 c) = g3 (faceNormal3 (normalAtFace3 lo hi c)) := by
  rw [rect3_normalAt_chain]
  have h0 : nstep (0, I.posInf, 0) (GenPrelude.absS ((g3 c).X - (g3 lo).X)) 0 (-1) =
      phi (Sdf.absS (c.x - lo.x), ((0, false) : Face)) := by
    simp [nstep, phi, hinf, M3d.KernelsTie.Sdf.absS_eq]
  have hch := nchain ((normalAtCands3 lo hi c).drop 1) (Sdf.absS (c.x - lo.x), ((0, false) : Face))
  have hmem := (pickMin_spec ((normalAtCands3 lo hi c).drop 1) (Sdf.absS (c.x - lo.x), ((0, false) : Face))).1
  have hlt : (pickMin (Sdf.absS (c.x - lo.x), ((0, false) : Face)) ((normalAtCands3 lo hi c).drop 1)).2.1 < 3 := by
    revert hmem
    generalize pickMin (Sdf.absS (c.x - lo.x), ((0, false) : Face)) ((normalAtCands3 lo hi c).drop 1) = B
    intro hmem
    simp only [normalAtCands3, List.drop_succ_cons, List.drop_zero, List.mem_cons, List.not_mem_nil, or_false] at hmem
    rcases hmem with h | h | h | h | h | h <;> subst h <;> simp
  unfold normalAtFace3
  rw [← nfinal3_phi _ hlt, ← hch, h0]
  rfl

/-- the first candidates of the two running minima of 3-D `Rect.genericSDF` are below `math.Inf(1)` -/
def RectFinite3 (lo hi c : V3 K) : Prop :=
  Sdf.absS (((c.vmin hi).vmax lo).x - lo.x) < I.posInf ∧ Sdf.mn (c.x - lo.x) (hi.x - c.x) < I.posInf


/-- one iteration of the inside loop of `Rect.genericSDF` on the state `(dist, *normalOut, *pointOut)`; `nf`/`pf`
build the normal / the point from the flag `minD < maxD` -/
def istep {C : Type} (st : K × Option C × Option C) (minD maxD : K) (nf pf : Bool → C) : K × Option C × Option C :=
  if decide (GenPrelude.mn minD maxD < st.1) then
    (GenPrelude.mn minD maxD,
      (if st.2.1.isSome then Option.map (fun _ => nf (decide (minD < maxD))) st.2.1 else st.2.1),
      (if st.2.2.isSome then Option.map (fun _ => pf (decide (minD < maxD))) st.2.2 else st.2.2))
  else st

/-- the generated 3-D `Rect.genericSDF`: outside branch, or the chain of three loop iterations -/
theorem rect3_genericSDF_chain [HasSqrt K] (r : model3d.Rect K) (c : model3d.Coord3D K)
    (no po : Option (model3d.Coord3D K)) :
    model3d.Rect_genericSDF r c no po =
      if (!(model3d.Rect_Contains r c)) then
        (-(model3d.Coord3D_Dist c (model3d.Coord3D_Max (model3d.Coord3D_Min c r.MaxVal) r.MinVal)),
          (if no.isSome then Option.map (fun _ => model3d.Rect_normalAt r
            (model3d.Coord3D_Max (model3d.Coord3D_Min c r.MaxVal) r.MinVal)) no else no),
          (if po.isSome then Option.map (fun _ => model3d.Coord3D_Max (model3d.Coord3D_Min c r.MaxVal) r.MinVal) po
            else po))
      else
        istep (istep (istep (I.posInf, no, po) (c.X - r.MinVal.X) (r.MaxVal.X - c.X)
            (fun b => model3d.NewCoord3DArray (if b then { e0 := -1, e1 := 0, e2 := 0 } else { e0 := 1, e1 := 0, e2 := 0 }))
            (fun b => model3d.NewCoord3DArray (if b then { e0 := r.MinVal.X, e1 := c.Y, e2 := c.Z }
              else { e0 := r.MaxVal.X, e1 := c.Y, e2 := c.Z })))
          (c.Y - r.MinVal.Y) (r.MaxVal.Y - c.Y)
            (fun b => model3d.NewCoord3DArray (if b then { e0 := 0, e1 := -1, e2 := 0 } else { e0 := 0, e1 := 1, e2 := 0 }))
            (fun b => model3d.NewCoord3DArray (if b then { e0 := c.X, e1 := r.MinVal.Y, e2 := c.Z }
              else { e0 := c.X, e1 := r.MaxVal.Y, e2 := c.Z })))
          (c.Z - r.MinVal.Z) (r.MaxVal.Z - c.Z)
            (fun b => model3d.NewCoord3DArray (if b then { e0 := 0, e1 := 0, e2 := -1 } else { e0 := 0, e1 := 0, e2 := 1 }))
            (fun b => model3d.NewCoord3DArray (if b then { e0 := c.X, e1 := c.Y, e2 := r.MinVal.Z }
              else { e0 := c.X, e1 := c.Y, e2 := r.MaxVal.Z })) := by
  rfl


/-- the state of the inside loop that corresponds to a `(distance, face)` candidate of the model -/
def psi (lo hi c : V3 K) (no po : Option (model3d.Coord3D K)) (b : K × Face) :
    K × Option (model3d.Coord3D K) × Option (model3d.Coord3D K) :=
  (b.1, no.map (fun _ => g3 (faceNormal3 b.2)),
    po.map (fun _ => g3 (c.set b.2.1 (if b.2.2 then hi.get b.2.1 else lo.get b.2.1))))

theorem istep_psi (lo hi c : V3 K) (no po : Option (model3d.Coord3D K)) (b : K × Face) (i : Nat) (lo' hi' c' : K)
    (nf pf : Bool → model3d.Coord3D K)
    (hn : ∀ m, nf m = g3 (faceNormal3 ((i, !m) : Face)))
    (hp : ∀ m, pf m = g3 (c.set i (if !m then hi.get i else lo.get i))) :
    istep (psi lo hi c no po b) (c' - lo') (hi' - c') nf pf =
      psi lo hi c no po (if (insideCand i lo' hi' c').1 < b.1 then insideCand i lo' hi' c' else b) := by
  unfold istep psi insideCand
  by_cases h : Sdf.mn (c' - lo') (hi' - c') < b.1 <;> cases no <;> cases po <;>
    simp [h, hn, hp, M3d.KernelsTie.Sdf.mn_eq]

theorem istep_init (lo hi c : V3 K) (no po : Option (model3d.Coord3D K)) (i : Nat) (lo' hi' c' : K)
    (nf pf : Bool → model3d.Coord3D K) (hinf : Sdf.mn (c' - lo') (hi' - c') < I.posInf)
    (hn : ∀ m, nf m = g3 (faceNormal3 ((i, !m) : Face)))
    (hp : ∀ m, pf m = g3 (c.set i (if !m then hi.get i else lo.get i))) :
    istep (I.posInf, no, po) (c' - lo') (hi' - c') nf pf = psi lo hi c no po (insideCand i lo' hi' c') := by
  unfold istep psi insideCand
  have : GenPrelude.mn (c' - lo') (hi' - c') < I.posInf := hinf
  cases no <;> cases po <;> simp [this, hinf, hn, hp, M3d.KernelsTie.Sdf.mn_eq]

/-- **3-D `Rect.genericSDF`** for every combination of `nil` / non-`nil` out-pointers. -/
theorem rect3_genericSDF_eq (lo hi c : V3 K) (hf : RectFinite3 lo hi c) (no po : Option (model3d.Coord3D K)) :
    (letI := sqrtOf E; model3d.Rect_genericSDF ⟨g3 lo, g3 hi⟩ (g3 c) no po) =
      ((rectOut3 E lo hi c).val, outN3 (rectOut3 E lo hi c) no, outP3 (rectOut3 E lo hi c) po) := by
  let _ := sqrtOf E
  rw [rect3_genericSDF_chain]
  unfold rectOut3
  simp only [rect_contains]
  by_cases hc : rectContains3 lo hi c = true
  · simp only [hc, Bool.not_true, Bool.false_eq_true, if_false]
    rw [istep_init lo hi c no po 0 lo.x hi.x c.x _ _ hf.2
        (by intro m; cases m <;> simp [faceNormal3, V3.unit, V3.set, V3.zero, g3, model3d.NewCoord3DArray])
        (by intro m; cases m <;> simp [V3.set, V3.get, g3, model3d.NewCoord3DArray]),
      istep_psi lo hi c no po _ 1 lo.y hi.y c.y _ _
        (by intro m; cases m <;> simp [faceNormal3, V3.unit, V3.set, V3.zero, g3, model3d.NewCoord3DArray])
        (by intro m; cases m <;> simp [V3.set, V3.get, g3, model3d.NewCoord3DArray]),
      istep_psi lo hi c no po _ 2 lo.z hi.z c.z _ _
        (by intro m; cases m <;> simp [faceNormal3, V3.unit, V3.set, V3.zero, g3, model3d.NewCoord3DArray])
        (by intro m; cases m <;> simp [V3.set, V3.get, g3, model3d.NewCoord3DArray])]
    rfl
  · have hc' : rectContains3 lo hi c = false := by simpa using hc
    simp only [hc', Bool.not_false, if_true, coord3_min, coord3_max, coord3_dist, rect3_normalAt lo hi _ hf.1]
    cases no <;> cases po <;> simp

/-- **3-D `Rect.SDF / NormalSDF / PointSDF`** are the value, normal and point of the model `rectOut3`. -/
theorem rect3_sdf_family (lo hi c : V3 K) (hf : RectFinite3 lo hi c) :
    (letI := sqrtOf E; model3d.Rect_SDF ⟨g3 lo, g3 hi⟩ (g3 c)) = (rectOut3 E lo hi c).val ∧
    (letI := sqrtOf E; model3d.Rect_NormalSDF ⟨g3 lo, g3 hi⟩ (g3 c)) =
      (g3 (rectOut3 E lo hi c).n, (rectOut3 E lo hi c).val) ∧
    (letI := sqrtOf E; model3d.Rect_PointSDF ⟨g3 lo, g3 hi⟩ (g3 c)) =
      (g3 (rectOut3 E lo hi c).p, (rectOut3 E lo hi c).val) := by
  unfold model3d.Rect_SDF model3d.Rect_NormalSDF model3d.Rect_PointSDF
  have h := rect3_genericSDF_eq E lo hi c hf
  refine ⟨?_, ?_, ?_⟩
  · rw [h]
  · simp only [h]; rfl
  · simp only [h]; rfl

/-- non-vacuity of the finiteness hypotheses: any `posInf` above the box size works (at `Float` it is `+Inf`) -/
example : (letI : HasInf ℚ := ⟨1000, -1000, fun _ => false⟩
    RectFinite3 (⟨0, 0, 0⟩ : V3 ℚ) ⟨2, 4, 6⟩ ⟨1, 1, 1⟩ ∧ RectFinite3 (⟨0, 0, 0⟩ : V3 ℚ) ⟨2, 4, 6⟩ ⟨9, 1, 1⟩ ∧
    RectFinite2 (⟨0, 0⟩ : V2 ℚ) ⟨2, 4⟩ ⟨1, 7⟩) := by
  refine ⟨⟨?_, ?_⟩, ⟨?_, ?_⟩, ⟨?_, ?_⟩⟩ <;>
    norm_num [V3.vmin, V3.vmax, V2.vmin, V2.vmax, Sdf.mn, Sdf.mx, Sdf.absS]

end rect

/-! ## `Torus` -/

/-- **`Torus.genericSDF`** for every combination of `nil` / non-`nil` out-pointers. -/
theorem torus_genericSDF_eq (he : E.eps5 = (1.0e-5 : K)) (center axis : V3 K) (ro ri : K) (c : V3 K)
    (no po : Option (model3d.Coord3D K)) :
    (letI := sqrtOf E; model3d.Torus_genericSDF ⟨g3 center, g3 axis, ro, ri⟩ (g3 c) no po) =
      ((torusOut E center axis ro ri c).val, outN3 (torusOut E center axis ro ri c) no,
        outP3 (torusOut E center axis ro ri c) po) := by
  unfold model3d.Torus_genericSDF torusOut torusRing torusNormal
  have hs : ∀ x : K, HasSqrt.sqrt (self := sqrtOf E) x = E.sqrt x := fun _ => rfl
  simp only [coord3_orthoBasis, coord3_sub, coord3_dot, feq_zero, hs]
  by_cases hz : isZero (E.sqrt ((axis.orthoBasis E).1.dot (c.sub center) * (axis.orthoBasis E).1.dot (c.sub center) +
      (axis.orthoBasis E).2.dot (c.sub center) * (axis.orthoBasis E).2.dot (c.sub center))) = true
  · simp only [hz, if_true, coord3_scale, coord3_add, coord3_sub, coord3_cross, coord3_normalize, coord3_dist,
      safeNormal3_eq E he]
    cases no <;> cases po <;> simp
  · simp only [hz, if_false, Bool.false_eq_true, coord3_scale, coord3_add, coord3_sub, coord3_cross, coord3_normalize,
      coord3_dist, safeNormal3_eq E he]
    cases no <;> cases po <;> simp

/-- **`Torus.SDF / NormalSDF / PointSDF`** are the value, normal and point of the model `torusOut`. -/
theorem torus_sdf_family (he : E.eps5 = (1.0e-5 : K)) (center axis : V3 K) (ro ri : K) (c : V3 K) :
    (letI := sqrtOf E; model3d.Torus_SDF ⟨g3 center, g3 axis, ro, ri⟩ (g3 c)) = (torusOut E center axis ro ri c).val ∧
    (letI := sqrtOf E; model3d.Torus_NormalSDF ⟨g3 center, g3 axis, ro, ri⟩ (g3 c)) =
      (g3 (torusOut E center axis ro ri c).n, (torusOut E center axis ro ri c).val) ∧
    (letI := sqrtOf E; model3d.Torus_PointSDF ⟨g3 center, g3 axis, ro, ri⟩ (g3 c)) =
      (g3 (torusOut E center axis ro ri c).p, (torusOut E center axis ro ri c).val) := by
  unfold model3d.Torus_SDF model3d.Torus_NormalSDF model3d.Torus_PointSDF
  have h := torus_genericSDF_eq E he center axis ro ri c
  refine ⟨?_, ?_, ?_⟩
  · rw [h]
  · simp only [h]; rfl
  · simp only [h]; rfl

/-! ## `filledCircleDist`, `Cylinder`, `Cone`

`filledCircleDist` updates `*curDist`, `*normalOut`, `*pointOut`; the callers start `*curDist` at `math.Inf(1)`.  The model
threads `St` (`dist = none` for "still `+Inf`", normal and point always computed).  `fcdState` is the generated state that
corresponds to a model state; the step lemma needs the first candidate to be `≤ posInf` (hypothesis). -/

section fcd
variable [I : HasInf K]

/-- the candidate distance `filledCircleDist` compares with `*curDist` -/
def fcdCand (c center axis : V3 K) (radius : K) : K :=
  let b := axis.orthoBasis E
  let d := c.sub center
  let px := b.1.dot d
  let py := b.2.dot d
  let pz := axis.dot d
  let norm2 := E.sqrt (px * px + py * py)
  if norm2 < radius then Sdf.absS pz else E.sqrt ((norm2 - radius) * (norm2 - radius) + pz * pz)

/-- generated `(curDist, normalOut, pointOut)` for a model state, given the caller's pointers `no`, `po` -/
def fcdState (no po : Option (model3d.Coord3D K)) (st : St K) :
    Option K × Option (model3d.Coord3D K) × Option (model3d.Coord3D K) :=
  match st.dist with
  | none => (some I.posInf, no, po)
  | some d => (some d, no.map (fun _ => g3 st.n), po.map (fun _ => g3 st.p))

/-- the radial distance `norm2` of `filledCircleDist` -/
def fcdNorm2 (c center axis : V3 K) : K :=
  E.sqrt (((axis.orthoBasis E).1.dot (c.sub center)) * ((axis.orthoBasis E).1.dot (c.sub center)) +
    ((axis.orthoBasis E).2.dot (c.sub center)) * ((axis.orthoBasis E).2.dot (c.sub center)))

/-- the point `filledCircleDist` stores when it updates -/
def fcdPoint (c center axis : V3 K) (radius : K) : V3 K :=
  let b := axis.orthoBasis E
  let d := c.sub center
  let px := b.1.dot d
  let py := b.2.dot d
  let norm2 := E.sqrt (px * px + py * py)
  if norm2 < radius then (center.add (b.1.scale px)).add (b.2.scale py)
  else
    let dir2d : V2 K := ((⟨px, py⟩ : V2 K).normalize E).scale radius
    (center.add (b.1.scale dir2d.x)).add (b.2.scale dir2d.y)

theorem ite_isSome_map {α : Type} (o : Option α) (f : α → α) :
    (if o.isSome = true then Option.map f o else o) = Option.map f o := by
  cases o <;> rfl

/-- the model's `filledCircleDist` is one guarded update -/
theorem filledCircleDist_eq (c center axis : V3 K) (radius : K) (st : St K) :
    filledCircleDist E c center axis radius st =
      if leCur (fcdCand E c center axis radius) st.dist then
        ⟨some (fcdCand E c center axis radius), axis, fcdPoint E c center axis radius⟩
      else st := by
  unfold filledCircleDist fcdCand fcdPoint
  dsimp only
  split_ifs <;> rfl

/-- … and so is the generated one -/
theorem gen_filledCircleDist_eq (c center axis : V3 K) (radius : K) (cur : Option K)
    (no po : Option (model3d.Coord3D K)) :
    (letI := sqrtOf E; model3d.filledCircleDist (g3 c) (g3 center) (g3 axis) radius cur no po) =
      if fcdCand E c center axis radius ≤ cur.getD 0 then
        (cur.map (fun _ => fcdCand E c center axis radius), no.map (fun _ => g3 axis),
          po.map (fun _ => g3 (fcdPoint E c center axis radius)))
      else (cur, no, po) := by
  have hs : ∀ x : K, HasSqrt.sqrt (self := sqrtOf E) x = E.sqrt x := fun _ => rfl
  unfold model3d.filledCircleDist fcdCand fcdPoint
  simp only [coord3_orthoBasis, coord3_sub, model3d.Matrix3_Transpose, model3d.NewMatrix3Columns,
    model3d.Matrix3_MulColumn, model3d.Coord3D_XY, model2d.Coord_Norm, g3_X, g3_Y, g3_Z, hs, decide_eq_true_eq,
    ite_isSome_map, V3.dot, M3d.KernelsTie.Sdf.absS_eq]
  by_cases h1 : fcdNorm2 E c center axis < radius
  · unfold fcdNorm2 at h1
    simp only [V3.dot] at h1
    simp only [h1, if_true]
    split_ifs <;> rfl
  · unfold fcdNorm2 at h1
    simp only [V3.dot] at h1
    simp only [h1, if_false]
    split_ifs <;> rfl

theorem fcd_step (c center axis : V3 K) (radius : K) (no po : Option (model3d.Coord3D K)) (st : St K)
    (hinf : st.dist = none → fcdCand E c center axis radius ≤ I.posInf) :
    (letI := sqrtOf E; model3d.filledCircleDist (g3 c) (g3 center) (g3 axis) radius (fcdState no po st).1
      (fcdState no po st).2.1 (fcdState no po st).2.2) =
      fcdState no po (filledCircleDist E c center axis radius st) := by
  rw [gen_filledCircleDist_eq, filledCircleDist_eq]
  obtain ⟨sd, sn, sp⟩ := st
  cases sd with
  | none =>
      have h := hinf rfl
      cases no <;> cases po <;> simp [fcdState, leCur, h]
  | some v =>
      by_cases hle : fcdCand E c center axis radius ≤ v
      · cases no <;> cases po <;> simp [fcdState, leCur, hle]
      · cases no <;> cases po <;> simp [fcdState, leCur, hle]

theorem fcd_step' (c center axis : V3 K) (radius : K) (no po : Option (model3d.Coord3D K)) (st : St K)
    (cur : Option K) (no' po' : Option (model3d.Coord3D K)) (hst : (cur, no', po') = fcdState no po st)
    (hinf : st.dist = none → fcdCand E c center axis radius ≤ I.posInf) :
    (letI := sqrtOf E; model3d.filledCircleDist (g3 c) (g3 center) (g3 axis) radius cur no' po') =
      fcdState no po (filledCircleDist E c center axis radius st) := by
  have h1 : cur = (fcdState no po st).1 := by rw [← hst]
  have h2 : no' = (fcdState no po st).2.1 := by rw [← hst]
  have h3 : po' = (fcdState no po st).2.2 := by rw [← hst]
  rw [h1, h2, h3]
  exact fcd_step E c center axis radius no po st hinf

/-- `filledCircleDist` always leaves a finite running minimum behind -/
theorem fcd_dist_ne_none (c center axis : V3 K) (radius : K) (st : St K) :
    (filledCircleDist E c center axis radius st).dist ≠ none := by
  rw [filledCircleDist_eq]
  obtain ⟨sd, sn, sp⟩ := st
  cases sd with
  | none => simp [leCur]
  | some v => split_ifs <;> simp

/-- the first cap candidate of `Cylinder.genericSDF` is below `math.Inf(1)` -/
def CylFinite (p1 p2 : V3 K) (r : K) (c : V3 K) : Prop :=
  fcdCand E c p1 (((p2.sub p1).scale (1 / (p2.sub p1).norm E)).scale (-1)) r ≤ I.posInf

theorem ite_or_isSome_map {α β : Type} (no : Option α) (po : Option β) (f : α → α) (g : β → β) :
    (if no.isSome = true ∨ po.isSome = true then (Option.map f no, Option.map g po) else (no, po)) =
      (Option.map f no, Option.map g po) := by
  cases no <;> cases po <;> simp

theorem cylinder_genericSDF_eq (he : E.eps5 = (1.0e-5 : K)) (p1 p2 : V3 K) (r : K) (c : V3 K)
    (hf : CylFinite E p1 p2 r c) (no po : Option (model3d.Coord3D K)) :
    (letI := sqrtOf E; model3d.Cylinder_genericSDF ⟨g3 p1, g3 p2, r⟩ (g3 c) no po) =
      ((cylinderOut E p1 p2 r c).val, outN3 (cylinderOut E p1 p2 r c) no, outP3 (cylinderOut E p1 p2 r c) po) := by
  unfold model3d.Cylinder_genericSDF cylinderOut CylFinite at *
  simp only [coord3_sub, coord3_norm, coord3_scale, coord3_dot, coord3_add, segment_dist, coord3_orthoBasis,
    safeNormal3_eq E he, ite_isSome_map, ite_or_isSome_map, ge_iff_le, gt_iff_lt, Bool.and_eq_true, decide_eq_true_eq,
    Bool.or_eq_true, gen_filledCircleDist_eq, filledCircleDist_eq, sideNormal3]
  generalize (p2.sub p1).scale (1 / V3.norm E (p2.sub p1)) = axis at *
  generalize fcdCand E c p1 (axis.scale (-1)) r = k1 at *
  generalize fcdCand E c p2 axis r = k2
  generalize fcdPoint E c p1 (axis.scale (-1)) r = q1
  generalize fcdPoint E c p2 axis r = q2
  generalize r - segDist3 E p1 p2 c = sd
  generalize V3.norm E (p2.sub p1) = nrm
  by_cases hin : 0 ≤ axis.dot (c.sub p1) ∧ axis.dot (c.sub p1) < nrm
  · have hin' : (!decide (axis.dot (c.sub p1) < 0) && decide (axis.dot (c.sub p1) < nrm)) = true := by
      simp [hin.1, hin.2, not_lt]
    simp only [hin, hin', and_self, if_true, Bool.true_and]
    by_cases hsd : 0 < sd
    · simp only [hsd, if_true, decide_true, Option.getD_some, leCur]
      by_cases h1 : k1 ≤ sd
      · by_cases h2 : k2 ≤ k1 <;> cases no <;> cases po <;> simp [h1, h2, getD0, leCur, hin, hsd, not_lt]
      · by_cases h2 : k2 ≤ sd <;> cases no <;> cases po <;> simp [h1, h2, getD0, leCur, hin, hsd, not_lt]
    · simp only [hsd, if_false, decide_false, Option.getD_some, leCur]
      by_cases h1 : k1 ≤ -sd
      · by_cases h2 : k2 ≤ k1 <;> cases no <;> cases po <;> simp [h1, h2, getD0, leCur, hin, hsd, not_lt]
      · by_cases h2 : k2 ≤ -sd <;> cases no <;> cases po <;> simp [h1, h2, getD0, leCur, hin, hsd, not_lt]
  · have hin' : (!decide (axis.dot (c.sub p1) < 0) && decide (axis.dot (c.sub p1) < nrm)) = false := by
      rw [Bool.eq_false_iff]
      intro h
      apply hin
      simp only [Bool.and_eq_true, Bool.not_eq_true', decide_eq_false_iff_not, not_lt, decide_eq_true_eq] at h
      exact h
    simp only [hin, hin', if_false, Bool.false_and, Bool.false_eq_true, Option.getD_some, leCur, hf, if_true]
    by_cases h2 : k2 ≤ k1 <;> cases no <;> cases po <;> simp [h2, getD0, leCur, hin, hf, not_lt]

/-- **`Cylinder.SDF / NormalSDF / PointSDF`** are the value, normal and point of the model `cylinderOut`. -/
theorem cylinder_sdf_family (he : E.eps5 = (1.0e-5 : K)) (p1 p2 : V3 K) (r : K) (c : V3 K)
    (hf : CylFinite E p1 p2 r c) :
    (letI := sqrtOf E; model3d.Cylinder_SDF ⟨g3 p1, g3 p2, r⟩ (g3 c)) = (cylinderOut E p1 p2 r c).val ∧
    (letI := sqrtOf E; model3d.Cylinder_NormalSDF ⟨g3 p1, g3 p2, r⟩ (g3 c)) =
      (g3 (cylinderOut E p1 p2 r c).n, (cylinderOut E p1 p2 r c).val) ∧
    (letI := sqrtOf E; model3d.Cylinder_PointSDF ⟨g3 p1, g3 p2, r⟩ (g3 c)) =
      (g3 (cylinderOut E p1 p2 r c).p, (cylinderOut E p1 p2 r c).val) := by
  unfold model3d.Cylinder_SDF model3d.Cylinder_NormalSDF model3d.Cylinder_PointSDF
  have h := cylinder_genericSDF_eq E he p1 p2 r c hf
  refine ⟨?_, ?_, ?_⟩
  · rw [h]
  · simp only [h]; rfl
  · simp only [h]; rfl

/-- the base-disc candidate of `Cone.genericSDF` is below `math.Inf(1)` -/
def ConeFinite (tip base : V3 K) (r : K) (p : V3 K) : Prop :=
  fcdCand E p base ((base.sub tip).normalize E) r ≤ I.posInf

theorem cone_genericSDF_eq (he : E.eps5 = (1.0e-5 : K)) (tip base : V3 K) (r : K) (p : V3 K)
    (hf : ConeFinite E tip base r p) (no po : Option (model3d.Coord3D K)) :
    (letI := sqrtOf E; model3d.Cone_genericSDF ⟨g3 tip, g3 base, r⟩ (g3 p) no po) =
      ((coneOut E tip base r p).val, outN3 (coneOut E tip base r p) no, outP3 (coneOut E tip base r p) po) := by
  unfold model3d.Cone_genericSDF coneOut coneOutWith coneRadial coneSideNormal ConeFinite at *
  simp only [coord3_sub, coord3_norm, coord3_scale, coord3_normalize, coord3_add, coord3_orthoBasis,
    safeNormal3_eq E he, newSegment, gseg, segment_dist, segment_closest, cone_contains, ite_isSome_map,
    decide_eq_true_eq, gen_filledCircleDist_eq, filledCircleDist_eq, Option.getD_some, hf, if_true, leCur]
  generalize fcdCand E p base ((base.sub tip).normalize E) r = k1 at *
  generalize fcdPoint E p base ((base.sub tip).normalize E) r = q1
  generalize safeNormal3 E (p.sub base) ((tip.sub base).orthoBasis E).1 (tip.sub base) = axis
  generalize newSegment3 tip (base.add (axis.scale r)) = seg
  generalize segDist3 E seg.1 seg.2 p = ed
  by_cases h1 : ed < k1 <;> by_cases hc : coneContains E tip base r p = true <;> cases no <;> cases po <;>
    simp [h1, hc, getD0, ltCur]

/-- **`Cone.SDF / NormalSDF / PointSDF`** are the value, normal and point of the model `coneOut`. -/
theorem cone_sdf_family (he : E.eps5 = (1.0e-5 : K)) (tip base : V3 K) (r : K) (p : V3 K)
    (hf : ConeFinite E tip base r p) :
    (letI := sqrtOf E; model3d.Cone_SDF ⟨g3 tip, g3 base, r⟩ (g3 p)) = (coneOut E tip base r p).val ∧
    (letI := sqrtOf E; model3d.Cone_NormalSDF ⟨g3 tip, g3 base, r⟩ (g3 p)) =
      (g3 (coneOut E tip base r p).n, (coneOut E tip base r p).val) ∧
    (letI := sqrtOf E; model3d.Cone_PointSDF ⟨g3 tip, g3 base, r⟩ (g3 p)) =
      (g3 (coneOut E tip base r p).p, (coneOut E tip base r p).val) := by
  unfold model3d.Cone_SDF model3d.Cone_NormalSDF model3d.Cone_PointSDF
  have h := cone_genericSDF_eq E he tip base r p hf
  refine ⟨?_, ?_, ?_⟩
  · rw [h]
  · simp only [h]; rfl
  · simp only [h]; rfl

end fcd

end M3d.KernelsTie.SdfPrim
