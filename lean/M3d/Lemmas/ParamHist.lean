import M3d.Model.Param
import Mathlib.Data.List.Perm.Basic
import Mathlib.Data.List.Forall2
/-!
# Histories of solves over one boundary map (frame property of `floater97`), and the cover of
the atlas recursion

`floater97` allocates its result map; every `Store` it performs goes to that fresh pointer.  So no
map that existed before the call — in particular the caller's boundary map — is changed, however
many solves share it, and every result is the boundary map extended by the solved interior
vertices.
-/
namespace M3d.Param
open M3d.Surface
set_option linter.unusedVariables false

section AM
variable {β : Type}

theorem AMap.load_store_same : ∀ (m : AMap β) (k : Nat) (v : β), (m.store k v).load k = some v
  | [], k, v => by simp [AMap.store, AMap.load]
  | (k', v') :: r, k, v => by
      by_cases h : k' = k
      · simp [AMap.store, AMap.load, h]
      · simp [AMap.store, AMap.load, h, AMap.load_store_same r k v]

theorem AMap.load_store_ne : ∀ (m : AMap β) (k k2 : Nat) (v : β), k2 ≠ k → (m.store k v).load k2 = m.load k2
  | [], k, k2, v, hne => by simp [AMap.store, AMap.load, Ne.symm hne]
  | (k', v') :: r, k, k2, v, hne => by
      by_cases h : k' = k
      · subst h
        simp [AMap.store, AMap.load, Ne.symm hne]
      · by_cases h2 : k' = k2
        · subst h2
          simp [AMap.store, AMap.load, h]
        · simp [AMap.store, AMap.load, h, h2, AMap.load_store_ne r k k2 v hne]

theorem AMap.load_eq_none_of_not_mem : ∀ (m : AMap β) (k : Nat), k ∉ m.map Prod.fst → m.load k = none
  | [], _, _ => rfl
  | (k', v') :: r, k, h => by
      simp only [List.map_cons, List.mem_cons, not_or] at h
      simp [AMap.load, Ne.symm h.1, AMap.load_eq_none_of_not_mem r k h.2]

/-- `boundary.Range(func(k, v) { result.Store(k, v) })` into `acc`. -/
theorem AMap.copy_load (k : Nat) : ∀ (l acc : AMap β), (l.map Prod.fst).Nodup →
    (l.foldl (fun m kv => m.store kv.1 kv.2) acc).load k =
      match l.load k with
      | some v => some v
      | none => acc.load k
  | [], acc, _ => rfl
  | (k0, v0) :: r, acc, hnd => by
      simp only [List.map_cons, List.nodup_cons] at hnd
      simp only [List.foldl_cons]
      rw [AMap.copy_load k r _ hnd.2]
      by_cases h : k0 = k
      · subst h
        rw [AMap.load_eq_none_of_not_mem r k0 hnd.1]
        simp [AMap.load, AMap.load_store_same]
      · simp only [AMap.load, h, if_false]
        cases AMap.load r k with
        | some v => rfl
        | none => simp [AMap.load_store_ne acc k0 k v0 (Ne.symm h)]

/-- `for i, point := range solution { result.Store(nonBoundary[i], point) }` into `acc`. -/
theorem AMap.fill_load (f : Nat → β) (k : Nat) : ∀ (l : List Nat) (acc : AMap β),
    (l.foldl (fun m v => m.store v (f v)) acc).load k = if k ∈ l then some (f k) else acc.load k
  | [], acc => by simp
  | a :: l, acc => by
      simp only [List.foldl_cons]
      rw [AMap.fill_load f k l]
      by_cases h : k ∈ l
      · simp [h]
      · by_cases h2 : k = a
        · subst h2; simp [h, AMap.load_store_same]
        · simp [h, h2, AMap.load_store_ne acc a k (f a) h2]

/-! ### the heap -/

theorem Heap.length_store : ∀ (h : Heap β) (r k : Nat) (v : β), (h.store r k v).length = h.length
  | [], _, _, _ => rfl
  | m :: h, 0, k, v => rfl
  | m :: h, r + 1, k, v => by simp [Heap.store, Heap.length_store h r k v]

theorem Heap.get_store_ne : ∀ (h : Heap β) (r r2 k : Nat) (v : β), r2 ≠ r → (h.store r k v).get r2 = h.get r2
  | [], _, _, _, _, _ => rfl
  | m :: h, 0, r2, k, v, hne => by
      cases r2 with
      | zero => exact absurd rfl hne
      | succ r2 => simp [Heap.store, Heap.get]
  | m :: h, r + 1, r2, k, v, hne => by
      cases r2 with
      | zero => simp [Heap.store, Heap.get]
      | succ r2 =>
        have := Heap.get_store_ne h r r2 k v (by omega)
        simpa [Heap.store, Heap.get] using this

theorem Heap.get_store_same : ∀ (h : Heap β) (r k : Nat) (v : β), r < h.length → (h.store r k v).get r = (h.get r).store k v
  | [], _, _, _, hr => by simp at hr
  | m :: h, 0, k, v, _ => by simp [Heap.store, Heap.get]
  | m :: h, r + 1, k, v, hr => by
      have := Heap.get_store_same h r k v (by simpa using hr)
      simpa [Heap.store, Heap.get] using this

/-- a run of stores into one pointer `r`: only that map changes, and it changes by the same stores -/
theorem Heap.foldl_store {γ : Type} (r : Nat) (kf : γ → Nat) (vf : γ → β) :
    ∀ (l : List γ) (h : Heap β), r < h.length →
      (l.foldl (fun h x => h.store r (kf x) (vf x)) h).length = h.length ∧
      (∀ r2, r2 ≠ r → (l.foldl (fun h x => h.store r (kf x) (vf x)) h).get r2 = h.get r2) ∧
      (l.foldl (fun h x => h.store r (kf x) (vf x)) h).get r = l.foldl (fun m x => m.store (kf x) (vf x)) (h.get r)
  | [], h, _ => ⟨rfl, fun _ _ => rfl, rfl⟩
  | a :: l, h, hr => by
      simp only [List.foldl_cons]
      have hl := Heap.length_store h r (kf a) (vf a)
      obtain ⟨i1, i2, i3⟩ := Heap.foldl_store r kf vf l (h.store r (kf a) (vf a)) (by omega)
      refine ⟨by omega, fun r2 hne => ?_, ?_⟩
      · rw [i2 r2 hne, Heap.get_store_ne h r r2 _ _ hne]
      · rw [i3, Heap.get_store_same h r _ _ hr]

theorem Heap.get_alloc_lt (h : Heap β) (r : Nat) (hr : r < h.length) : h.alloc.1.get r = h.get r := by
  simp [Heap.alloc, Heap.get, List.getD, List.getElem?_append_left hr]

theorem Heap.get_alloc_new (h : Heap β) : h.alloc.1.get h.length = [] := by
  simp [Heap.alloc, Heap.get, List.getD]

/-- What a result map of `floater97` holds: the boundary entry where there is one, else the solved
position of a mesh vertex, else nothing. -/
def resultSpec (b : AMap β) (verts : List Nat) (sol : Nat → β) (v : Nat) : Option β :=
  match b.load v with
  | some p => some p
  | none => if v ∈ verts then some (sol v) else none

/-- **One solve**: the result pointer is fresh, no map that existed before is changed, and the
result map is the boundary map extended by the solution on the non-boundary vertices. -/
theorem floaterStore_spec (h : Heap β) (bref : Nat) (verts : List Nat) (sol : Nat → β)
    (hb : bref < h.length) (hwf : ((h.get bref).map Prod.fst).Nodup) :
    (floaterStore h bref verts sol).2 = h.length ∧
    (floaterStore h bref verts sol).1.length = h.length + 1 ∧
    (∀ r, r < h.length → (floaterStore h bref verts sol).1.get r = h.get r) ∧
    (∀ v, ((floaterStore h bref verts sol).1.get h.length).load v = resultSpec (h.get bref) verts sol v) := by
  let h1 : Heap β := h ++ [[]]
  let h2 : Heap β := (h1.get bref).foldl (fun hh kv => hh.store h.length kv.1 kv.2) h1
  let nonB : List Nat := verts.filter fun v => ((h.get bref).load v).isNone
  let h3 : Heap β := nonB.foldl (fun hh v => hh.store h.length v (sol v)) h2
  have e : floaterStore h bref verts sol = (h3, h.length) := rfl
  have hal : h1.length = h.length + 1 := by simp [h1]
  have hget : ∀ r, r < h.length → h1.get r = h.get r := fun r hr => Heap.get_alloc_lt h r hr
  have hnew : h1.get h.length = [] := Heap.get_alloc_new h
  obtain ⟨c1, c2, c3⟩ := Heap.foldl_store h.length (fun kv : Nat × β => kv.1) (fun kv => kv.2)
    (h1.get bref) h1 (by omega)
  have h2len : h2.length = h.length + 1 := by show (List.foldl _ h1 (h1.get bref)).length = _; rw [c1, hal]
  obtain ⟨f1, f2, f3⟩ := Heap.foldl_store h.length (fun v : Nat => v) sol nonB h2 (by omega)
  rw [e]
  refine ⟨rfl, ?_, ?_, ?_⟩
  · show h3.length = _
    show (List.foldl _ h2 nonB).length = _
    rw [f1, h2len]
  · intro r hr
    show h3.get r = _
    show (List.foldl _ h2 nonB).get r = _
    rw [f2 r (by omega)]
    show (List.foldl _ h1 (h1.get bref)).get r = _
    rw [c2 r (by omega), hget r hr]
  · intro v
    show (h3.get h.length).load v = _
    show ((List.foldl _ h2 nonB).get h.length).load v = _
    rw [f3, AMap.fill_load]
    show (if v ∈ nonB then some (sol v) else ((List.foldl _ h1 (h1.get bref)).get h.length).load v) = _
    rw [c3, hnew, hget bref hb, AMap.copy_load v _ _ hwf]
    unfold resultSpec
    by_cases hm : v ∈ nonB
    · have hm' := hm
      simp only [nonB, List.mem_filter, Option.isNone_iff_eq_none] at hm'
      simp [hm, hm'.1, hm'.2]
    · simp only [hm, if_false]
      cases hl : (h.get bref).load v with
      | some p => rfl
      | none =>
        have : v ∉ verts := fun hv => hm (by simp [nonB, List.mem_filter, hv, hl])
        simp [this, AMap.load]

/-- **Every history of solves over ONE boundary pointer**: no map that existed before the history —
in particular the shared boundary map — is changed by any of the solves, there is one result per
solve, and the `k`-th result map is the boundary map extended by the `k`-th solution on the
non-boundary vertices (later solves do not disturb earlier results either). -/
theorem solveHist_spec (bref : Nat) (verts : List Nat) :
    ∀ (sols : List (Nat → β)) (h : Heap β), bref < h.length → ((h.get bref).map Prod.fst).Nodup →
      (∀ r, r < h.length → (solveHist bref verts h sols).1.get r = h.get r) ∧
      h.length ≤ (solveHist bref verts h sols).1.length ∧
      List.Forall₂ (fun sol rr => h.length ≤ rr ∧ rr < (solveHist bref verts h sols).1.length ∧
          ∀ v, (((solveHist bref verts h sols).1.get rr).load v = resultSpec (h.get bref) verts sol v))
        sols (solveHist bref verts h sols).2
  | [], h, _, _ => ⟨fun _ _ => rfl, Nat.le_refl _, List.Forall₂.nil⟩
  | sol :: rest, h, hb, hwf => by
      obtain ⟨s1, s2, s3, s4⟩ := floaterStore_spec h bref verts sol hb hwf
      have e : solveHist bref verts h (sol :: rest) =
          ((solveHist bref verts (floaterStore h bref verts sol).1 rest).1,
           (floaterStore h bref verts sol).2 :: (solveHist bref verts (floaterStore h bref verts sol).1 rest).2) := rfl
      have hb1 : bref < (floaterStore h bref verts sol).1.length := by omega
      have hbd : (floaterStore h bref verts sol).1.get bref = h.get bref := s3 bref hb
      obtain ⟨i1, i2, i3⟩ := solveHist_spec bref verts rest (floaterStore h bref verts sol).1 hb1 (by rw [hbd]; exact hwf)
      rw [e]
      refine ⟨fun r hr => ?_, by simp only; omega, ?_⟩
      · simp only
        rw [i1 r (by omega), s3 r hr]
      · simp only
        refine List.Forall₂.cons ⟨by omega, by omega, fun v => ?_⟩ ?_
        · rw [s1, i1 h.length (by omega), s4 v]
        · refine i3.imp ?_
          intro sol' rr ⟨a1, a2, a3⟩
          refine ⟨by omega, a2, fun v => ?_⟩
          rw [a3 v, hbd]

end AM

/-! ## The atlas recursion covers every triangle exactly once -/

theorem flatMap_flatten_perm {α : Type} (g : List α → List (List α)) :
    ∀ L : List (List α), (∀ x ∈ L, (g x).flatten.Perm x) → (L.flatMap g).flatten.Perm L.flatten
  | [], _ => by simp
  | x :: L, h => by
      simp only [List.flatMap_cons, List.flatten_append, List.flatten_cons]
      exact (h x (by simp)).append (flatMap_flatten_perm g L (fun y hy => h y (by simp [hy])))

/-- `handleDisc`: whatever the stretch oracle decides, the appended charts partition the disc. -/
theorem handleDisc_perm (split : List Tri → List (List Tri)) (want : Nat → List Tri → Bool)
    (hs : ∀ d, (split d).flatten.Perm d) :
    ∀ (f depth : Nat) (disc : List Tri), (handleDisc split want f depth disc).flatten.Perm disc
  | 0, _, disc => by simp [handleDisc]
  | f + 1, depth, disc => by
      simp only [handleDisc]
      split_ifs
      · exact (flatMap_flatten_perm _ _ (fun x _ => handleDisc_perm split want hs f (depth + 1) x)).trans (hs disc)
      · simp

theorem atlasCharts_perm (first split : List Tri → List (List Tri)) (want : Nat → List Tri → Bool) (dfuel : Nat)
    (m : List Tri) (hf : (first m).flatten.Perm m) (hs : ∀ d, (split d).flatten.Perm d) :
    (atlasCharts first split want dfuel m).flatten.Perm m :=
  (flatMap_flatten_perm _ _ (fun x _ => handleDisc_perm split want hs dfuel 0 x)).trans hf

end M3d.Param
