import M3d.Lemmas.Sdf
/-!
C06 helper lemmas: `Rect.genericSDF` (3-D and 2-D).
-/
namespace M3d.Sdf
set_option linter.unusedSectionVars false
set_option linter.unusedVariables false

variable {K : Type} [Field K] [LinearOrder K] [IsStrictOrderedRing K]

/-- `pickMin` returns one of the candidates, and no candidate has a smaller key. -/
theorem pickMin_spec {β : Type} : ∀ (l : List (K × β)) (best : K × β),
    pickMin best l ∈ best :: l ∧ ∀ x ∈ best :: l, (pickMin best l).1 ≤ x.1
  | [], best => by simp [pickMin]
  | y :: ys, best => by
      simp only [pickMin]
      by_cases hlt : y.1 < best.1
      · have ih := pickMin_spec ys y
        simp only [hlt, if_true]
        refine ⟨List.mem_cons_of_mem _ ih.1, ?_⟩
        intro x hx
        rcases List.mem_cons.mp hx with h | h
        · subst h; exact le_trans (ih.2 _ List.mem_cons_self) hlt.le
        · exact ih.2 _ h
      · have ih := pickMin_spec ys best
        simp only [hlt, if_false]
        constructor
        · rcases List.mem_cons.mp ih.1 with h | h
          · rw [h]; exact List.mem_cons_self
          · exact List.mem_cons_of_mem _ (List.mem_cons_of_mem _ h)
        · intro x hx
          rcases List.mem_cons.mp hx with h | h
          · subst h; exact ih.2 _ List.mem_cons_self
          · rcases List.mem_cons.mp h with h | h
            · subst h; exact le_trans (ih.2 _ List.mem_cons_self) (not_lt.mp hlt)
            · exact ih.2 _ (List.mem_cons_of_mem _ h)

/-! ### boxes -/

def InBox3 (lo hi q : V3 K) : Prop :=
  lo.x ≤ q.x ∧ q.x ≤ hi.x ∧ lo.y ≤ q.y ∧ q.y ≤ hi.y ∧ lo.z ≤ q.z ∧ q.z ≤ hi.z

def InBox2 (lo hi q : V2 K) : Prop := lo.x ≤ q.x ∧ q.x ≤ hi.x ∧ lo.y ≤ q.y ∧ q.y ≤ hi.y

/-- the plane coordinate of a face -/
def faceBound3 (lo hi : V3 K) (f : Face) : K := if f.2 then hi.get f.1 else lo.get f.1
def faceBound2 (lo hi : V2 K) (f : Face) : K := if f.2 then hi.get f.1 else lo.get f.1

/-- `q` lies on the face `f` of the box -/
def OnFace3 (lo hi q : V3 K) (f : Face) : Prop := InBox3 lo hi q ∧ f.1 < 3 ∧ q.get f.1 = faceBound3 lo hi f
def OnFace2 (lo hi q : V2 K) (f : Face) : Prop := InBox2 lo hi q ∧ f.1 < 2 ∧ q.get f.1 = faceBound2 lo hi f

/-- the boundary of the box: the union of its faces -/
def OnBoundary3 (lo hi q : V3 K) : Prop := ∃ f, OnFace3 lo hi q f
def OnBoundary2 (lo hi q : V2 K) : Prop := ∃ f, OnFace2 lo hi q f

/-- distance from an inside point to the plane of a face -/
def faceDist3 (lo hi c : V3 K) (f : Face) : K := if f.2 then hi.get f.1 - c.get f.1 else c.get f.1 - lo.get f.1
def faceDist2 (lo hi c : V2 K) (f : Face) : K := if f.2 then hi.get f.1 - c.get f.1 else c.get f.1 - lo.get f.1

theorem rectContains3_iff (lo hi c : V3 K) : rectContains3 lo hi c = true ↔ InBox3 lo hi c := by
  simp only [rectContains3, InBox3, Bool.and_eq_true, Bool.not_eq_true', decide_eq_false_iff_not, not_lt]
  tauto

theorem rectContains2_iff (lo hi c : V2 K) : rectContains2 lo hi c = true ↔ InBox2 lo hi c := by
  simp only [rectContains2, InBox2, Bool.and_eq_true, Bool.not_eq_true', decide_eq_false_iff_not, not_lt]
  tauto

/-! ### inside -/

theorem insideCand_spec (i : Nat) (lo hi c : K) :
    (insideCand i lo hi c).2.1 = i ∧
    (insideCand i lo hi c).1 = (if (insideCand i lo hi c).2.2 then hi - c else c - lo) ∧
    (insideCand i lo hi c).1 ≤ c - lo ∧ (insideCand i lo hi c).1 ≤ hi - c := by
  simp only [insideCand, mn_eq]
  by_cases h : c - lo < hi - c
  · simp [h, h.le]
  · simp [h, not_lt.mp h]

/-- The inside loop of 3-D `Rect.genericSDF` selects a face of minimal distance. -/
theorem rectInsidePick3_spec (lo hi c : V3 K) :
    (rectInsidePick3 lo hi c).2.1 < 3 ∧
    (rectInsidePick3 lo hi c).1 = faceDist3 lo hi c (rectInsidePick3 lo hi c).2 ∧
    ∀ f : Face, f.1 < 3 → (rectInsidePick3 lo hi c).1 ≤ faceDist3 lo hi c f := by
  have hs := pickMin_spec [insideCand 1 lo.y hi.y c.y, insideCand 2 lo.z hi.z c.z] (insideCand 0 lo.x hi.x c.x)
  have h0 := insideCand_spec 0 lo.x hi.x c.x
  have h1 := insideCand_spec 1 lo.y hi.y c.y
  have h2 := insideCand_spec 2 lo.z hi.z c.z
  unfold rectInsidePick3
  set pk := pickMin (insideCand 0 lo.x hi.x c.x) [insideCand 1 lo.y hi.y c.y, insideCand 2 lo.z hi.z c.z]
  have hle0 := hs.2 _ (List.mem_cons_self)
  have hle1 := hs.2 (insideCand 1 lo.y hi.y c.y) (by simp)
  have hle2 := hs.2 (insideCand 2 lo.z hi.z c.z) (by simp)
  have hmem : pk = insideCand 0 lo.x hi.x c.x ∨ pk = insideCand 1 lo.y hi.y c.y ∨ pk = insideCand 2 lo.z hi.z c.z := by
    simpa using hs.1
  refine ⟨?_, ?_, ?_⟩
  · rcases hmem with h | h | h
    · rw [h, h0.1]; omega
    · rw [h, h1.1]; omega
    · rw [h, h2.1]; omega
  · rcases hmem with h | h | h <;> rw [h] <;> simp only [faceDist3]
    · rw [h0.2.1, h0.1]; rfl
    · rw [h1.2.1, h1.1]; rfl
    · rw [h2.2.1, h2.1]; rfl
  · rintro ⟨i, b⟩ hi
    simp only [faceDist3]
    have : i = 0 ∨ i = 1 ∨ i = 2 := by simp at hi; omega
    rcases this with rfl | rfl | rfl <;> cases b <;> simp [V3.get] <;> linarith [h0.2.2.1, h0.2.2.2, h1.2.2.1, h1.2.2.2, h2.2.2.1, h2.2.2.2]

theorem rectInsidePick2_spec (lo hi c : V2 K) :
    (rectInsidePick2 lo hi c).2.1 < 2 ∧
    (rectInsidePick2 lo hi c).1 = faceDist2 lo hi c (rectInsidePick2 lo hi c).2 ∧
    ∀ f : Face, f.1 < 2 → (rectInsidePick2 lo hi c).1 ≤ faceDist2 lo hi c f := by
  have hs := pickMin_spec [insideCand 1 lo.y hi.y c.y] (insideCand 0 lo.x hi.x c.x)
  have h0 := insideCand_spec 0 lo.x hi.x c.x
  have h1 := insideCand_spec 1 lo.y hi.y c.y
  unfold rectInsidePick2
  set pk := pickMin (insideCand 0 lo.x hi.x c.x) [insideCand 1 lo.y hi.y c.y]
  have hle0 := hs.2 _ (List.mem_cons_self)
  have hle1 := hs.2 (insideCand 1 lo.y hi.y c.y) (by simp)
  have hmem : pk = insideCand 0 lo.x hi.x c.x ∨ pk = insideCand 1 lo.y hi.y c.y := by
    simpa using hs.1
  refine ⟨?_, ?_, ?_⟩
  · rcases hmem with h | h
    · rw [h, h0.1]; omega
    · rw [h, h1.1]; omega
  · rcases hmem with h | h <;> rw [h] <;> simp only [faceDist2]
    · rw [h0.2.1, h0.1]; rfl
    · rw [h1.2.1, h1.1]; rfl
  · rintro ⟨i, b⟩ hi
    simp only [faceDist2]
    have : i = 0 ∨ i = 1 := by simp at hi; omega
    rcases this with rfl | rfl <;> cases b <;> simp [V2.get] <;> linarith [h0.2.2.1, h0.2.2.2, h1.2.2.1, h1.2.2.2]

theorem axis3_cases {i : Nat} (h : i < 3) : i = 0 ∨ i = 1 ∨ i = 2 := by omega
theorem axis2_cases {i : Nat} (h : i < 2) : i = 0 ∨ i = 1 := by omega

theorem faceDist3_nonneg {lo hi c : V3 K} (hin : InBox3 lo hi c) (g : Face) (hg : g.1 < 3) :
    0 ≤ faceDist3 lo hi c g := by
  obtain ⟨i, b⟩ := g
  obtain ⟨h1, h2, h3, h4, h5, h6⟩ := hin
  rcases axis3_cases hg with rfl | rfl | rfl <;> cases b <;> simp [faceDist3, V3.get] <;> linarith

theorem faceDist2_nonneg {lo hi c : V2 K} (hin : InBox2 lo hi c) (g : Face) (hg : g.1 < 2) :
    0 ≤ faceDist2 lo hi c g := by
  obtain ⟨i, b⟩ := g
  obtain ⟨h1, h2, h3, h4⟩ := hin
  rcases axis2_cases hg with rfl | rfl <;> cases b <;> simp [faceDist2, V2.get] <;> linarith

theorem set_onFace3 {lo hi c : V3 K} (hin : InBox3 lo hi c) (f : Face) (hf : f.1 < 3) :
    OnFace3 lo hi (c.set f.1 (faceBound3 lo hi f)) f := by
  obtain ⟨i, b⟩ := f
  obtain ⟨h1, h2, h3, h4, h5, h6⟩ := hin
  rcases axis3_cases hf with rfl | rfl | rfl <;> cases b <;>
    simp [OnFace3, InBox3, faceBound3, V3.get, V3.set] <;> refine ⟨?_, ?_, ?_, ?_, ?_⟩ <;> linarith

theorem set_onFace2 {lo hi c : V2 K} (hin : InBox2 lo hi c) (f : Face) (hf : f.1 < 2) :
    OnFace2 lo hi (c.set f.1 (faceBound2 lo hi f)) f := by
  obtain ⟨i, b⟩ := f
  obtain ⟨h1, h2, h3, h4⟩ := hin
  rcases axis2_cases hf with rfl | rfl <;> cases b <;>
    simp [OnFace2, InBox2, faceBound2, V2.get, V2.set] <;> refine ⟨?_, ?_, ?_⟩ <;> linarith

theorem set_sqDist3 (lo hi c : V3 K) (f : Face) (hf : f.1 < 3) :
    c.sqDist (c.set f.1 (faceBound3 lo hi f)) = faceDist3 lo hi c f * faceDist3 lo hi c f := by
  obtain ⟨i, b⟩ := f
  rcases axis3_cases hf with rfl | rfl | rfl <;> cases b <;>
    simp [faceBound3, faceDist3, V3.get, V3.set, V3.sqDist] <;> ring

theorem set_sqDist2 (lo hi c : V2 K) (f : Face) (hf : f.1 < 2) :
    c.sqDist (c.set f.1 (faceBound2 lo hi f)) = faceDist2 lo hi c f * faceDist2 lo hi c f := by
  obtain ⟨i, b⟩ := f
  rcases axis2_cases hf with rfl | rfl <;> cases b <;>
    simp [faceBound2, faceDist2, V2.get, V2.set, V2.sqDist] <;> ring

theorem onFace3_sqDist_ge (lo hi c q : V3 K) (g : Face) (hq : OnFace3 lo hi q g) :
    faceDist3 lo hi c g * faceDist3 lo hi c g ≤ c.sqDist q := by
  obtain ⟨i, b⟩ := g
  obtain ⟨_, hg, hb⟩ := hq
  rcases axis3_cases hg with rfl | rfl | rfl <;> cases b <;>
    simp [faceBound3, faceDist3, V3.get, V3.sqDist] at hb ⊢ <;> rw [hb] <;>
    nlinarith [mul_self_nonneg (c.x - q.x), mul_self_nonneg (c.y - q.y), mul_self_nonneg (c.z - q.z)]

theorem onFace2_sqDist_ge (lo hi c q : V2 K) (g : Face) (hq : OnFace2 lo hi q g) :
    faceDist2 lo hi c g * faceDist2 lo hi c g ≤ c.sqDist q := by
  obtain ⟨i, b⟩ := g
  obtain ⟨_, hg, hb⟩ := hq
  rcases axis2_cases hg with rfl | rfl <;> cases b <;>
    simp [faceBound2, faceDist2, V2.get, V2.sqDist] at hb ⊢ <;> rw [hb] <;>
    nlinarith [mul_self_nonneg (c.x - q.x), mul_self_nonneg (c.y - q.y)]

/-- 3-D `Rect.genericSDF`, query inside: everything the property says. -/
theorem rectOut3_inside (E : Env K) (lo hi c : V3 K) (hin : InBox3 lo hi c) :
    ∃ f : Face, f.1 < 3 ∧
      (rectOut3 E lo hi c).val = faceDist3 lo hi c f ∧ 0 ≤ (rectOut3 E lo hi c).val ∧
      (∀ g : Face, g.1 < 3 → (rectOut3 E lo hi c).val ≤ faceDist3 lo hi c g) ∧
      (rectOut3 E lo hi c).n = faceNormal3 f ∧
      OnFace3 lo hi (rectOut3 E lo hi c).p f ∧
      c.sqDist (rectOut3 E lo hi c).p = (rectOut3 E lo hi c).val * (rectOut3 E lo hi c).val ∧
      ∀ q, OnBoundary3 lo hi q → (rectOut3 E lo hi c).val * (rectOut3 E lo hi c).val ≤ c.sqDist q := by
  have hc := (rectContains3_iff lo hi c).mpr hin
  obtain ⟨hf, hv, hmin⟩ := rectInsidePick3_spec lo hi c
  have hout : rectOut3 E lo hi c = ⟨(rectInsidePick3 lo hi c).1, faceNormal3 (rectInsidePick3 lo hi c).2,
      c.set (rectInsidePick3 lo hi c).2.1 (faceBound3 lo hi (rectInsidePick3 lo hi c).2)⟩ := by
    simp only [rectOut3, hc, Bool.not_true, Bool.false_eq_true, if_false, faceBound3]
  have h0 := faceDist3_nonneg hin _ hf
  refine ⟨(rectInsidePick3 lo hi c).2, hf, ?_⟩
  rw [hout]
  refine ⟨hv, by rw [hv]; exact h0, hmin, rfl, set_onFace3 hin _ hf, ?_, ?_⟩
  · rw [set_sqDist3 _ _ _ _ hf, hv]
  · rintro q ⟨g, hg⟩
    have h1 := onFace3_sqDist_ge lo hi c q g hg
    have h2 := hmin g hg.2.1
    have h3 : 0 ≤ (rectInsidePick3 lo hi c).1 := by rw [hv]; exact h0
    calc (rectInsidePick3 lo hi c).1 * (rectInsidePick3 lo hi c).1
        ≤ faceDist3 lo hi c g * faceDist3 lo hi c g := mul_self_le_mul_self h3 h2
      _ ≤ c.sqDist q := h1

theorem rectOut2_inside (E : Env K) (lo hi c : V2 K) (hin : InBox2 lo hi c) :
    ∃ f : Face, f.1 < 2 ∧
      (rectOut2 E lo hi c).val = faceDist2 lo hi c f ∧ 0 ≤ (rectOut2 E lo hi c).val ∧
      (∀ g : Face, g.1 < 2 → (rectOut2 E lo hi c).val ≤ faceDist2 lo hi c g) ∧
      (rectOut2 E lo hi c).n = faceNormal2 f ∧
      OnFace2 lo hi (rectOut2 E lo hi c).p f ∧
      c.sqDist (rectOut2 E lo hi c).p = (rectOut2 E lo hi c).val * (rectOut2 E lo hi c).val ∧
      ∀ q, OnBoundary2 lo hi q → (rectOut2 E lo hi c).val * (rectOut2 E lo hi c).val ≤ c.sqDist q := by
  have hc := (rectContains2_iff lo hi c).mpr hin
  obtain ⟨hf, hv, hmin⟩ := rectInsidePick2_spec lo hi c
  have hout : rectOut2 E lo hi c = ⟨(rectInsidePick2 lo hi c).1, faceNormal2 (rectInsidePick2 lo hi c).2,
      c.set (rectInsidePick2 lo hi c).2.1 (faceBound2 lo hi (rectInsidePick2 lo hi c).2)⟩ := by
    simp only [rectOut2, hc, Bool.not_true, Bool.false_eq_true, if_false, faceBound2]
  have h0 := faceDist2_nonneg hin _ hf
  refine ⟨(rectInsidePick2 lo hi c).2, hf, ?_⟩
  rw [hout]
  refine ⟨hv, by rw [hv]; exact h0, hmin, rfl, set_onFace2 hin _ hf, ?_, ?_⟩
  · rw [set_sqDist2 _ _ _ _ hf, hv]
  · rintro q ⟨g, hg⟩
    have h1 := onFace2_sqDist_ge lo hi c q g hg
    have h2 := hmin g hg.2.1
    have h3 : 0 ≤ (rectInsidePick2 lo hi c).1 := by rw [hv]; exact h0
    calc (rectInsidePick2 lo hi c).1 * (rectInsidePick2 lo hi c).1
        ≤ faceDist2 lo hi c g * faceDist2 lo hi c g := mul_self_le_mul_self h3 h2
      _ ≤ c.sqDist q := h1

/-! ### outside -/

/-- one coordinate of `c.Min(r.MaxVal).Max(r.MinVal)` -/
theorem clamp_spec {lo hi : K} (h : lo ≤ hi) (c : K) :
    lo ≤ mx (mn c hi) lo ∧ mx (mn c hi) lo ≤ hi ∧
    (c < lo → mx (mn c hi) lo = lo) ∧ (hi < c → mx (mn c hi) lo = hi) ∧
    (lo ≤ c → c ≤ hi → mx (mn c hi) lo = c) ∧
    ∀ q, lo ≤ q → q ≤ hi → (c - mx (mn c hi) lo) * (c - mx (mn c hi) lo) ≤ (c - q) * (c - q) := by
  rw [mn_eq, mx_eq]
  refine ⟨le_max_right _ _, max_le (min_le_right _ _) h, ?_, ?_, ?_, ?_⟩
  · intro hc; rw [min_eq_left (by linarith), max_eq_right hc.le]
  · intro hc; rw [min_eq_right hc.le, max_eq_left h]
  · intro h1 h2; rw [min_eq_left h2, max_eq_left h1]
  · intro q h1 h2
    rcases lt_or_ge c lo with hc | hc
    · rw [min_eq_left (by linarith), max_eq_right hc.le]; nlinarith
    · rcases lt_or_ge hi c with hc2 | hc2
      · rw [min_eq_right hc2.le, max_eq_left h]; nlinarith
      · rw [min_eq_left hc2, max_eq_left hc]; nlinarith [mul_self_nonneg (c - q)]

theorem normalAtFace3_spec (lo hi p : V3 K) :
    (normalAtFace3 lo hi p).1 < 3 ∧
    ∀ g : Face, g.1 < 3 → |p.get (normalAtFace3 lo hi p).1 - faceBound3 lo hi (normalAtFace3 lo hi p)|
      ≤ |p.get g.1 - faceBound3 lo hi g| := by
  have hs := pickMin_spec ((normalAtCands3 lo hi p).drop 1) (absS (p.x - lo.x), ((0, false) : Face))
  unfold normalAtFace3
  set pk := pickMin (absS (p.x - lo.x), ((0, false) : Face)) ((normalAtCands3 lo hi p).drop 1)
  simp only [normalAtCands3, List.drop_succ_cons, List.drop_zero, List.mem_cons, List.mem_nil_iff, or_false,
    forall_eq_or_imp, forall_eq, absS_eq] at hs
  obtain ⟨hmem, h0, h1, h2, h3, h4, h5⟩ := hs
  have hval : pk.2.1 < 3 ∧ pk.1 = |p.get pk.2.1 - faceBound3 lo hi pk.2| := by
    rcases hmem with h | h | h | h | h | h <;> rw [h] <;> simp [faceBound3, V3.get]
  refine ⟨hval.1, ?_⟩
  rintro ⟨i, b⟩ hg
  rw [← hval.2]
  rcases axis3_cases hg with rfl | rfl | rfl <;> cases b <;> simp [faceBound3, V3.get] <;> assumption

theorem normalAtFace2_spec (lo hi p : V2 K) :
    (normalAtFace2 lo hi p).1 < 2 ∧
    ∀ g : Face, g.1 < 2 → |p.get (normalAtFace2 lo hi p).1 - faceBound2 lo hi (normalAtFace2 lo hi p)|
      ≤ |p.get g.1 - faceBound2 lo hi g| := by
  have hs := pickMin_spec ((normalAtCands2 lo hi p).drop 1) (absS (p.x - lo.x), ((0, false) : Face))
  unfold normalAtFace2
  set pk := pickMin (absS (p.x - lo.x), ((0, false) : Face)) ((normalAtCands2 lo hi p).drop 1)
  simp only [normalAtCands2, List.drop_succ_cons, List.drop_zero, List.mem_cons, List.mem_nil_iff, or_false,
    forall_eq_or_imp, forall_eq, absS_eq] at hs
  obtain ⟨hmem, h0, h1, h2, h3⟩ := hs
  have hval : pk.2.1 < 2 ∧ pk.1 = |p.get pk.2.1 - faceBound2 lo hi pk.2| := by
    rcases hmem with h | h | h | h <;> rw [h] <;> simp [faceBound2, V2.get]
  refine ⟨hval.1, ?_⟩
  rintro ⟨i, b⟩ hg
  rw [← hval.2]
  rcases axis2_cases hg with rfl | rfl <;> cases b <;> simp [faceBound2, V2.get] <;> assumption

/-- `Rect.normalAt` of a boundary point names a face that contains the point. -/
theorem normalAtFace3_onFace (lo hi p : V3 K) (hp : OnBoundary3 lo hi p) :
    OnFace3 lo hi p (normalAtFace3 lo hi p) := by
  obtain ⟨g, hin, hg, hb⟩ := hp
  obtain ⟨hf, hmin⟩ := normalAtFace3_spec lo hi p
  have := hmin g hg
  rw [hb, sub_self, abs_zero] at this
  have h0 := abs_nonneg (p.get (normalAtFace3 lo hi p).1 - faceBound3 lo hi (normalAtFace3 lo hi p))
  have : p.get (normalAtFace3 lo hi p).1 - faceBound3 lo hi (normalAtFace3 lo hi p) = 0 :=
    abs_eq_zero.mp (le_antisymm this h0)
  exact ⟨hin, hf, by linarith⟩

theorem normalAtFace2_onFace (lo hi p : V2 K) (hp : OnBoundary2 lo hi p) :
    OnFace2 lo hi p (normalAtFace2 lo hi p) := by
  obtain ⟨g, hin, hg, hb⟩ := hp
  obtain ⟨hf, hmin⟩ := normalAtFace2_spec lo hi p
  have := hmin g hg
  rw [hb, sub_self, abs_zero] at this
  have h0 := abs_nonneg (p.get (normalAtFace2 lo hi p).1 - faceBound2 lo hi (normalAtFace2 lo hi p))
  have : p.get (normalAtFace2 lo hi p).1 - faceBound2 lo hi (normalAtFace2 lo hi p) = 0 :=
    abs_eq_zero.mp (le_antisymm this h0)
  exact ⟨hin, hf, by linarith⟩

/-- the projection `c.Min(MaxVal).Max(MinVal)` -/
def clamp3 (lo hi c : V3 K) : V3 K := (c.vmin hi).vmax lo
def clamp2 (lo hi c : V2 K) : V2 K := (c.vmin hi).vmax lo

theorem clamp3_spec (lo hi c : V3 K) (hx : lo.x ≤ hi.x) (hy : lo.y ≤ hi.y) (hz : lo.z ≤ hi.z) :
    InBox3 lo hi (clamp3 lo hi c) ∧ (∀ q, InBox3 lo hi q → c.sqDist (clamp3 lo hi c) ≤ c.sqDist q) ∧
    (¬ InBox3 lo hi c → OnBoundary3 lo hi (clamp3 lo hi c) ∧ 0 < c.sqDist (clamp3 lo hi c)) := by
  obtain ⟨a1, a2, a3, a4, a5, a6⟩ := clamp_spec hx c.x
  obtain ⟨b1, b2, b3, b4, b5, b6⟩ := clamp_spec hy c.y
  obtain ⟨c1, c2, c3, c4, c5, c6⟩ := clamp_spec hz c.z
  have hin : InBox3 lo hi (clamp3 lo hi c) := ⟨a1, a2, b1, b2, c1, c2⟩
  refine ⟨hin, ?_, ?_⟩
  · rintro q ⟨q1, q2, q3, q4, q5, q6⟩
    have := a6 q.x q1 q2; have := b6 q.y q3 q4; have := c6 q.z q5 q6
    simp only [V3.sqDist, clamp3, V3.vmin, V3.vmax]; linarith
  · intro hout
    have hcases : c.x < lo.x ∨ hi.x < c.x ∨ c.y < lo.y ∨ hi.y < c.y ∨ c.z < lo.z ∨ hi.z < c.z := by
      by_contra hcon
      simp only [not_or, not_lt] at hcon
      exact hout ⟨hcon.1, hcon.2.1, hcon.2.2.1, hcon.2.2.2.1, hcon.2.2.2.2.1, hcon.2.2.2.2.2⟩
    have hsq : ∀ a b : K, a ≠ b → 0 < (a - b) * (a - b) := fun a b h => mul_self_pos.mpr (sub_ne_zero.mpr h)
    have n1 := mul_self_nonneg (c.x - (clamp3 lo hi c).x)
    have n2 := mul_self_nonneg (c.y - (clamp3 lo hi c).y)
    have n3 := mul_self_nonneg (c.z - (clamp3 lo hi c).z)
    rcases hcases with h | h | h | h | h | h
    · have e := a3 h
      exact ⟨⟨(0, false), hin, by simp, by simpa [faceBound3, V3.get, clamp3, V3.vmin, V3.vmax] using e⟩, by
        have := hsq c.x (clamp3 lo hi c).x (by simp only [clamp3, V3.vmin, V3.vmax]; rw [e]; exact h.ne)
        simp only [V3.sqDist]; linarith⟩
    · have e := a4 h
      exact ⟨⟨(0, true), hin, by simp, by simpa [faceBound3, V3.get, clamp3, V3.vmin, V3.vmax] using e⟩, by
        have := hsq c.x (clamp3 lo hi c).x (by simp only [clamp3, V3.vmin, V3.vmax]; rw [e]; exact h.ne')
        simp only [V3.sqDist]; linarith⟩
    · have e := b3 h
      exact ⟨⟨(1, false), hin, by simp, by simpa [faceBound3, V3.get, clamp3, V3.vmin, V3.vmax] using e⟩, by
        have := hsq c.y (clamp3 lo hi c).y (by simp only [clamp3, V3.vmin, V3.vmax]; rw [e]; exact h.ne)
        simp only [V3.sqDist]; linarith⟩
    · have e := b4 h
      exact ⟨⟨(1, true), hin, by simp, by simpa [faceBound3, V3.get, clamp3, V3.vmin, V3.vmax] using e⟩, by
        have := hsq c.y (clamp3 lo hi c).y (by simp only [clamp3, V3.vmin, V3.vmax]; rw [e]; exact h.ne')
        simp only [V3.sqDist]; linarith⟩
    · have e := c3 h
      exact ⟨⟨(2, false), hin, by simp, by simpa [faceBound3, V3.get, clamp3, V3.vmin, V3.vmax] using e⟩, by
        have := hsq c.z (clamp3 lo hi c).z (by simp only [clamp3, V3.vmin, V3.vmax]; rw [e]; exact h.ne)
        simp only [V3.sqDist]; linarith⟩
    · have e := c4 h
      exact ⟨⟨(2, true), hin, by simp, by simpa [faceBound3, V3.get, clamp3, V3.vmin, V3.vmax] using e⟩, by
        have := hsq c.z (clamp3 lo hi c).z (by simp only [clamp3, V3.vmin, V3.vmax]; rw [e]; exact h.ne')
        simp only [V3.sqDist]; linarith⟩

theorem clamp2_spec (lo hi c : V2 K) (hx : lo.x ≤ hi.x) (hy : lo.y ≤ hi.y) :
    InBox2 lo hi (clamp2 lo hi c) ∧ (∀ q, InBox2 lo hi q → c.sqDist (clamp2 lo hi c) ≤ c.sqDist q) ∧
    (¬ InBox2 lo hi c → OnBoundary2 lo hi (clamp2 lo hi c) ∧ 0 < c.sqDist (clamp2 lo hi c)) := by
  obtain ⟨a1, a2, a3, a4, a5, a6⟩ := clamp_spec hx c.x
  obtain ⟨b1, b2, b3, b4, b5, b6⟩ := clamp_spec hy c.y
  have hin : InBox2 lo hi (clamp2 lo hi c) := ⟨a1, a2, b1, b2⟩
  refine ⟨hin, ?_, ?_⟩
  · rintro q ⟨q1, q2, q3, q4⟩
    have := a6 q.x q1 q2; have := b6 q.y q3 q4
    simp only [V2.sqDist, clamp2, V2.vmin, V2.vmax]; linarith
  · intro hout
    have hcases : c.x < lo.x ∨ hi.x < c.x ∨ c.y < lo.y ∨ hi.y < c.y := by
      by_contra hcon
      simp only [not_or, not_lt] at hcon
      exact hout ⟨hcon.1, hcon.2.1, hcon.2.2.1, hcon.2.2.2⟩
    have hsq : ∀ a b : K, a ≠ b → 0 < (a - b) * (a - b) := fun a b h => mul_self_pos.mpr (sub_ne_zero.mpr h)
    have n1 := mul_self_nonneg (c.x - (clamp2 lo hi c).x)
    have n2 := mul_self_nonneg (c.y - (clamp2 lo hi c).y)
    rcases hcases with h | h | h | h
    · have e := a3 h
      exact ⟨⟨(0, false), hin, by simp, by simpa [faceBound2, V2.get, clamp2, V2.vmin, V2.vmax] using e⟩, by
        have := hsq c.x (clamp2 lo hi c).x (by simp only [clamp2, V2.vmin, V2.vmax]; rw [e]; exact h.ne)
        simp only [V2.sqDist]; linarith⟩
    · have e := a4 h
      exact ⟨⟨(0, true), hin, by simp, by simpa [faceBound2, V2.get, clamp2, V2.vmin, V2.vmax] using e⟩, by
        have := hsq c.x (clamp2 lo hi c).x (by simp only [clamp2, V2.vmin, V2.vmax]; rw [e]; exact h.ne')
        simp only [V2.sqDist]; linarith⟩
    · have e := b3 h
      exact ⟨⟨(1, false), hin, by simp, by simpa [faceBound2, V2.get, clamp2, V2.vmin, V2.vmax] using e⟩, by
        have := hsq c.y (clamp2 lo hi c).y (by simp only [clamp2, V2.vmin, V2.vmax]; rw [e]; exact h.ne)
        simp only [V2.sqDist]; linarith⟩
    · have e := b4 h
      exact ⟨⟨(1, true), hin, by simp, by simpa [faceBound2, V2.get, clamp2, V2.vmin, V2.vmax] using e⟩, by
        have := hsq c.y (clamp2 lo hi c).y (by simp only [clamp2, V2.vmin, V2.vmax]; rw [e]; exact h.ne')
        simp only [V2.sqDist]; linarith⟩

/-- 3-D `Rect.genericSDF`, query outside. -/
theorem rectOut3_outside {E : Env K} (hE : E.Exact) (lo hi c : V3 K)
    (hx : lo.x ≤ hi.x) (hy : lo.y ≤ hi.y) (hz : lo.z ≤ hi.z) (hout : ¬ InBox3 lo hi c) :
    (rectOut3 E lo hi c).val < 0 ∧
    (rectOut3 E lo hi c).val * (rectOut3 E lo hi c).val = c.sqDist (rectOut3 E lo hi c).p ∧
    (∀ q, InBox3 lo hi q → c.sqDist (rectOut3 E lo hi c).p ≤ c.sqDist q) ∧
    ∃ f : Face, (rectOut3 E lo hi c).n = faceNormal3 f ∧ OnFace3 lo hi (rectOut3 E lo hi c).p f := by
  have hc : rectContains3 lo hi c = false := by
    rw [← Bool.not_eq_true, rectContains3_iff]; exact hout
  obtain ⟨hin, hopt, hb⟩ := clamp3_spec lo hi c hx hy hz
  obtain ⟨hbd, hpos⟩ := hb hout
  have ho : rectOut3 E lo hi c = ⟨-(c.dist E (clamp3 lo hi c)), faceNormal3 (normalAtFace3 lo hi (clamp3 lo hi c)),
      clamp3 lo hi c⟩ := by
    simp only [rectOut3, hc, Bool.not_false, if_true, clamp3]
  rw [ho]
  simp only [V3.dist]
  have hs := hE.sqrt_pos hpos
  have hsq := hE.sqrt_sq _ hpos.le
  refine ⟨by linarith, by linarith, hopt, _, rfl, normalAtFace3_onFace lo hi _ hbd⟩

theorem rectOut2_outside {E : Env K} (hE : E.Exact) (lo hi c : V2 K)
    (hx : lo.x ≤ hi.x) (hy : lo.y ≤ hi.y) (hout : ¬ InBox2 lo hi c) :
    (rectOut2 E lo hi c).val < 0 ∧
    (rectOut2 E lo hi c).val * (rectOut2 E lo hi c).val = c.sqDist (rectOut2 E lo hi c).p ∧
    (∀ q, InBox2 lo hi q → c.sqDist (rectOut2 E lo hi c).p ≤ c.sqDist q) ∧
    ∃ f : Face, (rectOut2 E lo hi c).n = faceNormal2 f ∧ OnFace2 lo hi (rectOut2 E lo hi c).p f := by
  have hc : rectContains2 lo hi c = false := by
    rw [← Bool.not_eq_true, rectContains2_iff]; exact hout
  obtain ⟨hin, hopt, hb⟩ := clamp2_spec lo hi c hx hy
  obtain ⟨hbd, hpos⟩ := hb hout
  have ho : rectOut2 E lo hi c = ⟨-(c.dist E (clamp2 lo hi c)), faceNormal2 (normalAtFace2 lo hi (clamp2 lo hi c)),
      clamp2 lo hi c⟩ := by
    simp only [rectOut2, hc, Bool.not_false, if_true, clamp2]
  rw [ho]
  simp only [V2.dist]
  have hs := hE.sqrt_pos hpos
  have hsq := hE.sqrt_sq _ hpos.le
  refine ⟨by linarith, by linarith, hopt, _, rfl, normalAtFace2_onFace lo hi _ hbd⟩

end M3d.Sdf
