import M3d.Lemmas.C01Conj
/-!
# The Conj members, round 5: translations do not matter, a frame of POINTS does not measure orientation

`M3d.C01Search.conjMesh_eq` already quantifies over every affine map back `p ↦ L p + w` — the reversal is decided by
`det L` alone.  This file makes the role of the translation part `w` explicit, because a cheap "does the map reverse
orientation" probe is easily written with POINTS instead of DIRECTIONS:

* `Aff3.dirFrame g` — the triple product of `g(e₁) − g(0), g(e₂) − g(0), g(e₃) − g(0)` — is `det L` (`dirFrame_eq_det`);
* `Aff3.pointFrame g` — the triple product of the images `g(e₁), g(e₂), g(e₃)` of the unit points, the image of the
  origin NOT subtracted — is `det (L + w 1ᵀ)`, i.e. `det L` plus a term linear in `w` (`pointFrame_eq`); they agree for
  linear maps (`pointFrame_linear`) and differ as soon as a reflection is written about a plane that does not pass
  through the origin: for the mirror image about `x = c` (`Aff3.mirrorX c`) `det L = −1` and
  `pointFrame = 2c − 1 ≥ 0` from `c = 1/2` on (`mirrorX_det`, `mirrorX_pointFrame`);
* `conjMesh_translation_irrelevant`: two maps back with the same linear part give the same triangles, translated;
* `map_back_unreversed_inside_out`: for an orientation-reversing map back the bare mapped mesh (what a Conj member returns
  when anything makes it skip the reversal) has NEGATIVE signed volume from wherever it is measured.
Same in 2-D (`Aff2`).
-/
namespace M3d.C01Search
set_option linter.unusedSectionVars false

variable {K : Type} [Field K] [LinearOrder K] [IsStrictOrderedRing K]

namespace Aff3

/-- triple product of the images of the unit DIRECTIONS: `g(eᵢ) − g(0)` -/
def dirFrame (g : Aff3 K) : K :=
  det3 (sub3 (g.apply (1, 0, 0)) (g.apply (0, 0, 0))) (sub3 (g.apply (0, 1, 0)) (g.apply (0, 0, 0)))
    (sub3 (g.apply (0, 0, 1)) (g.apply (0, 0, 0)))

/-- triple product of the images of the unit POINTS `X(1), Y(1), Z(1)` (the image of the origin not subtracted) -/
def pointFrame (g : Aff3 K) : K := det3 (g.apply (1, 0, 0)) (g.apply (0, 1, 0)) (g.apply (0, 0, 1))

theorem dirFrame_eq_det (g : Aff3 K) : g.dirFrame = g.det := by
  simp only [dirFrame, det3, sub3, apply, lin, det]; ring

/-- `det (L + w 1ᵀ) = det L + 1ᵀ adj(L) w` -/
theorem pointFrame_eq (g : Aff3 K) :
    g.pointFrame = g.det
      + g.w1 * ((g.m22 * g.m33 - g.m23 * g.m32) - (g.m21 * g.m33 - g.m23 * g.m31) + (g.m21 * g.m32 - g.m22 * g.m31))
      + g.w2 * (-(g.m12 * g.m33 - g.m13 * g.m32) + (g.m11 * g.m33 - g.m13 * g.m31) - (g.m11 * g.m32 - g.m12 * g.m31))
      + g.w3 * ((g.m12 * g.m23 - g.m13 * g.m22) - (g.m11 * g.m23 - g.m13 * g.m21) + (g.m11 * g.m22 - g.m12 * g.m21)) := by
  simp only [pointFrame, det3, apply, lin, det]; ring

theorem pointFrame_linear (g : Aff3 K) (h1 : g.w1 = 0) (h2 : g.w2 = 0) (h3 : g.w3 = 0) : g.pointFrame = g.det := by
  rw [pointFrame_eq, h1, h2, h3]; ring

/-- the mirror image about the plane `x = c`: `Translate(−c), VecScale(−1,1,1), Translate(c)` joined (and its own inverse) -/
def mirrorX (c : K) : Aff3 K := ⟨-1, 0, 0, 0, 1, 0, 0, 0, 1, 2 * c, 0, 0⟩

theorem mirrorX_apply (c : K) (p : K × K × K) : (mirrorX c).apply p = (2 * c - p.1, p.2.1, p.2.2) := by
  obtain ⟨x, y, z⟩ := p
  simp only [mirrorX, apply, lin, Prod.mk.injEq]
  refine ⟨by ring, by ring, by ring⟩

theorem mirrorX_det (c : K) : (mirrorX c).det = -1 := by
  simp only [mirrorX, det]; ring

theorem mirrorX_pointFrame (c : K) : (mirrorX c).pointFrame = 2 * c - 1 := by
  simp only [mirrorX, pointFrame, det3, apply, lin]; ring

/-- the same linear part with another translation -/
def withW (g : Aff3 K) (w : K × K × K) : Aff3 K := { g with w1 := w.1, w2 := w.2.1, w3 := w.2.2 }

theorem withW_det (g : Aff3 K) (w : K × K × K) : (g.withW w).det = g.det := rfl

theorem withW_apply (g : Aff3 K) (w p : K × K × K) :
    (g.withW w).apply p = ((g.apply p).1 + (w.1 - g.w1), (g.apply p).2.1 + (w.2.1 - g.w2), (g.apply p).2.2 + (w.2.2 - g.w3)) := by
  simp only [withW, apply, lin, Prod.mk.injEq]
  refine ⟨by ring, by ring, by ring⟩

end Aff3

/-- translate a point by `d` -/
def shift3 (d p : K × K × K) : K × K × K := (p.1 + d.1, p.2.1 + d.2.1, p.2.2 + d.2.2)

theorem conjTri_withW (g : Aff3 K) (w : K × K × K) (t : (K × K × K) × (K × K × K) × (K × K × K)) :
    conjTri (g.withW w) t = map3 (shift3 (w.1 - g.w1, w.2.1 - g.w2, w.2.2 - g.w3)) (conjTri g t) := by
  unfold conjTri
  rw [Aff3.withW_det]
  split_ifs <;> simp only [map3, flip3, shift3, Aff3.withW_apply]

/-- **The translation part of the map back is irrelevant to the reversal**: two invertible affine maps back with the
same linear part return the same triangles (same vertex order, same reversal decision), translated. -/
theorem conjMesh_translation_irrelevant (g : Aff3 K) (hd : g.det ≠ 0) (w o o' : K × K × K)
    (ts : List ((K × K × K) × (K × K × K) × (K × K × K)))
    (hb : ∀ p q, pecnt ts (p, q) = pecnt ts (q, p)) (hv : 0 < vol6 ts) :
    conjMesh (g.withW w).apply o' ts =
      (conjMesh g.apply o ts).map (map3 (shift3 (w.1 - g.w1, w.2.1 - g.w2, w.2.2 - g.w3))) := by
  rw [conjMesh_eq (g.withW w) (by rw [Aff3.withW_det]; exact hd) o' ts hb hv, conjMesh_eq g hd o ts hb hv,
    List.map_map]
  apply List.map_congr_left
  intro t _
  exact conjTri_withW g w t

/-- **Skipping the reversal on an orientation-reversing map back returns the surface inside out**: the bare mapped mesh
of a closed soup of positive volume has negative signed volume, measured from any point. -/
theorem map_back_unreversed_inside_out (g : Aff3 K) (hd : g.det < 0) (o : K × K × K)
    (ts : List ((K × K × K) × (K × K × K) × (K × K × K)))
    (hb : ∀ p q, pecnt ts (p, q) = pecnt ts (q, p)) (hv : 0 < vol6 ts) :
    vol6At o (ts.map (map3 g.apply)) < 0 := by
  rw [vol6At_affine g o ts hb]
  exact mul_neg_of_neg_of_pos hd hv

/-- … and a direction that left the transformed solid through a triangle enters the bare mapped triangle from its
normal side: `normal(g t) · (L v) < 0` -/
theorem map_back_unreversed_normal_inward (g : Aff3 K) (hd : g.det < 0)
    (t : (K × K × K) × (K × K × K) × (K × K × K)) (v : K × K × K) (h : 0 < ndot t v) :
    ndot (map3 g.apply t) (g.lin v) < 0 := by
  rw [ndot_map]
  exact mul_neg_of_neg_of_pos hd h

/-! ### 2-D -/
namespace Aff2

def dirFrame (g : Aff2 K) : K :=
  det2 (sub2 (g.apply (1, 0)) (g.apply (0, 0))) (sub2 (g.apply (0, 1)) (g.apply (0, 0)))

def pointFrame (g : Aff2 K) : K := det2 (g.apply (1, 0)) (g.apply (0, 1))

theorem dirFrame_eq_det (g : Aff2 K) : g.dirFrame = g.det := by
  simp only [dirFrame, det2, sub2, apply, lin, det]; ring

theorem pointFrame_eq (g : Aff2 K) :
    g.pointFrame = g.det + g.w1 * (g.m22 - g.m21) + g.w2 * (g.m11 - g.m12) := by
  simp only [pointFrame, det2, apply, lin, det]; ring

/-- the mirror image about the line `x = c` -/
def mirrorX (c : K) : Aff2 K := ⟨-1, 0, 0, 1, 2 * c, 0⟩

theorem mirrorX_det (c : K) : (mirrorX c).det = -1 := by simp only [mirrorX, det]; ring

theorem mirrorX_pointFrame (c : K) : (mirrorX c).pointFrame = 2 * c - 1 := by
  simp only [mirrorX, pointFrame, det2, apply, lin]; ring

end Aff2

/-- 2-D twin of `map_back_unreversed_inside_out`: the bare mapped outline runs counter-clockwise (shoelace sum positive) -/
theorem map_back_unreversed_inside_out2 (g : Aff2 K) (hd : g.det < 0) (o : K × K)
    (ss : List ((K × K) × (K × K))) (hc : ∀ v, pcnt false ss v = pcnt true ss v) (hv : shoe2 ss < 0) :
    0 < shoe2At o (ss.map (map2 g.apply)) := by
  rw [shoe2At_affine g o ss hc]
  exact mul_pos_of_neg_of_neg hd hv

end M3d.C01Search
