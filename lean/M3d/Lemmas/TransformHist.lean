import M3d.Model.TransformHist
import Mathlib.Data.List.Forall2
import Mathlib.Tactic.Ring
/-!
Helper lemmas for the history theorems of C05 (`M3d/Props/C05.lean`): the heap semantics of
`M3d/Model/TransformHist.lean` (`Hist.readIn`, `Hist.goInverse`, `Hist.HeapStep.run`) against the value semantics.
Everything here is structural (no field axioms): the scalar `α` only needs the operations `Xf.inverse` mentions.
-/
namespace M3d.Tf.Hist

set_option linter.unusedSectionVars false
set_option linter.unusedVariables false
set_option linter.unusedSimpArgs false

variable {α : Type}

/-! ### `allSome` -/

theorem allSome_eq_some_iff {β γ : Type} (f : β → Option γ) :
    ∀ (l : List β) (r : List γ), allSome f l = some r ↔ List.Forall₂ (fun a b => f a = some b) l r
  | [], r => by
      cases r with
      | nil => simp [allSome]
      | cons b bs => simp [allSome]
  | a :: as, r => by
      have ih := allSome_eq_some_iff f as
      cases hfa : f a with
      | none =>
          simp only [allSome, hfa]
          constructor
          · intro h; cases h
          · intro h; cases h with | cons h1 _ => rw [hfa] at h1; cases h1
      | some b =>
          cases hfas : allSome f as with
          | none =>
              simp only [allSome, hfa, hfas]
              constructor
              · intro h; cases h
              · intro h
                cases h with
                | cons h1 h2 => rw [← ih] at h2; rw [hfas] at h2; cases h2
          | some bs =>
              simp only [allSome, hfa, hfas]
              constructor
              · intro h
                cases h
                exact List.Forall₂.cons hfa ((ih bs).1 hfas)
              · intro h
                cases h with
                | cons h1 h2 =>
                    rw [hfa] at h1; cases h1
                    rw [← ih, hfas] at h2; cases h2; rfl

/-! ### the value an object denotes depends only on the cells of its footprint -/

/-- **Frame lemma.**  If every cell of the footprint `S` that exists in `h` exists unchanged in `h2` and lies in
`S'`, an object that denotes `t` in `h` (within `S`) denotes `t` in `h2` (within `S'`).  Covers: heap extension,
stores into cells outside the footprint, shrinking / growing the footprint. -/
theorem readIn_transfer (S S' : Nat → Bool) (h h2 : Heap α)
    (hx : ∀ b c, S b = true → h[b]? = some c → S' b = true ∧ h2[b]? = some c) :
    ∀ n a t, readIn S n h a = some t → readIn S' n h2 a = some t := by
  intro n
  induction n with
  | zero => intro a t ht; simp [readIn] at ht
  | succ n ih =>
    intro a t ht
    unfold readIn at ht ⊢
    by_cases hS : S a = true
    · rw [if_pos hS] at ht
      cases hha : h[a]? with
      | none => rw [hha] at ht; cases ht
      | some c =>
        obtain ⟨hS', h2a⟩ := hx a c hS hha
        rw [hha] at ht
        rw [if_pos hS', h2a]
        cases c with
        | prim t' => exact ht
        | mat m => cases ht
        | mxf p =>
            by_cases hSp : S p = true
            · simp only [hSp, if_true] at ht ⊢
              cases hhp : h[p]? with
              | none => rw [hhp] at ht; cases ht
              | some c' =>
                  obtain ⟨hSp', h2p⟩ := hx p c' hSp hhp
                  rw [hhp] at ht
                  simp only [hSp', if_true, h2p]
                  exact ht
            · simp [hSp] at ht
        | oxf p =>
            by_cases hSp : S p = true
            · simp only [hSp, if_true] at ht ⊢
              cases hhp : h[p]? with
              | none => rw [hhp] at ht; cases ht
              | some c' =>
                  obtain ⟨hSp', h2p⟩ := hx p c' hSp hhp
                  rw [hhp] at ht
                  simp only [hSp', if_true, h2p]
                  exact ht
            · simp [hSp] at ht
        | slice ps =>
            simp only [Option.map_eq_some_iff] at ht ⊢
            obtain ⟨ts, hts, rfl⟩ := ht
            refine ⟨ts, ?_, rfl⟩
            rw [allSome_eq_some_iff] at hts ⊢
            exact hts.imp (fun b c hb => ih b c hb)
    · rw [if_neg hS] at ht; cases ht

theorem getElem?_append_of_some (h e : Heap α) (b : Nat) (c : Cell α) (hb : h[b]? = some c) :
    (h ++ e)[b]? = some c := by
  have hlt : b < h.length := by
    by_contra hge
    rw [List.getElem?_eq_none (by omega)] at hb
    cases hb
  rw [List.getElem?_append_left hlt]
  exact hb

/-- Allocation never changes what an existing object denotes. -/
theorem readIn_append (S : Nat → Bool) (h e : Heap α) (n a : Nat) (t : Xf α)
    (ht : readIn S n h a = some t) : readIn S n (h ++ e) a = some t :=
  readIn_transfer S S h (h ++ e) (fun b c hS hb => ⟨hS, getElem?_append_of_some h e b c hb⟩) n a t ht

/-! ### `Inverse()` -/

section Inverse
variable [Add α] [Sub α] [Mul α] [Div α] [Neg α] [OfNat α 1]

theorem ofList_snoc (l : List (Xf α)) (t : Xf α) : (Xf.ofList l).snoc t = Xf.ofList (l ++ [t]) := by
  induction l with
  | nil => rfl
  | cons a l ih => simp only [Xf.ofList, Xf.snoc, ih, List.cons_append]

/-- `JoinedTransform.Inverse()`: the inverses, last member first. -/
theorem ofList_inverse (ts : List (Xf α)) :
    (Xf.ofList ts).inverse = Xf.ofList (ts.reverse.map Xf.inverse) := by
  induction ts with
  | nil => rfl
  | cons t ts ih =>
      simp only [Xf.ofList, Xf.inverse, ih, ofList_snoc, List.reverse_cons, List.map_append, List.map_cons,
        List.map_nil]

/-- the cells allocated since the heap had the size of `h` -/
def freshOf (h : Heap α) : Nat → Bool := fun b => decide (h.length ≤ b)

theorem invMembers_spec (S : Nat → Bool) (n : Nat) (h0 : Heap α)
    (ih : ∀ (h : Heap α) a t, readIn S n h a = some t →
        ∃ ext a', goInverse n h a = some (h ++ ext, a') ∧ readIn (freshOf h) n (h ++ ext) a' = some t.inverse) :
    ∀ (qs : List Nat) (us : List (Xf α)), List.Forall₂ (fun a t => readIn S n h0 a = some t) qs us →
    ∀ (e : Heap α) (res : List Nat) (rs : List (Xf α)),
      List.Forall₂ (fun a t => readIn (freshOf h0) n (h0 ++ e) a = some t) res rs →
      ∃ ext res', invMembers (goInverse n) qs (h0 ++ e) res = some (h0 ++ e ++ ext, res') ∧
        List.Forall₂ (fun a t => readIn (freshOf h0) n (h0 ++ e ++ ext) a = some t) res'
          (rs ++ us.map Xf.inverse) := by
  intro qs us hqu
  induction hqu with
  | nil =>
      intro e res rs hres
      refine ⟨[], res, ?_, ?_⟩
      · simp [invMembers]
      · simpa using hres
  | @cons q u qs us hq _ ihl =>
      intro e res rs hres
      have hq' : readIn S n (h0 ++ e) q = some u := readIn_append S h0 e n q u hq
      obtain ⟨ext1, a1, hgo, hrd⟩ := ih (h0 ++ e) q u hq'
      have hrd' : readIn (freshOf h0) n (h0 ++ (e ++ ext1)) a1 = some u.inverse := by
        rw [← List.append_assoc]
        refine readIn_transfer (freshOf (h0 ++ e)) (freshOf h0) _ _ ?_ n a1 _ hrd
        intro b c hb hc
        refine ⟨?_, hc⟩
        simp only [freshOf, decide_eq_true_eq, List.length_append] at hb ⊢
        omega
      have hres' : List.Forall₂ (fun a t => readIn (freshOf h0) n (h0 ++ (e ++ ext1)) a = some t)
          (res ++ [a1]) (rs ++ [u.inverse]) := by
        refine List.rel_append (hres.imp ?_) (List.Forall₂.cons hrd' List.Forall₂.nil)
        intro a t hat
        rw [← List.append_assoc]
        exact readIn_append _ _ _ _ _ _ hat
      obtain ⟨ext2, res', hinv, hall⟩ := ihl (e ++ ext1) (res ++ [a1]) (rs ++ [u.inverse]) hres'
      refine ⟨ext1 ++ ext2, res', ?_, ?_⟩
      · simp only [invMembers, hgo]
        rw [← List.append_assoc] at hinv
        rw [hinv]
        simp only [List.append_assoc]
      · have : rs ++ List.map Xf.inverse (u :: us) = rs ++ [u.inverse] ++ List.map Xf.inverse us := by simp
        rw [this]
        simpa only [List.append_assoc] using hall

/-- **`Inverse()` on the heap.**  If the object at `a` denotes `t` now (in whatever heap `h` the history has
produced), `Inverse()` succeeds, only *appends* cells to the heap, and the object it returns denotes `t.inverse`
using appended cells only. -/
theorem goInverse_spec (S : Nat → Bool) : ∀ n (h : Heap α) a t, readIn S n h a = some t →
    ∃ ext a', goInverse n h a = some (h ++ ext, a') ∧ readIn (freshOf h) n (h ++ ext) a' = some t.inverse := by
  intro n
  induction n with
  | zero => intro h a t ht; simp [readIn] at ht
  | succ n ih =>
    intro h a t ht
    unfold readIn at ht
    by_cases hS : S a = true
    · rw [if_pos hS] at ht
      cases hha : h[a]? with
      | none => rw [hha] at ht; cases ht
      | some c =>
        rw [hha] at ht
        have hfr : ∀ k, freshOf h (h.length + k) = true := by intro k; simp [freshOf]
        cases c with
        | prim t' =>
            by_cases hst : isStruct t' = true
            · simp only [hst, if_true, Option.some.injEq] at ht
              subst ht
              refine ⟨[.prim t'.inverse], h.length, ?_, ?_⟩
              · simp [goInverse, hha, alloc]
              · have hs' : isStruct t'.inverse = true := by
                  cases t' <;> simp_all [isStruct, Xf.inverse]
                have := hfr 0
                simp only [Nat.add_zero] at this
                simp [readIn, this, hs']
            · simp [hst] at ht
        | mat m => cases ht
        | mxf p =>
            by_cases hSp : S p = true
            · simp only [hSp, if_true] at ht
              cases hhp : h[p]? with
              | none => rw [hhp] at ht; cases ht
              | some c' =>
                  rw [hhp] at ht
                  cases c' with
                  | mat m =>
                      simp only [Option.some.injEq] at ht
                      subst ht
                      refine ⟨[.mat m.inverse, .mxf h.length], h.length + 1, ?_, ?_⟩
                      · simp [goInverse, hha, hhp, alloc]
                      · have h0 := hfr 0
                        have h1 := hfr 1
                        simp only [Nat.add_zero] at h0
                        have e1 : (h ++ [Cell.mat m.inverse, Cell.mxf h.length])[h.length + 1]? = some (.mxf h.length) := by
                          rw [List.getElem?_append_right (by omega)]; simp
                        have e0 : (h ++ [Cell.mat m.inverse, Cell.mxf h.length])[h.length]? = some (.mat m.inverse) := by
                          rw [List.getElem?_append_right (by omega)]; simp
                        simp [readIn, h0, h1, e0, e1, Xf.inverse]
                  | _ => cases ht
            · simp [hSp] at ht
        | oxf p =>
            by_cases hSp : S p = true
            · simp only [hSp, if_true] at ht
              cases hhp : h[p]? with
              | none => rw [hhp] at ht; cases ht
              | some c' =>
                  rw [hhp] at ht
                  cases c' with
                  | mat m =>
                      simp only [Option.some.injEq] at ht
                      subst ht
                      refine ⟨[.mat m.inverse, .oxf h.length], h.length + 1, ?_, ?_⟩
                      · simp [goInverse, hha, hhp, alloc]
                      · have h0 := hfr 0
                        have h1 := hfr 1
                        simp only [Nat.add_zero] at h0
                        have e1 : (h ++ [Cell.mat m.inverse, Cell.oxf h.length])[h.length + 1]? = some (.oxf h.length) := by
                          rw [List.getElem?_append_right (by omega)]; simp
                        have e0 : (h ++ [Cell.mat m.inverse, Cell.oxf h.length])[h.length]? = some (.mat m.inverse) := by
                          rw [List.getElem?_append_right (by omega)]; simp
                        simp [readIn, h0, h1, e0, e1, Xf.inverse]
                  | _ => cases ht
            · simp [hSp] at ht
        | slice ps =>
            simp only [Option.map_eq_some_iff] at ht
            obtain ⟨ts, hts, rfl⟩ := ht
            rw [allSome_eq_some_iff] at hts
            have hrev : List.Forall₂ (fun a t => readIn S n h a = some t) ps.reverse ts.reverse :=
              List.rel_reverse hts
            obtain ⟨ext, res', hinv, hall⟩ :=
              invMembers_spec S n h (fun h' a' t' => ih h' a' t') ps.reverse ts.reverse hrev [] [] [] List.Forall₂.nil
            simp only [List.append_nil, List.nil_append] at hinv hall
            refine ⟨ext ++ [.slice res'], (h ++ ext).length, ?_, ?_⟩
            · simp [goInverse, hha, hinv, alloc, List.append_assoc]
            · have hf : freshOf h (h ++ ext).length = true := by simp [freshOf]
              have el : (h ++ (ext ++ [Cell.slice res']))[(h ++ ext).length]? = some (.slice res') := by
                rw [← List.append_assoc, List.getElem?_append_right (by omega)]; simp
              unfold readIn
              rw [if_pos hf, el]
              simp only [Option.map_eq_some_iff]
              refine ⟨ts.reverse.map Xf.inverse, ?_, (ofList_inverse ts).symm⟩
              rw [allSome_eq_some_iff]
              refine hall.imp ?_
              intro a' t' hat
              rw [← List.append_assoc]
              exact readIn_append _ _ _ _ _ _ hat
    · rw [if_neg hS] at ht; cases ht

end Inverse


/-! ### histories on the heap -/

section History
variable [Add α] [Sub α] [Mul α] [Div α] [Neg α] [OfNat α 1]

/-- `Inverse()` only appends cells. -/
theorem invMembers_extends (n : Nat)
    (ih : ∀ (h : Heap α) a r, goInverse n h a = some r → ∃ ext, r.1 = h ++ ext) :
    ∀ (qs : List Nat) (h : Heap α) (res : List Nat) r, invMembers (goInverse n) qs h res = some r →
      ∃ ext, r.1 = h ++ ext := by
  intro qs
  induction qs with
  | nil => intro h res r hr; simp [invMembers] at hr; subst hr; exact ⟨[], by simp⟩
  | cons q qs ihl =>
      intro h res r hr
      simp only [invMembers] at hr
      cases hg : goInverse n h q with
      | none => rw [hg] at hr; cases hr
      | some r1 =>
          rw [hg] at hr
          obtain ⟨e1, he1⟩ := ih h q r1 hg
          obtain ⟨e2, he2⟩ := ihl r1.1 _ r hr
          exact ⟨e1 ++ e2, by rw [he2, he1, List.append_assoc]⟩

theorem goInverse_extends : ∀ n (h : Heap α) a r, goInverse n h a = some r → ∃ ext, r.1 = h ++ ext := by
  intro n
  induction n with
  | zero => intro h a r hr; simp [goInverse] at hr
  | succ n ih =>
    intro h a r hr
    unfold goInverse at hr
    cases hha : h[a]? with
    | none => rw [hha] at hr; cases hr
    | some c =>
      rw [hha] at hr
      cases c with
      | prim t => simp only [alloc, Option.some.injEq] at hr; subst hr; exact ⟨_, rfl⟩
      | mat m => cases hr
      | mxf p =>
          dsimp only at hr
          cases hhp : h[p]? with
          | none => rw [hhp] at hr; cases hr
          | some c' =>
              rw [hhp] at hr
              cases c' with
              | mat m => simp only [alloc, Option.some.injEq] at hr; subst hr; exact ⟨_, List.append_assoc _ _ _⟩
              | _ => cases hr
      | oxf p =>
          dsimp only at hr
          cases hhp : h[p]? with
          | none => rw [hhp] at hr; cases hr
          | some c' =>
              rw [hhp] at hr
              cases c' with
              | mat m => simp only [alloc, Option.some.injEq] at hr; subst hr; exact ⟨_, List.append_assoc _ _ _⟩
              | _ => cases hr
      | slice ps =>
          simp only [Option.map_eq_some_iff] at hr
          obtain ⟨r1, hr1, rfl⟩ := hr
          obtain ⟨e, he⟩ := invMembers_extends n ih ps.reverse h [] r1 hr1
          exact ⟨e ++ [.slice r1.2], by simp [alloc, he, List.append_assoc]⟩

/-- The objects of a history are **separated**: their footprints are pairwise disjoint and lie inside the heap. -/
def Sep (σ : HeapState α) : Prop :=
  (∀ (i j : Nat) (oi oj : Obj), σ.objs[i]? = some oi → σ.objs[j]? = some oj → i ≠ j →
      ∀ b, oi.own b = true → oj.own b = true → False) ∧
  (∀ (i : Nat) (o : Obj), σ.objs[i]? = some o → ∀ b, o.own b = true → b < σ.heap.length)

theorem value_eq (σ : HeapState α) (i : Nat) (t : Xf α) :
    σ.value i = some t ↔ ∃ o, σ.objs[i]? = some o ∧ readIn o.own o.fuel σ.heap o.addr = some t := by
  unfold HeapState.value
  cases σ.objs[i]? with
  | none => simp
  | some o => simp

/-- **`Inverse()` now is the inverse of the object as it is now**: whatever the heap looks like, if object `i`
currently has the value `t`, the step `inv i` succeeds and the new object (index `objs.length`) has the value
`t.inverse`. -/
theorem inv_value (σ : HeapState α) (i : Nat) (t : Xf α) (hv : σ.value i = some t) :
    ∃ σ', (HeapStep.inv i).run σ = some σ' ∧ σ'.objs.length = σ.objs.length + 1 ∧
      σ'.value σ.objs.length = some t.inverse := by
  obtain ⟨o, ho, hr⟩ := (value_eq σ i t).1 hv
  obtain ⟨ext, a', hgo, hrd⟩ := goInverse_spec o.own o.fuel σ.heap o.addr t hr
  refine ⟨{ heap := σ.heap ++ ext,
            objs := σ.objs ++ [⟨a', fun b => decide (σ.heap.length ≤ b) && decide (b < (σ.heap ++ ext).length),
              o.fuel⟩] }, ?_, ?_, ?_⟩
  · simp only [HeapStep.run, ho, hgo, Option.bind_eq_bind, Option.bind_some]
  · simp
  · rw [value_eq]
    refine ⟨⟨a', fun b => decide (σ.heap.length ≤ b) && decide (b < (σ.heap ++ ext).length), o.fuel⟩, ?_, ?_⟩
    · simp
    · refine readIn_transfer (freshOf σ.heap) _ _ _ ?_ _ _ _ hrd
      intro b c hb hc
      refine ⟨?_, hc⟩
      have hlt : b < (σ.heap ++ ext).length := by
        by_contra hge
        rw [List.getElem?_eq_none (by omega)] at hc
        cases hc
      simp only [freshOf, decide_eq_true_eq] at hb
      simp only [Bool.and_eq_true, decide_eq_true_eq]
      exact ⟨hb, hlt⟩

/-- Separation is preserved by every step. -/
theorem step_sep (s : HeapStep α) (σ σ' : HeapState α) (hs : Sep σ) (hr : s.run σ = some σ') : Sep σ' := by
  obtain ⟨hdis, hin⟩ := hs
  cases s with
  | inv i =>
      simp only [HeapStep.run, Option.bind_eq_bind, Option.bind_eq_some_iff] at hr
      obtain ⟨o, ho, r, hgo, hσ'⟩ := hr
      obtain ⟨ext, hext⟩ := goInverse_extends _ _ _ _ hgo
      simp only [Option.some.injEq] at hσ'
      subst hσ'
      have hlen : σ.heap.length ≤ r.1.length := by rw [hext]; simp
      have hget : ∀ j oj, (σ.objs ++ [(⟨r.2, fun b => decide (σ.heap.length ≤ b) && decide (b < r.1.length), o.fuel⟩ : Obj)])[j]? = some oj →
          (σ.objs[j]? = some oj ∧ j < σ.objs.length) ∨
            (j = σ.objs.length ∧ oj = ⟨r.2, fun b => decide (σ.heap.length ≤ b) && decide (b < r.1.length), o.fuel⟩) := by
        intro j oj hj
        by_cases hlt : j < σ.objs.length
        · rw [List.getElem?_append_left hlt] at hj; exact Or.inl ⟨hj, hlt⟩
        · rw [List.getElem?_append_right (by omega)] at hj
          have : j - σ.objs.length = 0 := by
            by_contra hne
            rw [List.getElem?_eq_none (by simp; omega)] at hj
            cases hj
          rw [this] at hj
          simp only [List.getElem?_cons_zero, Option.some.injEq] at hj
          exact Or.inr ⟨by omega, hj.symm⟩
      constructor
      · intro a b oa ob ha hb hab c hca hcb
        rcases hget a oa ha with ⟨ha', _⟩ | ⟨ha', rfl⟩ <;> rcases hget b ob hb with ⟨hb', _⟩ | ⟨hb', rfl⟩
        · exact hdis a b oa ob ha' hb' hab c hca hcb
        · have := hin a oa ha' c hca
          simp only [Bool.and_eq_true, decide_eq_true_eq] at hcb
          omega
        · have := hin b ob hb' c hcb
          simp only [Bool.and_eq_true, decide_eq_true_eq] at hca
          omega
        · omega
      · intro a oa ha c hc
        rcases hget a oa ha with ⟨ha', _⟩ | ⟨_, rfl⟩
        · have := hin a oa ha' c hc
          show c < r.1.length
          omega
        · simp only [Bool.and_eq_true, decide_eq_true_eq] at hc
          exact hc.2
  | store i b c =>
      simp only [HeapStep.run, Option.bind_eq_bind, Option.bind_eq_some_iff] at hr
      obtain ⟨o, ho, hσ'⟩ := hr
      split at hσ'
      · simp only [Option.some.injEq] at hσ'
        subst hσ'
        refine ⟨hdis, ?_⟩
        intro a oa ha c' hc'
        simpa using hin a oa ha c' hc'
      · cases hσ'
  | grow i c =>
      simp only [HeapStep.run, Option.bind_eq_bind, Option.bind_eq_some_iff] at hr
      obtain ⟨o, ho, hσ'⟩ := hr
      simp only [Option.some.injEq] at hσ'
      subst hσ'
      have hi : i < σ.objs.length := by
        by_contra hge
        rw [List.getElem?_eq_none (by omega)] at ho
        cases ho
      have hget : ∀ j oj, (σ.objs.set i (⟨o.addr, fun b => o.own b || b == σ.heap.length, o.fuel⟩ : Obj))[j]? = some oj →
          (j ≠ i ∧ σ.objs[j]? = some oj) ∨ (j = i ∧ oj = ⟨o.addr, fun b => o.own b || b == σ.heap.length, o.fuel⟩) := by
        intro j oj hj
        by_cases hji : j = i
        · subst hji
          rw [List.getElem?_set_self hi] at hj
          simp only [Option.some.injEq] at hj
          exact Or.inr ⟨rfl, hj.symm⟩
        · rw [List.getElem?_set_ne (by omega)] at hj
          exact Or.inl ⟨hji, hj⟩
      constructor
      · intro a b oa ob ha hb hab c' hca hcb
        rcases hget a oa ha with ⟨hai, ha'⟩ | ⟨hai, rfl⟩ <;> rcases hget b ob hb with ⟨hbi, hb'⟩ | ⟨hbi, rfl⟩
        · exact hdis a b oa ob ha' hb' hab c' hca hcb
        · simp only [Bool.or_eq_true, beq_iff_eq] at hcb
          rcases hcb with hcb | hcb
          · subst hbi; exact hdis a b oa o ha' ho hab c' hca hcb
          · have := hin a oa ha' c' hca; omega
        · simp only [Bool.or_eq_true, beq_iff_eq] at hca
          rcases hca with hca | hca
          · subst hai; exact hdis a b o ob ho hb' hab c' hca hcb
          · have := hin b ob hb' c' hcb; omega
        · omega
      · intro a oa ha c' hc'
        simp only [List.length_append, List.length_cons, List.length_nil]
        rcases hget a oa ha with ⟨_, ha'⟩ | ⟨_, rfl⟩
        · have := hin a oa ha' c' hc'; omega
        · simp only [Bool.or_eq_true, beq_iff_eq] at hc'
          rcases hc' with hc' | hc'
          · have := hin i o ho c' hc'; omega
          · omega

/-- **Frame**: a step changes the value of no object other than the one it is addressed to; `Inverse()` changes
the value of no existing object at all. -/
theorem step_frame (s : HeapStep α) (σ σ' : HeapState α) (hs : Sep σ) (hr : s.run σ = some σ')
    (j : Nat) (hj : s.target ≠ some j) (t : Xf α) (hv : σ.value j = some t) : σ'.value j = some t := by
  obtain ⟨hdis, hin⟩ := hs
  obtain ⟨oj, hoj, hrd⟩ := (value_eq σ j t).1 hv
  have hjl : j < σ.objs.length := by
    by_contra hge
    rw [List.getElem?_eq_none (by omega)] at hoj
    cases hoj
  rw [value_eq]
  cases s with
  | inv i =>
      simp only [HeapStep.run, Option.bind_eq_bind, Option.bind_eq_some_iff] at hr
      obtain ⟨o, ho, r, hgo, hσ'⟩ := hr
      obtain ⟨ext, hext⟩ := goInverse_extends _ _ _ _ hgo
      simp only [Option.some.injEq] at hσ'
      subst hσ'
      refine ⟨oj, ?_, ?_⟩
      · simp only []
        rw [List.getElem?_append_left hjl]; exact hoj
      · simp only []
        rw [hext]
        exact readIn_append _ _ _ _ _ _ hrd
  | store i b c =>
      simp only [HeapStep.run, Option.bind_eq_bind, Option.bind_eq_some_iff] at hr
      obtain ⟨o, ho, hσ'⟩ := hr
      split at hσ'
      · rename_i hcond
        simp only [Option.some.injEq] at hσ'
        subst hσ'
        refine ⟨oj, hoj, ?_⟩
        have hij : i ≠ j := by intro h; apply hj; simp [HeapStep.target, h]
        simp only [Bool.and_eq_true, decide_eq_true_eq] at hcond
        refine readIn_transfer oj.own oj.own _ _ ?_ _ _ _ hrd
        intro b' c' hb' hc'
        refine ⟨hb', ?_⟩
        have hne : b ≠ b' := by
          intro h; subst h
          exact hdis i j o oj ho hoj hij b hcond.1 hb'
        rw [List.getElem?_set_ne hne]
        exact hc'
      · cases hσ'
  | grow i c =>
      simp only [HeapStep.run, Option.bind_eq_bind, Option.bind_eq_some_iff] at hr
      obtain ⟨o, ho, hσ'⟩ := hr
      simp only [Option.some.injEq] at hσ'
      subst hσ'
      have hij : i ≠ j := by intro h; apply hj; simp [HeapStep.target, h]
      refine ⟨oj, ?_, ?_⟩
      · simp only []
        rw [List.getElem?_set_ne hij]; exact hoj
      · exact readIn_append _ _ _ _ _ _ hrd

theorem run_sep : ∀ (ss : List (HeapStep α)) (σ σ' : HeapState α), Sep σ → runHeap ss σ = some σ' → Sep σ'
  | [], σ, σ', hs, hr => by simp [runHeap] at hr; subst hr; exact hs
  | s :: ss, σ, σ', hs, hr => by
      simp only [runHeap, Option.bind_eq_some_iff] at hr
      obtain ⟨σ1, h1, h2⟩ := hr
      exact run_sep ss σ1 σ' (step_sep s σ σ1 hs h1) h2

/-- Frame for whole histories: the value of object `j` survives any history none of whose edits is addressed to
`j` — any number of `Inverse()` calls (on `j` itself too) and any edits of other objects, in particular of the
objects `Inverse()` returned. -/
theorem run_frame : ∀ (ss : List (HeapStep α)) (σ σ' : HeapState α), Sep σ → runHeap ss σ = some σ' →
    ∀ j, (∀ s ∈ ss, s.target ≠ some j) → ∀ t, σ.value j = some t → σ'.value j = some t
  | [], σ, σ', _, hr, j, _, t, hv => by simp [runHeap] at hr; subst hr; exact hv
  | s :: ss, σ, σ', hs, hr, j, hj, t, hv => by
      simp only [runHeap, Option.bind_eq_some_iff] at hr
      obtain ⟨σ1, h1, h2⟩ := hr
      have hv1 := step_frame s σ σ1 hs h1 j (hj s (List.mem_cons_self ..)) t hv
      exact run_frame ss σ1 σ' (step_sep s σ σ1 hs h1) h2 j
        (fun s' hs' => hj s' (List.mem_cons_of_mem _ hs')) t hv1

theorem runHeap_append (ss ss' : List (HeapStep α)) (σ : HeapState α) :
    runHeap (ss ++ ss') σ = (runHeap ss σ).bind (runHeap ss') := by
  induction ss generalizing σ with
  | nil => simp [runHeap]
  | cons s ss ih =>
      simp only [List.cons_append, runHeap]
      cases s.run σ with
      | none => simp
      | some σ1 => simp [ih]

end History


/-! ### flat objects: the heap history *is* the value history -/

section Flat
variable [Add α] [Sub α] [Mul α] [Div α] [Neg α] [OfNat α 1]

/-- Edits of a struct of values or of the matrix behind a `Matrix3Transform` (everything except slice stores). -/
def flatMut : Mut α → Bool
  | .jset _ _ => false
  | .japp _ => false
  | .jswap _ _ => false
  | _ => true

/-- History steps on whole objects: `Inverse()`, wrappers, and flat edits of the object itself. -/
def FlatStep : HStep α → Prop
  | .inv _ => True
  | .snap _ => True
  | .mut _ path μ => path = [] ∧ flatMut μ = true

/-- The heap state represents the value state: separated objects, one per value, each denoting its value. -/
def Rep (σ : HeapState α) (st : HState α) : Prop :=
  Sep σ ∧ σ.objs.length = st.objs.length ∧ ∀ i t, st.objs[i]? = some t → σ.value i = some t

theorem value_root (σ : HeapState α) (i : Nat) (t : Xf α) (hv : σ.value i = some t) :
    ∃ (o : Obj) (n : Nat) (c : Cell α), σ.objs[i]? = some o ∧ o.fuel = n + 1 ∧ o.own o.addr = true ∧
      σ.heap[o.addr]? = some c ∧ o.addr < σ.heap.length := by
  obtain ⟨o, ho, hr⟩ := (value_eq σ i t).1 hv
  cases hf : o.fuel with
  | zero => rw [hf] at hr; simp [readIn] at hr
  | succ n =>
      rw [hf] at hr
      unfold readIn at hr
      by_cases hS : o.own o.addr = true
      · rw [if_pos hS] at hr
        cases hc : σ.heap[o.addr]? with
        | none => rw [hc] at hr; cases hr
        | some c =>
            refine ⟨o, n, c, ho, hf, hS, hc, ?_⟩
            by_contra hge
            rw [List.getElem?_eq_none (by omega)] at hc
            cases hc
      · rw [if_neg hS] at hr; cases hr

theorem ofList_ne_matrix (ts : List (Xf α)) (m : M3 α) : Xf.ofList ts ≠ .matrix m := by
  cases ts <;> simp [Xf.ofList]

/-- An object whose value is a `Matrix3Transform` is a struct cell pointing at a matrix cell. -/
theorem matrix_shape (σ : HeapState α) (i : Nat) (m : M3 α) (hv : σ.value i = some (.matrix m)) :
    ∃ (o : Obj) (n p : Nat), σ.objs[i]? = some o ∧ o.fuel = n + 1 ∧ o.own o.addr = true ∧ o.own p = true ∧
      σ.heap[o.addr]? = some (.mxf p) ∧ σ.heap[p]? = some (.mat m) := by
  obtain ⟨o, ho, hr⟩ := (value_eq σ i _).1 hv
  cases hf : o.fuel with
  | zero => rw [hf] at hr; simp [readIn] at hr
  | succ n =>
      rw [hf] at hr
      unfold readIn at hr
      by_cases hS : o.own o.addr = true
      · rw [if_pos hS] at hr
        cases hc : σ.heap[o.addr]? with
        | none => rw [hc] at hr; cases hr
        | some c =>
            rw [hc] at hr
            cases c with
            | prim t' =>
                by_cases hst : isStruct t' = true
                · simp only [hst, if_true, Option.some.injEq] at hr
                  subst hr; simp [isStruct] at hst
                · simp [hst] at hr
            | mat _ => cases hr
            | mxf p =>
                by_cases hSp : o.own p = true
                · simp only [hSp, if_true] at hr
                  cases hp : σ.heap[p]? with
                  | none => rw [hp] at hr; cases hr
                  | some c' =>
                      rw [hp] at hr
                      cases c' with
                      | mat m' =>
                          simp only [Option.some.injEq, Xf.matrix.injEq] at hr
                          subst hr
                          exact ⟨o, n, p, ho, hf, hS, hSp, hc, hp⟩
                      | _ => cases hr
                · simp [hSp] at hr
            | oxf p =>
                by_cases hSp : o.own p = true
                · simp only [hSp, if_true] at hr
                  cases hp : σ.heap[p]? with
                  | none => rw [hp] at hr; cases hr
                  | some c' => rw [hp] at hr; cases c' <;> simp at hr
                · simp [hSp] at hr
            | slice ps =>
                simp only [Option.map_eq_some_iff] at hr
                obtain ⟨ts, _, hts⟩ := hr
                exact absurd hts (ofList_ne_matrix ts m)
      · rw [if_neg hS] at hr; cases hr

theorem lt_of_getElem?_some (h : Heap α) (b : Nat) (c : Cell α) (hb : h[b]? = some c) : b < h.length := by
  by_contra hge
  rw [List.getElem?_eq_none (by omega)] at hb
  cases hb

/-- A field store into a struct of values: the object now denotes the stored value. -/
theorem store_root_prim (σ : HeapState α) (i : Nat) (t t' : Xf α) (hv : σ.value i = some t)
    (hs : isStruct t' = true) :
    ∃ o σ', σ.objs[i]? = some o ∧ runHeap [.store i o.addr (.prim t')] σ = some σ' ∧ σ'.value i = some t' ∧
      σ'.objs.length = σ.objs.length := by
  obtain ⟨o, n, c, ho, hf, hS, hc, hlt⟩ := value_root σ i t hv
  refine ⟨o, { σ with heap := σ.heap.set o.addr (.prim t') }, ho, ?_, ?_, rfl⟩
  · simp [runHeap, HeapStep.run, ho, hS, hlt]
  · rw [value_eq]
    refine ⟨o, ho, ?_⟩
    rw [hf]
    unfold readIn
    simp [hS, List.getElem?_set_self hlt, hs]

/-- An in-place store into the matrix a `Matrix3Transform` points at (`Scale`, `*p = m`, `InvertInPlace`). -/
theorem store_matrix (σ : HeapState α) (i : Nat) (m m' : M3 α) (hv : σ.value i = some (.matrix m)) :
    ∃ o p σ', σ.objs[i]? = some o ∧ σ.heap[o.addr]? = some (.mxf p) ∧ σ.heap[p]? = some (.mat m) ∧
      runHeap [.store i p (.mat m')] σ = some σ' ∧ σ'.value i = some (.matrix m') ∧
      σ'.objs.length = σ.objs.length := by
  obtain ⟨o, n, p, ho, hf, hS, hSp, hc, hp⟩ := matrix_shape σ i m hv
  have hplt := lt_of_getElem?_some _ _ _ hp
  have hne : p ≠ o.addr := by
    intro h; rw [h] at hp; rw [hp] at hc; cases hc
  refine ⟨o, p, { σ with heap := σ.heap.set p (.mat m') }, ho, hc, hp, ?_, ?_, rfl⟩
  · simp [runHeap, HeapStep.run, ho, hSp, hplt]
  · rw [value_eq]
    refine ⟨o, ho, ?_⟩
    rw [hf]
    unfold readIn
    simp [hS, hSp, List.getElem?_set_ne hne, hc, List.getElem?_set_self hplt]

/-- `t.Matrix = &m'`: a new matrix cell, then the pointer is redirected. -/
theorem repoint_matrix (σ : HeapState α) (i : Nat) (m m' : M3 α) (hv : σ.value i = some (.matrix m)) :
    ∃ o p σ', σ.objs[i]? = some o ∧ σ.heap[o.addr]? = some (.mxf p) ∧
      runHeap [.grow i (.mat m'), .store i o.addr (.mxf σ.heap.length)] σ = some σ' ∧
      σ'.value i = some (.matrix m') ∧ σ'.objs.length = σ.objs.length := by
  obtain ⟨o, n, p, ho, hf, hS, hSp, hc, hp⟩ := matrix_shape σ i m hv
  have halt := lt_of_getElem?_some _ _ _ hc
  have hi : i < σ.objs.length := by
    by_contra hge
    rw [List.getElem?_eq_none (by omega)] at ho
    cases ho
  let o1 : Obj := ⟨o.addr, fun b => o.own b || b == σ.heap.length, o.fuel⟩
  refine ⟨o, p, { heap := (σ.heap ++ [Cell.mat m']).set o.addr (Cell.mxf σ.heap.length), objs := σ.objs.set i o1 },
    ho, hc, ?_, ?_, by simp⟩
  · have h1 : (σ.objs.set i o1)[i]? = some o1 := List.getElem?_set_self hi
    simp [runHeap, HeapStep.run, ho, h1, o1, hS]
    omega
  · rw [value_eq]
    refine ⟨o1, List.getElem?_set_self hi, ?_⟩
    show readIn o1.own o.fuel _ o.addr = _
    rw [hf]
    unfold readIn
    have hne : o.addr ≠ σ.heap.length := by omega
    have hl : σ.heap.length < (σ.heap ++ [Cell.mat m']).length := by simp
    have ha1 : o.addr < (σ.heap ++ [Cell.mat m']).length := by simp; omega
    have e1 : ((σ.heap ++ [Cell.mat m']).set o.addr (Cell.mxf σ.heap.length))[o.addr]? = some (.mxf σ.heap.length) :=
      List.getElem?_set_self ha1
    have e2 : ((σ.heap ++ [Cell.mat m']).set o.addr (Cell.mxf σ.heap.length))[σ.heap.length]? = some (.mat m') := by
      rw [List.getElem?_set_ne hne, List.getElem?_append_right (by omega)]; simp
    have hS1 : o1.own o.addr = true := by simp [o1, hS]
    have hS2 : o1.own σ.heap.length = true := by simp [o1]
    rw [if_pos hS1, e1]
    simp only [hS2, if_true, e2]

/-- Every flat edit, carried out on the heap, gives the edited object the value `Mut.apply` says and is addressed
to that object only. -/
theorem flatEdit_sim (σ : HeapState α) (i : Nat) (t t' : Xf α) (μ : Mut α) (hv : σ.value i = some t)
    (hμ : μ.apply t = some t') (hfl : flatMut μ = true) :
    ∃ hs σ', flatEdit i σ μ = some hs ∧ runHeap hs σ = some σ' ∧ σ'.value i = some t' ∧
      (∀ s ∈ hs, s.target = some i) ∧ σ'.objs.length = σ.objs.length := by
  cases μ with
  | setOffset v =>
      have ht' : t' = .translate v := by cases t <;> simp_all [Mut.apply]
      subst ht'
      obtain ⟨o, σ', ho, hrun, hval, hlen⟩ := store_root_prim σ i t (.translate v) hv rfl
      exact ⟨_, σ', by simp [flatEdit, ho], hrun, hval, by simp [HeapStep.target], hlen⟩
  | setScale s =>
      have ht' : t' = .scale s := by cases t <;> simp_all [Mut.apply]
      subst ht'
      obtain ⟨o, σ', ho, hrun, hval, hlen⟩ := store_root_prim σ i t (.scale s) hv rfl
      exact ⟨_, σ', by simp [flatEdit, ho], hrun, hval, by simp [HeapStep.target], hlen⟩
  | setVec v =>
      have ht' : t' = .vecScale v := by cases t <;> simp_all [Mut.apply]
      subst ht'
      obtain ⟨o, σ', ho, hrun, hval, hlen⟩ := store_root_prim σ i t (.vecScale v) hv rfl
      exact ⟨_, σ', by simp [flatEdit, ho], hrun, hval, by simp [HeapStep.target], hlen⟩
  | setSqueeze ax lo hi r =>
      have ht' : t' = .squeeze ax lo hi r := by cases t <;> simp_all [Mut.apply]
      subst ht'
      obtain ⟨o, σ', ho, hrun, hval, hlen⟩ := store_root_prim σ i t (.squeeze ax lo hi r) hv rfl
      exact ⟨_, σ', by simp [flatEdit, ho], hrun, hval, by simp [HeapStep.target], hlen⟩
  | matScale s =>
      obtain ⟨m, rfl, rfl⟩ : ∃ m, t = .matrix m ∧ t' = .matrix (m.scale s) := by
        cases t <;> simp_all [Mut.apply]
      obtain ⟨o, p, σ', ho, hc, hp, hrun, hval, hlen⟩ := store_matrix σ i m (m.scale s) hv
      exact ⟨_, σ', by simp [flatEdit, ho, hc, hp], hrun, hval, by simp [HeapStep.target], hlen⟩
  | matAssign m' =>
      obtain ⟨m, rfl, rfl⟩ : ∃ m, t = .matrix m ∧ t' = .matrix m' := by
        cases t <;> simp_all [Mut.apply]
      obtain ⟨o, p, σ', ho, hc, hp, hrun, hval, hlen⟩ := store_matrix σ i m m' hv
      exact ⟨_, σ', by simp [flatEdit, ho, hc], hrun, hval, by simp [HeapStep.target], hlen⟩
  | matInvert =>
      obtain ⟨m, rfl, rfl⟩ : ∃ m, t = .matrix m ∧ t' = .matrix m.inverse := by
        cases t <;> simp_all [Mut.apply]
      obtain ⟨o, p, σ', ho, hc, hp, hrun, hval, hlen⟩ := store_matrix σ i m m.inverse hv
      exact ⟨_, σ', by simp [flatEdit, ho, hc, hp], hrun, hval, by simp [HeapStep.target], hlen⟩
  | matPtr m' =>
      obtain ⟨m, rfl, rfl⟩ : ∃ m, t = .matrix m ∧ t' = .matrix m' := by
        cases t <;> simp_all [Mut.apply]
      obtain ⟨o, p, σ', ho, hc, hrun, hval, hlen⟩ := repoint_matrix σ i m m' hv
      exact ⟨_, σ', by simp [flatEdit, ho, hc], hrun, hval, by simp [HeapStep.target], hlen⟩
  | jset k x => simp [flatMut] at hfl
  | japp x => simp [flatMut] at hfl
  | jswap a b => simp [flatMut] at hfl

/-- One step of the value semantics is simulated by its heap steps. -/
theorem flat_step_sim (σ : HeapState α) (st st' : HState α) (s : HStep α) (hrep : Rep σ st)
    (hrun : s.run st = some st') (hflat : FlatStep s) :
    ∃ hs σ', compileFlat σ s = some hs ∧ runHeap hs σ = some σ' ∧ Rep σ' st' := by
  obtain ⟨hsep, hlen, hval⟩ := hrep
  cases s with
  | inv i =>
      simp only [HStep.run, Option.map_eq_some_iff] at hrun
      obtain ⟨t, hti, rfl⟩ := hrun
      obtain ⟨σ', hstep, hlen', hnew⟩ := inv_value σ i t (hval i t hti)
      refine ⟨[.inv i], σ', rfl, by simp [runHeap, hstep], step_sep _ _ _ hsep hstep, by simp [hlen', hlen], ?_⟩
      intro j tj hj
      by_cases hjl : j < st.objs.length
      · rw [List.getElem?_append_left hjl] at hj
        exact step_frame _ _ _ hsep hstep j (by simp [HeapStep.target]) tj (hval j tj hj)
      · have hjeq : j = st.objs.length := by
          by_contra hne
          rw [List.getElem?_eq_none (by simp; omega)] at hj
          cases hj
        subst hjeq
        simp only [List.getElem?_append_right (Nat.le_refl _), Nat.sub_self, List.getElem?_cons_zero,
          Option.some.injEq] at hj
        subst hj
        rw [← hlen]; exact hnew
  | snap i =>
      simp only [HStep.run, Option.map_eq_some_iff] at hrun
      obtain ⟨t, _, rfl⟩ := hrun
      exact ⟨[], σ, rfl, rfl, hsep, hlen, hval⟩
  | «mut» i path μ =>
      obtain ⟨hp, hfl⟩ := hflat
      subst hp
      simp only [HStep.run, Option.bind_eq_bind, Option.bind_eq_some_iff, Xf.mutAt] at hrun
      obtain ⟨t, hti, t', hμ, hst'⟩ := hrun
      simp only [Option.some.injEq] at hst'
      subst hst'
      obtain ⟨hs, σ', hcomp, hrunh, hvi, htgt, hlen'⟩ := flatEdit_sim σ i t t' μ (hval i t hti) hμ hfl
      have hil : i < st.objs.length := by
        by_contra hge
        rw [List.getElem?_eq_none (by omega)] at hti
        cases hti
      refine ⟨hs, σ', by simp [compileFlat, hcomp], hrunh, run_sep _ _ _ hsep hrunh, by simp [hlen', hlen], ?_⟩
      intro j tj hj
      by_cases hji : j = i
      · subst hji
        rw [List.getElem?_set_self hil] at hj
        simp only [Option.some.injEq] at hj
        subst hj; exact hvi
      · rw [List.getElem?_set_ne (by omega)] at hj
        refine run_frame hs σ σ' hsep hrunh j ?_ tj (hval j tj hj)
        intro s hs'
        rw [htgt s hs']
        simp; omega

/-- **Whole histories**: every history of `Inverse()` calls, wrapper constructions and flat edits, run on the heap
(pointers, in-place stores, allocation), ends in a heap state that represents the state the value semantics
computes — object by object. -/
theorem flat_history_sim : ∀ (ss : List (HStep α)) (σ : HeapState α) (st st' : HState α), Rep σ st →
    runHistory ss st = some st' → (∀ s ∈ ss, FlatStep s) →
    ∃ hs σ', runHeap hs σ = some σ' ∧ Rep σ' st'
  | [], σ, st, st', hrep, hrun, _ => by
      simp [runHistory] at hrun; subst hrun; exact ⟨[], σ, rfl, hrep⟩
  | s :: ss, σ, st, st', hrep, hrun, hfl => by
      simp only [runHistory, Option.bind_eq_some_iff] at hrun
      obtain ⟨st1, h1, h2⟩ := hrun
      obtain ⟨hs1, σ1, _, hr1, hrep1⟩ := flat_step_sim σ st st1 s hrep h1 (hfl s (List.mem_cons_self ..))
      obtain ⟨hs2, σ2, hr2, hrep2⟩ := flat_history_sim ss σ1 st1 st' hrep1 h2
        (fun s' hs' => hfl s' (List.mem_cons_of_mem _ hs'))
      exact ⟨hs1 ++ hs2, σ2, by rw [runHeap_append, hr1]; exact hr2, hrep2⟩

end Flat

end M3d.Tf.Hist
