import M3d.Model.Collide
import Mathlib.Order.Basic
import Mathlib.Order.Defs.LinearOrder
import Mathlib.Data.List.Basic
import Mathlib.Data.List.Perm.Basic
import Mathlib.Algebra.BigOperators.Group.List.Basic
import Mathlib.Tactic.Linarith
/-!
# C07 — the collider contract: combinatorial lemmas

Everything here is about *which* callbacks are made and how counts / first collisions are derived from them;
the scalar only needs to be linearly ordered (with a zero for "non-negative").
-/
namespace M3d.Col

variable {α R H : Type} [LinearOrder α]

/-! ## `minFirst`, `headFirst` -/

theorem minFirst_spec (tOf : H → α) : ∀ (hs : List H) (best : Option H),
    (∀ h, minFirst tOf hs best = some h →
      (best = some h ∨ h ∈ hs) ∧ (∀ b, best = some b → tOf h ≤ tOf b) ∧ ∀ h' ∈ hs, tOf h ≤ tOf h') ∧
    ((minFirst tOf hs best).isSome = true ↔ best.isSome = true ∨ hs ≠ [])
  | [], best => by
      refine ⟨fun h hh => ?_, ?_⟩
      · simp only [minFirst] at hh
        exact ⟨Or.inl hh, (fun b hb => by rw [hh] at hb; cases hb; exact le_rfl), (fun _ h' => by cases h')⟩
      · simp [minFirst]
  | x :: xs, none => by
      have ih := minFirst_spec tOf xs (some x)
      refine ⟨fun h hh => ?_, ?_⟩
      · simp only [minFirst] at hh
        obtain ⟨h1, h2, h3⟩ := ih.1 h hh
        refine ⟨Or.inr ?_, (fun b hb => by cases hb), ?_⟩
        · rcases h1 with h1 | h1
          · cases h1; exact List.mem_cons_self
          · exact List.mem_cons_of_mem _ h1
        · intro h' hm
          rcases List.mem_cons.1 hm with rfl | hm
          · exact h2 _ rfl
          · exact h3 _ hm
      · simp only [minFirst]
        rw [ih.2]; simp
  | x :: xs, some b => by
      by_cases hlt : tOf x < tOf b
      · have ih := minFirst_spec tOf xs (some x)
        refine ⟨fun h hh => ?_, ?_⟩
        · simp only [minFirst, hlt, if_true] at hh
          obtain ⟨h1, h2, h3⟩ := ih.1 h hh
          refine ⟨Or.inr ?_, ?_, ?_⟩
          · rcases h1 with h1 | h1
            · cases h1; exact List.mem_cons_self
            · exact List.mem_cons_of_mem _ h1
          · intro b' hb'; cases hb'; exact le_trans (h2 _ rfl) (le_of_lt hlt)
          · intro h' hm
            rcases List.mem_cons.1 hm with rfl | hm
            · exact h2 _ rfl
            · exact h3 _ hm
        · simp only [minFirst, hlt, if_true]
          rw [ih.2]; simp
      · have ih := minFirst_spec tOf xs (some b)
        refine ⟨fun h hh => ?_, ?_⟩
        · simp only [minFirst, hlt, if_false] at hh
          obtain ⟨h1, h2, h3⟩ := ih.1 h hh
          refine ⟨?_, ?_, ?_⟩
          · rcases h1 with h1 | h1
            · exact Or.inl h1
            · exact Or.inr (List.mem_cons_of_mem _ h1)
          · intro b' hb'; cases hb'; exact h2 _ rfl
          · intro h' hm
            rcases List.mem_cons.1 hm with rfl | hm
            · exact le_trans (h2 _ rfl) (not_lt.1 hlt)
            · exact h3 _ hm
        · simp only [minFirst, hlt, if_false]
          rw [ih.2]; simp

/-- The min-callback returns a member of the callback list with the smallest parameter. -/
theorem minFirst_none_spec (tOf : H → α) (hs : List H) (h : H) (hh : minFirst tOf hs none = some h) :
    h ∈ hs ∧ ∀ h' ∈ hs, tOf h ≤ tOf h' := by
  obtain ⟨h1, _, h3⟩ := (minFirst_spec tOf hs none).1 h hh
  rcases h1 with h1 | h1
  · cases h1
  · exact ⟨h1, h3⟩

theorem minFirst_none_isSome (tOf : H → α) (hs : List H) :
    (minFirst tOf hs none).isSome = true ↔ hs ≠ [] := by
  rw [(minFirst_spec tOf hs none).2]; simp

/-! ## colliders given by their list of callbacks -/

section
variable [Zero α]

/-- A collider whose count is the length of its callback list satisfies the contract as soon as the
parameters are non-negative and `first` is a minimum of the list, present iff the list is non-empty. -/
theorem ofHits_contract (tOf : H → α) (hits : R → List H) (first : R → Option H) (r : R)
    (hnn : ∀ h ∈ hits r, 0 ≤ tOf h)
    (hsome : (first r).isSome = true ↔ hits r ≠ [])
    (hmin : ∀ h, first r = some h → (∃ h' ∈ hits r, tOf h' = tOf h) ∧ ∀ h' ∈ hits r, tOf h ≤ tOf h') :
    Contract tOf (ofHits hits first) r where
  count_eq_calls := by simp [ofHits]
  nil_count := by simp [ofHits]
  nil_no_calls := by simp [ofHits]
  nonneg := by simpa [ofHits] using hnn
  first_iff := by
    simp only [ofHits]
    rw [hsome]
    simp [List.length_eq_zero_iff]
  first_min := by simpa [ofHits] using hmin

/-- `FirstRayCollision` = min-callback over the callbacks. -/
theorem ofHits_minFirst_contract (tOf : H → α) (hits : R → List H) (r : R)
    (hnn : ∀ h ∈ hits r, 0 ≤ tOf h) :
    Contract tOf (ofHits hits (fun r => minFirst tOf (hits r) none)) r :=
  ofHits_contract tOf hits _ r hnn (minFirst_none_isSome tOf (hits r))
    (fun h hh => by
      obtain ⟨h1, h2⟩ := minFirst_none_spec tOf (hits r) h hh
      exact ⟨⟨h, h1, rfl⟩, h2⟩)

/-- `FirstRayCollision` = first callback, for a callback list that is sorted by parameter. -/
theorem ofHits_headFirst_contract (tOf : H → α) (hits : R → List H) (r : R)
    (hnn : ∀ h ∈ hits r, 0 ≤ tOf h) (hsorted : (hits r).Pairwise (fun a b => tOf a ≤ tOf b)) :
    Contract tOf (ofHits hits (fun r => headFirst (hits r))) r := by
  refine ofHits_contract tOf hits _ r hnn ?_ ?_
  · cases hits r <;> simp [headFirst]
  · intro h hh
    cases hl : hits r with
    | nil => simp [hl, headFirst] at hh
    | cons x xs =>
      simp only [hl, headFirst, Option.some.injEq] at hh
      subst hh
      rw [hl] at hsorted
      refine ⟨⟨x, List.mem_cons_self, rfl⟩, fun h' hm => ?_⟩
      rcases List.mem_cons.1 hm with rfl | hm
      · exact le_rfl
      · exact (List.pairwise_cons.1 hsorted).1 _ hm

end

/-! ## `JoinedCollider` -/

theorem joinedRay_fold (parts : List (Collider R H)) (r : R) (cb : Bool) (n : Nat) (l : List H) :
    parts.foldl (fun acc c => (acc.1 + (c.ray r cb).1, acc.2 ++ (c.ray r cb).2)) (n, l) =
      (n + (parts.map fun c => (c.ray r cb).1).sum, l ++ parts.flatMap fun c => (c.ray r cb).2) := by
  induction parts generalizing n l with
  | nil => simp
  | cons c cs ih =>
    simp only [List.foldl_cons, List.map_cons, List.sum_cons, List.flatMap_cons]
    rw [ih]
    simp [Nat.add_assoc, List.append_assoc]

/-- **`JoinedCollider.RayCollisions` = concatenation**: when the bounds test admits the ray, the count is the
sum of the children's counts and the callbacks are the children's callbacks in order. -/
theorem joinedRay_eq (admits : R → Bool) (parts : List (Collider R H)) (r : R) (cb : Bool) (ha : admits r = true) :
    joinedRay admits parts r cb =
      ((parts.map fun c => (c.ray r cb).1).sum, parts.flatMap fun c => (c.ray r cb).2) := by
  simp only [joinedRay, ha, Bool.not_true, Bool.false_eq_true, if_false]
  rw [joinedRay_fold]; simp

theorem joinedStep_fold (tOf : H → α) (r : R) : ∀ (parts : List (Collider R H)) (init : Option H),
    let res := parts.foldl (fun best c => joinedStep tOf best (c.first r)) init
    (res.isSome = true ↔ init.isSome = true ∨ ∃ c ∈ parts, (c.first r).isSome = true) ∧
    ∀ h, res = some h →
      (init = some h ∨ ∃ c ∈ parts, c.first r = some h) ∧ (∀ b, init = some b → tOf h ≤ tOf b) ∧
        ∀ c ∈ parts, ∀ h', c.first r = some h' → tOf h ≤ tOf h'
  | [], init => by
      intro res
      refine ⟨by simp [res], fun h hh => ?_⟩
      simp only [res, List.foldl_nil] at hh
      exact ⟨Or.inl hh, (fun b hb => by rw [hh] at hb; cases hb; exact le_rfl), (fun c hc => by cases hc)⟩
  | c :: cs, init => by
      intro res
      have ih := joinedStep_fold tOf r cs (joinedStep tOf init (c.first r))
      simp only [] at ih
      have hres : res = cs.foldl (fun best c => joinedStep tOf best (c.first r)) (joinedStep tOf init (c.first r)) := rfl
      rw [hres]
      -- facts about one step
      have step_some : (joinedStep tOf init (c.first r)).isSome = true ↔
          init.isSome = true ∨ (c.first r).isSome = true := by
        cases hc : c.first r <;> cases hi : init <;> simp [joinedStep]
        split <;> simp
      have step_val : ∀ s, joinedStep tOf init (c.first r) = some s →
          (init = some s ∨ c.first r = some s) ∧ (∀ b, init = some b → tOf s ≤ tOf b) ∧
            (∀ h', c.first r = some h' → tOf s ≤ tOf h') := by
        intro s hs
        cases hc : c.first r with
        | none =>
          simp only [hc, joinedStep] at hs
          exact ⟨Or.inl hs, (fun b hb => by rw [hs] at hb; cases hb; exact le_rfl), (fun h' hh' => by cases hh')⟩
        | some x =>
          cases hi : init with
          | none =>
            simp only [hc, hi, joinedStep, Option.some.injEq] at hs
            subst hs
            exact ⟨Or.inr rfl, (fun b hb => by cases hb), (fun h' hh' => by cases hh'; exact le_rfl)⟩
          | some b0 =>
            simp only [hc, hi, joinedStep] at hs
            by_cases hlt : tOf x < tOf b0
            · simp only [hlt, if_true, Option.some.injEq] at hs
              subst hs
              exact ⟨Or.inr rfl, (fun b hb => by cases hb; exact le_of_lt hlt),
                (fun h' hh' => by cases hh'; exact le_rfl)⟩
            · simp only [hlt, if_false, Option.some.injEq] at hs
              subst hs
              exact ⟨Or.inl rfl, (fun b hb => by cases hb; exact le_rfl),
                (fun h' hh' => by cases hh'; exact not_lt.1 hlt)⟩
      refine ⟨?_, fun h hh => ?_⟩
      · rw [ih.1, step_some]
        constructor
        · rintro ((h | h) | ⟨c', hc', h⟩)
          · exact Or.inl h
          · exact Or.inr ⟨c, List.mem_cons_self, h⟩
          · exact Or.inr ⟨c', List.mem_cons_of_mem _ hc', h⟩
        · rintro (h | ⟨c', hc', h⟩)
          · exact Or.inl (Or.inl h)
          · rcases List.mem_cons.1 hc' with rfl | hc'
            · exact Or.inl (Or.inr h)
            · exact Or.inr ⟨c', hc', h⟩
      · obtain ⟨h1, h2, h3⟩ := ih.2 h hh
        -- the value after the first step, if any, bounds h from above
        have key : ∀ s, joinedStep tOf init (c.first r) = some s → tOf h ≤ tOf s := fun s hs => h2 s hs
        refine ⟨?_, ?_, ?_⟩
        · rcases h1 with h1 | ⟨c', hc', h1⟩
          · rcases (step_val h h1).1 with h1' | h1'
            · exact Or.inl h1'
            · exact Or.inr ⟨c, List.mem_cons_self, h1'⟩
          · exact Or.inr ⟨c', List.mem_cons_of_mem _ hc', h1⟩
        · intro b hb
          have : (joinedStep tOf init (c.first r)).isSome = true := step_some.2 (Or.inl (by simp [hb]))
          obtain ⟨s, hs⟩ := Option.isSome_iff_exists.1 this
          exact le_trans (key s hs) ((step_val s hs).2.1 b hb)
        · intro c' hc' h' hh'
          rcases List.mem_cons.1 hc' with rfl | hc'
          · have : (joinedStep tOf init (c'.first r)).isSome = true := step_some.2 (Or.inr (by simp [hh']))
            obtain ⟨s, hs⟩ := Option.isSome_iff_exists.1 this
            exact le_trans (key s hs) ((step_val s hs).2.2 h' hh')
          · exact h3 c' hc' h' hh'

/-- **`JoinedCollider.FirstRayCollision` = minimum over the children's first collisions.** -/
theorem joinedFirst_spec (tOf : H → α) (admits : R → Bool) (parts : List (Collider R H)) (r : R)
    (ha : admits r = true) :
    ((joinedFirst tOf admits parts r).isSome = true ↔ ∃ c ∈ parts, (c.first r).isSome = true) ∧
    ∀ h, joinedFirst tOf admits parts r = some h →
      (∃ c ∈ parts, c.first r = some h) ∧ ∀ c ∈ parts, ∀ h', c.first r = some h' → tOf h ≤ tOf h' := by
  have := joinedStep_fold tOf r parts none
  simp only [] at this
  simp only [joinedFirst, ha, Bool.not_true, Bool.false_eq_true, if_false]
  refine ⟨by rw [this.1]; simp, fun h hh => ?_⟩
  obtain ⟨h1, _, h3⟩ := this.2 h hh
  rcases h1 with h1 | h1
  · cases h1
  · exact ⟨h1, h3⟩

section
variable [Zero α]

/-- **`joined_contract`**: a `JoinedCollider` (and `joinedMultiCollider`, which embeds it) satisfies the
contract for a ray whenever every child does — whatever the bounds prefilter answers. -/
theorem joined_contract' (tOf : H → α) (admits : R → Bool) (parts : List (Collider R H)) (r : R)
    (hp : ∀ c ∈ parts, Contract tOf c r) : Contract tOf (joined tOf admits parts) r := by
  by_cases ha : admits r = true
  swap
  · have ha' : admits r = false := by simpa using ha
    refine ⟨?_, ?_, ?_, ?_, ?_, ?_⟩ <;> simp [joined, joinedRay, joinedFirst, ha']
  have hray : ∀ cb, (joined tOf admits parts).ray r cb =
      ((parts.map fun c => (c.ray r cb).1).sum, parts.flatMap fun c => (c.ray r cb).2) :=
    fun cb => joinedRay_eq admits parts r cb ha
  have hsum : (parts.map fun c => (c.ray r true).1).sum = (parts.flatMap fun c => (c.ray r true).2).length := by
    clear hray
    induction parts with
    | nil => simp
    | cons c cs ih =>
      simp only [List.map_cons, List.sum_cons, List.flatMap_cons, List.length_append]
      rw [ih (fun c' hc' => hp c' (List.mem_cons_of_mem _ hc')), (hp c List.mem_cons_self).count_eq_calls]
  have hfirst := joinedFirst_spec tOf admits parts r ha
  refine ⟨?_, ?_, ?_, ?_, ?_, ?_⟩
  · rw [hray]; exact hsum
  · rw [hray, hray]
    simp only
    congr 1
    apply List.map_congr_left
    intro c hc
    exact (hp c hc).nil_count
  · rw [hray]
    simp only [List.flatMap_eq_nil_iff]
    intro c hc
    exact (hp c hc).nil_no_calls
  · rw [hray]
    intro h hm
    obtain ⟨c, hc, hm⟩ := List.mem_flatMap.1 hm
    exact (hp c hc).nonneg h hm
  · show (joinedFirst tOf admits parts r).isSome = true ↔ _
    rw [hfirst.1, hray]
    simp only [ne_eq]
    constructor
    · rintro ⟨c, hc, hs⟩ hz
      have : (c.ray r true).1 = 0 := by
        have := List.sum_eq_zero_iff_forall_eq_nat.1 hz
        exact this _ (List.mem_map.2 ⟨c, hc, rfl⟩)
      exact ((hp c hc).first_iff.1 hs) this
    · intro hz
      by_contra hcon
      apply hz
      apply List.sum_eq_zero_iff_forall_eq_nat.2
      intro x hx
      obtain ⟨c, hc, rfl⟩ := List.mem_map.1 hx
      by_contra hne
      exact hcon ⟨c, hc, (hp c hc).first_iff.2 hne⟩
  · intro h hh
    obtain ⟨⟨c, hc, hcf⟩, hle⟩ := hfirst.2 h hh
    rw [hray]
    refine ⟨?_, ?_⟩
    · obtain ⟨h', hm, ht⟩ := ((hp c hc).first_min h hcf).1
      exact ⟨h', List.mem_flatMap.2 ⟨c, hc, hm⟩, ht⟩
    · intro h' hm
      obtain ⟨c', hc', hm'⟩ := List.mem_flatMap.1 hm
      -- c' has a callback, so it has a first collision, which is ≤ h' and ≥ h
      have hne : (c'.ray r true).1 ≠ 0 := by
        rw [(hp c' hc').count_eq_calls]
        intro h0
        rw [List.length_eq_zero_iff] at h0
        rw [h0] at hm'; cases hm'
      obtain ⟨f', hf'⟩ := Option.isSome_iff_exists.1 ((hp c' hc').first_iff.2 hne)
      exact le_trans (hle c' hc' f' hf') (((hp c' hc').first_min f' hf').2 h' hm')

/-! ## `transformedCollider` -/

/-- **`transformed_contract`**: the wrapper keeps counts, callbacks (mapped one-to-one) and parameters, so it
satisfies the contract for `r` when the wrapped collider does for the inner ray. -/
theorem transformed_contract' {R' H' : Type} (tOf : H → α) (tOf' : H' → α) (inner : Collider R H)
    (innerRay : R' → R) (outer : H → H') (hpar : ∀ h, tOf' (outer h) = tOf h) (r : R')
    (hc : Contract tOf inner (innerRay r)) : Contract tOf' (transformed inner innerRay outer) r where
  count_eq_calls := by simp [transformed, hc.count_eq_calls]
  nil_count := by simp [transformed, hc.nil_count]
  nil_no_calls := by simp [transformed, hc.nil_no_calls]
  nonneg := by
    intro h hm
    simp only [transformed, List.mem_map] at hm
    obtain ⟨h0, hm0, rfl⟩ := hm
    rw [hpar]; exact hc.nonneg h0 hm0
  first_iff := by
    simp only [transformed, Option.isSome_map]
    exact hc.first_iff
  first_min := by
    intro h hh
    simp only [transformed, Option.map_eq_some_iff] at hh
    obtain ⟨h0, hh0, rfl⟩ := hh
    obtain ⟨⟨h1, hm1, ht1⟩, hle⟩ := hc.first_min h0 hh0
    refine ⟨⟨outer h1, ?_, by rw [hpar, hpar, ht1]⟩, ?_⟩
    · simp only [transformed, List.mem_map]; exact ⟨h1, hm1, rfl⟩
    · intro h' hm'
      simp only [transformed, List.mem_map] at hm'
      obtain ⟨h2, hm2, rfl⟩ := hm'
      rw [hpar, hpar]; exact hle h2 hm2

end

/-! ## the Boolean contract on observations -/

section
variable [Zero α]

/-- If a collider satisfies the contract for a ray, the Boolean predicate the driver evaluates on the
observation (counts, whether there is a first collision, its parameter, the callback parameters) is true —
so a `false` on an observation of the real code is a violation of the contract. -/
theorem obsOk_of_contract (tOf : H → α) (c : Collider R H) (r : R) (hc : Contract tOf c r) (dflt : α) :
    obsOk (c.ray r false).1 (c.ray r true).1 (c.first r).isSome
      (match c.first r with | some h => tOf h | none => dflt) ((c.ray r true).2.map tOf) = true := by
  unfold obsOk
  simp only [Bool.and_eq_true, beq_iff_eq, List.length_map, List.all_eq_true, decide_eq_true_eq,
    Bool.or_eq_true, Bool.not_eq_true', List.any_eq_true, List.mem_map, forall_exists_index, and_imp,
    forall_apply_eq_imp_iff₂]
  refine ⟨⟨⟨⟨hc.count_eq_calls, hc.nil_count⟩, hc.nonneg⟩, ?_⟩, ?_⟩
  · cases hf : (c.first r).isSome
    · have : ¬ (c.ray r true).1 ≠ 0 := fun h => by
        have := hc.first_iff.2 h; rw [hf] at this; cases this
      simp only [ne_eq, not_not] at this
      simp [this]
    · have := hc.first_iff.1 hf
      simp [this]
  · cases hf : c.first r with
    | none => left; rfl
    | some h =>
      right
      obtain ⟨⟨h', hm, ht⟩, hle⟩ := hc.first_min h hf
      exact ⟨⟨tOf h', ⟨h', hm, rfl⟩, le_of_eq ht⟩, hle⟩

end

/-! ## sorting by parameter (`Capsule.RayCollisions`) -/

theorem insertByT_perm (tOf : H → α) (h : H) : ∀ l : List H, (insertByT tOf h l).Perm (h :: l)
  | [] => List.Perm.refl _
  | x :: xs => by
      simp only [insertByT]
      split
      · exact List.Perm.refl _
      · exact ((insertByT_perm tOf h xs).cons x).trans (List.Perm.swap h x xs)

theorem sortByT_perm (tOf : H → α) : ∀ l : List H, (sortByT tOf l).Perm l
  | [] => List.Perm.refl _
  | x :: xs => by
      simp only [sortByT, List.foldr_cons]
      exact (insertByT_perm tOf x _).trans ((sortByT_perm tOf xs).cons x)

theorem insertByT_sorted (tOf : H → α) (h : H) : ∀ l : List H,
    l.Pairwise (fun a b => tOf a ≤ tOf b) → (insertByT tOf h l).Pairwise (fun a b => tOf a ≤ tOf b)
  | [], _ => by simp [insertByT]
  | x :: xs, hs => by
      simp only [insertByT]
      have hx := List.pairwise_cons.1 hs
      split
      · rename_i hlt
        refine List.pairwise_cons.2 ⟨fun y hy => ?_, hs⟩
        rcases List.mem_cons.1 hy with rfl | hy
        · exact le_of_lt hlt
        · exact le_trans (le_of_lt hlt) (hx.1 y hy)
      · rename_i hnlt
        refine List.pairwise_cons.2 ⟨fun y hy => ?_, insertByT_sorted tOf h xs hx.2⟩
        rcases List.mem_cons.1 ((insertByT_perm tOf h xs).mem_iff.1 hy) with rfl | hy
        · exact not_lt.1 hnlt
        · exact hx.1 y hy

theorem sortByT_sorted (tOf : H → α) : ∀ l : List H, (sortByT tOf l).Pairwise (fun a b => tOf a ≤ tOf b)
  | [] => by simp [sortByT]
  | x :: xs => by
      simp only [sortByT, List.foldr_cons]
      exact insertByT_sorted tOf x _ (sortByT_sorted tOf xs)

theorem sorted_head_le (tOf : H → α) (l : List H) (hs : l.Pairwise (fun a b => tOf a ≤ tOf b))
    (h : H) (hh : l.head? = some h) : ∀ x ∈ l, tOf h ≤ tOf x := by
  cases l with
  | nil => simp at hh
  | cons y ys =>
    simp only [List.head?_cons, Option.some.injEq] at hh
    subst hh
    intro x hx
    rcases List.mem_cons.1 hx with rfl | hx
    · exact le_rfl
    · exact (List.pairwise_cons.1 hs).1 x hx

theorem sorted_le_last (tOf : H → α) : ∀ (l : List H), l.Pairwise (fun a b => tOf a ≤ tOf b) →
    ∀ h, l.getLast? = some h → ∀ x ∈ l, tOf x ≤ tOf h
  | [], _, h, hh => by simp at hh
  | [y], _, h, hh => by
      simp only [List.getLast?_singleton, Option.some.injEq] at hh
      subst hh
      intro x hx
      simp only [List.mem_singleton] at hx
      subst hx; exact le_rfl
  | y :: z :: zs, hs, h, hh => by
      rw [List.getLast?_cons_cons] at hh
      have hp := List.pairwise_cons.1 hs
      have ih := sorted_le_last tOf (z :: zs) hp.2 h hh
      intro x hx
      rcases List.mem_cons.1 hx with rfl | hx
      · have hmem : h ∈ z :: zs := List.mem_of_getLast? hh
        exact hp.1 h hmem
      · exact ih x hx

end M3d.Col
