import M3d.Model.MeshDiagSweep
import M3d.Lemmas.MeshDiagHier
import Mathlib.Algebra.Order.Field.Basic
import Mathlib.Tactic.Linarith
import Mathlib.Tactic.Ring
/-!
# C11 — geometry of the sweep: bounding-box corners, and the sweep order from the sweep key

* `vdot_le_farCorner`: over a linear ordered field, the projection of every point of a box on an
  axis is at most the projection of `farCorner`; `farCorner_eq_max_of_nonneg`: that corner is
  `Max()` when no component of the axis is negative; `maxCorner_not_bound`: with a negative
  component it is not (a box and a point of it beyond the projection of `Max()`).
* `convex_comb_key_ge`: a convex combination of points does not project below all of them.
* `strippedComps_first`: the sweep vertex of a stripped component is the first vertex of the
  component in the sweep order; `strippedComps_sweep_pairwise`: hence, if the order is by a key
  and an enclosing component always has a vertex with a smaller key than every vertex of the
  enclosed one, no component encloses one that was stripped before it (the hypothesis `hord` of
  `hierarchy_nesting`).
-/
namespace M3d.MeshDiag
open M3d.Surface
set_option linter.unusedSectionVars false

section Geometry
variable {K : Type} [Field K] [LinearOrder K] [IsStrictOrderedRing K]

theorem vdot_le_farCorner (axis mn mx p : Vec3 K) (hp : InBox mn mx p) :
    vdot p axis ≤ vdot (farCorner axis mn mx) axis := by
  obtain ⟨hx0, hx1, hy0, hy1, hz0, hz1⟩ := hp
  have hx : p.x * axis.x ≤ (if (0 : K) ≤ axis.x then mx.x else mn.x) * axis.x := by
    split
    · exact mul_le_mul_of_nonneg_right hx1 ‹_›
    · exact mul_le_mul_of_nonpos_right hx0 (le_of_lt (not_le.mp ‹_›))
  have hy : p.y * axis.y ≤ (if (0 : K) ≤ axis.y then mx.y else mn.y) * axis.y := by
    split
    · exact mul_le_mul_of_nonneg_right hy1 ‹_›
    · exact mul_le_mul_of_nonpos_right hy0 (le_of_lt (not_le.mp ‹_›))
  have hz : p.z * axis.z ≤ (if (0 : K) ≤ axis.z then mx.z else mn.z) * axis.z := by
    split
    · exact mul_le_mul_of_nonneg_right hz1 ‹_›
    · exact mul_le_mul_of_nonpos_right hz0 (le_of_lt (not_le.mp ‹_›))
  simp only [vdot, farCorner]
  linarith

theorem farCorner_eq_max_of_nonneg (axis mn mx : Vec3 K) (hx : 0 ≤ axis.x) (hy : 0 ≤ axis.y)
    (hz : 0 ≤ axis.z) : farCorner axis mn mx = maxCorner mn mx := by
  simp [farCorner, maxCorner, hx, hy, hz]

/-- With a negative axis component and a box that is not flat in that direction, the corner
`(mx.x, mx.y, mn.z)` of the box projects strictly beyond `Max()`. -/
theorem maxCorner_not_bound (axis mn mx : Vec3 K) (hbox : mn.x ≤ mx.x ∧ mn.y ≤ mx.y ∧ mn.z < mx.z)
    (hz : axis.z < 0) :
    InBox mn mx ⟨mx.x, mx.y, mn.z⟩ ∧ vdot (maxCorner mn mx) axis < vdot ⟨mx.x, mx.y, mn.z⟩ axis := by
  refine ⟨⟨hbox.1, le_refl _, hbox.2.1, le_refl _, le_refl _, le_of_lt hbox.2.2⟩, ?_⟩
  simp only [vdot, maxCorner]
  have : mx.z * axis.z < mn.z * axis.z := mul_lt_mul_of_neg_right hbox.2.2 hz
  linarith

/-- A weighted combination with non-negative weights of total 1 does not project below every one
of its points: some point has a key at most that of the combination.  (`key` is any function that
is affine on the combination, given as the list of pairs (weight, key of the point).) -/
theorem convex_comb_key_ge : ∀ (l : List (K × K)), (∀ x ∈ l, 0 ≤ x.1) → (l.map (·.1)).sum = 1 →
    ∃ x ∈ l, x.2 ≤ (l.map fun x => x.1 * x.2).sum := by
  intro l hw hs
  by_contra hcon
  have hlt : ∀ x ∈ l, (l.map fun x => x.1 * x.2).sum < x.2 := by
    intro x hx
    by_contra h
    exact hcon ⟨x, hx, not_lt.mp h⟩
  -- Σ w_i k_i ≥ Σ w_i S with equality only if all weights vanish
  have key : ∀ (m : List (K × K)) (S : K), (∀ x ∈ m, 0 ≤ x.1) → (∀ x ∈ m, S < x.2) →
      0 ≤ (m.map (·.1)).sum ∧ (m.map (·.1)).sum * S ≤ (m.map fun x => x.1 * x.2).sum ∧
      ((m.map (·.1)).sum * S = (m.map fun x => x.1 * x.2).sum → (m.map (·.1)).sum = 0) := by
    intro m S
    induction m with
    | nil => intro _ _; simp
    | cons a m ih =>
      intro hw hS
      have ha := hw a List.mem_cons_self
      have hSa := hS a List.mem_cons_self
      obtain ⟨hsum, ih1, ih2⟩ := ih (fun x hx => hw x (List.mem_cons_of_mem _ hx))
        (fun x hx => hS x (List.mem_cons_of_mem _ hx))
      have h1 : a.1 * S ≤ a.1 * a.2 := mul_le_mul_of_nonneg_left (le_of_lt hSa) ha
      simp only [List.map_cons, List.sum_cons]
      refine ⟨by linarith, by nlinarith, fun heq => ?_⟩
      have e1 : a.1 * S = a.1 * a.2 := by nlinarith
      have e2 : (m.map (·.1)).sum * S = (m.map fun x => x.1 * x.2).sum := by nlinarith
      have ha0 : a.1 = 0 := by
        rcases eq_or_lt_of_le ha with h | h
        · exact h.symm
        · have : S = a.2 := by
            have := mul_left_cancel₀ (ne_of_gt h) e1
            exact this
          exact absurd this (ne_of_lt hSa)
      rw [ha0, ih2 e2]; ring
  obtain ⟨_, _, k2⟩ := key l _ hw hlt
  rw [hs, one_mul] at k2
  exact one_ne_zero (k2 rfl)

/-- The combination `Σ wᵢ pᵢ` of weighted points. -/
def vcomb (l : List (K × Vec3 K)) : Vec3 K :=
  ⟨(l.map fun x => x.1 * x.2.x).sum, (l.map fun x => x.1 * x.2.y).sum, (l.map fun x => x.1 * x.2.z).sum⟩

theorem vdot_vcomb (axis : Vec3 K) (l : List (K × Vec3 K)) :
    vdot (vcomb l) axis = (l.map fun x => x.1 * vdot x.2 axis).sum := by
  induction l with
  | nil => simp [vcomb, vdot]
  | cons a l ih =>
    simp only [vcomb, vdot, List.map_cons, List.sum_cons] at ih ⊢
    rw [← ih]; ring

/-- A point of the convex hull of the points `l` does not come before all of them in the sweep:
some point of `l` projects at most as far along the axis. -/
theorem hull_point_not_before_all (axis : Vec3 K) (l : List (K × Vec3 K)) (hw : ∀ x ∈ l, 0 ≤ x.1)
    (hs : (l.map (·.1)).sum = 1) : ∃ x ∈ l, vdot x.2 axis ≤ vdot (vcomb l) axis := by
  have := convex_comb_key_ge (l.map fun x => (x.1, vdot x.2 axis))
    (by intro y hy; obtain ⟨x, hx, rfl⟩ := List.mem_map.mp hy; exact hw x hx)
    (by simpa [List.map_map, Function.comp_def] using hs)
  obtain ⟨y, hy, hle⟩ := this
  obtain ⟨x, hx, rfl⟩ := List.mem_map.mp hy
  refine ⟨x, hx, ?_⟩
  rw [vdot_vcomb]
  simpa [List.map_map, Function.comp_def] using hle

end Geometry

/-! ## the sweep vertex is the first vertex of its component -/

theorem HierInv.strip {all : List Face} {v : Nat} {vs : List Nat} {rem : List Face}
    (inv : HierInv all (v :: vs) rem) : HierInv all vs (removeAllConnected rem v).2 := by
  obtain ⟨hperm, _, hsep, hnov⟩ := removeAllConnected_spec rem v
  have hmem : ∀ g, g ∈ rem ↔ g ∈ (removeAllConnected rem v).1 ∨ g ∈ (removeAllConnected rem v).2 :=
    fun g => by rw [← List.mem_append]; exact (hperm.mem_iff).symm
  refine ⟨fun g hg => inv.sub g ((hmem g).mpr (Or.inr hg)), fun g hg => ?_, fun g hg h hh hs => ?_⟩
  · obtain ⟨w, hw, hwg⟩ := inv.covered g ((hmem g).mpr (Or.inr hg))
    rcases List.mem_cons.mp hw with h | h
    · subst h; rw [hnov g hg] at hwg; cases hwg
    · exact ⟨w, h, hwg⟩
  · have hr : h ∈ rem := inv.closed g ((hmem g).mpr (Or.inr hg)) h hh hs
    rcases (hmem h).mp hr with h1 | h2
    · have := hsep h h1 g hg
      rw [sharesVert_symm] at this; rw [this] at hs; cases hs
    · exact h2

theorem HierInv.skip {all : List Face} {v : Nat} {vs : List Nat} {rem : List Face}
    (inv : HierInv all (v :: vs) rem) (hc : ¬ coordInMesh all rem v = true) : HierInv all vs rem := by
  refine ⟨inv.sub, fun g hg => ?_, inv.closed⟩
  obtain ⟨w, hw, hwg⟩ := inv.covered g hg
  rcases List.mem_cons.mp hw with h | h
  · subst h; exact absurd ((coordInMesh_iff inv w).mpr ⟨g, hg, hwg⟩) hc
  · exact ⟨w, h, hwg⟩

/-- Every stripped component consists of faces that were still in the mesh, has a face at its
sweep vertex, and none of its vertices comes before the sweep vertex in the sweep order. -/
theorem strippedComps_first (all : List Face) :
    ∀ (vs : List Nat) (rem : List Face), HierInv all vs rem → ∀ x ∈ strippedComps all vs rem,
      (∀ g ∈ x.2, g ∈ rem) ∧ (∃ g ∈ x.2, hasVert x.1 g.2 = true) ∧
      ∃ pre post, vs = pre ++ x.1 :: post ∧ ∀ g ∈ x.2, ∀ w ∈ pre, hasVert w g.2 = false := by
  intro vs
  induction vs with
  | nil => intro rem _ x hx; simp [strippedComps] at hx
  | cons v vs ih =>
    intro rem inv x hx
    simp only [strippedComps] at hx
    by_cases hc : coordInMesh all rem v = true
    · simp only [hc, if_true] at hx
      obtain ⟨hperm, _, _, hnov⟩ := removeAllConnected_spec rem v
      have hmem : ∀ g, g ∈ rem ↔ g ∈ (removeAllConnected rem v).1 ∨ g ∈ (removeAllConnected rem v).2 :=
        fun g => by rw [← List.mem_append]; exact (hperm.mem_iff).symm
      rcases List.mem_cons.mp hx with h | h
      · subst h
        refine ⟨fun g hg => (hmem g).mpr (Or.inl hg), ?_, [], vs, rfl, fun _ _ w hw => by cases hw⟩
        obtain ⟨g, hg, hgv⟩ := (coordInMesh_iff inv v).mp hc
        rcases (hmem g).mp hg with h1 | h2
        · exact ⟨g, h1, hgv⟩
        · rw [hnov g h2] at hgv; cases hgv
      · obtain ⟨h1, h2, pre, post, hvs, hpre⟩ := ih _ inv.strip x h
        refine ⟨fun g hg => (hmem g).mpr (Or.inr (h1 g hg)), h2, v :: pre, post, by rw [hvs]; rfl, ?_⟩
        intro g hg w hw
        rcases List.mem_cons.mp hw with hwv | hwp
        · subst hwv; exact hnov g (h1 g hg)
        · exact hpre g hg w hwp
    · simp only [hc, Bool.false_eq_true, if_false] at hx
      obtain ⟨h1, h2, pre, post, hvs, hpre⟩ := ih _ (inv.skip hc) x hx
      refine ⟨h1, h2, v :: pre, post, by rw [hvs]; rfl, ?_⟩
      intro g hg w hw
      rcases List.mem_cons.mp hw with hwv | hwp
      · subst hwv
        cases hv : hasVert w g.2 with
        | false => rfl
        | true => exact absurd ((coordInMesh_iff inv w).mpr ⟨g, h1 g hg, hv⟩) hc
      · exact hpre g hg w hwp

theorem mem_compVerts {x : Comp} {w : Nat} : w ∈ compVerts x ↔ ∃ g ∈ x.2, hasVert w g.2 = true := by
  simp only [compVerts, List.mem_flatMap, hasVert, List.contains_iff_mem]

/-- **The sweep order from the sweep key.**  If the vertices are visited by non-decreasing key and
an enclosing component always has a vertex whose key is smaller than that of every vertex of the
enclosed component, then no component encloses a component stripped before it. -/
theorem strippedComps_sweep_pairwise {K : Type} [LinearOrder K] (key : Nat → K)
    (enc : Comp → Comp → Bool) (all : List Face) (sorted : List Nat)
    (inv : HierInv all sorted all)
    (hall : ∀ g ∈ all, ∀ w, hasVert w g.2 = true → w ∈ sorted)
    (hs : SweepSorted key sorted)
    (hgeo : ∀ a ∈ strippedComps all sorted all, ∀ b ∈ strippedComps all sorted all,
      enc b a = true → ∃ v ∈ compVerts b, ∀ w ∈ compVerts a, key v < key w) :
    (strippedComps all sorted all).Pairwise (fun a b => enc b a = false) := by
  have hsub := strippedComps_fst_sublist all sorted all
  have h1 : (strippedComps all sorted all).Pairwise (fun a b => key a.1 ≤ key b.1) := by
    have := (hs.sublist hsub)
    exact (List.pairwise_map (f := fun (x : Comp) => x.1) (R := fun v w => key v ≤ key w)).mp this
  refine h1.imp_of_mem ?_
  intro a b ha hb hab
  cases he : enc b a with
  | false => rfl
  | true =>
    exfalso
    obtain ⟨v, hv, hlt⟩ := hgeo a ha b hb he
    obtain ⟨_, ⟨ga, hga, hgav⟩, _⟩ := strippedComps_first all sorted all inv a ha
    obtain ⟨hbrem, _, pre, post, hvs, hpre⟩ := strippedComps_first all sorted all inv b hb
    have hva : key v < key a.1 := hlt a.1 (mem_compVerts.mpr ⟨ga, hga, hgav⟩)
    obtain ⟨gb, hgb, hgbv⟩ := mem_compVerts.mp hv
    have hvin : v ∈ sorted := hall gb (hbrem gb hgb) v hgbv
    have hbv : key b.1 ≤ key v := by
      rw [hvs] at hvin hs
      rcases List.mem_append.mp hvin with hp | hp
      · have := hpre gb hgb v hp; rw [this] at hgbv; cases hgbv
      · rcases List.mem_cons.mp hp with hp | hp
        · rw [hp]
        · have h2 := (List.pairwise_append.mp hs).2.1
          exact (List.pairwise_cons.mp h2).1 v hp
    exact absurd (lt_of_lt_of_le hva hab) (not_lt.mpr hbv)

end M3d.MeshDiag
