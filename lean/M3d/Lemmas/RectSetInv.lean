import M3d.Lemmas.RectSetBasic
/-! Helper lemmas for C04 (RectSet histories): the representation invariant and what each
operation does to the invariant and to the union of the stored rects. -/
namespace M3d.RectSet
set_option linter.unusedSectionVars false
set_option linter.unusedVariables false
variable {K : Type} [LinearOrder K] [OfNat K 0]

/-- Representation invariant of a `RectSet`: the stored rects are distinct grid cells of the split
planes (both ends on split planes, no split plane strictly inside), the split lists are ascending. -/
structure Inv (s : RS K) : Prop where
  nodup : s.rects.Nodup
  sorted : ∀ ax, ax < 3 → (s.splits.get ax).Pairwise (· < ·)
  ends : ∀ r ∈ s.rects, ∀ ax, ax < 3 → r.lo.get ax ∈ s.splits.get ax ∧ r.hi.get ax ∈ s.splits.get ax
  aligned : ∀ r ∈ s.rects, ∀ ax, ax < 3 → ∀ w ∈ s.splits.get ax, ¬ (r.lo.get ax < w ∧ w < r.hi.get ax)

theorem inv_empty : Inv (RS.empty : RS K) := by
  refine ⟨by simp [RS.empty], ?_, by simp [RS.empty], by simp [RS.empty]⟩
  intro ax hax
  match ax, hax with
  | 0, _ | 1, _ | 2, _ => simp [RS.empty, V3.get]

/-- The union of the stored rects, as a predicate on points. -/
def RS.union (s : RS K) (p : V3 K) : Bool := s.rects.any fun r => r.contains p

/-- `addSplit` in closed form (given the invariant, the guards `idx == len`, "already present" and
`idx > 0` only skip a loop that would change nothing). -/
theorem addSplit_eq {s : RS K} (hI : Inv s) {ax : Nat} (hax : ax < 3) (v : K) :
    addSplit s ax v = ⟨splitAll s.rects ax v, s.splits.set ax (insertSortedU v (s.splits.get ax))⟩ := by
  have hsa := splitsAfter_eq (s.splits.get ax) v
  unfold splitsAfter at hsa
  unfold addSplit
  simp only
  split_ifs with h1 h2 h3
  · -- appended at the end: every split (hence every rect end) is below v
    rw [if_pos h1] at hsa
    have hall := searchGE_eq_length h1
    have : splitAll s.rects ax v = s.rects := by
      apply splitAll_id
      intro r hr
      rw [splitRect_none_iff]
      exact fun ⟨_, h⟩ => lt_asymm h (hall _ (hI.ends r hr ax hax).2)
    rw [this, hsa]
  · -- already a split: nothing strictly contains it
    rw [if_neg h1, if_pos h2] at hsa
    have hv : v ∈ s.splits.get ax := searchGE_hit h1 h2
    have : splitAll s.rects ax v = s.rects := by
      apply splitAll_id
      intro r hr
      rw [splitRect_none_iff]
      exact hI.aligned r hr ax hax v hv
    rw [this, ← hsa, V3.set_get_self]
  · rw [if_neg h1, if_neg h2] at hsa
    rw [hsa]
  · rw [if_neg h1, if_neg h2] at hsa
    have h0 : searchGE (s.splits.get ax) v = 0 := by omega
    have hall := searchGE_zero (hI.sorted ax hax) h0 h1 h2
    have : splitAll s.rects ax v = s.rects := by
      apply splitAll_id
      intro r hr
      rw [splitRect_none_iff]
      exact fun ⟨h, _⟩ => lt_asymm h (hall _ (hI.ends r hr ax hax).1)
    rw [this, hsa]

theorem mem_splits_addSplit {s : RS K} (hI : Inv s) {ax : Nat} (hax : ax < 3) (v : K) {ax' : Nat} (hax' : ax' < 3)
    (x : K) : x ∈ (addSplit s ax v).splits.get ax' ↔ (x ∈ s.splits.get ax' ∨ (ax' = ax ∧ x = v)) := by
  rw [addSplit_eq hI hax]
  simp only
  rw [V3.get_set _ hax hax']
  split_ifs with e
  · subst e; rw [mem_insertSortedU]; tauto
  · constructor
    · exact Or.inl
    · rintro (h | ⟨h, _⟩)
      · exact h
      · exact absurd h.symm e

theorem union_addSplit {s : RS K} (hI : Inv s) {ax : Nat} (hax : ax < 3) (v : K) (p : V3 K) :
    (addSplit s ax v).union p = s.union p := by
  rw [addSplit_eq hI hax]
  exact any_splitAll hI.nodup hax v p

theorem inv_addSplit {s : RS K} (hI : Inv s) {ax : Nat} (hax : ax < 3) (v : K) : Inv (addSplit s ax v) := by
  have hmem := fun {ax'} (h : ax' < 3) x => mem_splits_addSplit hI hax v h x
  have hrects : (addSplit s ax v).rects = splitAll s.rects ax v := by rw [addSplit_eq hI hax]
  refine ⟨?_, ?_, ?_, ?_⟩
  · rw [hrects]; exact nodup_splitAll hI.nodup ax v
  · intro ax' hax'
    rw [addSplit_eq hI hax]
    simp only
    rw [V3.get_set _ hax hax']
    split_ifs with e
    · subst e; exact sorted_insertSortedU v (hI.sorted _ hax)
    · exact hI.sorted ax' hax'
  · intro q hq ax' hax'
    rw [hrects, mem_splitAll hI.nodup] at hq
    rw [hmem hax', hmem hax']
    rcases hq with ⟨hq, _⟩ | ⟨r, hr, r1, r2, hs, hq⟩
    · exact ⟨Or.inl (hI.ends q hq ax' hax').1, Or.inl (hI.ends q hq ax' hax').2⟩
    · obtain ⟨_, _, rfl, rfl⟩ := splitRect_some hs
      have he := hI.ends r hr ax' hax'
      rcases hq with rfl | rfl
      · refine ⟨Or.inl he.1, ?_⟩
        simp only
        rw [V3.get_set _ hax hax']
        split_ifs with e
        · exact Or.inr ⟨e.symm, rfl⟩
        · exact Or.inl he.2
      · refine ⟨?_, Or.inl he.2⟩
        simp only
        rw [V3.get_set _ hax hax']
        split_ifs with e
        · exact Or.inr ⟨e.symm, rfl⟩
        · exact Or.inl he.1
  · intro q hq ax' hax' w hw
    rw [hrects, mem_splitAll hI.nodup] at hq
    rw [hmem hax'] at hw
    rcases hq with ⟨hq, hnone⟩ | ⟨r, hr, r1, r2, hs, hq⟩
    · rcases hw with hw | ⟨rfl, rfl⟩
      · exact hI.aligned q hq ax' hax' w hw
      · exact (splitRect_none_iff q ax' w).mp hnone
    · obtain ⟨h1, h2, rfl, rfl⟩ := splitRect_some hs
      have ha := hI.aligned r hr ax' hax'
      rcases hq with rfl | rfl
      · simp only
        rw [V3.get_set _ hax hax']
        split_ifs with e
        · subst e
          rcases hw with hw | ⟨_, rfl⟩
          · exact fun ⟨a, b⟩ => ha w hw ⟨a, lt_trans b h2⟩
          · exact fun ⟨_, b⟩ => lt_irrefl _ b
        · rcases hw with hw | ⟨e', _⟩
          · exact ha w hw
          · exact absurd e'.symm e
      · simp only
        rw [V3.get_set _ hax hax']
        split_ifs with e
        · subst e
          rcases hw with hw | ⟨_, rfl⟩
          · exact fun ⟨a, b⟩ => ha w hw ⟨lt_trans h1 a, b⟩
          · exact fun ⟨a, _⟩ => lt_irrefl _ a
        · rcases hw with hw | ⟨e', _⟩
          · exact ha w hw
          · exact absurd e'.symm e

/-! ### Several `addSplit`s in a row -/

def addMany (s : RS K) (l : List (Nat × K)) : RS K := l.foldl (fun s av => addSplit s av.1 av.2) s

theorem addMany_spec (l : List (Nat × K)) : ∀ {s : RS K}, Inv s → (∀ av ∈ l, av.1 < 3) →
    Inv (addMany s l) ∧ (∀ p, (addMany s l).union p = s.union p) ∧
    ∀ ax, ax < 3 → ∀ x, x ∈ (addMany s l).splits.get ax ↔ (x ∈ s.splits.get ax ∨ (ax, x) ∈ l) := by
  induction l with
  | nil => intro s hI _; simp [addMany, hI]
  | cons av l ih =>
    intro s hI hl
    have hav : av.1 < 3 := hl av List.mem_cons_self
    obtain ⟨i1, i2, i3⟩ := ih (inv_addSplit hI hav av.2) (fun x hx => hl x (List.mem_cons_of_mem _ hx))
    refine ⟨i1, fun p => ?_, fun ax hax x => ?_⟩
    · exact (i2 p).trans (union_addSplit hI hav av.2 p)
    · have := i3 ax hax x
      simp only [addMany, List.foldl_cons] at this ⊢
      rw [this, mem_splits_addSplit hI hav av.2 hax, List.mem_cons]
      constructor
      · rintro ((h | ⟨rfl, rfl⟩) | h)
        · exact Or.inl h
        · exact Or.inr (Or.inl rfl)
        · exact Or.inr (Or.inr h)
      · rintro (h | h | h)
        · exact Or.inl (Or.inl h)
        · left; right; cases h; exact ⟨rfl, rfl⟩
        · exact Or.inr h

theorem addRectSplits_eq (s : RS K) (r : Rect K) :
    addRectSplits s r = addMany s [(0, r.lo.get 0), (0, r.hi.get 0), (1, r.lo.get 1), (1, r.hi.get 1),
      (2, r.lo.get 2), (2, r.hi.get 2)] := by
  simp only [addRectSplits, addMany, List.foldl_cons, List.foldl_nil]

theorem addRectSplits_spec {s : RS K} (hI : Inv s) (r : Rect K) :
    Inv (addRectSplits s r) ∧ (∀ p, (addRectSplits s r).union p = s.union p) ∧
    ∀ ax, ax < 3 → ∀ x, x ∈ (addRectSplits s r).splits.get ax ↔
      (x ∈ s.splits.get ax ∨ x = r.lo.get ax ∨ x = r.hi.get ax) := by
  have hl : ∀ av ∈ [((0 : Nat), r.lo.get 0), (0, r.hi.get 0), (1, r.lo.get 1), (1, r.hi.get 1),
      (2, r.lo.get 2), (2, r.hi.get 2)], av.1 < 3 := by
    intro av hav
    simp only [List.mem_cons, List.not_mem_nil, or_false] at hav
    rcases hav with rfl | rfl | rfl | rfl | rfl | rfl <;> simp
  obtain ⟨i1, i2, i3⟩ := addMany_spec _ hI (s := s) hl
  rw [addRectSplits_eq]
  refine ⟨i1, i2, fun ax hax x => ?_⟩
  rw [i3 ax hax x]
  simp only [List.mem_cons, List.not_mem_nil, or_false, Prod.mk.injEq]
  match ax, hax with
  | 0, _ => simp
  | 1, _ => simp
  | 2, _ => simp

theorem addSplitsOf_eq (s : RS K) (o : V3 (List K)) :
    addSplitsOf s o = addMany s (o.x.map (fun v => (0, v)) ++ o.y.map (fun v => (1, v)) ++ o.z.map (fun v => (2, v))) := by
  simp only [addSplitsOf, addMany, List.foldl_cons, List.foldl_nil, List.foldl_append, List.foldl_map, V3.get]

theorem addSplitsOf_spec {s : RS K} (hI : Inv s) (o : V3 (List K)) :
    Inv (addSplitsOf s o) ∧ (∀ p, (addSplitsOf s o).union p = s.union p) ∧
    ∀ ax, ax < 3 → ∀ x, x ∈ (addSplitsOf s o).splits.get ax ↔ (x ∈ s.splits.get ax ∨ x ∈ o.get ax) := by
  rw [addSplitsOf_eq]
  have hl : ∀ av ∈ (o.x.map (fun v => ((0 : Nat), v)) ++ o.y.map (fun v => (1, v)) ++ o.z.map (fun v => (2, v))),
      av.1 < 3 := by
    intro av hav
    simp only [List.mem_append, List.mem_map] at hav
    rcases hav with (⟨_, _, rfl⟩ | ⟨_, _, rfl⟩) | ⟨_, _, rfl⟩ <;> simp
  obtain ⟨i1, i2, i3⟩ := addMany_spec _ hI (s := s) hl
  refine ⟨i1, i2, fun ax hax x => ?_⟩
  rw [i3 ax hax x]
  match ax, hax with
  | 0, _ => simp [V3.get]
  | 1, _ => simp [V3.get]
  | 2, _ => simp [V3.get]

/-! ### `rebuildSplits` -/

theorem mem_rebuildAxis (rects : List (Rect K)) (ax : Nat) (x : K) :
    x ∈ rebuildAxis rects ax ↔ ∃ r ∈ rects, x = r.lo.get ax ∨ x = r.hi.get ax := by
  unfold rebuildAxis
  suffices ∀ acc : List K, x ∈ rects.foldl (fun acc r => insertSortedU (r.hi.get ax) (insertSortedU (r.lo.get ax) acc)) acc
      ↔ (x ∈ acc ∨ ∃ r ∈ rects, x = r.lo.get ax ∨ x = r.hi.get ax) by simpa using this []
  induction rects with
  | nil => intro acc; simp
  | cons r rects ih =>
    intro acc
    simp only [List.foldl_cons, ih, mem_insertSortedU, List.mem_cons, exists_eq_or_imp]
    constructor
    · rintro ((h | h | h) | h)
      · exact Or.inr (Or.inl (Or.inr h))
      · exact Or.inr (Or.inl (Or.inl h))
      · exact Or.inl h
      · exact Or.inr (Or.inr h)
    · rintro (h | (h | h) | h)
      · exact Or.inl (Or.inr (Or.inr h))
      · exact Or.inl (Or.inr (Or.inl h))
      · exact Or.inl (Or.inl h)
      · exact Or.inr h

theorem sorted_rebuildAxis (rects : List (Rect K)) (ax : Nat) : (rebuildAxis rects ax).Pairwise (· < ·) := by
  unfold rebuildAxis
  suffices ∀ acc : List K, acc.Pairwise (· < ·) →
      (rects.foldl (fun acc r => insertSortedU (r.hi.get ax) (insertSortedU (r.lo.get ax) acc)) acc).Pairwise (· < ·) from
    this [] List.Pairwise.nil
  induction rects with
  | nil => intro acc h; exact h
  | cons r rects ih =>
    intro acc h
    exact ih _ (sorted_insertSortedU _ (sorted_insertSortedU _ h))

theorem rebuildSplits_get (rects : List (Rect K)) {ax : Nat} (hax : ax < 3) :
    (rebuildSplits rects).get ax = rebuildAxis rects ax := by
  match ax, hax with
  | 0, _ | 1, _ | 2, _ => rfl

/-- Keeping some of the stored rects and rebuilding the splits from them keeps the invariant
(`Remove`, `RemoveRectSet`, and both halves in `splitRectSet`). -/
theorem inv_sub {s : RS K} (hI : Inv s) {rects : List (Rect K)} (hn : rects.Nodup)
    (hsub : ∀ r ∈ rects, r ∈ s.rects) :
    Inv ⟨rects, rebuildSplits rects⟩ ∧
    ∀ ax, ax < 3 → ∀ x ∈ (rebuildSplits rects).get ax, x ∈ s.splits.get ax := by
  have hsp : ∀ ax, ax < 3 → ∀ x ∈ (rebuildSplits rects).get ax, x ∈ s.splits.get ax := by
    intro ax hax x hx
    rw [rebuildSplits_get _ hax, mem_rebuildAxis] at hx
    obtain ⟨r, hr, e | e⟩ := hx
    · rw [e]; exact (hI.ends r (hsub r hr) ax hax).1
    · rw [e]; exact (hI.ends r (hsub r hr) ax hax).2
  refine ⟨⟨hn, ?_, ?_, ?_⟩, hsp⟩
  · intro ax hax; rw [rebuildSplits_get _ hax]; exact sorted_rebuildAxis _ _
  · intro r hr ax hax
    have e := rebuildSplits_get rects hax
    constructor
    · show r.lo.get ax ∈ (rebuildSplits rects).get ax
      rw [e, mem_rebuildAxis]; exact ⟨r, hr, Or.inl rfl⟩
    · show r.hi.get ax ∈ (rebuildSplits rects).get ax
      rw [e, mem_rebuildAxis]; exact ⟨r, hr, Or.inr rfl⟩
  · intro r hr ax hax w hw
    exact hI.aligned r (hsub r hr) ax hax w (hsp ax hax w hw)

/-! ### Two grid cells that share a generic point are the same cell -/

/-- Two grid cells with a point strictly inside both are the same cell. -/
theorem same_cell_of_strict {S : V3 (List K)} {q q' : Rect K} {p : V3 K}
    (eq : ∀ ax, ax < 3 → q.lo.get ax ∈ S.get ax ∧ q.hi.get ax ∈ S.get ax)
    (aq : ∀ ax, ax < 3 → ∀ w ∈ S.get ax, ¬ (q.lo.get ax < w ∧ w < q.hi.get ax))
    (eq' : ∀ ax, ax < 3 → q'.lo.get ax ∈ S.get ax ∧ q'.hi.get ax ∈ S.get ax)
    (aq' : ∀ ax, ax < 3 → ∀ w ∈ S.get ax, ¬ (q'.lo.get ax < w ∧ w < q'.hi.get ax))
    (strict : ∀ ax, ax < 3 → q.lo.get ax < p.get ax ∧ p.get ax < q.hi.get ax ∧
      q'.lo.get ax < p.get ax ∧ p.get ax < q'.hi.get ax) : q = q' := by
  apply Rect.ext_get
  · intro ax hax
    obtain ⟨s1, s2, s3, s4⟩ := strict ax hax
    rcases lt_trichotomy (q.lo.get ax) (q'.lo.get ax) with h | h | h
    · exact absurd ⟨h, lt_trans s3 s2⟩ (aq ax hax _ (eq' ax hax).1)
    · exact h
    · exact absurd ⟨h, lt_trans s1 s4⟩ (aq' ax hax _ (eq ax hax).1)
  · intro ax hax
    obtain ⟨s1, s2, s3, s4⟩ := strict ax hax
    rcases lt_trichotomy (q.hi.get ax) (q'.hi.get ax) with h | h | h
    · exact absurd ⟨lt_trans s3 s2, h⟩ (aq' ax hax _ (eq ax hax).2)
    · exact h
    · exact absurd ⟨lt_trans s1 s4, h⟩ (aq ax hax _ (eq' ax hax).2)

theorem same_cell {S : V3 (List K)} {q q' : Rect K} {p : V3 K}
    (eq : ∀ ax, ax < 3 → q.lo.get ax ∈ S.get ax ∧ q.hi.get ax ∈ S.get ax)
    (aq : ∀ ax, ax < 3 → ∀ w ∈ S.get ax, ¬ (q.lo.get ax < w ∧ w < q.hi.get ax))
    (eq' : ∀ ax, ax < 3 → q'.lo.get ax ∈ S.get ax ∧ q'.hi.get ax ∈ S.get ax)
    (aq' : ∀ ax, ax < 3 → ∀ w ∈ S.get ax, ¬ (q'.lo.get ax < w ∧ w < q'.hi.get ax))
    (cq : q.contains p = true) (cq' : q'.contains p = true)
    (hp : ∀ ax, ax < 3 → p.get ax ∉ S.get ax) : q = q' := by
  rw [Rect.contains_iff] at cq cq'
  refine same_cell_of_strict (p := p) eq aq eq' aq' ?_
  intro ax hax
  have n1 : q.lo.get ax ≠ p.get ax := fun e => hp ax hax (e ▸ (eq ax hax).1)
  have n2 : p.get ax ≠ q.hi.get ax := fun e => hp ax hax (e ▸ (eq ax hax).2)
  have n3 : q'.lo.get ax ≠ p.get ax := fun e => hp ax hax (e ▸ (eq' ax hax).1)
  have n4 : p.get ax ≠ q'.hi.get ax := fun e => hp ax hax (e ▸ (eq' ax hax).2)
  exact ⟨lt_of_le_of_ne (cq ax hax).1 n1, lt_of_le_of_ne (cq ax hax).2 n2,
    lt_of_le_of_ne (cq' ax hax).1 n3, lt_of_le_of_ne (cq' ax hax).2 n4⟩

/-! ### Adding / removing the pieces of a list of boxes -/

def insertPieces (sp : V3 (List K)) (R base : List (Rect K)) : List (Rect K) :=
  R.foldl (fun acc r => (splitRectAll sp r).foldl insertRect acc) base

def erasePieces (sp : V3 (List K)) (R base : List (Rect K)) : List (Rect K) :=
  R.foldl (fun acc r => (splitRectAll sp r).foldl (fun a p => a.erase p) acc) base

theorem mem_insertPieces (sp : V3 (List K)) (R : List (Rect K)) : ∀ (base : List (Rect K)), base.Nodup →
    (insertPieces sp R base).Nodup ∧
    ∀ q, q ∈ insertPieces sp R base ↔ (q ∈ base ∨ ∃ r ∈ R, q ∈ splitRectAll sp r) := by
  induction R with
  | nil => intro base h; simp [insertPieces, h]
  | cons r R ih =>
    intro base h
    obtain ⟨n, m⟩ := ih _ (nodup_foldl_insertRect (splitRectAll sp r) h)
    refine ⟨n, fun q => ?_⟩
    have := m q
    simp only [insertPieces, List.foldl_cons] at this ⊢
    rw [this, mem_foldl_insertRect]
    simp only [List.mem_cons, exists_eq_or_imp]
    tauto

theorem mem_erasePieces (sp : V3 (List K)) (R : List (Rect K)) : ∀ (base : List (Rect K)), base.Nodup →
    (erasePieces sp R base).Nodup ∧
    ∀ q, q ∈ erasePieces sp R base ↔ (q ∈ base ∧ ∀ r ∈ R, q ∉ splitRectAll sp r) := by
  induction R with
  | nil => intro base h; simp [erasePieces, h]
  | cons r R ih =>
    intro base h
    obtain ⟨n, m⟩ := ih _ (nodup_foldl_erase (splitRectAll sp r) h)
    refine ⟨n, fun q => ?_⟩
    have := m q
    simp only [erasePieces, List.foldl_cons] at this ⊢
    rw [this, mem_foldl_erase _ h]
    simp only [List.mem_cons, forall_eq_or_imp]
    tauto

/-- The pieces of a box whose ends are split values are grid cells. -/
theorem pieces_cells {s : RS K} (hI : Inv s) {r : Rect K}
    (hr : ∀ ax, ax < 3 → r.lo.get ax ∈ s.splits.get ax ∧ r.hi.get ax ∈ s.splits.get ax)
    {q : Rect K} (hq : q ∈ splitRectAll s.splits r) :
    (∀ ax, ax < 3 → q.lo.get ax ∈ s.splits.get ax ∧ q.hi.get ax ∈ s.splits.get ax) ∧
    (∀ ax, ax < 3 → ∀ w ∈ s.splits.get ax, ¬ (q.lo.get ax < w ∧ w < q.hi.get ax)) := by
  have S := (splitRectAll_spec s.splits r hI.sorted).1 q hq
  constructor
  · intro ax hax
    obtain ⟨a, b, _⟩ := S ax hax
    exact ⟨a.elim (fun e => e ▸ (hr ax hax).1) id, b.elim (fun e => e ▸ (hr ax hax).2) id⟩
  · intro ax hax
    exact (S ax hax).2.2 trivial

/-- Adding (the pieces of) boxes whose ends are already split values. -/
theorem addPieces_spec {s : RS K} (hI : Inv s) (R : List (Rect K))
    (hR : ∀ r ∈ R, ∀ ax, ax < 3 → r.lo.get ax ∈ s.splits.get ax ∧ r.hi.get ax ∈ s.splits.get ax) :
    Inv ⟨insertPieces s.splits R s.rects, s.splits⟩ ∧
    ∀ p, (RS.mk (insertPieces s.splits R s.rects) s.splits).union p = (s.union p || R.any (fun r => r.contains p)) := by
  obtain ⟨n, m⟩ := mem_insertPieces s.splits R s.rects hI.nodup
  refine ⟨⟨n, hI.sorted, ?_, ?_⟩, fun p => ?_⟩
  · intro q hq
    rcases (m q).mp hq with h | ⟨r, hr, hqr⟩
    · exact hI.ends q h
    · exact (pieces_cells hI (hR r hr) hqr).1
  · intro q hq
    rcases (m q).mp hq with h | ⟨r, hr, hqr⟩
    · exact hI.aligned q h
    · exact (pieces_cells hI (hR r hr) hqr).2
  · rw [Bool.eq_iff_iff]
    simp only [RS.union, Bool.or_eq_true, List.any_eq_true]
    constructor
    · rintro ⟨q, hq, hc⟩
      rcases (m q).mp hq with h | ⟨r, hr, hqr⟩
      · exact Or.inl ⟨q, h, hc⟩
      · exact Or.inr ⟨r, hr, ((splitRectAll_spec s.splits r hI.sorted).2 p).mp ⟨q, hqr, hc⟩⟩
    · rintro (⟨q, h, hc⟩ | ⟨r, hr, hc⟩)
      · exact ⟨q, (m q).mpr (Or.inl h), hc⟩
      · obtain ⟨q, hqr, hc'⟩ := ((splitRectAll_spec s.splits r hI.sorted).2 p).mpr hc
        exact ⟨q, (m q).mpr (Or.inr ⟨r, hr, hqr⟩), hc'⟩

/-- Removing (the pieces of) boxes whose ends are split values, then rebuilding the splits.
The union loses exactly those boxes at every point that is on no split plane. -/
theorem removePieces_spec {s : RS K} (hI : Inv s) (R : List (Rect K))
    (hR : ∀ r ∈ R, ∀ ax, ax < 3 → r.lo.get ax ∈ s.splits.get ax ∧ r.hi.get ax ∈ s.splits.get ax) :
    Inv ⟨erasePieces s.splits R s.rects, rebuildSplits (erasePieces s.splits R s.rects)⟩ ∧
    (∀ ax, ax < 3 → ∀ x ∈ (rebuildSplits (erasePieces s.splits R s.rects)).get ax, x ∈ s.splits.get ax) ∧
    ∀ p, (∀ ax, ax < 3 → p.get ax ∉ s.splits.get ax) →
      (RS.mk (erasePieces s.splits R s.rects) (rebuildSplits (erasePieces s.splits R s.rects))).union p
        = (s.union p && !(R.any (fun r => r.contains p))) := by
  obtain ⟨n, m⟩ := mem_erasePieces s.splits R s.rects hI.nodup
  obtain ⟨i1, i2⟩ := inv_sub hI n (fun q hq => ((m q).mp hq).1)
  refine ⟨i1, i2, fun p hp => ?_⟩
  rw [Bool.eq_iff_iff]
  simp only [RS.union, Bool.and_eq_true, Bool.not_eq_true', List.any_eq_true, List.any_eq_false]
  constructor
  · rintro ⟨q, hq, hc⟩
    obtain ⟨hqs, hqR⟩ := (m q).mp hq
    refine ⟨⟨q, hqs, hc⟩, fun r hr hcr => ?_⟩
    -- p is in r, so in one of r's pieces, which is then the same grid cell as q
    obtain ⟨q', hq', hc'⟩ := ((splitRectAll_spec s.splits r hI.sorted).2 p).mpr hcr
    obtain ⟨e', a'⟩ := pieces_cells hI (hR r hr) hq'
    have : q = q' := same_cell (hI.ends q hqs) (hI.aligned q hqs) e' a' hc hc' hp
    exact hqR r hr (this ▸ hq')
  · rintro ⟨⟨q, hqs, hc⟩, hnot⟩
    refine ⟨q, (m q).mpr ⟨hqs, fun r hr hqr => ?_⟩, hc⟩
    exact hnot r hr (((splitRectAll_spec s.splits r hI.sorted).2 p).mp ⟨q, hqr, hc⟩)

end M3d.RectSet
