import M3d.Lemmas.SmartSqueeze
/-!
# C05 — `SmartSqueeze.Transform` is the piecewise-linear map it is documented to be (helper lemmas)

* what the breakpoint loop produces: an ascending chain of proper intervals inside `[min, max]`, none of which
  meets an unsqueezable / pinch range, and which together cover every point of `[min, max)` outside of the ranges;
* how the (reversed) join of the squeezes acts on the axis coordinate: `v ↦ v − (1 − ratio)·Σ |[a,b] ∩ (−∞, v]|`,
  hence slope `ratio` on every squeezed interval and slope 1 everywhere else.
-/
namespace M3d.Tf

set_option linter.unusedSectionVars false
set_option linter.unusedVariables false

variable {K : Type} [Field K] [LinearOrder K] [IsStrictOrderedRing K]

/-! ## the scanning loops of `checkSqueezed` -/

/-- What `checkSqueezed` returns when it says "squeezable": no range contains `v`, and `next` is at most every
range start beyond `v` (and at most the `next` it started with). -/
theorem scanRanges_true (v : K) (l : List (K × K)) (nx : Option K) (h : (scanRanges v l nx).1 = true) :
    (∀ r ∈ l, ¬ (r.1 ≤ v ∧ v < r.2)) ∧
      (∀ r ∈ l, v < r.1 → ∃ n, (scanRanges v l nx).2 = some n ∧ n ≤ r.1) ∧
      (∀ n0, nx = some n0 → ∃ n, (scanRanges v l nx).2 = some n ∧ n ≤ n0) := by
  induction l generalizing nx with
  | nil =>
      refine ⟨fun r hr => by simp at hr, fun r hr => by simp at hr, fun n0 hn => ⟨n0, by simpa [scanRanges] using hn, le_refl _⟩⟩
  | cons r rest ih =>
      obtain ⟨a, b⟩ := r
      by_cases h1 : a ≤ v ∧ v < b
      · simp [scanRanges, h1] at h
      · by_cases h2 : v < a ∧ ltNext a nx = true
        · -- `next` becomes `a`
          have e : scanRanges v ((a, b) :: rest) nx = scanRanges v rest (some a) := by
            simp only [scanRanges, if_neg h1, if_pos h2]
          rw [e] at h ⊢
          obtain ⟨i1, i2, i3⟩ := ih (some a) h
          obtain ⟨n, hn, hna⟩ := i3 a rfl
          refine ⟨?_, ?_, ?_⟩
          · intro r hr
            rcases List.mem_cons.mp hr with rfl | hr
            · exact h1
            · exact i1 r hr
          · intro r hr hv
            rcases List.mem_cons.mp hr with rfl | hr
            · exact ⟨n, hn, hna⟩
            · exact i2 r hr hv
          · intro n0 hn0
            subst hn0
            have : a < n0 := by simpa [ltNext] using h2.2
            exact ⟨n, hn, le_trans hna this.le⟩
        · have e : scanRanges v ((a, b) :: rest) nx = scanRanges v rest nx := by
            simp only [scanRanges, if_neg h1, if_neg h2]
          rw [e] at h ⊢
          obtain ⟨i1, i2, i3⟩ := ih nx h
          refine ⟨?_, ?_, i3⟩
          · intro r hr
            rcases List.mem_cons.mp hr with rfl | hr
            · exact h1
            · exact i1 r hr
          · intro r hr hv
            rcases List.mem_cons.mp hr with rfl | hr
            · -- `a` was not taken although `v < a`: `next` is already some `n0 ≤ a`
              have hnl : ¬ (ltNext a nx = true) := fun hl => h2 ⟨hv, hl⟩
              cases nx with
              | none => simp [ltNext] at hnl
              | some n0 =>
                  have hle : n0 ≤ a := by simpa [ltNext] using hnl
                  obtain ⟨n, hn, hnn⟩ := i3 n0 rfl
                  exact ⟨n, hn, le_trans hnn hle⟩
            · exact i2 r hr hv

/-- What `checkSqueezed` returns when it says "not squeezable": `next` is the end of a range containing `v`. -/
theorem scanRanges_false (v : K) (l : List (K × K)) (nx : Option K) (h : (scanRanges v l nx).1 = false) :
    ∃ r ∈ l, r.1 ≤ v ∧ v < r.2 ∧ (scanRanges v l nx).2 = some r.2 := by
  induction l generalizing nx with
  | nil => simp [scanRanges] at h
  | cons r rest ih =>
      obtain ⟨a, b⟩ := r
      by_cases h1 : a ≤ v ∧ v < b
      · have e : scanRanges v ((a, b) :: rest) nx = (false, some b) := by simp only [scanRanges, if_pos h1]
        rw [e]
        exact ⟨(a, b), List.mem_cons_self, h1.1, h1.2, rfl⟩
      · by_cases h2 : v < a ∧ ltNext a nx = true
        · have e : scanRanges v ((a, b) :: rest) nx = scanRanges v rest (some a) := by
            simp only [scanRanges, if_neg h1, if_pos h2]
          rw [e] at h ⊢
          obtain ⟨r, hr, h3⟩ := ih (some a) h
          exact ⟨r, List.mem_cons_of_mem _ hr, h3⟩
        · have e : scanRanges v ((a, b) :: rest) nx = scanRanges v rest nx := by
            simp only [scanRanges, if_neg h1, if_neg h2]
          rw [e] at h ⊢
          obtain ⟨r, hr, h3⟩ := ih nx h
          exact ⟨r, List.mem_cons_of_mem _ hr, h3⟩

theorem capNext_le_max (nx : Option K) (max : K) : capNext nx max ≤ max := by
  cases nx with
  | none => exact le_refl _
  | some x => simp only [capNext, mn]; split_ifs with h <;> [exact h; exact le_refl _]

theorem capNext_le_some (n max : K) : capNext (some n) max ≤ n := by
  simp only [capNext, mn]; split_ifs with h <;> [exact le_refl _; exact (not_le.mp h).le]

/-- a squeezable step `[v, next)` meets no range -/
theorem step_avoids (ranges : List (K × K)) (max v : K) (h : (scanRanges v ranges none).1 = true)
    (x : K) (hx1 : v ≤ x) (hx2 : x < capNext (scanRanges v ranges none).2 max) :
    ∀ r ∈ ranges, ¬ (r.1 ≤ x ∧ x < r.2) := by
  obtain ⟨i1, i2, _⟩ := scanRanges_true v ranges none h
  intro r hr ⟨ha, hb⟩
  rcases le_or_gt r.1 v with hav | hva
  · exact i1 r hr ⟨hav, lt_of_le_of_lt hx1 hb⟩
  · obtain ⟨n, hn, hna⟩ := i2 r hr hva
    rw [hn] at hx2
    have := capNext_le_some n max
    exact absurd (lt_of_lt_of_le hx2 (le_trans this hna)) (not_lt.mpr ha)

/-- a non-squeezable step `[v, next)` lies inside one range -/
theorem step_inside (ranges : List (K × K)) (max v : K) (h : (scanRanges v ranges none).1 = false)
    (x : K) (hx1 : v ≤ x) (hx2 : x < capNext (scanRanges v ranges none).2 max) :
    ∃ r ∈ ranges, r.1 ≤ x ∧ x < r.2 := by
  obtain ⟨r, hr, h1, h2, h3⟩ := scanRanges_false v ranges none h
  rw [h3] at hx2
  exact ⟨r, hr, le_trans h1 hx1, lt_of_lt_of_le hx2 (capNext_le_some r.2 max)⟩

/-! ## what the loop appends -/

/-- ascending chain of intervals above `bd` -/
def Asc : K → List (K × K) → Prop
  | _, [] => True
  | bd, p :: rest => bd ≤ p.1 ∧ p.1 ≤ p.2 ∧ Asc p.2 rest

theorem Asc.append_singleton {bd : K} {l : List (K × K)} (h : Asc bd l) (a b : K) (hl : ∀ p ∈ l, p.2 ≤ a)
    (hbd : bd ≤ a) (hab : a ≤ b) : Asc bd (l ++ [(a, b)]) := by
  induction l generalizing bd with
  | nil => exact ⟨hbd, hab, trivial⟩
  | cons p rest ih =>
      exact ⟨h.1, h.2.1, ih h.2.2 (fun q hq => hl q (List.mem_cons_of_mem _ hq)) (hl p List.mem_cons_self)⟩

theorem Asc.mono {bd bd' : K} {l : List (K × K)} (h : Asc bd l) (hb : bd' ≤ bd) : Asc bd' l := by
  cases l with
  | nil => trivial
  | cons p rest => exact ⟨le_trans hb h.1, h.2⟩

/-- The pieces: ascending from `lo`, proper, below `max`, and disjoint from every range. -/
structure PiecesOK (ranges : List (K × K)) (lo max : K) (l : List (K × K)) : Prop where
  asc : Asc lo l
  proper : ∀ p ∈ l, p.1 < p.2 ∧ p.2 ≤ max
  avoids : ∀ p ∈ l, ∀ x, p.1 ≤ x → x < p.2 → ∀ r ∈ ranges, ¬ (r.1 ≤ x ∧ x < r.2)

theorem squeezeLoop_ok (ranges : List (K × K)) (lo max : K) (n : Nat) :
    ∀ (v : K) (acc : List (K × K)), lo ≤ v → PiecesOK ranges lo max acc → (∀ p ∈ acc, p.2 ≤ v) →
      PiecesOK ranges lo max (squeezeLoop ranges max n v acc) := by
  induction n with
  | zero => intro v acc _ h _; simpa [squeezeLoop] using h
  | succ n ih =>
      intro v acc hlo h hacc
      simp only [squeezeLoop]
      by_cases hv : v < max
      · simp only [if_pos hv]
        obtain ⟨h1, _⟩ := loop_step ranges max v hv
        have hle := capNext_le_max (scanRanges v ranges none).2 max
        cases hs : (scanRanges v ranges none).1 with
        | false =>
            simp only [Bool.false_eq_true, if_false]
            exact ih _ acc (le_trans hlo h1.le) h (fun p hp => le_trans (hacc p hp) h1.le)
        | true =>
            simp only [if_true]
            refine ih _ _ (le_trans hlo h1.le) ⟨h.asc.append_singleton _ _ hacc hlo h1.le, ?_, ?_⟩ ?_
            · intro p hp
              rcases List.mem_append.mp hp with hp | hp
              · exact h.proper p hp
              · simp only [List.mem_singleton] at hp; subst hp; exact ⟨h1, hle⟩
            · intro p hp
              rcases List.mem_append.mp hp with hp | hp
              · exact h.avoids p hp
              · simp only [List.mem_singleton] at hp; subst hp
                exact fun x hx1 hx2 => step_avoids ranges max v hs x hx1 hx2
            · intro p hp
              rcases List.mem_append.mp hp with hp | hp
              · exact le_trans (hacc p hp) h1.le
              · simp only [List.mem_singleton] at hp; subst hp; exact le_refl _
      · simpa [if_neg hv] using h

theorem squeezeLoop_acc_subset (ranges : List (K × K)) (max : K) (n : Nat) :
    ∀ (v : K) (acc : List (K × K)), ∀ p ∈ acc, p ∈ squeezeLoop ranges max n v acc := by
  induction n with
  | zero => intro v acc p hp; simpa [squeezeLoop] using hp
  | succ n ih =>
      intro v acc p hp
      simp only [squeezeLoop]
      split_ifs with hv hs
      · exact ih _ _ p (List.mem_append_left _ hp)
      · exact ih _ _ p hp
      · exact hp

/-- **Coverage**: with enough fuel every point of `[v, max)` outside of the ranges lies in an appended squeeze. -/
theorem squeezeLoop_covers (ranges : List (K × K)) (max : K) (n : Nat) :
    ∀ (v : K) (acc : List (K × K)), (breakpoints ranges max).countP (fun x => decide (v < x)) ≤ n →
      ∀ x, v ≤ x → x < max → (∀ r ∈ ranges, ¬ (r.1 ≤ x ∧ x < r.2)) →
        ∃ p ∈ squeezeLoop ranges max n v acc, p.1 ≤ x ∧ x < p.2 := by
  induction n with
  | zero =>
      intro v acc hc x hx1 hx2 _
      have hv : v < max := lt_of_le_of_lt hx1 hx2
      have : 0 < (breakpoints ranges max).countP (fun x => decide (v < x)) :=
        List.countP_pos_iff.mpr ⟨max, by simp [breakpoints], by simpa using hv⟩
      omega
  | succ n ih =>
      intro v acc hc x hx1 hx2 hx
      have hv : v < max := lt_of_le_of_lt hx1 hx2
      simp only [squeezeLoop, if_pos hv]
      obtain ⟨h1, h2⟩ := loop_step ranges max v hv
      have hcnt := countP_lt_of_mem _ v _ h1 h2
      rcases lt_or_ge x (capNext (scanRanges v ranges none).2 max) with hlt | hge
      · cases hs : (scanRanges v ranges none).1 with
        | false =>
            obtain ⟨r, hr, h3⟩ := step_inside ranges max v hs x hx1 hlt
            exact absurd h3 (hx r hr)
        | true =>
            simp only [if_true]
            exact ⟨_, squeezeLoop_acc_subset ranges max n _ _ _ (List.mem_append_right _ (List.mem_singleton_self _)), hx1, hlt⟩
      · exact ih _ _ (by omega) x hge hx2 hx

/-! ## how the join of the squeezes acts -/

/-- the length of `[a, b] ∩ (−∞, v]` -/
def clampLen (a b v : K) : K := if v < a then 0 else if b < v then b - a else v - a

theorem sq1_eq_clamp (a b r v : K) : sq1 a b r v = v - (1 - r) * clampLen a b v := by
  unfold sq1 clampLen
  split_ifs <;> ring

/-- the total squeezed length below `v` -/
def sumClamp (l : List (K × K)) (v : K) : K := (l.map fun p => clampLen p.1 p.2 v).sum

/-- the action of `smartXf axis r l.reverse` (the order `SmartSqueeze.Transform` returns) on the axis coordinate,
for the squeezes `l` in loop order: the highest squeeze is applied first, the lowest last -/
def smartFn (r : K) : List (K × K) → K → K
  | [], v => v
  | p :: rest, v => sq1 p.1 p.2 r (smartFn r rest v)

theorem smartXf_append_apply (axis : Nat) (r : K) (l : List (K × K)) (p : K × K) (c : V3 K) :
    (smartXf axis r (l ++ [p])).apply c = Xf.squeezeApply axis p.1 p.2 r ((smartXf axis r l).apply c) := by
  induction l generalizing c with
  | nil => obtain ⟨a, b⟩ := p; rfl
  | cons q rest ih =>
      obtain ⟨a, b⟩ := q
      simp only [List.cons_append, smartXf, Xf.apply, ih]

theorem smartXf_reverse_apply (axis : Nat) (r : K) (l : List (K × K)) (c : V3 K) :
    (smartXf axis r l.reverse).apply c = c.set axis (smartFn r l (c.get axis)) := by
  induction l generalizing c with
  | nil => simp [smartXf, Xf.apply, smartFn]
  | cons p rest ih =>
      simp only [List.reverse_cons, smartXf_append_apply, ih, Xf.squeezeApply_eq, V3.get_set, V3.set_set, smartFn]

theorem clampLen_low (a b v : K) (hab : a ≤ b) (hv : v ≤ a) : clampLen a b v = 0 := by
  unfold clampLen
  rcases hv.lt_or_eq with hlt | heq
  · simp [hlt]
  · subst heq
    simp [not_lt.mpr hab]

theorem smartFn_low (r : K) (hr : 0 ≤ r) (bd : K) (l : List (K × K)) (h : Asc bd l) (v : K) (hv : v ≤ bd) :
    smartFn r l v = v := by
  induction l generalizing bd with
  | nil => rfl
  | cons p rest ih =>
      obtain ⟨h1, h2, h3⟩ := h
      simp only [smartFn, ih p.2 h3 (le_trans hv (le_trans h1 h2))]
      rw [sq1_eq_clamp, clampLen_low _ _ _ h2 (le_trans hv h1)]
      ring

theorem smartFn_high (r : K) (hr : 0 ≤ r) (bd : K) (l : List (K × K)) (h : Asc bd l) (v : K) (hv : bd ≤ v) :
    bd ≤ smartFn r l v := by
  induction l generalizing bd v with
  | nil => exact hv
  | cons p rest ih =>
      obtain ⟨h1, h2, h3⟩ := h
      simp only [smartFn]
      rcases le_or_gt v p.2 with hle | hgt
      · rw [smartFn_low r hr p.2 rest h3 v hle]
        unfold sq1
        split_ifs with c1 c2
        · exact hv
        · exact absurd c2 (not_lt.mpr hle)
        · have : 0 ≤ (v - p.1) * r := mul_nonneg (sub_nonneg.mpr (not_lt.mp c1)) hr
          nlinarith
      · have hg := ih p.2 h3 v hgt.le
        unfold sq1
        have c1 : ¬ smartFn r rest v < p.1 := not_lt.mpr (le_trans h2 hg)
        simp only [c1, if_false]
        have : 0 ≤ (p.2 - p.1) * r := mul_nonneg (sub_nonneg.mpr h2) hr
        split_ifs with c2
        · nlinarith
        · have e : smartFn r rest v = p.2 := le_antisymm (not_lt.mp c2) hg
          rw [e]; nlinarith

theorem clampLen_of_le (a b v : K) (hab : a ≤ b) (hv : b ≤ v) : clampLen a b v = b - a := by
  unfold clampLen
  have c1 : ¬ v < a := not_lt.mpr (le_trans hab hv)
  simp only [c1, if_false]
  split_ifs with c2
  · rfl
  · have : v = b := le_antisymm (not_lt.mp c2) hv
    rw [this]

/-- **The formula**: `v ↦ v − (1 − ratio) · (total squeezed length below v)`. -/
theorem smartFn_formula (r : K) (hr : 0 ≤ r) (bd : K) (l : List (K × K)) (h : Asc bd l) (v : K) :
    smartFn r l v = v - (1 - r) * sumClamp l v := by
  induction l generalizing bd with
  | nil => simp [smartFn, sumClamp]
  | cons p rest ih =>
      obtain ⟨h1, h2, h3⟩ := h
      have e : clampLen p.1 p.2 (smartFn r rest v) = clampLen p.1 p.2 v := by
        rcases le_or_gt v p.2 with hle | hgt
        · rw [smartFn_low r hr p.2 rest h3 v hle]
        · rw [clampLen_of_le _ _ _ h2 (smartFn_high r hr p.2 rest h3 v hgt.le), clampLen_of_le _ _ _ h2 hgt.le]
      simp only [smartFn, sq1_eq_clamp, e]
      rw [ih p.2 h3]
      simp only [sumClamp, List.map_cons, List.sum_cons]
      ring

/-- two points between which no squeeze begins or ends see the same squeezed length, except inside one squeeze -/
theorem sumClamp_diff_outside (l : List (K × K)) (v w : K) (hvw : v ≤ w)
    (h : ∀ p ∈ l, p.1 ≤ p.2 ∧ (p.2 ≤ v ∨ w ≤ p.1)) : sumClamp l w = sumClamp l v := by
  induction l with
  | nil => rfl
  | cons p rest ih =>
      have hp := h p List.mem_cons_self
      have e : clampLen p.1 p.2 w = clampLen p.1 p.2 v := by
        rcases hp.2 with h1 | h1
        · rw [clampLen_of_le _ _ _ hp.1 h1, clampLen_of_le _ _ _ hp.1 (le_trans h1 hvw)]
        · rw [clampLen_low _ _ _ hp.1 h1, clampLen_low _ _ _ hp.1 (le_trans hvw h1)]
      simp only [sumClamp, List.map_cons, List.sum_cons, e]
      have := ih (fun q hq => h q (List.mem_cons_of_mem _ hq))
      simp only [sumClamp] at this
      rw [this]

theorem Asc.mem_bounds {bd : K} {l : List (K × K)} (h : Asc bd l) : ∀ p ∈ l, bd ≤ p.1 ∧ p.1 ≤ p.2 := by
  induction l generalizing bd with
  | nil => intro p hp; simp at hp
  | cons q rest ih =>
      intro p hp
      rcases List.mem_cons.mp hp with rfl | hp
      · exact ⟨h.1, h.2.1⟩
      · have := ih h.2.2 p hp
        exact ⟨le_trans h.1 (le_trans h.2.1 this.1), this.2⟩

/-- inside one squeeze of an ascending chain the squeezed length grows with `v`, all other terms are constant -/
theorem sumClamp_diff_inside (bd : K) (l : List (K × K)) (h : Asc bd l) (p : K × K) (hp : p ∈ l) (v w : K)
    (hv : p.1 ≤ v) (hvw : v ≤ w) (hw : w ≤ p.2) : sumClamp l w = sumClamp l v + (w - v) := by
  induction l generalizing bd with
  | nil => simp at hp
  | cons q rest ih =>
      obtain ⟨h1, h2, h3⟩ := h
      simp only [sumClamp, List.map_cons, List.sum_cons]
      rcases List.mem_cons.mp hp with rfl | hp'
      · -- the squeeze itself; the later ones start at or above `p.2 ≥ w`
        have e := sumClamp_diff_outside rest v w hvw (fun q hq => by
          have := h3.mem_bounds q hq
          exact ⟨this.2, Or.inr (le_trans hw this.1)⟩)
        simp only [sumClamp] at e
        rw [e]
        have cl : ∀ x, p.1 ≤ x → x ≤ p.2 → clampLen p.1 p.2 x = x - p.1 := by
          intro x hx1 hx2
          unfold clampLen
          simp [not_lt.mpr hx1, not_lt.mpr hx2]
        rw [cl w (le_trans hv hvw) hw, cl v hv (le_trans hvw hw)]
        ring
      · -- a later squeeze: `q` lies entirely below `v`
        have hb := h3.mem_bounds p hp'
        have e : clampLen q.1 q.2 w = clampLen q.1 q.2 v := by
          rw [clampLen_of_le _ _ _ h2 (le_trans hb.1 (le_trans hv hvw)), clampLen_of_le _ _ _ h2 (le_trans hb.1 hv)]
        have := ih q.2 h3 hp'
        simp only [sumClamp] at this
        rw [e, this]
        ring

end M3d.Tf
