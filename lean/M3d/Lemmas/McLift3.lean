import M3d.Lemmas.McLift2
/-!
The local→global lift for marching cubes, part 3 (conclusion): on every lattice whose outer layer
is outside, every directed mesh edge `U → V` occurs as often as `V → U`, and at most once.
Core-only.
-/
namespace M3d.Marching

/-- Contribution of cell `(x,y,z)` to the count of the directed edge `U → V`. -/
def T3 (table : List (List (List Nat))) (lab : Nat → Nat → Nat → Bool) (U V : GV) (x y z : Nat) : Nat :=
  ecnt (cellTris table lab x y z) (U, V)

/-- … summed over a row of cells along x … -/
def Fy (table : List (List (List Nat))) (lab : Nat → Nat → Nat → Bool) (nx : Nat) (U V : GV)
    (z y : Nat) : Nat := rsum nx fun x => T3 table lab U V x y z

/-- … and over a slab of cells. -/
def Fz (table : List (List (List Nat))) (lab : Nat → Nat → Nat → Bool) (nx ny : Nat) (U V : GV)
    (z : Nat) : Nat := rsum ny fun y => Fy table lab nx U V z y

theorem T3_eq (table : List (List (List Nat))) (lab : Nat → Nat → Nat → Bool) (U V : GV) (x y z : Nat) :
    T3 table lab U V x y z =
      if inBox x y z U ∧ inBox x y z V then lcnt (getRow table (cellCfg lab x y z)) (lcode x y z U V)
      else 0 := ecnt_cellTris table lab x y z U V

theorem T3_nax (table : List (List (List Nat))) (lab : Nat → Nat → Nat → Bool) (U V : GV) (x y z : Nat)
    (h : ¬ ax x U.1 V.1 ∨ ¬ ax y U.2.1 V.2.1 ∨ ¬ ax z U.2.2 V.2.2) : T3 table lab U V x y z = 0 := by
  rw [T3_eq, if_neg]
  intro hbx
  unfold inBox at hbx
  unfold ax at h
  omega

/-! ### matching faces of neighbouring cells, faces on the outer layer -/

theorem fbits_zero (k s cfg : Nat) (h : ∀ j, j < 4 → inside cfg (fcorner k s j) = false) :
    fbits k s cfg = 0 := by
  unfold fbits
  rw [h 0 (by omega), h 1 (by omega), h 2 (by omega), h 3 (by omega)]
  rfl

theorem fbits_congr (k s cfg k' s' cfg' : Nat)
    (h : ∀ j, j < 4 → inside cfg (fcorner k s j) = inside cfg' (fcorner k' s' j)) :
    fbits k s cfg = fbits k' s' cfg' := by
  unfold fbits
  rw [h 0 (by omega), h 1 (by omega), h 2 (by omega), h 3 (by omega)]

theorem fbits_pair_x (lab : Nat → Nat → Nat → Bool) (x y z : Nat) :
    fbits 0 1 (cellCfg lab x y z) = fbits 0 0 (cellCfg lab (x + 1) y z) := by
  apply fbits_congr
  intro j hj
  have hc : ∀ j, j < 4 → fcorner 0 1 j < 8 ∧ fcorner 0 0 j < 8 ∧
      cornerOff (fcorner 0 1 j) 0 = 1 ∧ cornerOff (fcorner 0 0 j) 0 = 0 ∧
      cornerOff (fcorner 0 1 j) 1 = cornerOff (fcorner 0 0 j) 1 ∧
      cornerOff (fcorner 0 1 j) 2 = cornerOff (fcorner 0 0 j) 2 := by decide
  obtain ⟨h1, h2, h3, h4, h5, h6⟩ := hc j hj
  rw [inside_cellCfg _ _ _ _ _ h1, inside_cellCfg _ _ _ _ _ h2, h3, h4, h5, h6]

theorem fbits_pair_y (lab : Nat → Nat → Nat → Bool) (x y z : Nat) :
    fbits 1 1 (cellCfg lab x y z) = fbits 1 0 (cellCfg lab x (y + 1) z) := by
  apply fbits_congr
  intro j hj
  have hc : ∀ j, j < 4 → fcorner 1 1 j < 8 ∧ fcorner 1 0 j < 8 ∧
      cornerOff (fcorner 1 1 j) 1 = 1 ∧ cornerOff (fcorner 1 0 j) 1 = 0 ∧
      cornerOff (fcorner 1 1 j) 0 = cornerOff (fcorner 1 0 j) 0 ∧
      cornerOff (fcorner 1 1 j) 2 = cornerOff (fcorner 1 0 j) 2 := by decide
  obtain ⟨h1, h2, h3, h4, h5, h6⟩ := hc j hj
  rw [inside_cellCfg _ _ _ _ _ h1, inside_cellCfg _ _ _ _ _ h2, h3, h4, h5, h6]

theorem fbits_pair_z (lab : Nat → Nat → Nat → Bool) (x y z : Nat) :
    fbits 2 1 (cellCfg lab x y z) = fbits 2 0 (cellCfg lab x y (z + 1)) := by
  apply fbits_congr
  intro j hj
  have hc : ∀ j, j < 4 → fcorner 2 1 j < 8 ∧ fcorner 2 0 j < 8 ∧
      cornerOff (fcorner 2 1 j) 2 = 1 ∧ cornerOff (fcorner 2 0 j) 2 = 0 ∧
      cornerOff (fcorner 2 1 j) 0 = cornerOff (fcorner 2 0 j) 0 ∧
      cornerOff (fcorner 2 1 j) 1 = cornerOff (fcorner 2 0 j) 1 := by decide
  obtain ⟨h1, h2, h3, h4, h5, h6⟩ := hc j hj
  rw [inside_cellCfg _ _ _ _ _ h1, inside_cellCfg _ _ _ _ _ h2, h3, h4, h5, h6]

section
variable {table : List (List (List Nat))} (hok : mcLocalOk table = true)
variable (nx ny nz : Nat) (lab : Nat → Nat → Nat → Bool)
variable (hb : ∀ x y z, (x = 0 ∨ y = 0 ∨ z = 0 ∨ nx ≤ x ∨ ny ≤ y ∨ nz ≤ z) → lab x y z = false)

include hb in
theorem fbits_border_x (y z : Nat) : fbits 0 0 (cellCfg lab 0 y z) = 0 := by
  apply fbits_zero
  intro j hj
  have hc : ∀ j, j < 4 → fcorner 0 0 j < 8 ∧ cornerOff (fcorner 0 0 j) 0 = 0 := by decide
  rw [inside_cellCfg _ _ _ _ _ (hc j hj).1, (hc j hj).2]
  exact hb _ _ _ (Or.inl rfl)

include hb in
theorem fbits_border_y (x z : Nat) : fbits 1 0 (cellCfg lab x 0 z) = 0 := by
  apply fbits_zero
  intro j hj
  have hc : ∀ j, j < 4 → fcorner 1 0 j < 8 ∧ cornerOff (fcorner 1 0 j) 1 = 0 := by decide
  rw [inside_cellCfg _ _ _ _ _ (hc j hj).1, (hc j hj).2]
  exact hb _ _ _ (Or.inr (Or.inl rfl))

include hb in
theorem fbits_border_z (x y : Nat) : fbits 2 0 (cellCfg lab x y 0) = 0 := by
  apply fbits_zero
  intro j hj
  have hc : ∀ j, j < 4 → fcorner 2 0 j < 8 ∧ cornerOff (fcorner 2 0 j) 2 = 0 := by decide
  rw [inside_cellCfg _ _ _ _ _ (hc j hj).1, (hc j hj).2]
  exact hb _ _ _ (Or.inr (Or.inr (Or.inl rfl)))

include hok hb in
/-- Cells beyond the lattice are all-outside and contribute nothing. -/
theorem T3_out (U V : GV) (x y z : Nat) (h : nx ≤ x ∨ ny ≤ y ∨ nz ≤ z) :
    T3 table lab U V x y z = 0 := by
  have h0 : cellCfg lab x y z = 0 := by
    apply cellCfg_zero
    intro c _
    apply hb
    omega
  unfold T3 cellTris
  rw [h0, ok_row0 hok]
  rfl

/-! ### the triple sum, level by level -/

include hok hb in
theorem Fy_eq (U1 U2 U3 V1 V2 V3 z y : Nat) :
    Fy table lab nx (U1, U2, U3) (V1, V2, V3) z y =
      T3 table lab (U1, U2, U3) (V1, V2, V3) (hi U1 V1) y z +
      (if und U1 V1 then T3 table lab (U1, U2, U3) (V1, V2, V3) (hi U1 V1 - 1) y z else 0) :=
  rsum_lvl nx U1 V1 (fun x => T3 table lab (U1, U2, U3) (V1, V2, V3) x y z)
    (fun c hc => T3_nax table lab _ _ c y z (Or.inl hc))
    (fun c hc => T3_out hok nx ny nz lab hb _ _ c y z (Or.inl hc))

include hok hb in
theorem Fz_eq (U1 U2 U3 V1 V2 V3 z : Nat) :
    Fz table lab nx ny (U1, U2, U3) (V1, V2, V3) z =
      Fy table lab nx (U1, U2, U3) (V1, V2, V3) z (hi U2 V2) +
      (if und U2 V2 then Fy table lab nx (U1, U2, U3) (V1, V2, V3) z (hi U2 V2 - 1) else 0) :=
  rsum_lvl ny U2 V2 (fun y => Fy table lab nx (U1, U2, U3) (V1, V2, V3) z y)
    (fun c hc => rsum_zero_of _ _ fun x _ => T3_nax table lab _ _ x c z (Or.inr (Or.inl hc)))
    (fun c hc => rsum_zero_of _ _ fun x _ => T3_out hok nx ny nz lab hb _ _ x c z (Or.inr (Or.inl hc)))

include hok hb in
theorem S_eq (U1 U2 U3 V1 V2 V3 : Nat) :
    ecnt (mcMesh table nx ny nz lab) ((U1, U2, U3), (V1, V2, V3)) =
      Fz table lab nx ny (U1, U2, U3) (V1, V2, V3) (hi U3 V3) +
      (if und U3 V3 then Fz table lab nx ny (U1, U2, U3) (V1, V2, V3) (hi U3 V3 - 1) else 0) := by
  rw [ecnt_mcMesh]
  exact rsum_lvl nz U3 V3 (fun z => Fz table lab nx ny (U1, U2, U3) (V1, V2, V3) z)
    (fun c hc => rsum_zero_of _ _ fun y _ => rsum_zero_of _ _ fun x _ =>
      T3_nax table lab _ _ x y c (Or.inr (Or.inr hc)))
    (fun c hc => rsum_zero_of _ _ fun y _ => rsum_zero_of _ _ fun x _ =>
      T3_out hok nx ny nz lab hb _ _ x y c (Or.inr (Or.inr hc)))

theorem S_zero (U V : GV) (h : ∀ x y z, T3 table lab U V x y z = 0) :
    ecnt (mcMesh table nx ny nz lab) (U, V) = 0 := by
  rw [ecnt_mcMesh]
  exact rsum_zero_of _ _ fun z _ => rsum_zero_of _ _ fun y _ => rsum_zero_of _ _ fun x _ => h x y z

/-! ### degenerate pairs: on a common lattice line, or in a plane of the outer layer -/

include hok in
/-- `U` and `V` agree in two even coordinates (they lie on one lattice line): no cell has such an edge. -/
theorem T3_two (U1 U2 U3 V1 V2 V3 x y z : Nat)
    (h : (U1 = V1 ∧ U1 % 2 = 0 ∧ U2 = V2 ∧ U2 % 2 = 0) ∨ (U1 = V1 ∧ U1 % 2 = 0 ∧ U3 = V3 ∧ U3 % 2 = 0) ∨
      (U2 = V2 ∧ U2 % 2 = 0 ∧ U3 = V3 ∧ U3 % 2 = 0)) :
    T3 table lab (U1, U2, U3) (V1, V2, V3) x y z = 0 := by
  rw [T3_eq]
  by_cases hbx : inBox x y z (U1, U2, U3) ∧ inBox x y z (V1, V2, V3)
  · rw [if_pos hbx]
    unfold inBox at hbx
    dsimp only at hbx
    apply Decidable.byContradiction
    intro hne
    have := ok_mid hok (cellCfg lab x y z) (cellCfg_lt lab x y z)
      (U1 - 2 * x) (U2 - 2 * y) (U3 - 2 * z) (V1 - 2 * x) (V2 - 2 * y) (V3 - 2 * z)
      (by omega) (by omega) (by omega) (by omega) (by omega) (by omega) hne
    omega
  · rw [if_neg hbx]

include hok hb in
/-- `U` and `V` both lie in a coordinate plane `= 0` (the outer layer): nothing is drawn there. -/
theorem T3_b0 (U1 U2 U3 V1 V2 V3 x y z : Nat)
    (h : (U1 = 0 ∧ V1 = 0) ∨ (U2 = 0 ∧ V2 = 0) ∨ (U3 = 0 ∧ V3 = 0)) :
    T3 table lab (U1, U2, U3) (V1, V2, V3) x y z = 0 := by
  rw [T3_eq]
  by_cases hbx : inBox x y z (U1, U2, U3) ∧ inBox x y z (V1, V2, V3)
  · rw [if_pos hbx]
    unfold inBox at hbx
    dsimp only at hbx
    rcases h with h | h | h
    · have hx : x = 0 := by omega
      subst hx
      have e : lcode 0 y z (U1, U2, U3) (V1, V2, V3) =
          fcode 0 0 (U2 - 2 * y) (U3 - 2 * z) (V2 - 2 * y) (V3 - 2 * z) := by
        unfold lcode fcode fpos
        dsimp only
        rw [h.1, h.2]
        rfl
      rw [e]
      exact ok_border hok _ 0 0 (cellCfg_lt lab 0 y z) (by omega) (by omega)
        (fbits_border_x nx ny nz lab hb y z) _ _ _ _ (by omega) (by omega) (by omega) (by omega)
    · have hy : y = 0 := by omega
      subst hy
      have e : lcode x 0 z (U1, U2, U3) (V1, V2, V3) =
          fcode 1 0 (U1 - 2 * x) (U3 - 2 * z) (V1 - 2 * x) (V3 - 2 * z) := by
        unfold lcode fcode fpos
        dsimp only
        rw [h.1, h.2]
        rfl
      rw [e]
      exact ok_border hok _ 1 0 (cellCfg_lt lab x 0 z) (by omega) (by omega)
        (fbits_border_y nx ny nz lab hb x z) _ _ _ _ (by omega) (by omega) (by omega) (by omega)
    · have hz : z = 0 := by omega
      subst hz
      have e : lcode x y 0 (U1, U2, U3) (V1, V2, V3) =
          fcode 2 0 (U1 - 2 * x) (U2 - 2 * y) (V1 - 2 * x) (V2 - 2 * y) := by
        unfold lcode fcode fpos
        dsimp only
        rw [h.1, h.2]
        rfl
      rw [e]
      exact ok_border hok _ 2 0 (cellCfg_lt lab x y 0) (by omega) (by omega)
        (fbits_border_z nx ny nz lab hb x y) _ _ _ _ (by omega) (by omega) (by omega) (by omega)
  · rw [if_neg hbx]

/-! ### the generic cases: one cell (interior edge), two cells across a lattice face -/

include hok in
/-- `U`, `V` share no even coordinate: inside any one cell the edge is matched by its reverse. -/
theorem cell_int (U1 U2 U3 V1 V2 V3 x y z : Nat)
    (e1 : ¬ (U1 = V1 ∧ U1 % 2 = 0)) (e2 : ¬ (U2 = V2 ∧ U2 % 2 = 0)) (e3 : ¬ (U3 = V3 ∧ U3 % 2 = 0)) :
    T3 table lab (U1, U2, U3) (V1, V2, V3) x y z = T3 table lab (V1, V2, V3) (U1, U2, U3) x y z ∧
    T3 table lab (U1, U2, U3) (V1, V2, V3) x y z ≤ 1 := by
  rw [T3_eq, T3_eq]
  by_cases hbx : inBox x y z (U1, U2, U3) ∧ inBox x y z (V1, V2, V3)
  · rw [if_pos hbx, if_pos ⟨hbx.2, hbx.1⟩]
    unfold inBox at hbx
    dsimp only at hbx
    exact ok_interior hok (cellCfg lab x y z) (cellCfg_lt lab x y z)
      (U1 - 2 * x) (U2 - 2 * y) (U3 - 2 * z) (V1 - 2 * x) (V2 - 2 * y) (V3 - 2 * z)
      (by omega) (by omega) (by omega) (by omega) (by omega) (by omega)
      (by omega) (by omega) (by omega)
  · rw [if_neg hbx, if_neg (fun h => hbx ⟨h.2, h.1⟩)]
    exact ⟨rfl, Nat.zero_le _⟩

include hok in
/-- `U`, `V` lie in the lattice plane `x = a+1`: cells `(a,y,z)` and `(a+1,y,z)` cancel. -/
theorem cell_pair_x (U2 U3 V2 V3 a y z : Nat) :
    T3 table lab (2 * (a + 1), U2, U3) (2 * (a + 1), V2, V3) (a + 1) y z +
      T3 table lab (2 * (a + 1), U2, U3) (2 * (a + 1), V2, V3) a y z =
    T3 table lab (2 * (a + 1), V2, V3) (2 * (a + 1), U2, U3) (a + 1) y z +
      T3 table lab (2 * (a + 1), V2, V3) (2 * (a + 1), U2, U3) a y z ∧
    T3 table lab (2 * (a + 1), U2, U3) (2 * (a + 1), V2, V3) (a + 1) y z +
      T3 table lab (2 * (a + 1), U2, U3) (2 * (a + 1), V2, V3) a y z ≤ 1 := by
  rw [T3_eq, T3_eq, T3_eq, T3_eq]
  by_cases hyz : (2 * y ≤ U2 ∧ U2 ≤ 2 * y + 2 ∧ 2 * z ≤ U3 ∧ U3 ≤ 2 * z + 2) ∧
      (2 * y ≤ V2 ∧ V2 ≤ 2 * y + 2 ∧ 2 * z ≤ V3 ∧ V3 ≤ 2 * z + 2)
  · have b1 : inBox (a + 1) y z (2 * (a + 1), U2, U3) := by unfold inBox; dsimp only; omega
    have b2 : inBox (a + 1) y z (2 * (a + 1), V2, V3) := by unfold inBox; dsimp only; omega
    have b3 : inBox a y z (2 * (a + 1), U2, U3) := by unfold inBox; dsimp only; omega
    have b4 : inBox a y z (2 * (a + 1), V2, V3) := by unfold inBox; dsimp only; omega
    rw [if_pos ⟨b1, b2⟩, if_pos ⟨b3, b4⟩, if_pos ⟨b2, b1⟩, if_pos ⟨b4, b3⟩]
    have s0 : 2 * (a + 1) - 2 * (a + 1) = 2 * 0 := by omega
    have s1 : 2 * (a + 1) - 2 * a = 2 * 1 := by omega
    have c0 : ∀ P2 P3 Q2 Q3 : Nat, lcode (a + 1) y z (2 * (a + 1), P2, P3) (2 * (a + 1), Q2, Q3) =
        fcode 0 0 (P2 - 2 * y) (P3 - 2 * z) (Q2 - 2 * y) (Q3 - 2 * z) := by
      intro P2 P3 Q2 Q3; unfold lcode fcode fpos; dsimp only; rw [s0]; rfl
    have c1 : ∀ P2 P3 Q2 Q3 : Nat, lcode a y z (2 * (a + 1), P2, P3) (2 * (a + 1), Q2, Q3) =
        fcode 0 1 (P2 - 2 * y) (P3 - 2 * z) (Q2 - 2 * y) (Q3 - 2 * z) := by
      intro P2 P3 Q2 Q3; unfold lcode fcode fpos; dsimp only; rw [s1]; rfl
    rw [c0, c0, c1, c1]
    have := ok_pair hok (cellCfg lab a y z) (cellCfg lab (a + 1) y z) 0 (cellCfg_lt _ _ _ _)
      (cellCfg_lt _ _ _ _) (by omega) (fbits_pair_x lab a y z)
      (U2 - 2 * y) (U3 - 2 * z) (V2 - 2 * y) (V3 - 2 * z) (by omega) (by omega) (by omega) (by omega)
    omega
  · have n1 : ¬ (inBox (a + 1) y z (2 * (a + 1), U2, U3) ∧ inBox (a + 1) y z (2 * (a + 1), V2, V3)) := by
      unfold inBox; dsimp only; omega
    have n2 : ¬ (inBox a y z (2 * (a + 1), U2, U3) ∧ inBox a y z (2 * (a + 1), V2, V3)) := by
      unfold inBox; dsimp only; omega
    rw [if_neg n1, if_neg n2, if_neg (fun h => n1 ⟨h.2, h.1⟩), if_neg (fun h => n2 ⟨h.2, h.1⟩)]
    exact ⟨rfl, Nat.zero_le _⟩

include hok in
/-- `U`, `V` lie in the lattice plane `y = a+1`: cells `(x,a,z)` and `(x,a+1,z)` cancel. -/
theorem cell_pair_y (U1 U3 V1 V3 x a z : Nat) :
    T3 table lab (U1, 2 * (a + 1), U3) (V1, 2 * (a + 1), V3) x (a + 1) z +
      T3 table lab (U1, 2 * (a + 1), U3) (V1, 2 * (a + 1), V3) x a z =
    T3 table lab (V1, 2 * (a + 1), V3) (U1, 2 * (a + 1), U3) x (a + 1) z +
      T3 table lab (V1, 2 * (a + 1), V3) (U1, 2 * (a + 1), U3) x a z ∧
    T3 table lab (U1, 2 * (a + 1), U3) (V1, 2 * (a + 1), V3) x (a + 1) z +
      T3 table lab (U1, 2 * (a + 1), U3) (V1, 2 * (a + 1), V3) x a z ≤ 1 := by
  rw [T3_eq, T3_eq, T3_eq, T3_eq]
  by_cases hyz : (2 * x ≤ U1 ∧ U1 ≤ 2 * x + 2 ∧ 2 * z ≤ U3 ∧ U3 ≤ 2 * z + 2) ∧
      (2 * x ≤ V1 ∧ V1 ≤ 2 * x + 2 ∧ 2 * z ≤ V3 ∧ V3 ≤ 2 * z + 2)
  · have b1 : inBox x (a + 1) z (U1, 2 * (a + 1), U3) := by unfold inBox; dsimp only; omega
    have b2 : inBox x (a + 1) z (V1, 2 * (a + 1), V3) := by unfold inBox; dsimp only; omega
    have b3 : inBox x a z (U1, 2 * (a + 1), U3) := by unfold inBox; dsimp only; omega
    have b4 : inBox x a z (V1, 2 * (a + 1), V3) := by unfold inBox; dsimp only; omega
    rw [if_pos ⟨b1, b2⟩, if_pos ⟨b3, b4⟩, if_pos ⟨b2, b1⟩, if_pos ⟨b4, b3⟩]
    have s0 : 2 * (a + 1) - 2 * (a + 1) = 2 * 0 := by omega
    have s1 : 2 * (a + 1) - 2 * a = 2 * 1 := by omega
    have c0 : ∀ P1 P3 Q1 Q3 : Nat, lcode x (a + 1) z (P1, 2 * (a + 1), P3) (Q1, 2 * (a + 1), Q3) =
        fcode 1 0 (P1 - 2 * x) (P3 - 2 * z) (Q1 - 2 * x) (Q3 - 2 * z) := by
      intro P1 P3 Q1 Q3; unfold lcode fcode fpos; dsimp only; rw [s0]; rfl
    have c1 : ∀ P1 P3 Q1 Q3 : Nat, lcode x a z (P1, 2 * (a + 1), P3) (Q1, 2 * (a + 1), Q3) =
        fcode 1 1 (P1 - 2 * x) (P3 - 2 * z) (Q1 - 2 * x) (Q3 - 2 * z) := by
      intro P1 P3 Q1 Q3; unfold lcode fcode fpos; dsimp only; rw [s1]; rfl
    rw [c0, c0, c1, c1]
    have := ok_pair hok (cellCfg lab x a z) (cellCfg lab x (a + 1) z) 1 (cellCfg_lt _ _ _ _)
      (cellCfg_lt _ _ _ _) (by omega) (fbits_pair_y lab x a z)
      (U1 - 2 * x) (U3 - 2 * z) (V1 - 2 * x) (V3 - 2 * z) (by omega) (by omega) (by omega) (by omega)
    omega
  · have n1 : ¬ (inBox x (a + 1) z (U1, 2 * (a + 1), U3) ∧ inBox x (a + 1) z (V1, 2 * (a + 1), V3)) := by
      unfold inBox; dsimp only; omega
    have n2 : ¬ (inBox x a z (U1, 2 * (a + 1), U3) ∧ inBox x a z (V1, 2 * (a + 1), V3)) := by
      unfold inBox; dsimp only; omega
    rw [if_neg n1, if_neg n2, if_neg (fun h => n1 ⟨h.2, h.1⟩), if_neg (fun h => n2 ⟨h.2, h.1⟩)]
    exact ⟨rfl, Nat.zero_le _⟩

include hok in
/-- `U`, `V` lie in the lattice plane `z = a+1`: cells `(x,y,a)` and `(x,y,a+1)` cancel. -/
theorem cell_pair_z (U1 U2 V1 V2 x y a : Nat) :
    T3 table lab (U1, U2, 2 * (a + 1)) (V1, V2, 2 * (a + 1)) x y (a + 1) +
      T3 table lab (U1, U2, 2 * (a + 1)) (V1, V2, 2 * (a + 1)) x y a =
    T3 table lab (V1, V2, 2 * (a + 1)) (U1, U2, 2 * (a + 1)) x y (a + 1) +
      T3 table lab (V1, V2, 2 * (a + 1)) (U1, U2, 2 * (a + 1)) x y a ∧
    T3 table lab (U1, U2, 2 * (a + 1)) (V1, V2, 2 * (a + 1)) x y (a + 1) +
      T3 table lab (U1, U2, 2 * (a + 1)) (V1, V2, 2 * (a + 1)) x y a ≤ 1 := by
  rw [T3_eq, T3_eq, T3_eq, T3_eq]
  by_cases hyz : (2 * x ≤ U1 ∧ U1 ≤ 2 * x + 2 ∧ 2 * y ≤ U2 ∧ U2 ≤ 2 * y + 2) ∧
      (2 * x ≤ V1 ∧ V1 ≤ 2 * x + 2 ∧ 2 * y ≤ V2 ∧ V2 ≤ 2 * y + 2)
  · have b1 : inBox x y (a + 1) (U1, U2, 2 * (a + 1)) := by unfold inBox; dsimp only; omega
    have b2 : inBox x y (a + 1) (V1, V2, 2 * (a + 1)) := by unfold inBox; dsimp only; omega
    have b3 : inBox x y a (U1, U2, 2 * (a + 1)) := by unfold inBox; dsimp only; omega
    have b4 : inBox x y a (V1, V2, 2 * (a + 1)) := by unfold inBox; dsimp only; omega
    rw [if_pos ⟨b1, b2⟩, if_pos ⟨b3, b4⟩, if_pos ⟨b2, b1⟩, if_pos ⟨b4, b3⟩]
    have s0 : 2 * (a + 1) - 2 * (a + 1) = 2 * 0 := by omega
    have s1 : 2 * (a + 1) - 2 * a = 2 * 1 := by omega
    have c0 : ∀ P1 P2 Q1 Q2 : Nat, lcode x y (a + 1) (P1, P2, 2 * (a + 1)) (Q1, Q2, 2 * (a + 1)) =
        fcode 2 0 (P1 - 2 * x) (P2 - 2 * y) (Q1 - 2 * x) (Q2 - 2 * y) := by
      intro P1 P2 Q1 Q2; unfold lcode fcode fpos; dsimp only; rw [s0]; rfl
    have c1 : ∀ P1 P2 Q1 Q2 : Nat, lcode x y a (P1, P2, 2 * (a + 1)) (Q1, Q2, 2 * (a + 1)) =
        fcode 2 1 (P1 - 2 * x) (P2 - 2 * y) (Q1 - 2 * x) (Q2 - 2 * y) := by
      intro P1 P2 Q1 Q2; unfold lcode fcode fpos; dsimp only; rw [s1]; rfl
    rw [c0, c0, c1, c1]
    have := ok_pair hok (cellCfg lab x y a) (cellCfg lab x y (a + 1)) 2 (cellCfg_lt _ _ _ _)
      (cellCfg_lt _ _ _ _) (by omega) (fbits_pair_z lab x y a)
      (U1 - 2 * x) (U2 - 2 * y) (V1 - 2 * x) (V2 - 2 * y) (by omega) (by omega) (by omega) (by omega)
    omega
  · have n1 : ¬ (inBox x y (a + 1) (U1, U2, 2 * (a + 1)) ∧ inBox x y (a + 1) (V1, V2, 2 * (a + 1))) := by
      unfold inBox; dsimp only; omega
    have n2 : ¬ (inBox x y a (U1, U2, 2 * (a + 1)) ∧ inBox x y a (V1, V2, 2 * (a + 1))) := by
      unfold inBox; dsimp only; omega
    rw [if_neg n1, if_neg n2, if_neg (fun h => n1 ⟨h.2, h.1⟩), if_neg (fun h => n2 ⟨h.2, h.1⟩)]
    exact ⟨rfl, Nat.zero_le _⟩

/-! ### the theorem -/

include hok hb in
/-- **Every directed edge of the marching-cubes mesh is matched, on every lattice**: for every
lattice size and every labelling with an empty outer layer, the number of triangle sides running
`U → V` equals the number running `V → U`, and is at most one. -/
theorem mc_edges_balanced (U V : GV) :
    ecnt (mcMesh table nx ny nz lab) (U, V) = ecnt (mcMesh table nx ny nz lab) (V, U) ∧
    ecnt (mcMesh table nx ny nz lab) (U, V) ≤ 1 := by
  obtain ⟨U1, U2, U3⟩ := U
  obtain ⟨V1, V2, V3⟩ := V
  -- U, V on a common lattice line: no such edge anywhere
  by_cases h2 : (U1 = V1 ∧ U1 % 2 = 0 ∧ U2 = V2 ∧ U2 % 2 = 0) ∨
      (U1 = V1 ∧ U1 % 2 = 0 ∧ U3 = V3 ∧ U3 % 2 = 0) ∨ (U2 = V2 ∧ U2 % 2 = 0 ∧ U3 = V3 ∧ U3 % 2 = 0)
  · rw [S_zero nx ny nz lab _ _ (fun x y z => T3_two hok lab _ _ _ _ _ _ x y z h2),
      S_zero nx ny nz lab _ _ (fun x y z => T3_two hok lab _ _ _ _ _ _ x y z (by omega))]
    exact ⟨rfl, Nat.zero_le _⟩
  -- U, V in a plane of the outer layer
  by_cases h0 : (U1 = 0 ∧ V1 = 0) ∨ (U2 = 0 ∧ V2 = 0) ∨ (U3 = 0 ∧ V3 = 0)
  · rw [S_zero nx ny nz lab _ _ (fun x y z => T3_b0 hok nx ny nz lab hb _ _ _ _ _ _ x y z h0),
      S_zero nx ny nz lab _ _ (fun x y z => T3_b0 hok nx ny nz lab hb _ _ _ _ _ _ x y z (by omega))]
    exact ⟨rfl, Nat.zero_le _⟩
  have hhi : ∀ a : Nat, hi (2 * (a + 1)) (2 * (a + 1)) = a + 1 := by
    intro a; unfold hi; simp
  by_cases e1 : U1 = V1 ∧ U1 % 2 = 0
  · -- a common lattice plane x = const
    obtain ⟨a, ha⟩ : ∃ a, U1 = 2 * (a + 1) := ⟨U1 / 2 - 1, by omega⟩
    have hv : V1 = 2 * (a + 1) := by omega
    subst ha hv
    have u1 : und (2 * (a + 1)) (2 * (a + 1)) := ⟨rfl, by omega, by omega⟩
    have u2 : ¬ und U2 V2 := by unfold und; omega
    have u2' : ¬ und V2 U2 := by unfold und; omega
    have u3 : ¬ und U3 V3 := by unfold und; omega
    have u3' : ¬ und V3 U3 := by unfold und; omega
    rw [S_eq hok nx ny nz lab hb, S_eq hok nx ny nz lab hb]
    simp only [Fz_eq hok nx ny nz lab hb, Fy_eq hok nx ny nz lab hb, if_pos u1, if_neg u2, if_neg u2',
      if_neg u3, if_neg u3', Nat.add_zero]
    rw [hi_comm V2 U2, hi_comm V3 U3, hhi, Nat.add_sub_cancel]
    exact cell_pair_x hok lab U2 U3 V2 V3 a (hi U2 V2) (hi U3 V3)
  by_cases e2 : U2 = V2 ∧ U2 % 2 = 0
  · obtain ⟨a, ha⟩ : ∃ a, U2 = 2 * (a + 1) := ⟨U2 / 2 - 1, by omega⟩
    have hv : V2 = 2 * (a + 1) := by omega
    subst ha hv
    have u2 : und (2 * (a + 1)) (2 * (a + 1)) := ⟨rfl, by omega, by omega⟩
    have u1 : ¬ und U1 V1 := by unfold und; omega
    have u1' : ¬ und V1 U1 := by unfold und; omega
    have u3 : ¬ und U3 V3 := by unfold und; omega
    have u3' : ¬ und V3 U3 := by unfold und; omega
    rw [S_eq hok nx ny nz lab hb, S_eq hok nx ny nz lab hb]
    simp only [Fz_eq hok nx ny nz lab hb, Fy_eq hok nx ny nz lab hb, if_pos u2, if_neg u1, if_neg u1',
      if_neg u3, if_neg u3', Nat.add_zero]
    rw [hi_comm V1 U1, hi_comm V3 U3, hhi, Nat.add_sub_cancel]
    exact cell_pair_y hok lab U1 U3 V1 V3 (hi U1 V1) a (hi U3 V3)
  by_cases e3 : U3 = V3 ∧ U3 % 2 = 0
  · obtain ⟨a, ha⟩ : ∃ a, U3 = 2 * (a + 1) := ⟨U3 / 2 - 1, by omega⟩
    have hv : V3 = 2 * (a + 1) := by omega
    subst ha hv
    have u3 : und (2 * (a + 1)) (2 * (a + 1)) := ⟨rfl, by omega, by omega⟩
    have u1 : ¬ und U1 V1 := by unfold und; omega
    have u1' : ¬ und V1 U1 := by unfold und; omega
    have u2 : ¬ und U2 V2 := by unfold und; omega
    have u2' : ¬ und V2 U2 := by unfold und; omega
    rw [S_eq hok nx ny nz lab hb, S_eq hok nx ny nz lab hb]
    simp only [Fz_eq hok nx ny nz lab hb, Fy_eq hok nx ny nz lab hb, if_pos u3, if_neg u1, if_neg u1',
      if_neg u2, if_neg u2', Nat.add_zero]
    rw [hi_comm V1 U1, hi_comm V2 U2, hhi, Nat.add_sub_cancel]
    exact cell_pair_z hok lab U1 U2 V1 V2 (hi U1 V1) (hi U2 V2) a
  · -- no shared even coordinate: a single cell
    have u1 : ¬ und U1 V1 := by unfold und; omega
    have u1' : ¬ und V1 U1 := by unfold und; omega
    have u2 : ¬ und U2 V2 := by unfold und; omega
    have u2' : ¬ und V2 U2 := by unfold und; omega
    have u3 : ¬ und U3 V3 := by unfold und; omega
    have u3' : ¬ und V3 U3 := by unfold und; omega
    rw [S_eq hok nx ny nz lab hb, S_eq hok nx ny nz lab hb]
    simp only [Fz_eq hok nx ny nz lab hb, Fy_eq hok nx ny nz lab hb, if_neg u1, if_neg u1', if_neg u2,
      if_neg u2', if_neg u3, if_neg u3', Nat.add_zero]
    rw [hi_comm V1 U1, hi_comm V2 U2, hi_comm V3 U3]
    exact cell_int hok lab U1 U2 U3 V1 V2 V3 (hi U1 V1) (hi U2 V2) (hi U3 V3) e1 e2 e3

end

end M3d.Marching
