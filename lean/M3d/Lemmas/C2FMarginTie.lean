import M3d.Gen.C2FMargin
import Mathlib.Tactic.Linarith
import Mathlib.Tactic.Positivity
import Mathlib.Algebra.Order.Field.Basic
/-!
# Tie of the coarse-to-fine margins to the source (property C12)

`M3d/Gen/C2FMargin.lean` is REGENERATED on every check (go/ast over `MarchingSquaresC2F` in
model2d/marching.go and `MarchingCubesC2F` in model3d/mc.go): it holds the literal expression the
code adds to `extraSpace` before expanding the fine blocks' bounds.  The theorems below re-prove,
against the current text, that this amount is at least **two coarse spacings** — the margin
`(R + m)·δ` that `M3d.C12.c2f_ms_sound / c2f_mc_sound` need for the reach `R = m` (one coarse cell)
used by the C12 correspondence.  An edit of the margin that drops below `2·bigDelta`
(`bigDelta·√2`, `bigDelta·√3`, `1.5·bigDelta`, no margin, …) breaks these proofs.

`math.Sqrt` is an uninterpreted function with the two facts used: `sqrt x · sqrt x = x` and
`0 ≤ sqrt x` for `0 ≤ x`.
-/
namespace M3d.C2FMarginTie
open M3d.GenPrelude M3d.Gen.C2FMargin

variable {K : Type} [Field K] [LinearOrder K] [IsStrictOrderedRing K]

/-- `MarchingSquaresC2F`: for `bigDelta ≥ 0` the amount added to `extraSpace` is at least
`2·bigDelta`, whatever `smallDelta` and the caller's `extraSpace` are. -/
theorem ms_margin_ge_two_coarse (sq : K → K)
    (hsq : ∀ x : K, 0 ≤ x → sq x * sq x = x ∧ 0 ≤ sq x) (bigDelta smallDelta extraSpace : K)
    (hΔ : 0 ≤ bigDelta) :
    (letI : HasSqrt K := ⟨sq⟩; 2 * bigDelta ≤ msMargin bigDelta smallDelta extraSpace) := by
  obtain ⟨h3, h3p⟩ := hsq 3 (by norm_num)
  have h1 : 1 ≤ sq 3 := by nlinarith
  simp only [msMargin]
  nlinarith [mul_nonneg hΔ (sub_nonneg.2 h1)]

/-- `MarchingCubesC2F`: the same. -/
theorem mc_margin_ge_two_coarse (sq : K → K)
    (hsq : ∀ x : K, 0 ≤ x → sq x * sq x = x ∧ 0 ≤ sq x) (bigDelta smallDelta extraSpace : K)
    (hΔ : 0 ≤ bigDelta) :
    (letI : HasSqrt K := ⟨sq⟩; 2 * bigDelta ≤ mcMargin bigDelta smallDelta extraSpace) := by
  obtain ⟨h3, h3p⟩ := hsq 3 (by norm_num)
  have h1 : 1 ≤ sq 3 := by nlinarith
  simp only [mcMargin]
  nlinarith [mul_nonneg hΔ (sub_nonneg.2 h1)]

/-- In the units of the covering theorems: with `bigDelta = m·δ` and a caller's `extraSpace ≥ 0`, the
total expansion `extraSpace + margin` is at least `(R + m)·δ` for the reach `R = m`. -/
theorem ms_total_margin_covers (sq : K → K)
    (hsq : ∀ x : K, 0 ≤ x → sq x * sq x = x ∧ 0 ≤ sq x) (m : Nat) (δ extraSpace : K)
    (hδ : 0 ≤ δ) (he : 0 ≤ extraSpace) :
    (letI : HasSqrt K := ⟨sq⟩;
      (((m : Nat) : K) + m) * δ ≤ extraSpace + msMargin ((m : K) * δ) δ extraSpace) := by
  have h := ms_margin_ge_two_coarse sq hsq ((m : K) * δ) δ extraSpace (by positivity)
  change 2 * ((m : K) * δ) ≤ _ at h
  change _ ≤ extraSpace + _
  linarith

theorem mc_total_margin_covers (sq : K → K)
    (hsq : ∀ x : K, 0 ≤ x → sq x * sq x = x ∧ 0 ≤ sq x) (m : Nat) (δ extraSpace : K)
    (hδ : 0 ≤ δ) (he : 0 ≤ extraSpace) :
    (letI : HasSqrt K := ⟨sq⟩;
      (((m : Nat) : K) + m) * δ ≤ extraSpace + mcMargin ((m : K) * δ) δ extraSpace) := by
  have h := mc_margin_ge_two_coarse sq hsq ((m : K) * δ) δ extraSpace (by positivity)
  change 2 * ((m : K) * δ) ≤ _ at h
  change _ ≤ extraSpace + _
  linarith

end M3d.C2FMarginTie
