import M3d.Gen.C2FMargin
import M3d.Props.C12
import Mathlib.Tactic.Linarith
import Mathlib.Tactic.Positivity
import Mathlib.Algebra.Order.Field.Basic
/-!
# Tie of the coarse-to-fine margins to the source (property C12)

`M3d/Gen/C2FMargin.lean` is REGENERATED on every check (go/ast over `MarchingSquaresC2F` in
model2d/marching.go and `MarchingCubesC2F` in model3d/mc.go): it holds the literal expression the
code adds to `extraSpace` before expanding the fine blocks' bounds.  The theorems below re-prove,
against the current text, that this amount is at least **two coarse spacings** — the margin
`(R + m)·δ` that `M3d.C12.c2f_ms_sound / c2f_mc_sound` need for the reach `R = m` (one coarse cell)
used by the C12 correspondence.  An edit of the margin that drops below `2·bigDelta`
(`bigDelta·√2`, `bigDelta·√3`, `1.5·bigDelta`, no margin, …) breaks these proofs.

`math.Sqrt` is an uninterpreted function with the two facts used: `sqrt x · sqrt x = x` and
`0 ≤ sqrt x` for `0 ≤ x`.
-/
namespace M3d.C2FMarginTie
open M3d.GenPrelude M3d.Gen.C2FMargin

variable {K : Type} [Field K] [LinearOrder K] [IsStrictOrderedRing K]

/-- `MarchingSquaresC2F`: for `bigDelta ≥ 0` the amount added to `extraSpace` is at least
`2·bigDelta`, whatever `smallDelta` and the caller's `extraSpace` are. -/
theorem ms_margin_ge_two_coarse (sq : K → K)
    (hsq : ∀ x : K, 0 ≤ x → sq x * sq x = x ∧ 0 ≤ sq x) (bigDelta smallDelta extraSpace : K)
    (hΔ : 0 ≤ bigDelta) :
    (letI : HasSqrt K := ⟨sq⟩; 2 * bigDelta ≤ msMargin bigDelta smallDelta extraSpace) := by
  obtain ⟨h3, h3p⟩ := hsq 3 (by norm_num)
  have h1 : 1 ≤ sq 3 := by nlinarith
  obtain ⟨h2, h2p⟩ := hsq 2 (by norm_num)
  have h1' : 1 ≤ sq 2 := by nlinarith
  simp only [msMargin]
  nlinarith [mul_nonneg hΔ (sub_nonneg.2 h1), mul_nonneg hΔ (sub_nonneg.2 h1')]

/-- `MarchingCubesC2F`: the same. -/
theorem mc_margin_ge_two_coarse (sq : K → K)
    (hsq : ∀ x : K, 0 ≤ x → sq x * sq x = x ∧ 0 ≤ sq x) (bigDelta smallDelta extraSpace : K)
    (hΔ : 0 ≤ bigDelta) :
    (letI : HasSqrt K := ⟨sq⟩; 2 * bigDelta ≤ mcMargin bigDelta smallDelta extraSpace) := by
  obtain ⟨h3, h3p⟩ := hsq 3 (by norm_num)
  have h1 : 1 ≤ sq 3 := by nlinarith
  obtain ⟨h2, h2p⟩ := hsq 2 (by norm_num)
  have h1' : 1 ≤ sq 2 := by nlinarith
  simp only [mcMargin]
  nlinarith [mul_nonneg hΔ (sub_nonneg.2 h1), mul_nonneg hΔ (sub_nonneg.2 h1')]

/-- In the units of the covering theorems: with `bigDelta = m·δ` and a caller's `extraSpace ≥ 0`, the
total expansion `extraSpace + margin` is at least `(R + m)·δ` for the reach `R = m`. -/
theorem ms_total_margin_covers (sq : K → K)
    (hsq : ∀ x : K, 0 ≤ x → sq x * sq x = x ∧ 0 ≤ sq x) (m : Nat) (δ extraSpace : K)
    (hδ : 0 ≤ δ) (he : 0 ≤ extraSpace) :
    (letI : HasSqrt K := ⟨sq⟩;
      (((m : Nat) : K) + m) * δ ≤ extraSpace + msMargin ((m : K) * δ) δ extraSpace) := by
  have h := ms_margin_ge_two_coarse sq hsq ((m : K) * δ) δ extraSpace (by positivity)
  change 2 * ((m : K) * δ) ≤ _ at h
  change _ ≤ extraSpace + _
  linarith

theorem mc_total_margin_covers (sq : K → K)
    (hsq : ∀ x : K, 0 ≤ x → sq x * sq x = x ∧ 0 ≤ sq x) (m : Nat) (δ extraSpace : K)
    (hδ : 0 ≤ δ) (he : 0 ≤ extraSpace) :
    (letI : HasSqrt K := ⟨sq⟩;
      (((m : Nat) : K) + m) * δ ≤ extraSpace + mcMargin ((m : K) * δ) δ extraSpace) := by
  have h := mc_margin_ge_two_coarse sq hsq ((m : K) * δ) δ extraSpace (by positivity)
  change 2 * ((m : K) * δ) ≤ _ at h
  change _ ≤ extraSpace + _
  linarith

open M3d.Marching M3d.Partition M3d.Gen M3d.C2F M3d.C12 in
/-- `MarchingSquaresC2F` with the margin AS WRITTEN IN THE SOURCE (regenerated): for every ratio `m`
(`bigDelta = m·smallDelta`), caller's `extraSpace ≥ 0`, solid, worker schedule: if the coarse spacing
sees every feature with reach one coarse cell (`seenAll2 m m`, what the driver evaluates on every
`msc2f` case), the coarse mesh has a vertex on every coarse sign-change cell, and the filter keeps a
block whenever a coarse-mesh vertex lies in its bounds grown by `extraSpace + margin`, then the C2F
face multiset is the plain fine one. -/
theorem c2f_ms_sound_code_margin (sq : K → K)
    (hsq : ∀ x : K, 0 ≤ x → sq x * sq x = x ∧ 0 ≤ sq x)
    (m nx ny cnx cny : Nat) (labF labC : Nat → Nat → Bool)
    (g : Block2 → Bool) (sched : List (List Block2))
    (hs : Schedule2 (blockQueue2 g (rootBlock2 nx ny)) sched)
    (hseen : seenAll2 m m labF labC nx ny cnx cny = true)
    (fx fy δ ε extraSpace : K) (hδ : 0 ≤ δ) (hε : 0 ≤ ε) (he : 0 ≤ extraSpace) (verts : List (K × K))
    (hverts : ∀ J ∈ coarseMixed2 labC cnx cny, ∃ v ∈ verts,
      (coarseCoord fx δ m J.1 ≤ v.1 ∧ v.1 ≤ coarseCoord fx δ m J.1 + (m : K) * δ) ∧
      (coarseCoord fy δ m J.2 ≤ v.2 ∧ v.2 ≤ coarseCoord fy δ m J.2 + (m : K) * δ))
    (hg : letI : HasSqrt K := ⟨sq⟩
      ∀ b, C2FKeeps2 verts fx fy δ ε (extraSpace + msMargin ((m : K) * δ) δ extraSpace) b → g b = true) :
    (msFilterMesh msTable labF g sched).Perm (msMesh msTable nx ny labF) :=
  c2f_ms_sound m m nx ny cnx cny labF labC g sched hs hseen fx fy δ ε _ hδ hε verts hverts
    (ms_total_margin_covers sq hsq m δ extraSpace hδ he) hg

open M3d.Marching M3d.Partition M3d.Gen M3d.C2F M3d.C12 in
/-- 3-D twin: `MarchingCubesC2F` with the regenerated margin. -/
theorem c2f_mc_sound_code_margin (sq : K → K)
    (hsq : ∀ x : K, 0 ≤ x → sq x * sq x = x ∧ 0 ≤ sq x)
    (m nx ny nz cnx cny cnz : Nat) (labF labC : Nat → Nat → Nat → Bool)
    (g : Block → Bool) (sched : List (List Block))
    (hs : Schedule (blockQueue g (rootBlock nx ny nz)) sched)
    (hseen : seenAll3 m m labF labC nx ny nz cnx cny cnz = true)
    (fx fy fz δ ε extraSpace : K) (hδ : 0 ≤ δ) (hε : 0 ≤ ε) (he : 0 ≤ extraSpace)
    (verts : List (K × K × K))
    (hverts : ∀ J ∈ coarseMixed3 labC cnx cny cnz, ∃ v ∈ verts,
      (coarseCoord fx δ m J.1 ≤ v.1 ∧ v.1 ≤ coarseCoord fx δ m J.1 + (m : K) * δ) ∧
      (coarseCoord fy δ m J.2.1 ≤ v.2.1 ∧ v.2.1 ≤ coarseCoord fy δ m J.2.1 + (m : K) * δ) ∧
      (coarseCoord fz δ m J.2.2 ≤ v.2.2 ∧ v.2.2 ≤ coarseCoord fz δ m J.2.2 + (m : K) * δ))
    (hg : letI : HasSqrt K := ⟨sq⟩
      ∀ b, C2FKeeps3 verts fx fy fz δ ε (extraSpace + mcMargin ((m : K) * δ) δ extraSpace) b → g b = true) :
    (mcFilterMesh mcTable labF g sched).Perm (mcMesh mcTable nx ny nz labF) :=
  c2f_mc_sound m m nx ny nz cnx cny cnz labF labC g sched hs hseen fx fy fz δ ε _ hδ hε verts hverts
    (mc_total_margin_covers sq hsq m δ extraSpace hδ he) hg

end M3d.C2FMarginTie
