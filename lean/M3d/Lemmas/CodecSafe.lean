import M3d.Lemmas.CodecStl
import M3d.Model.CodecMesh
/-! Decoder safety facts behind C16: every reader step consumes input (progress), list
pre-allocations are paid for by input actually read (allocation), indices are checked. -/
namespace M3d.Codec

/-! ## progress and allocation of the binary PLY row decoder -/

theorem Kind.size_pos' (k : Kind) : 0 < k.size := by cases k <;> decide

theorem readScalarBin_consumes {e : Endian} {k : Kind} {bs r : Bytes} {s : Scalar}
    (h : readScalarBin e k bs = .ok (s, r)) : r.length + k.size = bs.length := by
  unfold readScalarBin at h
  split at h
  · simp at h
  · split at h
    · simp at h
    · simp only [Except.ok.injEq, Prod.mk.injEq] at h
      obtain ⟨_, rfl⟩ := h
      simp; omega

theorem readScalarsBin_consumes {e : Endian} {k : Kind} {n : Nat} {bs r : Bytes} {ss : List Scalar}
    (h : readScalarsBin e k n bs = .ok (ss, r)) : r.length + n * k.size = bs.length := by
  induction n generalizing bs ss with
  | zero => simp [readScalarsBin] at h; simp [h.2]
  | succ n ih =>
    unfold readScalarsBin at h
    cases h1 : readScalarBin e k bs with
    | error er => simp [h1] at h
    | ok p =>
      obtain ⟨s, bs'⟩ := p
      simp only [h1] at h
      cases h2 : readScalarsBin e k n bs' with
      | error er => simp [h2] at h
      | ok q =>
        obtain ⟨ss', bs''⟩ := q
        simp only [h2, Except.ok.injEq, Prod.mk.injEq] at h
        obtain ⟨_, rfl⟩ := h
        have := readScalarBin_consumes h1
        have := ih h2
        rw [Nat.succ_mul]; omega

/-- **progress + allocation, binary rows**: the remaining input never grows, a row of an element with
at least one property consumes at least one byte, and the list pre-allocations of the row
(16 bytes per pre-allocated entry) are bounded by 16 × the bytes the row consumed. -/
theorem decodeBinary_consumes {e : Endian} {ps : List PProp} {bs r : Bytes} {vs : List PVal} {a : Nat}
    (h : decodeBinary e ps bs = .ok (vs, r, a)) :
    r.length ≤ bs.length ∧ a + 16 * r.length ≤ 16 * bs.length ∧ (ps ≠ [] → r.length < bs.length) := by
  induction ps generalizing bs vs a with
  | nil =>
    simp only [decodeBinary, Except.ok.injEq, Prod.mk.injEq] at h
    obtain ⟨_, rfl, rfl⟩ := h
    simp
  | cons p ps ih =>
    unfold decodeBinary at h
    cases hl : p.lenType with
    | none =>
      simp only [hl] at h
      cases h1 : readScalarBin e p.elemType.kind bs with
      | error er => simp [h1] at h
      | ok q =>
        obtain ⟨v, bs'⟩ := q
        simp only [h1] at h
        cases h2 : decodeBinary e ps bs' with
        | error er => simp [h2] at h
        | ok q2 =>
          obtain ⟨vs', r', a'⟩ := q2
          simp only [h2, Except.ok.injEq, Prod.mk.injEq] at h
          obtain ⟨_, rfl, rfl⟩ := h
          have c1 := readScalarBin_consumes h1
          have := Kind.size_pos' p.elemType.kind
          obtain ⟨i1, i2, _⟩ := ih h2
          exact ⟨by omega, by omega, fun _ => by omega⟩
    | some lt =>
      simp only [hl] at h
      cases h1 : readScalarBin e lt.kind bs with
      | error er => simp [h1] at h
      | ok q =>
        obtain ⟨lv, bs'⟩ := q
        simp only [h1] at h
        cases hlv : lengthValue lv with
        | none => simp [hlv] at h
        | some n =>
          simp only [hlv] at h
          by_cases hn : n < 0
          · simp [hn] at h
          · simp only [hn, if_false] at h
            cases h3 : readScalarsBin e p.elemType.kind n.toNat bs' with
            | error er => simp [h3] at h
            | ok q3 =>
              obtain ⟨xs, bs''⟩ := q3
              simp only [h3] at h
              cases h2 : decodeBinary e ps bs'' with
              | error er => simp [h2] at h
              | ok q2 =>
                obtain ⟨vs', r', a'⟩ := q2
                simp only [h2, Except.ok.injEq, Prod.mk.injEq] at h
                obtain ⟨_, rfl, rfl⟩ := h
                have c1 := readScalarBin_consumes h1
                have c3 := readScalarsBin_consumes h3
                have := Kind.size_pos' lt.kind
                have hp := Kind.size_pos' p.elemType.kind
                obtain ⟨i1, i2, _⟩ := ih h2
                have hm : min n.toNat plyMaxPrealloc ≤ n.toNat * p.elemType.kind.size := by
                  have : n.toNat ≤ n.toNat * p.elemType.kind.size := Nat.le_mul_of_pos_right _ hp
                  omega
                exact ⟨by omega, by omega, fun _ => by omega⟩

/-! ## token rows -/

theorem mapM_length {β γ : Type} (g : β → Option γ) (l : List β) (r : List γ) (h : l.mapM g = some r) :
    r.length = l.length := by
  induction l generalizing r with
  | nil => simp at h; subst h; rfl
  | cons x xs ih =>
    simp only [List.mapM_cons] at h
    cases hx : g x with
    | none => simp [hx] at h
    | some y =>
      cases hxs : xs.mapM g with
      | none => simp [hx, hxs] at h
      | some ys =>
        simp [hx, hxs] at h
        subst h
        simp [ih ys hxs]

/-- **progress + allocation, ASCII rows (token level)**: pre-allocations are bounded by 16 × the
number of tokens consumed. -/
theorem decodeTokens_consumes {ft : FloatText} {ps : List PProp} {toks r : List Bytes} {vs : List PVal} {a : Nat}
    (h : decodeTokens ft ps toks = .ok (vs, r, a)) :
    r.length ≤ toks.length ∧ a + 16 * r.length ≤ 16 * toks.length ∧ (ps ≠ [] → r.length < toks.length) := by
  induction ps generalizing toks vs a with
  | nil =>
    simp only [decodeTokens, Except.ok.injEq, Prod.mk.injEq] at h
    obtain ⟨_, rfl, rfl⟩ := h
    simp
  | cons p ps ih =>
    unfold decodeTokens at h
    cases hl : p.lenType with
    | none =>
      simp only [hl] at h
      cases toks with
      | nil => simp at h
      | cons t toks' =>
        simp only at h
        cases h1 : parseScalar ft p.elemType.kind t with
        | none => simp [h1] at h
        | some v =>
          simp only [h1] at h
          cases h2 : decodeTokens ft ps toks' with
          | error er => simp [h2] at h
          | ok q2 =>
            obtain ⟨vs', r', a'⟩ := q2
            simp only [h2, Except.ok.injEq, Prod.mk.injEq] at h
            obtain ⟨_, rfl, rfl⟩ := h
            obtain ⟨i1, i2, _⟩ := ih h2
            simp only [List.length_cons]
            exact ⟨by omega, by omega, fun _ => by omega⟩
    | some lt =>
      simp only [hl] at h
      cases toks with
      | nil => simp at h
      | cons t toks' =>
        simp only at h
        cases h1 : parseScalar ft lt.kind t with
        | none => simp [h1] at h
        | some lv =>
          simp only [h1] at h
          cases hlv : lengthValue lv with
          | none => simp [hlv] at h
          | some n =>
            simp only [hlv] at h
            by_cases hn : n < 0
            · simp [hn] at h
            · simp only [hn, if_false] at h
              by_cases hk : toks'.length < n.toNat
              · simp [hk] at h
              · simp only [hk, if_false] at h
                cases h3 : (toks'.take n.toNat).mapM (parseScalar ft p.elemType.kind) with
                | none => simp [h3] at h
                | some xs =>
                  simp only [h3] at h
                  cases h2 : decodeTokens ft ps (toks'.drop n.toNat) with
                  | error er => simp [h2] at h
                  | ok q2 =>
                    obtain ⟨vs', r', a'⟩ := q2
                    simp only [h2, Except.ok.injEq, Prod.mk.injEq] at h
                    obtain ⟨_, rfl, rfl⟩ := h
                    obtain ⟨i1, i2, _⟩ := ih h2
                    simp only [List.length_cons, List.length_drop] at *
                    exact ⟨by omega, by omega, fun _ => by omega⟩

/-- `strings.Fields` cannot return more fields than there are bytes -/
theorem fieldsAux_length (fuel : Nat) (bs cur : Bytes) :
    (fieldsAux fuel bs cur).length ≤ bs.length + (if cur.isEmpty then 0 else 1) := by
  induction fuel generalizing bs cur with
  | zero =>
    unfold fieldsAux
    split <;> simp
  | succ fuel ih =>
    cases bs with
    | nil =>
      unfold fieldsAux
      split <;> simp
    | cons b bs =>
      unfold fieldsAux
      simp only
      split
      · have := ih bs (b :: cur)
        simp at this ⊢
        omega
      · next hw =>
        have h1 := ih ((b :: bs).drop (spaceWidth (b :: bs))) []
        have h2 : ((b :: bs).drop (spaceWidth (b :: bs))).length ≤ bs.length := by
          simp only [List.length_drop, List.length_cons]; omega
        simp only [List.isEmpty_nil, if_true, Nat.add_zero] at h1
        split
        · simp only [List.length_cons]; omega
        · simp only [List.length_cons]; omega

theorem fields_length (bs : Bytes) : (fields bs).length ≤ bs.length := by
  have := fieldsAux_length bs.length bs []
  simpa [fields] using this


/-! ## whole rows and whole streams -/

/-- **progress + allocation, ASCII rows**: a successful `Read` consumed at least one byte (its line,
and any comment lines before it), and its list pre-allocations are bounded by 16 × the bytes consumed. -/
theorem readRowAscii_consumes (ft : FloatText) (el : Element) :
    ∀ (n : Nat) (bs : Bytes), bs.length = n → ∀ (vs : List PVal) (r : Bytes) (a : Nat),
      readRowAscii ft el bs = .ok (vs, r, a) → r.length < bs.length ∧ a + 16 * r.length ≤ 16 * bs.length := by
  intro n
  induction n using Nat.strongRecOn with
  | _ n ih =>
    intro bs hn vs r a h
    unfold readRowAscii at h
    have happ := readLine_append bs
    cases hrl : readLine bs with
    | mk ln p =>
      obtain ⟨rest, found⟩ := p
      rw [hrl] at happ
      simp only at happ
      simp only [hrl] at h
      have hlen : ln.length + rest.length = bs.length := by rw [← happ]; simp
      split at h
      · simp at h
      · next hns =>
        split at h
        · -- comment line
          split at h
          · next hf =>
            have hne : bs ≠ [] := by
              subst hf
              exact readLine_found_ne_nil bs ln rest hrl
            have hlt := readLine_rest_lt bs ln rest found hrl hne
            have := ih rest.length (by omega) rest rfl vs r a h
            omega
          · simp at h
        · -- data line
          cases hd : decodeTokens ft el.props (fields ln) with
          | error e => simp [hd] at h
          | ok q =>
            obtain ⟨vs', left, a'⟩ := q
            simp only [hd] at h
            cases left with
            | cons x xs => simp at h
            | nil =>
              simp only [Except.ok.injEq, Prod.mk.injEq] at h
              obtain ⟨_, rfl, rfl⟩ := h
              have hc := decodeTokens_consumes hd
              have hfl := fields_length ln
              have hln : 0 < ln.length := by
                cases hb : bs with
                | nil =>
                  rw [hb] at hrl
                  simp [readLine] at hrl
                  obtain ⟨rfl, _, rfl⟩ := hrl
                  simp [allSpace, trimLeftAux] at hns
                | cons b t =>
                  cases hl0 : ln with
                  | nil =>
                    rw [hb] at hrl
                    unfold readLine at hrl
                    split at hrl
                    · simp [hl0] at hrl
                    · simp only [Prod.mk.injEq] at hrl
                      rw [hl0] at hrl
                      simp at hrl
                  | cons _ _ => simp
              simp only [List.length_nil] at hc
              omega

/-- one row in the file's format -/
theorem readRow_consumes {ft : FloatText} {f : Format} {el : Element} {bs r : Bytes} {vs : List PVal} {a : Nat}
    (h : readRow ft f el bs = .ok (vs, r, a)) : r.length ≤ bs.length ∧ a + 16 * r.length ≤ 16 * bs.length := by
  cases f with
  | text =>
    have := readRowAscii_consumes ft el bs.length bs rfl vs r a h
    omega
  | bin e =>
    have := decodeBinary_consumes h
    omega

theorem readElemRows_alloc (ft : FloatText) (f : Format) (idx : Nat) (el : Element) (k : Nat) (bs : Bytes) :
    (readElemRows ft f idx el k bs).1.alloc + 16 * (readElemRows ft f idx el k bs).2.length ≤ 16 * bs.length := by
  induction k generalizing bs with
  | zero => simp [readElemRows]
  | succ k ih =>
    unfold readElemRows
    cases hr : readRow ft f el bs with
    | error e => cases e <;> simp
    | ok q =>
      obtain ⟨vs, bs', a⟩ := q
      simp only
      have h1 := readRow_consumes hr
      have h2 := ih bs'
      cases hk : readElemRows ft f idx el k bs' with
      | mk r out =>
        rw [hk] at h2
        simp only [ReadAll.cons] at h2 ⊢
        omega

/-- **allocation, whole stream**: all list pre-allocations made while reading a PLY body are bounded
by 16 × the length of the body. -/
theorem readElems_alloc (ft : FloatText) (f : Format) (idx : Nat) (els : List Element) (bs : Bytes) :
    (readElems ft f idx els bs).alloc ≤ 16 * bs.length := by
  induction els generalizing idx bs with
  | nil => simp [readElems]
  | cons el els ih =>
    unfold readElems
    have h1 := readElemRows_alloc ft f idx el el.count.toNat bs
    cases hk : readElemRows ft f idx el el.count.toNat bs with
    | mk r out =>
      rw [hk] at h1
      simp only at h1 ⊢
      split
      · omega
      · split
        · omega
        · have := ih (idx + 1) out
          simp only
          omega

/-! ## indices -/

theorem indicesOK_spec {n : Nat} {tris : List (List Int)} (h : indicesOK n tris = true) :
    ∀ t ∈ tris, ∀ v ∈ t, 0 ≤ v ∧ v < (n : Int) := by
  intro t ht v hv
  unfold indicesOK at h
  rw [List.all_eq_true] at h
  have := h t ht
  rw [List.all_eq_true] at this
  have := this v hv
  simpa using this

/-- **index_checked** (`readColorPLY`): every corner of every returned triangle is an entry of the
vertex table, obtained from an index that was checked to be `≥ 0` and `< len(vertices)`. -/
theorem readColorPLY_index_checked {ft : FloatText} {bs : Bytes} {r : ColorResult}
    (h : readColorPLY ft bs = .ok r) : ∀ t ∈ r.tris, ∀ v ∈ t, v ∈ r.verts := by
  unfold readColorPLY at h
  split at h
  · simp at h
  · split at h
    · simp at h
    · simp only at h
      split at h
      · simp at h
      · next m hm =>
        split at h
        · simp at h
        · split at h
          · simp at h
          · next hidx =>
            simp only [Except.ok.injEq] at h
            subst h
            simp only [Bool.not_eq_true] at hidx
            have hok : indicesOK m.verts.length m.tris = true := by
              cases hb : indicesOK m.verts.length m.tris with
              | true => rfl
              | false => simp [hb] at hidx
            intro t ht v hv
            simp only [List.mem_map] at ht
            obtain ⟨t0, ht0, rfl⟩ := ht
            simp only [List.mem_map] at hv
            obtain ⟨i, hi, rfl⟩ := hv
            obtain ⟨h0, h1⟩ := indicesOK_spec hok t0 ht0 i hi
            have hlt : i.toNat < m.verts.length := by omega
            rw [List.getD_eq_getElem?_getD, List.getElem?_eq_getElem hlt]
            simp

/-- **error_not_data** (`readColorPLY`): a non-EOF error of the row reader reaches the caller — the
importer never returns data after the reader has failed. -/
theorem readColorPLY_error_not_data {ft : FloatText} {bs rest : Bytes} {h : Header} {e : PErr}
    (ho : plyOpen bs = .ok (h, rest))
    (he : (readElems ft h.format 0 h.elements rest).err = some e) :
    ∃ e', readColorPLY ft bs = .error e' := by
  unfold readColorPLY
  simp only [ho]
  split
  · exact ⟨_, rfl⟩
  · split
    · exact ⟨_, rfl⟩
    · simp only [he]
      exact ⟨_, rfl⟩


/-! ## OFF -/

theorem mapM_mem {β γ : Type} (g : β → Option γ) (l : List β) (r : List γ) (h : l.mapM g = some r) :
    ∀ y ∈ r, ∃ x ∈ l, g x = some y := by
  induction l generalizing r with
  | nil => simp at h; subst h; simp
  | cons x xs ih =>
    simp only [List.mapM_cons] at h
    cases hx : g x with
    | none => simp [hx] at h
    | some y0 =>
      cases hxs : xs.mapM g with
      | none => simp [hx, hxs] at h
      | some ys =>
        simp [hx, hxs] at h
        subst h
        intro y hy
        rcases List.mem_cons.mp hy with rfl | hy
        · exact ⟨x, List.mem_cons_self, hx⟩
        · obtain ⟨x', hx', hg⟩ := ih ys hxs y hy
          exact ⟨x', List.mem_cons_of_mem _ hx', hg⟩

/-- **index_checked** (`OFFReader.ReadFace`): every corner of every polygon is an entry of the vertex
table (indices are parsed, checked `0 ≤ i < len(vertices)`, then used). -/
theorem offReadFaces_index_checked (verts : List V3) (n : Nat) (bs : Bytes) (polys : List (List V3))
    (h : offReadFaces verts n bs = some polys) : ∀ p ∈ polys, ∀ v ∈ p, v ∈ verts := by
  induction n generalizing bs polys with
  | zero => simp [offReadFaces] at h; subst h; simp
  | succ n ih =>
    unfold offReadFaces at h
    cases hrl : readLine bs with
    | mk ln q =>
      obtain ⟨rest, found⟩ := q
      simp only [hrl] at h
      cases found with
      | false => simp at h
      | true =>
        simp only at h
        cases hf : fields ln with
        | nil => simp [hf] at h
        | cons c idxs =>
          simp only [hf] at h
          cases hc : parseIntN 64 c with
          | none => simp [hc] at h
          | some k =>
            simp only [hc] at h
            split at h
            · simp at h
            · cases hm : idxs.mapM (fun t => (parseIntN 64 t).bind fun i =>
                  if 0 ≤ i ∧ i < (verts.length : Int) then verts[i.toNat]? else none) with
              | none => simp [hm] at h
              | some poly =>
                simp only [hm] at h
                cases hr : offReadFaces verts n rest with
                | none => simp [hr] at h
                | some fs =>
                  simp only [hr, Option.some.injEq] at h
                  subst h
                  intro p hp v hv
                  rcases List.mem_cons.mp hp with rfl | hp
                  · obtain ⟨t, _, hg⟩ := mapM_mem _ idxs p hm v hv
                    cases hpi : parseIntN 64 t with
                    | none => simp [hpi] at hg
                    | some i =>
                      simp only [hpi, Option.bind_some] at hg
                      split at hg
                      · exact List.mem_of_getElem? hg
                      · simp at hg
                  · exact ih rest fs hr p hp v hv

/-! ## STL -/

/-- ASCII STL: every triangle returned consumed at least one line of input -/
theorem stlAsciiLoop_count (pf32 : Bytes → Option UInt32) :
    ∀ (n : Nat) (bs : Bytes), bs.length = n → ∀ (normal verts : List UInt32) (acc rs : List Rec),
      stlAsciiLoop pf32 bs normal verts acc = .ok rs → rs.length ≤ acc.length + bs.length := by
  intro n
  induction n using Nat.strongRecOn with
  | _ n ih =>
    intro bs hn normal verts acc rs h
    unfold stlAsciiLoop at h
    cases hrl : readLine bs with
    | mk ln p =>
      obtain ⟨rest, found⟩ := p
      simp only [hrl] at h
      cases found with
      | false =>
        simp only [dite_true] at h
        split at h
        · simp only [Except.ok.injEq] at h; subst h; simp
        · simp at h
      | true =>
        have hlt := readLine_rest_lt bs ln rest true hrl (readLine_found_ne_nil bs ln rest hrl)
        have hrec := fun nv vv aa (hh : stlAsciiLoop pf32 rest nv vv aa = .ok rs) =>
          ih rest.length (by omega) rest rfl nv vv aa rs hh
        simp only [Bool.true_eq_false, dite_false] at h
        split at h
        · have := hrec _ _ _ h; omega
        · split at h
          · simp only [Except.ok.injEq] at h; subst h; simp
          · split at h
            · split at h
              · have := hrec _ _ _ h; simp at this; omega
              · simp at h
            · split at h
              · split at h
                · simp at h
                · split at h
                  · simp at h
                  · have := hrec _ _ _ h; omega
              · split at h
                · split at h
                  · simp at h
                  · split at h
                    · simp at h
                    · split at h
                      · simp at h
                      · have := hrec _ _ _ h; omega
                · have := hrec _ _ _ h; omega

/-- **alloc_linear** (`readSTL`, repaired): the ledger — fixed buffers, the bounded pre-allocation of
the triangle slice, 88 bytes per triangle actually read — is linear in the input. -/
theorem stlRead_le (bs : Bytes) : stlRead bs ≤ bs.length := by
  unfold stlRead
  cases hd : stlDecode noParse32 bs with
  | error e => simp only; omega
  | ok rs =>
    simp only
    unfold stlDecode at hd
    split at hd
    · simp at hd
    · split at hd
      · cases hh : stlAsciiHeader bs with
        | error e => simp [hh] at hd
        | ok rest =>
          simp only [hh] at hd
          have := stlAsciiLoop_count noParse32 rest.length rest rfl _ _ _ rs hd
          have hr : rest.length ≤ bs.length := by
            unfold stlAsciiHeader at hh
            have happ := readLine_append bs
            cases hrl : readLine bs with
            | mk ln p =>
              obtain ⟨r2, f⟩ := p
              rw [hrl] at happ hh
              cases f with
              | false => simp at hh
              | true =>
                simp only [Except.ok.injEq] at hh
                subst hh
                simp only at happ
                rw [← happ]; simp
          simp at this; omega
      · cases hh : stlBinHeader bs with
        | error e => simp [hh] at hd
        | ok q =>
          obtain ⟨n, rest⟩ := q
          simp only [hh] at hd
          have := (stlReadBinRecs_size n rest rs hd).1
          have hr : rest.length ≤ bs.length := by
            unfold stlBinHeader at hh
            split at hh
            · simp at hh
            · simp only [Except.ok.injEq, Prod.mk.injEq] at hh
              obtain ⟨_, rfl⟩ := hh
              simp
          omega

theorem stlLedger_linear (bs : Bytes) : stlLedger bs ≤ 88 * bs.length + (4688 + 8 * stlMaxPrealloc) := by
  unfold stlLedger
  have := stlRead_le bs
  have : min (stlDeclared bs) stlMaxPrealloc ≤ stlMaxPrealloc := Nat.min_le_right _ _
  omega

theorem offLedger_bounded (bs : Bytes) : offLedger bs ≤ 4096 + 32 * offMaxPrealloc := by
  unfold offLedger
  split
  · omega
  · next nv nf _ _ =>
    have h1 : min nv offMaxPrealloc ≤ offMaxPrealloc := Nat.min_le_right _ _
    have h2 : min nf offMaxPrealloc ≤ offMaxPrealloc := Nat.min_le_right _ _
    omega

end M3d.Codec
