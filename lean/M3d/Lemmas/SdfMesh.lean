import M3d.Lemmas.SdfSeg
import M3d.Lemmas.SdfTriFull
import M3d.Lemmas.SdfMisc
/-!
C06 helper lemmas: the linear scan `scanWith` (the leaf update `if dist < *curDist {…}` of `meshDistFunc.Dist`,
leaves with a NaN distance ignored) returns the exhaustive minimum over the leaves that have a distance; leaf
evaluations of the 2-D and 3-D `meshDistFunc` over a field.
-/
namespace M3d.Sdf
set_option linter.unusedSectionVars false
set_option linter.unusedVariables false

section order
variable {K : Type} [LinearOrder K] {β γ : Type}

theorem scanStep_none (leaf : β → Option (K × γ)) (cur : Option (K × γ)) (f : β) (h : leaf f = none) :
    scanStep leaf cur f = cur := by
  unfold scanStep; rw [h]

theorem scanStep_some (leaf : β → Option (K × γ)) (cur : Option (K × γ)) (f : β) (x : K × γ) (h : leaf f = some x) :
    scanStep leaf cur f = if ltCur x.1 (cur.map (·.1)) then some x else cur := by
  unfold scanStep; rw [h]

/-- invariant of the scan started from an arbitrary state `cur` -/
theorem scan_foldl (leaf : β → Option (K × γ)) (fs : List β) (cur : Option (K × γ)) :
    (fs.foldl (scanStep leaf) cur = none ↔ cur = none ∧ ∀ f ∈ fs, leaf f = none) ∧
    ∀ x, fs.foldl (scanStep leaf) cur = some x →
      (cur = some x ∨ ∃ f ∈ fs, leaf f = some x) ∧ (∀ y, cur = some y → x.1 ≤ y.1) ∧
      ∀ g ∈ fs, ∀ y, leaf g = some y → x.1 ≤ y.1 := by
  induction fs generalizing cur with
  | nil =>
      refine ⟨by simp, ?_⟩
      intro x hx
      simp only [List.foldl_nil] at hx
      refine ⟨Or.inl hx, ?_, by simp⟩
      intro y hy; rw [hx] at hy; cases hy; exact le_rfl
  | cons f fs ih =>
      simp only [List.foldl_cons]
      obtain ⟨ih1, ih2⟩ := ih (scanStep leaf cur f)
      cases hl : leaf f with
      | none =>
          rw [scanStep_none leaf cur f hl] at ih1 ih2 ⊢
          refine ⟨?_, ?_⟩
          · rw [ih1]
            constructor
            · rintro ⟨h1, h2⟩
              refine ⟨h1, ?_⟩
              intro g hg
              rcases List.mem_cons.mp hg with rfl | hg
              · exact hl
              · exact h2 g hg
            · rintro ⟨h1, h2⟩
              exact ⟨h1, fun g hg => h2 g (List.mem_cons_of_mem _ hg)⟩
          · intro x hx
            obtain ⟨a, b, c⟩ := ih2 x hx
            refine ⟨?_, b, ?_⟩
            · rcases a with a | ⟨g, hg, hgx⟩
              · exact Or.inl a
              · exact Or.inr ⟨g, List.mem_cons_of_mem _ hg, hgx⟩
            · intro g hg y hy
              rcases List.mem_cons.mp hg with rfl | hg
              · rw [hl] at hy; cases hy
              · exact c g hg y hy
      | some v =>
          rw [scanStep_some leaf cur f v hl] at ih1 ih2 ⊢
          refine ⟨?_, ?_⟩
          · rw [ih1]
            constructor
            · rintro ⟨h1, h2⟩
              exfalso
              cases cur with
              | none => simp [ltCur] at h1
              | some w =>
                  simp only [Option.map_some, ltCur] at h1
                  by_cases hlt : v.1 < w.1 <;> simp [hlt] at h1
            · rintro ⟨h1, h2⟩
              have := h2 f (List.mem_cons_self ..)
              rw [hl] at this; cases this
          · intro x hx
            obtain ⟨a, b, c⟩ := ih2 x hx
            -- the state after the step: `st`; facts about it
            cases cur with
            | none =>
                simp only [Option.map_none, ltCur, if_true] at a b
                refine ⟨?_, by simp, ?_⟩
                · rcases a with a | ⟨g, hg, hgx⟩
                  · exact Or.inr ⟨f, List.mem_cons_self .., by rw [hl, a]⟩
                  · exact Or.inr ⟨g, List.mem_cons_of_mem _ hg, hgx⟩
                · intro g hg y hy
                  rcases List.mem_cons.mp hg with rfl | hg
                  · rw [hl] at hy; cases hy; exact b v rfl
                  · exact c g hg y hy
            | some w =>
                simp only [Option.map_some, ltCur] at a b
                by_cases hlt : v.1 < w.1
                · simp only [hlt, decide_true, if_true] at a b
                  have hxv : x.1 ≤ v.1 := b v rfl
                  refine ⟨?_, ?_, ?_⟩
                  · rcases a with a | ⟨g, hg, hgx⟩
                    · exact Or.inr ⟨f, List.mem_cons_self .., by rw [hl, a]⟩
                    · exact Or.inr ⟨g, List.mem_cons_of_mem _ hg, hgx⟩
                  · intro y hy; cases hy; exact le_trans hxv hlt.le
                  · intro g hg y hy
                    rcases List.mem_cons.mp hg with rfl | hg
                    · rw [hl] at hy; cases hy; exact hxv
                    · exact c g hg y hy
                · simp only [hlt, decide_false, Bool.false_eq_true, if_false] at a b
                  have hxw : x.1 ≤ w.1 := b w rfl
                  refine ⟨?_, ?_, ?_⟩
                  · rcases a with a | ⟨g, hg, hgx⟩
                    · exact Or.inl a
                    · exact Or.inr ⟨g, List.mem_cons_of_mem _ hg, hgx⟩
                  · intro y hy; cases hy; exact hxw
                  · intro g hg y hy
                    rcases List.mem_cons.mp hg with rfl | hg
                    · rw [hl] at hy; cases hy; exact le_trans hxw (not_lt.mp hlt)
                    · exact c g hg y hy

/-- **The scan returns the exhaustive minimum over the leaves that have a distance**: it is `none` exactly when
every leaf is NaN; otherwise the result is the evaluation of some piece of the list and no evaluated piece has a
smaller distance. -/
theorem scanWith_spec (leaf : β → Option (K × γ)) (fs : List β) :
    (scanWith leaf fs = none ↔ ∀ f ∈ fs, leaf f = none) ∧
    ∀ x, scanWith leaf fs = some x →
      (∃ f ∈ fs, leaf f = some x) ∧ ∀ g ∈ fs, ∀ y, leaf g = some y → x.1 ≤ y.1 := by
  obtain ⟨h1, h2⟩ := scan_foldl leaf fs none
  refine ⟨by unfold scanWith; simpa using h1, ?_⟩
  intro x hx
  obtain ⟨a, _, c⟩ := h2 x hx
  refine ⟨?_, c⟩
  rcases a with a | a
  · cases a
  · exact a

/-- A NaN leaf never influences the scan: the result is the scan over the list with the NaN leaves removed. -/
theorem scanWith_filter (leaf : β → Option (K × γ)) (fs : List β) :
    scanWith leaf fs = scanWith leaf (fs.filter fun f => (leaf f).isSome) := by
  unfold scanWith
  generalize (none : Option (K × γ)) = cur
  induction fs generalizing cur with
  | nil => rfl
  | cons f fs ih =>
      cases hl : leaf f with
      | none =>
          have : (f :: fs).filter (fun f => (leaf f).isSome) = fs.filter (fun f => (leaf f).isSome) := by
            rw [List.filter_cons]; simp [hl]
          rw [this, List.foldl_cons, scanStep_none leaf cur f hl]
          exact ih cur
      | some x =>
          have : (f :: fs).filter (fun f => (leaf f).isSome) = f :: fs.filter (fun f => (leaf f).isSome) := by
            rw [List.filter_cons]; simp [hl]
          rw [this, List.foldl_cons, List.foldl_cons]
          exact ih _

/-- If at least one leaf has a distance the scan returns something. -/
theorem scanWith_isSome (leaf : β → Option (K × γ)) (fs : List β) (f : β) (hf : f ∈ fs) (x : K × γ)
    (hx : leaf f = some x) : ∃ r, scanWith leaf fs = some r := by
  cases h : scanWith leaf fs with
  | none =>
      have := ((scanWith_spec leaf fs).1.mp h) f hf
      rw [hx] at this; cases this
  | some r => exact ⟨r, rfl⟩

/-- **Skipping covered pieces does not change the minimum.**  `D g` a reference distance of every piece (NaN
leaves included).  If every evaluated leaf reports its `D`, and every piece whose leaf is NaN is *covered* — some
evaluated piece of the list is at most as far as it (a zero-length segment `{p, p}` whose point `p` is an end point of
a neighbouring segment) — then on a non-empty list the scan returns a value and it is `≤ D g` for **every** piece
`g` of the list: the exhaustive minimum over all pieces. -/
theorem scanWith_covered (leaf : β → Option (K × γ)) (D : β → K) (fs : List β) (hne : fs ≠ [])
    (hD : ∀ f ∈ fs, ∀ x, leaf f = some x → x.1 = D f)
    (hcov : ∀ g ∈ fs, leaf g = none → ∃ f ∈ fs, ∃ x, leaf f = some x ∧ x.1 ≤ D g) :
    ∃ r, scanWith leaf fs = some r ∧ (∃ f ∈ fs, leaf f = some r ∧ r.1 = D f) ∧ ∀ g ∈ fs, r.1 ≤ D g := by
  obtain ⟨g0, hg0⟩ := List.exists_mem_of_ne_nil fs hne
  have hsome : ∃ f ∈ fs, ∃ x, leaf f = some x := by
    cases h : leaf g0 with
    | none => obtain ⟨f, hf, x, hx, _⟩ := hcov g0 hg0 h; exact ⟨f, hf, x, hx⟩
    | some x => exact ⟨g0, hg0, x, h⟩
  obtain ⟨f, hf, x, hx⟩ := hsome
  obtain ⟨r, hr⟩ := scanWith_isSome leaf fs f hf x hx
  obtain ⟨⟨f', hf', hf'r⟩, hmin⟩ := (scanWith_spec leaf fs).2 r hr
  refine ⟨r, hr, ⟨f', hf', hf'r, hD f' hf' r hf'r⟩, ?_⟩
  intro g hg
  cases h : leaf g with
  | none =>
      obtain ⟨f2, hf2, x2, hx2, hle⟩ := hcov g hg h
      exact le_trans (hmin f2 hf2 x2 hx2) hle
  | some y =>
      rw [← hD g hg y h]; exact hmin g hg y h

end order

section field
variable {K : Type} [Field K] [LinearOrder K] [IsStrictOrderedRing K]

theorem notNaN_true (x : K) : notNaN x = true := by simp [notNaN]

/-- over a field the 2-D leaf evaluation always has a distance -/
theorem segLeaf2_eq (E : Env K) (c : V2 K) (f : Seg K × Nat) :
    segLeaf2 E c f = some ((segClosest2 E f.1.a f.1.b c).dist E c, segClosest2 E f.1.a f.1.b c, f.2) := by
  simp [segLeaf2, notNaN_true]

/-- the 3-D leaf step of the model is the generic step with an always-evaluated leaf -/
theorem meshStep_eq_scanStep (E : Env K) (c : V3 K) (cur : MeshBest K) (f : Tri K × Nat) :
    meshStep E c cur f =
      scanStep (fun f : Tri K × Nat => some ((triClosest E f.1.a f.1.b f.1.c c).dist E c,
        triClosest E f.1.a f.1.b f.1.c c, f.2)) cur f := by
  simp only [meshStep, scanStep]

theorem meshScan_eq_scanWith (E : Env K) (faces : List (Tri K × Nat)) (c : V3 K) :
    meshScan E faces c =
      scanWith (fun f : Tri K × Nat => some ((triClosest E f.1.a f.1.b f.1.c c).dist E c,
        triClosest E f.1.a f.1.b f.1.c c, f.2)) faces := by
  unfold meshScan scanWith
  have h : meshStep E c = scanStep (fun f : Tri K × Nat => some ((triClosest E f.1.a f.1.b f.1.c c).dist E c,
      triClosest E f.1.a f.1.b f.1.c c, f.2)) := by
    funext cur f
    exact meshStep_eq_scanStep E c cur f
  rw [h]

/-- `dist² = sqDist`, `dist ≥ 0` -/
theorem V2.dist_facts {E : Env K} (hE : E.Exact) (a b : V2 K) :
    0 ≤ a.dist E b ∧ a.dist E b * a.dist E b = a.sqDist b := by
  have h : 0 ≤ a.sqDist b := by unfold V2.sqDist; nlinarith [mul_self_nonneg (a.x - b.x), mul_self_nonneg (a.y - b.y)]
  exact ⟨hE.sqrt_nonneg _ h, hE.sqrt_sq _ h⟩

theorem V3.dist_facts {E : Env K} (hE : E.Exact) (a b : V3 K) :
    0 ≤ a.dist E b ∧ a.dist E b * a.dist E b = a.sqDist b := by
  have h : 0 ≤ a.sqDist b := by
    unfold V3.sqDist; nlinarith [mul_self_nonneg (a.x - b.x), mul_self_nonneg (a.y - b.y), mul_self_nonneg (a.z - b.z)]
  exact ⟨hE.sqrt_nonneg _ h, hE.sqrt_sq _ h⟩

/-- for non-negative numbers `a ≤ b` from `a² ≤ b²` and back -/
theorem le_of_sq_le {a b : K} (ha : 0 ≤ a) (hb : 0 ≤ b) (h : a * a ≤ b * b) : a ≤ b := by
  by_contra hlt
  rw [not_le] at hlt
  nlinarith

theorem sq_le_of_le {a b : K} (ha : 0 ≤ a) (h : a ≤ b) : a * a ≤ b * b := by nlinarith

theorem V2.normSq_sub_pos {a b : V2 K} (h : a ≠ b) : 0 < (b.sub a).normSq := by
  by_contra hn
  rw [not_lt] at hn
  apply h
  simp only [V2.normSq, V2.sub] at hn
  have hx : (b.x - a.x) * (b.x - a.x) = 0 := by nlinarith [mul_self_nonneg (b.x - a.x), mul_self_nonneg (b.y - a.y)]
  have hy : (b.y - a.y) * (b.y - a.y) = 0 := by nlinarith [mul_self_nonneg (b.x - a.x), mul_self_nonneg (b.y - a.y)]
  ext
  · have := mul_self_eq_zero.mp hx; linarith
  · have := mul_self_eq_zero.mp hy; linarith

theorem V2.lerp_zero (a b : V2 K) : V2.lerp a b 0 = a := by ext <;> simp [V2.lerp, V2.add, V2.sub, V2.scale]
theorem V2.lerp_one (a b : V2 K) : V2.lerp a b 1 = b := by ext <;> simp [V2.lerp, V2.add, V2.sub, V2.scale]
theorem V2.lerp_self (a : V2 K) (t : K) : V2.lerp a a t = a := by ext <;> simp [V2.lerp, V2.add, V2.sub, V2.scale]

/-- The 2-D leaf evaluation as the float run behaves: the `Closest` of a zero-length segment `{p, p}` is `0/0`, its
distance NaN, the leaf is ignored (`none`); every other segment is evaluated by `segLeaf2`. -/
def segLeaf2Skip (E : Env K) (c : V2 K) (f : Seg K × Nat) : Option (K × V2 K × Nat) :=
  if vecEq2 f.1.a f.1.b then none else segLeaf2 E c f

/-- reference distance of a piece: to its point if it is a point, else to the `Closest` of the segment -/
def segRefDist (E : Env K) (c : V2 K) (g : Seg K × Nat) : K :=
  if vecEq2 g.1.a g.1.b then g.1.a.dist E c else (segClosest2 E g.1.a g.1.b c).dist E c

/-- without zero-length pieces the skipping evaluation is the plain one -/
theorem scanWith_skip_eq (E : Env K) (c : V2 K) (segs : List (Seg K × Nat)) (h : ∀ f ∈ segs, f.1.a ≠ f.1.b) :
    scanWith (segLeaf2Skip E c) segs = meshScan2 E segs c := by
  unfold meshScan2 scanWith
  apply List.foldl_ext
  intro cur f hf
  have : vecEq2 f.1.a f.1.b = false := by
    rw [Bool.eq_false_iff]; intro hv; exact h f hf ((vecEq2_iff _ _).mp hv)
  simp only [scanStep, segLeaf2Skip, this, Bool.false_eq_true, if_false]

/-- **2-D mesh scan with zero-length pieces ignored.**  If every zero-length piece `{p, p}` of a non-empty list has
`p` as an end point of a proper segment of the list, the scan returns a distance `d ≥ 0`, a point `p` of a proper
segment `i` of the list at that distance (`d² = ‖p - c‖²`, `p` its `Closest`), and **no point of any piece — the
zero-length ones included — is closer**. -/
theorem meshScan2Skip_spec {E : Env K} (hE : E.Exact) (segs : List (Seg K × Nat)) (c : V2 K) (hne : segs ≠ [])
    (hcov : ∀ g ∈ segs, g.1.a = g.1.b → ∃ f ∈ segs, f.1.a ≠ f.1.b ∧ (f.1.a = g.1.a ∨ f.1.b = g.1.a)) :
    ∃ d p i, scanWith (segLeaf2Skip E c) segs = some (d, p, i) ∧ 0 ≤ d ∧ d * d = p.sqDist c ∧
      (∃ f ∈ segs, f.2 = i ∧ f.1.a ≠ f.1.b ∧ p = segClosest2 E f.1.a f.1.b c ∧
        ∃ t, 0 ≤ t ∧ t ≤ 1 ∧ p = V2.lerp f.1.a f.1.b t) ∧
      ∀ g ∈ segs, ∀ t, 0 ≤ t → t ≤ 1 → d * d ≤ (V2.lerp g.1.a g.1.b t).sqDist c := by
  -- evaluated leaves
  have hleaf : ∀ f : Seg K × Nat, f.1.a ≠ f.1.b →
      segLeaf2Skip E c f = some ((segClosest2 E f.1.a f.1.b c).dist E c, segClosest2 E f.1.a f.1.b c, f.2) := by
    intro f hf
    have : vecEq2 f.1.a f.1.b = false := by
      rw [Bool.eq_false_iff]; intro hv; exact hf ((vecEq2_iff _ _).mp hv)
    simp only [segLeaf2Skip, this, Bool.false_eq_true, if_false, segLeaf2_eq]
  have hnone : ∀ f : Seg K × Nat, f.1.a = f.1.b → segLeaf2Skip E c f = none := by
    intro f hf
    simp only [segLeaf2Skip, (vecEq2_iff _ _).mpr hf, if_true]
  -- a proper segment is at most as far as each of its points
  have hseg : ∀ f : Seg K × Nat, f.1.a ≠ f.1.b → ∀ t, 0 ≤ t → t ≤ 1 →
      (segClosest2 E f.1.a f.1.b c).dist E c * (segClosest2 E f.1.a f.1.b c).dist E c
        ≤ (V2.lerp f.1.a f.1.b t).sqDist c := by
    intro f hf t ht0 ht1
    rw [(V2.dist_facts hE _ _).2, segClosest2_eq_Q hE _ _ _ (V2.normSq_sub_pos hf)]
    exact segClosestQ2_le _ _ _ (V2.normSq_sub_pos hf) t ht0 ht1
  have hD : ∀ f ∈ segs, ∀ x, segLeaf2Skip E c f = some x → x.1 = segRefDist E c f := by
    intro f _ x hx
    by_cases hf : f.1.a = f.1.b
    · rw [hnone f hf] at hx; cases hx
    · rw [hleaf f hf] at hx; cases hx
      have : vecEq2 f.1.a f.1.b = false := by
        rw [Bool.eq_false_iff]; intro hv; exact hf ((vecEq2_iff _ _).mp hv)
      simp only [segRefDist, this, Bool.false_eq_true, if_false]
  have hc : ∀ g ∈ segs, segLeaf2Skip E c g = none →
      ∃ f ∈ segs, ∃ x, segLeaf2Skip E c f = some x ∧ x.1 ≤ segRefDist E c g := by
    intro g hg hgn
    have hdeg : g.1.a = g.1.b := by
      by_contra hnd
      rw [hleaf g hnd] at hgn; cases hgn
    obtain ⟨f, hf, hfnd, hend⟩ := hcov g hg hdeg
    refine ⟨f, hf, _, hleaf f hfnd, ?_⟩
    simp only [segRefDist, (vecEq2_iff _ _).mpr hdeg, if_true]
    apply le_of_sq_le (V2.dist_facts hE _ _).1 (V2.dist_facts hE _ _).1
    rw [(V2.dist_facts hE g.1.a c).2]
    rcases hend with h | h
    · have := hseg f hfnd 0 le_rfl zero_le_one
      rw [V2.lerp_zero] at this
      rw [← h]; exact this
    · have := hseg f hfnd 1 zero_le_one le_rfl
      rw [V2.lerp_one] at this
      rw [← h]; exact this
  obtain ⟨r, hr, ⟨f, hf, hfr, _⟩, hmin⟩ := scanWith_covered (segLeaf2Skip E c) (segRefDist E c) segs hne hD hc
  have hfnd : f.1.a ≠ f.1.b := by
    intro hdeg; rw [hnone f hdeg] at hfr; cases hfr
  rw [hleaf f hfnd] at hfr
  cases hfr
  refine ⟨_, _, _, hr, (V2.dist_facts hE _ _).1, (V2.dist_facts hE _ _).2, ?_, ?_⟩
  · refine ⟨f, hf, rfl, hfnd, rfl, ?_⟩
    rw [segClosest2_eq_Q hE _ _ _ (V2.normSq_sub_pos hfnd)]
    exact segClosestQ2_mem _ _ _ (V2.normSq_sub_pos hfnd)
  · intro g hg t ht0 ht1
    have h1 := hmin g hg
    have hd0 := (V2.dist_facts hE (segClosest2 E f.1.a f.1.b c) c).1
    by_cases hgd : g.1.a = g.1.b
    · simp only [segRefDist, (vecEq2_iff _ _).mpr hgd, if_true] at h1
      have := sq_le_of_le hd0 h1
      rw [(V2.dist_facts hE g.1.a c).2] at this
      rw [← hgd, V2.lerp_self]; exact this
    · have hv : vecEq2 g.1.a g.1.b = false := by
        rw [Bool.eq_false_iff]; intro hv; exact hgd ((vecEq2_iff _ _).mp hv)
      simp only [segRefDist, hv, Bool.false_eq_true, if_false] at h1
      exact le_trans (sq_le_of_le hd0 h1) (hseg g hgd t ht0 ht1)

end field
end M3d.Sdf
