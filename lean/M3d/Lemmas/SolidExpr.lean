import M3d.Model.SolidExpr
import M3d.Lemmas.SolidTree
/-!
Helper lemmas for C04: every combinator, seen as a `Solid` (bounds + `Contains`), respects its bounds when
its operands do and computes the pointwise boolean formula — hence so does every nest of combinators.
-/
namespace M3d.SolidAlg
set_option linter.unusedSectionVars false
set_option linter.unusedVariables false
variable {K : Type} [LinearOrder K]

theorem joined_any {P : Type} (ss : List (P → Bool)) (p : P) : joined ss p = ss.any (fun s => s p) := by
  induction ss with
  | nil => rfl
  | cons s rest ih => cases h : s p <;> simp [joined, ih, h]

theorem intersected_all {P : Type} (ss : List (P → Bool)) (p : P) : intersected ss p = ss.all (fun s => s p) := by
  induction ss with
  | nil => rfl
  | cons s rest ih => cases h : s p <;> simp [intersected, ih, h]

/-- `JoinedSolid` as a solid. -/
theorem joinedSolid_spec {n : Nat} (l : List (Solid K)) (hne : l ≠ []) (hb : ∀ x ∈ l, Bounded n x) :
    ∃ s, joinedSolid l = some s ∧ Bounded n s ∧ ∀ p, s.f p = l.any (fun x => x.f p) := by
  match l, hne with
  | a :: rest, _ =>
    have hf : ∀ p, joined ((a :: rest).map (·.f)) p = (a :: rest).any (fun x => x.f p) := fun p => by
      rw [joined_any, List.any_map]; rfl
    refine ⟨_, rfl, fun p h => ?_, hf⟩
    have h' : (a :: rest).any (fun x => x.f p) = true := by rw [← hf p]; exact h
    obtain ⟨x, hx, hxf⟩ := List.any_eq_true.mp h'
    exact joinedBox_contains a rest hx (hb x hx p hxf)

theorem maxOf_le_iff (a b x : K) : maxOf a b ≤ x ↔ a ≤ x ∧ b ≤ x := by
  unfold maxOf
  split_ifs with h
  · exact ⟨fun hb => ⟨le_trans h hb, hb⟩, fun h' => h'.2⟩
  · exact ⟨fun ha => ⟨ha, le_trans (le_of_not_ge h) ha⟩, fun h' => h'.1⟩

theorem le_minOf_iff (a b x : K) : x ≤ minOf a b ↔ x ≤ a ∧ x ≤ b := by
  unfold minOf
  split_ifs with h
  · exact ⟨fun ha => ⟨ha, le_trans ha h⟩, fun h' => h'.1⟩
  · exact ⟨fun hb => ⟨le_trans hb (le_of_not_ge h), hb⟩, fun h' => h'.2⟩

theorem foldl_max_le_iff (rest : List (Solid K)) (acc : Pt K) (i : Nat) (x : K) :
    (rest.foldl (fun b s => fun i => maxOf (b i) (s.box.lo i)) acc) i ≤ x ↔
      acc i ≤ x ∧ ∀ s ∈ rest, s.box.lo i ≤ x := by
  induction rest generalizing acc with
  | nil => simp
  | cons s rest ih =>
    rw [List.foldl_cons, ih]
    simp only [maxOf_le_iff, List.mem_cons, forall_eq_or_imp]
    exact and_assoc

theorem le_foldl_min_iff (rest : List (Solid K)) (acc : Pt K) (i : Nat) (x : K) :
    x ≤ (rest.foldl (fun b s => fun i => minOf (b i) (s.box.hi i)) acc) i ↔
      x ≤ acc i ∧ ∀ s ∈ rest, x ≤ s.box.hi i := by
  induction rest generalizing acc with
  | nil => simp
  | cons s rest ih =>
    rw [List.foldl_cons, ih]
    simp only [le_minOf_iff, List.mem_cons, forall_eq_or_imp]
    exact and_assoc

/-- `IntersectedSolid.Min/Max` enclose every point that lies in the bounds of all operands. -/
theorem interBox_contains {n : Nat} (a : Solid K) (rest : List (Solid K)) (p : Pt K)
    (h : ∀ x ∈ a :: rest, x.box.contains n p = true) : (interBox a rest).contains n p = true := by
  rw [Box.contains_iff]
  intro i hi
  have hall : ∀ x ∈ a :: rest, x.box.lo i ≤ p i ∧ p i ≤ x.box.hi i := fun x hx =>
    (Box.contains_iff n x.box p).mp (h x hx) i hi
  simp only [interBox]
  constructor
  · rw [foldl_max_le_iff]
    exact ⟨(hall a (by simp)).1, fun s hs => (hall s (by simp [hs])).1⟩
  · refine le_trans ?_ (le_maxOf_left _ _)
    rw [le_foldl_min_iff]
    exact ⟨(hall a (by simp)).2, fun s hs => (hall s (by simp [hs])).2⟩

/-- `IntersectedSolid` as a solid. -/
theorem interSolid_spec {n : Nat} (l : List (Solid K)) (hne : l ≠ []) (hb : ∀ x ∈ l, Bounded n x) :
    ∃ s, interSolid l = some s ∧ Bounded n s ∧ ∀ p, s.f p = l.all (fun x => x.f p) := by
  match l, hne with
  | a :: rest, _ =>
    have hf : ∀ p, intersected ((a :: rest).map (·.f)) p = (a :: rest).all (fun x => x.f p) := fun p => by
      rw [intersected_all, List.all_map]; rfl
    refine ⟨_, rfl, fun p h => ?_, hf⟩
    have h' : (a :: rest).all (fun x => x.f p) = true := by rw [← hf p]; exact h
    exact interBox_contains a rest p fun x hx => hb x hx p (List.all_eq_true.mp h' x hx)

/-- `SubtractedSolid` as a solid. -/
theorem subSolid_spec {n : Nat} {a : Solid K} (b : Solid K) (ha : Bounded n a) :
    Bounded n (subSolid a b) ∧ ∀ p, (subSolid a b).f p = (a.f p && !(b.f p)) := by
  refine ⟨fun p h => ?_, fun p => rfl⟩
  simp only [subSolid, subtracted, Bool.and_eq_true] at h
  exact ha p h.1

/-- `JoinedSolid.Optimize()` as a solid, for any reordering at this node. -/
theorem optimize_spec {n : Nat} (g : List (Solid K) → List (Solid K)) (l : List (Solid K))
    (hg : (g l).Perm l) (hne : l ≠ []) (hb : ∀ x ∈ l, Bounded n x) :
    ∃ t, optimize n g l = some t ∧ Bounded n t ∧ ∀ p, t.f p = l.any (fun x => x.f p) := by
  have hlen : 0 < (g l).length := by rw [hg.length_eq]; exact List.length_pos_iff.mpr hne
  obtain ⟨t, ht, htb, htf⟩ := grouped_spec n (g l).length (g l) hlen (le_refl _)
    (fun x hx => hb x (hg.subset hx))
  exact ⟨t, ht, htb, fun p => by rw [htf p, hg.any_eq]⟩

theorem Mux.contains_box {n : Nat} (m : Mux K) (b : Box K) (hb : m.box? = some b) (p : Pt K)
    (h : m.contains n p = true) : b.contains n p = true := by
  cases m with
  | empty => simp [Mux.box?] at hb
  | leaf box s i =>
    simp only [Mux.box?, Option.some.injEq] at hb; subst hb
    simp only [Mux.contains, Bool.and_eq_true] at h; exact h.1
  | node box t l r =>
    simp only [Mux.box?, Option.some.injEq] at hb; subst hb
    simp only [Mux.contains, Bool.and_eq_true] at h; exact h.1

theorem groupedMux_box (fuel : Nat) (s : List (Nat × Solid K)) (m : Mux K) (h : groupedMux fuel s = some m) :
    ∃ b, m.box? = some b := by
  cases fuel with
  | zero => simp [groupedMux] at h
  | succ fuel =>
    match s, h with
    | [], h => simp [groupedMux] at h
    | [(i, a)], h =>
      simp only [groupedMux, Option.some.injEq] at h; subst h; exact ⟨_, rfl⟩
    | a :: b :: rest, h =>
      simp only [groupedMux] at h
      split at h
      · simp only [Option.some.injEq] at h; subst h; exact ⟨_, rfl⟩
      · exact absurd h (by simp)

/-- `NewSolidMux(l)` used as a solid, for any reordering at this node. -/
theorem muxSolid_spec {n : Nat} (g : List (Nat × Solid K) → List (Nat × Solid K)) (l : List (Solid K))
    (hg : (g ((List.range l.length).zip l)).Perm ((List.range l.length).zip l))
    (hne : l ≠ []) (hb : ∀ x ∈ l, Bounded n x) :
    ∃ s, (newMux g l).bind (muxSolid n) = some s ∧ Bounded n s ∧ ∀ p, s.f p = l.any (fun x => x.f p) := by
  have hzlen : ((List.range l.length).zip l).length = l.length := by simp
  have hsnd : ((List.range l.length).zip l).map Prod.snd = l := List.map_snd_zip (by simp)
  have hlen : 0 < (g ((List.range l.length).zip l)).length := by
    rw [hg.length_eq, hzlen]; exact List.length_pos_iff.mpr hne
  have hbz : ∀ x ∈ g ((List.range l.length).zip l), Bounded n x.2 := by
    intro x hx
    have hx' := hg.subset hx
    exact hb x.2 (by rw [← hsnd]; exact List.mem_map_of_mem hx')
  obtain ⟨m, hm, _, hmf⟩ := groupedMux_spec n _ _ hlen (le_refl _) hbz
  obtain ⟨b, hbox⟩ := groupedMux_box _ _ m hm
  have hnm : newMux g l = some m := by
    unfold newMux
    have : l.isEmpty = false := by cases l with | nil => exact absurd rfl hne | cons _ _ => rfl
    simp only [this, Bool.false_eq_true, if_false]
    exact hm
  refine ⟨⟨b, m.contains n⟩, ?_, fun p h => Mux.contains_box m b hbox p h, fun p => ?_⟩
  · simp [hnm, muxSolid, hbox]
  · have key : l.any (fun x => x.f p) = ((List.range l.length).zip l).any (fun x => x.2.f p) := by
      conv_lhs => rw [← hsnd]
      rw [List.any_map]; rfl
    show m.contains n p = _
    rw [(hmf p).1, hg.any_eq, ← key]

/-! ### Well-formed expressions and the main induction -/

mutual
/-- Leaves respect their bounds; the reordering at every `Optimize` / `SolidMux` node is a permutation. -/
def Expr.WF (n : Nat) : Expr K → Prop
  | .leaf s => Bounded n s
  | .join es => es.WF n
  | .opt g es => (∀ l : List (Solid K), l.length = es.length → (g l).Perm l) ∧ es.WF n
  | .mux g es => (∀ l : List (Nat × Solid K), l.length = es.length → (g l).Perm l) ∧ es.WF n
  | .inter es => es.WF n
  | .sub a b => a.WF n ∧ b.WF n
def Exprs.WF (n : Nat) : Exprs K → Prop
  | .one e => e.WF n
  | .cons e es => e.WF n ∧ es.WF n
end

theorem any_map_id (l : List (Solid K)) (p : Pt K) : l.any (fun x => x.f p) = (l.map (fun x => x.f p)).any id := by
  rw [List.any_map]; rfl

theorem all_map_id (l : List (Solid K)) (p : Pt K) : l.all (fun x => x.f p) = (l.map (fun x => x.f p)).all id := by
  rw [List.all_map]; rfl

mutual
theorem Expr.toSolid_spec (n : Nat) : ∀ (e : Expr K), e.WF n →
    ∃ s, e.toSolid n = some s ∧ Bounded n s ∧ ∀ p, s.f p = e.eval p
  | .leaf s, h => ⟨s, rfl, h, fun _ => rfl⟩
  | .join es, h => by
    obtain ⟨l, hl, hlen, hb, hf⟩ := Exprs.toSolids_spec n es h
    have hne : l ≠ [] := by intro h0; rw [h0] at hlen; cases es <;> simp [Exprs.length] at hlen
    obtain ⟨s, hs, hsb, hsf⟩ := joinedSolid_spec l hne hb
    exact ⟨s, by simp only [Expr.toSolid, hl, Option.bind_some, hs], hsb,
      fun p => by rw [hsf p, any_map_id, hf p]; simp only [Expr.eval]⟩
  | .opt g es, h => by
    obtain ⟨l, hl, hlen, hb, hf⟩ := Exprs.toSolids_spec n es h.2
    have hne : l ≠ [] := by intro h0; rw [h0] at hlen; cases es <;> simp [Exprs.length] at hlen
    obtain ⟨s, hs, hsb, hsf⟩ := optimize_spec g l (h.1 l hlen) hne hb
    exact ⟨s, by simp only [Expr.toSolid, hl, Option.bind_some, hs], hsb,
      fun p => by rw [hsf p, any_map_id, hf p]; simp only [Expr.eval]⟩
  | .mux g es, h => by
    obtain ⟨l, hl, hlen, hb, hf⟩ := Exprs.toSolids_spec n es h.2
    have hne : l ≠ [] := by intro h0; rw [h0] at hlen; cases es <;> simp [Exprs.length] at hlen
    obtain ⟨s, hs, hsb, hsf⟩ := muxSolid_spec g l (h.1 _ (by simp [hlen])) hne hb
    exact ⟨s, by simp only [Expr.toSolid, hl, Option.bind_some, hs], hsb,
      fun p => by rw [hsf p, any_map_id, hf p]; simp only [Expr.eval]⟩
  | .inter es, h => by
    obtain ⟨l, hl, hlen, hb, hf⟩ := Exprs.toSolids_spec n es h
    have hne : l ≠ [] := by intro h0; rw [h0] at hlen; cases es <;> simp [Exprs.length] at hlen
    obtain ⟨s, hs, hsb, hsf⟩ := interSolid_spec l hne hb
    exact ⟨s, by simp only [Expr.toSolid, hl, Option.bind_some, hs], hsb,
      fun p => by rw [hsf p, all_map_id, hf p]; simp only [Expr.eval]⟩
  | .sub a b, h => by
    obtain ⟨sa, ha, hab, haf⟩ := Expr.toSolid_spec n a h.1
    obtain ⟨sb, hb, _, hbf⟩ := Expr.toSolid_spec n b h.2
    obtain ⟨hsb, hsf⟩ := subSolid_spec (n := n) sb hab
    exact ⟨subSolid sa sb, by simp only [Expr.toSolid, ha, hb], hsb,
      fun p => by rw [hsf p, haf p, hbf p]; simp only [Expr.eval]⟩
theorem Exprs.toSolids_spec (n : Nat) : ∀ (es : Exprs K), es.WF n →
    ∃ l, es.toSolids n = some l ∧ l.length = es.length ∧ (∀ x ∈ l, Bounded n x) ∧
      ∀ p, l.map (fun x => x.f p) = es.evals p
  | .one e, h => by
    obtain ⟨s, hs, hsb, hsf⟩ := Expr.toSolid_spec n e h
    exact ⟨[s], by simp only [Exprs.toSolids, hs, Option.map_some], rfl,
      fun x hx => by rw [List.mem_singleton] at hx; subst hx; exact hsb,
      fun p => by simp only [List.map_cons, List.map_nil, Exprs.evals, hsf p]⟩
  | .cons e es, h => by
    obtain ⟨s, hs, hsb, hsf⟩ := Expr.toSolid_spec n e h.1
    obtain ⟨l, hl, hlen, hb, hf⟩ := Exprs.toSolids_spec n es h.2
    exact ⟨s :: l, by simp only [Exprs.toSolids, hs, hl], by simp [Exprs.length, hlen],
      fun x hx => by
        rcases List.mem_cons.mp hx with rfl | hx
        · exact hsb
        · exact hb x hx,
      fun p => by simp only [List.map_cons, Exprs.evals, hsf p, hf p]⟩
end

end M3d.SolidAlg
