import M3d.Lemmas.CollideCyl
import M3d.Lemmas.CollideXf
import M3d.Model.CollideCone
/-!
# C07 — `Cone.RayCollisions`: the reported collisions lie on the cone and carry the unit outward normal

`ax` is the unit axis from the tip to the base, `L = |Base - Tip|`, `z = (P - Tip)·ax` the axial coordinate of a
point and `radialVec` its component orthogonal to the axis.  The lateral surface is `|radialVec| = z·R/L`,
`0 ≤ z ≤ L`; the side polynomial of the code is `|radialVec|² - (z·R/L)²` along the ray (Parseval for the
orthonormal frame `b1, b2, ax` that `OrthoBasis` produces).
-/
set_option linter.unusedSectionVars false
set_option linter.unusedVariables false
namespace M3d.Col

variable {K : Type} [Field K] [LinearOrder K] [IsStrictOrderedRing K]

/-! ## orthonormal frames -/

/-- Parseval for an orthonormal triple in 3-space -/
theorem parseval3 (u1 u2 u3 p : V3 K) (h11 : u1.dot u1 = 1) (h22 : u2.dot u2 = 1) (h33 : u3.dot u3 = 1)
    (h12 : u1.dot u2 = 0) (h13 : u1.dot u3 = 0) (h23 : u2.dot u3 = 0) :
    u1.dot p * u1.dot p + u2.dot p * u2.dot p + u3.dot p * u3.dot p = p.dot p := by
  let b : Tf.M3 K := ⟨u1.x, u2.x, u3.x, u1.y, u2.y, u3.y, u1.z, u2.z, u3.z⟩
  have hb : b.transpose.mul b = Tf.M3.one := by
    simp only [V3.dot] at h11 h22 h33 h12 h13 h23
    simp only [b, Tf.M3.mul, Tf.M3.transpose, Tf.M3.one, Tf.M3.mk.injEq]
    refine ⟨?_, ?_, ?_, ?_, ?_, ?_, ?_, ?_, ?_⟩ <;> linarith
  have hbt := Tf.M3.mul_transpose_of_ortho b hb
  simp only [b, Tf.M3.mul, Tf.M3.transpose, Tf.M3.one, Tf.M3.mk.injEq] at hbt
  obtain ⟨e0, e1, e2, e3, e4, e5, e6, e7, e8⟩ := hbt
  simp only [V3.dot]
  linear_combination p.x * p.x * e0 + p.x * p.y * e1 + p.x * p.z * e2 + p.y * p.x * e3 + p.y * p.y * e4 +
    p.y * p.z * e5 + p.z * p.x * e6 + p.z * p.y * e7 + p.z * p.z * e8

theorem sqrt_one {sqrtF : K → K} (hs : SqrtOK sqrtF) : sqrtF 1 = 1 := by
  have := sqrt_sq_eq hs (zero_le_one : (0 : K) ≤ 1)
  rwa [mul_one] at this

/-- normalising a unit vector changes nothing -/
theorem normalize_of_unit {sqrtF : K → K} (hs : SqrtOK sqrtF) (a : V3 K) (ha : a.dot a = 1) :
    a.normalize sqrtF = a := by
  have : a.x * a.x + a.y * a.y + a.z * a.z = 1 := ha
  simp only [V3.normalize, V3.norm, this, sqrt_one hs, V3.scale]
  cases a; simp

/-- the cone's frame: unit axis, positive length, `OrthoBasis` completes it to an orthonormal basis -/
theorem cone_frame {sqrtF : K → K} (hs : SqrtOK sqrtF) (tip base : V3 K)
    (hax : (base.sub tip).dot (base.sub tip) ≠ 0) :
    let ax := coneAxis sqrtF tip base
    let L := (base.sub tip).norm sqrtF
    let bb := coneBasis sqrtF tip base
    ax.dot ax = 1 ∧ 0 < L ∧ ax.scale L = base.sub tip ∧ (base.sub tip).dot ax = L ∧
      bb.1.dot bb.1 = 1 ∧ bb.2.dot bb.2 = 1 ∧ bb.1.dot bb.2 = 0 ∧ bb.1.dot ax = 0 ∧ bb.2.dot ax = 0 := by
  intro ax L bb
  have hax1 : ax.dot ax = 1 := V3.normalize_unit hs _ hax
  obtain ⟨hL, hvL⟩ := normalize_dot_self hs (base.sub tip) hax
  obtain ⟨hn0, hn1⟩ := hs ((base.sub tip).x * (base.sub tip).x + (base.sub tip).y * (base.sub tip).y +
    (base.sub tip).z * (base.sub tip).z) (sumsq3_nonneg _ _ _)
  have hLpos : 0 < L := by
    refine lt_of_le_of_ne hn0 (fun h0 => hax ?_)
    have : L * L = (base.sub tip).dot (base.sub tip) := hn1
    rw [← this, ← h0]; ring
  have hs' : ∀ x : K, 0 < x → sqrtF x * sqrtF x = x := fun x hx => (hs x (le_of_lt hx)).2
  have hob := Tf.orthoBasis_orthonormal sqrtF hs' ax.toTf hax1
  simp only at hob
  obtain ⟨o1, o2, o3, o4, o5⟩ := hob
  refine ⟨hax1, hLpos, hvL, hL, o1, o2, o5, ?_, ?_⟩
  · rw [dot_comm3]; exact o3
  · rw [dot_comm3]; exact o4

/-! ## the side polynomial -/

/-- the coefficients are those of `(b1·p)² + (b2·p)² - ((p·axis)·R/norm)²` along `p = o + t·d` -/
theorem coneCoeffs_eval (b1 b2 axis o d : V3 K) (radius norm t : K) :
    (coneCoeffs b1 b2 axis o d radius norm).1 + (coneCoeffs b1 b2 axis o d radius norm).2.1 * t +
        (coneCoeffs b1 b2 axis o d radius norm).2.2 * t * t =
      b1.dot (o.add (d.scale t)) * b1.dot (o.add (d.scale t)) +
        b2.dot (o.add (d.scale t)) * b2.dot (o.add (d.scale t)) -
        ((o.add (d.scale t)).dot axis * radius / norm) * ((o.add (d.scale t)).dot axis * radius / norm) := by
  simp only [coneCoeffs, V3.dot, V3.add, V3.scale]
  ring

/-- **`Polynomial.IterRealRoots` on a polynomial of degree ≤ 2 reports roots, and all of them** (unless the
polynomial is identically zero). -/
theorem polyRoots2_spec {sqrtF : K → K} (hs : SqrtOK sqrtF) (k0 k1 k2 : K) :
    (∀ t ∈ polyRoots2 sqrtF k0 k1 k2, k0 + k1 * t + k2 * t * t = 0) ∧
    (¬ (k0 = 0 ∧ k1 = 0 ∧ k2 = 0) → ∀ t, k0 + k1 * t + k2 * t * t = 0 → t ∈ polyRoots2 sqrtF k0 k1 k2) := by
  unfold polyRoots2
  simp only [isZero_iff, two_eq, four_eq]
  by_cases h2 : k2 = 0
  · rw [if_pos h2]
    by_cases h1 : k1 = 0
    · rw [if_pos h1]
      refine ⟨fun t ht => (by cases ht), fun hne t ht => ?_⟩
      exfalso; apply hne
      rw [h1, h2] at ht
      exact ⟨by linarith, h1, h2⟩
    · rw [if_neg h1]
      refine ⟨fun t ht => ?_, fun _ t ht => ?_⟩
      · rw [List.mem_singleton.1 ht, h2]; field_simp; ring
      · rw [List.mem_singleton, h2] at *
        field_simp; linarith
  · rw [if_neg h2]
    by_cases hd : k1 * k1 - 4 * k2 * k0 < 0
    · rw [if_pos hd]
      refine ⟨fun t ht => (by cases ht), fun _ t ht => ?_⟩
      exfalso
      have := quad_disc_nonneg k2 k1 k0 t (by linarith)
      linarith
    · rw [if_neg hd]
      obtain ⟨hs0, hs1⟩ := hs _ (not_lt.1 hd)
      set s := sqrtF (k1 * k1 - 4 * k2 * k0) with hsdef
      have r1 := quad_root k2 k1 k0 s (-1) h2 hs1 (by ring)
      have r2 := quad_root k2 k1 k0 s 1 h2 hs1 (by ring)
      have e1 : (-k1 + -1 * s) / (2 * k2) = (-k1 - s) / (2 * k2) := by ring
      have e2 : (-k1 + 1 * s) / (2 * k2) = (-k1 + s) / (2 * k2) := by ring
      rw [e1] at r1; rw [e2] at r2
      have hmem : ∀ t, (t ∈ (if (-k1 + s) / (2 * k2) < (-k1 - s) / (2 * k2) then
            [(-k1 + s) / (2 * k2), (-k1 - s) / (2 * k2)] else [(-k1 - s) / (2 * k2), (-k1 + s) / (2 * k2)])) ↔
          t = (-k1 - s) / (2 * k2) ∨ t = (-k1 + s) / (2 * k2) := by
        intro t
        split <;> simp only [List.mem_cons, List.mem_nil_iff, or_false]
        exact or_comm
      refine ⟨fun t ht => ?_, fun _ t ht => ?_⟩
      · rcases (hmem t).1 ht with rfl | rfl
        · linear_combination r1
        · linear_combination r2
      · rw [hmem]
        rcases quad_root_complete k2 k1 k0 s t h2 hs1 (by linarith) with h | h
        · right; exact h
        · left; exact h

/-! ## `safeNormal` -/

/-- `safeNormal(P - Base, b1, ax)`: a unit vector orthogonal to the axis — the fallback `b1`, or the unit
radial direction of `P`. -/
theorem safeNormal_spec {sqrtF : K → K} (hs : SqrtOK sqrtF) (tol : K) (htol : 0 < tol) (tip ax b1 P : V3 K) (L : K)
    (hax1 : ax.dot ax = 1) (hb1 : b1.dot b1 = 1) (hb1ax : b1.dot ax = 0) (u : V3 K)
    (hu : u = safeNormal sqrtF tol (P.sub (tip.add (ax.scale L))) b1 ax) :
    u.dot u = 1 ∧ u.dot ax = 0 ∧ (u = b1 ∨ ∃ k, 0 < k ∧ u = (radialVec tip ax P).scale k) := by
  unfold safeNormal at hu
  simp only [isZero_iff] at hu
  set dir := P.sub (tip.add (ax.scale L)) with hdir
  by_cases hn : dir.norm sqrtF = 0
  · simp only [hn, if_true] at hu
    subst hu
    exact ⟨hb1, hb1ax, Or.inl rfl⟩
  · simp only [hn, if_false] at hu
    have hnn : 0 ≤ dir.norm sqrtF := (hs _ (sumsq3_nonneg _ _ _)).1
    have hnpos : 0 < dir.norm sqrtF := lt_of_le_of_ne hnn (Ne.symm hn)
    -- the projected vector is the radial vector of P, scaled by 1 / |dir|
    have hproj : ∀ c : K, ((dir.scale c).projectOut sqrtF ax) = (radialVec tip ax P).scale c := by
      intro c
      unfold V3.projectOut
      rw [normalize_of_unit hs ax hax1]
      simp only [hdir, radialVec, axialZ, V3.sub, V3.add, V3.scale, V3.dot, V3.mk.injEq] at hax1 ⊢
      refine ⟨?_, ?_, ?_⟩
      · linear_combination (c * L * ax.x) * hax1
      · linear_combination (c * L * ax.y) * hax1
      · linear_combination (c * L * ax.z) * hax1
    rw [hproj] at hu
    set d1 := (radialVec tip ax P).scale (1 / dir.norm sqrtF) with hd1
    by_cases hsmall : d1.norm sqrtF < tol
    · simp only [hsmall, if_true] at hu
      subst hu
      exact ⟨hb1, hb1ax, Or.inl rfl⟩
    · simp only [hsmall, if_false] at hu
      obtain ⟨hq0, hq1⟩ := hs (d1.x * d1.x + d1.y * d1.y + d1.z * d1.z) (sumsq3_nonneg _ _ _)
      have hn1pos : 0 < d1.norm sqrtF := lt_of_lt_of_le htol (not_lt.1 hsmall)
      have hd1ne : d1.dot d1 ≠ 0 := by
        intro h0
        have : d1.norm sqrtF * d1.norm sqrtF = d1.dot d1 := hq1
        rw [h0] at this
        have := mul_pos hn1pos hn1pos
        linarith
      have hu' : u = d1.normalize sqrtF := hu
      refine ⟨by rw [hu']; exact V3.normalize_unit hs d1 hd1ne, ?_, Or.inr ?_⟩
      · have horth : d1.dot ax = 0 := by
          have := radialVec_orth tip ax P hax1
          simp only [hd1, V3.dot, V3.scale] at this ⊢
          linear_combination (1 / dir.norm sqrtF) * this
        rw [hu']
        simp only [V3.normalize, V3.dot, V3.scale] at horth ⊢
        linear_combination (1 / d1.norm sqrtF) * horth
      · obtain ⟨k, hk, he⟩ := V3.normalize_pos_mul hs d1 hd1ne
        refine ⟨1 / dir.norm sqrtF * k, mul_pos (one_div_pos.2 hnpos) hk, ?_⟩
        rw [hu', he, hd1]
        simp only [V3.scale, V3.mk.injEq]
        exact ⟨by ring, by ring, by ring⟩

/-! ## the lateral surface -/

/-- for a unit axis: `|radialVec|² = |P - p1|² - z²` -/
theorem radialSq_eq (p1 v P : V3 K) (hv : v.dot v = 1) :
    radialSq p1 v P = (P.sub p1).dot (P.sub p1) - axialZ p1 v P * axialZ p1 v P := by
  simp only [radialSq, radialVec, axialZ, V3.sub, V3.scale, V3.dot] at hv ⊢
  linear_combination (((P.x - p1.x) * v.x + (P.y - p1.y) * v.y + (P.z - p1.z) * v.z) *
    ((P.x - p1.x) * v.x + (P.y - p1.y) * v.y + (P.z - p1.z) * v.z)) * hv

/-- one side candidate of `Cone.RayCollisions`, for a root `t` of the side polynomial -/
theorem coneSideHit_sound {sqrtF : K → K} (hs : SqrtOK sqrtF) (tol : K) (htol : 0 < tol) (tip base : V3 K)
    (radius : K) (hr : 0 < radius) (o0 d : V3 K) (hax : (base.sub tip).dot (base.sub tip) ≠ 0) (t : K)
    (hroot : t ∈ coneRoots sqrtF tip base radius o0 d) (h : Hit K)
    (hh : coneSideHit sqrtF tol tip base radius (coneBasis sqrtF tip base).1 o0 d t = some h) :
    let ax := coneAxis sqrtF tip base
    let L := (base.sub tip).norm sqrtF
    let P := o0.along d h.t
    0 ≤ h.t ∧ h.n.dot h.n = 1 ∧ 0 ≤ axialZ tip ax P ∧ axialZ tip ax P ≤ L ∧
      radialSq tip ax P = (axialZ tip ax P * radius / L) * (axialZ tip ax P * radius / L) ∧
      ∃ u : V3 K, u.dot u = 1 ∧ u.dot ax = 0 ∧
        (u = (coneBasis sqrtF tip base).1 ∨ ∃ k, 0 < k ∧ u = (radialVec tip ax P).scale k) ∧
        h.n = (coneNormalDir u (tip.sub base) L radius).normalize sqrtF := by
  intro ax L P
  obtain ⟨hax1, hLpos, hvL, hL, hb11, hb22, hb12, hb1ax, hb2ax⟩ := cone_frame hs tip base hax
  -- the root property
  have hpoly := (polyRoots2_spec hs _ _ _).1 t hroot
  rw [coneCoeffs_eval] at hpoly
  unfold coneSideHit at hh
  simp only [] at hh
  split at hh
  · cases hh
  · rename_i hneg
    split at hh
    · rename_i hz
      have he := (Option.some.inj hh).symm
      have hpt : (o0.sub tip).add (d.scale t) = (o0.along d t).sub tip := sub_along o0 tip d t
      have hzz : (coneAxis sqrtF tip base).dot ((o0.sub tip).add (d.scale t)) = axialZ tip ax (o0.along d t) := by
        rw [hpt, dot_comm3]; rfl
      have hdir : (((o0.sub tip).add (d.scale t)).add tip).sub base =
          (o0.along d t).sub (tip.add (ax.scale L)) := by
        rw [hvL, hpt]
        simp only [V3.sub, V3.add, V3.mk.injEq]
        exact ⟨by ring, by ring, by ring⟩
      rw [hdir] at he
      obtain ⟨hu1, hu2, hu3⟩ := safeNormal_spec hs tol htol tip ax (coneBasis sqrtF tip base).1 (o0.along d t) L
        hax1 hb11 hb1ax _ rfl
      rw [hzz] at hz
      -- on the surface
      have hsurf : radialSq tip ax (o0.along d t) =
          (axialZ tip ax (o0.along d t) * radius / L) * (axialZ tip ax (o0.along d t) * radius / L) := by
        rw [radialSq_eq tip ax _ hax1]
        have hpv := parseval3 (coneBasis sqrtF tip base).1 (coneBasis sqrtF tip base).2 ax
          ((o0.along d t).sub tip) hb11 hb22 hax1 hb12 hb1ax hb2ax
        rw [hpt] at hpoly
        have hz' : ((o0.along d t).sub tip).dot ax = axialZ tip ax (o0.along d t) := rfl
        have hz'' : ax.dot ((o0.along d t).sub tip) = axialZ tip ax (o0.along d t) := by rw [dot_comm3]; rfl
        rw [hz'] at hpoly
        rw [hz''] at hpv
        linarith
      -- the normal is a unit vector
      set u := safeNormal sqrtF tol ((o0.along d t).sub (tip.add (ax.scale L))) (coneBasis sqrtF tip base).1 ax with hu
      have hN : (coneNormalDir u (tip.sub base) L radius).dot (coneNormalDir u (tip.sub base) L radius) =
          L * L + radius * radius := by
        have htb : tip.sub base = ax.scale (-L) := by
          have : base.sub tip = ax.scale L := hvL.symm
          simp only [V3.sub, V3.scale, V3.mk.injEq] at this ⊢
          exact ⟨by linarith [this.1], by linarith [this.2.1], by linarith [this.2.2]⟩
        rw [htb]
        have hLne : L ≠ 0 := ne_of_gt hLpos
        have hnd : coneNormalDir u (ax.scale (-L)) L radius = (u.scale L).sub (ax.scale radius) := by
          simp only [coneNormalDir, V3.add, V3.sub, V3.scale, V3.mk.injEq]
          refine ⟨?_, ?_, ?_⟩ <;> field_simp <;> ring
        rw [hnd]
        simp only [V3.dot, V3.sub, V3.scale] at hu1 hu2 hax1 ⊢
        linear_combination (L * L) * hu1 - (2 * L * radius) * hu2 + (radius * radius) * hax1
      have hNne : (coneNormalDir u (tip.sub base) L radius).dot (coneNormalDir u (tip.sub base) L radius) ≠ 0 := by
        rw [hN]; exact ne_of_gt (by positivity)
      subst he
      exact ⟨not_lt.1 hneg, V3.normalize_unit hs _ hNne, hz.1, hz.2, hsurf, u, hu1, hu2, hu3, rfl⟩
    · cases hh

/-- **`Cone.RayCollisions`**: every reported collision has `t ≥ 0` and a unit normal and lies on the cone —
on the lateral surface (`0 ≤ z ≤ L`, distance from the axis `z·R/L`) with the normal
`normalize(u·L + (Tip-Base)·R/L)`, `u` the unit radial direction of the hit point (or, for a point on the
axis — the apex — the fallback `b1 ⟂ axis`), or on the base disc (`z = L`, within `R` of the axis) with the
normal `ax`.  For a ray not parallel to the base (`d·ax ≠ 0`). -/
theorem cone_sound {sqrtF : K → K} (hs : SqrtOK sqrtF) (eps tol : K) (htol : 0 < tol) (tip base : V3 K)
    (radius : K) (hr : 0 < radius) (o0 d : V3 K) (hax : (base.sub tip).dot (base.sub tip) ≠ 0)
    (hdv : d.dot (coneAxis sqrtF tip base) ≠ 0) (h : Hit K) (hm : h ∈ coneHits sqrtF eps tol tip base radius o0 d) :
    let ax := coneAxis sqrtF tip base
    let L := (base.sub tip).norm sqrtF
    let P := o0.along d h.t
    ax.dot ax = 1 ∧ 0 < L ∧ 0 ≤ h.t ∧ h.n.dot h.n = 1 ∧
    ((0 ≤ axialZ tip ax P ∧ axialZ tip ax P ≤ L ∧
        radialSq tip ax P = (axialZ tip ax P * radius / L) * (axialZ tip ax P * radius / L) ∧
        ∃ u : V3 K, u.dot u = 1 ∧ u.dot ax = 0 ∧
          (u = (coneBasis sqrtF tip base).1 ∨ ∃ k, 0 < k ∧ u = (radialVec tip ax P).scale k) ∧
          h.n = (coneNormalDir u (tip.sub base) L radius).normalize sqrtF) ∨
     (axialZ tip ax P = L ∧ radialSq tip ax P ≤ radius * radius ∧ h.n = ax)) := by
  intro ax L P
  obtain ⟨hax1, hLpos, hvL, hL, _, _, _, _, _⟩ := cone_frame hs tip base hax
  unfold coneHits at hm
  simp only [List.mem_append, Option.mem_toList] at hm
  rcases hm with hm | hm
  · obtain ⟨t, ht, hh⟩ := List.mem_filterMap.1 hm
    obtain ⟨h1, h2, h3, h4, h5, h6⟩ := coneSideHit_sound hs tol htol tip base radius hr o0 d hax t ht h hh
    exact ⟨hax1, hLpos, h1, h2, Or.inl ⟨h3, h4, h5, h6⟩⟩
  · obtain ⟨_, ht, hpl, hds, hn⟩ := (castCircle_iff hs eps ax base radius (le_of_lt hr) o0 d h hdv).1 hm
    have hz : axialZ tip ax P = L := by
      have e : axialZ tip ax P = ((o0.along d h.t).sub base).dot ax + (base.sub tip).dot ax := by
        simp only [axialZ, V3.dot, V3.sub]; ring
      rw [e, hpl, zero_add]; exact hL
    have hrs : radialSq tip ax P = P.distSq base := by
      have hb : base = tip.add (ax.scale L) := by
        rw [hvL]; simp only [V3.add, V3.sub]; cases base; simp
      simp only [radialSq, radialVec, hz]
      conv_rhs => rw [hb]
      simp only [V3.dot, V3.sub, V3.scale, V3.distSq, V3.add]; ring
    exact ⟨hax1, hLpos, ht, by rw [hn]; exact hax1, Or.inr ⟨hz, by rw [hrs]; exact hds, hn⟩⟩

end M3d.Col
