import M3d.Model.CollideBVH
import M3d.Lemmas.CollideSegQuery
/-!
# C07 — `BVHToCollider` over branches of any width: every query is answered by ALL stored primitives

* `wtBoundAcc_spec`: the bounds `NewJoinedCollider` folds from the left contain the bounds of every primitive stored
  below the node (for any "contains" preorder the join is a lower bound of);
* `wtAny_iff`, `wtList_eq`: a Boolean / list query over the hierarchy is the disjunction / concatenation over all its
  leaves, provided no bounds test rejects a node holding a leaf with a non-trivial answer;
* `wtColliders_contract`, `wtCollider_ray`: the ray collider satisfies the contract for any bounds tests, and reports
  the concatenation of the leaves' collisions when no node holding a hit is rejected.
-/
set_option linter.unusedSectionVars false
set_option linter.unusedVariables false
namespace M3d.Col

section Bounds
variable {L B : Type}

/-- The bounds of a node lie below (`le` = "contains") the accumulator it started from and below the bounds of every
leaf stored under it. -/
theorem wtBoundAcc_spec (le : B → B → Prop) (hrefl : ∀ a, le a a) (htrans : ∀ a b c, le a b → le b c → le a c)
    (j : B → B → B) (hj1 : ∀ a b, le (j a b) a) (hj2 : ∀ a b, le (j a b) b) (leafB : L → B) :
    ∀ (F : WTree L) (acc : Option B),
      (∀ a, acc = some a → ∃ r, wtBoundAcc leafB j acc F = some r ∧ le r a) ∧
      (∀ l ∈ F.leaves, ∃ r, wtBoundAcc leafB j acc F = some r ∧ le r (leafB l)) := by
  have hacc1 : ∀ (acc : Option B) (b a : B), acc = some a → le (accJoin j acc b) a := by
    intro acc b a h; subst h; exact hj1 a b
  have hacc2 : ∀ (acc : Option B) (b : B), le (accJoin j acc b) b := by
    intro acc b; cases acc with
    | none => exact hrefl b
    | some a => exact hj2 a b
  intro F
  induction F with
  | nil =>
    intro acc
    refine ⟨fun a h => ⟨a, by simp [wtBoundAcc, h], hrefl a⟩, ?_⟩
    intro l hl; simp [WTree.leaves] at hl
  | leafCons l0 r ih =>
    intro acc
    obtain ⟨ih1, ih2⟩ := ih (some (accJoin j acc (leafB l0)))
    obtain ⟨res, hres, hle⟩ := ih1 _ rfl
    refine ⟨fun a h => ⟨res, by simpa [wtBoundAcc] using hres, htrans _ _ _ hle (hacc1 acc _ a h)⟩, ?_⟩
    intro l hl
    simp only [WTree.leaves, List.mem_cons] at hl
    rcases hl with rfl | hl
    · exact ⟨res, by simpa [wtBoundAcc] using hres, htrans _ _ _ hle (hacc2 acc _)⟩
    · obtain ⟨r', h1, h2⟩ := ih2 l hl
      exact ⟨r', by simpa [wtBoundAcc] using h1, h2⟩
  | nodeCons c r ihc ihr =>
    intro acc
    cases hc : wtBoundAcc leafB j none c with
    | none =>
      have hnl : c.leaves = [] := by
        cases hcl : c.leaves with
        | nil => rfl
        | cons x xs =>
          obtain ⟨r', h1, _⟩ := (ihc none).2 x (by rw [hcl]; exact List.mem_cons_self)
          rw [hc] at h1; cases h1
      obtain ⟨ih1, ih2⟩ := ihr acc
      refine ⟨fun a h => ?_, ?_⟩
      · obtain ⟨res, h1, h2⟩ := ih1 a h
        exact ⟨res, by simpa [wtBoundAcc, hc] using h1, h2⟩
      · intro l hl
        simp only [WTree.leaves, hnl, List.nil_append] at hl
        obtain ⟨res, h1, h2⟩ := ih2 l hl
        exact ⟨res, by simpa [wtBoundAcc, hc] using h1, h2⟩
    | some b =>
      obtain ⟨ih1, ih2⟩ := ihr (some (accJoin j acc b))
      obtain ⟨res, hres, hle⟩ := ih1 _ rfl
      refine ⟨fun a h => ⟨res, by simpa [wtBoundAcc, hc] using hres, htrans _ _ _ hle (hacc1 acc _ a h)⟩, ?_⟩
      intro l hl
      simp only [WTree.leaves, List.mem_append] at hl
      rcases hl with hl | hl
      · obtain ⟨r', h1, h2⟩ := (ihc none).2 l hl
        rw [hc] at h1; cases h1
        exact ⟨res, by simpa [wtBoundAcc, hc] using hres, htrans _ _ _ (htrans _ _ _ hle (hacc2 acc _)) h2⟩
      · obtain ⟨r', h1, h2⟩ := ih2 l hl
        exact ⟨r', by simpa [wtBoundAcc, hc] using h1, h2⟩

/-- A bounds test that accepts every box containing the bounds of a leaf passes at every node holding that leaf. -/
theorem wtGate_of_leaf (le : B → B → Prop) (hrefl : ∀ a, le a a) (htrans : ∀ a b c, le a b → le b c → le a c)
    (j : B → B → B) (hj1 : ∀ a b, le (j a b) a) (hj2 : ∀ a b, le (j a b) b) (leafB : L → B) (test : B → Bool)
    (n : WTree L) (l : L) (hl : l ∈ n.leaves) (ht : ∀ b, le b (leafB l) → test b = true) :
    wtGate leafB j test n = true := by
  obtain ⟨r, h1, h2⟩ := (wtBoundAcc_spec le hrefl htrans j hj1 hj2 leafB n none).2 l hl
  simp only [wtGate, h1]
  exact ht r h2

end Bounds

section Queries
variable {L S : Type}

theorem wtAnyKids_iff (gate : WTree L → Bool) (leafQ : L → Bool) (t : WTree L)
    (hadm : ∀ n : WTree L, (∀ l ∈ n.leaves, l ∈ t.leaves) → ∀ l ∈ n.leaves, leafQ l = true → gate n = true) :
    wtAnyKids gate leafQ t = true ↔ ∃ l ∈ t.leaves, leafQ l = true := by
  induction t with
  | nil => simp [wtAnyKids, WTree.leaves]
  | leafCons l0 r ih =>
    have hr : ∀ l ∈ r.leaves, l ∈ (WTree.leafCons l0 r).leaves := fun l hl => by simp [WTree.leaves, hl]
    simp only [wtAnyKids, Bool.or_eq_true, ih (fun n hn => hadm n (fun l hl => hr l (hn l hl))), WTree.leaves,
      List.mem_cons]
    constructor
    · rintro (h | ⟨l, hl, h⟩)
      · exact ⟨l0, Or.inl rfl, h⟩
      · exact ⟨l, Or.inr hl, h⟩
    · rintro ⟨l, rfl | hl, h⟩
      · exact Or.inl h
      · exact Or.inr ⟨l, hl, h⟩
  | nodeCons c r ihc ihr =>
    have hc : ∀ l ∈ c.leaves, l ∈ (WTree.nodeCons c r).leaves := fun l hl => by simp [WTree.leaves, hl]
    have hr : ∀ l ∈ r.leaves, l ∈ (WTree.nodeCons c r).leaves := fun l hl => by simp [WTree.leaves, hl]
    simp only [wtAnyKids, Bool.or_eq_true, Bool.and_eq_true,
      ihc (fun n hn => hadm n (fun l hl => hc l (hn l hl))),
      ihr (fun n hn => hadm n (fun l hl => hr l (hn l hl))), WTree.leaves, List.mem_append]
    constructor
    · rintro (⟨_, l, hl, h⟩ | ⟨l, hl, h⟩)
      · exact ⟨l, Or.inl hl, h⟩
      · exact ⟨l, Or.inr hl, h⟩
    · rintro ⟨l, hl | hl, h⟩
      · exact Or.inl ⟨hadm c hc l hl h, l, hl, h⟩
      · exact Or.inr ⟨l, hl, h⟩

/-- **A Boolean query over a BVH of any width is the disjunction over ALL its leaves**, provided no bounds test rejects
a node that holds a leaf answering true. -/
theorem wtAny_iff (gate : WTree L → Bool) (leafQ : L → Bool) (t : WTree L)
    (hadm : ∀ n : WTree L, (∀ l ∈ n.leaves, l ∈ t.leaves) → ∀ l ∈ n.leaves, leafQ l = true → gate n = true) :
    wtAny gate leafQ t = true ↔ ∃ l ∈ t.leaves, leafQ l = true := by
  simp only [wtAny, Bool.and_eq_true, wtAnyKids_iff gate leafQ t hadm]
  constructor
  · rintro ⟨_, h⟩; exact h
  · rintro ⟨l, hl, h⟩; exact ⟨hadm t (fun _ h => h) l hl h, l, hl, h⟩

theorem wtListKids_eq (gate : WTree L → Bool) (leafQ : L → List S) (t : WTree L)
    (hadm : ∀ n : WTree L, (∀ l ∈ n.leaves, l ∈ t.leaves) → ∀ l ∈ n.leaves, leafQ l ≠ [] → gate n = true) :
    wtListKids gate leafQ t = t.leaves.flatMap leafQ := by
  induction t with
  | nil => simp [wtListKids, WTree.leaves]
  | leafCons l0 r ih =>
    have hr : ∀ l ∈ r.leaves, l ∈ (WTree.leafCons l0 r).leaves := fun l hl => by simp [WTree.leaves, hl]
    simp only [wtListKids, WTree.leaves, List.flatMap_cons, ih (fun n hn => hadm n (fun l hl => hr l (hn l hl)))]
  | nodeCons c r ihc ihr =>
    have hc : ∀ l ∈ c.leaves, l ∈ (WTree.nodeCons c r).leaves := fun l hl => by simp [WTree.leaves, hl]
    have hr : ∀ l ∈ r.leaves, l ∈ (WTree.nodeCons c r).leaves := fun l hl => by simp [WTree.leaves, hl]
    simp only [wtListKids, WTree.leaves, List.flatMap_append,
      ihc (fun n hn => hadm n (fun l hl => hc l (hn l hl))),
      ihr (fun n hn => hadm n (fun l hl => hr l (hn l hl)))]
    congr 1
    split
    · rfl
    · rename_i hno
      symm
      rw [List.flatMap_eq_nil_iff]
      intro l hl
      by_contra hne
      exact hno (hadm c hc l hl hne)

/-- **A list query (`TriangleCollisions`) over a BVH of any width returns the concatenation of what ALL its leaves
return**, provided no bounds test rejects a node that holds a leaf with a non-empty answer. -/
theorem wtList_eq (gate : WTree L → Bool) (leafQ : L → List S) (t : WTree L)
    (hadm : ∀ n : WTree L, (∀ l ∈ n.leaves, l ∈ t.leaves) → ∀ l ∈ n.leaves, leafQ l ≠ [] → gate n = true) :
    wtList gate leafQ t = t.leaves.flatMap leafQ := by
  unfold wtList
  split
  · exact wtListKids_eq gate leafQ t hadm
  · rename_i hno
    symm
    rw [List.flatMap_eq_nil_iff]
    intro l hl
    by_contra hne
    exact hno (hadm t (fun _ h => h) l hl hne)

end Queries

section Rays
variable {K : Type} [Field K] [LinearOrder K] [IsStrictOrderedRing K]
variable {R H L : Type}

theorem wtColliders_contract (tOf : H → K) (admits : WTree L → R → Bool) (leafC : L → Collider R H) (r : R)
    (t : WTree L) (hl : ∀ l ∈ t.leaves, Contract tOf (leafC l) r) :
    ∀ c ∈ wtColliders tOf admits leafC t, Contract tOf c r := by
  induction t with
  | nil => intro c hc; simp [wtColliders] at hc
  | leafCons l0 rest ih =>
    intro c hc
    simp only [wtColliders, List.mem_cons] at hc
    rcases hc with rfl | hc
    · exact hl l0 (by simp [WTree.leaves])
    · exact ih (fun l h => hl l (by simp [WTree.leaves, h])) c hc
  | nodeCons kids rest ihk ihr =>
    intro c hc
    simp only [wtColliders, List.mem_cons] at hc
    rcases hc with rfl | hc
    · exact joined_contract' tOf (admits kids) _ r (ihk (fun l h => hl l (by simp [WTree.leaves, h])))
    · exact ihr (fun l h => hl l (by simp [WTree.leaves, h])) c hc

theorem wtColliders_ray (tOf : H → K) (admits : WTree L → R → Bool) (leafC : L → Collider R H) (r : R) (cb : Bool)
    (t : WTree L)
    (hadm : ∀ n : WTree L, (∀ l ∈ n.leaves, l ∈ t.leaves) → admits n r = false →
      ∀ l ∈ n.leaves, (leafC l).ray r cb = (0, [])) :
    ((wtColliders tOf admits leafC t).map fun c => (c.ray r cb).1).sum =
        (t.leaves.map fun l => ((leafC l).ray r cb).1).sum ∧
      ((wtColliders tOf admits leafC t).flatMap fun c => (c.ray r cb).2) =
        t.leaves.flatMap fun l => ((leafC l).ray r cb).2 := by
  induction t with
  | nil => simp [wtColliders, WTree.leaves]
  | leafCons l0 rest ih =>
    have hr : ∀ l ∈ rest.leaves, l ∈ (WTree.leafCons l0 rest).leaves := fun l hl => by simp [WTree.leaves, hl]
    obtain ⟨i1, i2⟩ := ih (fun n hn => hadm n (fun l hl => hr l (hn l hl)))
    simp only [wtColliders, WTree.leaves, List.map_cons, List.sum_cons, List.flatMap_cons, i1, i2, and_self]
  | nodeCons kids rest ihk ihr =>
    have hk : ∀ l ∈ kids.leaves, l ∈ (WTree.nodeCons kids rest).leaves := fun l hl => by simp [WTree.leaves, hl]
    have hr : ∀ l ∈ rest.leaves, l ∈ (WTree.nodeCons kids rest).leaves := fun l hl => by simp [WTree.leaves, hl]
    obtain ⟨k1, k2⟩ := ihk (fun n hn => hadm n (fun l hl => hk l (hn l hl)))
    obtain ⟨r1, r2⟩ := ihr (fun n hn => hadm n (fun l hl => hr l (hn l hl)))
    have hnode : (joined tOf (admits kids) (wtColliders tOf admits leafC kids)).ray r cb =
        ((kids.leaves.map fun l => ((leafC l).ray r cb).1).sum,
          kids.leaves.flatMap fun l => ((leafC l).ray r cb).2) := by
      by_cases ha : admits kids r = true
      · show joinedRay _ _ r cb = _
        rw [joinedRay_eq _ _ r cb ha, k1, k2]
      · have ha' : admits kids r = false := by simpa using ha
        have hz := hadm kids hk ha'
        have e1 : (kids.leaves.map fun l => ((leafC l).ray r cb).1).sum = 0 := by
          apply List.sum_eq_zero
          intro x hx
          obtain ⟨l, hl, rfl⟩ := List.mem_map.1 hx
          rw [hz l hl]
        have e2 : (kids.leaves.flatMap fun l => ((leafC l).ray r cb).2) = [] := by
          rw [List.flatMap_eq_nil_iff]; intro l hl; rw [hz l hl]
        rw [e1, e2]
        show joinedRay _ _ r cb = _
        simp [joinedRay, ha']
    simp only [wtColliders, WTree.leaves, List.map_cons, List.sum_cons, List.flatMap_cons, List.map_append,
      List.sum_append, List.flatMap_append, hnode, r1, r2, and_self]

end Rays

section Boxes
variable {K : Type} [Field K] [LinearOrder K] [IsStrictOrderedRing K]
variable {L : Type}

/-- the 2-D box `a` contains the box `b` -/
def Box2Le (a b : Box2 K) : Prop := a.1.x ≤ b.1.x ∧ a.1.y ≤ b.1.y ∧ b.2.x ≤ a.2.x ∧ b.2.y ≤ a.2.y
/-- the 3-D box `a` contains the box `b` -/
def Box3Le (a b : Box3 K) : Prop :=
  (a.1.x ≤ b.1.x ∧ a.1.y ≤ b.1.y ∧ a.1.z ≤ b.1.z) ∧ b.2.x ≤ a.2.x ∧ b.2.y ≤ a.2.y ∧ b.2.z ≤ a.2.z

theorem inRect2_of_box2Le (a b : Box2 K) (h : Box2Le a b) (x : V2 K) (hx : InRect2 b.1 b.2 x) : InRect2 a.1 a.2 x := by
  obtain ⟨h1, h2, h3, h4⟩ := h
  obtain ⟨c1, c2, c3, c4⟩ := hx
  exact ⟨le_trans h1 c1, le_trans c2 h3, le_trans h2 c3, le_trans c4 h4⟩

theorem inBox_of_box3Le (a b : Box3 K) (h : Box3Le a b) (x : V3 K) (hx : InBox b.1 b.2 x) : InBox a.1 a.2 x := by
  obtain ⟨⟨h1, h2, h3⟩, h4, h5, h6⟩ := h
  obtain ⟨⟨c1, c2⟩, ⟨c3, c4⟩, c5, c6⟩ := hx
  exact ⟨⟨le_trans h1 c1, le_trans c2 h4⟩, ⟨le_trans h2 c3, le_trans c4 h5⟩, le_trans h3 c5, le_trans c6 h6⟩

/-- 2-D: a bounds test that accepts every box containing the bounds of the leaf `l` passes at every node of a BVH (of
any width) that holds `l` — the bounds `NewJoinedCollider` folds contain the bounds of all the node's primitives. -/
theorem wtGate2_of_leaf (leafB : L → Box2 K) (test : Box2 K → Bool) (n : WTree L) (l : L) (hl : l ∈ n.leaves)
    (ht : ∀ b, Box2Le b (leafB l) → test b = true) : wtGate leafB box2Join test n = true := by
  apply wtGate_of_leaf Box2Le _ _ box2Join _ _ leafB test n l hl ht
  · intro a; exact ⟨le_rfl, le_rfl, le_rfl, le_rfl⟩
  · rintro a b c ⟨h1, h2, h3, h4⟩ ⟨g1, g2, g3, g4⟩
    exact ⟨le_trans h1 g1, le_trans h2 g2, le_trans g3 h3, le_trans g4 h4⟩
  · intro a b
    simp only [Box2Le, box2Join, V2.min, V2.max, minS_eq, maxS_eq]
    exact ⟨min_le_left _ _, min_le_left _ _, le_max_left _ _, le_max_left _ _⟩
  · intro a b
    simp only [Box2Le, box2Join, V2.min, V2.max, minS_eq, maxS_eq]
    exact ⟨min_le_right _ _, min_le_right _ _, le_max_right _ _, le_max_right _ _⟩

/-- 3-D twin of `wtGate2_of_leaf` -/
theorem wtGate3_of_leaf (leafB : L → Box3 K) (test : Box3 K → Bool) (n : WTree L) (l : L) (hl : l ∈ n.leaves)
    (ht : ∀ b, Box3Le b (leafB l) → test b = true) : wtGate leafB box3Join test n = true := by
  apply wtGate_of_leaf Box3Le _ _ box3Join _ _ leafB test n l hl ht
  · intro a; exact ⟨⟨le_rfl, le_rfl, le_rfl⟩, le_rfl, le_rfl, le_rfl⟩
  · rintro a b c ⟨⟨h1, h2, h3⟩, h4, h5, h6⟩ ⟨⟨g1, g2, g3⟩, g4, g5, g6⟩
    exact ⟨⟨le_trans h1 g1, le_trans h2 g2, le_trans h3 g3⟩, le_trans g4 h4, le_trans g5 h5, le_trans g6 h6⟩
  · intro a b
    simp only [Box3Le, box3Join, V3.min, V3.max, minS_eq, maxS_eq]
    exact ⟨⟨min_le_left _ _, min_le_left _ _, min_le_left _ _⟩, le_max_left _ _, le_max_left _ _, le_max_left _ _⟩
  · intro a b
    simp only [Box3Le, box3Join, V3.min, V3.max, minS_eq, maxS_eq]
    exact ⟨⟨min_le_right _ _, min_le_right _ _, min_le_right _ _⟩, le_max_right _ _, le_max_right _ _,
      le_max_right _ _⟩

end Boxes

end M3d.Col
