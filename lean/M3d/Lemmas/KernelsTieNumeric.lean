import M3d.Gen.Kernels
import M3d.Model.Numeric
import Mathlib.Tactic.Ring
import Mathlib.Algebra.Order.Field.Basic
/-!
# Tie between the REGENERATED kernels and the matrix models of C17 (`M3d/Model/Numeric.lean`)

`numerical.Matrix2/3/4` `Det`, `Inverse`/`InvertInPlaceDet` (through the in-place `Scale` loop), `Mul`,
`MulColumn`, `MulColumnInv`, `Transpose`, `Add` as `numerical/matrix*.go` defines them NOW are the model
functions of the C17 reconstruction theorems (`M · M⁻¹ = 1`, `det (A·B) = det A · det B`, …), for every field.
-/
namespace M3d.KernelsTie.Numeric
open M3d.Num M3d.Gen.Kernels
set_option linter.unusedSectionVars false
set_option linter.unusedVariables false
set_option linter.unusedSimpArgs false

variable {K : Type} [Field K] [LinearOrder K] [IsStrictOrderedRing K]

@[reducible] def gm2 (m : M2 K) : numerical.Matrix2 K := ⟨m.m0, m.m1, m.m2, m.m3⟩
@[reducible] def gv2 (v : V2 K) : numerical.Vec2 K := ⟨v.x, v.y⟩
@[reducible] def gm3 (m : M3 K) : numerical.Matrix3 K := ⟨m.m0, m.m1, m.m2, m.m3, m.m4, m.m5, m.m6, m.m7, m.m8⟩
@[reducible] def gv3 (v : V3 K) : numerical.Vec3 K := ⟨v.x, v.y, v.z⟩
@[reducible] def gm4 (x : M4 K) : numerical.Matrix4 K :=
  ⟨x.a, x.b, x.c, x.d, x.e, x.f, x.g, x.h, x.i, x.j, x.k, x.l, x.m, x.n, x.o, x.p⟩

theorem det2 (m : M2 K) : numerical.Matrix2_Det (gm2 m) = m.det := rfl
theorem mul2 (m n : M2 K) : numerical.Matrix2_Mul (gm2 m) (gm2 n) = gm2 (m.mul n) := rfl
theorem add2 (m n : M2 K) : numerical.Matrix2_Add (gm2 m) (gm2 n) = gm2 (m.add n) := by
  simp [numerical.Matrix2_Add, M2.add]
theorem transpose2 (m : M2 K) : numerical.Matrix2_Transpose (gm2 m) = gm2 m.transpose := rfl
theorem mulColumn2 (m : M2 K) (c : V2 K) : numerical.Matrix2_MulColumn (gm2 m) (gv2 c) = gv2 (m.mulColumn c) := rfl
theorem inverse2 (m : M2 K) : numerical.Matrix2_Inverse (gm2 m) = gm2 m.inverse := by
  simp [numerical.Matrix2_Inverse, numerical.Matrix2_InvertInPlace, numerical.Matrix2_InvertInPlaceDet,
    numerical.Matrix2_Scale, numerical.Matrix2_Det, M2.inverse, M2.invertDet, M2.scale, M2.det]
theorem mulColumnInv2 (m : M2 K) (c : V2 K) (d : K) :
    numerical.Matrix2_MulColumnInv (gm2 m) (gv2 c) d = gv2 (m.mulColumnInv c d) := by
  simp [numerical.Matrix2_MulColumnInv, numerical.Matrix2_MulColumn, numerical.Vec2_Scale, M2.mulColumnInv,
    M2.mulColumn]

theorem det3 (m : M3 K) : numerical.Matrix3_Det (gm3 m) = m.det := rfl
theorem mul3 (m n : M3 K) : numerical.Matrix3_Mul (gm3 m) (gm3 n) = gm3 (m.mul n) := rfl
theorem transpose3 (m : M3 K) : numerical.Matrix3_Transpose (gm3 m) = gm3 m.transpose := rfl
theorem mulColumn3 (m : M3 K) (c : V3 K) : numerical.Matrix3_MulColumn (gm3 m) (gv3 c) = gv3 (m.mulColumn c) := rfl
theorem inverse3 (m : M3 K) : numerical.Matrix3_Inverse (gm3 m) = gm3 m.inverse := by
  simp [numerical.Matrix3_Inverse, numerical.Matrix3_InvertInPlace, numerical.Matrix3_InvertInPlaceDet,
    numerical.Matrix3_Scale, numerical.Matrix3_Det, M3.inverse, M3.invertDet, M3.scale, M3.adj, M3.det]

theorem det4 (x : M4 K) : numerical.Matrix4_Det (gm4 x) = x.det := rfl
theorem mul4 (x y : M4 K) : numerical.Matrix4_Mul (gm4 x) (gm4 y) = gm4 (x.mul y) := rfl
theorem transpose4 (x : M4 K) : numerical.Matrix4_Transpose (gm4 x) = gm4 x.transpose := rfl

end M3d.KernelsTie.Numeric
