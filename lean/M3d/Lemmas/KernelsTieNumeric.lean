import M3d.Gen.Kernels
import M3d.Model.Numeric
import Mathlib.Tactic.Ring
import Mathlib.Algebra.Order.Field.Basic
/-!
# Tie between the REGENERATED kernels and the matrix models of C17 (`M3d/Model/Numeric.lean`)

`numerical.Matrix2/3/4` `Det`, `Inverse`/`InvertInPlaceDet` (through the in-place `Scale` loop), `Mul`,
`MulColumn`, `MulColumnInv`, `Transpose`, `Add` as `numerical/matrix*.go` defines them NOW are the model
functions of the C17 reconstruction theorems (`M · M⁻¹ = 1`, `det (A·B) = det A · det B`, …), for every field.
-/
namespace M3d.KernelsTie.Numeric
open M3d.Num M3d.Gen.Kernels
set_option linter.unusedSectionVars false
set_option linter.unusedVariables false
set_option linter.unusedSimpArgs false

variable {K : Type} [Field K] [LinearOrder K] [IsStrictOrderedRing K]

/-- Closes a tie goal: by `rfl` when the generated text is literally the model's, otherwise (a harmless rewrite of
the Go source: commuted operands, re-associated sums, `a - b` for `a + -b`, …) by unfolding both sides and `ring`
per component, with `math.Sqrt` applications as atoms. -/
macro "tie" : tactic => `(tactic| first
  | rfl
  | (simp only [numerical.Matrix2_Add, numerical.Matrix2_Det, numerical.Matrix2_Inverse, numerical.Matrix2_InvertInPlace, numerical.Matrix2_InvertInPlaceDet, numerical.Matrix2_Mul, numerical.Matrix2_MulColumn, numerical.Matrix2_MulColumnInv, numerical.Matrix2_Scale, numerical.Matrix2_Transpose, numerical.Matrix3_Add, numerical.Matrix3_Det, numerical.Matrix3_Inverse, numerical.Matrix3_InvertInPlace, numerical.Matrix3_InvertInPlaceDet, numerical.Matrix3_Mul, numerical.Matrix3_MulColumn, numerical.Matrix3_MulColumnInv, numerical.Matrix3_Scale, numerical.Matrix3_Transpose, numerical.Matrix4_Det, numerical.Matrix4_Mul, numerical.Matrix4_Scale, numerical.Matrix4_Transpose, numerical.Vec2_Add, numerical.Vec2_Dist, numerical.Vec2_DistSquared, numerical.Vec2_Dot, numerical.Vec2_Norm, numerical.Vec2_Normalize, numerical.Vec2_ProjectOut, numerical.Vec2_Scale, numerical.Vec2_Sub, numerical.Vec2_Sum, numerical.Vec3_Add, numerical.Vec3_Cross, numerical.Vec3_Dist, numerical.Vec3_DistSquared, numerical.Vec3_Dot, numerical.Vec3_Norm, numerical.Vec3_Normalize, numerical.Vec3_ProjectOut, numerical.Vec3_Scale, numerical.Vec3_Sub, numerical.Vec3_Sum, numerical.Vec4_Add, numerical.Vec4_Dist, numerical.Vec4_DistSquared, numerical.Vec4_Dot, numerical.Vec4_Norm, numerical.Vec4_Normalize, numerical.Vec4_ProjectOut, numerical.Vec4_Scale, numerical.Vec4_Sub, numerical.Vec4_Sum, M2.det, M2.scale, M2.invertDet, M2.inverse, M2.mulColumn, M2.mulColumnInv, M2.mul, M2.add, M2.transpose, M2.gram, M3.det, M3.scale, M3.adj, M3.invertDet, M3.inverse, M3.mulColumn, M3.mulColumnInv, M3.mul, M3.add, M3.transpose, M3.gram, M4.det, M4.mul, M4.transpose, M4.scale, M4.gram, V2.add, V2.sub, V2.scale, V2.dot, V2.sum, V2.distSquared, V2.norm, V2.dist, V2.normalize, V2.projectOut, V3.add, V3.sub, V3.scale, V3.dot, V3.sum, V3.distSquared, V3.norm, V3.dist, V3.normalize, V3.projectOut, V4.add, V4.sub, V4.scale, V4.dot, V4.sum, V4.distSquared, V4.norm, V4.dist, V4.normalize, V4.projectOut, V3.cross, Nat.cast_one, Nat.cast_zero, zero_add] <;>
      first | rfl | ring | (congr 1 <;> first | rfl | ring) | (congr 1 <;> ring_nf)))

@[reducible] def gm2 (m : M2 K) : numerical.Matrix2 K := ⟨m.m0, m.m1, m.m2, m.m3⟩
@[reducible] def gv2 (v : V2 K) : numerical.Vec2 K := ⟨v.x, v.y⟩
@[reducible] def gm3 (m : M3 K) : numerical.Matrix3 K := ⟨m.m0, m.m1, m.m2, m.m3, m.m4, m.m5, m.m6, m.m7, m.m8⟩
@[reducible] def gv3 (v : V3 K) : numerical.Vec3 K := ⟨v.x, v.y, v.z⟩
@[reducible] def gm4 (x : M4 K) : numerical.Matrix4 K :=
  ⟨x.a, x.b, x.c, x.d, x.e, x.f, x.g, x.h, x.i, x.j, x.k, x.l, x.m, x.n, x.o, x.p⟩

theorem det2 (m : M2 K) : numerical.Matrix2_Det (gm2 m) = m.det := by tie
theorem mul2 (m n : M2 K) : numerical.Matrix2_Mul (gm2 m) (gm2 n) = gm2 (m.mul n) := by tie
theorem add2 (m n : M2 K) : numerical.Matrix2_Add (gm2 m) (gm2 n) = gm2 (m.add n) := by tie
theorem transpose2 (m : M2 K) : numerical.Matrix2_Transpose (gm2 m) = gm2 m.transpose := by tie
theorem mulColumn2 (m : M2 K) (c : V2 K) : numerical.Matrix2_MulColumn (gm2 m) (gv2 c) = gv2 (m.mulColumn c) := by tie
theorem inverse2 (m : M2 K) : numerical.Matrix2_Inverse (gm2 m) = gm2 m.inverse := by tie
theorem mulColumnInv2 (m : M2 K) (c : V2 K) (d : K) :
    numerical.Matrix2_MulColumnInv (gm2 m) (gv2 c) d = gv2 (m.mulColumnInv c d) := by tie

theorem det3 (m : M3 K) : numerical.Matrix3_Det (gm3 m) = m.det := by tie
theorem mul3 (m n : M3 K) : numerical.Matrix3_Mul (gm3 m) (gm3 n) = gm3 (m.mul n) := by tie
theorem transpose3 (m : M3 K) : numerical.Matrix3_Transpose (gm3 m) = gm3 m.transpose := by tie
theorem mulColumn3 (m : M3 K) (c : V3 K) : numerical.Matrix3_MulColumn (gm3 m) (gv3 c) = gv3 (m.mulColumn c) := by tie
theorem inverse3 (m : M3 K) : numerical.Matrix3_Inverse (gm3 m) = gm3 m.inverse := by tie

theorem det4 (x : M4 K) : numerical.Matrix4_Det (gm4 x) = x.det := by tie
theorem mul4 (x y : M4 K) : numerical.Matrix4_Mul (gm4 x) (gm4 y) = gm4 (x.mul y) := by tie
theorem transpose4 (x : M4 K) : numerical.Matrix4_Transpose (gm4 x) = gm4 x.transpose := by tie

/-! ## `Matrix4.Scale`, `Matrix2/3.Scale`, Gram matrices — the vocabulary of the scale-covariance theorems -/

theorem scale2 (m : M2 K) (s : K) : numerical.Matrix2_Scale (gm2 m) s = gm2 (m.scale s) := by tie
theorem scale3 (m : M3 K) (s : K) : numerical.Matrix3_Scale (gm3 m) s = gm3 (m.scale s) := by tie
theorem scale4 (x : M4 K) (s : K) : numerical.Matrix4_Scale (gm4 x) s = gm4 (x.scale s) := by tie
theorem gram2 (m : M2 K) :
    numerical.Matrix2_Mul (numerical.Matrix2_Transpose (gm2 m)) (gm2 m) = gm2 m.gram := by tie
theorem gram3 (m : M3 K) :
    numerical.Matrix3_Mul (numerical.Matrix3_Transpose (gm3 m)) (gm3 m) = gm3 m.gram := by tie
theorem gram4 (x : M4 K) :
    numerical.Matrix4_Mul (numerical.Matrix4_Transpose (gm4 x)) (gm4 x) = gm4 x.gram := by tie
theorem add3 (m n : M3 K) : numerical.Matrix3_Add (gm3 m) (gm3 n) = gm3 (m.add n) := by tie
theorem mulColumnInv3 (m : M3 K) (c : V3 K) (d : K) :
    numerical.Matrix3_MulColumnInv (gm3 m) (gv3 c) d = gv3 (m.mulColumnInv c d) := by tie

/-! ## `numerical.Vec2/3/4` (`numerical/vecs.go`) -/

/-- `math.Sqrt` of the generated code read as the function parameter of the models. -/
@[reducible] def sqrtOf (sqrtF : K → K) : M3d.GenPrelude.HasSqrt K := ⟨sqrtF⟩
@[reducible] def gv4 (v : V4 K) : numerical.Vec4 K := ⟨v.x, v.y, v.z, v.w⟩

theorem vec2_add (a b : V2 K) : numerical.Vec2_Add (gv2 a) (gv2 b) = gv2 (a.add b) := by tie
theorem vec2_sub (a b : V2 K) : numerical.Vec2_Sub (gv2 a) (gv2 b) = gv2 (a.sub b) := by tie
theorem vec2_scale (a : V2 K) (f : K) : numerical.Vec2_Scale (gv2 a) f = gv2 (a.scale f) := by tie
theorem vec2_dot (a b : V2 K) : numerical.Vec2_Dot (gv2 a) (gv2 b) = a.dot b := by tie
theorem vec2_sum (a : V2 K) : numerical.Vec2_Sum (gv2 a) = a.sum := by tie
theorem vec2_distSquared (a b : V2 K) : numerical.Vec2_DistSquared (gv2 a) (gv2 b) = a.distSquared b := by tie
theorem vec2_norm (sqrtF : K → K) (a : V2 K) :
    (letI := sqrtOf sqrtF; numerical.Vec2_Norm (gv2 a)) = a.norm sqrtF := by tie
theorem vec2_dist (sqrtF : K → K) (a b : V2 K) :
    (letI := sqrtOf sqrtF; numerical.Vec2_Dist (gv2 a) (gv2 b)) = a.dist sqrtF b := by tie
theorem vec2_normalize (sqrtF : K → K) (a : V2 K) :
    (letI := sqrtOf sqrtF; numerical.Vec2_Normalize (gv2 a)) = gv2 (a.normalize sqrtF) := by tie
theorem vec2_projectOut (sqrtF : K → K) (a b : V2 K) :
    (letI := sqrtOf sqrtF; numerical.Vec2_ProjectOut (gv2 a) (gv2 b)) = gv2 (a.projectOut sqrtF b) := by tie

theorem vec3_add (a b : V3 K) : numerical.Vec3_Add (gv3 a) (gv3 b) = gv3 (a.add b) := by tie
theorem vec3_sub (a b : V3 K) : numerical.Vec3_Sub (gv3 a) (gv3 b) = gv3 (a.sub b) := by tie
theorem vec3_scale (a : V3 K) (f : K) : numerical.Vec3_Scale (gv3 a) f = gv3 (a.scale f) := by tie
theorem vec3_dot (a b : V3 K) : numerical.Vec3_Dot (gv3 a) (gv3 b) = a.dot b := by tie
theorem vec3_cross (a b : V3 K) : numerical.Vec3_Cross (gv3 a) (gv3 b) = gv3 (a.cross b) := by tie
theorem vec3_sum (a : V3 K) : numerical.Vec3_Sum (gv3 a) = a.sum := by tie
theorem vec3_distSquared (a b : V3 K) : numerical.Vec3_DistSquared (gv3 a) (gv3 b) = a.distSquared b := by tie
theorem vec3_norm (sqrtF : K → K) (a : V3 K) :
    (letI := sqrtOf sqrtF; numerical.Vec3_Norm (gv3 a)) = a.norm sqrtF := by tie
theorem vec3_dist (sqrtF : K → K) (a b : V3 K) :
    (letI := sqrtOf sqrtF; numerical.Vec3_Dist (gv3 a) (gv3 b)) = a.dist sqrtF b := by tie
theorem vec3_normalize (sqrtF : K → K) (a : V3 K) :
    (letI := sqrtOf sqrtF; numerical.Vec3_Normalize (gv3 a)) = gv3 (a.normalize sqrtF) := by tie
theorem vec3_projectOut (sqrtF : K → K) (a b : V3 K) :
    (letI := sqrtOf sqrtF; numerical.Vec3_ProjectOut (gv3 a) (gv3 b)) = gv3 (a.projectOut sqrtF b) := by tie

theorem vec4_add (a b : V4 K) : numerical.Vec4_Add (gv4 a) (gv4 b) = gv4 (a.add b) := by tie
theorem vec4_sub (a b : V4 K) : numerical.Vec4_Sub (gv4 a) (gv4 b) = gv4 (a.sub b) := by tie
theorem vec4_scale (a : V4 K) (f : K) : numerical.Vec4_Scale (gv4 a) f = gv4 (a.scale f) := by tie
theorem vec4_dot (a b : V4 K) : numerical.Vec4_Dot (gv4 a) (gv4 b) = a.dot b := by tie
theorem vec4_sum (a : V4 K) : numerical.Vec4_Sum (gv4 a) = a.sum := by tie
theorem vec4_distSquared (a b : V4 K) : numerical.Vec4_DistSquared (gv4 a) (gv4 b) = a.distSquared b := by tie
theorem vec4_norm (sqrtF : K → K) (a : V4 K) :
    (letI := sqrtOf sqrtF; numerical.Vec4_Norm (gv4 a)) = a.norm sqrtF := by tie
theorem vec4_dist (sqrtF : K → K) (a b : V4 K) :
    (letI := sqrtOf sqrtF; numerical.Vec4_Dist (gv4 a) (gv4 b)) = a.dist sqrtF b := by tie
theorem vec4_normalize (sqrtF : K → K) (a : V4 K) :
    (letI := sqrtOf sqrtF; numerical.Vec4_Normalize (gv4 a)) = gv4 (a.normalize sqrtF) := by tie
theorem vec4_projectOut (sqrtF : K → K) (a b : V4 K) :
    (letI := sqrtOf sqrtF; numerical.Vec4_ProjectOut (gv4 a) (gv4 b)) = gv4 (a.projectOut sqrtF b) := by tie

end M3d.KernelsTie.Numeric
