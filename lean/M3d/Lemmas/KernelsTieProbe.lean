import M3d.Gen.Kernels
import M3d.Model.MeshDiagProbe
import Mathlib.Tactic.Ring
import Mathlib.Tactic.NormNum
import Mathlib.Tactic.NormNum.OfScientific
import Mathlib.Algebra.Order.Field.Basic
/-!
# Tie between the REGENERATED `Segment.Mid` / `Segment.Normal` / `Triangle.Normal` and the probe of C11

`RepairNormals` (2-D and 3-D) computes its probe as `center.Add(normal.Scale(epsilon))` with
`normal := s.Normal()` (`t.Normal()`), `center := s.Mid()` (the centroid).  The probe theorems of
`M3d.C11` (`repair_normals2_probe_is_epsilon_off_the_midpoint`, …) are about the hand-written
`segMid`, `segLeft`, `segNormal`, `probeDoc` (`triCross`, `triNormal`, `probeDoc3`) of
`M3d/Model/MeshDiagProbe.lean`.  `M3d/Gen/Kernels.lean` is regenerated from the current
`model2d/primitives.go`, `model2d/coords.go`, `model3d/primitives.go`, `model3d/coords.go`; the
theorems below say that the hand-written pieces ARE the functions of the source as it is now
(`Normalize` included: an edit that drops it from `Segment.Normal` / `Triangle.Normal` breaks this
file).  The composition inside `RepairNormals` itself is not translatable (collider, mesh); it is
tied by the correspondence (`rn2`, `rn3`).
-/
namespace M3d.KernelsTie.Probe
open M3d.MeshDiag M3d.Gen.Kernels M3d.GenPrelude
set_option linter.unusedSectionVars false
set_option linter.unusedVariables false
set_option linter.unusedSimpArgs false

variable {K : Type} [Field K] [LinearOrder K] [IsStrictOrderedRing K]

/-- hand vector → generated `model2d.Coord` -/
@[reducible] def g2 (a : Vec2 K) : model2d.Coord K := ⟨a.x, a.y⟩
/-- hand segment → generated `model2d.Segment` -/
@[reducible] def gs (s : GSeg K) : model2d.Segment K := ⟨g2 s.1, g2 s.2⟩
/-- hand vector → generated `Coord3D` -/
@[reducible] def g3 (a : Vec3 K) : model3d.Coord3D K := ⟨a.x, a.y, a.z⟩
/-- hand triangle → generated `model3d.Triangle` -/
@[reducible] def gt (t : GTri K) : model3d.Triangle K := ⟨g3 t.1, g3 t.2.1, g3 t.2.2⟩

/-- The literal `0.5` of `Coord.Mid` is one half. -/
theorem half_literal : (0.5 : K) * 2 = 1 := by norm_num

/-- `Segment.Mid` (`s[0].Add(s[1]).Scale(0.5)`). -/
theorem segMid_eq_generated (s : GSeg K) :
    model2d.Segment_Mid (gs s) = g2 (segMid (0.5 : K) s) := by
  simp only [model2d.Segment_Mid, model2d.Coord_Mid, model2d.Coord_Add, model2d.Coord_Scale, segMid,
    Vec2.add, Vec2.scale]

/-- `XY(-delta.Y, delta.X)` inside `Segment.Normal`, before `Normalize`. -/
theorem segLeft_eq_generated (s : GSeg K) :
    (let delta := model2d.Coord_Sub (gs s).e1 (gs s).e0
     ({ X := -delta.Y, Y := delta.X } : model2d.Coord K)) = g2 (segLeft s) := by
  simp only [model2d.Coord_Sub, model2d.Coord_Add, model2d.Coord_Scale, segLeft, model2d.Coord.mk.injEq]
  constructor <;> ring

/-- `Segment.Normal()` = the left vector, normalised (`Scale(1 / Norm())`). -/
theorem segNormal_eq_generated (sqrt : K → K) (s : GSeg K) :
    (letI : HasSqrt K := ⟨sqrt⟩; model2d.Segment_Normal (gs s)) = g2 (segNormal sqrt s) := by
  have h := segLeft_eq_generated s
  have hx : -(model2d.Coord_Sub (g2 s.2) (g2 s.1)).Y = (segLeft s).x := congrArg model2d.Coord.X h
  have hy : (model2d.Coord_Sub (g2 s.2) (g2 s.1)).X = (segLeft s).y := congrArg model2d.Coord.Y h
  simp only [model2d.Segment_Normal, model2d.Coord_Normalize, model2d.Coord_Norm, model2d.Coord_Scale,
    segNormal, vnorm2, Vec2.scale, hx, hy]

/-- `movedOut := center.Add(normal.Scale(epsilon))` of `model2d.Mesh.RepairNormals`, written with the
regenerated `Mid`, `Normal`, `Add`, `Scale`. -/
theorem probeDoc_eq_generated (sqrt : K → K) (eps : K) (s : GSeg K) :
    (letI : HasSqrt K := ⟨sqrt⟩;
      model2d.Coord_Add (model2d.Segment_Mid (gs s)) (model2d.Coord_Scale (model2d.Segment_Normal (gs s)) eps))
      = g2 (probeDoc sqrt (0.5 : K) eps s) := by
  rw [segMid_eq_generated, segNormal_eq_generated]
  simp only [model2d.Coord_Add, model2d.Coord_Scale, probeDoc, Vec2.add, Vec2.scale]

/-- `Triangle.crossProduct`. -/
theorem triCross_eq_generated (t : GTri K) : model3d.Triangle_crossProduct (gt t) = g3 (triCross t) := by
  simp only [model3d.Triangle_crossProduct, model3d.Coord3D_Cross, model3d.Coord3D_Sub, model3d.Coord3D_Add,
    model3d.Coord3D_Scale, triCross, v3cross, v3sub, model3d.Coord3D.mk.injEq]
  refine ⟨?_, ?_, ?_⟩ <;> ring

/-- `Triangle.Normal()` = the cross product, normalised. -/
theorem triNormal_eq_generated (sqrt : K → K) (t : GTri K) :
    (letI : HasSqrt K := ⟨sqrt⟩; model3d.Triangle_Normal (gt t)) = g3 (triNormal sqrt t) := by
  simp only [model3d.Triangle_Normal, triCross_eq_generated]
  simp only [model3d.Coord3D_Normalize, model3d.Coord3D_Norm, model3d.Coord3D_Scale, triNormal, vnorm3, v3scale]

/-- `movedOut` of `model3d.Mesh.RepairNormals`:
`t[0].Add(t[1]).Add(t[2]).Scale(1.0 / 3).Add(t.Normal().Scale(epsilon))`. -/
theorem probeDoc3_eq_generated (sqrt : K → K) (third eps : K) (t : GTri K) :
    (letI : HasSqrt K := ⟨sqrt⟩;
      model3d.Coord3D_Add
        (model3d.Coord3D_Scale (model3d.Coord3D_Add (model3d.Coord3D_Add (gt t).e0 (gt t).e1) (gt t).e2) third)
        (model3d.Coord3D_Scale (model3d.Triangle_Normal (gt t)) eps))
      = g3 (probeDoc3 sqrt third eps t) := by
  rw [triNormal_eq_generated]
  simp only [model3d.Coord3D_Add, model3d.Coord3D_Scale, probeDoc3, triCentre, v3add, v3scale]

end M3d.KernelsTie.Probe
