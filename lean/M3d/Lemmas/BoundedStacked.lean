import M3d.Lemmas.Bounded
/-!
# `StackedSolid` does not cut (C03)

`StackedSolid.Contains` is `InBounds(s, c) &&` "some operand, moved up by the running `currentZ`, contains
`c`".  The box is `[JoinedSolid(s).Min(), StackedSolid.Max()]`, where `Max()` keeps its own running
`lastMax.Z`.  For bounded 3-D operands whose boxes have `Min().Z ≤ Max().Z` the two running values agree
and every point of a moved operand is inside the box: the bounds test removes nothing.
-/
set_option linter.unusedSectionVars false
set_option linter.unusedVariables false
namespace M3d.Bd

variable {K : Type} [Field K] [LinearOrder K] [IsStrictOrderedRing K]

/-- what the loops need of one operand: 3-D, bounded, `Min().Z ≤ Max().Z` -/
def StackOK (s : Solid K) : Prop := s.d3 = true ∧ Bounded s ∧ s.box.lo 2 ≤ s.box.hi 2

/-- upper bounds: with `cz = m.Z` (the two running values agree), a point of a moved operand is below the
final `lastMax` on every axis -/
theorem stackedAny_le_max (p : Pt K) (ss : List (Solid K)) (hs : ∀ s ∈ ss, StackOK s) (m : Pt K) (cz : K)
    (hcz : cz = m 2) (h : stackedAny p cz ss = true) (i : Fin 3) : p i ≤ (stackedMax m ss) i := by
  induction ss generalizing m cz with
  | nil => simp [stackedAny] at h
  | cons s ss ih =>
    obtain ⟨h3, hb, ho⟩ := hs s (List.mem_cons_self ..)
    simp only [stackedAny, Bool.or_eq_true] at h
    simp only [stackedMax]
    have hm2 : (pmax m (mk3 (s.box.hi 0) (s.box.hi 1) (s.box.hi 2 + (m 2 - s.box.lo 2)))) 2
        = s.box.hi 2 + (cz - s.box.lo 2) := by
      rw [pmax_get, get2, hcz]
      apply max_eq_right
      linarith
    rcases h with h | h
    · have hq := hb _ h
      refine le_trans ?_ (le_stackedMax _ ss i)
      rw [pmax_get]
      refine le_trans ?_ (le_max_right _ _)
      rcases fin3 i with rfl | rfl | rfl
      · have := (hq 0 (h3 ▸ active_true 0)).2; simpa using this
      · have := (hq 1 (h3 ▸ active_true 1)).2; simpa using this
      · have := (hq 2 (h3 ▸ active_true 2)).2
        simp only [get2] at this ⊢
        rw [← hcz]; linarith
    · exact ih (fun t ht => hs t (List.mem_cons_of_mem _ ht)) _ _ hm2.symm h

/-- lower bounds: a point of a moved operand is above any `L` that is below every operand's `Min()` and
whose `Z` is below the running `currentZ` -/
theorem stackedAny_ge_lo (p : Pt K) (ss : List (Solid K)) (hs : ∀ s ∈ ss, StackOK s) (L : Pt K)
    (hL : ∀ s ∈ ss, ∀ i, L i ≤ s.box.lo i) (cz : K) (hcz : L 2 ≤ cz) (h : stackedAny p cz ss = true)
    (i : Fin 3) : L i ≤ p i := by
  induction ss generalizing cz with
  | nil => simp [stackedAny] at h
  | cons s ss ih =>
    obtain ⟨h3, hb, ho⟩ := hs s (List.mem_cons_self ..)
    simp only [stackedAny, Bool.or_eq_true] at h
    rcases h with h | h
    · have hq := hb _ h
      have hLs := hL s (List.mem_cons_self ..)
      rcases fin3 i with rfl | rfl | rfl
      · have := (hq 0 (h3 ▸ active_true 0)).1; simp only [get0] at this; exact le_trans (hLs 0) this
      · have := (hq 1 (h3 ▸ active_true 1)).1; simp only [get1] at this; exact le_trans (hLs 1) this
      · have := (hq 2 (h3 ▸ active_true 2)).1
        simp only [get2] at this
        linarith
    · exact ih (fun t ht => hs t (List.mem_cons_of_mem _ ht)) (fun t ht => hL t (List.mem_cons_of_mem _ ht)) _
        (by linarith) h

/-- **`StackedSolid` does not cut**: for 3-D bounded operands with `Min().Z ≤ Max().Z`, wherever some
moved operand contains the point (`stackedAny`, the loop of `Contains` without the bounds test) the
solid answers `true`. -/
theorem stacked_no_cut (a : Solid K) (rest : List (Solid K)) (hs : ∀ s ∈ a :: rest, StackOK s) (p : Pt K)
    (hp : stackedAny p (a.box.lo 2) (a :: rest) = true) : (stackedS a rest).f p = true := by
  simp only [stackedS, Bool.and_eq_true]
  refine ⟨(inB_iff _ _ _).mpr ?_, hp⟩
  intro i _
  constructor
  · -- lower: `JoinedSolid(s).Min()`
    refine stackedAny_ge_lo p (a :: rest) hs _ ?_ _ ?_ hp i
    · intro s hsm j
      simp only [joinedS]
      rcases List.mem_cons.mp hsm with rfl | hsm
      · exact (foldl_union_lo rest s.box j).1
      · exact (foldl_union_lo rest a.box j).2 s hsm
    · simp only [joinedS]; exact (foldl_union_lo rest a.box 2).1
  · -- upper: unfold the first iteration (delta = 0), then the loops run in lockstep
    obtain ⟨h3, hb, ho⟩ := hs a (List.mem_cons_self ..)
    simp only [stackedAny, Bool.or_eq_true] at hp
    rcases hp with h | h
    · have hq := hb _ h
      refine le_trans ?_ (le_stackedMax _ rest i)
      rcases fin3 i with rfl | rfl | rfl
      · have := (hq 0 (h3 ▸ active_true 0)).2; simpa using this
      · have := (hq 1 (h3 ▸ active_true 1)).2; simpa using this
      · have := (hq 2 (h3 ▸ active_true 2)).2
        simp only [get2] at this
        linarith
    · exact stackedAny_le_max p rest (fun t ht => hs t (List.mem_cons_of_mem _ ht)) _ _ (by ring) h i

end M3d.Bd
