import M3d.Model.MarchingFilter
import M3d.Lemmas.Partition
import M3d.Lemmas.MarchingSide
import Mathlib.Algebra.Order.Field.Basic
import Mathlib.Tactic.Linarith
/-!
Lemmas for `M3d/Model/MarchingFilter.lean` (C02): a filter that only rejects blocks whose lattice
POINTS all carry one label loses nothing; the rectangle of `Bounds` contains those points.
-/
namespace M3d.MarchingFilter
open M3d.Marching M3d.Partition

/-- a well-formed block inside the lattice with `nx × ny` cells (the only blocks `Pieces` ever sees) -/
def Within2 (b : Block2) (nx ny : Nat) : Prop :=
  b.x0 ≤ b.x1 ∧ b.x1 ≤ nx ∧ b.y0 ≤ b.y1 ∧ b.y1 ≤ ny

def Within3 (b : Block) (nx ny nz : Nat) : Prop :=
  b.x0 ≤ b.x1 ∧ b.x1 ≤ nx ∧ b.y0 ≤ b.y1 ∧ b.y1 ≤ ny ∧ b.z0 ≤ b.z1 ∧ b.z1 ≤ nz

/-- The filter oracle is *sound for the labelling*: a block of the lattice that it rejects has one
label on all of its lattice points `x0..x1 × y0..y1` (the corners of its cells; both ends inclusive). -/
def PointSound2 (nx ny : Nat) (lab : Nat → Nat → Bool) (g : Block2 → Bool) : Prop :=
  ∀ b, Within2 b nx ny → g b = false →
    ∀ x y, b.x0 ≤ x → x ≤ b.x1 → b.y0 ≤ y → y ≤ b.y1 → lab x y = lab b.x0 b.y0

def PointSound3 (nx ny nz : Nat) (lab : Nat → Nat → Nat → Bool) (g : Block → Bool) : Prop :=
  ∀ b, Within3 b nx ny nz → g b = false →
    ∀ x y z, b.x0 ≤ x → x ≤ b.x1 → b.y0 ≤ y → y ≤ b.y1 → b.z0 ≤ z → z ≤ b.z1 →
      lab x y z = lab b.x0 b.y0 b.z0

theorem within2_split (b : Block2) (nx ny : Nat) (h : Within2 b nx ny) :
    Within2 b.split.1 nx ny ∧ Within2 b.split.2 nx ny := by
  obtain ⟨h1, h2, h3, h4⟩ := h
  unfold Block2.split
  by_cases h0 : b.splitAxis = 0
  · rw [if_pos h0]; simp only [Within2]; omega
  · rw [if_neg h0]; simp only [Within2]; omega

theorem within3_split (b : Block) (nx ny nz : Nat) (h : Within3 b nx ny nz) :
    Within3 b.split.1 nx ny nz ∧ Within3 b.split.2 nx ny nz := by
  obtain ⟨h1, h2, h3, h4, h5, h6⟩ := h
  unfold Block.split
  by_cases h0 : b.splitAxis = 0
  · rw [if_pos h0]; simp only [Within3]; omega
  · by_cases h1' : b.splitAxis = 1
    · rw [if_neg h0, if_pos h1']; simp only [Within3]; omega
    · rw [if_neg h0, if_neg h1']; simp only [Within3]; omega

/-! ### rejected blocks are blocks the filter said no to -/

theorem rejected2_false (mv : Nat) (hpos : 0 < mv) (g : Block2 → Bool) (nx ny : Nat) :
    ∀ b : Block2, Within2 b nx ny → ∀ r ∈ rejected2 mv hpos g b, g r = false ∧ Within2 r nx ny := by
  intro b
  induction hv : b.area using Nat.strong_induction_on generalizing b with
  | _ n ih =>
    intro hw r hr
    rw [rejected2_unfold] at hr
    by_cases hg : g b = false
    · rw [if_pos hg] at hr
      simp only [List.mem_singleton] at hr
      rw [hr]; exact ⟨hg, hw⟩
    · by_cases hs : b.area / 2 < mv
      · rw [if_neg hg, if_pos hs] at hr; cases hr
      · rw [if_neg hg, if_neg hs] at hr
        have hl := Block2.split_area_lt b (by omega)
        have hws := within2_split b nx ny hw
        rcases List.mem_append.1 hr with h | h
        · exact ih _ (hv ▸ hl.1) b.split.1 rfl hws.1 r h
        · exact ih _ (hv ▸ hl.2) b.split.2 rfl hws.2 r h

theorem pieces2_within (mv : Nat) (hpos : 0 < mv) (g : Block2 → Bool) (nx ny : Nat) :
    ∀ b : Block2, Within2 b nx ny → ∀ q ∈ pieces2 mv hpos g b, Within2 q nx ny := by
  intro b
  induction hv : b.area using Nat.strong_induction_on generalizing b with
  | _ n ih =>
    intro hw q hq
    rw [pieces2_unfold] at hq
    by_cases hg : g b = false
    · rw [if_pos hg] at hq; cases hq
    · by_cases hs : b.area / 2 < mv
      · rw [if_neg hg, if_pos hs] at hq
        simp only [List.mem_singleton] at hq
        rw [hq]; exact hw
      · rw [if_neg hg, if_neg hs] at hq
        have hl := Block2.split_area_lt b (by omega)
        have hws := within2_split b nx ny hw
        rcases List.mem_append.1 hq with h | h
        · exact ih _ (hv ▸ hl.1) b.split.1 rfl hws.1 q h
        · exact ih _ (hv ▸ hl.2) b.split.2 rfl hws.2 q h

theorem rejected_false (mv : Nat) (hpos : 0 < mv) (g : Block → Bool) (nx ny nz : Nat) :
    ∀ b : Block, Within3 b nx ny nz → ∀ r ∈ rejected mv hpos g b, g r = false ∧ Within3 r nx ny nz := by
  intro b
  induction hv : b.volume using Nat.strong_induction_on generalizing b with
  | _ n ih =>
    intro hw r hr
    rw [rejected_unfold] at hr
    by_cases hg : g b = false
    · rw [if_pos hg] at hr
      simp only [List.mem_singleton] at hr
      rw [hr]; exact ⟨hg, hw⟩
    · by_cases hs : b.volume / 2 < mv
      · rw [if_neg hg, if_pos hs] at hr; cases hr
      · rw [if_neg hg, if_neg hs] at hr
        have hl := Block.split_volume_lt b (by omega)
        have hws := within3_split b nx ny nz hw
        rcases List.mem_append.1 hr with h | h
        · exact ih _ (hv ▸ hl.1) b.split.1 rfl hws.1 r h
        · exact ih _ (hv ▸ hl.2) b.split.2 rfl hws.2 r h

theorem pieces_within (mv : Nat) (hpos : 0 < mv) (g : Block → Bool) (nx ny nz : Nat) :
    ∀ b : Block, Within3 b nx ny nz → ∀ q ∈ pieces mv hpos g b, Within3 q nx ny nz := by
  intro b
  induction hv : b.volume using Nat.strong_induction_on generalizing b with
  | _ n ih =>
    intro hw q hq
    rw [pieces_unfold] at hq
    by_cases hg : g b = false
    · rw [if_pos hg] at hq; cases hq
    · by_cases hs : b.volume / 2 < mv
      · rw [if_neg hg, if_pos hs] at hq
        simp only [List.mem_singleton] at hq
        rw [hq]; exact hw
      · rw [if_neg hg, if_neg hs] at hq
        have hl := Block.split_volume_lt b (by omega)
        have hws := within3_split b nx ny nz hw
        rcases List.mem_append.1 hq with h | h
        · exact ih _ (hv ▸ hl.1) b.split.1 rfl hws.1 q h
        · exact ih _ (hv ▸ hl.2) b.split.2 rfl hws.2 q h

theorem rootBlock2_within (nx ny : Nat) : Within2 (rootBlock2 nx ny) nx ny := by
  simp [rootBlock2, Within2]

theorem rootBlock_within (nx ny nz : Nat) : Within3 (rootBlock nx ny nz) nx ny nz := by
  simp [rootBlock, Within3]

/-! ### a cell of a rejected block has equally labelled corners -/

theorem pointSound2_uniform (nx ny : Nat) (lab : Nat → Nat → Bool) (g : Block2 → Bool)
    (h : PointSound2 nx ny lab g)
    (r : Block2) (hr : g r = false ∧ Within2 r nx ny) (c : Nat × Nat) (hc : c ∈ r.cells) :
    uniformCell2 lab c := by
  rw [Block2.mem_cells] at hc
  obtain ⟨h1, h2, h3, h4⟩ := hc
  intro k _
  have l0 := cornerOff_le k 0
  have l1 := cornerOff_le k 1
  rw [h r hr.2 hr.1 (c.1 + cornerOff k 0) (c.2 + cornerOff k 1) (by omega) (by omega) (by omega) (by omega),
    h r hr.2 hr.1 c.1 c.2 (by omega) (by omega) (by omega) (by omega)]

theorem pointSound3_uniform (nx ny nz : Nat) (lab : Nat → Nat → Nat → Bool) (g : Block → Bool)
    (h : PointSound3 nx ny nz lab g)
    (r : Block) (hr : g r = false ∧ Within3 r nx ny nz) (c : Nat × Nat × Nat) (hc : c ∈ r.cells) :
    uniformCell lab c := by
  rw [Block.mem_cells] at hc
  obtain ⟨h1, h2, h3, h4, h5, h6⟩ := hc
  intro k _
  have l0 := cornerOff_le k 0
  have l1 := cornerOff_le k 1
  have l2 := cornerOff_le k 2
  rw [h r hr.2 hr.1 (c.1 + cornerOff k 0) (c.2.1 + cornerOff k 1) (c.2.2 + cornerOff k 2)
      (by omega) (by omega) (by omega) (by omega) (by omega) (by omega),
    h r hr.2 hr.1 c.1 c.2.1 c.2.2 (by omega) (by omega) (by omega) (by omega) (by omega) (by omega)]

/-! ### the filtered mesh is the plain mesh, up to order -/

/-- `MarchingSquaresFilter` with a sound filter, any schedule of the worker pool: the segments are
a permutation of `MarchingSquares`'s, for every table whose rows for the two uniform
configurations are empty. -/
theorem msFilterMesh_perm (table : List (List (List Nat)))
    (hnil : ∀ lab c, uniformCell2 lab c → cellSegs table lab c = [])
    (nx ny : Nat) (lab : Nat → Nat → Bool) (g : Block2 → Bool) (hg : PointSound2 nx ny lab g)
    (sched : List (List Block2)) (hs : Schedule2 (blockQueue2 g (rootBlock2 nx ny)) sched) :
    (msFilterMesh table lab g sched).Perm (msMesh table nx ny lab) := by
  rw [msMesh_eq_cells]
  exact filter_contrib_perm2 (cellSegs table lab) g (rootBlock2 nx ny) sched hs
    (fun r hr c hc => hnil lab c (pointSound2_uniform nx ny lab g hg r
      (rejected2_false _ _ g nx ny _ (rootBlock2_within nx ny) r hr) c hc))
    (fun q hq r hr c hc => hnil lab c (pointSound2_uniform nx ny lab g hg r
      (rejected2_false _ _ g nx ny q
        (pieces2_within _ _ g nx ny _ (rootBlock2_within nx ny) q hq) r hr) c hc))

theorem mcFilterMesh_perm (table : List (List (List Nat)))
    (hnil : ∀ lab c, uniformCell lab c → cellTris table lab c = [])
    (nx ny nz : Nat) (lab : Nat → Nat → Nat → Bool) (g : Block → Bool) (hg : PointSound3 nx ny nz lab g)
    (sched : List (List Block)) (hs : Schedule (blockQueue g (rootBlock nx ny nz)) sched) :
    (mcFilterMesh table lab g sched).Perm (mcMesh table nx ny nz lab) := by
  rw [mcMesh_eq_cells]
  exact filter_contrib_perm (cellTris table lab) g (rootBlock nx ny nz) sched hs
    (fun r hr c hc => hnil lab c (pointSound3_uniform nx ny nz lab g hg r
      (rejected_false _ _ g nx ny nz _ (rootBlock_within nx ny nz) r hr) c hc))
    (fun q hq r hr c hc => hnil lab c (pointSound3_uniform nx ny nz lab g hg r
      (rejected_false _ _ g nx ny nz q
        (pieces_within _ _ g nx ny nz _ (rootBlock_within nx ny nz) q hq) r hr) c hc))

theorem meshVerts2_perm {m m' : List (GV2 × GV2)} (h : m.Perm m') (v : GV2) :
    v ∈ meshVerts2 m ↔ v ∈ meshVerts2 m' := by
  unfold meshVerts2
  exact (h.flatMap_right _).mem_iff

theorem meshVerts_perm {m m' : List (GV × GV × GV)} (h : m.Perm m') (v : GV) :
    v ∈ meshVerts m ↔ v ∈ meshVerts m' := by
  unfold meshVerts
  exact (h.flatMap_right _).mem_iff

theorem vertsBefore2_perm {m m' : List (GV2 × GV2)} (h : m.Perm m') (p : Nat × Nat) (k : Nat) :
    vertsBefore2 (meshVerts2 m) p k = vertsBefore2 (meshVerts2 m') p k := by
  unfold vertsBefore2
  congr 1
  apply List.filter_congr
  intro j _
  simp only [decide_eq_decide]
  exact meshVerts2_perm h _

theorem vertsBefore_perm {m m' : List (GV × GV × GV)} (h : m.Perm m') (p : Nat × Nat × Nat) (k : Nat) :
    vertsBefore (meshVerts m) p k = vertsBefore (meshVerts m') p k := by
  unfold vertsBefore
  congr 1
  apply List.filter_congr
  intro j _
  simp only [decide_eq_decide]
  exact meshVerts_perm h _

/-! ### the tight filter is sound -/

theorem tightFilter2_sound (nx ny : Nat) (lab : Nat → Nat → Bool) :
    PointSound2 nx ny lab (tightFilter2 lab) := by
  intro b _ hb x y hx0 hx1 hy0 hy1
  unfold tightFilter2 at hb
  simp only [Bool.not_eq_false'] at hb
  unfold pointsConst2 at hb
  rw [List.all_eq_true] at hb
  have h1 := hb y (by rw [List.mem_range'_1]; unfold Block2.lenY; omega)
  rw [List.all_eq_true] at h1
  have h2 := h1 x (by rw [List.mem_range'_1]; unfold Block2.lenX; omega)
  exact beq_iff_eq.1 h2

theorem tightFilter3_sound (nx ny nz : Nat) (lab : Nat → Nat → Nat → Bool) :
    PointSound3 nx ny nz lab (tightFilter3 lab) := by
  intro b _ hb x y z hx0 hx1 hy0 hy1 hz0 hz1
  unfold tightFilter3 at hb
  simp only [Bool.not_eq_false'] at hb
  unfold pointsConst3 at hb
  rw [List.all_eq_true] at hb
  have h0 := hb z (by rw [List.mem_range'_1]; unfold Block.lenZ; omega)
  rw [List.all_eq_true] at h0
  have h1 := h0 y (by rw [List.mem_range'_1]; unfold Block.lenY; omega)
  rw [List.all_eq_true] at h1
  have h2 := h1 x (by rw [List.mem_range'_1]; unfold Block.lenX; omega)
  exact beq_iff_eq.1 h2

/-! ### `Bounds`: the rectangle contains every lattice point of the block -/

section
variable {K : Type} [Field K] [LinearOrder K] [IsStrictOrderedRing K]

/-- the point lies in the closed rectangle (`Rect.Contains`) -/
def Rect2.Has (r : Rect2 K) (x y : K) : Prop := r.minX ≤ x ∧ x ≤ r.maxX ∧ r.minY ≤ y ∧ y ≤ r.maxY

def Rect3.Has (r : Rect3 K) (x y z : K) : Prop :=
  r.minX ≤ x ∧ x ≤ r.maxX ∧ r.minY ≤ y ∧ y ≤ r.maxY ∧ r.minZ ≤ z ∧ z ≤ r.maxZ

theorem blockBounds2_has (X Y : Nat → K) (hX : ∀ i j, i ≤ j → X i ≤ X j) (hY : ∀ i j, i ≤ j → Y i ≤ Y j)
    (eps : K) (he : 0 ≤ eps) (b : Block2) (i j : Nat)
    (hi0 : b.x0 ≤ i) (hi1 : i ≤ b.x1) (hj0 : b.y0 ≤ j) (hj1 : j ≤ b.y1) :
    (blockBounds2 X Y eps b).Has (X i) (Y j) := by
  have a1 := hX _ _ hi0; have a2 := hX _ _ hi1
  have b1 := hY _ _ hj0; have b2 := hY _ _ hj1
  unfold blockBounds2 Rect2.Has
  refine ⟨?_, ?_, ?_, ?_⟩ <;> simp only <;> linarith

theorem blockBounds3_has (X Y Z : Nat → K) (hX : ∀ i j, i ≤ j → X i ≤ X j) (hY : ∀ i j, i ≤ j → Y i ≤ Y j)
    (hZ : ∀ i j, i ≤ j → Z i ≤ Z j)
    (eps : K) (he : 0 ≤ eps) (b : Block) (i j k : Nat)
    (hi0 : b.x0 ≤ i) (hi1 : i ≤ b.x1) (hj0 : b.y0 ≤ j) (hj1 : j ≤ b.y1) (hk0 : b.z0 ≤ k) (hk1 : k ≤ b.z1) :
    (blockBounds3 X Y Z eps b).Has (X i) (Y j) (Z k) := by
  have a1 := hX _ _ hi0; have a2 := hX _ _ hi1
  have b1 := hY _ _ hj0; have b2 := hY _ _ hj1
  have c1 := hZ _ _ hk0; have c2 := hZ _ _ hk1
  unfold blockBounds3 Rect3.Has
  refine ⟨?_, ?_, ?_, ?_, ?_, ?_⟩ <;> simp only <;> linarith

end

end M3d.MarchingFilter
