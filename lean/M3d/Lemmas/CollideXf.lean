import M3d.Lemmas.CollideBall
import M3d.Lemmas.Transform
import M3d.Lemmas.Transform2
import M3d.Model.CollideXf
/-!
# C07 — ball / circle queries against transformed colliders

`transformedCollider.SphereCollision(c, r)` asks the wrapped collider about the centre `t⁻¹(c)` and the radius
`t⁻¹.ApplyDistance(r) = r / factor`.  For the similarity transforms `TransformCollider` accepts
(`M3d.Tf.Xf.DistValid`: translations, non-zero uniform scales of either sign, orthogonal matrices, joins) this is
the same as asking whether the *image* surface meets the ball `(c, r)`.

The transform lemmas (`inverse_apply`, `normSq_apply_sub`, `factor_inverse`, …) are C05's
(`M3d/Lemmas/Transform*.lean`).
-/
set_option linter.unusedSectionVars false
set_option linter.unusedVariables false
namespace M3d.Col

variable {K : Type} [Field K] [LinearOrder K] [IsStrictOrderedRing K]

/-! ## conversions between the two vector types -/

theorem V3.ofTf_toTf (p : V3 K) : V3.ofTf p.toTf = p := rfl
theorem V3.toTf_ofTf (p : Tf.V3 K) : (V3.ofTf p).toTf = p := rfl
theorem V3.toTf_add (a b : V3 K) : (a.add b).toTf = a.toTf.add b.toTf := rfl
theorem V3.toTf_sub (a b : V3 K) : (a.sub b).toTf = a.toTf.sub b.toTf := rfl
theorem V3.toTf_scale (a : V3 K) (k : K) : (a.scale k).toTf = a.toTf.scale k := rfl
theorem V3.distSq_toTf (a b : V3 K) : a.distSq b = (a.toTf.sub b.toTf).normSq := rfl
theorem V3.dot_toTf (a b : V3 K) : a.dot b = a.toTf.dot b.toTf := rfl

theorem V2.ofTf_toTf (p : V2 K) : V2.ofTf p.toTf = p := rfl
theorem V2.toTf_ofTf (p : Tf.V2 K) : (V2.ofTf p).toTf = p := rfl
theorem V2.toTf_add (a b : V2 K) : (a.add b).toTf = a.toTf.add b.toTf := rfl
theorem V2.toTf_sub (a b : V2 K) : (a.sub b).toTf = a.toTf.sub b.toTf := rfl
theorem V2.toTf_scale (a : V2 K) (k : K) : (a.scale k).toTf = a.toTf.scale k := rfl
theorem V2.distSq_toTf (a b : V2 K) : a.distSq b = (a.toTf.sub b.toTf).normSq := rfl
theorem V2.dot_toTf (a b : V2 K) : a.dot b = a.toTf.dot b.toTf := rfl

theorem V3.distSq_comm (a b : V3 K) : a.distSq b = b.distSq a := by
  simp only [V3.distSq]; ring

theorem V2.distSq_comm (a b : V2 K) : a.distSq b = b.distSq a := by
  simp only [V2.distSq]; ring

/-! ## 3-D: the transform as a similarity on the collider model's vectors -/

theorem xfApply_inverse (t : Tf.Xf K) (h : t.DistValid) (p : V3 K) : xfApply t (xfApply t.inverse p) = p := by
  simp only [xfApply, V3.toTf_ofTf, Tf.Xf.apply_inverse t (Tf.Xf.distValid_valid t h), V3.ofTf_toTf]

theorem xfInverse_apply (t : Tf.Xf K) (h : t.DistValid) (p : V3 K) : xfApply t.inverse (xfApply t p) = p := by
  simp only [xfApply, V3.toTf_ofTf, Tf.Xf.inverse_apply t (Tf.Xf.distValid_valid t h), V3.ofTf_toTf]

/-- a similarity multiplies squared distances by `factor²` -/
theorem distSq_xfApply (t : Tf.Xf K) (h : t.DistValid) (a b : V3 K) :
    (xfApply t a).distSq (xfApply t b) = t.factor * t.factor * a.distSq b := by
  simp only [V3.distSq_toTf, xfApply, V3.toTf_ofTf]
  exact Tf.Xf.normSq_apply_sub t h _ _

/-- squared distance from an image point to `p`, pulled back -/
theorem distSq_xfApply_left (t : Tf.Xf K) (h : t.DistValid) (x p : V3 K) :
    (xfApply t x).distSq p = t.factor * t.factor * x.distSq (xfApply t.inverse p) := by
  conv_lhs => rw [← xfApply_inverse t h p]
  exact distSq_xfApply t h _ _

theorem dot_xfApply_sub (t : Tf.Xf K) (h : t.DistValid) (a b c d : V3 K) :
    ((xfApply t b).sub (xfApply t a)).dot ((xfApply t d).sub (xfApply t c)) =
      t.factor * t.factor * (b.sub a).dot (d.sub c) := by
  have ha := Tf.Xf.distValid_affine t h
  show ((t.apply b.toTf).sub (t.apply a.toTf)).dot ((t.apply d.toTf).sub (t.apply c.toTf)) =
    t.factor * t.factor * ((b.toTf.sub a.toTf).dot (d.toTf.sub c.toTf))
  rw [Tf.Xf.apply_sub_apply t ha, Tf.Xf.apply_sub_apply t ha, Tf.Xf.dot_lin t h]

/-- what `transformedCollider.SphereCollision` asks the wrapped collider -/
theorem tSphere_eq (t : Tf.Xf K) (h : t.DistValid) (sph : V3 K → K → Bool) (p : V3 K) (r : K) :
    tSphere t sph p r = sph (xfApply t.inverse p) (r / t.factor) := by
  simp only [tSphere, Tf.Xf.applyDistance_eq, Tf.Xf.factor_inverse t h]
  congr 1; ring

theorem lt_div_sq_iff (x r f : K) (hf : 0 < f) : x < r / f * (r / f) ↔ f * f * x < r * r := by
  rw [div_mul_div_comm, lt_div_iff₀ (mul_pos hf hf)]
  constructor <;> intro hh <;> linarith

theorem le_div_sq_iff (x r f : K) (hf : 0 < f) : x ≤ r / f * (r / f) ↔ f * f * x ≤ r * r := by
  rw [div_mul_div_comm, le_div_iff₀ (mul_pos hf hf)]
  constructor <;> intro hh <;> linarith

/-- open-ball convention (triangles, segments, meshes) -/
theorem tSphere_touch_lt (t : Tf.Xf K) (h : t.DistValid) (S : V3 K → Prop) (sph : V3 K → K → Bool)
    (hsph : ∀ q ρ, 0 ≤ ρ → (sph q ρ = true ↔ ∃ x, S x ∧ x.distSq q < ρ * ρ)) (p : V3 K) (r : K) (hr : 0 ≤ r) :
    tSphere t sph p r = true ↔ ∃ x, S x ∧ (xfApply t x).distSq p < r * r := by
  have hf := Tf.Xf.factor_pos t h
  rw [tSphere_eq t h, hsph _ _ (div_nonneg hr hf.le)]
  refine exists_congr fun x => and_congr_right fun _ => ?_
  rw [distSq_xfApply_left t h, lt_div_sq_iff _ _ _ hf]

/-- closed-ball convention (`|SDF| ≤ r` primitives) -/
theorem tSphere_touch_le (t : Tf.Xf K) (h : t.DistValid) (S : V3 K → Prop) (sph : V3 K → K → Bool)
    (hsph : ∀ q ρ, 0 ≤ ρ → (sph q ρ = true ↔ ∃ x, S x ∧ x.distSq q ≤ ρ * ρ)) (p : V3 K) (r : K) (hr : 0 ≤ r) :
    tSphere t sph p r = true ↔ ∃ x, S x ∧ (xfApply t x).distSq p ≤ r * r := by
  have hf := Tf.Xf.factor_pos t h
  rw [tSphere_eq t h, hsph _ _ (div_nonneg hr hf.le)]
  refine exists_congr fun x => and_congr_right fun _ => ?_
  rw [distSq_xfApply_left t h, le_div_sq_iff _ _ _ hf]

/-! ### triangles -/

/-- an affine map sends the point with barycentric coordinates `(u, v)` to the point with the same
coordinates in the image triangle -/
theorem xfApply_triPoint (t : Tf.Xf K) (h : t.Affine) (a b c : V3 K) (u v : K) :
    xfApply t (triPoint a b c u v) = triPoint (xfApply t a) (xfApply t b) (xfApply t c) u v := by
  have hb : t.lin (b.toTf.sub a.toTf) = (t.apply b.toTf).sub (t.apply a.toTf) :=
    (Tf.Xf.apply_sub_apply t h _ _).symm
  have hc : t.lin (c.toTf.sub a.toTf) = (t.apply c.toTf).sub (t.apply a.toTf) :=
    (Tf.Xf.apply_sub_apply t h _ _).symm
  simp only [xfApply, triPoint, V3.toTf_add, V3.toTf_scale, V3.toTf_sub, Tf.Xf.apply_add t h,
    Tf.Xf.lin_scale t h, hb, hc]
  rfl

theorem cross_normSq_lagrange (e1 e2 : V3 K) :
    (e1.cross e2).dot (e1.cross e2) = e1.dot e1 * e2.dot e2 - e1.dot e2 * e1.dot e2 := by
  simp only [V3.cross, V3.dot]; ring

/-- the image of a non-degenerate triangle under a similarity is non-degenerate -/
theorem tri_image_nondeg (t : Tf.Xf K) (h : t.DistValid) (a b c : V3 K)
    (hnd : ((b.sub a).cross (c.sub a)).dot ((b.sub a).cross (c.sub a)) ≠ 0) :
    (((xfApply t b).sub (xfApply t a)).cross ((xfApply t c).sub (xfApply t a))).dot
      (((xfApply t b).sub (xfApply t a)).cross ((xfApply t c).sub (xfApply t a))) ≠ 0 := by
  rw [cross_normSq_lagrange] at hnd ⊢
  rw [dot_xfApply_sub t h, dot_xfApply_sub t h, dot_xfApply_sub t h]
  have hf := Tf.Xf.factor_pos t h
  intro h0
  apply hnd
  have h4 : (t.factor * t.factor) * (t.factor * t.factor) ≠ 0 := ne_of_gt (by positivity)
  have : (t.factor * t.factor) * (t.factor * t.factor) *
      ((b.sub a).dot (b.sub a) * (c.sub a).dot (c.sub a) - (b.sub a).dot (c.sub a) * (b.sub a).dot (c.sub a)) = 0 := by
    linear_combination h0
  rcases mul_eq_zero.1 this with h1 | h1
  · exact absurd h1 h4
  · exact h1

/-- **the wrapped triangle's ball test at the pulled-back ball = the ball test of the image triangle** -/
theorem triBallSpec_image (t : Tf.Xf K) (h : t.DistValid) (a b c p : V3 K) (q : K)
    (hnd : ((b.sub a).cross (c.sub a)).dot ((b.sub a).cross (c.sub a)) ≠ 0) :
    triBallSpec a b c (xfApply t.inverse p) (q / (t.factor * t.factor)) =
      triBallSpec (xfApply t a) (xfApply t b) (xfApply t c) p q := by
  have hf := Tf.Xf.factor_pos t h
  rw [Bool.eq_iff_iff, triBallSpec_iff _ _ _ _ _ hnd, triBallSpec_iff _ _ _ _ _ (tri_image_nondeg t h a b c hnd)]
  refine exists_congr fun u => exists_congr fun v =>
    and_congr_right fun _ => and_congr_right fun _ => and_congr_right fun _ => ?_
  rw [← xfApply_triPoint t (Tf.Xf.distValid_affine t h), distSq_xfApply_left t h, lt_div_iff₀ (mul_pos hf hf)]
  constructor <;> intro hh <;> linarith

/-! ### spheres -/

theorem sqrt_div_sq {sqrtF : K → K} (hs : SqrtOK sqrtF) {x f : K} (hx : 0 ≤ x) (hf : 0 < f) :
    sqrtF (x / (f * f)) = sqrtF x / f := by
  obtain ⟨h0, h1⟩ := hs x hx
  have e : x / (f * f) = sqrtF x / f * (sqrtF x / f) := by
    rw [div_mul_div_comm, h1]
  rw [e]
  exact sqrt_sq_eq hs (div_nonneg h0 hf.le)

/-- the sqrt-free sphere/ball test is `|R - √D2| ≤ r` -/
theorem ballSphereSpec_iff {sqrtF : K → K} (hs : SqrtOK sqrtF) (D2 R r : K) (hD : 0 ≤ D2) (hR : 0 ≤ R)
    (hr : 0 ≤ r) : ballSphereSpec D2 R r = true ↔ |R - sqrtF D2| ≤ r := by
  obtain ⟨h0, h1⟩ := hs D2 hD
  set ρ := sqrtF D2 with hρ
  simp only [ballSphereSpec, Bool.and_eq_true, Bool.or_eq_true, decide_eq_true_eq, abs_le]
  rw [← h1]
  have hup : ρ * ρ ≤ (R + r) * (R + r) ↔ ρ ≤ R + r :=
    (mul_self_le_mul_self_iff h0 (add_nonneg hR hr)).symm
  rw [hup]
  constructor
  · rintro ⟨hlo, hhi⟩
    refine ⟨by linarith, ?_⟩
    rcases hlo with hlo | hlo
    · linarith
    · by_cases hc : R ≤ r
      · linarith
      · have := (mul_self_le_mul_self_iff (sub_nonneg.2 (le_of_lt (not_le.1 hc))) h0).2 hlo
        linarith
  · rintro ⟨hhi, hlo⟩
    refine ⟨?_, by linarith⟩
    by_cases hc : R ≤ r
    · exact Or.inl hc
    · right
      exact (mul_self_le_mul_self_iff (sub_nonneg.2 (le_of_lt (not_le.1 hc))) h0).1 (by linarith)

theorem sphereBall_iff {sqrtF : K → K} (center : V3 K) (R : K) (c : V3 K) (r : K) :
    sphereBall sqrtF center R c r = true ↔ |R - c.dist sqrtF center| ≤ r := by
  simp only [sphereBall, decide_eq_true_eq, absS_eq]

/-- **`Sphere.SphereCollision` behind a `transformedCollider` = the sphere/ball test of the image sphere**
(centre `t(center)`, radius `ApplyDistance(R)`). -/
theorem sphereBall_image {sqrtF : K → K} (hs : SqrtOK sqrtF) (t : Tf.Xf K) (h : t.DistValid) (center p : V3 K)
    (R r : K) (hR : 0 ≤ R) (hr : 0 ≤ r) :
    tSphere t (sphereBall sqrtF center R) p r =
      ballSphereSpec (p.distSq (xfApply t center)) (t.applyDistance R) r := by
  have hf := Tf.Xf.factor_pos t h
  have hfne := ne_of_gt hf
  rw [Bool.eq_iff_iff, tSphere_eq t h, sphereBall_iff,
    ballSphereSpec_iff hs _ _ _ (V3.distSq_nonneg _ _) (by rw [Tf.Xf.applyDistance_eq]; exact mul_nonneg hR hf.le) hr,
    Tf.Xf.applyDistance_eq]
  have hd : (xfApply t.inverse p).distSq center = p.distSq (xfApply t center) / (t.factor * t.factor) := by
    rw [V3.distSq_comm p, distSq_xfApply_left t h, V3.distSq_comm center]
    field_simp
  simp only [V3.dist]
  rw [hd, sqrt_div_sq hs (V3.distSq_nonneg _ _) hf]
  set s := sqrtF (p.distSq (xfApply t center))
  have e : R - s / t.factor = (R * t.factor - s) / t.factor := by field_simp
  rw [e, abs_div, abs_of_pos hf, div_le_div_iff_of_pos_right hf]

/-! ## 2-D -/

theorem xf2Apply_inverse (t : Tf.Xf2 K) (h : t.DistValid) (p : V2 K) : xf2Apply t (xf2Apply t.inverse p) = p := by
  simp only [xf2Apply, V2.toTf_ofTf, Tf.Xf2.apply_inverse t (Tf.Xf2.distValid_valid t h), V2.ofTf_toTf]

theorem distSq_xf2Apply (t : Tf.Xf2 K) (h : t.DistValid) (a b : V2 K) :
    (xf2Apply t a).distSq (xf2Apply t b) = t.factor * t.factor * a.distSq b := by
  simp only [V2.distSq_toTf, xf2Apply, V2.toTf_ofTf]
  exact Tf.Xf2.normSq_apply_sub t h _ _

theorem distSq_xf2Apply_left (t : Tf.Xf2 K) (h : t.DistValid) (x p : V2 K) :
    (xf2Apply t x).distSq p = t.factor * t.factor * x.distSq (xf2Apply t.inverse p) := by
  conv_lhs => rw [← xf2Apply_inverse t h p]
  exact distSq_xf2Apply t h _ _

theorem tCircle_eq (t : Tf.Xf2 K) (h : t.DistValid) (circ : V2 K → K → Bool) (p : V2 K) (r : K) :
    tCircle t circ p r = circ (xf2Apply t.inverse p) (r / t.factor) := by
  simp only [tCircle, Tf.Xf2.applyDistance_eq, Tf.Xf2.factor_inverse t h]
  congr 1; ring

theorem tCircle_touch_lt (t : Tf.Xf2 K) (h : t.DistValid) (S : V2 K → Prop) (circ : V2 K → K → Bool)
    (hc : ∀ q ρ, 0 ≤ ρ → (circ q ρ = true ↔ ∃ x, S x ∧ x.distSq q < ρ * ρ)) (p : V2 K) (r : K) (hr : 0 ≤ r) :
    tCircle t circ p r = true ↔ ∃ x, S x ∧ (xf2Apply t x).distSq p < r * r := by
  have hf := Tf.Xf2.factor_pos t h
  rw [tCircle_eq t h, hc _ _ (div_nonneg hr hf.le)]
  refine exists_congr fun x => and_congr_right fun _ => ?_
  rw [distSq_xf2Apply_left t h, lt_div_sq_iff _ _ _ hf]

theorem tCircle_touch_le (t : Tf.Xf2 K) (h : t.DistValid) (S : V2 K → Prop) (circ : V2 K → K → Bool)
    (hc : ∀ q ρ, 0 ≤ ρ → (circ q ρ = true ↔ ∃ x, S x ∧ x.distSq q ≤ ρ * ρ)) (p : V2 K) (r : K) (hr : 0 ≤ r) :
    tCircle t circ p r = true ↔ ∃ x, S x ∧ (xf2Apply t x).distSq p ≤ r * r := by
  have hf := Tf.Xf2.factor_pos t h
  rw [tCircle_eq t h, hc _ _ (div_nonneg hr hf.le)]
  refine exists_congr fun x => and_congr_right fun _ => ?_
  rw [distSq_xf2Apply_left t h, le_div_sq_iff _ _ _ hf]

/-! ### 2-D segments -/

/-- the point of the segment `s0 s1` with parameter `lam` -/
def segPoint2 (s0 s1 : V2 K) (lam : K) : V2 K := s0.add ((s1.sub s0).scale lam)

theorem seg2_param_distSq' (s0 s1 c : V2 K) (lam : K) :
    (segPoint2 s0 s1 lam).distSq c =
      lam * lam * (s1.sub s0).dot (s1.sub s0) - 2 * lam * (c.sub s0).dot (s1.sub s0) + s0.distSq c := by
  simp only [segPoint2, V2.add, V2.scale, V2.sub, V2.distSq, V2.dot]; ring

/-- `seg2BallSpec` decides "some point of the 2-D segment is at squared distance `< q`". -/
theorem seg2BallSpec_iff (p1 p2 ctr : V2 K) (q : K) (hne : (p2.sub p1).dot (p2.sub p1) ≠ 0) :
    seg2BallSpec p1 p2 ctr q = true ↔ ∃ lam, 0 ≤ lam ∧ lam ≤ 1 ∧ (segPoint2 p1 p2 lam).distSq ctr < q := by
  have hvv : 0 < (p2.sub p1).dot (p2.sub p1) :=
    lt_of_le_of_ne (add_nonneg (mul_self_nonneg _) (mul_self_nonneg _)) (Ne.symm hne)
  have hww : (ctr.sub p1).dot (ctr.sub p1) = p1.distSq ctr := by
    simp only [V2.sub, V2.distSq, V2.dot]; ring
  have hend1 : (segPoint2 p1 p2 1).distSq ctr = p2.distSq ctr := by
    simp only [segPoint2, V2.add, V2.scale, V2.sub, V2.distSq]; ring
  have hend0 : (segPoint2 p1 p2 0).distSq ctr = p1.distSq ctr := by
    simp only [segPoint2, V2.add, V2.scale, V2.sub, V2.distSq]; ring
  simp only [seg2BallSpec, Bool.or_eq_true, Bool.and_eq_true, decide_eq_true_eq]
  set vv := (p2.sub p1).dot (p2.sub p1) with hvvdef
  set wv := (ctr.sub p1).dot (p2.sub p1) with hwvdef
  constructor
  · rintro ((h | h) | ⟨⟨h0, h1⟩, h2⟩)
    · exact ⟨0, le_rfl, zero_le_one, by rw [hend0]; exact h⟩
    · exact ⟨1, zero_le_one, le_rfl, by rw [hend1]; exact h⟩
    · refine ⟨wv / vv, div_nonneg h0 (le_of_lt hvv), (div_le_one hvv).2 h1, ?_⟩
      rw [seg2_param_distSq', ← hww]
      have e : wv / vv * (wv / vv) * vv - 2 * (wv / vv) * wv + (ctr.sub p1).dot (ctr.sub p1) =
          ((ctr.sub p1).dot (ctr.sub p1) * vv - wv * wv) / vv := by
        field_simp; ring
      rw [e, div_lt_iff₀ hvv]; exact h2
  · rintro ⟨lam, hl0, hl1, hq⟩
    rw [seg2_param_distSq'] at hq
    rcases seg_closest _ _ _ _ lam hvv hl0 hl1 hq with h | h | ⟨h0, h1, h2⟩
    · exact Or.inl (Or.inl h)
    · refine Or.inl (Or.inr ?_)
      rw [← hend1, seg2_param_distSq']; linarith
    · refine Or.inr ⟨⟨?_, ?_⟩, ?_⟩
      · by_contra hc
        have : wv / vv < 0 := div_neg_of_neg_of_pos (not_le.1 hc) hvv
        linarith
      · exact (div_le_one hvv).1 h1
      · have e : wv / vv * (wv / vv) * vv - 2 * (wv / vv) * wv + p1.distSq ctr =
            ((ctr.sub p1).dot (ctr.sub p1) * vv - wv * wv) / vv := by
          rw [hww]; field_simp; ring
        rw [e, div_lt_iff₀ hvv] at h2; exact h2

theorem xf2Apply_segPoint (t : Tf.Xf2 K) (s0 s1 : V2 K) (lam : K) :
    xf2Apply t (segPoint2 s0 s1 lam) = segPoint2 (xf2Apply t s0) (xf2Apply t s1) lam := by
  have hb : t.lin (s1.toTf.sub s0.toTf) = (t.apply s1.toTf).sub (t.apply s0.toTf) :=
    (Tf.Xf2.apply_sub_apply t _ _).symm
  simp only [xf2Apply, segPoint2, V2.toTf_add, V2.toTf_scale, V2.toTf_sub, Tf.Xf2.apply_add t,
    Tf.Xf2.lin_scale t, hb]
  rfl

theorem seg2_image_nondeg (t : Tf.Xf2 K) (h : t.DistValid) (s0 s1 : V2 K)
    (hne : (s1.sub s0).dot (s1.sub s0) ≠ 0) :
    ((xf2Apply t s1).sub (xf2Apply t s0)).dot ((xf2Apply t s1).sub (xf2Apply t s0)) ≠ 0 := by
  have hf := Tf.Xf2.factor_pos t h
  have e : ((xf2Apply t s1).sub (xf2Apply t s0)).dot ((xf2Apply t s1).sub (xf2Apply t s0)) =
      t.factor * t.factor * (s1.sub s0).dot (s1.sub s0) := by
    show ((t.apply s1.toTf).sub (t.apply s0.toTf)).dot ((t.apply s1.toTf).sub (t.apply s0.toTf)) =
      t.factor * t.factor * ((s1.toTf.sub s0.toTf).dot (s1.toTf.sub s0.toTf))
    rw [Tf.Xf2.apply_sub_apply t, Tf.Xf2.dot_lin t h]
  rw [e]
  exact mul_ne_zero (ne_of_gt (mul_pos hf hf)) hne

/-- **the wrapped segment's circle test at the pulled-back circle = the circle test of the image segment** -/
theorem seg2BallSpec_image (t : Tf.Xf2 K) (h : t.DistValid) (s0 s1 p : V2 K) (q : K)
    (hne : (s1.sub s0).dot (s1.sub s0) ≠ 0) :
    seg2BallSpec s0 s1 (xf2Apply t.inverse p) (q / (t.factor * t.factor)) =
      seg2BallSpec (xf2Apply t s0) (xf2Apply t s1) p q := by
  have hf := Tf.Xf2.factor_pos t h
  rw [Bool.eq_iff_iff, seg2BallSpec_iff _ _ _ _ hne, seg2BallSpec_iff _ _ _ _ (seg2_image_nondeg t h s0 s1 hne)]
  refine exists_congr fun lam => and_congr_right fun _ => and_congr_right fun _ => ?_
  rw [← xf2Apply_segPoint t, distSq_xf2Apply_left t h, lt_div_iff₀ (mul_pos hf hf)]
  constructor <;> intro hh <;> linarith

/-! ### circles -/

theorem circleBall_iff {sqrtF : K → K} (center : V2 K) (R : K) (c : V2 K) (r : K) :
    circleBall sqrtF center R c r = true ↔ |R - c.dist sqrtF center| ≤ r := by
  simp only [circleBall, decide_eq_true_eq, absS_eq]

/-- **`Circle.CircleCollision` behind a 2-D `transformedCollider` = the circle/disc test of the image circle** -/
theorem circleBall_image {sqrtF : K → K} (hs : SqrtOK sqrtF) (t : Tf.Xf2 K) (h : t.DistValid) (center p : V2 K)
    (R r : K) (hR : 0 ≤ R) (hr : 0 ≤ r) :
    tCircle t (circleBall sqrtF center R) p r =
      ballSphereSpec (p.distSq (xf2Apply t center)) (t.applyDistance R) r := by
  have hf := Tf.Xf2.factor_pos t h
  have hfne := ne_of_gt hf
  rw [Bool.eq_iff_iff, tCircle_eq t h, circleBall_iff,
    ballSphereSpec_iff hs _ _ _ (V2.distSq_nonneg _ _) (by rw [Tf.Xf2.applyDistance_eq]; exact mul_nonneg hR hf.le) hr,
    Tf.Xf2.applyDistance_eq]
  have hd : (xf2Apply t.inverse p).distSq center = p.distSq (xf2Apply t center) / (t.factor * t.factor) := by
    rw [V2.distSq_comm p, distSq_xf2Apply_left t h, V2.distSq_comm center]
    field_simp
  simp only [V2.dist]
  rw [hd, sqrt_div_sq hs (V2.distSq_nonneg _ _) hf]
  set s := sqrtF (p.distSq (xf2Apply t center))
  have e : R - s / t.factor = (R * t.factor - s) / t.factor := by field_simp
  rw [e, abs_div, abs_of_pos hf, div_le_div_iff_of_pos_right hf]

/-! ## joined colliders -/

/-- `JoinedCollider.SphereCollision`: whatever the bounds prefilter answers, `true` means some child answered
`true`; with a prefilter that admits every ball some child accepts (C08) it is exactly "some child". -/
theorem joinedBall_spec {P : Type} (admits : P → K → Bool) (parts : List (P → K → Bool)) (c : P) (r : K) :
    (joinedBall admits parts c r = true → ∃ s ∈ parts, s c r = true) ∧
    ((∀ s ∈ parts, s c r = true → admits c r = true) →
      (joinedBall admits parts c r = true ↔ ∃ s ∈ parts, s c r = true)) := by
  simp only [joinedBall, Bool.and_eq_true, List.any_eq_true]
  refine ⟨fun h => h.2, fun hs => ⟨fun h => h.2, fun h => ⟨?_, h⟩⟩⟩
  obtain ⟨s, hm, ht⟩ := h
  exact hs s hm ht

end M3d.Col
