import M3d.Model.MeshDiag
import M3d.Lemmas.Surface
/-!
# C11 — lemmas about the edge diagnostics (`NeedsRepair`, `InconsistentEdges`, 2-D twins)
-/
namespace M3d.MeshDiag
open M3d.Surface

/-! ## eraseDups -/

theorem nodup_eraseDups_aux {α : Type} [BEq α] [LawfulBEq α] :
    ∀ (n : Nat) (l : List α), l.length ≤ n → l.eraseDups.Nodup := by
  intro n
  induction n with
  | zero =>
    intro l hl
    have : l = [] := List.eq_nil_of_length_eq_zero (Nat.le_zero.mp hl)
    subst this; simp
  | succ n ih =>
    intro l hl
    cases l with
    | nil => simp
    | cons a as =>
      rw [List.eraseDups_cons, List.nodup_cons]
      refine ⟨?_, ih _ ?_⟩
      · rw [List.mem_eraseDups, List.mem_filter]
        simp
      · have := List.length_filter_le (fun b => !b == a) as
        simp at hl; omega

theorem nodup_eraseDups {α : Type} [BEq α] [LawfulBEq α] (l : List α) : l.eraseDups.Nodup :=
  nodup_eraseDups_aux l.length l (Nat.le_refl _)

/-! ## the counting scan of `NeedsRepair` -/

theorem scanCounts_some {l seen s : List Edge} (h : scanCounts l seen = some s) :
    s = l.reverse ++ seen := by
  induction l generalizing seen with
  | nil => simp [scanCounts] at h; simp [h]
  | cons e rest ih =>
    simp only [scanCounts] at h
    split at h
    · cases h
    · have := ih h
      simp [this]

theorem scanCounts_none_iff (l seen : List Edge) (hs : ∀ e, seen.count e ≤ 2) :
    scanCounts l seen = none ↔ ∃ e, (l ++ seen).count e > 2 := by
  induction l generalizing seen with
  | nil =>
    simp only [scanCounts, List.nil_append]
    constructor
    · intro h; cases h
    · rintro ⟨e, he⟩; have := hs e; omega
  | cons x rest ih =>
    simp only [scanCounts]
    split
    · rename_i hx
      refine ⟨fun _ => ⟨x, ?_⟩, fun _ => rfl⟩
      simp [List.count_append]
      omega
    · rename_i hx
      have hs' : ∀ e, (x :: seen).count e ≤ 2 := by
        intro e
        rw [List.count_cons]
        by_cases hxe : x = e
        · subst hxe; simp; omega
        · have : (x == e) = false := by simpa using hxe
          simp [this]; exact hs e
      rw [ih (x :: seen) hs']
      have key : ∀ e, (rest ++ x :: seen).count e = (x :: rest ++ seen).count e := by
        intro e
        simp [List.count_append, List.count_cons]; omega
      constructor
      · rintro ⟨e, he⟩; exact ⟨e, by rw [← key]; exact he⟩
      · rintro ⟨e, he⟩; exact ⟨e, by rw [key]; exact he⟩

/-- `NeedsRepair` on the list of undirected edge uses. -/
theorem needsRepair_iff_segs (ts : List Tri) :
    needsRepair ts = true ↔ ∃ e ∈ segsOf ts, (segsOf ts).count e ≠ 2 := by
  unfold needsRepair
  cases h : scanCounts (segsOf ts) [] with
  | none =>
    simp only [true_iff]
    obtain ⟨e, he⟩ := (scanCounts_none_iff (segsOf ts) [] (by simp)).mp h
    simp only [List.append_nil] at he
    refine ⟨e, ?_, by omega⟩
    exact List.count_pos_iff.mp (by omega)
  | some s =>
    have hs := scanCounts_some h
    simp only [List.append_nil] at hs
    subst hs
    simp only [List.any_eq_true, List.mem_eraseDups, List.mem_reverse, List.count_reverse, bne_iff_ne]
  
/-! ## undirected multiplicity = uses in either direction -/

theorem undirected_eq_iff (x e : Edge) : undirected x = undirected e ↔ x = e ∨ x = swap e := by
  obtain ⟨a, b⟩ := x
  obtain ⟨c, d⟩ := e
  simp only [undirected, swap]
  constructor
  · intro h
    split at h <;> split at h <;> simp only [Prod.mk.injEq] at h ⊢ <;> omega
  · rintro (h | h) <;> simp only [Prod.mk.injEq] at h <;> obtain ⟨rfl, rfl⟩ := h
    · rfl
    · split <;> split <;> simp only [Prod.mk.injEq] <;> omega

theorem count_undirected (l : List Edge) (e : Edge) (he : e.1 ≠ e.2) :
    (l.map undirected).count (undirected e) = l.count e + l.count (swap e) := by
  induction l with
  | nil => simp
  | cons x xs ih =>
    rw [List.map_cons, List.count_cons, List.count_cons, List.count_cons, ih]
    have hne : e ≠ swap e := by
      obtain ⟨a, b⟩ := e
      simp only [swap, ne_eq, Prod.mk.injEq] at he ⊢
      omega
    have h := undirected_eq_iff x e
    by_cases h1 : x = e
    · have h2 : x ≠ swap e := fun h2 => hne (h1 ▸ h2)
      have : undirected x = undirected e := h.mpr (Or.inl h1)
      simp [h1, hne]; omega
    · by_cases h2 : x = swap e
      · have : undirected x = undirected e := h.mpr (Or.inr h2)
        have h3 : (swap e == e) = false := by simpa using fun h3 => hne h3.symm
        subst h2
        simp [this, h3]; omega
      · have : undirected x ≠ undirected e := fun h3 => by
          rcases h.mp h3 with h4 | h4
          · exact h1 h4
          · exact h2 h4
        simp [this, h1, h2]

theorem triEdges_nondeg {t : Tri} (ht : TriNondeg t) {e : Edge} (he : e ∈ triEdges t) : e.1 ≠ e.2 := by
  obtain ⟨h1, h2, h3⟩ := ht
  simp only [triEdges, List.mem_cons, List.mem_nil_iff, or_false] at he
  rcases he with rfl | rfl | rfl <;> assumption

theorem dirEdges_nondeg {ts : List Tri} (h : NoDegenerate ts) {e : Edge} (he : e ∈ dirEdges ts) :
    e.1 ≠ e.2 := by
  simp only [dirEdges, List.mem_flatMap] at he
  obtain ⟨t, ht, het⟩ := he
  exact triEdges_nondeg (h t ht) het

theorem inconsistentEdges_eq_nil_iff (ts : List Tri) :
    inconsistentEdges ts = [] ↔ ∀ e ∈ dirEdges ts, (dirEdges ts).count e ≤ 1 := by
  simp only [inconsistentEdges, List.filter_eq_nil_iff, List.mem_eraseDups, decide_eq_true_eq]
  constructor
  · intro h e he; have := h e he; omega
  · intro h e he; have := h e he; omega

/-! ## 2-D: `Manifold`, `InconsistentVertices` -/

theorem numFirst_eq (v : Nat) (ss : List Seg) :
    (segsAt v ss).countP (fun s => s.1 == v) = (starts ss).count v := by
  induction ss with
  | nil => rfl
  | cons s ss ih =>
    simp only [segsAt, starts, List.filter_cons, List.map_cons, List.count_cons] at ih ⊢
    by_cases h1 : s.1 = v
    · simp [segHas, h1, ih]
    · have h1' : (s.1 == v) = false := by simpa using h1
      by_cases h2 : s.2 = v
      · simp [segHas, h1', h2, ih]
      · have h2' : (s.2 == v) = false := by simpa using h2
        simp [segHas, h1', h2', ih]

theorem numSecond_eq (v : Nat) (ss : List Seg) (hl : NoLoopSeg ss) :
    (segsAt v ss).countP (fun s => !(s.1 == v)) = (ends ss).count v := by
  induction ss with
  | nil => rfl
  | cons s ss ih =>
    have ih' := ih (fun t ht => hl t (List.mem_cons_of_mem _ ht))
    have hs : s.1 ≠ s.2 := hl s List.mem_cons_self
    simp only [segsAt, ends, List.filter_cons, List.map_cons, List.count_cons] at ih' ⊢
    by_cases h1 : s.1 = v
    · have h2 : (s.2 == v) = false := by simpa using fun h => hs (h1.trans h.symm)
      simp [segHas, h1, h2, ih']
    · have h1' : (s.1 == v) = false := by simpa using h1
      by_cases h2 : s.2 = v
      · simp [segHas, h1', h2, ih']
      · have h2' : (s.2 == v) = false := by simpa using h2
        simp [segHas, h1', h2', ih']

theorem segsAt_length (v : Nat) (ss : List Seg) :
    (segsAt v ss).length = (segsAt v ss).countP (fun s => s.1 == v) +
      (segsAt v ss).countP (fun s => !(s.1 == v)) := by
  generalize segsAt v ss = l
  induction l with
  | nil => rfl
  | cons s l ih =>
    simp only [List.length_cons, List.countP_cons, ih]
    cases s.1 == v <;> simp <;> omega

end M3d.MeshDiag
