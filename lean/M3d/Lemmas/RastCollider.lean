import M3d.Model.RastCollider
import Mathlib.Tactic.Linarith
import Mathlib.Tactic.Positivity
import Mathlib.Tactic.Ring
import Mathlib.Tactic.FieldSimp
import Mathlib.Algebra.Order.Field.Basic
/-!
# Lemmas for the tile filter of `RasterizeCollider` (property C12)

Squared-distance triangle inequality (Cauchy–Schwarz in the plane, no square roots), the half
diagonal of a rectangle bounds the distance of its points from its mid point, and the sub-sample
points of a tile's pixels lie in the tile's rectangle.
-/
namespace M3d.RastCollider
open M3d.Partition

variable {K : Type} [Field K] [LinearOrder K] [IsStrictOrderedRing K]

theorem sqDist_nonneg (p q : P2 K) : 0 ≤ sqDist p q := by
  unfold sqDist
  nlinarith [mul_self_nonneg (p.x - q.x), mul_self_nonneg (p.y - q.y)]

/-- triangle inequality in squared form: `|c-p| ≤ h`, `|p-q| ≤ e` ⇒ `|c-q| ≤ h+e`. -/
theorem sqDist_triangle (c p q : P2 K) (h e : K) (hh : 0 ≤ h) (he : 0 ≤ e)
    (h1 : sqDist c p ≤ h * h) (h2 : sqDist p q ≤ e * e) : sqDist c q ≤ (h + e) * (h + e) := by
  have hA := sqDist_nonneg c p
  have hS := sqDist_nonneg p q
  unfold sqDist at *
  set a := c.x - p.x with ha
  set b := c.y - p.y with hb
  set s := p.x - q.x with hs
  set t := p.y - q.y with ht
  have e1 : c.x - q.x = a + s := by rw [ha, hs]; ring
  have e2 : c.y - q.y = b + t := by rw [hb, ht]; ring
  rw [e1, e2]
  -- Cauchy–Schwarz
  have cs : (a * s + b * t) * (a * s + b * t) ≤ (a * a + b * b) * (s * s + t * t) := by
    nlinarith [mul_self_nonneg (a * t - b * s)]
  have prod : (a * a + b * b) * (s * s + t * t) ≤ (h * h) * (e * e) :=
    mul_le_mul h1 h2 hS (mul_self_nonneg h)
  have hhe : 0 ≤ h * e := mul_nonneg hh he
  have dot : a * s + b * t ≤ h * e := by
    by_contra hlt
    have hlt := not_le.1 hlt
    have := mul_self_lt_mul_self hhe hlt
    nlinarith
  nlinarith

/-- a point of the rectangle `[lo, hi]` is at most half a diagonal away from the mid point -/
theorem sqDist_mid_le (lo hi p : P2 K)
    (hx : lo.x ≤ p.x ∧ p.x ≤ hi.x) (hy : lo.y ≤ p.y ∧ p.y ≤ hi.y) :
    sqDist (mid lo hi) p ≤ sqDist lo (mid lo hi) := by
  unfold sqDist mid
  simp only
  have ax : ((lo.x + hi.x) / 2 - p.x) * ((lo.x + hi.x) / 2 - p.x) ≤
      (lo.x - (lo.x + hi.x) / 2) * (lo.x - (lo.x + hi.x) / 2) := by
    nlinarith [mul_nonneg (sub_nonneg.2 hx.1) (sub_nonneg.2 hx.2)]
  have ay : ((lo.y + hi.y) / 2 - p.y) * ((lo.y + hi.y) / 2 - p.y) ≤
      (lo.y - (lo.y + hi.y) / 2) * (lo.y - (lo.y + hi.y) / 2) := by
    nlinarith [mul_nonneg (sub_nonneg.2 hy.1) (sub_nonneg.2 hy.2)]
  linarith

/-- the mid point lies in a non-empty rectangle -/
theorem mid_mem (lo hi : P2 K) (hx : lo.x ≤ hi.x) (hy : lo.y ≤ hi.y) :
    (lo.x ≤ (mid lo hi).x ∧ (mid lo hi).x ≤ hi.x) ∧ (lo.y ≤ (mid lo hi).y ∧ (mid lo hi).y ≤ hi.y) := by
  unfold mid
  simp only
  refine ⟨⟨?_, ?_⟩, ?_, ?_⟩ <;> linarith

theorem corner_mono (mn : P2 K) (pw ph : K) (hpw : 0 ≤ pw) (hph : 0 ≤ ph) (x x' y y' : Nat)
    (hx : x ≤ x') (hy : y ≤ y') :
    (corner mn pw ph x y).x ≤ (corner mn pw ph x' y').x ∧
    (corner mn pw ph x y).y ≤ (corner mn pw ph x' y').y := by
  unfold corner
  simp only
  have h1 : (x : K) ≤ x' := Nat.cast_le.2 hx
  have h2 : (y : K) ≤ y' := Nat.cast_le.2 hy
  constructor
  · nlinarith [mul_le_mul_of_nonneg_right h1 hpw]
  · nlinarith [mul_le_mul_of_nonneg_right h2 hph]

theorem mem_tilePixels (t : Tile) (p : Nat × Nat) :
    p ∈ tilePixels t ↔ (t.x ≤ p.1 ∧ p.1 < t.nextX) ∧ (t.y ≤ p.2 ∧ p.2 < t.nextY) := by
  obtain ⟨px, py⟩ := p
  simp only [tilePixels, List.mem_flatMap, List.mem_map, List.mem_range'_1, Prod.mk.injEq]
  constructor
  · rintro ⟨sy, ⟨h1, h2⟩, sx, ⟨h3, h4⟩, rfl, rfl⟩
    omega
  · rintro ⟨⟨h1, h2⟩, h3, h4⟩
    exact ⟨py, by omega, px, by omega, rfl, rfl⟩

/-- one axis of a sub-sample: `lo + (hi-lo)·(1/(ss+1))·s` with `s < ss` stays in `[lo, hi]` -/
theorem sample_axis (lo hi : K) (ss s : Nat) (hle : lo ≤ hi) (hs : s < ss) :
    lo ≤ lo + (hi - lo) * (1 / ((ss + 1 : Nat) : K)) * (s : K) ∧
    lo + (hi - lo) * (1 / ((ss + 1 : Nat) : K)) * (s : K) ≤ hi := by
  have hpos : (0 : K) < ((ss + 1 : Nat) : K) := by exact_mod_cast Nat.succ_pos ss
  have hs0 : (0 : K) ≤ (s : K) := Nat.cast_nonneg s
  have hlt : (s : K) ≤ ((ss + 1 : Nat) : K) := by exact_mod_cast (by omega : s ≤ ss + 1)
  have hd : 0 ≤ hi - lo := sub_nonneg.2 hle
  have hfrac0 : 0 ≤ (1 / ((ss + 1 : Nat) : K)) * (s : K) := by positivity
  have hfrac1 : (1 / ((ss + 1 : Nat) : K)) * (s : K) ≤ 1 := by
    rw [one_div, inv_mul_le_iff₀ hpos]
    linarith
  constructor
  · nlinarith [mul_nonneg hd hfrac0]
  · have : (hi - lo) * ((1 / ((ss + 1 : Nat) : K)) * (s : K)) ≤ (hi - lo) * 1 :=
      mul_le_mul_of_nonneg_left hfrac1 hd
    nlinarith

/-- every sub-sample point of a pixel of the tile `t` lies in the rectangle handed to the filter -/
theorem samples_in_tile (mn : P2 K) (pw ph : K) (hpw : 0 ≤ pw) (hph : 0 ≤ ph) (ss : Nat) (t : Tile)
    (p : Nat × Nat) (hp : p ∈ tilePixels t) (q : P2 K) (hq : q ∈ samples mn pw ph ss p) :
    ((tileLo mn pw ph t).x ≤ q.x ∧ q.x ≤ (tileHi mn pw ph t).x) ∧
    ((tileLo mn pw ph t).y ≤ q.y ∧ q.y ≤ (tileHi mn pw ph t).y) := by
  obtain ⟨⟨hx0, hx1⟩, hy0, hy1⟩ := (mem_tilePixels t p).1 hp
  simp only [samples, List.mem_flatMap, List.mem_map, List.mem_range] at hq
  obtain ⟨sx, hsx, sy, hsy, rfl⟩ := hq
  have l := corner_mono mn pw ph hpw hph t.x p.1 t.y p.2 hx0 hy0
  have m := corner_mono mn pw ph hpw hph p.1 (p.1 + 1) p.2 (p.2 + 1) (Nat.le_succ _) (Nat.le_succ _)
  have u := corner_mono mn pw ph hpw hph (p.1 + 1) t.nextX (p.2 + 1) t.nextY hx1 hy1
  have ax := sample_axis (corner mn pw ph p.1 p.2).x (corner mn pw ph (p.1 + 1) (p.2 + 1)).x ss sx m.1 hsx
  have ay := sample_axis (corner mn pw ph p.1 p.2).y (corner mn pw ph (p.1 + 1) (p.2 + 1)).y ss sy m.2 hsy
  simp only [tileLo, tileHi, samplePt]
  exact ⟨⟨le_trans l.1 ax.1, le_trans ax.2 u.1⟩, le_trans l.2 ay.1, le_trans ay.2 u.2⟩

omit [LinearOrder K] [IsStrictOrderedRing K] in
theorem samples_ne_nil (mn : P2 K) (pw ph : K) (ss : Nat) (hss : 0 < ss) (p : Nat × Nat) :
    samples mn pw ph ss p ≠ [] := by
  obtain ⟨k, rfl⟩ : ∃ k, ss = k + 1 := ⟨ss - 1, by omega⟩
  simp [samples, List.range_succ_eq_map]

/-- a tile produced by `tiles` is a non-empty pixel range -/
theorem tile_nonempty (w h fs : Nat) (t : Tile) (ht : t ∈ tiles w h fs) :
    t.x ≤ t.nextX ∧ t.y ≤ t.nextY := by
  simp only [tiles, tileStarts, List.mem_flatMap, List.mem_map, List.mem_range] at ht
  obtain ⟨y, ⟨a, ha, rfl⟩, x, ⟨b, hb, rfl⟩, rfl⟩ := ht
  have h1 : b * fs < w := by
    rcases Nat.eq_zero_or_pos fs with h0 | hpos
    · subst h0; simp at hb
    · have := (Nat.lt_div_iff_mul_lt hpos).1 hb
      omega
  have h2 : a * fs < h := by
    rcases Nat.eq_zero_or_pos fs with h0 | hpos
    · subst h0; simp at ha
    · have := (Nat.lt_div_iff_mul_lt hpos).1 ha
      omega
  simp only
  omega

end M3d.RastCollider
