import M3d.Lemmas.ConcIter
import M3d.Model.ConcDerive
/-!
# C13 helper lemmas: queries of a union and `Optimize()` with a copy of its own
-/
set_option linter.unusedSimpArgs false
set_option linter.unusedVariables false
namespace M3d.Conc

theorem unionVisits_RO (nth : Val → Nat → Val) (acc : Val → Val → Val) (t : Tid) (ks : List Nat) :
    ∀ s ∈ unionVisits nth acc PARTS (UANS t) ks, stepRO iterOwn iterShared t s = true := by
  induction ks with
  | nil => simp [unionVisits]
  | cons k ks ih =>
    intro s hs
    simp only [unionVisits, List.mem_cons] at hs
    rcases hs with rfl | rfl | rfl | hs
    · simp [stepRO, iterShared, PARTS, FACES]
    · simp [stepRO]
    · simp [stepRO, iterOwn, UANS]
    · exact ih s hs

/-- Every step of the library-shaped program (queries; `Optimize()` grouping a copy of its own)
respects the ownership discipline. -/
theorem unionProg_RO (grp : Tid → Option (Val → Val)) (nth : Val → Nat → Val) (acc : Tid → Val → Val → Val)
    (n : Nat) (t : Tid) :
    ∀ s ∈ unionProg grp nth acc n t, stepRO iterOwn iterShared t s = true := by
  intro s hs
  unfold unionProg at hs
  cases hg : grp t with
  | none =>
    rw [hg] at hs
    exact unionVisits_RO nth (acc t) t _ s hs
  | some g =>
    rw [hg] at hs
    simp only [optimizeThread, List.mem_cons, List.mem_nil_iff, or_false] at hs
    rcases hs with rfl | rfl | rfl | rfl
    · simp [stepRO, iterShared, PARTS, FACES]
    · simp [stepRO, iterOwn, UCOPY]
    · simp [stepRO]
    · simp [stepRO, iterOwn, UCOPY]

/-- The visits of a query, interpreted: the answer is the fold of the parts at the visited
positions of the list, the list itself stays. -/
theorem interp_unionVisits (nth : Val → Nat → Val) (acc : Val → Val → Val) (list ans : Loc) (hne : list ≠ ans)
    (ks : List Nat) (m : Loc → Val) (o : Val) :
    (interp (unionVisits nth acc list ans ks) (m, o)).1 ans =
        ks.foldl (fun a k => acc a (nth (m list) k)) (m ans) ∧
      (interp (unionVisits nth acc list ans ks) (m, o)).1 list = m list := by
  induction ks generalizing m o with
  | nil => simp [unionVisits, interp]
  | cons k ks ih =>
    simp only [unionVisits, interp_cons, interp1, List.foldl_cons]
    have h := ih (upd m ans (acc (m ans) (nth (m list) k))) (m list)
    have e1 : upd m ans (acc (m ans) (nth (m list) k)) list = m list := upd_other _ _ hne
    rw [e1] at h
    simpa using h

/-- `Optimize()` with a copy of its own, interpreted: the copy holds the grouped list, and that
is what the hierarchy is built from (`out`). -/
theorem interp_optimizeThread (grp : Val → Val) (copy : Loc) (m : Loc → Val) (o : Val) :
    (interp (optimizeThread grp copy) (m, o)).1 copy = grp (m PARTS) ∧
      (interp (optimizeThread grp copy) (m, o)).2 = grp (m PARTS) := by
  simp [optimizeThread, interp, interp1, upd]

end M3d.Conc
