import M3d.Lemmas.CollideSegQuery
/-!
# C07 — `profileCollider.SphereCollision`: the ball meets the extruded outline (walls or the two faces)
-/
set_option linter.unusedSectionVars false
namespace M3d.Col

variable {K : Type} [Field K] [LinearOrder K] [IsStrictOrderedRing K]

theorem profFaceDist_nonneg (minZ maxZ cz : K) : 0 ≤ profFaceDist minZ maxZ cz := by
  unfold profFaceDist; split
  · linarith
  · split <;> linarith

/-- the face distance is the distance of `cz` from the interval: a lower bound for every `z` of the interval … -/
theorem profFaceDist_le (minZ maxZ cz z : K) (h0 : minZ ≤ z) (h1 : z ≤ maxZ) :
    profFaceDist minZ maxZ cz * profFaceDist minZ maxZ cz ≤ (z - cz) * (z - cz) := by
  unfold profFaceDist; split
  · nlinarith
  · split
    · nlinarith
    · nlinarith [mul_self_nonneg (z - cz)]

/-- … attained at the clamped value -/
theorem profFaceDist_attained (minZ maxZ cz : K) (hz : minZ ≤ maxZ) :
    ∃ z, minZ ≤ z ∧ z ≤ maxZ ∧ (z - cz) * (z - cz) = profFaceDist minZ maxZ cz * profFaceDist minZ maxZ cz := by
  unfold profFaceDist
  by_cases h1 : cz < minZ
  · exact ⟨minZ, le_rfl, hz, by rw [if_pos h1]⟩
  · by_cases h2 : maxZ < cz
    · refine ⟨maxZ, hz, le_rfl, ?_⟩; rw [if_neg h1, if_pos h2]; ring
    · refine ⟨cz, not_lt.1 h1, not_lt.1 h2, ?_⟩; rw [if_neg h1, if_neg h2]; ring

theorem lt_of_sq_lt {a b : K} (ha : 0 ≤ a) (hb : 0 ≤ b) (h : a * a < b * b) : a < b := by
  by_contra hc
  have := mul_self_le_mul_self hb (not_lt.1 hc)
  linarith

theorem abs_lt_iff_sq (x r : K) (hr : 0 ≤ r) : |x| < r ↔ x * x < r * r := by
  constructor
  · intro h
    have := mul_self_lt_mul_self (abs_nonneg x) h
    rwa [abs_mul_abs_self] at this
  · intro h
    apply lt_of_sq_lt (abs_nonneg x) hr
    rwa [abs_mul_abs_self]

/-- the surface of the extrusion of the outline `S2` (walls) with the solid `D` (the two faces) has a point at squared
distance `< Q` from `c` -/
def ProfSurfaceNear (S2 D : V2 K → Prop) (minZ maxZ : K) (c : V3 K) (Q : K) : Prop :=
  (∃ p z, S2 p ∧ minZ ≤ z ∧ z ≤ maxZ ∧ (⟨p.x, p.y, z⟩ : V3 K).distSq c < Q) ∨
  (∃ q, D q ∧ ((⟨q.x, q.y, minZ⟩ : V3 K).distSq c < Q ∨ (⟨q.x, q.y, maxZ⟩ : V3 K).distSq c < Q))

/-- **`profileCollider.SphereCollision` in squared form decides "the open ball meets the surface of the extrusion"**,
when the 2-D circle query decides "the outline has a point within the radius", the 2-D solid is `D`, and a segment
from a point of `D` to a point outside `D` meets the outline (the outline is the boundary of the solid). -/
theorem profBallSpec_iff (S2 D : V2 K → Prop) (circSq : V2 K → K → Bool) (solid2 : V2 K → Bool) (minZ maxZ : K)
    (hz : minZ ≤ maxZ) (c : V3 K) (r : K) (hr : 0 ≤ r)
    (hcirc : ∀ q Q, circSq q Q = true ↔ ∃ p, S2 p ∧ p.distSq q < Q)
    (hsolid : ∀ q, solid2 q = true ↔ D q)
    (hcross : ∀ q q', D q → ¬ D q' → ∃ lam, 0 ≤ lam ∧ lam ≤ 1 ∧ S2 (q'.add ((q.sub q').scale lam))) :
    profBallSpec circSq solid2 minZ maxZ c r = true ↔ ProfSurfaceNear S2 D minZ maxZ c (r * r) := by
  have hfd0 := profFaceDist_nonneg minZ maxZ c.z
  have hsplit : ∀ (p : V2 K) (z : K), (⟨p.x, p.y, z⟩ : V3 K).distSq c = p.distSq c.xy + (z - c.z) * (z - c.z) := by
    intro p z; simp only [V3.distSq, V2.distSq, V3.xy]
  have hafd : minS (absS (c.z - minZ)) (absS (c.z - maxZ)) < r ↔
      (minZ - c.z) * (minZ - c.z) < r * r ∨ (maxZ - c.z) * (maxZ - c.z) < r * r := by
    rw [minS_eq, absS_eq, absS_eq, min_lt_iff, abs_lt_iff_sq _ _ hr, abs_lt_iff_sq _ _ hr]
    constructor
    · rintro (h | h)
      · left; nlinarith
      · right; nlinarith
    · rintro (h | h)
      · left; nlinarith
      · right; nlinarith
  -- a near point of a face or wall keeps `faceDistance < r`
  have hfdlt : ∀ z, minZ ≤ z → z ≤ maxZ → (z - c.z) * (z - c.z) < r * r → profFaceDist minZ maxZ c.z < r := by
    intro z h0 h1 hlt
    exact lt_of_sq_lt hfd0 hr (lt_of_le_of_lt (profFaceDist_le minZ maxZ c.z z h0 h1) hlt)
  unfold profBallSpec
  simp only []
  constructor
  · intro h
    by_cases hfd : r ≤ profFaceDist minZ maxZ c.z
    · rw [if_pos hfd] at h; cases h
    rw [if_neg hfd] at h
    simp only [Bool.or_eq_true, Bool.and_eq_true, decide_eq_true_eq] at h
    rcases h with h | ⟨h1, h2⟩
    · obtain ⟨p, hp, hlt⟩ := (hcirc _ _).1 h
      obtain ⟨z, z0, z1, hzz⟩ := profFaceDist_attained minZ maxZ c.z hz
      exact Or.inl ⟨p, z, hp, z0, z1, by rw [hsplit, hzz]; linarith⟩
    · refine Or.inr ⟨c.xy, (hsolid _).1 h2, ?_⟩
      rcases hafd.1 h1 with h | h
      · left; rw [hsplit]; simp only [V2.distSq, V3.xy]; nlinarith
      · right; rw [hsplit]; simp only [V2.distSq, V3.xy]; nlinarith
  · intro h
    rcases h with ⟨p, z, hp, z0, z1, hlt⟩ | ⟨q, hq, hlt⟩
    · rw [hsplit] at hlt
      have hd0 : 0 ≤ p.distSq c.xy := V2.distSq_nonneg _ _
      have hfd := hfdlt z z0 z1 (by linarith)
      rw [if_neg (not_le.2 hfd)]
      have : circSq c.xy (r * r - profFaceDist minZ maxZ c.z * profFaceDist minZ maxZ c.z) = true :=
        (hcirc _ _).2 ⟨p, hp, by linarith [profFaceDist_le minZ maxZ c.z z z0 z1]⟩
      rw [this]; rfl
    · -- a near point of a face
      have key : ∀ zf, minZ ≤ zf → zf ≤ maxZ → (zf = minZ ∨ zf = maxZ) → (⟨q.x, q.y, zf⟩ : V3 K).distSq c < r * r →
          (if r ≤ profFaceDist minZ maxZ c.z then false
            else circSq c.xy (r * r - profFaceDist minZ maxZ c.z * profFaceDist minZ maxZ c.z) ||
              (decide (minS (absS (c.z - minZ)) (absS (c.z - maxZ)) < r) && solid2 c.xy)) = true := by
        intro zf z0 z1 hzf hlt
        rw [hsplit] at hlt
        have hd0 : 0 ≤ q.distSq c.xy := V2.distSq_nonneg _ _
        have hzlt : (zf - c.z) * (zf - c.z) < r * r := by linarith
        have hfd := hfdlt zf z0 z1 hzlt
        rw [if_neg (not_le.2 hfd)]
        by_cases hD : D c.xy
        · have h1 : minS (absS (c.z - minZ)) (absS (c.z - maxZ)) < r := by
            rw [hafd]; rcases hzf with rfl | rfl
            · exact Or.inl hzlt
            · exact Or.inr hzlt
          simp [h1, (hsolid _).2 hD]
        · obtain ⟨lam, l0, l1, hS⟩ := hcross q c.xy hq hD
          have hle : (c.xy.add ((q.sub c.xy).scale lam)).distSq c.xy ≤ q.distSq c.xy := by
            have e : (c.xy.add ((q.sub c.xy).scale lam)).distSq c.xy = lam * lam * q.distSq c.xy := by
              simp only [V2.distSq, V2.add, V2.scale, V2.sub]; ring
            rw [e]
            have : lam * lam ≤ 1 := by nlinarith
            nlinarith
          have : circSq c.xy (r * r - profFaceDist minZ maxZ c.z * profFaceDist minZ maxZ c.z) = true :=
            (hcirc _ _).2 ⟨_, hS, by linarith [profFaceDist_le minZ maxZ c.z zf z0 z1]⟩
          rw [this]; rfl
      rcases hlt with h | h
      · exact key minZ le_rfl hz (Or.inl rfl) h
      · exact key maxZ hz le_rfl (Or.inr rfl) h

/-- the Go method (with `math.Sqrt`) is the squared form, when `CircleCollision(q, ρ)` is the squared query at `ρ²` -/
theorem profSphere_eq_spec {sqrtF : K → K} (hs : SqrtOK sqrtF) (circ circSq : V2 K → K → Bool)
    (solid2 : V2 K → Bool) (minZ maxZ : K) (c : V3 K) (r : K) (hr : 0 ≤ r)
    (hc : ∀ q ρ, 0 ≤ ρ → circ q ρ = circSq q (ρ * ρ)) :
    profSphere sqrtF circ solid2 minZ maxZ c r = profBallSpec circSq solid2 minZ maxZ c r := by
  unfold profSphere profBallSpec
  simp only []
  by_cases hfd : r ≤ profFaceDist minZ maxZ c.z
  · rw [if_pos hfd, if_pos hfd]
  · rw [if_neg hfd, if_neg hfd]
    have hfd0 := profFaceDist_nonneg minZ maxZ c.z
    have hnn : 0 ≤ r * r - profFaceDist minZ maxZ c.z * profFaceDist minZ maxZ c.z := by
      have := mul_self_le_mul_self hfd0 (not_le.1 hfd).le
      linarith
    obtain ⟨s0, s2⟩ := hs _ hnn
    rw [hc _ _ s0, s2]
    cases circSq c.xy (r * r - profFaceDist minZ maxZ c.z * profFaceDist minZ maxZ c.z) <;> simp

end M3d.Col
