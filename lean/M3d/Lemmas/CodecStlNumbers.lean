import M3d.Lemmas.CodecStlAscii
import M3d.Lemmas.CodecRound
/-!
# Decimal literals are 7-bit tokens: `WordOK` for the model's own number parser `parseF32`
needs no hypothesis (so `stl_ascii_spec` applies to every file of the kind `stlr`).
-/
namespace M3d.Codec

/-- bytes a decimal literal can contain: `+ - . E e` and digits -/
def litByte (b : UInt8) : Bool := b == 43 || b == 45 || b == 46 || b == 69 || b == 101 || isDigit b

theorem litByte_ok_table : (List.range 256).all (fun n =>
    !litByte (UInt8.ofNat n) ||
      (safeByte (UInt8.ofNat n) && UInt8.ofNat n != 0 && decide (UInt8.ofNat n ≤ 127))) = true := by
  decide +kernel

theorem litByte_ok (b : UInt8) (h : litByte b = true) : safeByte b = true ∧ b ≠ 0 ∧ b ≤ 127 := by
  have := List.all_eq_true.mp litByte_ok_table b.toNat (List.mem_range.mpr b.toNat_lt)
  rw [UInt8.ofNat_toNat, h] at this
  have h2 : (safeByte b = true ∧ ¬b = 0) ∧ b ≤ 127 := by simpa using this
  exact ⟨h2.1.1, h2.1.2, h2.2⟩

theorem mem_takeWhile {p : UInt8 → Bool} : ∀ (l : Bytes) (b : UInt8), b ∈ l.takeWhile p → p b = true := by
  intro l
  induction l with
  | nil => simp
  | cons a l ih =>
    intro b hb
    rw [List.takeWhile_cons] at hb
    split at hb
    · rcases List.mem_cons.mp hb with rfl | hb
      · assumption
      · exact ih b hb
    · simp at hb

theorem isDigit_lit {b : UInt8} (h : isDigit b = true) : litByte b = true := by
  unfold litByte; simp [h]

theorem takeSign_spec (s : Bytes) :
    (takeSign s).2 = s ∨ ∃ c, (c = 45 ∨ c = 43) ∧ s = c :: (takeSign s).2 := by
  unfold takeSign
  split
  · exact Or.inr ⟨45, Or.inl rfl, rfl⟩
  · exact Or.inr ⟨43, Or.inr rfl, rfl⟩
  · exact Or.inl rfl

theorem takeSign_lit (s : Bytes) (h : ∀ b ∈ (takeSign s).2, litByte b = true) : ∀ b ∈ s, litByte b = true := by
  rcases takeSign_spec s with h1 | ⟨c, hc, h1⟩
  · rw [h1] at h; exact h
  · intro b hb
    rw [h1] at hb
    rcases List.mem_cons.mp hb with rfl | hb
    · rcases hc with rfl | rfl <;> decide
    · exact h b hb

theorem takeSign_len (s : Bytes) : (takeSign s).2.length ≤ s.length := by
  rcases takeSign_spec s with h1 | ⟨c, _, h1⟩
  · rw [h1]
  · conv_rhs => rw [h1]
    simp

theorem span_digits (s : Bytes) :
    s = (s.span isDigit).1 ++ (s.span isDigit).2 ∧ ∀ b ∈ (s.span isDigit).1, isDigit b = true := by
  rw [List.span_eq_takeWhile_dropWhile]
  exact ⟨(List.takeWhile_append_dropWhile).symm, fun b hb => mem_takeWhile _ b hb⟩

theorem splitFrac_spec (s : Bytes) :
    (∀ b ∈ (splitFrac s).1, isDigit b = true) ∧
    (s = 46 :: ((splitFrac s).1 ++ (splitFrac s).2) ∨ ((splitFrac s).1 = [] ∧ (splitFrac s).2 = s)) := by
  unfold splitFrac
  split
  · rename_i r
    obtain ⟨h1, h2⟩ := span_digits r
    exact ⟨h2, Or.inl (by rw [← h1])⟩
  · exact ⟨by simp, Or.inr ⟨rfl, rfl⟩⟩

theorem parseExp_lit (s : Bytes) (e : Int) (h : parseExp s = some e) : ∀ b ∈ s, litByte b = true := by
  unfold parseExp at h
  split at h
  · simp
  · rename_i c r
    split_ifs at h with hc hr hsg
    all_goals
    intro b hb
    rcases List.mem_cons.mp hb with rfl | hb
    · simp only [Bool.or_eq_true, decide_eq_true_eq] at hc
      rcases hc with rfl | rfl <;> decide
    · refine takeSign_lit r ?_ b hb
      intro b' hb'
      simp only [Bool.or_eq_true, Bool.not_eq_true', not_or, Bool.not_eq_false] at hr
      exact isDigit_lit ((List.all_eq_true.mp hr.2) b' hb')

/-- a token accepted by `parseDec` is non-empty and made of literal bytes only -/
theorem parseDec_bytes (s : Bytes) (x : Dec) (h : parseDec s = some x) :
    s ≠ [] ∧ ∀ b ∈ s, litByte b = true := by
  unfold parseDec at h
  simp only at h
  obtain ⟨hs1, hip⟩ := span_digits (takeSign s).2
  obtain ⟨hfp, hs2⟩ := splitFrac_spec ((takeSign s).2.span isDigit).2
  generalize hIP : ((takeSign s).2.span isDigit).1 = ip at *
  generalize hS2 : ((takeSign s).2.span isDigit).2 = s2 at *
  generalize hFP : (splitFrac s2).1 = fp at *
  generalize hS3 : (splitFrac s2).2 = s3 at *
  split_ifs at h with hemp
  split at h
  · cases h
  · rename_i e he
    have hs3 := parseExp_lit s3 e he
    have hs2lit : ∀ b ∈ s2, litByte b = true := by
      rcases hs2 with h2 | ⟨_, h2⟩
      · intro b hb
        rw [h2] at hb
        rcases List.mem_cons.mp hb with rfl | hb
        · decide
        · rcases List.mem_append.mp hb with hb | hb
          · exact isDigit_lit (hfp b hb)
          · exact hs3 b hb
      · rw [← h2]; exact hs3
    have hs1lit : ∀ b ∈ (takeSign s).2, litByte b = true := by
      intro b hb
      rw [hs1] at hb
      rcases List.mem_append.mp hb with hb | hb
      · exact isDigit_lit (hip b hb)
      · exact hs2lit b hb
    refine ⟨?_, takeSign_lit s hs1lit⟩
    intro hnil
    have h1 : (takeSign s).2 = [] := by
      have hl := takeSign_len s
      have h0 : s.length = 0 := by rw [hnil]; rfl
      exact List.eq_nil_of_length_eq_zero (by omega)
    rw [h1] at hs1
    have hipn : ip = [] := (List.append_eq_nil_iff.mp hs1.symm).1
    have hs2n : s2 = [] := (List.append_eq_nil_iff.mp hs1.symm).2
    have hfpn : fp = [] := by
      rcases hs2 with h2 | ⟨h2, _⟩
      · rw [hs2n] at h2; cases h2
      · exact h2
    apply hemp
    rw [hipn, hfpn]
    rfl

/-- **decimal literals are 7-bit tokens**: `WordOK` for the model's own parser needs no hypothesis -/
theorem wordOK_parseF32 (fmt32 : Nat → Bytes) (g : UInt32 → UInt32) (w : UInt32)
    (h : parseF32 (fmt32 w.toNat) = some (g w)) : WordOK fmt32 parseF32 g w := by
  have hx : ∃ x, parseDec (fmt32 w.toNat) = some x := by
    unfold parseF32 at h
    cases hd : parseDec (fmt32 w.toNat) with
    | none => rw [hd] at h; cases h
    | some x => exact ⟨x, rfl⟩
  obtain ⟨x, hx⟩ := hx
  obtain ⟨hne, hb⟩ := parseDec_bytes _ x hx
  exact ⟨⟨hne, fun b hbm => (litByte_ok b (hb b hbm)).1⟩, h, fun b hbm => (litByte_ok b (hb b hbm)).2⟩
end M3d.Codec
