import M3d.Lemmas.TriCert
import M3d.Lemmas.TriWinding
import M3d.Model.CodecFace
import Mathlib.Tactic.Ring
import Mathlib.Tactic.Linarith
import Mathlib.Tactic.LinearCombination
import Mathlib.Tactic.FieldSimp
import Mathlib.Algebra.Order.Field.Basic
/-!
# C15 — what the face certificate of `M3d/Model/CodecFace.lean` establishes

* `cross3_parallel`     – two vectors of the plane `N·x = 0` have a cross product parallel to `N`,
                          with factor `(u×v)_k / N_k` for any axis `k` along which `N` does not vanish;
* `faceCertOk_sound`    – the 3-D reading of C14's 2-D certificate in the chart;
* `TilesFace`, `faceCert_tiles` – the same about triangles given by coordinates;
* `takeGroup_sound/complete`, `checkFaces_sound/complete` – grouping of the flat triangle list.
-/
set_option linter.unusedSectionVars false
namespace M3d.Codec.Face
open M3d.Tri
open M3d.Surface (Tri Edge swap triEdges dirEdges)

section Alg
variable {K : Type} [Field K]

/-- `l · p`. -/
def smul3 (l : K) (p : P3 K) : P3 K := ⟨l * p.x, l * p.y, l * p.z⟩

/-- The triangle with corner ids `t`. -/
def triOf (c3 : Nat → P3 K) (t : Tri) : T3 K := (c3 t.1, c3 t.2.1, c3 t.2.2)

theorem sumF_congr {β : Type} {f g : β → K} {l : List β} (h : ∀ b ∈ l, f b = g b) : sumF f l = sumF g l := by
  induction l with
  | nil => rfl
  | cons a l ih =>
    rw [sumF_cons, sumF_cons, h a (List.mem_cons_self ..), ih fun b hb => h b (List.mem_cons_of_mem _ hb)]

theorem sumF_mul_right {β : Type} (f : β → K) (k : K) (l : List β) :
    sumF (fun b => f b * k) l = sumF f l * k := by
  induction l with
  | nil => simp [sumF_nil]
  | cons a l ih => simp only [sumF_cons, ih]; ring

theorem sumF_div {β : Type} (f : β → K) (k : K) (l : List β) :
    sumF (fun b => f b / k) l = sumF f l / k := by
  simp only [div_eq_mul_inv]; exact sumF_mul_right f k⁻¹ l

theorem sumF_map {β γ : Type} (f : γ → K) (g : β → γ) (l : List β) :
    sumF f (l.map g) = sumF (fun b => f (g b)) l := by
  induction l with
  | nil => rfl
  | cons a l ih => simp only [List.map_cons, sumF_cons, ih]

/-- The chart's orientation determinant is the matching component of `(b−a)×(c−a)`. -/
theorem comp_normal3 (k : Nat) (c3 : Nat → P3 K) (t : Tri) :
    comp k (normal3 (triOf c3 t)) = triOrient (fun i => chartFn k (c3 i)) t := by
  rcases k with _ | _ | k <;>
    simp only [comp, chartFn, normal3, triOf, cross3, sub3, triOrient, orient, chartXY, chartYZ, chartZX]

/-- The chart's shoelace sum of the boundary is the matching component of the face's vector area. -/
theorem comp_faceNormal (k : Nat) (c3 : Nat → P3 K) (n : Nat) :
    comp k (faceNormal c3 n) = sumF (crossE (fun i => chartFn k (c3 i))) (loopEdges [n]) := by
  rcases k with _ | _ | k <;> rfl

theorem chartOf_ne {N : P3 K} [DecidableEq K] {k : Nat} (h : chartOf N = some k) : comp k N ≠ 0 ∧ k < 3 := by
  unfold chartOf at h
  split_ifs at h with h0 h1 h2
  · cases h; exact ⟨h0, by decide⟩
  · cases h; exact ⟨h1, by decide⟩
  · cases h; exact ⟨h2, by decide⟩

/-- **Vectors of a plane have a cross product along the plane's normal**: if `N·u = 0 = N·v` and
`N_k ≠ 0` then `u × v = ((u×v)_k / N_k) · N` (from `(u×v)×N = v (u·N) − u (v·N)`). -/
theorem cross3_parallel (k : Nat) (u v N : P3 K) (hu : dot3 N u = 0) (hv : dot3 N v = 0)
    (hk : comp k N ≠ 0) : cross3 u v = smul3 (comp k (cross3 u v) / comp k N) N := by
  simp only [dot3] at hu hv
  have e1 : (cross3 u v).y * N.z - (cross3 u v).z * N.y = 0 := by
    simp only [cross3]; linear_combination v.x * hu - u.x * hv
  have e2 : (cross3 u v).z * N.x - (cross3 u v).x * N.z = 0 := by
    simp only [cross3]; linear_combination v.y * hu - u.y * hv
  have e3 : (cross3 u v).x * N.y - (cross3 u v).y * N.x = 0 := by
    simp only [cross3]; linear_combination v.z * hu - u.z * hv
  generalize cross3 u v = T at *
  obtain ⟨Tx, Ty, Tz⟩ := T
  obtain ⟨Nx, Ny, Nz⟩ := N
  simp only at e1 e2 e3
  rcases k with _ | _ | k <;> simp only [comp] at hk ⊢ <;> simp only [smul3, P3.mk.injEq] <;>
    refine ⟨?_, ?_, ?_⟩ <;> field_simp <;>
    first
      | linear_combination e1 | linear_combination -e1 | linear_combination e2
      | linear_combination -e2 | linear_combination e3 | linear_combination -e3

end Alg

section Ord
variable {K : Type} [Field K] [LinearOrder K] [IsStrictOrderedRing K]

theorem planar_spec {c3 : Nat → P3 K} {n : Nat} {N : P3 K} (h : planar c3 n N = true) :
    ∀ i < n, dot3 N (sub3 (c3 i) (c3 0)) = 0 := by
  intro i hi
  simp only [planar, List.all_eq_true, List.mem_range, decide_eq_true_eq] at h
  exact h i hi

theorem dot3_sub3 (N a b o : P3 K) (ha : dot3 N (sub3 a o) = 0) (hb : dot3 N (sub3 b o) = 0) :
    dot3 N (sub3 b a) = 0 := by
  simp only [dot3, sub3] at *
  linear_combination hb - ha

/-- What the face certificate establishes (corner ids). -/
theorem faceCertOk_sound (c3 : Nat → P3 K) (n : Nat) (tris : List Tri)
    (h : faceCertOk c3 n tris = true) :
    ∃ k, chartOf (faceNormal c3 n) = some k ∧ comp k (faceNormal c3 n) ≠ 0 ∧
    (∀ i < n, dot3 (faceNormal c3 n) (sub3 (c3 i) (c3 0)) = 0) ∧
    (∀ t ∈ tris, t.1 < n ∧ t.2.1 < n ∧ t.2.2 < n) ∧
    (∀ t ∈ tris, 0 < comp k (normal3 (triOf c3 t)) / comp k (faceNormal c3 n) ∧
      normal3 (triOf c3 t) =
        smul3 (comp k (normal3 (triOf c3 t)) / comp k (faceNormal c3 n)) (faceNormal c3 n)) ∧
    sumF (fun t => comp k (normal3 (triOf c3 t))) tris = comp k (faceNormal c3 n) ∧
    (∃ B E, refineAll (fun i => chartFn k (c3 i)) n (loopEdges [n]) = some B ∧
      refineAll (fun i => chartFn k (c3 i)) n (dirEdges tris) = some E ∧ Glued B E) := by
  unfold faceCertOk at h
  simp only [Bool.and_eq_true] at h
  obtain ⟨hp, hc⟩ := h
  cases hk : chartOf (faceNormal c3 n) with
  | none => rw [hk] at hc; cases hc
  | some k =>
    rw [hk] at hc
    simp only at hc
    have hN := (chartOf_ne hk).1
    have hpl := planar_spec hp
    have he := (certOk_iff_edgesOk _ _ _ _ _).1 hc
    obtain ⟨h1, h2, h3⟩ := edgesOk_spec he
    have ha := edgesOk_area he
    refine ⟨k, rfl, hN, hpl, h1, ?_, ?_, h3⟩
    · intro t ht
      obtain ⟨i1, i2, i3⟩ := h1 t ht
      have hpos : 0 < comp k (normal3 (triOf c3 t)) / comp k (faceNormal c3 n) := by
        rw [comp_normal3]
        have := h2 t ht
        by_cases hlt : comp k (faceNormal c3 n) < 0
        · simp only [hlt, decide_true, if_true] at this
          exact div_pos_of_neg_of_neg this hlt
        · simp only [hlt, decide_false, Bool.false_eq_true, if_false] at this
          have : 0 < comp k (faceNormal c3 n) := lt_of_le_of_ne (not_lt.mp hlt) (Ne.symm hN)
          exact div_pos ‹_› this
      refine ⟨hpos, ?_⟩
      have hu := dot3_sub3 _ _ _ _ (hpl _ i1) (hpl _ i2)
      have hv := dot3_sub3 _ _ _ _ (hpl _ i1) (hpl _ i3)
      exact cross3_parallel k _ _ _ hu hv hN
    · rw [comp_faceNormal, ← ha]
      exact sumF_congr fun t _ => comp_normal3 k c3 t

/-- **No overlap, nothing outside, everything covered — pointwise, in the face's chart.**  If the
face certificate holds then for every point `p` of the chart plane that is strictly inside or
strictly outside each triangle (all points but those on triangle edges), the number of triangles
containing `p` is the winding number of the FACE's boundary around `p` (times the orientation sign):
exactly one triangle where the face's boundary winds once in its own direction, none where it does
not wind.  (The chart is an affine bijection of the face's plane, so this is a statement about the
face itself; relative to the winding number because the polygonal Jordan curve theorem — a simple
boundary winds `±1` inside, `0` outside — is a fact about the input that is not mechanised.) -/
theorem faceCertOk_cover (c3 : Nat → P3 K) (n : Nat) (tris : List Tri)
    (h : faceCertOk c3 n tris = true) :
    ∃ k, chartOf (faceNormal c3 n) = some k ∧
      ∀ p : P2 K,
        let c := fun i => chartFn k (c3 i)
        let cw := decide (comp k (faceNormal c3 n) < 0)
        (∀ t ∈ tris, insideTri c cw t p = true ∨ outsideTri c cw t p = true) →
        ((tris.filter fun t => insideTri c cw t p).length : K) = cwSign cw * winding c p (loopEdges [n]) := by
  unfold faceCertOk at h
  simp only [Bool.and_eq_true] at h
  obtain ⟨_, hc⟩ := h
  cases hk : chartOf (faceNormal c3 n) with
  | none => rw [hk] at hc; cases hc
  | some k =>
    rw [hk] at hc
    simp only at hc
    refine ⟨k, rfl, ?_⟩
    intro p c cw hgen
    have he := (certOk_iff_edgesOk _ _ _ _ _).1 hc
    obtain ⟨_, h2, _⟩ := edgesOk_spec he
    have hs : sumF (fun t => winding c p (triEdges t)) tris = winding c p (loopEdges [n]) := by
      have h1 : sumF (fun t => winding c p (triEdges t)) tris = sumF (crossing c p) (dirEdges tris) := by
        unfold dirEdges; rw [sumF_flatMap]; rfl
      rw [h1]
      exact edgesOk_chain he (crossing c p) (crossing_antisymm c p) (crossing_segAdditive c p)
    have hcount := sum_winding_count c cw p tris h2 hgen
    have hsq : cwSign cw * cwSign cw = (1 : K) := by cases cw <;> simp [cwSign]
    rw [← hs, hcount, ← mul_assoc, hsq, one_mul]

/-! ### triangles given by coordinates -/

theorem getD_lt (f : List (P3 K)) (d : P3 K) (i : Nat) (h : i < f.length) : f.getD i d = f[i] := by
  simp [List.getD_eq_getElem?_getD, h]

theorem cornerFn_cornerId (f : List (P3 K)) (p : P3 K) (h : cornerId f p < f.length) :
    cornerFn f (cornerId f p) = p := by
  unfold cornerId at h
  have := List.findIdx_getElem (w := h)
  simp only [beq_iff_eq] at this
  unfold cornerFn cornerId
  rw [getD_lt _ _ _ h]
  exact this

theorem cornerFn_mem (f : List (P3 K)) (i : Nat) (h : i < f.length) : cornerFn f i ∈ f := by
  unfold cornerFn
  rw [getD_lt _ _ _ h]
  exact List.getElem_mem h

theorem triOf_idTri (f : List (P3 K)) (t : T3 K)
    (h : (idTri f t).1 < f.length ∧ (idTri f t).2.1 < f.length ∧ (idTri f t).2.2 < f.length) :
    triOf (cornerFn f) (idTri f t) = t := by
  obtain ⟨a, b, c⟩ := t
  simp only [idTri] at h
  simp only [triOf, idTri, cornerFn_cornerId _ _ h.1, cornerFn_cornerId _ _ h.2.1, cornerFn_cornerId _ _ h.2.2]

/-- Twice the vector area of the face given by its corner list. -/
abbrev faceN (f : List (P3 K)) : P3 K := faceNormal (cornerFn f) f.length

/-- **The triangles `g` (given by their corner coordinates) tile the face `f`** (corner list, in
the order of the file), with the face's orientation:

* `normal_ne`, `planar` – the face has a non-zero vector area `N = Σ pᵢ × pᵢ₊₁` (its plane's normal,
  on the side from which the corners run counter-clockwise) and all corners lie exactly in the plane;
* `corners`  – every triangle corner is a corner of the face;
* `oriented` – every triangle's `(b−a)×(c−a)` is a POSITIVE multiple `λ_t · N` of the face's vector
  area: no triangle is degenerate or turned over, and `Σ λ_t = 1` — since areas are `|λ_t|·|N|/2`
  the triangle areas add up to exactly the face's area;
* `area`     – the vector areas add up: `Σ (b−a)×(c−a) = N`;
* `glued`    – in a coordinate chart in which the face does not degenerate, after splitting edges at
  face corners that lie on them, no directed edge is used twice, every boundary edge of the face is
  used once in the face's direction and never backwards, and every other edge is matched by its
  reverse (`M3d.Tri.Glued`): the triangles are glued along diagonals into a region whose boundary is
  the face's boundary. -/
structure TilesFace (f : List (P3 K)) (g : List (T3 K)) : Prop where
  normal_ne : (faceN f).x ≠ 0 ∨ (faceN f).y ≠ 0 ∨ (faceN f).z ≠ 0
  planar : ∀ p ∈ f, dot3 (faceN f) (sub3 p (cornerFn f 0)) = 0
  corners : ∀ t ∈ g, t.1 ∈ f ∧ t.2.1 ∈ f ∧ t.2.2 ∈ f
  oriented : ∃ lam : T3 K → K, (∀ t ∈ g, 0 < lam t ∧ normal3 t = smul3 (lam t) (faceN f)) ∧ sumF lam g = 1
  area : sumNormal g = faceN f
  glued : ∃ k B E, chartOf (faceN f) = some k ∧
    refineAll (fun i => chartFn k (cornerFn f i)) f.length (loopEdges [f.length]) = some B ∧
    refineAll (fun i => chartFn k (cornerFn f i)) f.length (dirEdges (g.map (idTri f))) = some E ∧ Glued B E

theorem faceCert_tiles (f : List (P3 K)) (g : List (T3 K))
    (h : faceCertOk (cornerFn f) f.length (g.map (idTri f)) = true) : TilesFace f g := by
  obtain ⟨k, hk, hN, hpl, hid, hor, hsum, hgl⟩ := faceCertOk_sound _ _ _ h
  have hback : ∀ t ∈ g, triOf (cornerFn f) (idTri f t) = t := fun t ht =>
    triOf_idTri f t (hid _ (List.mem_map_of_mem ht))
  have hsum' : sumF (fun t => comp k (normal3 t)) g = comp k (faceN f) := by
    rw [sumF_map] at hsum
    rw [← hsum]
    exact sumF_congr fun t ht => by rw [hback t ht]
  have hlam : sumF (fun t => comp k (normal3 t) / comp k (faceN f)) g = 1 := by
    rw [sumF_div, hsum', div_self hN]
  have hor' : ∀ t ∈ g, 0 < comp k (normal3 t) / comp k (faceN f) ∧
      normal3 t = smul3 (comp k (normal3 t) / comp k (faceN f)) (faceN f) := by
    intro t ht
    have := hor _ (List.mem_map_of_mem ht)
    rwa [hback t ht] at this
  refine ⟨?_, ?_, ?_, ⟨_, hor', hlam⟩, ?_, ⟨k, hgl.choose, hgl.choose_spec.choose, hk, hgl.choose_spec.choose_spec⟩⟩
  · rcases k with _ | _ | k <;> simp only [comp] at hN <;> simp [faceN, hN]
  · intro p hp
    obtain ⟨i, hi, rfl⟩ := List.getElem_of_mem hp
    have := hpl i hi
    unfold cornerFn at this ⊢
    rwa [getD_lt _ _ _ hi] at this
  · intro t ht
    obtain ⟨i1, i2, i3⟩ := hid _ (List.mem_map_of_mem ht)
    have hb := hback t ht
    obtain ⟨a, b, c⟩ := t
    simp only [triOf, idTri, Prod.mk.injEq] at hb
    refine ⟨?_, ?_, ?_⟩
    · rw [← hb.1]; exact cornerFn_mem f _ i1
    · rw [← hb.2.1]; exact cornerFn_mem f _ i2
    · rw [← hb.2.2]; exact cornerFn_mem f _ i3
  · have e : ∀ (cp : P3 K → K) (hc : ∀ l p, cp (smul3 l p) = l * cp p),
        sumF (fun t => cp (normal3 t)) g = cp (faceN f) := by
      intro cp hc
      have : sumF (fun t => cp (normal3 t)) g =
          sumF (fun t => comp k (normal3 t) / comp k (faceN f) * cp (faceN f)) g :=
        sumF_congr fun t ht => by
          have := (hor' t ht).2
          conv_lhs => rw [this]
          exact hc _ _
      rw [this, sumF_mul_right, hlam, one_mul]
    unfold sumNormal
    rw [e (fun p => p.x) (fun _ _ => rfl), e (fun p => p.y) (fun _ _ => rfl), e (fun p => p.z) (fun _ _ => rfl)]

/-! ### grouping the flat triangle list -/

theorem takeGroup_sound {T : Type} (w : T → K) (target : K) :
    ∀ (ts : List T) (acc : K) (g r : List T), takeGroup w target acc ts = some (g, r) →
      ts = g ++ r ∧ acc + sumF w g = target := by
  intro ts
  induction ts with
  | nil =>
    intro acc g r h
    unfold takeGroup at h
    split_ifs at h with e
    cases h
    exact ⟨rfl, by simp [sumF_nil, e]⟩
  | cons t ts ih =>
    intro acc g r h
    unfold takeGroup at h
    split_ifs at h with e
    · cases h; exact ⟨rfl, by simp [sumF_nil, e]⟩
    · cases hr : takeGroup w target (acc + w t) ts with
      | none => rw [hr] at h; cases h
      | some gr =>
        obtain ⟨g', r'⟩ := gr
        rw [hr] at h
        cases h
        obtain ⟨h1, h2⟩ := ih _ _ _ hr
        refine ⟨by rw [h1]; rfl, ?_⟩
        rw [sumF_cons, ← h2]; ring

theorem sumF_pos {T : Type} (w : T → K) : ∀ (l : List T), l ≠ [] → (∀ t ∈ l, 0 < w t) → 0 < sumF w l := by
  intro l
  induction l with
  | nil => intro h; exact absurd rfl h
  | cons a l ih =>
    intro _ hp
    rw [sumF_cons]
    have ha := hp a (List.mem_cons_self ..)
    cases l with
    | nil => simpa [sumF_nil] using ha
    | cons b l =>
      have := ih (by simp) fun t ht => hp t (List.mem_cons_of_mem _ ht)
      linarith

/-- **The grouping is forced**: if the list starts with a group `g` whose weights all have the sign
of `target` (`0 < w t / target`) and add up to it, `takeGroup` returns exactly `g` and the rest —
no shorter prefix reaches the target (the partial sums are strictly monotone). -/
theorem takeGroup_complete {T : Type} (w : T → K) (target : K) :
    ∀ (g : List T) (acc : K) (r : List T), (∀ t ∈ g, 0 < w t / target) → acc + sumF w g = target →
      takeGroup w target acc (g ++ r) = some (g, r) := by
  intro g
  induction g with
  | nil =>
    intro acc r _ h
    simp only [sumF_nil, add_zero] at h
    cases r <;> simp [takeGroup, h]
  | cons t g ih =>
    intro acc r hp h
    have hs : 0 < sumF w (t :: g) / target := by
      rw [← sumF_div]; exact sumF_pos _ _ (by simp) hp
    have hne : acc ≠ target := by
      intro e
      rw [e] at h
      have : sumF w (t :: g) = 0 := by linarith
      rw [this, zero_div] at hs
      exact lt_irrefl _ hs
    simp only [List.cons_append, takeGroup, if_neg hne]
    rw [ih (acc + w t) r (fun t' ht' => hp t' (List.mem_cons_of_mem _ ht')) (by rw [sumF_cons] at h; linarith)]

theorem faceGroup_sound (f : List (P3 K)) (ts g r : List (T3 K)) (h : faceGroup f ts = some (g, r)) :
    ts = g ++ r := by
  unfold faceGroup at h
  dsimp only at h
  cases hk : chartOf (faceNormal (cornerFn f) f.length) with
  | none => rw [hk] at h; cases h
  | some k => rw [hk] at h; exact (takeGroup_sound _ _ _ _ _ _ h).1

theorem faceGroup_complete (f : List (P3 K)) (g r : List (T3 K))
    (h : faceCertOk (cornerFn f) f.length (g.map (idTri f)) = true) : faceGroup f (g ++ r) = some (g, r) := by
  obtain ⟨k, hk, hN, _, hid, hor, hsum, _⟩ := faceCertOk_sound _ _ _ h
  have hback : ∀ t ∈ g, triOf (cornerFn f) (idTri f t) = t := fun t ht =>
    triOf_idTri f t (hid _ (List.mem_map_of_mem ht))
  unfold faceGroup
  dsimp only
  rw [hk]
  apply takeGroup_complete
  · intro t ht
    have := (hor _ (List.mem_map_of_mem ht)).1
    rwa [hback t ht] at this
  · rw [sumF_map] at hsum
    rw [zero_add, ← hsum]
    exact sumF_congr fun t ht => by rw [hback t ht]

/-- `checkFaces` accepts only lists that are, face by face in the order of the file, groups that
pass the face certificate. -/
theorem checkFaces_sound : ∀ (faces : List (List (P3 K))) (tris : List (T3 K)),
    checkFaces faces tris = true →
    ∃ groups : List (List (T3 K)), tris = groups.flatten ∧
      List.Forall₂ (fun f g => faceCertOk (cornerFn f) f.length (g.map (idTri f)) = true) faces groups := by
  intro faces
  induction faces with
  | nil =>
    intro tris h
    simp only [checkFaces, List.isEmpty_iff] at h
    exact ⟨[], by simp [h], List.Forall₂.nil⟩
  | cons f fs ih =>
    intro tris h
    unfold checkFaces at h
    cases hg : faceGroup f tris with
    | none => rw [hg] at h; cases h
    | some gr =>
      obtain ⟨g, rest⟩ := gr
      rw [hg] at h
      simp only [Bool.and_eq_true] at h
      obtain ⟨groups, e, hall⟩ := ih rest h.2
      refine ⟨g :: groups, ?_, List.Forall₂.cons h.1 hall⟩
      rw [List.flatten_cons, ← e]
      exact faceGroup_sound f tris g rest hg

/-- … and accepts every such list: the grouping never has to be guessed. -/
theorem checkFaces_complete (faces : List (List (P3 K))) (groups : List (List (T3 K)))
    (h : List.Forall₂ (fun f g => faceCertOk (cornerFn f) f.length (g.map (idTri f)) = true) faces groups) :
    checkFaces faces groups.flatten = true := by
  induction h with
  | nil => rfl
  | @cons f g fs gs hfg _ ih =>
    rw [List.flatten_cons]
    unfold checkFaces
    rw [faceGroup_complete f g _ hfg]
    simp only [Bool.and_eq_true]
    exact ⟨hfg, ih⟩

end Ord

end M3d.Codec.Face
