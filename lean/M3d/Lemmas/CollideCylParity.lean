import M3d.Lemmas.CollideCylAxis
/-!
# C07 — `Cylinder.RayCollisions`: the count is odd exactly when the origin is inside (rays in general position)

The closed cylinder is convex: along a ray the parameters with the point inside form an interval, the intersection of
the interval `(s1, s2)` between the roots of the lateral quadratic and the interval `(c_lo, c_hi)` between the two cap
planes.  `Cylinder.RayCollisions` reports a root iff it lies between the cap planes and a cap crossing iff it lies
between the roots (each only when `≥ 0`): these are the end points of the intersection (`interval_parity`), so the number
reported is odd iff `0` is inside the intersection, i.e. iff the origin is inside the cylinder.
-/
set_option linter.unusedSectionVars false
set_option linter.unusedVariables false
set_option linter.unusedSimpArgs false
namespace M3d.Col

variable {K : Type} [Field K] [LinearOrder K] [IsStrictOrderedRing K]

/-- `1` if `P` else `0` -/
def cnt (P : Prop) [Decidable P] : Nat := if P then 1 else 0

theorem cnt_pos {P : Prop} [Decidable P] (h : P) : cnt P = 1 := if_pos h
theorem cnt_neg {P : Prop} [Decidable P] (h : ¬ P) : cnt P = 0 := if_neg h
theorem cnt_congr {P Q : Prop} [Decidable P] [Decidable Q] (h : P ↔ Q) : cnt P = cnt Q := by
  unfold cnt; by_cases hp : P
  · rw [if_pos hp, if_pos (h.1 hp)]
  · rw [if_neg hp, if_neg (fun hq => hp (h.2 hq))]

/-- two sign tests on `a < b`, neither of them `0`: exactly one of `0 ≤ a`, `0 ≤ b` holds iff `a < 0 < b` -/
theorem cnt_pair (a b : K) (hab : a < b) (hb : b ≠ 0) :
    (cnt (0 ≤ a) + cnt (0 ≤ b)) % 2 = 1 ↔ a < 0 ∧ 0 < b := by
  by_cases ha : 0 ≤ a
  · have hb' : 0 ≤ b := le_trans ha hab.le
    rw [cnt_pos ha, cnt_pos hb']
    constructor
    · intro h; omega
    · rintro ⟨h, _⟩; exact absurd ha (not_le.2 h)
  · rw [cnt_neg ha]
    by_cases hb' : 0 ≤ b
    · rw [cnt_pos hb']
      constructor
      · intro _; exact ⟨not_le.1 ha, lt_of_le_of_ne hb' (Ne.symm hb)⟩
      · intro _; rfl
    · rw [cnt_neg hb']
      constructor
      · intro h; omega
      · rintro ⟨_, h⟩; exact absurd h.le hb'

/-- **End points of the intersection of two open intervals.**  `(s1, s2)` and `(c1, c2)` with four distinct end points;
an end point of one interval is *eligible* iff it lies inside the other interval and is `≥ 0`.  If `0` is not an eligible
end point's value (the origin is not on the boundary of the intersection), the number of eligible end points is odd iff
`0` lies in both intervals. -/
theorem interval_parity (s1 s2 c1 c2 : K) (hs : s1 < s2) (hc : c1 < c2)
    (h11 : s1 ≠ c1) (h12 : s1 ≠ c2) (h21 : s2 ≠ c1) (h22 : s2 ≠ c2)
    (hsurf1 : ¬ ((s1 = 0 ∨ s2 = 0) ∧ c1 ≤ 0 ∧ 0 ≤ c2))
    (hsurf2 : ¬ ((c1 = 0 ∨ c2 = 0) ∧ s1 ≤ 0 ∧ 0 ≤ s2)) :
    (cnt (0 ≤ s1 ∧ c1 < s1 ∧ s1 < c2) + cnt (0 ≤ s2 ∧ c1 < s2 ∧ s2 < c2) +
      cnt (0 ≤ c1 ∧ s1 < c1 ∧ c1 < s2) + cnt (0 ≤ c2 ∧ s1 < c2 ∧ c2 < s2)) % 2 = 1 ↔
    (s1 < 0 ∧ 0 < s2 ∧ c1 < 0 ∧ 0 < c2) := by
  -- disjoint intervals
  by_cases hd1 : s2 < c1
  · rw [cnt_neg (fun h => by linarith [h.2.1]), cnt_neg (fun h => by linarith [h.2.1]),
      cnt_neg (fun h => by linarith [h.2.2]), cnt_neg (fun h => by linarith [h.2.2])]
    constructor
    · intro h; omega
    · rintro ⟨_, a, b, _⟩; linarith
  by_cases hd2 : c2 < s1
  · rw [cnt_neg (fun h => by linarith [h.2.2]), cnt_neg (fun h => by linarith [h.2.2]),
      cnt_neg (fun h => by linarith [h.2.1]), cnt_neg (fun h => by linarith [h.2.1])]
    constructor
    · intro h; omega
    · rintro ⟨a, _, _, b⟩; linarith
  have ho1 : c1 < s2 := lt_of_le_of_ne (not_lt.1 hd1) (Ne.symm h21)
  have ho2 : s1 < c2 := lt_of_le_of_ne (not_lt.1 hd2) h12
  -- the lower end of the intersection
  rcases lt_or_gt_of_ne h11 with hlo | hlo
  · -- s1 < c1: the lower end is c1
    have e1 : cnt (0 ≤ s1 ∧ c1 < s1 ∧ s1 < c2) = 0 := cnt_neg (fun h => by linarith [h.2.1])
    have e3 : cnt (0 ≤ c1 ∧ s1 < c1 ∧ c1 < s2) = cnt (0 ≤ c1) := cnt_congr ⟨fun h => h.1, fun h => ⟨h, hlo, ho1⟩⟩
    rcases lt_or_gt_of_ne h22 with hhi | hhi
    · -- s2 < c2: the upper end is s2
      have e2 : cnt (0 ≤ s2 ∧ c1 < s2 ∧ s2 < c2) = cnt (0 ≤ s2) := cnt_congr ⟨fun h => h.1, fun h => ⟨h, ho1, hhi⟩⟩
      have e4 : cnt (0 ≤ c2 ∧ s1 < c2 ∧ c2 < s2) = 0 := cnt_neg (fun h => by linarith [h.2.2])
      rw [e1, e2, e3, e4]
      have hne : s2 ≠ 0 := fun h0 => hsurf1 ⟨Or.inr h0, by linarith, by linarith⟩
      have := cnt_pair c1 s2 ho1 hne
      rw [show 0 + cnt (0 ≤ s2) + cnt (0 ≤ c1) + 0 = cnt (0 ≤ c1) + cnt (0 ≤ s2) by omega, this]
      constructor
      · rintro ⟨a, b⟩; exact ⟨by linarith, b, a, by linarith⟩
      · rintro ⟨_, b, c, _⟩; exact ⟨c, b⟩
    · -- c2 < s2: the upper end is c2
      have e2 : cnt (0 ≤ s2 ∧ c1 < s2 ∧ s2 < c2) = 0 := cnt_neg (fun h => by linarith [h.2.2])
      have e4 : cnt (0 ≤ c2 ∧ s1 < c2 ∧ c2 < s2) = cnt (0 ≤ c2) := cnt_congr ⟨fun h => h.1, fun h => ⟨h, ho2, hhi⟩⟩
      rw [e1, e2, e3, e4]
      have hne : c2 ≠ 0 := fun h0 => hsurf2 ⟨Or.inr h0, by linarith, by linarith⟩
      have := cnt_pair c1 c2 hc hne
      rw [show 0 + 0 + cnt (0 ≤ c1) + cnt (0 ≤ c2) = cnt (0 ≤ c1) + cnt (0 ≤ c2) by omega, this]
      constructor
      · rintro ⟨a, b⟩; exact ⟨by linarith, by linarith, a, b⟩
      · rintro ⟨_, _, c, d⟩; exact ⟨c, d⟩
  · -- c1 < s1: the lower end is s1
    have e1 : cnt (0 ≤ s1 ∧ c1 < s1 ∧ s1 < c2) = cnt (0 ≤ s1) := cnt_congr ⟨fun h => h.1, fun h => ⟨h, hlo, ho2⟩⟩
    have e3 : cnt (0 ≤ c1 ∧ s1 < c1 ∧ c1 < s2) = 0 := cnt_neg (fun h => by linarith [h.2.1])
    rcases lt_or_gt_of_ne h22 with hhi | hhi
    · have e2 : cnt (0 ≤ s2 ∧ c1 < s2 ∧ s2 < c2) = cnt (0 ≤ s2) := cnt_congr ⟨fun h => h.1, fun h => ⟨h, ho1, hhi⟩⟩
      have e4 : cnt (0 ≤ c2 ∧ s1 < c2 ∧ c2 < s2) = 0 := cnt_neg (fun h => by linarith [h.2.2])
      rw [e1, e2, e3, e4]
      have hne : s2 ≠ 0 := fun h0 => hsurf1 ⟨Or.inr h0, by linarith, by linarith⟩
      have := cnt_pair s1 s2 hs hne
      rw [show cnt (0 ≤ s1) + cnt (0 ≤ s2) + 0 + 0 = cnt (0 ≤ s1) + cnt (0 ≤ s2) by omega, this]
      constructor
      · rintro ⟨a, b⟩; exact ⟨a, b, by linarith, by linarith⟩
      · rintro ⟨a, b, _, _⟩; exact ⟨a, b⟩
    · have e2 : cnt (0 ≤ s2 ∧ c1 < s2 ∧ s2 < c2) = 0 := cnt_neg (fun h => by linarith [h.2.2])
      have e4 : cnt (0 ≤ c2 ∧ s1 < c2 ∧ c2 < s2) = cnt (0 ≤ c2) := cnt_congr ⟨fun h => h.1, fun h => ⟨h, ho2, hhi⟩⟩
      rw [e1, e2, e3, e4]
      have hne : c2 ≠ 0 := fun h0 => hsurf2 ⟨Or.inr h0, by linarith, by linarith⟩
      have := cnt_pair s1 c2 ho2 hne
      rw [show cnt (0 ≤ s1) + 0 + 0 + cnt (0 ≤ c2) = cnt (0 ≤ s1) + cnt (0 ≤ c2) by omega, this]
      constructor
      · rintro ⟨a, b⟩; exact ⟨a, by linarith, by linarith, b⟩
      · rintro ⟨a, _, _, d⟩; exact ⟨a, d⟩

/-! ## the count of `Cylinder.RayCollisions` as four sign tests -/

theorem length_filterMap_pair {α β : Type} (f : α → Option β) (a b : α) :
    ([a, b].filterMap f).length = cnt ((f a).isSome = true) + cnt ((f b).isSome = true) := by
  cases ha : f a <;> cases hb : f b <;> simp [List.filterMap_cons, ha, hb, cnt]

theorem toList_length_cnt {β : Type} (x : Option β) : x.toList.length = cnt (x.isSome = true) := by
  cases x <;> simp [cnt]

theorem axialZ_along (p1 v o d : V3 K) (t : K) :
    axialZ p1 v (o.along d t) = axialZ p1 v o + d.dot v * t := by
  simp only [axialZ, V3.along, V3.add, V3.sub, V3.scale, V3.dot]; ring

/-- for a unit axis: squared distance from the base point = squared distance from the axis + squared axial coordinate -/
theorem distSq_base (p1 v P : V3 K) (hv : v.dot v = 1) :
    P.distSq p1 = radialSq p1 v P + axialZ p1 v P * axialZ p1 v P := by
  simp only [radialSq, radialVec, axialZ, V3.distSq, V3.sub, V3.scale, V3.dot] at hv ⊢
  linear_combination
    (-(((P.x - p1.x) * v.x + (P.y - p1.y) * v.y + (P.z - p1.z) * v.z) ^ 2)) * hv

theorem distSq_top (p1 v P : V3 K) (L : K) (hv : v.dot v = 1) :
    P.distSq (p1.add (v.scale L)) = radialSq p1 v P + (axialZ p1 v P - L) * (axialZ p1 v P - L) := by
  simp only [radialSq, radialVec, axialZ, V3.distSq, V3.sub, V3.add, V3.scale, V3.dot] at hv ⊢
  linear_combination
    (L * L - (((P.x - p1.x) * v.x + (P.y - p1.y) * v.y + (P.z - p1.z) * v.z) ^ 2)) * hv

/-- one side candidate is reported iff its parameter is `≥ 0` and its point is between the cap planes -/
theorem cylCand_isSome (sqrtF : K → K) (p1 p2 : V3 K) (r : K) (o0 d : V3 K) (sign : K) :
    (cylCand sqrtF p1 p2 r o0 d sign).isSome = true ↔
      (let t := (-(cylB ((p2.sub p1).normalize sqrtF) (o0.sub p1) d) +
          sign * sqrtF (cylDisc ((p2.sub p1).normalize sqrtF) (o0.sub p1) d r)) /
          (2 * cylA ((p2.sub p1).normalize sqrtF) d)
       0 ≤ t ∧ 0 ≤ axialZ p1 ((p2.sub p1).normalize sqrtF) (o0.along d t) ∧
        axialZ p1 ((p2.sub p1).normalize sqrtF) (o0.along d t) < (p2.sub p1).norm sqrtF) := by
  unfold cylCand
  simp only []
  set v := (p2.sub p1).normalize sqrtF
  set t := (-(cylB v (o0.sub p1) d) + sign * sqrtF (cylDisc v (o0.sub p1) d r)) / (2 * cylA v d)
  have hz : v.dot ((o0.sub p1).add (d.scale t)) = axialZ p1 v (o0.along d t) := by
    rw [sub_along, dot_comm3]; rfl
  rw [hz]
  by_cases hneg : t < 0
  · simp only [hneg, if_true, Option.isSome_none, Bool.false_eq_true, false_iff, not_and]
    intro h; exact absurd h (not_le.2 hneg)
  · simp only [hneg, if_false]
    by_cases hfrac : 0 ≤ axialZ p1 v (o0.along d t) ∧ axialZ p1 v (o0.along d t) < (p2.sub p1).norm sqrtF
    · simp only [hfrac, and_self, if_true, Option.isSome_some, true_iff]
      exact ⟨not_lt.1 hneg, trivial⟩
    · rw [if_neg hfrac]
      simp only [Option.isSome_none, Bool.false_eq_true, false_iff]
      intro h; exact hfrac h.2

/-- a disc is hit iff the plane parameter is `≥ 0` and the plane point is within the radius (ray accepted by the
near-parallel test) -/
theorem castCircle_length {sqrtF : K → K} (hs : SqrtOK sqrtF) (eps : K) (n center : V3 K) (radius : K)
    (hr : 0 ≤ radius) (o d : V3 K) (hdn : d.dot n ≠ 0)
    (hacc : ¬ (|d.dot n| < eps * d.norm sqrtF * n.norm sqrtF)) :
    (castCircle sqrtF eps n center radius o d).toList.length =
      cnt (0 ≤ (center.sub o).dot n / d.dot n ∧
        (o.along d ((center.sub o).dot n / d.dot n)).distSq center ≤ radius * radius) := by
  set tc := (center.sub o).dot n / d.dot n with htc
  have hplane : ∀ t, ((o.along d t).sub center).dot n = 0 ↔ t = tc := by
    intro t
    rw [htc, eq_div_iff hdn]
    simp only [V3.along, V3.add, V3.sub, V3.scale, V3.dot]
    constructor <;> intro h <;> linear_combination h
  rw [toList_length_cnt]
  apply cnt_congr
  constructor
  · intro h
    obtain ⟨hit, hhit⟩ := Option.isSome_iff_exists.1 h
    obtain ⟨_, ht, hpl, hds, _⟩ := (castCircle_iff hs eps n center radius hr o d hit hdn).1 hhit
    have e := (hplane _).1 hpl
    rw [e] at ht hds
    exact ⟨ht, hds⟩
  · rintro ⟨ht, hds⟩
    have := (castCircle_iff hs eps n center radius hr o d ⟨tc, n⟩ hdn).2
      ⟨hacc, ht, (hplane _).2 rfl, hds, rfl⟩
    rw [this]; rfl

/-- a root of the lateral quadratic as `Cylinder.RayCollisions` computes it -/
def cylRoot (sqrtF : K → K) (v o d : V3 K) (r sign : K) : K :=
  (-(cylB v o d) + sign * sqrtF (cylDisc v o d r)) / (2 * cylA v d)

/-- **the number of collisions `Cylinder.RayCollisions` reports**, as four tests: each root of the lateral quadratic
(when the discriminant is positive) counts iff it is `≥ 0` and its point has axial coordinate in `[0, |P2-P1|)`; each
cap plane crossing counts iff it is `≥ 0` and its point is within the radius of the axis.  For a ray that is not
orthogonal to the axis and is accepted by `castPlane`'s near-parallel test. -/
theorem cylHits_length {sqrtF : K → K} (hs : SqrtOK sqrtF) (eps : K) (p1 p2 : V3 K) (r : K) (o d : V3 K)
    (hax : (p2.sub p1).dot (p2.sub p1) ≠ 0) (hr : 0 < r)
    (hdv : d.dot ((p2.sub p1).normalize sqrtF) ≠ 0)
    (hacc : ¬ (|d.dot ((p2.sub p1).normalize sqrtF)| < eps * d.norm sqrtF)) :
    (cylHits sqrtF eps p1 p2 r o d).length =
      (if 0 < cylDisc ((p2.sub p1).normalize sqrtF) (o.sub p1) d r then
        cnt (0 ≤ cylRoot sqrtF ((p2.sub p1).normalize sqrtF) (o.sub p1) d r (-1) ∧
          0 ≤ axialZ p1 ((p2.sub p1).normalize sqrtF)
            (o.along d (cylRoot sqrtF ((p2.sub p1).normalize sqrtF) (o.sub p1) d r (-1))) ∧
          axialZ p1 ((p2.sub p1).normalize sqrtF)
            (o.along d (cylRoot sqrtF ((p2.sub p1).normalize sqrtF) (o.sub p1) d r (-1))) < (p2.sub p1).norm sqrtF) +
        cnt (0 ≤ cylRoot sqrtF ((p2.sub p1).normalize sqrtF) (o.sub p1) d r 1 ∧
          0 ≤ axialZ p1 ((p2.sub p1).normalize sqrtF)
            (o.along d (cylRoot sqrtF ((p2.sub p1).normalize sqrtF) (o.sub p1) d r 1)) ∧
          axialZ p1 ((p2.sub p1).normalize sqrtF)
            (o.along d (cylRoot sqrtF ((p2.sub p1).normalize sqrtF) (o.sub p1) d r 1)) < (p2.sub p1).norm sqrtF)
       else 0) +
      cnt (0 ≤ (0 - axialZ p1 ((p2.sub p1).normalize sqrtF) o) / d.dot ((p2.sub p1).normalize sqrtF) ∧
        radialSq p1 ((p2.sub p1).normalize sqrtF)
          (o.along d ((0 - axialZ p1 ((p2.sub p1).normalize sqrtF) o) / d.dot ((p2.sub p1).normalize sqrtF))) ≤ r * r) +
      cnt (0 ≤ ((p2.sub p1).norm sqrtF - axialZ p1 ((p2.sub p1).normalize sqrtF) o) /
          d.dot ((p2.sub p1).normalize sqrtF) ∧
        radialSq p1 ((p2.sub p1).normalize sqrtF)
          (o.along d (((p2.sub p1).norm sqrtF - axialZ p1 ((p2.sub p1).normalize sqrtF) o) /
            d.dot ((p2.sub p1).normalize sqrtF))) ≤ r * r) := by
  set v := (p2.sub p1).normalize sqrtF with hvdef
  set L := (p2.sub p1).norm sqrtF with hLdef
  have hvu : v.dot v = 1 := V3.normalize_unit hs _ hax
  obtain ⟨hL, hvL⟩ := normalize_dot_self hs (p2.sub p1) hax
  have hp2 : p2 = p1.add (v.scale L) := by
    rw [hvL]; simp only [V3.add, V3.sub]; cases p2; simp
  have hnu : (v.scale (-1)).dot (v.scale (-1)) = 1 := by
    have : (v.scale (-1)).dot (v.scale (-1)) = v.dot v := by simp only [V3.dot, V3.scale]; ring
    rw [this, hvu]
  have hdneg : d.dot (v.scale (-1)) = -(d.dot v) := by simp only [V3.dot, V3.scale]; ring
  set z0 := axialZ p1 v o with hz0def
  set dv := d.dot v with hdvdef
  have hz : ∀ t, axialZ p1 v (o.along d t) = z0 + dv * t := fun t => axialZ_along p1 v o d t
  -- the base disc
  have c1 := castCircle_length hs eps (v.scale (-1)) p1 r hr.le o d (by rw [hdneg]; exact neg_ne_zero.2 hdv)
    (by rw [hdneg, abs_neg, V3.norm_unit hs _ hnu, mul_one]; exact hacc)
  have ht1 : (p1.sub o).dot (v.scale (-1)) / d.dot (v.scale (-1)) = (0 - z0) / dv := by
    rw [hdneg, div_eq_div_iff (neg_ne_zero.2 hdv) hdv]
    simp only [hz0def, axialZ, V3.dot, V3.sub, V3.scale]; ring
  rw [ht1] at c1
  have hd1 : (o.along d ((0 - z0) / dv)).distSq p1 = radialSq p1 v (o.along d ((0 - z0) / dv)) := by
    rw [distSq_base p1 v _ hvu, hz]
    have : z0 + dv * ((0 - z0) / dv) = 0 := by field_simp; ring
    rw [this]; ring
  rw [hd1] at c1
  -- the top disc
  have c2 := castCircle_length hs eps v p2 r hr.le o d hdv
    (by rw [V3.norm_unit hs _ hvu, mul_one]; exact hacc)
  have ht2 : (p2.sub o).dot v / d.dot v = (L - z0) / dv := by
    congr 1
    have : (p2.sub o).dot v = (p2.sub p1).dot v - (o.sub p1).dot v := by simp only [V3.dot, V3.sub]; ring
    rw [this, hL]; rfl
  rw [ht2] at c2
  have hd2 : (o.along d ((L - z0) / dv)).distSq p2 = radialSq p1 v (o.along d ((L - z0) / dv)) := by
    conv_lhs => rw [hp2]
    rw [distSq_top p1 v _ L hvu, hz]
    have : z0 + dv * ((L - z0) / dv) = L := by field_simp; ring
    rw [this]; ring
  rw [hd2] at c2
  unfold cylHits
  show (cylSideHits sqrtF p1 p2 r o d ++ (castCircle sqrtF eps (v.scale (-1)) p1 r o d).toList ++
      (castCircle sqrtF eps v p2 r o d).toList).length = _
  rw [List.length_append, List.length_append, c1, c2, cylSideHits_eq]
  congr 2
  by_cases hdisc : 0 < cylDisc v (o.sub p1) d r
  · rw [if_pos hdisc, if_pos hdisc, length_filterMap_pair]
    congr 1
    · exact cnt_congr (cylCand_isSome sqrtF p1 p2 r o d (-1))
    · exact cnt_congr (cylCand_isSome sqrtF p1 p2 r o d 1)
  · rw [if_neg hdisc, if_neg hdisc]; rfl

/-! ## the quadratic with positive leading coefficient -/

theorem quad_factor (A B C S s1 s2 t : K) (hA : A ≠ 0) (hS : S * S = B * B - 4 * A * C)
    (h1 : 2 * A * s1 = -B - S) (h2 : 2 * A * s2 = -B + S) :
    A * t * t + B * t + C = A * (t - s1) * (t - s2) := by
  have key : 4 * A * (A * t * t + B * t + C - A * (t - s1) * (t - s2)) = 0 := by
    linear_combination hS + (2 * A * t - 2 * A * s2) * h1 + (2 * A * t - (-B - S)) * h2
  rcases mul_eq_zero.1 key with h | h
  · exact absurd h (mul_ne_zero four_ne_zero hA)
  · linear_combination h

theorem prod_nonpos_iff (A s1 s2 t : K) (hA : 0 < A) (hs : s1 < s2) :
    A * (t - s1) * (t - s2) ≤ 0 ↔ s1 ≤ t ∧ t ≤ s2 := by
  constructor
  · intro h
    constructor
    · by_contra hn
      have h1 : t - s1 < 0 := by linarith [not_le.1 hn]
      have h2 : t - s2 < 0 := by linarith [not_le.1 hn]
      have : 0 < A * (t - s1) * (t - s2) := by
        rw [mul_assoc]; exact mul_pos hA (mul_pos_of_neg_of_neg h1 h2)
      linarith
    · by_contra hn
      have h1 : 0 < t - s1 := by linarith [not_le.1 hn]
      have h2 : 0 < t - s2 := by linarith [not_le.1 hn]
      have : 0 < A * (t - s1) * (t - s2) := mul_pos (mul_pos hA h1) h2
      linarith
  · rintro ⟨h1, h2⟩
    exact mul_nonpos_of_nonneg_of_nonpos (mul_nonneg hA.le (by linarith)) (by linarith)

theorem prod_neg_iff (A s1 s2 t : K) (hA : 0 < A) (hs : s1 < s2) :
    A * (t - s1) * (t - s2) < 0 ↔ s1 < t ∧ t < s2 := by
  constructor
  · intro h
    constructor
    · by_contra hn
      have h1 : t - s1 ≤ 0 := by linarith [not_lt.1 hn]
      have h2 : t - s2 ≤ 0 := by linarith [not_lt.1 hn]
      have : 0 ≤ A * (t - s1) * (t - s2) := by
        rw [mul_assoc]; exact mul_nonneg hA.le (mul_nonneg_of_nonpos_of_nonpos h1 h2)
      linarith
    · by_contra hn
      have h1 : 0 ≤ t - s1 := by linarith [not_lt.1 hn]
      have h2 : 0 ≤ t - s2 := by linarith [not_lt.1 hn]
      have : 0 ≤ A * (t - s1) * (t - s2) := mul_nonneg (mul_nonneg hA.le h1) h2
      linarith
  · rintro ⟨h1, h2⟩
    exact mul_neg_of_pos_of_neg (mul_pos hA (by linarith)) (by linarith)

/-- **`Cylinder.RayCollisions`: odd count ⇔ origin strictly inside**, for a ray in general position: not parallel to
the axis (`a ≠ 0`), not orthogonal to it and accepted by the near-parallel test of `castPlane`, not through a rim of a
cap, origin not on the surface.  (Tangent rays, `disc ≤ 0`, are included: they report nothing.) -/
theorem cylHits_parity {sqrtF : K → K} (hs : SqrtOK sqrtF) (eps : K) (p1 p2 : V3 K) (r : K) (o d : V3 K)
    (hax : (p2.sub p1).dot (p2.sub p1) ≠ 0) (hr : 0 < r)
    (hA : cylA ((p2.sub p1).normalize sqrtF) d ≠ 0)
    (hdv : d.dot ((p2.sub p1).normalize sqrtF) ≠ 0)
    (hacc : ¬ (|d.dot ((p2.sub p1).normalize sqrtF)| < eps * d.norm sqrtF))
    (hrim1 : radialSq p1 ((p2.sub p1).normalize sqrtF)
      (o.along d ((0 - axialZ p1 ((p2.sub p1).normalize sqrtF) o) / d.dot ((p2.sub p1).normalize sqrtF))) ≠ r * r)
    (hrim2 : radialSq p1 ((p2.sub p1).normalize sqrtF)
      (o.along d (((p2.sub p1).norm sqrtF - axialZ p1 ((p2.sub p1).normalize sqrtF) o) /
        d.dot ((p2.sub p1).normalize sqrtF))) ≠ r * r)
    (hsurf : ¬ OnCylSurface p1 ((p2.sub p1).normalize sqrtF) ((p2.sub p1).norm sqrtF) r o) :
    (cylHits sqrtF eps p1 p2 r o d).length % 2 = 1 ↔
      InCylOpen p1 ((p2.sub p1).normalize sqrtF) ((p2.sub p1).norm sqrtF) r o := by
  rw [cylHits_length hs eps p1 p2 r o d hax hr hdv hacc]
  set v := (p2.sub p1).normalize sqrtF with hvdef
  set L := (p2.sub p1).norm sqrtF with hLdef
  have hLpos : 0 < L := by
    obtain ⟨hn0, hn1⟩ := hs ((p2.sub p1).x * (p2.sub p1).x + (p2.sub p1).y * (p2.sub p1).y +
      (p2.sub p1).z * (p2.sub p1).z) (sumsq3_nonneg _ _ _)
    refine lt_of_le_of_ne hn0 (fun h0 => hax ?_)
    have : L * L = (p2.sub p1).dot (p2.sub p1) := hn1
    rw [← this, ← h0]; ring
  set z0 := axialZ p1 v o with hz0def
  set dv := d.dot v with hdvdef
  set A := cylA v d with hAdef
  set B := cylB v (o.sub p1) d with hBdef
  set C := cylC v (o.sub p1) r with hCdef
  have hApos : 0 < A := lt_of_le_of_ne (V3.dot_self_nonneg _) (Ne.symm hA)
  have hz : ∀ t, axialZ p1 v (o.along d t) = z0 + dv * t := fun t => axialZ_along p1 v o d t
  have hrad : ∀ t, radialSq p1 v (o.along d t) = A * t * t + B * t + C + r * r :=
    fun t => radialSq_along p1 v o d r t
  have ho : o.along d 0 = o := by
    simp only [V3.along, V3.add, V3.scale]; cases o; simp
  have hrad0 : radialSq p1 v o = C + r * r := by
    have := hrad 0; rw [ho] at this; rw [this]; ring
  set t1 := (0 - z0) / dv with ht1def
  set t2 := (L - z0) / dv with ht2def
  have hz1 : z0 + dv * t1 = 0 := by rw [ht1def]; field_simp; ring
  have hz2 : z0 + dv * t2 = L := by rw [ht2def]; field_simp; ring
  have hq1 : A * t1 * t1 + B * t1 + C ≠ 0 := fun h => hrim1 (by rw [hrad, h]; ring)
  have hq2 : A * t2 * t2 + B * t2 + C ≠ 0 := fun h => hrim2 (by rw [hrad, h]; ring)
  -- the statement about the origin
  unfold InCylOpen
  rw [hrad0]
  have hsurf' : ¬ ((C = 0 ∧ 0 ≤ z0 ∧ z0 ≤ L) ∨ (C ≤ 0 ∧ (z0 = 0 ∨ z0 = L))) := by
    intro h; apply hsurf; unfold OnCylSurface; rw [hrad0]
    rcases h with ⟨a, b, c⟩ | ⟨a, b⟩
    · exact Or.inl ⟨by rw [a]; ring, b, c⟩
    · exact Or.inr ⟨by linarith, b⟩
  simp only [hrad, hz]
  by_cases hdisc : 0 < cylDisc v (o.sub p1) d r
  · rw [if_pos hdisc]
    obtain ⟨hS0, hS1⟩ := hs _ hdisc.le
    set S := sqrtF (cylDisc v (o.sub p1) d r) with hSdef
    have hSS : S * S = B * B - 4 * A * C := hS1
    have hSpos : 0 < S := by
      refine lt_of_le_of_ne hS0 (fun h0 => ?_)
      rw [← h0] at hS1; simp only [mul_zero] at hS1; rw [← hS1] at hdisc; exact lt_irrefl _ hdisc
    have h2A : 2 * A ≠ 0 := mul_ne_zero two_ne_zero hA
    set s1 := cylRoot sqrtF v (o.sub p1) d r (-1) with hs1def
    set s2 := cylRoot sqrtF v (o.sub p1) d r 1 with hs2def
    have e1 : 2 * A * s1 = -B - S := by
      rw [hs1def]; unfold cylRoot; rw [mul_div_cancel₀ _ h2A]; ring
    have e2 : 2 * A * s2 = -B + S := by
      rw [hs2def]; unfold cylRoot; rw [mul_div_cancel₀ _ h2A]; ring
    have hs12 : s1 < s2 := by
      have : 2 * A * s1 < 2 * A * s2 := by rw [e1, e2]; linarith
      exact lt_of_mul_lt_mul_left this (by linarith)
    have hq : ∀ t, A * t * t + B * t + C = A * (t - s1) * (t - s2) :=
      fun t => quad_factor A B C S s1 s2 t hA hSS e1 e2
    have hle : ∀ t, A * t * t + B * t + C + r * r ≤ r * r ↔ s1 ≤ t ∧ t ≤ s2 := by
      intro t; rw [hq, ← prod_nonpos_iff A s1 s2 t hApos hs12]; constructor <;> intro h <;> linarith
    have hne1 : t1 ≠ s1 ∧ t1 ≠ s2 := by
      constructor <;> intro h <;> apply hq1 <;> rw [hq, h] <;> ring
    have hne2 : t2 ≠ s1 ∧ t2 ≠ s2 := by
      constructor <;> intro h <;> apply hq2 <;> rw [hq, h] <;> ring
    have hC : C = A * (0 - s1) * (0 - s2) := by have := hq 0; rw [← this]; ring
    have hClt : C < 0 ↔ s1 < 0 ∧ 0 < s2 := by rw [hC]; exact prod_neg_iff A s1 s2 0 hApos hs12
    have hCle : C ≤ 0 ↔ s1 ≤ 0 ∧ 0 ≤ s2 := by rw [hC]; exact prod_nonpos_iff A s1 s2 0 hApos hs12
    have hC0 : (s1 = 0 ∨ s2 = 0) → C = 0 := by
      rintro (h | h) <;> rw [hC, h] <;> ring
    simp only [hle]
    rcases lt_or_gt_of_ne hdv with hneg | hpos
    · -- dv < 0: the cap planes are crossed in the order top, base
      have ht21 : t2 < t1 := by
        have h12 : dv * t1 < dv * t2 := by linarith
        by_contra hn
        have := mul_le_mul_of_nonpos_left (not_lt.1 hn) hneg.le
        linarith
      have side : ∀ t, t ≠ t1 → (0 ≤ t ∧ 0 ≤ z0 + dv * t ∧ z0 + dv * t < L ↔ 0 ≤ t ∧ t2 < t ∧ t < t1) := by
        intro t hne
        constructor
        · rintro ⟨a, b, c⟩
          refine ⟨a, ?_, lt_of_le_of_ne ?_ hne⟩
          · by_contra hn
            have : dv * t2 ≤ dv * t := mul_le_mul_of_nonpos_left (not_lt.1 hn) hneg.le
            linarith
          · by_contra hn
            have : dv * t < dv * t1 := mul_lt_mul_of_neg_left (not_le.1 hn) hneg
            linarith
        · rintro ⟨a, b, c⟩
          refine ⟨a, ?_, ?_⟩
          · have : dv * t1 < dv * t := mul_lt_mul_of_neg_left c hneg
            linarith
          · have : dv * t < dv * t2 := mul_lt_mul_of_neg_left b hneg
            linarith
      rw [cnt_congr (side s1 (Ne.symm hne1.1)), cnt_congr (side s2 (Ne.symm hne1.2))]
      have cap1 : (0 ≤ t1 ∧ s1 ≤ t1 ∧ t1 ≤ s2) ↔ (0 ≤ t1 ∧ s1 < t1 ∧ t1 < s2) :=
        ⟨fun ⟨a, b, c⟩ => ⟨a, lt_of_le_of_ne b (Ne.symm hne1.1), lt_of_le_of_ne c hne1.2⟩,
         fun ⟨a, b, c⟩ => ⟨a, b.le, c.le⟩⟩
      have cap2 : (0 ≤ t2 ∧ s1 ≤ t2 ∧ t2 ≤ s2) ↔ (0 ≤ t2 ∧ s1 < t2 ∧ t2 < s2) :=
        ⟨fun ⟨a, b, c⟩ => ⟨a, lt_of_le_of_ne b (Ne.symm hne2.1), lt_of_le_of_ne c hne2.2⟩,
         fun ⟨a, b, c⟩ => ⟨a, b.le, c.le⟩⟩
      rw [cnt_congr cap1, cnt_congr cap2]
      have hz0t1 : z0 = -(dv * t1) := by linarith
      have hLt2 : L - z0 = dv * t2 := by linarith
      have key := interval_parity s1 s2 t2 t1 hs12 ht21 (Ne.symm hne2.1) (Ne.symm hne1.1) (Ne.symm hne2.2)
        (Ne.symm hne1.2)
        (by
          rintro ⟨h0, a, b⟩
          apply hsurf'
          refine Or.inl ⟨hC0 h0, ?_, ?_⟩
          · rw [hz0t1]; have := mul_nonpos_of_nonpos_of_nonneg hneg.le b; linarith
          · have := mul_nonneg_of_nonpos_of_nonpos hneg.le a; linarith)
        (by
          rintro ⟨h0, a, b⟩
          apply hsurf'
          refine Or.inr ⟨hCle.2 ⟨a, b⟩, ?_⟩
          rcases h0 with h | h
          · right; rw [h] at hz2; linarith
          · left; rw [h] at hz1; linarith)
      rw [show cnt (0 ≤ s1 ∧ t2 < s1 ∧ s1 < t1) + cnt (0 ≤ s2 ∧ t2 < s2 ∧ s2 < t1) +
          cnt (0 ≤ t1 ∧ s1 < t1 ∧ t1 < s2) + cnt (0 ≤ t2 ∧ s1 < t2 ∧ t2 < s2) =
          cnt (0 ≤ s1 ∧ t2 < s1 ∧ s1 < t1) + cnt (0 ≤ s2 ∧ t2 < s2 ∧ s2 < t1) +
          cnt (0 ≤ t2 ∧ s1 < t2 ∧ t2 < s2) + cnt (0 ≤ t1 ∧ s1 < t1 ∧ t1 < s2) by omega, key]
      constructor
      · rintro ⟨a, b, c, e⟩
        refine ⟨?_, ?_, by have := hClt.2 ⟨a, b⟩; linarith⟩
        · have := mul_neg_of_neg_of_pos hneg e; show 0 < z0; linarith
        · have := mul_pos_of_neg_of_neg hneg c; show z0 < L; linarith
      · rintro ⟨a, b, c⟩
        have hc' : C < 0 := by linarith
        refine ⟨(hClt.1 hc').1, (hClt.1 hc').2, ?_, ?_⟩
        · by_contra hn
          have := mul_nonpos_of_nonpos_of_nonneg hneg.le (not_lt.1 hn); linarith
        · by_contra hn
          have := mul_nonneg_of_nonpos_of_nonpos hneg.le (not_lt.1 hn); linarith
    · -- dv > 0: base, then top
      have ht12 : t1 < t2 := by
        have : dv * t1 < dv * t2 := by linarith
        exact lt_of_mul_lt_mul_left this hpos.le
      have side : ∀ t, t ≠ t1 → (0 ≤ t ∧ 0 ≤ z0 + dv * t ∧ z0 + dv * t < L ↔ 0 ≤ t ∧ t1 < t ∧ t < t2) := by
        intro t hne
        constructor
        · rintro ⟨a, b, c⟩
          refine ⟨a, lt_of_le_of_ne ?_ (Ne.symm hne), ?_⟩
          · by_contra hn
            have : dv * t < dv * t1 := mul_lt_mul_of_pos_left (not_le.1 hn) hpos
            linarith
          · by_contra hn
            have : dv * t2 ≤ dv * t := mul_le_mul_of_nonneg_left (not_lt.1 hn) hpos.le
            linarith
        · rintro ⟨a, b, c⟩
          refine ⟨a, ?_, ?_⟩
          · have : dv * t1 < dv * t := mul_lt_mul_of_pos_left b hpos
            linarith
          · have : dv * t < dv * t2 := mul_lt_mul_of_pos_left c hpos
            linarith
      rw [cnt_congr (side s1 (Ne.symm hne1.1)), cnt_congr (side s2 (Ne.symm hne1.2))]
      have cap1 : (0 ≤ t1 ∧ s1 ≤ t1 ∧ t1 ≤ s2) ↔ (0 ≤ t1 ∧ s1 < t1 ∧ t1 < s2) :=
        ⟨fun ⟨a, b, c⟩ => ⟨a, lt_of_le_of_ne b (Ne.symm hne1.1), lt_of_le_of_ne c hne1.2⟩,
         fun ⟨a, b, c⟩ => ⟨a, b.le, c.le⟩⟩
      have cap2 : (0 ≤ t2 ∧ s1 ≤ t2 ∧ t2 ≤ s2) ↔ (0 ≤ t2 ∧ s1 < t2 ∧ t2 < s2) :=
        ⟨fun ⟨a, b, c⟩ => ⟨a, lt_of_le_of_ne b (Ne.symm hne2.1), lt_of_le_of_ne c hne2.2⟩,
         fun ⟨a, b, c⟩ => ⟨a, b.le, c.le⟩⟩
      rw [cnt_congr cap1, cnt_congr cap2]
      have hz0t1 : z0 = -(dv * t1) := by linarith
      have hLt2 : L - z0 = dv * t2 := by linarith
      have key := interval_parity s1 s2 t1 t2 hs12 ht12 (Ne.symm hne1.1) (Ne.symm hne2.1) (Ne.symm hne1.2)
        (Ne.symm hne2.2)
        (by
          rintro ⟨h0, a, b⟩
          apply hsurf'
          refine Or.inl ⟨hC0 h0, ?_, ?_⟩
          · rw [hz0t1]; have := mul_nonpos_of_nonneg_of_nonpos hpos.le a; linarith
          · have := mul_nonneg hpos.le b; linarith)
        (by
          rintro ⟨h0, a, b⟩
          apply hsurf'
          refine Or.inr ⟨hCle.2 ⟨a, b⟩, ?_⟩
          rcases h0 with h | h
          · left; rw [h] at hz1; linarith
          · right; rw [h] at hz2; linarith)
      rw [key]
      constructor
      · rintro ⟨a, b, c, e⟩
        refine ⟨?_, ?_, by have := hClt.2 ⟨a, b⟩; linarith⟩
        · have := mul_neg_of_pos_of_neg hpos c; show 0 < z0; linarith
        · have := mul_pos hpos e; show z0 < L; linarith
      · rintro ⟨a, b, c⟩
        have hc' : C < 0 := by linarith
        refine ⟨(hClt.1 hc').1, (hClt.1 hc').2, ?_, ?_⟩
        · by_contra hn
          have := mul_nonneg hpos.le (not_lt.1 hn); linarith
        · by_contra hn
          have := mul_nonpos_of_nonneg_of_nonpos hpos.le (not_lt.1 hn); linarith
  · -- no real crossing of the infinite cylinder: nothing is reported, and the origin is not inside
    rw [if_neg hdisc]
    have hdle : B * B - 4 * A * C ≤ 0 := not_lt.1 hdisc
    have hqnn : ∀ t, 0 ≤ A * t * t + B * t + C := by
      intro t
      have h4 : 0 ≤ 4 * A * (A * t * t + B * t + C) := by
        have : 4 * A * (A * t * t + B * t + C) = (2 * A * t + B) * (2 * A * t + B) - (B * B - 4 * A * C) := by ring
        rw [this]; linarith [mul_self_nonneg (2 * A * t + B)]
      by_contra hn
      have := mul_neg_of_pos_of_neg (by linarith : 0 < 4 * A) (not_le.1 hn)
      linarith
    have n1 : ¬ (0 ≤ t1 ∧ A * t1 * t1 + B * t1 + C + r * r ≤ r * r) := by
      rintro ⟨_, h⟩
      exact hq1 (le_antisymm (by linarith) (hqnn t1))
    have n2 : ¬ (0 ≤ t2 ∧ A * t2 * t2 + B * t2 + C + r * r ≤ r * r) := by
      rintro ⟨_, h⟩
      exact hq2 (le_antisymm (by linarith) (hqnn t2))
    rw [cnt_neg n1, cnt_neg n2]
    constructor
    · intro h; omega
    · rintro ⟨_, _, h⟩
      have := hqnn 0
      linarith

/-- off the surface, "strictly inside" and "in the closed cylinder" coincide -/
theorem inCyl_open_iff_closed (p1 v : V3 K) (L r : K) (P : V3 K) (hsurf : ¬ OnCylSurface p1 v L r P) :
    InCylOpen p1 v L r P ↔ InCylClosed p1 v L r P := by
  unfold InCylOpen InCylClosed
  unfold OnCylSurface at hsurf
  constructor
  · rintro ⟨a, b, c⟩; exact ⟨a.le, b.le, c.le⟩
  · rintro ⟨a, b, c⟩
    refine ⟨lt_of_le_of_ne a (fun h => hsurf (Or.inr ⟨c, Or.inl h.symm⟩)),
      lt_of_le_of_ne b (fun h => hsurf (Or.inr ⟨c, Or.inr h⟩)),
      lt_of_le_of_ne c (fun h => hsurf (Or.inl ⟨h, a, b⟩))⟩

/-! ## rays orthogonal to the axis -/

/-- a ray exactly parallel to the plane of a disc is rejected by `castPlane`'s near-parallel test -/
theorem castCircle_orth {sqrtF : K → K} (hs : SqrtOK sqrtF) (eps : K) (heps : 0 < eps) (n center : V3 K)
    (hn : n.dot n = 1) (radius : K) (o d : V3 K) (hd : d.dot d ≠ 0) (hdn : d.dot n = 0) :
    castCircle sqrtF eps n center radius o d = none := by
  have hnorm : 0 < d.norm sqrtF := by
    obtain ⟨h0, h1⟩ := hs (d.x * d.x + d.y * d.y + d.z * d.z) (sumsq3_nonneg _ _ _)
    refine lt_of_le_of_ne h0 (fun h => hd ?_)
    have : d.norm sqrtF * d.norm sqrtF = d.dot d := h1
    rw [← this, ← h]; ring
  have hrej : absS (d.dot n) < eps * d.norm sqrtF * n.norm sqrtF := by
    rw [hdn, V3.norm_unit hs n hn, mul_one, absS_eq, abs_zero]
    exact mul_pos heps hnorm
  unfold castCircle castPlane
  simp only [hrej, if_true]

/-- **odd count ⇔ origin strictly inside, for a ray exactly orthogonal to the axis** (`d·v = 0`: looking at an upright
cylinder horizontally).  The caps are never hit (the ray is parallel to their planes and rejected by `castPlane`), the
axial coordinate is constant along the ray, and the two roots of the lateral quadratic are reported iff that coordinate
is in `[0, |P2-P1|)`. -/
theorem cylHits_parity_orth {sqrtF : K → K} (hs : SqrtOK sqrtF) (eps : K) (heps : 0 < eps) (p1 p2 : V3 K) (r : K)
    (o d : V3 K) (hax : (p2.sub p1).dot (p2.sub p1) ≠ 0) (hr : 0 < r)
    (hA : cylA ((p2.sub p1).normalize sqrtF) d ≠ 0)
    (hdv : d.dot ((p2.sub p1).normalize sqrtF) = 0)
    (hsurf : ¬ OnCylSurface p1 ((p2.sub p1).normalize sqrtF) ((p2.sub p1).norm sqrtF) r o) :
    (cylHits sqrtF eps p1 p2 r o d).length % 2 = 1 ↔
      InCylOpen p1 ((p2.sub p1).normalize sqrtF) ((p2.sub p1).norm sqrtF) r o := by
  set v := (p2.sub p1).normalize sqrtF with hvdef
  set L := (p2.sub p1).norm sqrtF with hLdef
  have hvu : v.dot v = 1 := V3.normalize_unit hs _ hax
  have hnu : (v.scale (-1)).dot (v.scale (-1)) = 1 := by
    have : (v.scale (-1)).dot (v.scale (-1)) = v.dot v := by simp only [V3.dot, V3.scale]; ring
    rw [this, hvu]
  have hdd : d.dot d ≠ 0 := by
    intro h0
    have hx : d.x = 0 ∧ d.y = 0 ∧ d.z = 0 := by
      simp only [V3.dot] at h0
      have h1 := mul_self_nonneg d.x; have h2 := mul_self_nonneg d.y; have h3 := mul_self_nonneg d.z
      refine ⟨?_, ?_, ?_⟩
      · exact mul_self_eq_zero.1 (by linarith)
      · exact mul_self_eq_zero.1 (by linarith)
      · exact mul_self_eq_zero.1 (by linarith)
    apply hA
    simp only [cylA, cylV2, V3.dot, V3.sub, V3.scale, hx.1, hx.2.1, hx.2.2]; ring
  have hcap1 : castCircle sqrtF eps (v.scale (-1)) p1 r o d = none :=
    castCircle_orth hs eps heps _ p1 hnu r o d hdd (by
      have : d.dot (v.scale (-1)) = -(d.dot v) := by simp only [V3.dot, V3.scale]; ring
      rw [this, hdv, neg_zero])
  have hcap2 : castCircle sqrtF eps v p2 r o d = none := castCircle_orth hs eps heps v p2 hvu r o d hdd hdv
  have hlen : (cylHits sqrtF eps p1 p2 r o d).length = (cylSideHits sqrtF p1 p2 r o d).length := by
    unfold cylHits
    show (cylSideHits sqrtF p1 p2 r o d ++ (castCircle sqrtF eps (v.scale (-1)) p1 r o d).toList ++
      (castCircle sqrtF eps v p2 r o d).toList).length = _
    rw [hcap1, hcap2]; simp
  rw [hlen, cylSideHits_eq]
  set z0 := axialZ p1 v o with hz0def
  set A := cylA v d with hAdef
  set B := cylB v (o.sub p1) d with hBdef
  set C := cylC v (o.sub p1) r with hCdef
  have hApos : 0 < A := lt_of_le_of_ne (V3.dot_self_nonneg _) (Ne.symm hA)
  have hz : ∀ t, axialZ p1 v (o.along d t) = z0 := by
    intro t; rw [axialZ_along, hdv]; ring
  have ho : o.along d 0 = o := by
    simp only [V3.along, V3.add, V3.scale]; cases o; simp
  have hrad0 : radialSq p1 v o = C + r * r := by
    have := radialSq_along p1 v o d r 0; rw [ho] at this; rw [this]; ring
  unfold InCylOpen
  rw [hrad0]
  have hsurf' : ¬ ((C = 0 ∧ 0 ≤ z0 ∧ z0 ≤ L) ∨ (C ≤ 0 ∧ (z0 = 0 ∨ z0 = L))) := by
    intro h; apply hsurf; unfold OnCylSurface; rw [hrad0]
    rcases h with ⟨a, b, c⟩ | ⟨a, b⟩
    · exact Or.inl ⟨by rw [a]; ring, b, c⟩
    · exact Or.inr ⟨by linarith, b⟩
  by_cases hdisc : 0 < cylDisc v (o.sub p1) d r
  · have sideIff : ∀ sign : K, (cylCand sqrtF p1 p2 r o d sign).isSome = true ↔
        (0 ≤ cylRoot sqrtF v (o.sub p1) d r sign ∧ 0 ≤ z0 ∧ z0 < L) := by
      intro sign
      rw [cylCand_isSome]
      show (0 ≤ cylRoot sqrtF v (o.sub p1) d r sign ∧
        0 ≤ axialZ p1 v (o.along d (cylRoot sqrtF v (o.sub p1) d r sign)) ∧
        axialZ p1 v (o.along d (cylRoot sqrtF v (o.sub p1) d r sign)) < L) ↔ _
      rw [hz]
    rw [if_pos hdisc, length_filterMap_pair, cnt_congr (sideIff (-1)), cnt_congr (sideIff 1)]
    obtain ⟨hS0, hS1⟩ := hs _ hdisc.le
    set S := sqrtF (cylDisc v (o.sub p1) d r) with hSdef
    have hSS : S * S = B * B - 4 * A * C := hS1
    have hSpos : 0 < S := by
      refine lt_of_le_of_ne hS0 (fun h0 => ?_)
      rw [← h0] at hS1; simp only [mul_zero] at hS1; rw [← hS1] at hdisc; exact lt_irrefl _ hdisc
    have h2A : 2 * A ≠ 0 := mul_ne_zero two_ne_zero hA
    set s1 := cylRoot sqrtF v (o.sub p1) d r (-1) with hs1def
    set s2 := cylRoot sqrtF v (o.sub p1) d r 1 with hs2def
    have e1 : 2 * A * s1 = -B - S := by
      rw [hs1def]; unfold cylRoot; rw [mul_div_cancel₀ _ h2A]; ring
    have e2 : 2 * A * s2 = -B + S := by
      rw [hs2def]; unfold cylRoot; rw [mul_div_cancel₀ _ h2A]; ring
    have hs12 : s1 < s2 := by
      have : 2 * A * s1 < 2 * A * s2 := by rw [e1, e2]; linarith
      exact lt_of_mul_lt_mul_left this (by linarith)
    have hq : ∀ t, A * t * t + B * t + C = A * (t - s1) * (t - s2) :=
      fun t => quad_factor A B C S s1 s2 t hA hSS e1 e2
    have hC : C = A * (0 - s1) * (0 - s2) := by have := hq 0; rw [← this]; ring
    have hClt : C < 0 ↔ s1 < 0 ∧ 0 < s2 := by rw [hC]; exact prod_neg_iff A s1 s2 0 hApos hs12
    by_cases hZ : 0 ≤ z0 ∧ z0 < L
    · have c1 : cnt (0 ≤ s1 ∧ 0 ≤ z0 ∧ z0 < L) = cnt (0 ≤ s1) := cnt_congr ⟨fun h => h.1, fun h => ⟨h, hZ⟩⟩
      have c2 : cnt (0 ≤ s2 ∧ 0 ≤ z0 ∧ z0 < L) = cnt (0 ≤ s2) := cnt_congr ⟨fun h => h.1, fun h => ⟨h, hZ⟩⟩
      have hs2ne : s2 ≠ 0 := by
        intro h0
        apply hsurf'
        exact Or.inl ⟨by rw [hC, h0]; ring, hZ.1, hZ.2.le⟩
      rw [c1, c2, cnt_pair s1 s2 hs12 hs2ne]
      constructor
      · intro h
        have hc := hClt.2 h
        refine ⟨lt_of_le_of_ne hZ.1 (fun h0 => hsurf' (Or.inr ⟨hc.le, Or.inl h0.symm⟩)), hZ.2, by linarith⟩
      · rintro ⟨_, _, c⟩
        exact hClt.1 (by linarith)
    · rw [cnt_neg (fun h => hZ h.2), cnt_neg (fun h => hZ h.2)]
      constructor
      · intro h; omega
      · rintro ⟨a, b, _⟩; exact absurd ⟨a.le, b⟩ hZ
  · rw [if_neg hdisc]
    have hdle : B * B - 4 * A * C ≤ 0 := not_lt.1 hdisc
    have hC0 : 0 ≤ C := by
      by_contra hn
      have : 0 < -(4 * A * C) := by
        have := mul_neg_of_pos_of_neg (by linarith : 0 < 4 * A) (not_le.1 hn); linarith
      linarith [mul_self_nonneg B]
    constructor
    · intro h; simp at h
    · rintro ⟨_, _, h⟩; linarith

/-! ## the enumeration is exactly the set of surface points of the ray -/

/-- **`Cylinder.RayCollisions` reports a parameter iff `t ≥ 0` and the ray point lies on the surface of the cylinder**
(lateral surface between the caps, or one of the two discs), for a ray that is neither parallel nor orthogonal to the
axis, accepted by `castPlane`'s near-parallel test, and not tangent to the infinite cylinder (`disc ≠ 0`). -/
theorem cylHits_iff_surface {sqrtF : K → K} (hs : SqrtOK sqrtF) (eps : K) (p1 p2 : V3 K) (r : K) (o d : V3 K)
    (hax : (p2.sub p1).dot (p2.sub p1) ≠ 0) (hr : 0 < r)
    (hA : cylA ((p2.sub p1).normalize sqrtF) d ≠ 0)
    (hdv : d.dot ((p2.sub p1).normalize sqrtF) ≠ 0)
    (hacc : ¬ (|d.dot ((p2.sub p1).normalize sqrtF)| < eps * d.norm sqrtF))
    (hdisc : cylDisc ((p2.sub p1).normalize sqrtF) (o.sub p1) d r ≠ 0) (t : K) :
    (∃ h ∈ cylHits sqrtF eps p1 p2 r o d, h.t = t) ↔
      0 ≤ t ∧ OnCylSurface p1 ((p2.sub p1).normalize sqrtF) ((p2.sub p1).norm sqrtF) r (o.along d t) := by
  set v := (p2.sub p1).normalize sqrtF with hvdef
  set L := (p2.sub p1).norm sqrtF with hLdef
  have hvu : v.dot v = 1 := V3.normalize_unit hs _ hax
  obtain ⟨hL, hvL⟩ := normalize_dot_self hs (p2.sub p1) hax
  have hp2 : p2 = p1.add (v.scale L) := by
    rw [hvL]; simp only [V3.add, V3.sub]; cases p2; simp
  have hnu : (v.scale (-1)).dot (v.scale (-1)) = 1 := by
    have : (v.scale (-1)).dot (v.scale (-1)) = v.dot v := by simp only [V3.dot, V3.scale]; ring
    rw [this, hvu]
  have hdneg : d.dot (v.scale (-1)) = -(d.dot v) := by simp only [V3.dot, V3.scale]; ring
  constructor
  · rintro ⟨h, hm, rfl⟩
    obtain ⟨_, ht, _, hcase⟩ := cyl_sound hs eps p1 p2 r o d hax hr hA hdv h hm
    refine ⟨ht, ?_⟩
    unfold OnCylSurface
    rcases hcase with ⟨a, b, c, _⟩ | ⟨a, b, _⟩ | ⟨a, b, _⟩
    · exact Or.inl ⟨a, b, c.le⟩
    · exact Or.inr ⟨b, Or.inl a⟩
    · exact Or.inr ⟨b, Or.inr a⟩
  · rintro ⟨ht, hsurf⟩
    unfold OnCylSurface at hsurf
    -- a point on the top plane within the radius is a collision with the top disc
    have top : axialZ p1 v (o.along d t) = L → radialSq p1 v (o.along d t) ≤ r * r →
        ∃ h ∈ cylHits sqrtF eps p1 p2 r o d, h.t = t := by
      intro hz hrad
      have hc : castCircle sqrtF eps v p2 r o d = some ⟨t, v⟩ := by
        refine (castCircle_iff hs eps v p2 r hr.le o d ⟨t, v⟩ hdv).2 ⟨?_, ht, ?_, ?_, rfl⟩
        · rw [V3.norm_unit hs _ hvu, mul_one]; exact hacc
        · have e : ((o.along d t).sub p2).dot v = axialZ p1 v (o.along d t) - (p2.sub p1).dot v := by
            simp only [axialZ, V3.dot, V3.sub]; ring
          rw [e, hL, hz]; ring
        · have e : (o.along d t).distSq p2 = (o.along d t).distSq (p1.add (v.scale L)) := by rw [← hp2]
          rw [e, distSq_top p1 v _ L hvu, hz]; linarith
      refine ⟨⟨t, v⟩, ?_, rfl⟩
      unfold cylHits
      exact List.mem_append_right _ (by rw [hc]; simp)
    have base : axialZ p1 v (o.along d t) = 0 → radialSq p1 v (o.along d t) ≤ r * r →
        ∃ h ∈ cylHits sqrtF eps p1 p2 r o d, h.t = t := by
      intro hz hrad
      have hc : castCircle sqrtF eps (v.scale (-1)) p1 r o d = some ⟨t, v.scale (-1)⟩ := by
        refine (castCircle_iff hs eps (v.scale (-1)) p1 r hr.le o d ⟨t, v.scale (-1)⟩
          (by rw [hdneg]; exact neg_ne_zero.2 hdv)).2 ⟨?_, ht, ?_, ?_, rfl⟩
        · rw [hdneg, abs_neg, V3.norm_unit hs _ hnu, mul_one]; exact hacc
        · have e : ((o.along d t).sub p1).dot (v.scale (-1)) = -(axialZ p1 v (o.along d t)) := by
            simp only [axialZ, V3.dot, V3.sub, V3.scale]; ring
          rw [e, hz]; ring
        · rw [distSq_base p1 v _ hvu, hz]; linarith
      refine ⟨⟨t, v.scale (-1)⟩, ?_, rfl⟩
      unfold cylHits
      exact List.mem_append_left _ (List.mem_append_right _ (by rw [hc]; simp))
    rcases hsurf with ⟨hon, hz0, hz1⟩ | ⟨hrad, hz | hz⟩
    · rcases lt_or_eq_of_le hz1 with hlt | heq
      · have hq : cylA v d * t * t + cylB v (o.sub p1) d * t + cylC v (o.sub p1) r = 0 := by
          have := radialSq_along p1 v o d r t
          rw [hon] at this; linarith
        have hnn := quad_disc_nonneg _ _ _ t hq
        have hpos : 0 < cylDisc v (o.sub p1) d r := lt_of_le_of_ne hnn (Ne.symm hdisc)
        obtain ⟨h, hm, hht⟩ := cylSide_complete hs p1 p2 r o d hA hpos t ht hon hz0 hlt
        refine ⟨h, ?_, hht⟩
        unfold cylHits
        exact List.mem_append_left _ (List.mem_append_left _ hm)
      · exact top heq hon.le
    · exact base hz hrad
    · exact top hz hrad

end M3d.Col
