import M3d.Model.Param
/-!
# Chart growth (`nextMeshPlaneGraphs`): invariants of the state machine

* `BdInv`: the tracked `segments` are exactly the segments used an odd number of times by the
  chart, the `vertices` reference counts are exactly the endpoint multiset of those segments;
* `GInv`: chart ++ remaining mesh is a permutation of the input, the queue only holds triangles
  still in the mesh, each once;
* both are preserved by every step for every policy; the outer loop terminates with all
  triangles assigned.
-/
namespace M3d.Param
open M3d.Surface

/-! ## Boundary bookkeeping -/

/-- The endpoint multiset of a segment list. -/
def ends (segs : List Edge) : List Nat := segs.flatMap fun s => [s.1, s.2]

structure BdInv (b : Bd) (l : List Edge) : Prop where
  nodup : b.segs.Nodup
  parity : ∀ e, e ∈ b.segs ↔ l.count e % 2 = 1
  vperm : b.vcnt.Perm (ends b.segs)

theorem BdInv.empty : BdInv Bd.empty [] :=
  ⟨List.nodup_nil, by intro e; simp [Bd.empty], by simp [Bd.empty, ends]⟩

theorem count_snoc (l : List Edge) (s e : Edge) : (l ++ [s]).count e = l.count e + if s = e then 1 else 0 := by
  rw [List.count_append, List.count_singleton]
  by_cases h : s = e <;> simp [h]

theorem toggle_inv {b : Bd} {l : List Edge} (h : BdInv b l) (s : Edge) : BdInv (b.toggle s) (l ++ [s]) := by
  unfold Bd.toggle
  by_cases hs : s ∈ b.segs
  · have hc : b.segs.contains s = true := by simpa using hs
    rw [if_pos hc]
    refine ⟨h.nodup.erase s, ?_, ?_⟩
    · intro e
      show e ∈ b.segs.erase s ↔ _
      rw [h.nodup.mem_erase_iff, count_snoc]
      by_cases hes : s = e
      · subst hes
        have := (h.parity s).mp hs
        simp only [ne_eq, not_true_eq_false, false_and, if_true, false_iff]
        omega
      · have hes' : e ≠ s := fun h' => hes h'.symm
        simp only [ne_eq, hes', not_false_eq_true, true_and, hes, if_false, Nat.add_zero]
        exact h.parity e
    · show ((b.vcnt.erase s.1).erase s.2).Perm (ends (b.segs.erase s))
      have h1 : (ends b.segs).Perm (s.1 :: s.2 :: ends (b.segs.erase s)) := by
        have := (List.perm_cons_erase hs).flatMap_right (fun s : Edge => [s.1, s.2])
        simpa [ends, List.flatMap_cons] using this
      have h2 : b.vcnt.Perm (s.1 :: s.2 :: ends (b.segs.erase s)) := h.vperm.trans h1
      have h3 := (h2.erase s.1)
      rw [List.erase_cons_head] at h3
      have h4 := h3.erase s.2
      rw [List.erase_cons_head] at h4
      exact h4
  · have hc : b.segs.contains s = false := by simpa using hs
    rw [hc]
    simp only [Bool.false_eq_true, if_false]
    refine ⟨List.nodup_cons.mpr ⟨hs, h.nodup⟩, ?_, ?_⟩
    · intro e
      show e ∈ s :: b.segs ↔ _
      rw [List.mem_cons, count_snoc]
      by_cases hes : s = e
      · subst hes
        have : ¬ (l.count s % 2 = 1) := fun hh => hs ((h.parity s).mpr hh)
        simp only [true_or, if_true, true_iff]
        omega
      · have hes' : e ≠ s := fun h' => hes h'.symm
        simp only [hes', false_or, hes, if_false, Nat.add_zero]
        exact h.parity e
    · show (s.1 :: s.2 :: b.vcnt).Perm (ends (s :: b.segs))
      simp only [ends, List.flatMap_cons, List.cons_append, List.nil_append]
      exact (h.vperm.cons s.2).cons s.1

theorem addTri_inv {b : Bd} {l : List Edge} (h : BdInv b l) (t : Tri) : BdInv (b.addTri t) (l ++ triSegs t) := by
  have := toggle_inv (toggle_inv (toggle_inv h (useg t.1 t.2.1)) (useg t.2.1 t.2.2)) (useg t.2.2 t.1)
  simpa [Bd.addTri, triSegs, List.append_assoc] using this

theorem segsAll_snoc (ts : List Tri) (t : Tri) : segsAll (ts ++ [t]) = segsAll ts ++ triSegs t := by
  simp [segsAll, List.flatMap_append]

/-! ## The growth state machine -/

structure GInv (m : List Tri) (st : GState) : Prop where
  perm : (st.tris ++ st.rest).Perm m
  bd : BdInv st.bd (segsAll st.tris)
  qsub : ∀ q ∈ st.queue, q.tri ∈ st.rest
  qnodup : (st.queue.map (·.tri)).Nodup

theorem GInv.init (m : List Tri) : GInv m (GState.init m) :=
  ⟨by simp [GState.init], by simpa [GState.init, segsAll] using BdInv.empty, by simp [GState.init],
   by simp [GState.init]⟩

/-- What `pushAll` needs of a queue relative to the remaining mesh `R`. -/
def QOK (R : List Tri) (q : List QN) : Prop := (∀ x ∈ q, x.tri ∈ R) ∧ (q.map (·.tri)).Nodup

theorem qpush_ok {R : List Tri} {q : List QN} (h : QOK R q) (node : QN) (hn : node.tri ∈ R) : QOK R (qpush q node) := by
  unfold qpush
  split
  · rename_i hf
    have hnot : ∀ x ∈ q, x.tri ≠ node.tri := by
      intro x hx hxe
      have := List.find?_eq_none.mp hf x hx
      simp [hxe] at this
    refine ⟨?_, ?_⟩
    · intro x hx
      rcases List.mem_cons.mp hx with rfl | hx
      · exact hn
      · exact h.1 x hx
    · rw [List.map_cons, List.nodup_cons]
      refine ⟨?_, h.2⟩
      intro hmem
      obtain ⟨x, hx, hxe⟩ := List.mem_map.mp hmem
      exact hnot x hx hxe
  · rename_i old hf
    split
    · refine ⟨?_, ?_⟩
      · intro x hx
        rcases List.mem_cons.mp hx with rfl | hx
        · exact hn
        · exact h.1 x (List.mem_filter.mp hx).1
      · rw [List.map_cons, List.nodup_cons]
        refine ⟨?_, ?_⟩
        · intro hmem
          obtain ⟨x, hx, hxe⟩ := List.mem_map.mp hmem
          have := (List.mem_filter.mp hx).2
          simp [hxe] at this
        · exact h.2.sublist ((List.filter_sublist).map _)
    · exact h

theorem pushAll_ok (prio : Option Tri → Tri → Int) (t : Tri) {R : List Tri} (ns : List Tri) (hns : ∀ n ∈ ns, n ∈ R)
    (q : List QN) (u : Nat) (h : QOK R q) : QOK R (pushAll prio t ns (q, u)).1 := by
  induction ns generalizing q u with
  | nil => simpa [pushAll] using h
  | cons n r ih =>
    simp only [pushAll]
    exact ih (fun x hx => hns x (by simp [hx])) _ _ (qpush_ok h _ (hns n (by simp)))

theorem addTriangle_inv {m : List Tri} {st : GState} (prio : Option Tri → Tri → Int) (h : GInv m st) (t : Tri)
    (ht : t ∈ st.rest) (hq : ∀ q ∈ st.queue, q.tri ≠ t) : GInv m (addTriangle prio st t) := by
  refine ⟨?_, ?_, ?_, ?_⟩
  · show ((st.tris ++ [t]) ++ st.rest.erase t).Perm m
    refine List.Perm.trans ?_ h.perm
    rw [List.append_assoc]
    exact List.Perm.append_left _ (by simpa using (List.perm_cons_erase ht).symm)
  · show BdInv (st.bd.addTri t) (segsAll (st.tris ++ [t]))
    rw [segsAll_snoc]; exact addTri_inv h.bd t
  · have hq0 : QOK (st.rest.erase t) st.queue :=
      ⟨fun x hx => (List.mem_erase_of_ne (hq x hx)).mpr (h.qsub x hx), h.qnodup⟩
    exact (pushAll_ok prio t (neighbors (st.rest.erase t) t)
      (fun n hn => (List.mem_filter.mp hn).1) st.queue st.uid hq0).1
  · have hq0 : QOK (st.rest.erase t) st.queue :=
      ⟨fun x hx => (List.mem_erase_of_ne (hq x hx)).mpr (h.qsub x hx), h.qnodup⟩
    exact (pushAll_ok prio t (neighbors (st.rest.erase t) t)
      (fun n hn => (List.mem_filter.mp hn).1) st.queue st.uid hq0).2

theorem addTriangle_tris (prio : Option Tri → Tri → Int) (st : GState) (t : Tri) :
    (addTriangle prio st t).tris = st.tris ++ [t] := rfl

/-- Popping a node keeps the invariant and yields what `addTriangle` needs. -/
theorem pop_inv {m : List Tri} {st : GState} (h : GInv m st) (node : QN) (hn : node ∈ st.queue) :
    let st1 : GState := { st with queue := st.queue.filter fun o => o.tri != node.tri }
    GInv m st1 ∧ node.tri ∈ st1.rest ∧ ∀ q ∈ st1.queue, q.tri ≠ node.tri := by
  refine ⟨⟨h.perm, h.bd, ?_, ?_⟩, h.qsub node hn, ?_⟩
  · intro q hq; exact h.qsub q (List.mem_filter.mp hq).1
  · exact h.qnodup.sublist ((List.filter_sublist).map _)
  · intro q hq; simpa using (List.mem_filter.mp hq).2

theorem growLoop_inv (P : Policy) {m : List Tri} (n : Nat) (st : GState) (h : GInv m st) :
    GInv m (growLoop P n st) := by
  induction n generalizing st with
  | zero => simpa [growLoop] using h
  | succ n ih =>
    unfold growLoop
    split
    · exact h
    · split
      · exact h
      · rename_i node hnode
        have hn : node ∈ st.queue := List.mem_of_getElem? hnode
        obtain ⟨h1, h2, h3⟩ := pop_inv h node hn
        simp only
        split
        · exact ih _ h1
        · split
          · exact h1
          · exact ih _ (addTriangle_inv P.prio h1 node.tri h2 h3)

theorem growLoop_tris_len (P : Policy) (n : Nat) (st : GState) : st.tris.length ≤ (growLoop P n st).tris.length := by
  induction n generalizing st with
  | zero => simp [growLoop]
  | succ n ih =>
    unfold growLoop
    split
    · exact Nat.le_refl _
    · split
      · exact Nat.le_refl _
      · rename_i node hnode
        simp only
        split
        · exact ih { st with queue := st.queue.filter fun o => o.tri != node.tri }
        · split
          · exact Nat.le_refl _
          · refine Nat.le_trans ?_ (ih _)
            simp [addTriangle_tris]

/-! ## One call and the outer loop -/

theorem nextCharts_none (P : Policy) (hasExisting : Bool) (fuel : Nat) (m : List Tri)
    (h : nextCharts P hasExisting fuel m = none) : m = [] := by
  cases hget : m[P.first m % m.length]? with
  | none =>
    by_cases hm : m = []
    · exact hm
    · have hl : 0 < m.length := List.length_pos_iff.mpr hm
      have := Nat.mod_lt (P.first m) hl
      rw [List.getElem?_eq_none_iff] at hget
      omega
  | some t1 =>
    simp only [nextCharts, hget] at h
    split at h <;> simp at h

theorem nextCharts_some (P : Policy) (hasExisting : Bool) (fuel : Nat) (m : List Tri) (cs : List (List Tri))
    (rest : List Tri) (h : nextCharts P hasExisting fuel m = some (cs, rest)) :
    (cs.flatten ++ rest).Perm m ∧ rest.length < m.length := by
  cases hget : m[P.first m % m.length]? with
  | none => simp [nextCharts, hget] at h
  | some t1 =>
    have hmem : t1 ∈ m := List.mem_of_getElem? hget
    have h0 := addTriangle_inv P.prio (GInv.init m) t1 (by simpa [GState.init] using hmem) (by simp [GState.init])
    have h1 := growLoop_inv P fuel _ h0
    have hlen := growLoop_tris_len P fuel (addTriangle P.prio (GState.init m) t1)
    simp only [addTriangle_tris, GState.init, List.nil_append, List.length_singleton] at hlen
    have hperm := h1.perm
    have hl := hperm.length_eq
    simp only [List.length_append, GState.init] at hl
    simp only [nextCharts, hget] at h
    split at h
    · simp only [Option.some.injEq, Prod.mk.injEq] at h
      obtain ⟨rfl, rfl⟩ := h
      exact ⟨by simpa using hperm, by simp only [GState.init]; omega⟩
    · simp only [Option.some.injEq, Prod.mk.injEq] at h
      obtain ⟨rfl, rfl⟩ := h
      exact ⟨by simpa using hperm, by simp only [GState.init]; omega⟩

theorem planeGraphs_perm (P : Policy) (hasExisting : Bool) (fuel : Nat) (n : Nat) (m : List Tri)
    (hn : m.length ≤ n) : (planeGraphs P hasExisting fuel n m).flatten.Perm m := by
  induction n generalizing m with
  | zero =>
    have : m = [] := List.length_eq_zero_iff.mp (Nat.le_zero.mp hn)
    subst this; simp [planeGraphs]
  | succ n ih =>
    unfold planeGraphs
    cases hnc : nextCharts P hasExisting fuel m with
    | none =>
      have := nextCharts_none P hasExisting fuel m hnc
      subst this; simp
    | some r =>
      obtain ⟨cs, rest⟩ := r
      obtain ⟨hp, hl⟩ := nextCharts_some P hasExisting fuel m cs rest hnc
      have := ih rest (by omega)
      simp only [List.flatten_append]
      exact (List.Perm.append_left _ this).trans hp

/-! ## Euler characteristic of one growth step -/

theorem useg_comm (a b : Nat) : useg a b = useg b a := by
  unfold useg
  by_cases h1 : a ≤ b <;> by_cases h2 : b ≤ a <;> simp [h1, h2] <;> omega

theorem useg_eq_iff (a b c d : Nat) : useg a b = useg c d ↔ (a = c ∧ b = d) ∨ (a = d ∧ b = c) := by
  unfold useg
  by_cases h1 : a ≤ b <;> by_cases h2 : c ≤ d <;> simp [h1, h2, Prod.ext_iff] <;> omega

theorem segsAll_eq (ts : List Tri) : segsAll ts = (dirEdges ts).map undirected := by
  induction ts with
  | nil => rfl
  | cons t r ih =>
    simp only [segsAll, dirEdges, List.flatMap_cons, List.map_append] at ih ⊢
    rw [ih]
    congr 1

theorem seg_verts_mem {ts : List Tri} {a b : Nat} (h : useg a b ∈ segsAll ts) : a ∈ vertsAll ts ∧ b ∈ vertsAll ts := by
  simp only [segsAll, List.mem_flatMap] at h
  obtain ⟨t, ht, hs⟩ := h
  simp only [triSegs, List.mem_cons, List.not_mem_nil, or_false, useg_eq_iff] at hs
  simp only [vertsAll, List.mem_flatMap, triVerts]
  constructor
  · refine ⟨t, ht, ?_⟩
    simp only [List.mem_cons, List.not_mem_nil, or_false]
    omega
  · refine ⟨t, ht, ?_⟩
    simp only [List.mem_cons, List.not_mem_nil, or_false]
    omega

theorem eraseDups_snoc_len {α} [BEq α] [LawfulBEq α] (l : List α) (r : List α) :
    (l ++ r).eraseDups.length = l.eraseDups.length + ((r.removeAll l).eraseDups).length := by
  rw [List.eraseDups_append, List.length_append]

end M3d.Param
