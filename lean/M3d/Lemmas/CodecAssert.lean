import M3d.Model.CodecAssert
import M3d.Lemmas.CodecSafe
/-!
Rows returned by the PLY reader have the shape their element declares (`rowTyped`), and under the header
validation of `readColorPLY` every type assertion and index of its row loop holds: `readColorPLYGo` with the
repository's tests never panics and equals `readColorPLY`.
-/
namespace M3d.Codec

/-! ## typed rows: binary -/

theorem readScalarBin_kind {e : Endian} {k : Kind} {bs r : Bytes} {s : Scalar}
    (h : readScalarBin e k bs = .ok (s, r)) : s.kind = k := by
  unfold readScalarBin at h
  split at h
  · cases h
  · split at h
    · cases h
    · simp only [Except.ok.injEq, Prod.mk.injEq] at h
      rw [← h.1]

theorem readScalarsBin_typed {e : Endian} {k : Kind} {n : Nat} {bs r : Bytes} {xs : List Scalar}
    (h : readScalarsBin e k n bs = .ok (xs, r)) : xs.length = n ∧ ∀ x ∈ xs, x.kind = k := by
  induction n generalizing bs xs r with
  | zero =>
    simp only [readScalarsBin, Except.ok.injEq, Prod.mk.injEq] at h
    obtain ⟨rfl, _⟩ := h
    simp
  | succ n ih =>
    unfold readScalarsBin at h
    cases h1 : readScalarBin e k bs with
    | error er => simp [h1] at h
    | ok q =>
      obtain ⟨s, bs'⟩ := q
      simp only [h1] at h
      cases h2 : readScalarsBin e k n bs' with
      | error er => simp [h2] at h
      | ok q2 =>
        obtain ⟨ss, bs''⟩ := q2
        simp only [h2, Except.ok.injEq, Prod.mk.injEq] at h
        obtain ⟨rfl, _⟩ := h
        obtain ⟨hl, hk⟩ := ih h2
        refine ⟨by simp [hl], ?_⟩
        intro x hx
        rcases List.mem_cons.mp hx with rfl | hx
        · exact readScalarBin_kind h1
        · exact hk x hx

theorem all_kind_of_forall {k : Kind} {xs : List Scalar} (h : ∀ x ∈ xs, x.kind = k) :
    (xs.all fun x => decide (x.kind = k)) = true := by
  rw [List.all_eq_true]
  intro x hx
  simp [h x hx]

theorem toNat_cast_of_nonneg {n : Int} (hn : ¬ n < 0) : ((n.toNat : Nat) : Int) = n := by
  omega

/-- **binary rows are typed**: what `DecodeInstanceBinary` returns has one value per property, scalars of the
declared kind, lists with a length value of the declared kind and exactly that many entries of the declared kind. -/
theorem decodeBinary_typed {e : Endian} {ps : List PProp} {bs r : Bytes} {vs : List PVal} {a : Nat}
    (h : decodeBinary e ps bs = .ok (vs, r, a)) : rowTyped ps vs = true := by
  induction ps generalizing bs vs r a with
  | nil =>
    simp only [decodeBinary, Except.ok.injEq, Prod.mk.injEq] at h
    obtain ⟨rfl, _, _⟩ := h
    rfl
  | cons p ps ih =>
    unfold decodeBinary at h
    cases hl : p.lenType with
    | none =>
      simp only [hl] at h
      cases h1 : readScalarBin e p.elemType.kind bs with
      | error er => simp [h1] at h
      | ok q =>
        obtain ⟨v, bs'⟩ := q
        simp only [h1] at h
        cases h2 : decodeBinary e ps bs' with
        | error er => simp [h2] at h
        | ok q2 =>
          obtain ⟨vs', r', a'⟩ := q2
          simp only [h2, Except.ok.injEq, Prod.mk.injEq] at h
          obtain ⟨rfl, _, _⟩ := h
          simp [rowTyped, valTyped, hl, readScalarBin_kind h1, ih h2]
    | some lt =>
      simp only [hl] at h
      cases h1 : readScalarBin e lt.kind bs with
      | error er => simp [h1] at h
      | ok q =>
        obtain ⟨lv, bs'⟩ := q
        simp only [h1] at h
        cases hlv : lengthValue lv with
        | none => simp [hlv] at h
        | some n =>
          simp only [hlv] at h
          by_cases hn : n < 0
          · simp [hn] at h
          · simp only [hn, if_false] at h
            cases h3 : readScalarsBin e p.elemType.kind n.toNat bs' with
            | error er => simp [h3] at h
            | ok q3 =>
              obtain ⟨xs, bs''⟩ := q3
              simp only [h3] at h
              cases h2 : decodeBinary e ps bs'' with
              | error er => simp [h2] at h
              | ok q2 =>
                obtain ⟨vs', r', a'⟩ := q2
                simp only [h2, Except.ok.injEq, Prod.mk.injEq] at h
                obtain ⟨rfl, _, _⟩ := h
                obtain ⟨hlen, hk⟩ := readScalarsBin_typed h3
                have hcast : ((xs.length : Nat) : Int) = n := by rw [hlen]; exact toNat_cast_of_nonneg hn
                simp only [rowTyped, valTyped, hl, readScalarBin_kind h1, hlv, hcast, all_kind_of_forall hk, ih h2,
                  decide_true, Bool.and_self]

/-! ## typed rows: ASCII -/

theorem parseScalar_kind {ft : FloatText} {k : Kind} {tok : Bytes} {s : Scalar}
    (h : parseScalar ft k tok = some s) : s.kind = k := by
  cases k <;> simp only [parseScalar, Kind.signed, Bool.false_eq_true, if_true, if_false, Option.map_eq_some_iff] at h <;>
    obtain ⟨_, _, rfl⟩ := h <;> rfl

theorem mapM_parseScalar_typed {ft : FloatText} {k : Kind} {toks : List Bytes} {xs : List Scalar}
    (h : toks.mapM (parseScalar ft k) = some xs) : xs.length = toks.length ∧ ∀ x ∈ xs, x.kind = k := by
  refine ⟨mapM_length _ _ _ h, ?_⟩
  intro x hx
  obtain ⟨t, _, ht⟩ := mapM_mem _ _ _ h x hx
  exact parseScalar_kind ht

/-- **ASCII rows are typed** (`DecodeInstanceString`) -/
theorem decodeTokens_typed {ft : FloatText} {ps : List PProp} {toks r : List Bytes} {vs : List PVal} {a : Nat}
    (h : decodeTokens ft ps toks = .ok (vs, r, a)) : rowTyped ps vs = true := by
  induction ps generalizing toks vs r a with
  | nil =>
    simp only [decodeTokens, Except.ok.injEq, Prod.mk.injEq] at h
    obtain ⟨rfl, _, _⟩ := h
    rfl
  | cons p ps ih =>
    unfold decodeTokens at h
    cases hl : p.lenType with
    | none =>
      simp only [hl] at h
      cases toks with
      | nil => simp at h
      | cons t toks' =>
        simp only at h
        cases h1 : parseScalar ft p.elemType.kind t with
        | none => simp [h1] at h
        | some v =>
          simp only [h1] at h
          cases h2 : decodeTokens ft ps toks' with
          | error er => simp [h2] at h
          | ok q2 =>
            obtain ⟨vs', r', a'⟩ := q2
            simp only [h2, Except.ok.injEq, Prod.mk.injEq] at h
            obtain ⟨rfl, _, _⟩ := h
            simp [rowTyped, valTyped, hl, parseScalar_kind h1, ih h2]
    | some lt =>
      simp only [hl] at h
      cases toks with
      | nil => simp at h
      | cons t toks' =>
        simp only at h
        cases h1 : parseScalar ft lt.kind t with
        | none => simp [h1] at h
        | some lv =>
          simp only [h1] at h
          cases hlv : lengthValue lv with
          | none => simp [hlv] at h
          | some n =>
            simp only [hlv] at h
            by_cases hn : n < 0
            · simp [hn] at h
            · simp only [hn, if_false] at h
              by_cases hk : toks'.length < n.toNat
              · simp [hk] at h
              · simp only [hk, if_false] at h
                cases h3 : (toks'.take n.toNat).mapM (parseScalar ft p.elemType.kind) with
                | none => simp [h3] at h
                | some xs =>
                  simp only [h3] at h
                  cases h2 : decodeTokens ft ps (toks'.drop n.toNat) with
                  | error er => simp [h2] at h
                  | ok q2 =>
                    obtain ⟨vs', r', a'⟩ := q2
                    simp only [h2, Except.ok.injEq, Prod.mk.injEq] at h
                    obtain ⟨rfl, _, _⟩ := h
                    obtain ⟨hlen, hkind⟩ := mapM_parseScalar_typed h3
                    have hcast : ((xs.length : Nat) : Int) = n := by
                      rw [hlen, List.length_take, Nat.min_eq_left (by omega)]
                      exact toNat_cast_of_nonneg hn
                    simp only [rowTyped, valTyped, hl, parseScalar_kind h1, hlv, hcast, all_kind_of_forall hkind, ih h2,
                      decide_true, Bool.and_self]

/-- ASCII rows through `PLYReader.Read`, comment rows skipped -/
theorem readRowAscii_typed (ft : FloatText) (el : Element) :
    ∀ (n : Nat) (bs : Bytes), bs.length = n → ∀ (vs : List PVal) (r : Bytes) (a : Nat),
      readRowAscii ft el bs = .ok (vs, r, a) → rowTyped el.props vs = true := by
  intro n
  induction n using Nat.strongRecOn with
  | _ n ih =>
    intro bs hn vs r a h
    unfold readRowAscii at h
    cases hrl : readLine bs with
    | mk ln p =>
      obtain ⟨rest, found⟩ := p
      simp only [hrl] at h
      split at h
      · simp at h
      · split at h
        · split at h
          · next hf =>
            have hne : bs ≠ [] := by
              subst hf
              exact readLine_found_ne_nil bs ln rest hrl
            have hlt := readLine_rest_lt bs ln rest found hrl hne
            exact ih rest.length (by omega) rest rfl vs r a h
          · simp at h
        · cases hd : decodeTokens ft el.props (fields ln) with
          | error e => simp [hd] at h
          | ok q =>
            obtain ⟨vs', left, a'⟩ := q
            simp only [hd] at h
            cases left with
            | cons x xs => simp at h
            | nil =>
              simp only [Except.ok.injEq, Prod.mk.injEq] at h
              obtain ⟨rfl, _, _⟩ := h
              exact decodeTokens_typed hd

/-- **a row the reader returns is typed**, in every format -/
theorem readRow_typed {ft : FloatText} {f : Format} {el : Element} {bs r : Bytes} {vs : List PVal} {a : Nat}
    (h : readRow ft f el bs = .ok (vs, r, a)) : rowTyped el.props vs = true := by
  cases f with
  | text => exact readRowAscii_typed ft el bs.length bs rfl vs r a h
  | bin e => exact decodeBinary_typed h

theorem readElemRows_typed (ft : FloatText) (f : Format) (idx : Nat) (el : Element) (k : Nat) (bs : Bytes) :
    ∀ q ∈ (readElemRows ft f idx el k bs).1.rows, q.1 = idx ∧ rowTyped el.props q.2 = true := by
  induction k generalizing bs with
  | zero => simp [readElemRows]
  | succ k ih =>
    unfold readElemRows
    cases hr : readRow ft f el bs with
    | error e => cases e <;> simp
    | ok q =>
      obtain ⟨vs, bs', a⟩ := q
      simp only
      have h2 := ih bs'
      cases hk : readElemRows ft f idx el k bs' with
      | mk r out =>
        rw [hk] at h2
        simp only [ReadAll.cons]
        intro q hq
        rcases List.mem_cons.mp hq with rfl | hq
        · exact ⟨rfl, readRow_typed hr⟩
        · exact h2 q hq

/-- **every row of the stream is typed**: a row tagged with element number `i` is a row of the `i`-th element
of the header and has the shape that element declares. -/
theorem readElems_typed (ft : FloatText) (f : Format) (els : List Element) (idx : Nat) (bs : Bytes) :
    ∀ q ∈ (readElems ft f idx els bs).rows, idx ≤ q.1 ∧ ∃ el, els[q.1 - idx]? = some el ∧ rowTyped el.props q.2 = true := by
  induction els generalizing idx bs with
  | nil => simp [readElems]
  | cons el els ih =>
    unfold readElems
    have h1 := readElemRows_typed ft f idx el el.count.toNat bs
    cases hk : readElemRows ft f idx el el.count.toNat bs with
    | mk r out =>
      rw [hk] at h1
      simp only at h1 ⊢
      have hhead : ∀ q ∈ r.rows, idx ≤ q.1 ∧ ∃ el', (el :: els)[q.1 - idx]? = some el' ∧ rowTyped el'.props q.2 = true := by
        intro q hq
        obtain ⟨hi, ht⟩ := h1 q hq
        refine ⟨by omega, el, ?_, ht⟩
        rw [hi]; simp
      split
      · exact hhead
      · split
        · exact hhead
        · intro q hq
          simp only [List.mem_append] at hq
          rcases hq with hq | hq
          · exact hhead q hq
          · obtain ⟨hi, el', hel, ht⟩ := ih (idx + 1) out q hq
            refine ⟨by omega, el', ?_, ht⟩
            have : q.1 - idx = (q.1 - (idx + 1)) + 1 := by omega
            rw [this]
            simpa using hel

/-! ## the header tests imply the assertions -/

theorem colorHeaderOKWith_std (h : Header) : colorHeaderOKWith isStandardVertex isStandardFace h = colorHeaderOK h := rfl

/-- what `IsStandardVertex` says about one property: a scalar whose kind is the one the row loop asserts -/
theorem isStandardVertex_prop {el : Element} (h : isStandardVertex el = true) :
    ∀ p ∈ el.props, ∃ k, stdVertexKind p.name = some k ∧ p.lenType = none ∧ p.elemType.kind = k := by
  unfold isStandardVertex at h
  simp only [Bool.and_eq_true, List.all_eq_true] at h
  intro p hp
  have := h.2 p hp
  unfold stdVertexKind
  split at this
  · next hn =>
    simp only [hn, if_true]
    simp only [propIsFloat, Bool.and_eq_true, Option.isNone_iff_eq_none, decide_eq_true_eq] at this
    exact ⟨.f32, rfl, this.1, this.2⟩
  · next hn =>
    simp only [hn, Bool.false_eq_true, if_false]
    split at this
    · next hc =>
      simp only [hc, if_true]
      simp only [propIsUchar, Bool.and_eq_true, Option.isNone_iff_eq_none, decide_eq_true_eq] at this
      exact ⟨.u8, rfl, this.1, this.2⟩
    · simp at this

/-- the `vertex` branch under `IsStandardVertex` on a typed row: no assertion fails, and the six variables
end up holding the value of the last property of each name (`lastNamed`, what `collectRows` uses). -/
theorem vertexRowGo_eq (props : List PProp) (vals : List PVal) (st : Bytes → Nat)
    (hstd : ∀ p ∈ props, ∃ k, stdVertexKind p.name = some k ∧ p.lenType = none ∧ p.elemType.kind = k)
    (ht : rowTyped props vals = true) :
    vertexRowGo props vals st = .ret (fun n =>
      (props.zip vals).foldl (fun acc (pv : PProp × PVal) =>
        if pv.1.name = n then (match pv.2 with | .one s => s.bits | .list _ _ => acc) else acc) (st n)) := by
  induction props generalizing vals st with
  | nil =>
    cases vals with
    | nil => simp [vertexRowGo]
    | cons v vs => simp [rowTyped] at ht
  | cons p ps ih =>
    cases vals with
    | nil => simp [rowTyped] at ht
    | cons v vs =>
      simp only [rowTyped, Bool.and_eq_true] at ht
      obtain ⟨k, hk, hl, hek⟩ := hstd p List.mem_cons_self
      have hps := fun q hq => hstd q (List.mem_cons_of_mem _ hq)
      cases v with
      | list l xs => simp [valTyped, hl] at ht
      | one s =>
        have hs : s.kind = k := by
          have := ht.1
          simp only [valTyped, hl, Option.isNone_none, Bool.true_and, decide_eq_true_eq] at this
          rw [this, hek]
        unfold vertexRowGo
        simp only [hk, assertKind, hs, if_true]
        rw [ih vs _ hps ht.2]
        congr 1
        funext n
        simp only [List.zip_cons_cons, List.foldl_cons]
        by_cases hn : p.name = n
        · subst hn; simp
        · have hn' : ¬ n = p.name := fun h => hn h.symm
          simp [hn, hn']

/-- the `face` branch under `IsStandardFace` on a typed row: `values[0]` exists and is a list, its length is a
`PLYValueUint8`, and when that is 3 the entries `Values[0..2]` exist and are `PLYValueInt32`. -/
theorem faceRowGo_eq {el : Element} (hf : isStandardFace el = true) (vals : List PVal)
    (ht : rowTyped el.props vals = true) :
    ∃ l xs, vals = [.list l xs] ∧
      faceRowGo vals = .ret (if l.bits ≠ 3 then none else some (xs.map fun s => ofBitsSigned 4 s.bits)) := by
  unfold isStandardFace at hf
  simp only [Bool.and_eq_true] at hf
  obtain ⟨_, hf⟩ := hf
  split at hf
  · next p hp =>
    rw [hp] at ht
    simp only [Bool.and_eq_true, decide_eq_true_eq] at hf
    obtain ⟨⟨_, hlt⟩, hek⟩ := hf
    cases vals with
    | nil => simp [rowTyped] at ht
    | cons v vs =>
      cases vs with
      | cons w ws => simp [rowTyped] at ht
      | nil =>
        simp only [rowTyped, Bool.and_true] at ht
        cases hpl : p.lenType with
        | none => simp [hpl] at hlt
        | some lt =>
          simp only [hpl, decide_eq_true_eq] at hlt
          cases v with
          | one s => simp [valTyped, hpl] at ht
          | list l xs =>
            simp only [valTyped, hpl, Bool.and_eq_true, decide_eq_true_eq, List.all_eq_true] at ht
            obtain ⟨⟨hlk, hlen⟩, hxs⟩ := ht
            refine ⟨l, xs, rfl, ?_⟩
            have hl8 : l.kind = .u8 := by rw [hlk, hlt]
            unfold faceRowGo
            simp only [hl8, ne_eq, not_true_eq_false, if_false]
            by_cases h3 : l.bits = 3
            · simp only [h3, not_true_eq_false, if_false]
              have hx3 : xs.length = 3 := by
                simp only [lengthValue, hl8, Kind.isFloat, Kind.signed, Bool.false_eq_true, if_false,
                  Option.some.injEq, h3] at hlen
                omega
              match xs, hx3, hxs with
              | [a, b, c], _, hxs =>
                have ha := hxs a (by simp)
                have hb := hxs b (by simp)
                have hc := hxs c (by simp)
                rw [hek] at ha hb hc
                simp [ha, hb, hc]
            · simp [h3]
  · simp at hf

/-- **the row loop under the header validation**: on typed rows of a header whose `vertex` elements pass
`IsStandardVertex` and whose `face` elements pass `IsStandardFace`, no assertion of the loop fails and the
loop computes `collectRows`. -/
theorem collectRowsGo_eq (els : List Element)
    (hv : ∀ el ∈ els, el.name = ascii "vertex" → isStandardVertex el = true)
    (hf : ∀ el ∈ els, el.name = ascii "face" → isStandardFace el = true)
    (rows : List (Nat × List PVal))
    (hr : ∀ q ∈ rows, ∃ el, els[q.1]? = some el ∧ rowTyped el.props q.2 = true) (m : ColorMesh) :
    collectRowsGo els rows m = .ret (collectRows els rows m) := by
  induction rows generalizing m with
  | nil => rfl
  | cons q rows ih =>
    obtain ⟨i, vals⟩ := q
    obtain ⟨el, hel, ht⟩ := hr (i, vals) List.mem_cons_self
    have hr' := fun q hq => hr q (List.mem_cons_of_mem _ hq)
    have hmem : el ∈ els := List.mem_of_getElem? hel
    unfold collectRowsGo collectRows
    simp only [hel]
    by_cases hface : el.name = ascii "face"
    · simp only [hface, if_true]
      obtain ⟨l, xs, rfl, hgo⟩ := faceRowGo_eq (hf el hmem hface) vals ht
      rw [hgo]
      by_cases h3 : l.bits = 3
      · simp only [h3, ne_eq, not_true_eq_false, if_false]
        exact ih hr' _
      · simp [h3]
    · simp only [hface, if_false]
      by_cases hvert : el.name = ascii "vertex"
      · simp only [hvert, if_true]
        rw [vertexRowGo_eq el.props vals _ (isStandardVertex_prop (hv el hmem hvert)) ht]
        simp only
        exact ih hr' _
      · simp only [hvert, if_false]
        exact ih hr' m

/-! ## the final loop -/

theorem cornersGo_eq {β : Type} (verts : List β) (d : β) (t : List Int)
    (h : (t.all fun v => decide (0 ≤ v) && decide (v < (verts.length : Int))) = true) :
    cornersGo verts t = .ret (t.map fun v => verts.getD v.toNat d) := by
  induction t with
  | nil => rfl
  | cons v vs ih =>
    simp only [List.all_cons, Bool.and_eq_true, decide_eq_true_eq] at h
    obtain ⟨⟨h0, h1⟩, hvs⟩ := h
    have hlt : v.toNat < verts.length := by omega
    unfold cornersGo vertexAtGo
    simp only [show ¬ v < 0 by omega, if_false, List.getElem?_eq_getElem hlt]
    rw [ih hvs]
    simp [List.getD_eq_getElem?_getD, List.getElem?_eq_getElem hlt]

theorem buildTrisGo_eq {β : Type} (verts : List β) (d : β) (tris : List (List Int)) :
    buildTrisGo verts tris =
      .ret (if indicesOK verts.length tris then some (tris.map fun t => t.map fun v => verts.getD v.toNat d) else none) := by
  induction tris with
  | nil => simp [buildTrisGo, indicesOK]
  | cons t ts ih =>
    unfold buildTrisGo
    by_cases ht : (t.all fun v => decide (0 ≤ v) && decide (v < (verts.length : Int))) = true
    · simp only [ht, if_true]
      rw [cornersGo_eq verts d t ht, ih]
      simp only
      by_cases hts : indicesOK verts.length ts = true
      · have : indicesOK verts.length (t :: ts) = true := by
          unfold indicesOK at hts ⊢
          simp only [List.all_cons, Bool.and_eq_true]
          exact ⟨ht, hts⟩
        simp [hts, this]
      · have : ¬ indicesOK verts.length (t :: ts) = true := by
          unfold indicesOK at hts ⊢
          simp only [List.all_cons, Bool.and_eq_true]
          exact fun h => hts h.2
        simp [hts, this]
    · have : ¬ indicesOK verts.length (t :: ts) = true := by
        unfold indicesOK
        simp only [List.all_cons, Bool.and_eq_true]
        exact fun h => ht h.1
      simp [ht, this]

/-! ## the whole decoder -/

theorem colorHeaderOK_tests {h : Header} (hok : colorHeaderOK h = true) :
    (∀ el ∈ h.elements, el.name = ascii "vertex" → isStandardVertex el = true) ∧
    (∀ el ∈ h.elements, el.name = ascii "face" → isStandardFace el = true) := by
  unfold colorHeaderOK at hok
  simp only [Bool.and_eq_true, List.all_eq_true] at hok
  obtain ⟨⟨⟨_, h2⟩, _⟩, _⟩ := hok
  refine ⟨?_, ?_⟩
  · intro el hel hn
    have := h2 el hel
    simpa [hn] using this
  · intro el hel hn
    have := h2 el hel
    by_cases hvn : el.name = ascii "vertex"
    · rw [hvn] at hn
      exact absurd hn (by decide)
    · rw [if_neg hvn, if_pos hn] at this
      exact this

/-- **`ReadColorPLY` never fails an assertion or an index**: with the repository's header tests the decoder
with every type assertion and slice index explicit returns — for every byte string — exactly what the total
model `readColorPLY` returns. -/
theorem readColorPLYGo_eq (ft : FloatText) (bs : Bytes) :
    readColorPLYGo isStandardVertex isStandardFace ft bs = .ret (readColorPLY ft bs) := by
  unfold readColorPLYGo readColorPLY
  cases ho : plyOpen bs with
  | error e => rfl
  | ok q =>
    obtain ⟨h, rest⟩ := q
    simp only [colorHeaderOKWith_std]
    by_cases hok : colorHeaderOK h = true
    · simp only [hok, Bool.not_true, Bool.false_eq_true, if_false]
      obtain ⟨hv, hf⟩ := colorHeaderOK_tests hok
      have hr : ∀ q ∈ (readElems ft h.format 0 h.elements rest).rows,
          ∃ el, h.elements[q.1]? = some el ∧ rowTyped el.props q.2 = true := by
        intro q hq
        obtain ⟨_, el, hel, ht⟩ := readElems_typed ft h.format h.elements 0 rest q hq
        exact ⟨el, by simpa using hel, ht⟩
      rw [collectRowsGo_eq h.elements hv hf _ hr]
      cases hc : collectRows h.elements (readElems ft h.format 0 h.elements rest).rows ⟨[], [], []⟩ with
      | none => rfl
      | some m =>
        simp only
        cases he : (readElems ft h.format 0 h.elements rest).err with
        | some e => rfl
        | none =>
          simp only
          rw [buildTrisGo_eq m.verts (0, 0, 0) m.tris]
          by_cases hi : indicesOK m.verts.length m.tris = true
          · simp [hi]
          · simp [hi]
    · simp [hok]

/-! ## OFF: the vertex table is complete, so the index is in range -/

/-- `readVertices` stores exactly the declared number of vertices (every iteration appends one or fails). -/
theorem offReadVerts_length (pf64 : Bytes → Option UInt64) (n : Nat) (bs : Bytes) (vs : List V3) (r : Bytes)
    (h : offReadVerts pf64 n bs = some (vs, r)) : vs.length = n := by
  induction n generalizing bs vs r with
  | zero =>
    simp only [offReadVerts, Option.some.injEq, Prod.mk.injEq] at h
    rw [← h.1]; rfl
  | succ n ih =>
    unfold offReadVerts at h
    split at h
    · simp at h
    · split at h
      · split at h
        · next vs' r' hrec =>
          simp only [Option.some.injEq, Prod.mk.injEq] at h
          rw [← h.1]
          simp [ih _ _ _ hrec]
        · simp at h
      · simp at h

/-- with the bound `len(o.vertices)` the index `o.vertices[idx]` is in range: the explicit-index corner is the
total one `offReadFaces` uses. -/
theorem offCornerGo_eq (verts : List V3) (tok : Bytes) :
    offCornerGo verts verts.length tok =
      .ret ((parseIntN 64 tok).bind fun i => if 0 ≤ i ∧ i < (verts.length : Int) then verts[i.toNat]? else none) := by
  unfold offCornerGo
  cases hp : parseIntN 64 tok with
  | none => rfl
  | some i =>
    simp only [Option.bind_some]
    by_cases hi : 0 ≤ i ∧ i < (verts.length : Int)
    · have hlt : i.toNat < verts.length := by omega
      simp [hi]
    · simp [hi]

/-! ## ASCII STL: the vertex index stays below 3 -/

theorem stlParseVecGo_eq (pf32 : Bytes → Option UInt32) (toks : List Bytes) (h : 3 ≤ toks.length) :
    stlParseVecGo pf32 toks = .ret (stlParseVec pf32 toks) := by
  unfold stlParseVecGo stlParseVec
  simp [show ¬ toks.length < 3 by omega]

theorem stlParseVec_length (pf32 : Bytes → Option UInt32) (toks : List Bytes) (v : List UInt32)
    (hl : 3 ≤ toks.length) (h : stlParseVec pf32 toks = some v) : v.length = 3 := by
  unfold stlParseVec at h
  have := mapM_length _ _ _ h
  rw [this, List.length_drop]
  omega

/-- **the facet being assembled never holds more than three vertices**: with the guard `vertexIndex == 3`, and
starting from a facet with 0..3 whole vertices, the loop with `vertices[vertexIndex]` and `line[len(line)-3:]`
explicit never panics and is `stlAsciiLoop`. -/
theorem stlAsciiLoopGo_eq (pf32 : Bytes → Option UInt32) :
    ∀ (n : Nat) (bs : Bytes), bs.length = n → ∀ (normal verts : List UInt32) (acc : List Rec),
      verts.length % 3 = 0 → verts.length ≤ 9 →
      stlAsciiLoopGo true pf32 bs normal verts acc = .ret (stlAsciiLoop pf32 bs normal verts acc) := by
  intro n
  induction n using Nat.strongRecOn with
  | _ n ih =>
    intro bs hn normal verts acc hm hle
    unfold stlAsciiLoopGo stlAsciiLoop
    obtain ⟨ln, rest, found, hrl⟩ : ∃ ln rest found, readLine bs = (ln, rest, found) := ⟨_, _, _, rfl⟩
    · simp only [hrl]
      cases found with
      | false =>
        simp only [dite_true]
        split <;> rfl
      | true =>
        have hlt := readLine_rest_lt bs ln rest true hrl (readLine_found_ne_nil bs ln rest hrl)
        have hrec := fun nv vv aa (h1 : vv.length % 3 = 0) (h2 : vv.length ≤ 9) =>
          ih rest.length (by omega) rest rfl nv vv aa h1 h2
        simp only [Bool.true_eq_false, dite_false]
        cases htoks : fields ln with
        | nil => exact hrec _ _ _ hm hle
        | cons t0 ts =>
          simp only
          by_cases h1 : t0 = tokEndsolid
          · simp [h1]
          · simp only [h1, if_false]
            by_cases h2 : t0 = tokEndfacet
            · simp only [h2, if_true]
              by_cases h9 : verts.length = 9
              · simp only [h9, if_true]
                exact hrec _ _ _ (by simp) (by simp)
              · simp [h9]
            · simp only [h2, if_false]
              by_cases h3 : t0 = tokFacet
              · simp only [h3, if_true]
                by_cases h5 : (tokFacet :: ts).length ≠ 5
                · simp only [if_pos h5]
                · simp only [if_neg h5]
                  rw [stlParseVecGo_eq pf32 _ (by simp at h5; simp [h5])]
                  cases hp : stlParseVec pf32 (tokFacet :: ts) with
                  | none => rfl
                  | some nv => exact hrec _ _ _ hm hle
              · simp only [h3, if_false]
                by_cases h4 : t0 = tokVertex
                · simp only [h4, if_true]
                  by_cases hl4 : (tokVertex :: ts).length ≠ 4
                  · simp only [if_pos hl4]
                  · simp only [if_neg hl4]
                    by_cases h9 : verts.length = 9
                    · simp [h9]
                    · have hidx : verts.length / 3 < 3 := by omega
                      simp only [h9, Bool.true_and, decide_false, Bool.false_eq_true, if_false, hidx, if_true]
                      have hl3 : 3 ≤ (tokVertex :: ts).length := by simp at hl4; simp [hl4]
                      rw [stlParseVecGo_eq pf32 _ hl3]
                      cases hp : stlParseVec pf32 (tokVertex :: ts) with
                      | none => rfl
                      | some v =>
                        have hv := stlParseVec_length pf32 _ v hl3 hp
                        exact hrec _ _ _ (by simp [hv]; omega) (by simp [hv]; omega)
                · simp only [h4, if_false]
                  exact hrec _ _ _ hm hle

end M3d.Codec
