import M3d.Lemmas.SdfSeg
import M3d.Lemmas.SdfRect
/-!
C06 helper lemmas: 3-D `Triangle.Closest` — the two regions of the code.
-/
namespace M3d.Sdf
set_option linter.unusedSectionVars false
set_option linter.unusedVariables false

variable {K : Type} [Field K] [LinearOrder K] [IsStrictOrderedRing K]

/-- `m · (m⁻¹ w) = w` for `Matrix3.InvertInPlace` when `Det() ≠ 0`. -/
theorem M3.mulColumn_inverse (m : M3 K) (h : m.det ≠ 0) (w : V3 K) :
    m.mulColumn (m.inverse.mulColumn w) = w := by
  have hs : m.det * (1 / m.det) = 1 := by field_simp
  have hinv : m.inverse = ⟨(m.m4 * m.m8 - m.m5 * m.m7) * (1 / m.det), (m.m2 * m.m7 - m.m1 * m.m8) * (1 / m.det),
      (m.m1 * m.m5 - m.m2 * m.m4) * (1 / m.det), (m.m5 * m.m6 - m.m3 * m.m8) * (1 / m.det),
      (m.m0 * m.m8 - m.m2 * m.m6) * (1 / m.det), (m.m2 * m.m3 - m.m0 * m.m5) * (1 / m.det),
      (m.m3 * m.m7 - m.m4 * m.m6) * (1 / m.det), (m.m1 * m.m6 - m.m0 * m.m7) * (1 / m.det),
      (m.m0 * m.m4 - m.m1 * m.m3) * (1 / m.det)⟩ := rfl
  rw [hinv]
  generalize 1 / m.det = s at *
  unfold M3.det at hs
  ext <;> simp only [M3.mulColumn]
  · linear_combination w.x * hs
  · linear_combination w.y * hs
  · linear_combination w.z * hs

/-- the point of the plane of the triangle with coefficients `(a, b)` -/
def triPoint (t0 t1 t2 : V3 K) (a b : K) : V3 K := (t0.add ((t1.sub t0).scale a)).add ((t2.sub t0).scale b)

/-- `(a, b)` are coefficients of a point of the (closed) triangle -/
def InTri (a b : K) : Prop := 0 ≤ a ∧ 0 ≤ b ∧ a + b ≤ 1

theorem triInside_iff (k : V3 K) : triInside k = true ↔ InTri k.x k.y := by
  simp only [triInside, InTri, Bool.and_eq_true, Bool.not_eq_true', decide_eq_false_iff_not, not_lt,
    decide_eq_true_eq]
  tauto

/-- The normal used by `Triangle.Closest` is orthogonal to both edge vectors. -/
theorem triNormal_orth (E : Env K) (t0 t1 t2 : V3 K) :
    (triNormal E t0 t1 t2).dot (t1.sub t0) = 0 ∧ (triNormal E t0 t1 t2).dot (t2.sub t0) = 0 := by
  constructor <;> simp only [triNormal, V3.normalize, V3.dot, V3.cross, V3.scale, V3.sub] <;> ring

/-- `c - t[0] = x v1 + y v2 + z n` for the `components` computed by `Triangle.Closest`. -/
theorem triComponents_decomp (E : Env K) (t0 t1 t2 c : V3 K)
    (hdet : (M3.ofColumns (t1.sub t0) (t2.sub t0) (triNormal E t0 t1 t2)).det ≠ 0) :
    c = (triPoint t0 t1 t2 (triComponents E t0 t1 t2 c).x (triComponents E t0 t1 t2 c).y).add
          ((triNormal E t0 t1 t2).scale (triComponents E t0 t1 t2 c).z) := by
  have h := M3.mulColumn_inverse _ hdet (c.sub t0)
  change (M3.ofColumns (t1.sub t0) (t2.sub t0) (triNormal E t0 t1 t2)).mulColumn (triComponents E t0 t1 t2 c) = c.sub t0 at h
  generalize triComponents E t0 t1 t2 c = k at *
  generalize triNormal E t0 t1 t2 = n at *
  have hx := congrArg V3.x h
  have hy := congrArg V3.y h
  have hz := congrArg V3.z h
  simp only [M3.mulColumn, M3.ofColumns, V3.sub] at hx hy hz
  ext <;> simp only [triPoint, V3.add, V3.scale, V3.sub]
  · linear_combination -hx
  · linear_combination -hy
  · linear_combination -hz

/-- **Interior region.**  If `c = P + z n` with `P = t0 + a v1 + b v2` and `n ⊥ v1, v2` then `P` is the point of
the whole *plane* of the triangle closest to `c` (orthogonal projection), in particular of the triangle. -/
theorem tri_projection_optimal (t0 t1 t2 n : V3 K) (a b z : K)
    (h1 : n.dot (t1.sub t0) = 0) (h2 : n.dot (t2.sub t0) = 0) (a' b' : K) :
    ((triPoint t0 t1 t2 a b).add (n.scale z)).sqDist (triPoint t0 t1 t2 a b) ≤
      ((triPoint t0 t1 t2 a b).add (n.scale z)).sqDist (triPoint t0 t1 t2 a' b') := by
  simp only [V3.dot, V3.sub] at h1 h2
  simp only [triPoint, V3.sqDist, V3.add, V3.scale, V3.sub]
  have key : ((t0.x + (t1.x - t0.x) * a + (t2.x - t0.x) * b + n.x * z - (t0.x + (t1.x - t0.x) * a' + (t2.x - t0.x) * b')) *
        (t0.x + (t1.x - t0.x) * a + (t2.x - t0.x) * b + n.x * z - (t0.x + (t1.x - t0.x) * a' + (t2.x - t0.x) * b')) +
      (t0.y + (t1.y - t0.y) * a + (t2.y - t0.y) * b + n.y * z - (t0.y + (t1.y - t0.y) * a' + (t2.y - t0.y) * b')) *
        (t0.y + (t1.y - t0.y) * a + (t2.y - t0.y) * b + n.y * z - (t0.y + (t1.y - t0.y) * a' + (t2.y - t0.y) * b')) +
      (t0.z + (t1.z - t0.z) * a + (t2.z - t0.z) * b + n.z * z - (t0.z + (t1.z - t0.z) * a' + (t2.z - t0.z) * b')) *
        (t0.z + (t1.z - t0.z) * a + (t2.z - t0.z) * b + n.z * z - (t0.z + (t1.z - t0.z) * a' + (t2.z - t0.z) * b'))) -
      ((t0.x + (t1.x - t0.x) * a + (t2.x - t0.x) * b + n.x * z - (t0.x + (t1.x - t0.x) * a + (t2.x - t0.x) * b)) *
        (t0.x + (t1.x - t0.x) * a + (t2.x - t0.x) * b + n.x * z - (t0.x + (t1.x - t0.x) * a + (t2.x - t0.x) * b)) +
      (t0.y + (t1.y - t0.y) * a + (t2.y - t0.y) * b + n.y * z - (t0.y + (t1.y - t0.y) * a + (t2.y - t0.y) * b)) *
        (t0.y + (t1.y - t0.y) * a + (t2.y - t0.y) * b + n.y * z - (t0.y + (t1.y - t0.y) * a + (t2.y - t0.y) * b)) +
      (t0.z + (t1.z - t0.z) * a + (t2.z - t0.z) * b + n.z * z - (t0.z + (t1.z - t0.z) * a + (t2.z - t0.z) * b)) *
        (t0.z + (t1.z - t0.z) * a + (t2.z - t0.z) * b + n.z * z - (t0.z + (t1.z - t0.z) * a + (t2.z - t0.z) * b)))
      = ((t1.x - t0.x) * (a - a') + (t2.x - t0.x) * (b - b')) * ((t1.x - t0.x) * (a - a') + (t2.x - t0.x) * (b - b')) +
        ((t1.y - t0.y) * (a - a') + (t2.y - t0.y) * (b - b')) * ((t1.y - t0.y) * (a - a') + (t2.y - t0.y) * (b - b')) +
        ((t1.z - t0.z) * (a - a') + (t2.z - t0.z) * (b - b')) * ((t1.z - t0.z) * (a - a') + (t2.z - t0.z) * (b - b')) := by
    linear_combination (2 * z * (a - a')) * h1 + (2 * z * (b - b')) * h2
  linarith [key, mul_self_nonneg ((t1.x - t0.x) * (a - a') + (t2.x - t0.x) * (b - b')),
    mul_self_nonneg ((t1.y - t0.y) * (a - a') + (t2.y - t0.y) * (b - b')),
    mul_self_nonneg ((t1.z - t0.z) * (a - a') + (t2.z - t0.z) * (b - b'))]

/-! ### edges -/

theorem newSegment3_cases (p q : V3 K) : newSegment3 p q = (p, q) ∨ newSegment3 p q = (q, p) := by
  unfold newSegment3; split_ifs <;> simp

theorem lerp_swap (p q : V3 K) (t : K) : V3.lerp q p (1 - t) = V3.lerp p q t := by
  ext <;> simp only [V3.lerp, V3.add, V3.scale, V3.sub] <;> ring

theorem normSq_swap (p q : V3 K) : (p.sub q).normSq = (q.sub p).normSq := by
  simp only [V3.normSq, V3.sub]; ring

/-- `Segment.Closest` of the canonically ordered segment `NewSegment(p, q)` minimises the squared distance
over the segment `p q` and lies on it. -/
theorem newSeg_closest_optimal {E : Env K} (hE : E.Exact) (p q c : V3 K) (hne : 0 < (q.sub p).normSq) :
    (∃ t, 0 ≤ t ∧ t ≤ 1 ∧ segClosest3 E (newSegment3 p q).1 (newSegment3 p q).2 c = V3.lerp p q t) ∧
    ∀ t, 0 ≤ t → t ≤ 1 →
      (segClosest3 E (newSegment3 p q).1 (newSegment3 p q).2 c).sqDist c ≤ (V3.lerp p q t).sqDist c := by
  rcases newSegment3_cases p q with h | h <;> rw [h] <;> dsimp only
  · rw [segClosest3_eq_Q hE p q c hne]
    exact ⟨segClosestQ3_mem p q c hne, fun t h0 h1 => segClosestQ3_le p q c hne t h0 h1⟩
  · have hne' : 0 < (p.sub q).normSq := by rw [normSq_swap]; exact hne
    rw [segClosest3_eq_Q hE q p c hne']
    constructor
    · obtain ⟨t, h0, h1, ht⟩ := segClosestQ3_mem q p c hne'
      exact ⟨1 - t, by linarith, by linarith, by rw [ht, ← lerp_swap p q (1 - t)]; congr 1; ring⟩
    · intro t h0 h1
      have := segClosestQ3_le q p c hne' (1 - t) (by linarith) (by linarith)
      rwa [lerp_swap] at this

/-- **Edge region.**  The point selected by the edge loop of `Triangle.Closest` lies on an edge and no
point of any of the three edges is closer. -/
theorem triEdgeClosest_optimal {E : Env K} (hE : E.Exact) (t0 t1 t2 c : V3 K)
    (h01 : 0 < (t1.sub t0).normSq) (h12 : 0 < (t2.sub t1).normSq) (h20 : 0 < (t0.sub t2).normSq) :
    (∃ t, 0 ≤ t ∧ t ≤ 1 ∧ ((triEdgeClosest E t0 t1 t2 c).2 = V3.lerp t0 t1 t ∨
        (triEdgeClosest E t0 t1 t2 c).2 = V3.lerp t1 t2 t ∨ (triEdgeClosest E t0 t1 t2 c).2 = V3.lerp t2 t0 t)) ∧
    ∀ t, 0 ≤ t → t ≤ 1 →
      (triEdgeClosest E t0 t1 t2 c).2.sqDist c ≤ (V3.lerp t0 t1 t).sqDist c ∧
      (triEdgeClosest E t0 t1 t2 c).2.sqDist c ≤ (V3.lerp t1 t2 t).sqDist c ∧
      (triEdgeClosest E t0 t1 t2 c).2.sqDist c ≤ (V3.lerp t2 t0 t).sqDist c := by
  obtain ⟨m01, o01⟩ := newSeg_closest_optimal hE t0 t1 c h01
  obtain ⟨m12, o12⟩ := newSeg_closest_optimal hE t1 t2 c h12
  obtain ⟨m20, o20⟩ := newSeg_closest_optimal hE t2 t0 c h20
  unfold triEdgeClosest
  dsimp only
  set c01 := segClosest3 E (newSegment3 t0 t1).1 (newSegment3 t0 t1).2 c
  set c12 := segClosest3 E (newSegment3 t1 t2).1 (newSegment3 t1 t2).2 c
  set c20 := segClosest3 E (newSegment3 t2 t0).1 (newSegment3 t2 t0).2 c
  have hs := pickMin_spec [(c12.dist E c, c12), (c20.dist E c, c20)] (c01.dist E c, c01)
  set pk := pickMin (c01.dist E c, c01) [(c12.dist E c, c12), (c20.dist E c, c20)]
  have hmem : pk = (c01.dist E c, c01) ∨ pk = (c12.dist E c, c12) ∨ pk = (c20.dist E c, c20) := by
    simpa using hs.1
  have hkey : pk.1 = pk.2.dist E c := by rcases hmem with h | h | h <;> rw [h]
  have hle : ∀ x : V3 K, (x = c01 ∨ x = c12 ∨ x = c20) → pk.2.sqDist c ≤ x.sqDist c := by
    intro x hx
    have : pk.1 ≤ x.dist E c := by
      rcases hx with rfl | rfl | rfl
      · exact hs.2 (c01.dist E c, c01) (by simp)
      · exact hs.2 (c12.dist E c, c12) (by simp)
      · exact hs.2 (c20.dist E c, c20) (by simp)
    rw [hkey] at this
    exact (hE.sqrt_le_sqrt (V3.sqDist_nonneg _ _) (V3.sqDist_nonneg _ _)).mp this
  constructor
  · rcases hmem with h | h | h
    · obtain ⟨t, a, b, e⟩ := m01; exact ⟨t, a, b, Or.inl (by rw [h]; exact e)⟩
    · obtain ⟨t, a, b, e⟩ := m12; exact ⟨t, a, b, Or.inr (Or.inl (by rw [h]; exact e))⟩
    · obtain ⟨t, a, b, e⟩ := m20; exact ⟨t, a, b, Or.inr (Or.inr (by rw [h]; exact e))⟩
  · intro t ha hb
    exact ⟨le_trans (hle c01 (Or.inl rfl)) (o01 t ha hb), le_trans (hle c12 (Or.inr (Or.inl rfl))) (o12 t ha hb),
      le_trans (hle c20 (Or.inr (Or.inr rfl))) (o20 t ha hb)⟩

end M3d.Sdf
