import Mathlib.Algebra.Order.Field.Basic
import Mathlib.Tactic.Linarith
import M3d.Model.SmoothSolid
import M3d.Lemmas.SolidTree
/-!
Helper lemmas for C04: the joint bounds of a smooth join (`boxesJoin`, `Box.expand`) — what they
enclose, and that they do not depend on the order of the operands.
-/
namespace M3d.SolidAlg
set_option linter.unusedSectionVars false
set_option linter.unusedVariables false

section Order
variable {K : Type} [LinearOrder K]

theorem minOf_le_iff (a b x : K) : minOf a b ≤ x ↔ a ≤ x ∨ b ≤ x := by
  unfold minOf
  split_ifs with h
  · exact ⟨Or.inl, fun h' => h'.elim id (fun hb => le_trans h hb)⟩
  · exact ⟨Or.inr, fun h' => h'.elim (fun ha => le_trans (le_of_not_ge h) ha) id⟩

theorem le_maxOf_iff (a b x : K) : x ≤ maxOf a b ↔ x ≤ a ∨ x ≤ b := by
  unfold maxOf
  split_ifs with h
  · exact ⟨Or.inr, fun h' => h'.elim (fun ha => le_trans ha h) id⟩
  · exact ⟨Or.inl, fun h' => h'.elim id (fun hb => le_trans hb (le_of_not_ge h))⟩

theorem foldl_join_lo_le_iff (rest : List (Box K)) (acc : Box K) (i : Nat) (x : K) :
    (rest.foldl Box.join acc).lo i ≤ x ↔ acc.lo i ≤ x ∨ ∃ b ∈ rest, b.lo i ≤ x := by
  induction rest generalizing acc with
  | nil => simp
  | cons b rest ih =>
    rw [List.foldl_cons, ih]
    simp only [Box.join, minOf_le_iff, List.mem_cons, exists_eq_or_imp]
    tauto

theorem le_foldl_join_hi_iff (rest : List (Box K)) (acc : Box K) (i : Nat) (x : K) :
    x ≤ (rest.foldl Box.join acc).hi i ↔ x ≤ acc.hi i ∨ ∃ b ∈ rest, x ≤ b.hi i := by
  induction rest generalizing acc with
  | nil => simp
  | cons b rest ih =>
    rw [List.foldl_cons, ih]
    simp only [Box.join, le_maxOf_iff, List.mem_cons, exists_eq_or_imp]
    tauto

/-- The joint lower bound is the least of the operands' lower bounds … -/
theorem boxesJoin_lo_le_iff (first : Box K) (rest : List (Box K)) (i : Nat) (x : K) :
    (boxesJoin first rest).lo i ≤ x ↔ ∃ b ∈ first :: rest, b.lo i ≤ x := by
  unfold boxesJoin
  rw [foldl_join_lo_le_iff]; simp

/-- … and the joint upper bound the greatest of their upper bounds. -/
theorem le_boxesJoin_hi_iff (first : Box K) (rest : List (Box K)) (i : Nat) (x : K) :
    x ≤ (boxesJoin first rest).hi i ↔ ∃ b ∈ first :: rest, x ≤ b.hi i := by
  unfold boxesJoin
  rw [le_foldl_join_hi_iff]; simp

end Order

section Field
variable {K : Type} [Field K] [LinearOrder K] [IsStrictOrderedRing K]

/-- Membership in the bounds of a smooth join, operand by operand. -/
theorem expand_boxesJoin_contains_iff (n : Nat) (r : K) (first : Box K) (rest : List (Box K)) (p : Pt K) :
    ((boxesJoin first rest).expand r).contains n p = true ↔
      ∀ i, i < n → (∃ b ∈ first :: rest, b.lo i ≤ p i + r) ∧ (∃ b ∈ first :: rest, p i - r ≤ b.hi i) := by
  rw [Box.contains_iff]
  refine forall_congr' fun i => forall_congr' fun _ => ?_
  simp only [Box.expand]
  rw [← boxesJoin_lo_le_iff, ← le_boxesJoin_hi_iff]
  constructor <;> rintro ⟨h1, h2⟩ <;> constructor <;> linarith

/-- The bounds of a smooth join do not depend on the order of the operands. -/
theorem expand_boxesJoin_perm (n : Nat) (r : K) {first first' : Box K} {rest rest' : List (Box K)}
    (h : (first :: rest).Perm (first' :: rest')) (p : Pt K) :
    ((boxesJoin first rest).expand r).contains n p = ((boxesJoin first' rest').expand r).contains n p := by
  rw [Bool.eq_iff_iff, expand_boxesJoin_contains_iff, expand_boxesJoin_contains_iff]
  refine forall_congr' fun i => forall_congr' fun _ => ?_
  constructor <;> rintro ⟨⟨b, hb, h1⟩, ⟨c, hc, h2⟩⟩
  · exact ⟨⟨b, h.mem_iff.mp hb, h1⟩, ⟨c, h.mem_iff.mp hc, h2⟩⟩
  · exact ⟨⟨b, h.mem_iff.mpr hb, h1⟩, ⟨c, h.mem_iff.mpr hc, h2⟩⟩

/-- With a non-negative radius they enclose the bounds of every operand. -/
theorem expand_boxesJoin_contains_of_mem (n : Nat) {r : K} (hr : 0 ≤ r) (first : Box K) (rest : List (Box K))
    {b : Box K} (hb : b ∈ first :: rest) {p : Pt K} (h : b.contains n p = true) :
    ((boxesJoin first rest).expand r).contains n p = true := by
  rw [expand_boxesJoin_contains_iff]
  rw [Box.contains_iff] at h
  intro i hi
  exact ⟨⟨b, hb, by linarith [(h i hi).1]⟩, ⟨b, hb, by linarith [(h i hi).2]⟩⟩

/-- The contract of an `SDF` operand used here: positive (= inside) only within its reported bounds. -/
def SdfBounded (n : Nat) (s : Sdf K) : Prop := ∀ p, 0 < s.d p → s.box.contains n p = true

/-- The same for a `NormalSDF` operand. -/
def NSdfBounded (n : Nat) (s : NSdf K) : Prop := ∀ p, 0 < (s.dn p).1 → s.box.contains n p = true

end Field
end M3d.SolidAlg
