import M3d.Model.Spatial
import Mathlib.Data.List.Perm.Basic
import Mathlib.Data.List.Nodup
import Mathlib.Tactic.Linarith
/-!
# Grouping, BVH construction and k-d tree construction only reorder their input

Everything here is about lists of object ids; no arithmetic, no assumption on the comparison
functions used for sorting (the per-axis lists are arbitrary permutations of the ids) nor on the
axis / split-index oracles beyond "in range".
-/
namespace M3d.Spatial
set_option linter.unusedSectionVars false

/-- The per-axis lists are permutations of one duplicate-free list of ids. -/
def SortedInv (sorted : List (List Nat)) (base : List Nat) : Prop :=
  base.Nodup ∧ sorted ≠ [] ∧ ∀ l ∈ sorted, l.Perm base

theorem filter_mem_append (T D : List Nat) (h : (T ++ D).Nodup) :
    (T ++ D).filter (fun id => T.contains id) = T ∧ (T ++ D).filter (fun id => !T.contains id) = D := by
  have hdis : ∀ x ∈ T, x ∉ D := fun x hx hx' => (List.nodup_append.1 h).2.2 x hx x hx' rfl
  constructor
  · rw [List.filter_append]
    have h1 : T.filter (fun id => T.contains id) = T := by
      apply List.filter_eq_self.2; intro a ha; simpa using ha
    have h2 : D.filter (fun id => T.contains id) = [] := by
      apply List.filter_eq_nil_iff.2; intro a ha hc
      exact hdis a (by simpa using hc) ha
    rw [h1, h2, List.append_nil]
  · rw [List.filter_append]
    have h1 : T.filter (fun id => !T.contains id) = [] := by
      apply List.filter_eq_nil_iff.2; intro a ha hc
      simp only [Bool.not_eq_true', List.contains_eq_mem, decide_eq_false_iff_not] at hc
      exact hc ha
    have h2 : D.filter (fun id => !T.contains id) = D := by
      apply List.filter_eq_self.2; intro a ha
      simp only [Bool.not_eq_true', List.contains_eq_mem, decide_eq_false_iff_not]
      exact fun hc => hdis a hc ha
    rw [h1, h2, List.nil_append]

theorem filter_mem_take {ax : List Nat} (h : ax.Nodup) (mid : Nat) :
    ax.filter (fun id => (ax.take mid).contains id) = ax.take mid ∧
    ax.filter (fun id => !(ax.take mid).contains id) = ax.drop mid := by
  have := filter_mem_append (ax.take mid) (ax.drop mid) (by rw [List.take_append_drop]; exact h)
  rw [List.take_append_drop] at this
  exact this

theorem getD_of_ne_nil {sorted : List (List Nat)} {base : List Nat} (h : SortedInv sorted base)
    (axis : Nat) (ha : axis < sorted.length) : (sorted.getD axis []).Perm base := by
  have : sorted.getD axis [] = sorted[axis] := by simp [List.getD, List.getElem?_eq_getElem ha]
  rw [this]; exact h.2.2 _ (List.getElem_mem ha)

/-- **`splitBounders` splits every per-axis list into the same two sets of objects.** -/
theorem splitBounders_inv {sorted : List (List Nat)} {base : List Nat} (h : SortedInv sorted base)
    (axis mid : Nat) (ha : axis < sorted.length) :
    SortedInv (splitBounders sorted axis mid).1 ((sorted.getD axis []).take mid) ∧
    SortedInv (splitBounders sorted axis mid).2 ((sorted.getD axis []).drop mid) ∧
    (splitBounders sorted axis mid).1.length = sorted.length ∧
    (splitBounders sorted axis mid).2.length = sorted.length := by
  obtain ⟨hnd, hne, hperm⟩ := h
  have hax : (sorted.getD axis []).Perm base := getD_of_ne_nil ⟨hnd, hne, hperm⟩ axis ha
  have hndax : (sorted.getD axis []).Nodup := hax.nodup_iff.2 hnd
  obtain ⟨f1, f2⟩ := filter_mem_take hndax mid
  have hlen : 0 < sorted.length := List.length_pos_of_ne_nil hne
  simp only [splitBounders]
  refine ⟨⟨hndax.sublist (List.take_sublist _ _), ?_, ?_⟩, ⟨hndax.sublist (List.drop_sublist _ _), ?_, ?_⟩, ?_, ?_⟩
  · intro hnil
    have := congrArg List.length hnil
    simp only [List.length_map, List.length_zipIdx, List.length_nil] at this; omega
  · intro l hl
    simp only [List.mem_map] at hl
    obtain ⟨pr, ⟨⟨l0, i⟩, hmem, rfl⟩, rfl⟩ := hl
    have hget : sorted[i]? = some l0 := List.mem_zipIdx_iff_getElem?.1 hmem
    by_cases hi : i = axis
    · subst hi
      have : sorted.getD i [] = l0 := by simp [List.getD, hget]
      simp only [if_true, this]
      exact List.Perm.refl _
    · simp only [hi, if_false]
      have hl0 : l0.Perm (sorted.getD axis []) :=
        (hperm l0 (List.mem_of_getElem? hget)).trans hax.symm
      exact (hl0.filter _).trans (by rw [f1])
  · intro hnil
    have := congrArg List.length hnil
    simp only [List.length_map, List.length_zipIdx, List.length_nil] at this; omega
  · intro l hl
    simp only [List.mem_map] at hl
    obtain ⟨pr, ⟨⟨l0, i⟩, hmem, rfl⟩, rfl⟩ := hl
    have hget : sorted[i]? = some l0 := List.mem_zipIdx_iff_getElem?.1 hmem
    by_cases hi : i = axis
    · subst hi
      have : sorted.getD i [] = l0 := by simp [List.getD, hget]
      simp only [if_true, this]
      exact List.Perm.refl _
    · simp only [hi, if_false]
      have hl0 : l0.Perm (sorted.getD axis []) :=
        (hperm l0 (List.mem_of_getElem? hget)).trans hax.symm
      exact (hl0.filter _).trans (by rw [f2])
  · simp
  · simp

/-- The flagged objects occupy exactly the first `mid` positions of every re-partitioned list
(so the Go code's "write flagged at `idx0++`, others at `idx1++` from `mid`" is the stable
partition modelled here). -/
theorem split_filter_length {sorted : List (List Nat)} {base : List Nat} (h : SortedInv sorted base)
    (axis mid : Nat) (ha : axis < sorted.length) (hm : mid ≤ base.length) :
    ∀ l ∈ sorted, (l.filter (fun id => ((sorted.getD axis []).take mid).contains id)).length = mid := by
  intro l hl
  have hax : (sorted.getD axis []).Perm base := getD_of_ne_nil h axis ha
  have hndax : (sorted.getD axis []).Nodup := hax.nodup_iff.2 h.1
  have hl0 : l.Perm (sorted.getD axis []) := (h.2.2 l hl).trans hax.symm
  rw [(hl0.filter _).length_eq, (filter_mem_take hndax mid).1, List.length_take, hax.length_eq]
  omega

/-- **`GroupBounders` only reorders**: for every per-axis order and every axis oracle (in range)
the output is a permutation of the input. -/
theorem groupBounders_perm (bestAxis : List (List Nat) → Nat)
    (hax : ∀ s, s ≠ [] → bestAxis s < s.length) :
    ∀ (fuel : Nat) (sorted : List (List Nat)) (base : List Nat), SortedInv sorted base →
      base.length ≤ fuel → (groupBounders bestAxis fuel sorted).Perm base := by
  intro fuel
  induction fuel with
  | zero =>
      intro sorted base h hl
      have : base = [] := List.length_eq_zero_iff.1 (Nat.le_zero.1 hl)
      subst this; exact List.Perm.refl _
  | succ fuel ih =>
      intro sorted base h hl
      have hlen : 0 < sorted.length := List.length_pos_of_ne_nil h.2.1
      have h0 : (sorted.getD 0 []).Perm base := getD_of_ne_nil h 0 hlen
      have hn : (sorted.getD 0 []).length = base.length := h0.length_eq
      simp only [groupBounders]
      by_cases h2 : (sorted.getD 0 []).length = 2
      · simp only [h2, if_true]; exact h0
      · simp only [h2, if_false]
        by_cases h1 : (sorted.getD 0 []).length = 1
        · simp only [h1, if_true]; exact h0
        · simp only [h1, if_false]
          by_cases hz : (sorted.getD 0 []).length = 0
          · simp only [hz, if_true]
            have : base = [] := List.length_eq_zero_iff.1 (by omega)
            subst this; exact List.Perm.refl _
          · simp only [hz, if_false]
            have haxis := hax sorted h.2.1
            obtain ⟨i1, i2, l1, l2⟩ := splitBounders_inv h (bestAxis sorted) ((sorted.getD 0 []).length / 2) haxis
            have hA : (sorted.getD (bestAxis sorted) []).Perm base := getD_of_ne_nil h _ haxis
            have p1 := ih _ _ i1 (by rw [List.length_take, hA.length_eq]; omega)
            have p2 := ih _ _ i2 (by rw [List.length_drop, hA.length_eq]; omega)
            have := p1.append p2
            rw [List.take_append_drop] at this
            exact this.trans hA

/-- **`newBVH` only reorders**: for every axis / split-index oracle in range the tree exists and
its leaves are a permutation of the input. -/
theorem newBVH_perm (split : List (List Nat) → Nat × Nat)
    (hsp : ∀ s, s ≠ [] → (split s).1 < s.length ∧ 0 < (split s).2 ∧ (split s).2 < (s.getD 0 []).length) :
    ∀ (fuel : Nat) (sorted : List (List Nat)) (base : List Nat), SortedInv sorted base →
      0 < base.length → base.length ≤ fuel →
      ∃ t, newBVH split fuel sorted = some t ∧ t.leaves.Perm base := by
  intro fuel
  induction fuel with
  | zero => intro sorted base h hp hl; omega
  | succ fuel ih =>
      intro sorted base h hp hl
      have hlen : 0 < sorted.length := List.length_pos_of_ne_nil h.2.1
      have h0 : (sorted.getD 0 []).Perm base := getD_of_ne_nil h 0 hlen
      have hn : (sorted.getD 0 []).length = base.length := h0.length_eq
      simp only [newBVH]
      have hz : ¬ (sorted.getD 0 []).length = 0 := by omega
      simp only [hz, if_false]
      by_cases h1 : (sorted.getD 0 []).length = 1
      · simp only [h1, if_true]
        refine ⟨_, rfl, ?_⟩
        match hs : sorted.getD 0 [], h1 with
        | [a], _ => simp only [Shape.leaves, List.getD_cons_zero]; rw [hs] at h0; exact h0
      · simp only [h1, if_false]
        by_cases h2 : (sorted.getD 0 []).length = 2
        · simp only [h2, if_true]
          refine ⟨_, rfl, ?_⟩
          match hs : sorted.getD 0 [], h2 with
          | [a, b], _ =>
              simp only [Shape.leaves, List.getD_cons_zero, List.getD_cons_succ, List.cons_append, List.nil_append]
              rw [hs] at h0; exact h0
        · simp only [h2, if_false]
          obtain ⟨ha, hi0, hi1⟩ := hsp sorted h.2.1
          obtain ⟨i1, i2, l1, l2⟩ := splitBounders_inv h (split sorted).1 (split sorted).2 ha
          have hA : (sorted.getD (split sorted).1 []).Perm base := getD_of_ne_nil h _ ha
          obtain ⟨t1, e1, p1⟩ := ih _ _ i1 (by rw [List.length_take, hA.length_eq]; omega)
            (by rw [List.length_take, hA.length_eq]; omega)
          obtain ⟨t2, e2, p2⟩ := ih _ _ i2 (by rw [List.length_drop, hA.length_eq]; omega)
            (by rw [List.length_drop, hA.length_eq]; omega)
          rw [e1, e2]
          refine ⟨_, rfl, ?_⟩
          have := p1.append p2
          rw [List.take_append_drop] at this
          exact this.trans hA

/-- `newBVH_perm` with the hypothesis on the oracle restricted to the calls `newBVH` actually makes: `d` per-axis
lists (`d` = 2 or 3) of at least three objects that are permutations of each other. -/
theorem newBVH_perm_of (d : Nat) (split : List (List Nat) → Nat × Nat)
    (hsp : ∀ s b, SortedInv s b → s.length = d → 3 ≤ (s.getD 0 []).length →
      (split s).1 < s.length ∧ 0 < (split s).2 ∧ (split s).2 < (s.getD 0 []).length) :
    ∀ (fuel : Nat) (sorted : List (List Nat)) (base : List Nat), SortedInv sorted base →
      sorted.length = d → 0 < base.length → base.length ≤ fuel →
      ∃ t, newBVH split fuel sorted = some t ∧ t.leaves.Perm base := by
  intro fuel
  induction fuel with
  | zero => intro sorted base h hd hp hl; omega
  | succ fuel ih =>
      intro sorted base h hd hp hl
      have hlen : 0 < sorted.length := List.length_pos_of_ne_nil h.2.1
      have h0 : (sorted.getD 0 []).Perm base := getD_of_ne_nil h 0 hlen
      have hn : (sorted.getD 0 []).length = base.length := h0.length_eq
      simp only [newBVH]
      have hz : ¬ (sorted.getD 0 []).length = 0 := by omega
      simp only [hz, if_false]
      by_cases h1 : (sorted.getD 0 []).length = 1
      · simp only [h1, if_true]
        refine ⟨_, rfl, ?_⟩
        match hs : sorted.getD 0 [], h1 with
        | [a], _ => simp only [Shape.leaves, List.getD_cons_zero]; rw [hs] at h0; exact h0
      · simp only [h1, if_false]
        by_cases h2 : (sorted.getD 0 []).length = 2
        · simp only [h2, if_true]
          refine ⟨_, rfl, ?_⟩
          match hs : sorted.getD 0 [], h2 with
          | [a, b], _ =>
              simp only [Shape.leaves, List.getD_cons_zero, List.getD_cons_succ, List.cons_append, List.nil_append]
              rw [hs] at h0; exact h0
        · simp only [h2, if_false]
          obtain ⟨ha, hi0, hi1⟩ := hsp sorted base h hd (by omega)
          obtain ⟨i1, i2, l1, l2⟩ := splitBounders_inv h (split sorted).1 (split sorted).2 ha
          have hA : (sorted.getD (split sorted).1 []).Perm base := getD_of_ne_nil h _ ha
          obtain ⟨t1, e1, p1⟩ := ih _ _ i1 (by rw [l1, hd]) (by rw [List.length_take, hA.length_eq]; omega)
            (by rw [List.length_take, hA.length_eq]; omega)
          obtain ⟨t2, e2, p2⟩ := ih _ _ i2 (by rw [l2, hd]) (by rw [List.length_drop, hA.length_eq]; omega)
            (by rw [List.length_drop, hA.length_eq]; omega)
          rw [e1, e2]
          refine ⟨_, rfl, ?_⟩
          have := p1.append p2
          rw [List.take_append_drop] at this
          exact this.trans hA

/-! ### The real split oracle is in range -/
section Oracle
variable {α β : Type} [Add α] [Mul α] [LT α] [DecidableLT α] [OfNat α 0]

/-- The selection loop of `areaDensityBVHSplit` keeps a best index in `[2, m)` once it has one. -/
theorem splitLoop_range (g : Nat → α) (m : Nat) :
    ∀ (l : List Nat) (acc : Nat × α), (∀ i ∈ l, 1 ≤ i ∧ i + 1 < m) → (2 ≤ acc.1 ∧ acc.1 < m) →
      2 ≤ (l.foldl (fun (acc : Nat × α) i => if g i < acc.2 ∨ i = 1 then (i + 1, g i) else acc) acc).1 ∧
        (l.foldl (fun (acc : Nat × α) i => if g i < acc.2 ∨ i = 1 then (i + 1, g i) else acc) acc).1 < m := by
  intro l
  induction l with
  | nil => intro acc _ h; exact h
  | cons i l ih =>
      intro acc hl hacc
      simp only [List.foldl_cons]
      apply ih
      · intro j hj; exact hl j (List.mem_cons_of_mem _ hj)
      · have hi := hl i List.mem_cons_self
        split
        · exact ⟨by simp only; omega, hi.2⟩
        · exact hacc

/-- **`areaDensityBVHSplit` returns an index strictly inside the slice**: with at least three faces, `0 < index <
len(faces)` (in fact `2 ≤ index`), whatever the areas and scores are — both halves of the split are non-empty. -/
theorem areaDensitySplit_range (union : β → β → β) (area : β → α) (cnt : Nat → α) (boxes : List β)
    (h : 3 ≤ boxes.length) :
    2 ≤ (areaDensitySplit union area cnt boxes).1 ∧ (areaDensitySplit union area cnt boxes).1 < boxes.length := by
  match boxes, h with
  | b0 :: bs, h =>
      simp only [areaDensitySplit]
      have hm : (b0 :: bs).length - 2 = ((b0 :: bs).length - 3) + 1 := by omega
      rw [hm, List.range'_succ, List.foldl_cons]
      apply splitLoop_range
        (fun i => area ((prefixUnions union (b0 :: bs)).getD i b0) * cnt i +
          area ((suffixUnions union (b0 :: bs)).getD (i + 1) b0) * cnt ((b0 :: bs).length - i - 1))
        (b0 :: bs).length
      · intro i hi
        rw [List.mem_range'_1] at hi
        omega
      · simp only [or_true, if_true]
        omega

/-- **The split `newBVH` performs with `areaDensityBVHSplit` is in range** on two or three per-axis lists of at
least three objects each: a valid axis and a split index that leaves both sides non-empty. -/
theorem bvhSplit_range (union : β → β → β) (area : β → α) (cnt : Nat → α) (boxOf : Nat → β)
    (s : List (List Nat)) (hd : s.length = 2 ∨ s.length = 3) (hl : ∀ l ∈ s, l.length = (s.getD 0 []).length)
    (h3 : 3 ≤ (s.getD 0 []).length) :
    (bvhSplit union area cnt boxOf s).1 < s.length ∧ 0 < (bvhSplit union area cnt boxOf s).2 ∧
      (bvhSplit union area cnt boxOf s).2 < (s.getD 0 []).length := by
  have key : ∀ l ∈ s, 2 ≤ (areaDensitySplit union area cnt (l.map boxOf)).1 ∧
      (areaDensitySplit union area cnt (l.map boxOf)).1 < (s.getD 0 []).length := by
    intro l hl'
    have := areaDensitySplit_range union area cnt (l.map boxOf) (by rw [List.length_map, hl l hl']; exact h3)
    rw [List.length_map, hl l hl'] at this
    exact this
  rcases hd with hd | hd
  · match s, hd with
    | [x, y], _ =>
        have kx := key x (by simp)
        have ky := key y (by simp)
        simp only [bvhSplit, List.map_cons, List.map_nil, List.length_cons, List.length_nil]
        split <;> simp only <;> omega
  · match s, hd with
    | [x, y, z], _ =>
        have kx := key x (by simp)
        have ky := key y (by simp)
        have kz := key z (by simp)
        simp only [bvhSplit, List.map_cons, List.map_nil, List.length_cons, List.length_nil]
        split
        · simp only; omega
        · split <;> simp only <;> omega

end Oracle

/-! ### k-d tree construction -/

variable {α : Type} [LT α] [DecidableLT α]

theorem three_way_perm (base : List Nat) (hnd : base.Nodup) (split : Nat) (hs : split ∈ base)
    (lt : Nat → Bool) :
    (base.filter (fun c => c != split && lt c) ++ split :: base.filter (fun c => c != split && !lt c)).Perm base := by
  have h1 : (base.filter (fun c => c != split)).filter lt = base.filter (fun c => c != split && lt c) := by
    rw [List.filter_filter]; congr 1; funext c; exact Bool.and_comm _ _
  have h2 : (base.filter (fun c => c != split)).filter (fun c => !lt c) = base.filter (fun c => c != split && !lt c) := by
    rw [List.filter_filter]; congr 1; funext c; exact Bool.and_comm _ _
  have hp : (base.filter (fun c => c != split && lt c) ++ base.filter (fun c => c != split && !lt c)).Perm
      (base.filter (fun c => c != split)) := by
    rw [← h1, ← h2]; exact List.filter_append_perm _ _
  have heq : base.filter (fun c => !(c != split)) = [split] := by
    have : (fun c => !(c != split)) = (fun c => c == split) := by
      funext c; cases hcs : (c == split) <;> simp [bne, hcs]
    rw [this]
    have hc : base.count split = 1 := List.count_eq_one_of_mem hnd hs
    have : base.filter (fun c => c == split) = List.replicate (base.count split) split := by
      rw [List.filter_beq]
    rw [this, hc]; rfl
  have hq : (base.filter (fun c => c != split) ++ base.filter (fun c => !(c != split))).Perm base :=
    List.filter_append_perm _ _
  rw [heq] at hq
  exact (List.perm_middle.trans ((hp.cons split).trans (List.perm_append_singleton _ _).symm)).trans hq

/-- **`newCoordTreeSorted` stores every point exactly once and establishes the ordering
invariant** (`<` split value on the left, `≥` on the right, duplicates included), for every
per-axis order of the points. -/
theorem kdBuild_spec (dim : Nat) (cv : Nat → Nat → α) :
    ∀ (fuel : Nat) (coords : List (List Nat)) (base : List Nat) (axis : Nat), SortedInv coords base →
      coords.length = dim → axis < dim → base.length ≤ fuel →
      (kdBuild dim cv fuel coords axis).slice.Perm base ∧ KD.Inv cv (kdBuild dim cv fuel coords axis) := by
  intro fuel
  induction fuel with
  | zero =>
      intro coords base axis h hd ha hl
      have : base = [] := List.length_eq_zero_iff.1 (Nat.le_zero.1 hl)
      subst this; exact ⟨List.Perm.refl _, trivial⟩
  | succ fuel ih =>
      intro coords base axis h hd ha hl
      have hlen : 0 < coords.length := List.length_pos_of_ne_nil h.2.1
      have h0 : (coords.getD 0 []).Perm base := getD_of_ne_nil h 0 hlen
      simp only [kdBuild]
      by_cases hz : (coords.getD 0 []).length = 0
      · simp only [hz, if_true]
        have : base = [] := List.length_eq_zero_iff.1 (by rw [← h0.length_eq]; exact hz)
        subst this; exact ⟨List.Perm.refl _, trivial⟩
      · simp only [hz, if_false]
        by_cases h1 : (coords.getD 0 []).length = 1
        · simp only [h1, if_true]
          match hs : coords.getD 0 [], h1 with
          | [a], _ =>
              rw [hs] at h0
              simp only [KD.slice, List.nil_append, List.getD_cons_zero]
              exact ⟨h0, by simp [KD.Inv, KD.slice]⟩
        · simp only [h1, if_false]
          have hax : axis < coords.length := by omega
          have hA : (coords.getD axis []).Perm base := getD_of_ne_nil h axis hax
          have hAl : (coords.getD axis []).length = base.length := hA.length_eq
          have hbl : 2 ≤ base.length := by rw [← h0.length_eq]; omega
          -- the split point is a member
          have hidx : (coords.getD axis []).length / 2 < (coords.getD axis []).length := by omega
          have hsm : (coords.getD axis []).getD ((coords.getD axis []).length / 2) 0 ∈ base := by
            have : (coords.getD axis []).getD ((coords.getD axis []).length / 2) 0 =
                (coords.getD axis [])[(coords.getD axis []).length / 2] := by
              rw [List.getD_eq_getElem?_getD, List.getElem?_eq_getElem hidx]; rfl
            rw [this]
            exact (hA.mem_iff).1 (List.getElem_mem hidx)
          generalize (coords.getD axis []).getD ((coords.getD axis []).length / 2) 0 = split at hsm ⊢
          have hnext : (axis + 1) % dim < dim := Nat.mod_lt _ (by omega)
          have three := three_way_perm base h.1 split hsm (fun c => decide (cv c axis < cv split axis))
          -- invariants of the two recursive inputs
          have invL : SortedInv (coords.map (fun l => l.filter (fun c => c != split && decide (cv c axis < cv split axis))))
              (base.filter (fun c => c != split && decide (cv c axis < cv split axis))) := by
            refine ⟨h.1.filter _, ?_, ?_⟩
            · intro hn; exact h.2.1 (List.map_eq_nil_iff.1 hn)
            · intro l hl'
              obtain ⟨l0, hl0, rfl⟩ := List.mem_map.1 hl'
              exact (h.2.2 l0 hl0).filter _
          have invR : SortedInv (coords.map (fun l => l.filter (fun c => c != split && !decide (cv c axis < cv split axis))))
              (base.filter (fun c => c != split && !decide (cv c axis < cv split axis))) := by
            refine ⟨h.1.filter _, ?_, ?_⟩
            · intro hn; exact h.2.1 (List.map_eq_nil_iff.1 hn)
            · intro l hl'
              obtain ⟨l0, hl0, rfl⟩ := List.mem_map.1 hl'
              exact (h.2.2 l0 hl0).filter _
          have hlenLR : (base.filter (fun c => c != split && decide (cv c axis < cv split axis))).length +
              (base.filter (fun c => c != split && !decide (cv c axis < cv split axis))).length + 1 = base.length := by
            have := three.length_eq
            simp only [List.length_append, List.length_cons] at this
            omega
          obtain ⟨pL, iL⟩ := ih _ _ ((axis + 1) % dim) invL (by simp [hd]) hnext (by omega)
          obtain ⟨pR, iR⟩ := ih _ _ ((axis + 1) % dim) invR (by simp [hd]) hnext (by omega)
          refine ⟨?_, ?_, ?_, iL, iR⟩
          · simp only [KD.slice]
            exact ((pL.append (pR.cons split))).trans three
          · intro q hq
            have := (pL.mem_iff).1 hq
            simp only [List.mem_filter, Bool.and_eq_true, decide_eq_true_eq] at this
            exact this.2.2
          · intro q hq
            have := (pR.mem_iff).1 hq
            simp only [List.mem_filter, Bool.and_eq_true, Bool.not_eq_true', decide_eq_false_iff_not] at this
            exact this.2.2

end M3d.Spatial
