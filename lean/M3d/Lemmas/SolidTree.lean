import Mathlib.Order.Basic
import Mathlib.Order.Lattice
import Mathlib.Tactic.SplitIfs
import M3d.Model.SolidAlg
/-!
Helper lemmas for C04: bounding boxes, `CacheSolidBounds`, and the recursive halving of
`JoinedSolid.Optimize` / `SolidMux`.
-/
namespace M3d.SolidAlg
set_option linter.unusedSectionVars false
set_option linter.unusedVariables false
variable {K : Type} [LinearOrder K]

theorem Box.contains_iff (n : Nat) (b : Box K) (p : Pt K) :
    b.contains n p = true ↔ ∀ i, i < n → b.lo i ≤ p i ∧ p i ≤ b.hi i := by
  simp [Box.contains, List.all_eq_true]

theorem minOf_le_left (a b : K) : minOf a b ≤ a := by unfold minOf; split_ifs with h; exact le_refl _; exact le_of_not_ge h
theorem minOf_le_right (a b : K) : minOf a b ≤ b := by unfold minOf; split_ifs with h; exact h; exact le_refl _
theorem le_maxOf_left (a b : K) : a ≤ maxOf a b := by unfold maxOf; split_ifs with h; exact h; exact le_refl _
theorem le_maxOf_right (a b : K) : b ≤ maxOf a b := by unfold maxOf; split_ifs with h; exact le_refl _; exact le_of_not_ge h

theorem Box.contains_join_left {n : Nat} {a : Box K} (b : Box K) {p : Pt K} (h : a.contains n p = true) :
    (a.join b).contains n p = true := by
  rw [Box.contains_iff] at h ⊢
  intro i hi
  exact ⟨le_trans (minOf_le_left _ _) (h i hi).1, le_trans (h i hi).2 (le_maxOf_left _ _)⟩

theorem Box.contains_join_right {n : Nat} (a : Box K) {b : Box K} {p : Pt K} (h : b.contains n p = true) :
    (a.join b).contains n p = true := by
  rw [Box.contains_iff] at h ⊢
  intro i hi
  exact ⟨le_trans (minOf_le_right _ _) (h i hi).1, le_trans (h i hi).2 (le_maxOf_right _ _)⟩

/-- The contract of the `Solid` interface (property C03): nothing outside the reported bounds. -/
def Bounded (n : Nat) (s : Solid K) : Prop := ∀ p, s.f p = true → s.box.contains n p = true

theorem foldl_join_mono {n : Nat} (rest : List (Solid K)) (acc : Box K) {p : Pt K}
    (h : acc.contains n p = true) : (rest.foldl (fun b s => b.join s.box) acc).contains n p = true := by
  induction rest generalizing acc with
  | nil => exact h
  | cons s rest ih => exact ih _ (Box.contains_join_left _ h)

theorem foldl_join_mem {n : Nat} (rest : List (Solid K)) (acc : Box K) {x : Solid K} (hx : x ∈ rest)
    {p : Pt K} (h : x.box.contains n p = true) :
    (rest.foldl (fun b s => b.join s.box) acc).contains n p = true := by
  induction rest generalizing acc with
  | nil => cases hx
  | cons s rest ih =>
    simp only [List.foldl_cons]
    rcases List.mem_cons.mp hx with rfl | hx
    · exact foldl_join_mono rest _ (Box.contains_join_right _ h)
    · exact ih _ hx

/-- `JoinedSolid.Min/Max` enclose the bounds of every operand. -/
theorem joinedBox_contains {n : Nat} (first : Solid K) (rest : List (Solid K)) {x : Solid K}
    (hx : x ∈ first :: rest) {p : Pt K} (h : x.box.contains n p = true) :
    (joinedBox first rest).contains n p = true := by
  unfold joinedBox
  rcases List.mem_cons.mp hx with rfl | hx
  · exact foldl_join_mono rest _ h
  · exact foldl_join_mem rest _ hx h

theorem cacheBounds_f {n : Nat} {s : Solid K} (hs : Bounded n s) (p : Pt K) :
    (cacheBounds n s).f p = s.f p := by
  simp only [cacheBounds]
  cases h : s.f p
  · simp
  · simp [hs p h]

theorem cacheBounds_bounded (n : Nat) (s : Solid K) : Bounded n (cacheBounds n s) := by
  intro p h
  simp only [cacheBounds, Bool.and_eq_true] at h ⊢
  exact h.1

theorem join2_f (a b : Solid K) (p : Pt K) : (join2 a b).f p = (a.f p || b.f p) := by
  simp only [join2, joined]
  cases a.f p <;> cases b.f p <;> rfl

theorem join2_bounded {n : Nat} {a b : Solid K} (ha : Bounded n a) (hb : Bounded n b) :
    Bounded n (join2 a b) := by
  intro p h
  rw [join2_f, Bool.or_eq_true] at h
  rcases h with h | h
  · exact joinedBox_contains a [b] (by simp) (ha p h)
  · exact joinedBox_contains a [b] (by simp) (hb p h)

/-- `groupedSolidsToSolid` on a non-empty slice of bounded solids terminates and is their union. -/
theorem grouped_spec (n : Nat) : ∀ (fuel : Nat) (s : List (Solid K)), 0 < s.length → s.length ≤ fuel →
    (∀ x ∈ s, Bounded n x) →
    ∃ t, grouped n fuel s = some t ∧ Bounded n t ∧ ∀ p, t.f p = s.any (fun x => x.f p) := by
  intro fuel
  induction fuel with
  | zero => intro s h0 h1; omega
  | succ fuel ih =>
    intro s h0 h1 hb
    match s, h0, h1, hb with
    | [a], _, _, hb =>
      refine ⟨cacheBounds n a, rfl, cacheBounds_bounded n a, fun p => ?_⟩
      rw [cacheBounds_f (hb a (by simp))]; simp
    | a :: b :: rest, _, h1, hb =>
      have hlen : (a :: b :: rest).length = rest.length + 2 := by simp
      have hk1 : 1 ≤ (a :: b :: rest).length / 2 := by rw [hlen]; omega
      have hk2 : (a :: b :: rest).length / 2 < (a :: b :: rest).length := by rw [hlen]; omega
      obtain ⟨l, hl, hlb, hlf⟩ := ih ((a :: b :: rest).take ((a :: b :: rest).length / 2))
        (by rw [List.length_take]; omega) (by rw [List.length_take]; omega)
        (fun x hx => hb x (List.mem_of_mem_take hx))
      obtain ⟨r, hr, hrb, hrf⟩ := ih ((a :: b :: rest).drop ((a :: b :: rest).length / 2))
        (by rw [List.length_drop]; omega) (by rw [List.length_drop]; omega)
        (fun x hx => hb x (List.mem_of_mem_drop hx))
      refine ⟨cacheBounds n (join2 l r), ?_, cacheBounds_bounded n _, fun p => ?_⟩
      · simp only [grouped, hl, hr]
      · rw [cacheBounds_f (join2_bounded hlb hrb), join2_f, hlf, hrf, ← List.any_append,
          List.take_append_drop]

/-! ### SolidMux -/

theorem Mux.contains_node (n : Nat) (box : Box K) (t : Nat) (l r : Mux K) (p : Pt K) :
    (Mux.node box t l r).contains n p = (box.contains n p && (l.contains n p || r.contains n p)) := by
  simp only [Mux.contains]
  cases l.contains n p <;> simp

/-- `groupedSolidsToSolidMux` on a non-empty slice of bounded solids: membership, the callback
sequence (left to right over the slice) and the size. -/
theorem groupedMux_spec (n : Nat) : ∀ (fuel : Nat) (s : List (Nat × Solid K)), 0 < s.length → s.length ≤ fuel →
    (∀ x ∈ s, Bounded n x.2) →
    ∃ m, groupedMux fuel s = some m ∧ m.total = s.length ∧
      ∀ p, (m.contains n p = s.any (fun x => x.2.f p)) ∧
        (m.iter n p = (s.filter (fun x => x.2.f p)).map (·.1)) := by
  intro fuel
  induction fuel with
  | zero => intro s h0 h1; omega
  | succ fuel ih =>
    intro s h0 h1 hb
    match s, h0, h1, hb with
    | [(i, a)], _, _, hb =>
      refine ⟨.leaf a.box a i, rfl, rfl, fun p => ?_⟩
      have hba : Bounded n a := hb (i, a) (by simp)
      cases h : a.f p
      · simp [Mux.contains, Mux.iter, h]
      · simp [Mux.contains, Mux.iter, h, hba p h]
    | a :: b :: rest, _, h1, hb =>
      have hlen : (a :: b :: rest).length = rest.length + 2 := by simp
      obtain ⟨l, hl, hlt, hlf⟩ := ih ((a :: b :: rest).take ((a :: b :: rest).length / 2))
        (by rw [List.length_take]; omega) (by rw [List.length_take]; omega)
        (fun x hx => hb x (List.mem_of_mem_take hx))
      obtain ⟨r, hr, hrt, hrf⟩ := ih ((a :: b :: rest).drop ((a :: b :: rest).length / 2))
        (by rw [List.length_drop]; omega) (by rw [List.length_drop]; omega)
        (fun x hx => hb x (List.mem_of_mem_drop hx))
      refine ⟨.node (joinedBox a.2 ((b :: rest).map (·.2))) (a :: b :: rest).length l r, ?_, rfl, fun p => ?_⟩
      · simp only [groupedMux, hl, hr]
      · have hsplit := List.take_append_drop ((a :: b :: rest).length / 2) (a :: b :: rest)
        -- if some operand contains p then the node's box does
        have hbox : ∀ x ∈ a :: b :: rest, x.2.f p = true →
            (joinedBox a.2 ((b :: rest).map (·.2))).contains n p = true := by
          intro x hx hf
          refine joinedBox_contains a.2 _ (x := x.2) ?_ (hb x hx p hf)
          rcases List.mem_cons.mp hx with rfl | hx
          · simp
          · exact List.mem_cons_of_mem _ (List.mem_map_of_mem hx)
        constructor
        · rw [Mux.contains_node, (hlf p).1, (hrf p).1, ← List.any_append, hsplit]
          cases hany : (a :: b :: rest).any (fun x => x.2.f p)
          · simp
          · obtain ⟨x, hx, hf⟩ := List.any_eq_true.mp hany
            rw [hbox x hx hf]; rfl
        · simp only [Mux.iter]
          rw [(hlf p).2, (hrf p).2, ← List.map_append, ← List.filter_append, hsplit]
          cases hc : (joinedBox a.2 ((b :: rest).map (·.2))).contains n p
          · have : (a :: b :: rest).filter (fun x => x.2.f p) = [] := by
              rw [List.filter_eq_nil_iff]
              intro x hx hf
              rw [hbox x hx hf] at hc
              exact Bool.noConfusion hc
            simp [this]
          · simp

end M3d.SolidAlg

/-! ### `AllContains`: the bitmap filled by the callbacks -/
namespace M3d.SolidAlg

theorem getElem?_setFold (idxs : List Nat) : ∀ (res : List Bool) (i : Nat),
    (idxs.foldl (fun r j => r.set j true) res)[i]?
      = if i ∈ idxs then res[i]?.map (fun _ => true) else res[i]? := by
  induction idxs with
  | nil => intro res i; simp
  | cons j js ih =>
    intro res i
    simp only [List.foldl_cons, ih, List.getElem?_set, List.mem_cons]
    by_cases hij : j = i
    · subst hij
      by_cases hl : j < res.length
      · simp [hl, List.getElem?_eq_getElem hl]
      · have : res[j]? = none := List.getElem?_eq_none (by omega)
        simp [hl, this]
    · have hij' : ¬ i = j := fun e => hij e.symm
      simp [hij, hij']

theorem mem_zip_range' {α : Type} : ∀ (l : List α) (k i : Nat) (s : α),
    (i, s) ∈ (List.range' k l.length).zip l ↔ (k ≤ i ∧ l[i - k]? = some s) := by
  intro l
  induction l with
  | nil => intro k i s; simp
  | cons a l ih =>
    intro k i s
    simp only [List.length_cons, List.range'_succ, List.zip_cons_cons, List.mem_cons, Prod.mk.injEq, ih]
    constructor
    · rintro (⟨rfl, rfl⟩ | ⟨h1, h2⟩)
      · simp
      · refine ⟨by omega, ?_⟩
        have : i - k = (i - (k + 1)) + 1 := by omega
        rw [this, List.getElem?_cons_succ]; exact h2
    · rintro ⟨h1, h2⟩
      by_cases e : i = k
      · subst e
        simp only [Nat.sub_self, List.getElem?_cons_zero, Option.some.injEq] at h2
        exact Or.inl ⟨rfl, h2.symm⟩
      · right
        refine ⟨by omega, ?_⟩
        have : i - k = (i - (k + 1)) + 1 := by omega
        rw [this, List.getElem?_cons_succ] at h2; exact h2

theorem mem_zip_range {α : Type} (l : List α) (i : Nat) (s : α) :
    (i, s) ∈ (List.range l.length).zip l ↔ l[i]? = some s := by
  rw [List.range_eq_range', mem_zip_range']; simp

end M3d.SolidAlg
