import Mathlib.Algebra.Order.Field.Basic
import Mathlib.Tactic.Linarith
import Mathlib.Tactic.SplitIfs
import M3d.Lemmas.SmoothNaN
/-!
# Transfer between an ordered field `K` and `NF K` (`K` with a NaN) for the smooth-join loop (C04)

Real distances embedded into `NF K` are compared exactly as in `K`, so the `closestDists` bookkeeping and the
final test of `SmoothJoinV2`, run in `NF K` on real distances, are the ones run in `K` — whatever the normals
are (NaN included), as long as the fillet radius comes out as a number.
-/
namespace M3d.SolidAlg

namespace NF
section
variable {K : Type} [LinearOrder K]

theorem of_le_of (a b : K) : (of a ≤ of b) ↔ a ≤ b := by
  show leB (of a) (of b) = true ↔ a ≤ b
  simp [leB, of]

theorem of_lt_of (a b : K) : (of a < of b) ↔ a < b := by
  show ltB (of a) (of b) = true ↔ a < b
  simp [ltB, of]

end
end NF

section Transfer
variable {K : Type} [LinearOrder K]

theorem leE_map_of (x y : Option K) :
    leE (x.map NF.of) (y.map NF.of) = leE x y := by
  cases x <;> cases y <;> simp [leE, NF.of_le_of]

theorem step_map_of (i : Nat) (st : Option K × Option K) (e : Option K) :
    step (E := Option (NF K)) id i (Prod.map (Option.map NF.of) (Option.map NF.of) st) (e.map NF.of)
      = Prod.map (Option.map NF.of) (Option.map NF.of) (step (E := Option K) id i st e) := by
  obtain ⟨a, b⟩ := st
  simp only [step, ins, id, Prod.map]
  split_ifs <;> first | rfl | (simp_all [leE_map_of])

theorem stepFold_map_of (i : Nat) (st : Option K × Option K) (l : List (Option K)) :
    stepFold (E := Option (NF K)) id i (Prod.map (Option.map NF.of) (Option.map NF.of) st)
        (l.map (Option.map NF.of))
      = Prod.map (Option.map NF.of) (Option.map NF.of) (stepFold (E := Option K) id i st l) := by
  induction l generalizing i st with
  | nil => rfl
  | cons e es ih =>
    simp only [List.map_cons, stepFold]
    rw [step_map_of, ih]

end Transfer

section Field
variable {K : Type} [Field K] [LinearOrder K] [IsStrictOrderedRing K]

theorem clampAdd_of (x : Option K) (ρ : K) :
    clampAdd (x.map NF.of) (NF.of ρ) = NF.of (clampAdd x ρ) := by
  cases x with
  | none => rfl
  | some d =>
    simp only [Option.map_some, clampAdd]
    have hadd : (NF.of d + NF.of ρ : NF K) = NF.of (d + ρ) := rfl
    have h0 : (0 : NF K) = NF.of 0 := rfl
    rw [hadd, h0]
    by_cases h : 0 < d + ρ
    · rw [if_pos ((NF.of_lt_of _ _).mpr h), if_pos h]
    · rw [if_neg (fun h' => h ((NF.of_lt_of _ _).mp h')), if_neg h]

theorem smoothTest_of (x y : Option K) (ρ : K) :
    smoothTest (x.map NF.of) (y.map NF.of) (NF.of ρ) = smoothTest x y ρ := by
  simp only [smoothTest, clampAdd_of]
  have h1 : (NF.of ρ * NF.of ρ : NF K) = NF.of (ρ * ρ) := rfl
  have h2 : (NF.of (clampAdd x ρ) * NF.of (clampAdd x ρ) + NF.of (clampAdd y ρ) * NF.of (clampAdd y ρ) : NF K)
      = NF.of (clampAdd x ρ * clampAdd x ρ + clampAdd y ρ * clampAdd y ρ) := rfl
  rw [h1, h2]
  exact decide_eq_decide.mpr (NF.of_lt_of _ _)

/-- If the fillet radius computed in `NF K` is a number, it is at most `radius` (the square root of a number
`≤ 1` is `≤ 1`), whatever the normals are. -/
theorem radius_of_le (n : Nat) (f : K → K) (R : K) (hR : 0 ≤ R) (hs0 : ∀ x, 0 ≤ f x)
    (hs1 : ∀ x, x ≤ 1 → f x ≤ 1) (c0 c1 : DN (NF K)) (ρ : K)
    (h : smoothV2Radius n (NF.sqrtWith f) NF.abs (NF.of R) c0 c1 = NF.of ρ) : ρ ≤ R := by
  simp only [smoothV2Radius] at h
  generalize NF.abs (dotN n c0.2 c1.2) = cos at h
  obtain ⟨v⟩ := cos
  cases v with
  | none =>
    exfalso
    have h1 : ((1 : NF K) - (⟨none⟩ : NF K) * ⟨none⟩) = NF.nan := rfl
    rw [h1] at h
    have h2 : NF.sqrtWith f (NF.nan : NF K) = NF.nan := rfl
    rw [h2, NF.mul_nan] at h
    simp [NF.nan, NF.of] at h
  | some γ =>
    have h1 : ((1 : NF K) - (⟨some γ⟩ : NF K) * ⟨some γ⟩) = NF.of (1 - γ * γ) := rfl
    rw [h1] at h
    by_cases hneg : 1 - γ * γ < 0
    · exfalso
      have h2 : NF.sqrtWith f (NF.of (1 - γ * γ)) = NF.nan := by simp [NF.sqrtWith, NF.of, hneg]
      rw [h2, NF.mul_nan] at h
      simp [NF.nan, NF.of] at h
    · have h2 : NF.sqrtWith f (NF.of (1 - γ * γ)) = NF.of (f (1 - γ * γ)) := by
        simp [NF.sqrtWith, NF.of, hneg]
      rw [h2] at h
      have h3 : (NF.of R * NF.of (f (1 - γ * γ)) : NF K) = NF.of (R * f (1 - γ * γ)) := rfl
      rw [h3] at h
      have hρ : R * f (1 - γ * γ) = ρ := by
        have := congrArg NF.v h
        simpa [NF.of] using this
      have hle : f (1 - γ * γ) ≤ 1 := hs1 _ (by nlinarith [mul_self_nonneg γ])
      rw [← hρ]
      nlinarith [hs0 (1 - γ * γ)]

end Field
end M3d.SolidAlg
