import M3d.Model.Bisect
import Mathlib.Data.Rat.Floor
import Mathlib.Tactic.Linarith
import Mathlib.Tactic.Ring
import Mathlib.Tactic.FieldSimp
import Mathlib.Tactic.NormNum
import Mathlib.Tactic.Push
/-!
# `squareSpacer.LookupEdgePoint` and the window of `msSearch` recover the lattice edge of a midpoint (C02)

An unrefined marching-cubes / marching-squares vertex is the midpoint of a lattice edge: along the
edge's axis `k` its coordinate is `origin + (n + 1/2)·δ`, on the other axes a lattice value
`origin + n·δ`.  `lookupEdgePoint` (the model of `LookupEdgePoint`: `math.Mod`, the window
`(δ/4, 3δ/4)`, `int(x/δ)`) returns exactly `(k, origin_k + n·δ, origin_k + (n+1)·δ)`; `msLookup`
(the window inside `msSearch`, relative to the solid's `Min()`, where differences may be negative and
`math.Mod` keeps the sign of the dividend) returns `(k, c_k − δ/2, c_k + δ/2)`.
-/
namespace M3d.Bisect

theorem rfloor_eq (q : Rat) (z : Int) (h1 : (z : Rat) ≤ q) (h2 : q < (z : Rat) + 1) : q.floor = z := by
  show ⌊q⌋ = z
  exact Int.floor_eq_iff.2 ⟨h1, h2⟩

/-- `int(x/δ)` for `x = (z + t)·δ`, `0 ≤ t < 1`: `z` for `z ≥ 0`; for `z < 0` (and `t > 0`) it is `z + 1`
(truncation toward zero). -/
theorem truncDiv_nonneg (d t : Rat) (hd : 0 < d) (n : Nat) (ht0 : 0 ≤ t) (ht1 : t < 1) :
    truncDiv (((n : Rat) + t) * d) d = (n : Int) := by
  unfold truncDiv
  have hq : ((n : Rat) + t) * d / d = (n : Rat) + t := by field_simp
  simp only [hq]
  have hn : (0 : Rat) ≤ (n : Rat) := by exact_mod_cast Nat.zero_le n
  rw [if_neg (by linarith)]
  apply rfloor_eq
  · push_cast; linarith
  · push_cast; linarith

theorem truncDiv_neg (d t : Rat) (hd : 0 < d) (z : Int) (hz : z < 0) (ht0 : 0 < t) (ht1 : t < 1) :
    truncDiv (((z : Rat) + t) * d) d = z + 1 := by
  unfold truncDiv
  have hq : ((z : Rat) + t) * d / d = (z : Rat) + t := by field_simp
  simp only [hq]
  have hz' : (z : Rat) ≤ -1 := by exact_mod_cast (by omega : z ≤ -1)
  rw [if_pos (by linarith)]
  have : (-((z : Rat) + t)).floor = -z - 1 := by
    apply rfloor_eq
    · push_cast; linarith
    · push_cast; linarith
  rw [this]; ring

theorem truncDiv_int (d : Rat) (hd : 0 < d) (z : Int) : truncDiv ((z : Rat) * d) d = z := by
  unfold truncDiv
  have hq : (z : Rat) * d / d = (z : Rat) := by field_simp
  simp only [hq]
  split
  · have : (-(z : Rat)).floor = -z := by
      apply rfloor_eq
      · push_cast; linarith
      · push_cast; linarith
    rw [this]; ring
  · apply rfloor_eq <;> linarith

/-- a lattice coordinate is never in the window -/
theorem window_lattice (d : Rat) (hd : 0 < d) (z : Int) :
    inWindow (rabs (fmod ((z : Rat) * d) d)) d = false := by
  have : fmod ((z : Rat) * d) d = 0 := by
    unfold fmod; rw [truncDiv_int d hd z]; ring
  rw [this]
  unfold rabs inWindow
  simp only [lt_self_iff_false, if_false]
  have : ¬ (d / 4 < 0) := by
    have : 0 < d / 4 := by positivity
    linarith
  simp [this]

/-- `|Mod((z + 1/2)·δ, δ)| = δ/2` for every integer `z` -/
theorem rabs_fmod_mid (d : Rat) (hd : 0 < d) (z : Int) :
    rabs (fmod (((z : Rat) + 1 / 2) * d) d) = d / 2 := by
  by_cases hz : 0 ≤ z
  · obtain ⟨n, rfl⟩ := Int.eq_ofNat_of_zero_le hz
    have ht := truncDiv_nonneg d (1 / 2) hd n (by norm_num) (by norm_num)
    have e : fmod ((((n : Int) : Rat) + 1 / 2) * d) d = d / 2 := by
      unfold fmod
      have : (((n : Int) : Rat)) = (n : Rat) := by push_cast; rfl
      rw [this, ht]; push_cast; ring
    rw [e]
    unfold rabs
    have : ¬ (d / 2 < 0) := by
      have : 0 < d / 2 := by positivity
      linarith
    simp [this]
  · have hz' : z < 0 := by omega
    have ht := truncDiv_neg d (1 / 2) hd z hz' (by norm_num) (by norm_num)
    have e : fmod (((z : Rat) + 1 / 2) * d) d = -(d / 2) := by
      unfold fmod; rw [ht]; push_cast; ring
    rw [e]
    unfold rabs
    have : -(d / 2) < 0 := by
      have : 0 < d / 2 := by positivity
      linarith
    simp [this]

theorem window_mid (d : Rat) (hd : 0 < d) : inWindow (d / 2) d = true := by
  unfold inWindow
  have h1 : d / 4 < d / 2 := by linarith
  have h2 : d / 2 < 3 * d / 4 := by linarith
  simp [h1, h2]

/-! ### `LookupEdgePoint` -/

theorem lookup_go (d : Rat) (hd : 0 < d) :
    ∀ (k : Nat) (os vs : List Rat) (i : Nat) (n : Nat → Nat),
      k < os.length → k < vs.length →
      (∀ j, j < k → vs.getD j 0 - os.getD j 0 = (n j : Rat) * d) →
      vs.getD k 0 - os.getD k 0 = ((n k : Rat) + 1 / 2) * d →
      lookupEdgePoint.go d i os vs =
        some (i + k, os.getD k 0 + (n k : Rat) * d, os.getD k 0 + ((n k : Rat) + 1) * d) := by
  intro k
  induction k with
  | zero =>
    intro os vs i n ho hv _ hmid
    match os, vs, ho, hv with
    | o :: os, v :: vs, _, _ =>
      simp only [List.getD_cons_zero] at hmid
      unfold lookupEdgePoint.go
      have hm := rabs_fmod_mid d hd (n 0 : Int)
      have hc : (((n 0 : Int) : Rat)) = (n 0 : Rat) := by push_cast; rfl
      rw [hc] at hm
      rw [hmid, hm, window_mid d hd, if_pos rfl]
      have ht := truncDiv_nonneg d (1 / 2) hd (n 0) (by norm_num) (by norm_num)
      simp only [ht, List.getD_cons_zero, Nat.add_zero]
      push_cast
      rfl
  | succ k ih =>
    intro os vs i n ho hv hlat hmid
    match os, vs, ho, hv with
    | o :: os, v :: vs, ho, hv =>
      have h0 := hlat 0 (Nat.succ_pos k)
      simp only [List.getD_cons_zero] at h0
      unfold lookupEdgePoint.go
      have hw := window_lattice d hd (n 0 : Int)
      have hc : (((n 0 : Int) : Rat)) = (n 0 : Rat) := by push_cast; rfl
      rw [hc] at hw
      rw [h0, hw]
      simp only [Bool.false_eq_true, if_false]
      have := ih os vs (i + 1) (fun j => n (j + 1))
        (by simpa using ho) (by simpa using hv)
        (fun j hj => by
          have := hlat (j + 1) (by omega)
          simpa [List.getD_cons_succ] using this)
        (by simpa [List.getD_cons_succ] using hmid)
      rw [this]
      simp only [List.getD_cons_succ]
      congr 2
      omega

/-- **`LookupEdgePoint` recovers the lattice edge of a midpoint vertex.**  `c` has a lattice value
`origin_j + n_j·δ` on every axis `j < k` and the value `origin_k + (n_k + 1/2)·δ` on axis `k` (the
code takes the FIRST axis in the window, so nothing is needed of the later axes): the result is axis
`k` with the two lattice values `origin_k + n_k·δ`, `origin_k + (n_k+1)·δ` — the ends of the edge the
vertex was created on. -/
theorem lookupEdgePoint_recovers (origin c : List Rat) (d : Rat) (hd : 0 < d) (k : Nat) (n : Nat → Nat)
    (ho : k < origin.length) (hc : k < c.length)
    (hlat : ∀ j, j < k → c.getD j 0 - origin.getD j 0 = (n j : Rat) * d)
    (hmid : c.getD k 0 - origin.getD k 0 = ((n k : Rat) + 1 / 2) * d) :
    lookupEdgePoint origin d c =
      some (k, origin.getD k 0 + (n k : Rat) * d, origin.getD k 0 + ((n k : Rat) + 1) * d) := by
  unfold lookupEdgePoint
  rw [lookup_go d hd k origin c 0 n ho hc hlat hmid, Nat.zero_add]

/-! ### the window of `msSearch` -/

theorem msLookup_go (d : Rat) (hd : 0 < d) :
    ∀ (k : Nat) (os vs : List Rat) (i : Nat) (z : Nat → Int),
      k < os.length → k < vs.length →
      (∀ j, j < k → vs.getD j 0 - os.getD j 0 = (z j : Rat) * d) →
      vs.getD k 0 - os.getD k 0 = ((z k : Rat) + 1 / 2) * d →
      msLookup.go d i os vs = some (i + k, vs.getD k 0 - d / 2, vs.getD k 0 - d / 2 + d) := by
  intro k
  induction k with
  | zero =>
    intro os vs i z ho hv _ hmid
    match os, vs, ho, hv with
    | o :: os, v :: vs, _, _ =>
      simp only [List.getD_cons_zero] at hmid
      unfold msLookup.go
      simp only
      rw [hmid, rabs_fmod_mid d hd (z 0), window_mid d hd, if_pos rfl]
      simp only [List.getD_cons_zero, Nat.add_zero]
  | succ k ih =>
    intro os vs i z ho hv hlat hmid
    match os, vs, ho, hv with
    | o :: os, v :: vs, ho, hv =>
      have h0 := hlat 0 (Nat.succ_pos k)
      simp only [List.getD_cons_zero] at h0
      unfold msLookup.go
      simp only
      rw [h0, window_lattice d hd (z 0)]
      simp only [Bool.false_eq_true, if_false]
      have := ih os vs (i + 1) (fun j => z (j + 1))
        (by simpa using ho) (by simpa using hv)
        (fun j hj => by
          have := hlat (j + 1) (by omega)
          simpa [List.getD_cons_succ] using this)
        (by simpa [List.getD_cons_succ] using hmid)
      rw [this]
      simp only [List.getD_cons_succ]
      congr 2
      omega

/-- **The window of `msSearch` recovers the lattice edge of a midpoint vertex**, for every position
of the lattice relative to the solid's `Min()` (`z_j` may be negative: the lattice starts one step
below `Min()`, and `math.Mod` keeps the sign of its first argument): the two ends are
`c_k − δ/2` and `c_k + δ/2`. -/
theorem msLookup_recovers (mn c : List Rat) (d : Rat) (hd : 0 < d) (k : Nat) (z : Nat → Int)
    (ho : k < mn.length) (hc : k < c.length)
    (hlat : ∀ j, j < k → c.getD j 0 - mn.getD j 0 = (z j : Rat) * d)
    (hmid : c.getD k 0 - mn.getD k 0 = ((z k : Rat) + 1 / 2) * d) :
    msLookup mn d c = some (k, c.getD k 0 - d / 2, c.getD k 0 - d / 2 + d) := by
  unfold msLookup
  rw [msLookup_go d hd k mn c 0 z ho hc hlat hmid, Nat.zero_add]

end M3d.Bisect
