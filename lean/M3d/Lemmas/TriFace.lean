import M3d.Model.TriFace
import M3d.Lemmas.TriMore
import Mathlib.Tactic.Ring
import Mathlib.Tactic.Linarith
import Mathlib.Tactic.Positivity
import Mathlib.Tactic.LinearCombination
/-!
Helper lemmas for C14, part 10: the chart of `TriangulateFace` (`M3d/Model/TriFace.lean`).

A planar face is written in plane coordinates: `poly = cs.map (planePt p0 u w)` with `cs` starting
`(0,0), (1,0)` (so `u = polygon[1] − polygon[0]`) and `w` any in-plane vector not parallel to `u`.
-/
namespace M3d.Tri

set_option linter.unusedSectionVars false
set_option linter.unusedSimpArgs false

section Field
variable {K : Type} [Field K] [LinearOrder K] [IsStrictOrderedRing K]

theorem dot3_self_nonneg (a : P3 K) : 0 ≤ dot3 a a := by
  simp only [dot3]
  have hx := mul_self_nonneg a.x
  have hy := mul_self_nonneg a.y
  have hz := mul_self_nonneg a.z
  linarith

def cross3 (u w : P3 K) : P3 K :=
  ⟨u.y * w.z - u.z * w.y, u.z * w.x - u.x * w.z, u.x * w.y - u.y * w.x⟩

/-- The point with plane coordinates `c` in the plane through `p0` spanned by `u`, `w`. -/
def planePt (p0 u w : P3 K) (c : P2 K) : P3 K :=
  ⟨p0.x + c.x * u.x + c.y * w.x, p0.y + c.x * u.y + c.y * w.y, p0.z + c.x * u.z + c.y * w.z⟩

/-- Lagrange's `|u|²|w|² − (u·w)² = |u × w|²`. -/
def lagr (u w : P3 K) : K := dot3 u u * dot3 w w - dot3 u w * dot3 u w

theorem lagr_eq (u w : P3 K) : lagr u w = dot3 (cross3 u w) (cross3 u w) := by
  simp only [lagr, dot3, cross3]; ring

theorem lagr_nonneg (u w : P3 K) : 0 ≤ lagr u w := by
  rw [lagr_eq]; exact dot3_self_nonneg _

theorem dot3_self_eq_zero {a : P3 K} (h : dot3 a a = 0) : a.x = 0 ∧ a.y = 0 ∧ a.z = 0 := by
  simp only [dot3] at h
  have hx := mul_self_nonneg a.x
  have hy := mul_self_nonneg a.y
  have hz := mul_self_nonneg a.z
  refine ⟨?_, ?_, ?_⟩ <;> apply mul_self_eq_zero.1 <;> linarith

/-- `u`, `w` not parallel ⇔ the Lagrange determinant is positive. -/
theorem lagr_pos_iff (u w : P3 K) :
    0 < lagr u w ↔ ¬ ((cross3 u w).x = 0 ∧ (cross3 u w).y = 0 ∧ (cross3 u w).z = 0) := by
  constructor
  · intro h hz
    rw [lagr_eq] at h
    simp only [dot3, hz.1, hz.2.1, hz.2.2] at h
    simp at h
  · intro h
    rcases (lagr_nonneg u w).lt_or_eq with h' | h'
    · exact h'
    · exact absurd (dot3_self_eq_zero (by rw [← lagr_eq]; exact h'.symm)) h

theorem dot3_pos_of_lagr_pos {u w : P3 K} (h : 0 < lagr u w) : 0 < dot3 u u := by
  have hn : 0 ≤ dot3 u u := dot3_self_nonneg u
  rcases hn.lt_or_eq with h' | h'
  · exact h'
  · exfalso
    obtain ⟨hx, hy, hz⟩ := dot3_self_eq_zero h'.symm
    have : lagr u w = 0 := by simp only [lagr, dot3, hx, hy, hz]; ring
    linarith

/-! ### the chart, for an arbitrary pair of "basis" vectors -/

/-- **Every chart multiplies all orientation determinants by one number.**  For ANY vectors `b1`, `b2`
(normalised or not, exact or rounded, or pure rounding noise) the chart
`p ↦ (b1·(p−p0), b2·(p−p0))` of `TriangulateFace` maps three points of the face's plane with plane
coordinates `a, b, c` to points whose orientation determinant is
`((b1·u)(b2·w) − (b1·w)(b2·u)) · orient a b c`. -/
theorem chart_orient (b1 b2 p0 u w : P3 K) (a b c : P2 K) :
    orient
      (⟨dot3 b1 (sub3 (planePt p0 u w a) p0), dot3 b2 (sub3 (planePt p0 u w a) p0)⟩ : P2 K)
      ⟨dot3 b1 (sub3 (planePt p0 u w b) p0), dot3 b2 (sub3 (planePt p0 u w b) p0)⟩
      ⟨dot3 b1 (sub3 (planePt p0 u w c) p0), dot3 b2 (sub3 (planePt p0 u w c) p0)⟩
      = (dot3 b1 u * dot3 b2 w - dot3 b1 w * dot3 b2 u) * orient a b c := by
  simp only [orient, dot3, sub3, planePt]; ring

/-- The chart determinant when `b1 = s·u` and `b2 = t·residual(q)` for a vertex `q` with plane
coordinates `(lam, mu)`: `s·t·mu·|u|²·|u×w|²`. -/
theorem chart_det_residual (s t : K) (p0 u w : P3 K) (q : P2 K) :
    dot3 (scale3 s u) u * dot3 (scale3 t (residual3 u (sub3 (planePt p0 u w q) p0))) w
      - dot3 (scale3 s u) w * dot3 (scale3 t (residual3 u (sub3 (planePt p0 u w q) p0))) u
      = s * t * q.y * dot3 u u * lagr u w := by
  simp only [dot3, scale3, residual3, sub3, planePt, lagr]; ring

/-- The residual of a vertex with plane coordinates `q` is `q.y` times the residual of `w`: it
vanishes exactly for the vertices on the line `p0 p1` (`q.y = 0`). -/
theorem residual3_planePt (p0 u w : P3 K) (q : P2 K) :
    residual3 u (sub3 (planePt p0 u w q) p0) = scale3 q.y (residual3 u w) := by
  simp only [residual3, scale3, sub3, planePt, dot3]
  congr 1 <;> ring

theorem residual3_dot_self (u w : P3 K) :
    dot3 (residual3 u w) (residual3 u w) = dot3 u u * lagr u w := by
  simp only [dot3, residual3, scale3, sub3, lagr]; ring

theorem isZero3_iff (a : P3 K) : isZero3 a = true ↔ a.x = 0 ∧ a.y = 0 ∧ a.z = 0 := by
  simp [isZero3, and_assoc]

/-- A vertex is a candidate for `basis2` exactly when it is off the line through the first edge. -/
theorem faceCandidate_planePt {p0 u w : P3 K} (h : 0 < lagr u w) (q : P2 K) :
    faceCandidate (planePt p0 u w ⟨0, 0⟩) (planePt p0 u w ⟨1, 0⟩) (planePt p0 u w q) = decide (q.y ≠ 0) := by
  have hu : sub3 (planePt p0 u w ⟨1, 0⟩) (planePt p0 u w ⟨0, 0⟩) = u := by
    simp only [sub3, planePt]; cases u; congr 1 <;> ring
  have hq : sub3 (planePt p0 u w q) (planePt p0 u w ⟨0, 0⟩) = sub3 (planePt p0 u w q) p0 := by
    simp only [sub3, planePt]; congr 1 <;> ring
  unfold faceCandidate
  rw [hu, hq, residual3_planePt]
  by_cases hy : q.y = 0
  · have : isZero3 (scale3 q.y (residual3 u w)) = true := by
      rw [isZero3_iff]; simp [scale3, hy]
    rw [this]; simp [hy]
  · have hne : isZero3 (scale3 q.y (residual3 u w)) = false := by
      rw [Bool.eq_false_iff]; intro hz
      rw [isZero3_iff] at hz
      have h0 : dot3 (scale3 q.y (residual3 u w)) (scale3 q.y (residual3 u w)) = 0 := by
        simp only [dot3, hz.1, hz.2.1, hz.2.2]; ring
      have h1 : dot3 (scale3 q.y (residual3 u w)) (scale3 q.y (residual3 u w))
          = q.y * q.y * (dot3 u u * lagr u w) := by
        rw [← residual3_dot_self]; simp only [dot3, scale3]; ring
      rw [h1] at h0
      have hpos : 0 < q.y * q.y * (dot3 u u * lagr u w) :=
        mul_pos (mul_self_pos.2 hy) (mul_pos (dot3_pos_of_lagr_pos h) h)
      linarith
    rw [hne]; simp [hy]

/-! ### the chart of the model in closed form -/

/-- The linear map of plane coordinates that the model chart with `basis2` from a vertex of height
`mu` performs: matrix `[[u·u, u·w], [0, mu·|u×w|²]]`. -/
def chartMap (u w : P3 K) (mu : K) (c : P2 K) : P2 K :=
  ⟨dot3 u u * c.x + dot3 u w * c.y, mu * lagr u w * c.y⟩

theorem chartMap_eq_affine (u w : P3 K) (mu : K) (c : P2 K) :
    chartMap u w mu c = affine (dot3 u u) (dot3 u w) 0 (mu * lagr u w) 0 0 c := by
  simp only [chartMap, affine]; congr 1 <;> ring

theorem orient_chartMap (u w : P3 K) (mu : K) (a b c : P2 K) :
    orient (chartMap u w mu a) (chartMap u w mu b) (chartMap u w mu c)
      = (dot3 u u * (mu * lagr u w)) * orient a b c := by
  simp only [chartMap_eq_affine, orient_affine']; ring

theorem projectFace_cons (b1 b2 p0 : P3 K) (rest : List (P3 K)) :
    projectFace b1 b2 (p0 :: rest)
      = (p0 :: rest).map fun p => ⟨dot3 b1 (sub3 p p0), dot3 b2 (sub3 p p0)⟩ := rfl

theorem chart_point (p0 u w : P3 K) (q qj : P2 K) :
    (⟨dot3 (sub3 (planePt p0 u w ⟨1, 0⟩) (planePt p0 u w ⟨0, 0⟩))
        (sub3 (planePt p0 u w q) (planePt p0 u w ⟨0, 0⟩)),
      dot3 (residual3 (sub3 (planePt p0 u w ⟨1, 0⟩) (planePt p0 u w ⟨0, 0⟩))
          (sub3 (planePt p0 u w qj) (planePt p0 u w ⟨0, 0⟩)))
        (sub3 (planePt p0 u w q) (planePt p0 u w ⟨0, 0⟩))⟩ : P2 K) = chartMap u w qj.y q := by
  simp only [chartMap, dot3, residual3, scale3, sub3, planePt, lagr]; congr 1 <;> ring

/-- `faceChartAt` in plane coordinates, for ANY index `j` (also one of a colinear vertex). -/
theorem faceChartAt_plane (p0 u w : P3 K) (cs : List (P2 K)) (j : Nat) :
    faceChartAt ((⟨0, 0⟩ :: ⟨1, 0⟩ :: cs).map (planePt p0 u w)) j
      = (⟨0, 0⟩ :: ⟨1, 0⟩ :: cs).map (chartMap u w (((⟨0, 0⟩ :: ⟨1, 0⟩ :: cs).getD j ⟨0, 0⟩).y)) := by
  have hget : ((⟨0, 0⟩ :: ⟨1, 0⟩ :: cs).map (planePt p0 u w)).getD j (planePt p0 u w ⟨0, 0⟩)
      = planePt p0 u w ((⟨0, 0⟩ :: ⟨1, 0⟩ :: cs).getD j ⟨0, 0⟩) := by
    simp only [List.getD_eq_getElem?_getD, List.getElem?_map]
    cases (⟨0, 0⟩ :: ⟨1, 0⟩ :: cs : List (P2 K))[j]? <;> rfl
  show projectFace (sub3 (planePt p0 u w ⟨1, 0⟩) (planePt p0 u w ⟨0, 0⟩))
      (residual3 (sub3 (planePt p0 u w ⟨1, 0⟩) (planePt p0 u w ⟨0, 0⟩))
        (sub3 (((⟨0, 0⟩ :: ⟨1, 0⟩ :: cs).map (planePt p0 u w)).getD j (planePt p0 u w ⟨0, 0⟩))
          (planePt p0 u w ⟨0, 0⟩)))
      ((⟨0, 0⟩ :: ⟨1, 0⟩ :: cs).map (planePt p0 u w)) = _
  rw [hget]
  have e : (⟨0, 0⟩ :: ⟨1, 0⟩ :: cs).map (planePt p0 u w)
      = planePt p0 u w ⟨0, 0⟩ :: (⟨1, 0⟩ :: cs).map (planePt p0 u w) := rfl
  conv_lhs => rw [e, projectFace_cons, ← e]
  rw [List.map_map]
  apply List.map_congr_left
  intro q _
  exact chart_point p0 u w q _

/-- `faceBasisIdx` in plane coordinates: the first vertex of `polygon[2:]` off the line `p0 p1`. -/
theorem faceBasisIdx_plane {p0 u w : P3 K} (h : 0 < lagr u w) (cs : List (P2 K)) :
    faceBasisIdx ((⟨0, 0⟩ :: ⟨1, 0⟩ :: cs).map (planePt p0 u w))
      = (if cs.findIdx (fun q => decide (q.y ≠ 0)) < cs.length
          then some (cs.findIdx (fun q => decide (q.y ≠ 0)) + 2) else none) := by
  simp only [List.map_cons, faceBasisIdx, List.length_map]
  have : List.findIdx (faceCandidate (planePt p0 u w ⟨0, 0⟩) (planePt p0 u w ⟨1, 0⟩)) (cs.map (planePt p0 u w))
      = cs.findIdx (fun q => decide (q.y ≠ 0)) := by
    rw [List.findIdx_map]
    congr 1
    funext q
    exact faceCandidate_planePt h q
  rw [this]

/-- All points on a line: `Triangulate` panics ("polygon does not span a 2-D space"). -/
theorem triangulate_none_of_flat (sd : Bool) (fuel : Nat) (l : List (P2 K))
    (hflat : ∀ a ∈ l, a.y = 0) : triangulate sd (fuel + 1) l = none := by
  have hget : ∀ i, (l.getD i zeroP).y = 0 := by
    intro i
    rw [List.getD_eq_getElem?_getD]
    cases h : l[i]? with
    | none => rfl
    | some a => exact hflat a (List.mem_of_getElem? h)
  have hrem : removeColinear l = [] := by
    unfold removeColinear
    rw [List.filterMap_eq_nil_iff]
    intro i _
    have : orient (prevAt l i) (curAt l i) (nextAt l i) = 0 := by
      simp only [orient, prevAt, curAt, nextAt, hget]; ring
    rw [if_pos this]
  unfold triangulate
  simp [hrem]

end Field
end M3d.Tri
