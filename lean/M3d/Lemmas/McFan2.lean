import M3d.Lemmas.McFan1
import M3d.Lemmas.Partition
import Mathlib.Data.List.Perm.Basic
import Mathlib.Data.List.Zip
/-!
The fan lift for marching cubes, part 2: generic list facts — the link of the whole mesh is the link of the
few cells whose box contains the position, and four paths that chain head-to-tail are one cycle.
-/
namespace M3d.Marching
open M3d.Partition

theorem glink_flatMap {α : Type} (V : GV) (l : List α) (f : α → List (GV × GV × GV)) :
    glink V (l.flatMap f) = l.flatMap fun a => glink V (f a) := by
  unfold glink
  induction l with
  | nil => rfl
  | cons a t ih => simp only [List.flatMap_cons, List.filterMap_append, ih]

theorem flatMap_nil_of {α β : Type} (l : List α) (f : α → List β) (h : ∀ a ∈ l, f a = []) : l.flatMap f = [] := by
  induction l with
  | nil => rfl
  | cons a t ih =>
    rw [List.flatMap_cons, h a List.mem_cons_self, ih (fun b hb => h b (List.mem_cons_of_mem _ hb))]
    rfl

/-- **The link of the whole mesh is the link of the cells that can contain the position.** -/
theorem glink_mcMesh_perm (table : List (List (List Nat))) (nx ny nz : Nat) (lab : Nat → Nat → Nat → Bool)
    (V : GV) (cs : List (Nat × Nat × Nat)) (hnd : cs.Nodup)
    (hmem : ∀ c ∈ cs, c ∈ (rootBlock nx ny nz).cells)
    (hother : ∀ c ∈ (rootBlock nx ny nz).cells, c ∉ cs → glink V (cellTris table lab c.1 c.2.1 c.2.2) = []) :
    (glink V (mcMesh table nx ny nz lab)).Perm (cs.flatMap fun c => glink V (cellTris table lab c.1 c.2.1 c.2.2)) := by
  have e : mcMesh table nx ny nz lab =
      (rootBlock nx ny nz).cells.flatMap fun c => cellTris table lab c.1 c.2.1 c.2.2 := by
    rw [mcMesh_eq_cells]; rfl
  rw [e, glink_flatMap]
  set cells := (rootBlock nx ny nz).cells with hcells
  set F := fun c : Nat × Nat × Nat => glink V (cellTris table lab c.1 c.2.1 c.2.2) with hF
  have hsplit : cells.Perm (cells.filter (fun c => decide (c ∈ cs)) ++ cells.filter (fun c => !decide (c ∈ cs))) :=
    (List.filter_append_perm _ cells).symm
  refine (hsplit.flatMap_right F).trans ?_
  rw [List.flatMap_append]
  have h2 : (cells.filter (fun c => !decide (c ∈ cs))).flatMap F = [] := by
    apply flatMap_nil_of
    intro c hc
    rw [List.mem_filter] at hc
    exact hother c hc.1 (by simpa using hc.2)
  rw [h2, List.append_nil]
  apply List.Perm.flatMap_right
  rw [List.perm_ext_iff_of_nodup ((Block.cells_nodup _).filter _) hnd]
  intro c
  rw [List.mem_filter]
  constructor
  · intro h; simpa using h.2
  · intro h; exact ⟨hmem c h, by simpa using h⟩

/-- consecutive pairs of a path -/
def pathArcs {α : Type} (l : List α) : List (α × α) := l.zip l.tail

/-- the directed edges of a closed cycle (generic version of `gcycleEdges`) -/
def cyc {α : Type} : List α → List (α × α)
  | [] => []
  | a :: t => List.zip (a :: t) (t ++ [a])

theorem gcycleEdges_eq_cyc (l : List GV) : gcycleEdges l = cyc l := by
  cases l <;> rfl

theorem pathArcs_snoc {α : Type} (h : α) (T : List α) (n : α) :
    pathArcs (h :: T ++ [n]) = List.zip (h :: T) (T ++ [n]) := by
  unfold pathArcs
  induction T generalizing h with
  | nil => simp
  | cons a t ih =>
    simp only [List.cons_append, List.tail_cons, List.zip_cons_cons] at ih ⊢
    rw [ih a]

/-- **Four paths that chain head-to-tail are one cycle**: the arcs of `h₀ T₀ h₁`, `h₁ T₁ h₂`, `h₂ T₂ h₃`,
`h₃ T₃ h₀` are exactly the cycle edges of `h₀ T₀ h₁ T₁ h₂ T₂ h₃ T₃`. -/
theorem glue4 {α : Type} (h0 h1 h2 h3 : α) (T0 T1 T2 T3 : List α) :
    pathArcs (h0 :: T0 ++ [h1]) ++ pathArcs (h1 :: T1 ++ [h2]) ++ pathArcs (h2 :: T2 ++ [h3]) ++
      pathArcs (h3 :: T3 ++ [h0]) =
    cyc ((h0 :: T0) ++ (h1 :: T1) ++ (h2 :: T2) ++ (h3 :: T3)) := by
  rw [pathArcs_snoc, pathArcs_snoc, pathArcs_snoc, pathArcs_snoc]
  simp only [cyc, List.cons_append, List.append_assoc]
  rw [show (h0 :: (T0 ++ h1 :: (T1 ++ h2 :: (T2 ++ h3 :: T3)))) = (h0 :: T0) ++ ((h1 :: T1) ++ ((h2 :: T2) ++ (h3 :: T3))) by simp]
  rw [show (T0 ++ h1 :: (T1 ++ h2 :: (T2 ++ h3 :: (T3 ++ [h0])))) = (T0 ++ [h1]) ++ ((T1 ++ [h2]) ++ ((T2 ++ [h3]) ++ (T3 ++ [h0]))) by simp]
  rw [List.zip_append (by simp), List.zip_append (by simp), List.zip_append (by simp)]

end M3d.Marching
