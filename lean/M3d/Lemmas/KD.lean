import M3d.Model.Spatial
import M3d.Lemmas.Prune
import M3d.Lemmas.Box
/-!
# `CoordTree`: pruned traversals = linear scans

Generic in the point type `P`; the only geometric fact used is
`hplane : (coord q ax - coord p ax)² ≤ sq p q` (a squared distance dominates every squared
coordinate difference), instantiated for `V3`/`V2` at the end.
-/
namespace M3d.Spatial
open M3d.Prune M3d.Box
set_option linter.unusedSectionVars false

variable {K : Type} [Field K] [LinearOrder K] [IsStrictOrderedRing K]
variable {P σ : Type}

/-- Order in which a query at `p` walks the tree when nothing is pruned. -/
def KD.visitOrder (coord : P → Nat → K) (p : P) : KD P → List P
  | .nil => []
  | .node c ax l g =>
      if 0 < coord c ax - coord p ax then c :: (KD.visitOrder coord p l ++ KD.visitOrder coord p g)
      else c :: (KD.visitOrder coord p g ++ KD.visitOrder coord p l)

theorem KD.visitOrder_perm (coord : P → Nat → K) (p : P) :
    ∀ t : KD P, (KD.visitOrder coord p t).Perm t.slice
  | .nil => List.Perm.refl _
  | .node c ax l g => by
      have hl := KD.visitOrder_perm coord p l
      have hg := KD.visitOrder_perm coord p g
      simp only [KD.visitOrder, KD.slice]
      split
      · exact ((hl.append hg).cons c).trans List.perm_middle.symm
      · exact (((List.perm_append_comm).trans (hl.append hg)).cons c).trans List.perm_middle.symm

/-- The common shape of `nearestNeighbor` and `knn`. -/
def KD.search (coord : P → Nat → K) (p : P) (step : σ → P → σ) (farOk : K → σ → Bool) :
    KD P → σ → σ
  | .nil, s => s
  | .node c ax l g, s =>
      let s1 := step s c
      let planeDist := coord c ax - coord p ax
      let s2 := if 0 < planeDist then KD.search coord p step farOk l s1 else KD.search coord p step farOk g s1
      if 0 < planeDist ∧ farOk (planeDist * planeDist) s2 = true then KD.search coord p step farOk g s2
      else if ¬ 0 < planeDist ∧ farOk (planeDist * planeDist) s2 = true then KD.search coord p step farOk l s2
      else s2

/-- Points on the far side of the split plane are at least the plane distance away. -/
theorem far_ge (coord : P → Nat → K) (sq : P → P → K)
    (hplane : ∀ p q ax, (coord q ax - coord p ax) * (coord q ax - coord p ax) ≤ sq p q)
    (p c : P) (ax : Nat) :
    (0 < coord c ax - coord p ax → ∀ q, ¬ coord q ax < coord c ax →
        (coord c ax - coord p ax) * (coord c ax - coord p ax) ≤ sq p q) ∧
    (¬ 0 < coord c ax - coord p ax → ∀ q, coord q ax < coord c ax →
        (coord c ax - coord p ax) * (coord c ax - coord p ax) ≤ sq p q) := by
  constructor
  · intro h q hq
    have := hplane p q ax
    have hq' := not_lt.1 hq
    nlinarith
  · intro h q hq
    have := hplane p q ax
    have h' := not_lt.1 h
    nlinarith

/-- **Pruned k-d traversal = fold over all points** whenever a rejected half space cannot
change the state. -/
theorem KD.search_eq_foldl (coord : P → Nat → K) (sq : P → P → K)
    (hplane : ∀ p q ax, (coord q ax - coord p ax) * (coord q ax - coord p ax) ≤ sq p q)
    (p : P) (step : σ → P → σ) (farOk : K → σ → Bool)
    (hskip : ∀ s x q, farOk x s = false → x ≤ sq p q → step s q = s) :
    ∀ (t : KD P) (s : σ), KD.Inv coord t →
      KD.search coord p step farOk t s = (KD.visitOrder coord p t).foldl step s := by
  intro t
  induction t with
  | nil => intro s _; rfl
  | node c ax l g ihl ihg =>
      intro s hinv
      obtain ⟨hl, hg, il, ig⟩ := hinv
      obtain ⟨far1, far2⟩ := far_ge coord sq hplane p c ax
      simp only [KD.search, KD.visitOrder]
      by_cases hpd : 0 < coord c ax - coord p ax
      · simp only [hpd, if_true, true_and, not_true_eq_false, false_and, if_false,
          List.foldl_cons, List.foldl_append]
        rw [ihl _ il]
        cases hf : farOk ((coord c ax - coord p ax) * (coord c ax - coord p ax))
            ((KD.visitOrder coord p l).foldl step (step s c)) with
        | true => simp only [if_true]; rw [ihg _ ig]
        | false =>
            simp only [Bool.false_eq_true, if_false]
            symm; apply foldl_fixed
            intro q hq
            have hq' := ((KD.visitOrder_perm coord p g).mem_iff).1 hq
            exact hskip _ _ q hf (far1 hpd q (hg q hq'))
      · simp only [hpd, if_false, false_and, not_false_eq_true, true_and,
          List.foldl_cons, List.foldl_append]
        rw [ihg _ ig]
        cases hf : farOk ((coord c ax - coord p ax) * (coord c ax - coord p ax))
            ((KD.visitOrder coord p g).foldl step (step s c)) with
        | true => simp only [if_true]; rw [ihl _ il]
        | false =>
            simp only [Bool.false_eq_true, if_false]
            symm; apply foldl_fixed
            intro q hq
            have hq' := ((KD.visitOrder_perm coord p l).mem_iff).1 hq
            exact hskip _ _ q hf (far2 hpd q (hl q hq'))

/-! ### Contains -/

/-- **`Contains` finds exactly the points of the tree** (duplicates and equal coordinates along
the split axis included). -/
theorem KD.contains_iff [DecidableEq P] (coord : P → Nat → K) (p : P) :
    ∀ t : KD P, KD.Inv coord t → (t.contains coord p = true ↔ p ∈ t.slice) := by
  intro t
  induction t with
  | nil => intro _; simp [KD.contains, KD.slice]
  | node c ax l g ihl ihg =>
      intro hinv
      obtain ⟨hl, hg, il, ig⟩ := hinv
      simp only [KD.contains, KD.slice, List.mem_append, List.mem_cons]
      by_cases hc : c = p
      · simp [hc]
      · simp only [hc, if_false]
        have hc' : ¬ p = c := fun h => hc h.symm
        by_cases hlt : coord p ax < coord c ax
        · simp only [hlt, if_true]
          rw [ihl il]
          constructor
          · intro h; exact Or.inl h
          · rintro (h | h | h)
            · exact h
            · exact absurd h hc'
            · exact absurd hlt (hg p h)
        · simp only [hlt, if_false]
          rw [ihg ig]
          constructor
          · intro h; exact Or.inr (Or.inr h)
          · rintro (h | h | h)
            · exact absurd (hl p h) hlt
            · exact absurd h hc'
            · exact h

/-! ### Nearest neighbour -/

theorem KD.nn_eq_search (coord : P → Nat → K) (sq : P → P → K) (p : P) :
    ∀ (t : KD P) (s : Option (K × P)),
      t.nn coord sq p s =
        KD.search coord p (fun s c => if ltBound (sq p c) s then some (sq p c, c) else s)
          (fun x s => ltBound x s) t s := by
  intro t
  induction t with
  | nil => intro s; rfl
  | node c ax l g ihl ihg => intro s; simp only [KD.nn, KD.search, ihl, ihg]

theorem nn_skip (sq : P → P → K) (p : P) (s : Option (K × P)) (x : K) (q : P)
    (h : ltBound x s = false) (hx : x ≤ sq p q) :
    (if ltBound (sq p q) s then some (sq p q, q) else s) = s := by
  cases s with
  | none => simp [ltBound] at h
  | some bc =>
      obtain ⟨b, c⟩ := bc
      simp only [ltBound, decide_eq_false_iff_not, not_lt] at h
      have : ¬ sq p q < b := not_lt.2 (le_trans h hx)
      simp [ltBound, this]

/-- **`nearestNeighbor` = the linear scan over the points in visiting order.** -/
theorem KD.nn_eq_scan (coord : P → Nat → K) (sq : P → P → K)
    (hplane : ∀ p q ax, (coord q ax - coord p ax) * (coord q ax - coord p ax) ≤ sq p q)
    (p : P) (t : KD P) (s : Option (K × P)) (h : KD.Inv coord t) :
    t.nn coord sq p s = scanNN sq p (KD.visitOrder coord p t) s := by
  rw [KD.nn_eq_search]
  exact KD.search_eq_foldl coord sq hplane p _ _ (fun s x q => nn_skip sq p s x q) t s h

/-- What a scan for the nearest neighbour returns: a point of the list whose squared distance
is minimal (or the initial state if that was already at least as good). -/
theorem scanNN_spec (sq : P → P → K) (p : P) :
    ∀ (l : List P) (s : Option (K × P)),
      (scanNN sq p l s = s ∨ ∃ c ∈ l, scanNN sq p l s = some (sq p c, c)) ∧
      (∀ c ∈ l, ∃ d q, scanNN sq p l s = some (d, q) ∧ d ≤ sq p c) ∧
      (∀ d0 q0, s = some (d0, q0) → ∃ d q, scanNN sq p l s = some (d, q) ∧ d ≤ d0) := by
  intro l
  induction l with
  | nil =>
      intro s
      exact ⟨Or.inl rfl, fun c hc => by simp at hc, fun d0 q0 h => ⟨d0, q0, h, le_refl _⟩⟩
  | cons a l ih =>
      intro s
      simp only [scanNN, List.foldl_cons]
      obtain ⟨h1, h2, h3⟩ := ih (if ltBound (sq p a) s then some (sq p a, a) else s)
      simp only [scanNN] at h1 h2 h3
      -- the state after the first step is `some (d1, q1)` with `d1 ≤ sq p a` and `d1 ≤` old bound
      have hstep : ∃ d1 q1, (if ltBound (sq p a) s then some (sq p a, a) else s) = some (d1, q1) ∧
          d1 ≤ sq p a ∧ (∀ d0 q0, s = some (d0, q0) → d1 ≤ d0) ∧
          ((if ltBound (sq p a) s then some (sq p a, a) else s) = s ∨
            (if ltBound (sq p a) s then some (sq p a, a) else s) = some (sq p a, a)) := by
        cases s with
        | none => exact ⟨sq p a, a, by simp [ltBound], le_refl _, fun _ _ h => (by cases h), Or.inr (by simp [ltBound])⟩
        | some bc =>
            obtain ⟨b, c⟩ := bc
            by_cases hlt : sq p a < b
            · exact ⟨sq p a, a, by simp [ltBound, hlt], le_refl _,
                fun d0 q0 h => (by cases h; exact le_of_lt hlt), Or.inr (by simp [ltBound, hlt])⟩
            · exact ⟨b, c, by simp [ltBound, hlt], not_lt.1 hlt,
                fun d0 q0 h => (by cases h; exact le_refl _), Or.inl (by simp [ltBound, hlt])⟩
      obtain ⟨d1, q1, e1, le1, le0, how⟩ := hstep
      refine ⟨?_, ?_, ?_⟩
      · rcases h1 with h1 | ⟨c, hc, h1⟩
        · rcases how with how | how
          · exact Or.inl (h1.trans how)
          · exact Or.inr ⟨a, by simp, h1.trans how⟩
        · exact Or.inr ⟨c, by simp [hc], h1⟩
      · intro c hc
        rcases List.mem_cons.1 hc with rfl | hc
        · obtain ⟨d, q, e, hle⟩ := h3 d1 q1 e1
          exact ⟨d, q, e, le_trans hle le1⟩
        · exact h2 c hc
      · intro d0 q0 hs
        obtain ⟨d, q, e, hle⟩ := h3 d1 q1 e1
        exact ⟨d, q, e, le_trans hle (le0 d0 q0 hs)⟩

/-! ### Sphere -/

/-- **`sphereCollision` = "some point is within the radius"** (`≤`, touching counts). -/
theorem KD.sphere_eq_any (coord : P → Nat → K) (sq : P → P → K)
    (hplane : ∀ p q ax, (coord q ax - coord p ax) * (coord q ax - coord p ax) ≤ sq p q)
    (p : P) (r2 : K) :
    ∀ t : KD P, KD.Inv coord t → t.sphere coord sq p r2 = t.slice.any (fun c => decide (sq p c ≤ r2)) := by
  intro t
  induction t with
  | nil => intro _; rfl
  | node c ax l g ihl ihg =>
      intro hinv
      obtain ⟨hl, hg, il, ig⟩ := hinv
      obtain ⟨far1, far2⟩ := far_ge coord sq hplane p c ax
      simp only [KD.sphere, KD.slice, List.any_append, List.any_cons]
      rw [ihl il, ihg ig]
      by_cases hc : sq p c ≤ r2
      · simp [hc]
      · simp only [hc, if_false, decide_false, Bool.false_or]
        by_cases hpd : 0 < coord c ax - coord p ax
        · simp only [hpd, if_true, true_and, not_true_eq_false, false_and, if_false]
          by_cases hr : (coord c ax - coord p ax) * (coord c ax - coord p ax) ≤ r2
          · simp only [hr, if_true]
            cases l.slice.any (fun c => decide (sq p c ≤ r2)) <;> simp
          · simp only [hr, if_false]
            have : g.slice.any (fun c => decide (sq p c ≤ r2)) = false := by
              rw [List.any_eq_false]; intro q hq
              have := far1 hpd q (hg q hq)
              simp only [decide_eq_true_eq, not_le]
              exact lt_of_lt_of_le (not_le.1 hr) this
            rw [this]
            cases l.slice.any (fun c => decide (sq p c ≤ r2)) <;> simp
        · simp only [hpd, if_false, false_and, not_false_eq_true, true_and]
          by_cases hr : (coord c ax - coord p ax) * (coord c ax - coord p ax) ≤ r2
          · simp only [hr, if_true]
            cases l.slice.any (fun c => decide (sq p c ≤ r2)) <;>
              cases g.slice.any (fun c => decide (sq p c ≤ r2)) <;> simp
          · simp only [hr, if_false]
            have : l.slice.any (fun c => decide (sq p c ≤ r2)) = false := by
              rw [List.any_eq_false]; intro q hq
              have := far2 hpd q (hl q hq)
              simp only [decide_eq_true_eq, not_le]
              exact lt_of_lt_of_le (not_le.1 hr) this
            rw [this]
            cases g.slice.any (fun c => decide (sq p c ≤ r2)) <;> simp

/-! ### k nearest -/

theorem KD.knn_eq_search (coord : P → Nat → K) (sq : P → P → K) (k : Nat) (p : P) :
    ∀ (t : KD P) (s : List (K × P)),
      t.knn coord sq k p s =
        KD.search coord p (fun s c => knnInsert k s c (sq p c))
          (fun x s => ltMax x (knnMaxDist k s)) t s := by
  intro t
  induction t with
  | nil => intro s; rfl
  | node c ax l g ihl ihg => intro s; simp only [KD.knn, KD.search, ihl, ihg]

theorem knn_skip (sq : P → P → K) (k : Nat) (p : P) (s : List (K × P)) (x : K) (q : P)
    (h : ltMax x (knnMaxDist k s) = false) (hx : x ≤ sq p q) :
    knnInsert k s q (sq p q) = s := by
  unfold knnInsert
  cases hm : knnMaxDist k s with
  | none => rw [hm] at h; simp [ltMax] at h
  | some m =>
      rw [hm] at h
      simp only [ltMax, decide_eq_false_iff_not, not_lt] at h
      have : ¬ sq p q < m := not_lt.2 (le_trans h hx)
      simp [geMax, this]

/-- **`knn` = the linear scan with the same bounded insertion, over the points in visiting order.** -/
theorem KD.knn_eq_scan (coord : P → Nat → K) (sq : P → P → K)
    (hplane : ∀ p q ax, (coord q ax - coord p ax) * (coord q ax - coord p ax) ≤ sq p q)
    (k : Nat) (p : P) (t : KD P) (s : List (K × P)) (h : KD.Inv coord t) :
    t.knn coord sq k p s = scanKNN sq k p (KD.visitOrder coord p t) s := by
  rw [KD.knn_eq_search]
  exact KD.search_eq_foldl coord sq hplane p _ _ (fun s x q => knn_skip sq k p s x q) t s h

/-! ### from a tree over point ids to the tree over points -/

theorem KD.slice_map {Q : Type} (f : P → Q) : ∀ t : KD P, (t.map f).slice = t.slice.map f
  | .nil => rfl
  | .node c a l g => by simp [KD.map, KD.slice, KD.slice_map f l, KD.slice_map f g]

theorem KD.inv_map {Q : Type} {α : Type} [LT α] (f : P → Q) (coord : Q → Nat → α) :
    ∀ t : KD P, KD.Inv (fun i ax => coord (f i) ax) t → KD.Inv coord (t.map f)
  | .nil, _ => trivial
  | .node c a l g, h => by
      obtain ⟨hl, hg, il, ig⟩ := h
      refine ⟨?_, ?_, KD.inv_map f coord l il, KD.inv_map f coord g ig⟩
      · intro q hq
        rw [KD.slice_map] at hq
        obtain ⟨i, hi, rfl⟩ := List.mem_map.1 hq
        exact hl i hi
      · intro q hq
        rw [KD.slice_map] at hq
        obtain ⟨i, hi, rfl⟩ := List.mem_map.1 hq
        exact hg i hi

/-! ### the geometric fact for `V3` / `V2` -/

theorem hplane3 (p q : V3 K) (ax : Nat) :
    (coord3 q ax - coord3 p ax) * (coord3 q ax - coord3 p ax) ≤ p.sqDist q := by
  have hx := mul_self_nonneg (p.x - q.x)
  have hy := mul_self_nonneg (p.y - q.y)
  have hz := mul_self_nonneg (p.z - q.z)
  unfold V3.sqDist coord3
  match ax with
  | 0 => simp only; nlinarith
  | 1 => simp only; nlinarith
  | 2 => simp only; nlinarith
  | (n + 3) => simp only [sub_self, mul_zero]; nlinarith

theorem hplane2 (p q : V2 K) (ax : Nat) :
    (coord2 q ax - coord2 p ax) * (coord2 q ax - coord2 p ax) ≤ p.sqDist q := by
  have hx := mul_self_nonneg (p.x - q.x)
  have hy := mul_self_nonneg (p.y - q.y)
  unfold V2.sqDist coord2
  match ax with
  | 0 => simp only; nlinarith
  | 1 => simp only; nlinarith
  | (n + 2) => simp only [sub_self, mul_zero]; nlinarith

end M3d.Spatial
