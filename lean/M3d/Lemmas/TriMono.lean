import M3d.Lemmas.TriCert
/-!
Helper lemmas for C14, part 5: the stack algorithm `triangulateMonotoneMesh`.

Invariant (all lists top/latest first; `U`, `L` the processed upper / lower chain, both ending in
the start vertex): with `pS l = Σ shoelace terms along l`, `aS = Σ orient of emitted triangles`,

    stack on the upper chain:  aS = pS L − pS U + pS stack,  top = head U,  bottom = head L
    stack on the lower chain:  aS = pS L − pS U − pS stack,  top = head L,  bottom = head U

i.e. the emitted triangles tile the region between the processed boundary and the funnel (stack).
-/
namespace M3d.Tri
open M3d.Surface (Tri Edge)

section Field
variable {K : Type} [Field K] [LinearOrder K] [IsStrictOrderedRing K]
variable (c : Nat → P2 K)

/-- shoelace terms along a path of vertex ids -/
def pS (l : List Nat) : K := pathSum (l.map c)
/-- total (twice signed) area of id triangles -/
def aS (ts : List Tri) : K := sumF (triOrient c) ts

theorem pS_nil : pS c [] = 0 := rfl
theorem pS_single (a : Nat) : pS c [a] = 0 := rfl
theorem pS_cons_cons (a b : Nat) (t : List Nat) : pS c (a :: b :: t) = cross (c a) (c b) + pS c (b :: t) := rfl

theorem pS_cons_of_head {S : List Nat} {top : Nat} (h : S.head? = some top) (v : Nat) :
    pS c (v :: S) = cross (c v) (c top) + pS c S := by
  cases S with
  | nil => cases h
  | cons a t => simp only [List.head?_cons, Option.some.injEq] at h; subst h; rfl

theorem aS_nil : aS c [] = 0 := rfl
theorem aS_cons (t : Tri) (ts : List Tri) : aS c (t :: ts) = triOrient c t + aS c ts := rfl
theorem aS_append (ts us : List Tri) : aS c (ts ++ us) = aS c ts + aS c us := sumF_append _ _ _

theorem triOrient_flip (t : Tri) : triOrient c (flipTri t) = -triOrient c t := by
  simp only [triOrient, flipTri]; exact orient_swap _ _ _

theorem aS_map_flip (ts : List Tri) : aS c (ts.map flipTri) = -aS c ts := by
  induction ts with
  | nil => simp [aS_nil]
  | cons t ts ih => simp only [List.map_cons, aS_cons, ih, triOrient_flip]; ring

theorem aS_map_rawFan (ty : VType) (ts : List Tri) :
    aS c (ts.map (rawFan ty)) = (if ty = .upper then 1 else -1) * aS c ts := by
  by_cases h : ty = .upper
  · have : ts.map (rawFan ty) = ts := by
      rw [List.map_congr_left (g := id) (fun t _ => by simp [rawFan, h])]; simp
    rw [this, if_pos h]; ring
  · have : ts.map (rawFan ty) = ts.map flipTri :=
      List.map_congr_left (fun t _ => by simp [rawFan, h])
    rw [this, if_neg h, aS_map_flip]; ring

/-- Fan of a forward (bottom first) chain towards `v`. -/
theorem fan_sum (v : Nat) : ∀ (F : List Nat) (a z : Nat), F.head? = some a → F.getLast? = some z →
    aS c (fanTris F v) = pS c F + cross (c z) (c v) + cross (c v) (c a) := by
  intro F
  induction F with
  | nil => intro a z h; cases h
  | cons x t ih =>
    intro a z ha hz
    simp only [List.head?_cons, Option.some.injEq] at ha; subst ha
    cases t with
    | nil =>
      simp only [List.getLast?_singleton, Option.some.injEq] at hz; subst hz
      simp only [fanTris, aS_nil, pS_single, cross_antisymm (c x) (c v)]; ring
    | cons y t' =>
      have hz' : (y :: t').getLast? = some z := by simpa [List.getLast?_cons_cons] using hz
      have := ih y z rfl hz'
      simp only [fanTris, aS_cons, this, pS_cons_cons, triOrient, orient_eq_cross,
        cross_antisymm (c y) (c v)]
      ring

theorem pathSum_snoc : ∀ (l : List (P2 K)) (z a : P2 K), l.getLast? = some z →
    pathSum (l ++ [a]) = pathSum l + cross z a := by
  intro l
  induction l with
  | nil => intro z a h; cases h
  | cons x t ih =>
    intro z a h
    cases t with
    | nil =>
      simp only [List.getLast?_singleton, Option.some.injEq] at h; subst h
      simp
    | cons y t' =>
      have h' : (y :: t').getLast? = some z := by simpa [List.getLast?_cons_cons] using h
      have := ih z a h'
      simp only [List.cons_append, pathSum_cons_cons] at this ⊢
      rw [this]; ring

theorem pathSum_reverse (l : List (P2 K)) : pathSum l.reverse = -pathSum l := by
  induction l with
  | nil => simp
  | cons a t ih =>
    cases t with
    | nil => simp
    | cons b t' =>
      rw [List.reverse_cons, pathSum_snoc _ b a (by simp), ih, pathSum_cons_cons, cross_antisymm a b]
      ring

theorem pS_reverse (l : List Nat) : pS c l.reverse = -pS c l := by
  unfold pS; rw [List.map_reverse, pathSum_reverse]

/-- Fan of a stack kept top first. -/
theorem fan_sum_stack (v : Nat) (S : List Nat) (top bot : Nat) (ht : S.head? = some top)
    (hb : S.getLast? = some bot) :
    aS c (fanTris S.reverse v) = -pS c S + cross (c top) (c v) + cross (c v) (c bot) := by
  rw [fan_sum c v S.reverse bot top (by simpa using hb) (by simpa using ht), pS_reverse]

theorem fanTris_length (v : Nat) : ∀ F : List Nat, (fanTris F v).length = F.length - 1 := by
  intro F
  induction F with
  | nil => rfl
  | cons x t ih =>
    cases t with
    | nil => rfl
    | cons y t' => simp only [fanTris, List.length_cons, ih]; omega

/-- The same-chain pop loop: the stack keeps its bottom, and the path `v :: stack` changes by
exactly the emitted triangles (sign by chain). -/
theorem popLoop_spec (upper : Bool) (v : Nat) : ∀ (S : List Nat) (acc : List Tri), S ≠ [] →
    (popLoop c upper v S acc).1 ≠ [] ∧
    (popLoop c upper v S acc).1.getLast? = S.getLast? ∧
    pS c (v :: (popLoop c upper v S acc).1) + (if upper then 1 else -1) * aS c acc
      = pS c (v :: S) + (if upper then 1 else -1) * aS c (popLoop c upper v S acc).2 ∧
    (popLoop c upper v S acc).2.length + (popLoop c upper v S acc).1.length = acc.length + S.length := by
  intro S
  induction S with
  | nil => intro acc h; exact absurd rfl h
  | cons top rest ih =>
    intro acc _
    cases rest with
    | nil => simp [popLoop]
    | cons below rest' =>
      cases upper
      · -- lower chain
        by_cases hc : orient (c below) (c top) (c v) ≤ 0
        · have e : popLoop c false v (top :: below :: rest') acc = (top :: below :: rest', acc) := by
            simp [popLoop, hc]
          rw [e]; simp
        · have e : popLoop c false v (top :: below :: rest') acc
              = popLoop c false v (below :: rest') (acc ++ [(top, below, v)]) := by
            simp [popLoop, hc]
          rw [e]
          obtain ⟨h1, h2, h3, h4⟩ := ih (acc ++ [(top, below, v)]) (by simp)
          refine ⟨h1, by simpa [List.getLast?_cons_cons] using h2, ?_, by simp at h4 ⊢; omega⟩
          simp only [Bool.false_eq_true, if_false, aS_append, aS_cons, aS_nil, pS_cons_cons, triOrient,
            orient_eq_cross, cross_antisymm (c v) (c below)] at h3 ⊢
          linear_combination h3
      · -- upper chain
        by_cases hc : 0 ≤ orient (c below) (c top) (c v)
        · have e : popLoop c true v (top :: below :: rest') acc = (top :: below :: rest', acc) := by
            simp [popLoop, hc]
          rw [e]; simp
        · have e : popLoop c true v (top :: below :: rest') acc
              = popLoop c true v (below :: rest') (acc ++ [(below, top, v)]) := by
            simp [popLoop, hc]
          rw [e]
          obtain ⟨h1, h2, h3, h4⟩ := ih (acc ++ [(below, top, v)]) (by simp)
          refine ⟨h1, by simpa [List.getLast?_cons_cons] using h2, ?_, by simp at h4 ⊢; omega⟩
          simp only [if_true, aS_append, aS_cons, aS_nil, pS_cons_cons, triOrient,
            orient_eq_cross, cross_antisymm (c top) (c below), cross_antisymm (c v) (c top)] at h3 ⊢
          linear_combination h3

/-! ### the invariant -/

structure MonoInv (s : MonoState) (U L : List Nat) : Prop where
  ex : ∃ top bot uh lh, s.stack.head? = some top ∧ s.stack.getLast? = some bot ∧
    U.head? = some uh ∧ L.head? = some lh ∧
    ((s.stackType = .upper ∧ top = uh ∧ bot = lh ∧ aS c s.tris = pS c L - pS c U + pS c s.stack) ∨
     (s.stackType = .lower ∧ top = lh ∧ bot = uh ∧ aS c s.tris = pS c L - pS c U - pS c s.stack))
  cnt : s.tris.length + s.stack.length + 1 = U.length + L.length

/-- ghost update of the processed chains -/
def pushChain (ty : VType) (v : Nat) (UL : List Nat × List Nat) : List Nat × List Nat :=
  if ty = .upper then (v :: UL.1, UL.2) else (UL.1, v :: UL.2)

/-- One step with a chain vertex (`upper` or `lower`), `i ≥ 1`. -/
theorem monoStep_inv {s : MonoState} {U L : List Nat} (h : MonoInv c s U L) (i : Nat) (hi : i ≠ 0)
    (last : Bool) (v : Nat) (ty : VType) (hty : ty = .upper ∨ ty = .lower) :
    MonoInv c (monoStepG rawFan c s i last v ty) (pushChain ty v (U, L)).1 (pushChain ty v (U, L)).2 := by
  obtain ⟨⟨top, bot, uh, lh, ht, hb, hU, hL, hcase⟩, hcnt⟩ := h
  have hne : s.stack ≠ [] := by intro e; rw [e] at ht; cases ht
  have hend : ty ≠ .end := by rcases hty with h | h <;> rw [h] <;> decide
  unfold monoStepG
  rw [if_neg hi, if_neg hend]
  by_cases hsame : ty = s.stackType
  · -- same chain: pop loop
    rw [if_neg (not_not.2 hsame)]
    have hul : s.stackType = .upper ∨ s.stackType = .lower := hsame ▸ hty
    rw [if_pos hul]
    obtain ⟨p1, p2, p3, p4⟩ := popLoop_spec c (decide (s.stackType = .upper)) v s.stack [] hne
    simp only [aS_nil, mul_zero, add_zero, List.length_nil, Nat.zero_add] at p3 p4
    rcases hcase with ⟨hst, htu, hbl, harea⟩ | ⟨hst, htl, hbu, harea⟩
    · -- upper
      have hty' : ty = .upper := hsame.trans hst
      simp only [hst, decide_true, if_true, one_mul] at p1 p2 p3 p4 ⊢
      refine ⟨⟨v, bot, v, lh, rfl, ?_, ?_, ?_, Or.inl ⟨rfl, rfl, hbl, ?_⟩⟩, ?_⟩
      · rw [List.getLast?_cons_of_ne_nil p1] at *; rw [p2, hb]
      · simp [pushChain, hty']
      · simpa [pushChain, hty'] using hL
      · simp only [pushChain, hty', if_true, aS_append]
        rw [pS_cons_of_head c hU v, harea, p3, pS_cons_of_head c ht v, htu]; ring
      · simp only [pushChain, hty', if_true, List.length_append, List.length_cons]; omega
    · -- lower
      have hty' : ty = .lower := hsame.trans hst
      have hnu : ¬ (VType.lower = VType.upper) := by decide
      simp only [hst, hnu, decide_false, Bool.false_eq_true, if_false] at p1 p2 p3 p4 ⊢
      refine ⟨⟨v, bot, uh, v, rfl, ?_, ?_, ?_, Or.inr ⟨rfl, rfl, hbu, ?_⟩⟩, ?_⟩
      · rw [List.getLast?_cons_of_ne_nil p1]; rw [p2, hb]
      · simpa [pushChain, hty', hnu] using hU
      · simp [pushChain, hty', hnu]
      · simp only [pushChain, hty', hnu, if_false, aS_append]
        rw [pS_cons_of_head c hL v, harea]
        have e := pS_cons_of_head c ht v
        rw [htl] at e
        linear_combination p3 + e
      · simp only [pushChain, hty', hnu, if_false, List.length_append, List.length_cons]; omega
  · -- opposite chain: fan
    rw [if_pos hsame]
    have hfan := fan_sum_stack c v s.stack top bot ht hb
    have hhd : s.stack.headD 0 = top := by
      cases hs : s.stack with
      | nil => exact absurd hs hne
      | cons a t => rw [hs] at ht; simpa using ht
    have hlen := fanTris_length v s.stack.reverse
    rcases hcase with ⟨hst, htu, hbl, harea⟩ | ⟨hst, htl, hbu, harea⟩
    · -- stack upper, v lower
      have hty' : ty = .lower := by
        rcases hty with h | h
        · exact absurd (h.trans hst.symm) hsame
        · exact h
      have hnu : ¬ (VType.lower = VType.upper) := by decide
      refine ⟨⟨v, top, uh, v, ?_, ?_, ?_, ?_, Or.inr ⟨by simp [hty'], rfl, htu, ?_⟩⟩, ?_⟩
      · simp
      · simp [ht]
      · simpa [pushChain, hty', hnu] using hU
      · simp [pushChain, hty', hnu]
      · simp only [pushChain, hty', hnu, if_false, aS_append, aS_map_rawFan, hst, if_true, one_mul, hhd]
        rw [pS_cons_of_head c hL v, harea, hfan, hbl, pS_cons_cons, pS_single, cross_antisymm (c v) (c top)]
        ring
      · simp only [pushChain, hty', hnu, if_false, List.length_append, List.length_map, hlen,
          List.length_reverse, List.length_cons, List.length_nil]
        have : 0 < s.stack.length := List.length_pos_of_ne_nil hne
        omega
    · -- stack lower, v upper
      have hty' : ty = .upper := by
        rcases hty with h | h
        · exact h
        · exact absurd (h.trans hst.symm) hsame
      have hnu : ¬ (VType.lower = VType.upper) := by decide
      refine ⟨⟨v, top, v, lh, ?_, ?_, ?_, ?_, Or.inl ⟨by simp [hty'], rfl, htl, ?_⟩⟩, ?_⟩
      · simp
      · simp [ht]
      · simp [pushChain, hty']
      · simpa [pushChain, hty'] using hL
      · simp only [pushChain, hty', if_true, aS_append, aS_map_rawFan, hst, hnu, if_false, hhd]
        rw [pS_cons_of_head c hU v, harea, hfan, hbu, pS_cons_cons, pS_single, cross_antisymm (c v) (c top)]
        ring
      · simp only [pushChain, hty', if_true, List.length_append, List.length_map, hlen,
          List.length_reverse, List.length_cons, List.length_nil]
        have : 0 < s.stack.length := List.length_pos_of_ne_nil hne
        omega

/-- The final step with the end vertex. -/
theorem monoStep_end {s : MonoState} {U L : List Nat} (h : MonoInv c s U L) (i : Nat) (hi : i ≠ 0)
    (last : Bool) (e : Nat) :
    ∃ uh lh, U.head? = some uh ∧ L.head? = some lh ∧
    aS c (monoStepG rawFan c s i last e .end).tris
      = pS c L - pS c U + cross (c uh) (c e) + cross (c e) (c lh) ∧
    (monoStepG rawFan c s i last e .end).stack = [] ∧
    (monoStepG rawFan c s i last e .end).tris.length + 2 = U.length + L.length := by
  obtain ⟨⟨top, bot, uh, lh, ht, hb, hU, hL, hcase⟩, hcnt⟩ := h
  have hne : s.stack ≠ [] := by intro e; rw [e] at ht; cases ht
  unfold monoStepG
  rw [if_neg hi, if_pos rfl]
  have hfan := fan_sum_stack c e s.stack top bot ht hb
  have hlen := fanTris_length e s.stack.reverse
  have hpos : 0 < s.stack.length := List.length_pos_of_ne_nil hne
  refine ⟨uh, lh, hU, hL, ?_, rfl, ?_⟩
  · simp only [aS_append, aS_map_rawFan]
    have hnu : ¬ (VType.lower = VType.upper) := by decide
    rcases hcase with ⟨hst, htu, hbl, harea⟩ | ⟨hst, htl, hbu, harea⟩
    · rw [hst, if_pos rfl, harea, hfan, htu, hbl]; ring
    · rw [hst, if_neg hnu, harea, hfan, htl, hbu, cross_antisymm (c e) (c lh), cross_antisymm (c uh) (c e)]; ring
  · simp only [List.length_append, List.length_map, hlen, List.length_reverse]; omega

/-! ### the loop -/

theorem monoLoopG_append (fan : VType → Tri → Tri) (ty : Nat → VType) (n : Nat) :
    ∀ (xs ys : List Nat) (s : MonoState) (i : Nat),
    monoLoopG fan c ty n s i (xs ++ ys) = monoLoopG fan c ty n (monoLoopG fan c ty n s i xs) (i + xs.length) ys := by
  intro xs
  induction xs with
  | nil => intro ys s i; rfl
  | cons x xs ih =>
    intro ys s i
    simp only [List.cons_append, monoLoopG, ih, List.length_cons]
    congr 1; omega

/-- ghost chains after processing the chain vertices `vs` -/
def chains (ty : Nat → VType) : List Nat → List Nat × List Nat → List Nat × List Nat
  | [], UL => UL
  | v :: vs, UL => chains ty vs (pushChain (ty v) v UL)

theorem monoLoop_inv (ty : Nat → VType) (n : Nat) : ∀ (vs : List Nat) (s : MonoState) (i : Nat) (U L : List Nat),
    i ≠ 0 → MonoInv c s U L → (∀ v ∈ vs, ty v = .upper ∨ ty v = .lower) →
    MonoInv c (monoLoopG rawFan c ty n s i vs) (chains ty vs (U, L)).1 (chains ty vs (U, L)).2 := by
  intro vs
  induction vs with
  | nil => intro s i U L _ h _; exact h
  | cons v vs ih =>
    intro s i U L hi h hty
    simp only [monoLoopG, chains]
    have hstep := monoStep_inv c h i hi (i + 2 == n) v (ty v) (hty v (by simp))
    exact ih _ (i + 1) _ _ (by omega) hstep (fun w hw => hty w (by simp [hw]))


/-! ### the whole run -/

theorem chains_append (ty : Nat → VType) (X Y : List Nat) : ∀ (vs A B : List Nat),
    chains ty vs (A ++ X, B ++ Y) = ((chains ty vs (A, B)).1 ++ X, (chains ty vs (A, B)).2 ++ Y) := by
  intro vs
  induction vs with
  | nil => intro A B; rfl
  | cons v vs ih =>
    intro A B
    simp only [chains, pushChain]
    split
    · exact ih (v :: A) B
    · exact ih A (v :: B)

/-- The polygon a monotone run describes: start vertex, upper chain in sweep order, end vertex,
lower chain in reverse sweep order (clockwise when the upper chain is above the lower one). -/
def monoPolygon (ty : Nat → VType) (v0 : Nat) (mid : List Nat) (e : Nat) : List Nat :=
  v0 :: (chains ty mid ([], [])).1.reverse ++ e :: (chains ty mid ([], [])).2

theorem shoelace2_monoPolygon (v0 e : Nat) (U' L' : List Nat) (uh lh : Nat)
    (hU : (U' ++ [v0]).head? = some uh) (hL : (L' ++ [v0]).head? = some lh) :
    shoelace2 ((v0 :: U'.reverse ++ e :: L').map c)
      = pS c (L' ++ [v0]) - pS c (U' ++ [v0]) + cross (c uh) (c e) + cross (c e) (c lh) := by
  have h1 : shoelace2 ((v0 :: U'.reverse ++ e :: L').map c)
      = pathSum (((v0 :: U'.reverse).map c) ++ c e :: ((L' ++ [v0]).map c)) := by
    simp [shoelace2_cons]
  rw [h1, pathSum_append]
  have h2 : (v0 :: U'.reverse).map c = ((U' ++ [v0]).map c).reverse := by simp
  have h3 : (((U' ++ [v0]).map c).reverse).getLast? = some (c uh) := by
    rw [List.getLast?_reverse, List.head?_map, hU]; rfl
  rw [h2, pathSum_snoc _ (c uh) (c e) h3, pathSum_reverse]
  have h4 : pathSum (c e :: (L' ++ [v0]).map c) = cross (c e) (c lh) + pS c (L' ++ [v0]) := by
    have := pS_cons_of_head c hL e
    simpa [pS] using this
  rw [h4]; simp only [pS]; ring

theorem monoRun_spec (ty : Nat → VType) (n : Nat) (v0 v1 e : Nat) (mid : List Nat)
    (hv1 : ty v1 = .upper ∨ ty v1 = .lower) (hmid : ∀ v ∈ mid, ty v = .upper ∨ ty v = .lower)
    (he : ty e = .end) :
    let s := monoLoopG rawFan c ty n ⟨[v0], .start, [], true⟩ 0 (v1 :: mid ++ [e])
    aS c s.tris = shoelace2 ((monoPolygon ty v0 (v1 :: mid) e).map c) ∧ s.stack = [] ∧
      s.tris.length + 2 = (monoPolygon ty v0 (v1 :: mid) e).length := by
  intro s
  -- first step (i = 0): push v1, remember its chain
  have hs1 : monoStepG rawFan c ⟨[v0], .start, [], true⟩ 0 (0 + 2 == n) v1 (ty v1)
      = ⟨[v1, v0], ty v1, [], true⟩ := by simp [monoStepG]
  have hinv1 : MonoInv c ⟨[v1, v0], ty v1, [], true⟩ (pushChain (ty v1) v1 ([v0], [v0])).1
      (pushChain (ty v1) v1 ([v0], [v0])).2 := by
    rcases hv1 with h | h
    · refine ⟨⟨v1, v0, v1, v0, rfl, rfl, by simp [pushChain, h], by simp [pushChain, h],
        Or.inl ⟨h, rfl, rfl, ?_⟩⟩, by simp [pushChain, h]⟩
      simp [pushChain, h, aS_nil, pS_single]
    · have hnu : ¬ (VType.lower = VType.upper) := by decide
      refine ⟨⟨v1, v0, v0, v1, rfl, rfl, by simp [pushChain, h, hnu], by simp [pushChain, h, hnu],
        Or.inr ⟨h, rfl, rfl, ?_⟩⟩, by simp [pushChain, h, hnu]⟩
      simp [pushChain, h, hnu, aS_nil, pS_single]
  have hloop : s = monoStepG rawFan c
      (monoLoopG rawFan c ty n ⟨[v1, v0], ty v1, [], true⟩ 1 mid) (1 + mid.length)
      (1 + mid.length + 2 == n) e .end := by
    show monoLoopG rawFan c ty n _ 0 (v1 :: (mid ++ [e])) = _
    rw [monoLoopG, hs1, monoLoopG_append]
    simp only [monoLoopG, he]
  have hinv := monoLoop_inv c ty n mid _ 1 _ _ (by omega) hinv1 hmid
  obtain ⟨uh, lh, hU, hL, harea, hstack, hcnt⟩ :=
    monoStep_end c hinv (1 + mid.length) (by omega) (1 + mid.length + 2 == n) e
  rw [← hloop] at harea hstack hcnt
  -- the ghost chains in `U' ++ [v0]` form
  have hch : chains ty mid (pushChain (ty v1) v1 ([v0], [v0]))
      = ((chains ty (v1 :: mid) ([], [])).1 ++ [v0], (chains ty (v1 :: mid) ([], [])).2 ++ [v0]) := by
    have := chains_append ty [v0] [v0] (v1 :: mid) [] []
    simpa [chains] using this
  rw [hch] at hU hL harea hcnt
  refine ⟨?_, hstack, ?_⟩
  · rw [harea]
    exact (shoelace2_monoPolygon c v0 e _ _ uh lh hU hL).symm
  · simp only [monoPolygon, List.length_cons, List.length_append, List.length_reverse] at hcnt ⊢
    omega

end Field
end M3d.Tri
