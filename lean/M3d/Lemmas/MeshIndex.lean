import M3d.Model.Mesh
import M3d.Lemmas.FastMapOps
/-! Coherence of the lazily built vertex→faces index of `Mesh` with the face set. Core-only. -/
namespace M3d.Mesh
open M3d.FastMap
set_option linter.unusedSectionVars false

/-- `unorderedDelete` removes exactly one copy of the element at position `i`. -/
theorem unorderedDelete_perm (s : List Nat) (i : Nat) (hi : i < s.length) :
    (s[i] :: unorderedDelete s i).Perm s := by
  unfold unorderedDelete
  cases hl : s.getLast? with
  | none =>
    have : s = [] := by simpa using hl
    subst this; simp at hi
  | some l =>
    obtain ⟨a, rfl⟩ := List.getLast?_eq_some_iff.1 hl
    simp only
    by_cases hia : i < a.length
    · rw [List.set_append_left i l hia, List.dropLast_concat]
      have hget : (a ++ [l])[i] = a[i] := by simp [List.getElem_append_left hia]
      rw [hget, List.set_eq_take_append_cons_drop, if_pos hia]
      -- a[i] :: (take i a ++ l :: drop (i+1) a)  ~  a ++ [l]
      have h1 : (a[i] :: (List.take i a ++ l :: List.drop (i + 1) a)).Perm
          (a[i] :: l :: (List.take i a ++ List.drop (i + 1) a)) :=
        List.Perm.cons _ List.perm_middle
      have h2 : (a[i] :: l :: (List.take i a ++ List.drop (i + 1) a)).Perm
          (l :: a[i] :: (List.take i a ++ List.drop (i + 1) a)) := List.Perm.swap _ _ _
      have h3 : (a[i] :: (List.take i a ++ List.drop (i + 1) a)).Perm a := by
        have := (List.perm_middle (a := a[i]) (l₁ := List.take i a) (l₂ := List.drop (i + 1) a)).symm
        rw [List.getElem_cons_drop hia, List.take_append_drop] at this
        exact this
      have h4 : (l :: a).Perm (a ++ [l]) := by
        simpa using (List.perm_middle (a := l) (l₁ := a) (l₂ := [])).symm
      exact h1.trans (h2.trans ((List.Perm.cons _ h3).trans h4))
    · have hie : i = a.length := by simp at hi; omega
      subst hie
      have hget : (a ++ [l])[a.length] = l := by simp
      have hset : (a ++ [l]).set a.length l = a ++ [l] := by
        apply List.ext_getElem (by simp)
        intro j h1 h2
        by_cases e : j = a.length
        · subst e; simp
        · simp
      rw [hget, hset, List.dropLast_concat]
      simpa using (List.perm_middle (a := l) (l₁ := a) (l₂ := [])).symm

/-- What `removeFaceFromVertex` does to the slice stored under a vertex. -/
def rmFace (f : Nat) (s : List Nat) : List Nat :=
  match s.findIdx? (· = f) with
  | some i => unorderedDelete s i
  | none => s

theorem rmFace_perm {f : Nat} {s : List Nat} (hf : f ∈ s) : (rmFace f s).Perm (s.erase f) := by
  unfold rmFace
  cases hfi : s.findIdx? (· = f) with
  | none =>
    have := List.findIdx?_eq_none_iff.1 hfi f hf
    simp at this
  | some i =>
    obtain ⟨hi, hp, _⟩ := List.findIdx?_eq_some_iff_getElem.1 hfi
    have e : s[i] = f := by simpa using hp
    have h1 := unorderedDelete_perm s i hi
    rw [e] at h1
    exact (h1.trans (List.perm_cons_erase hf)).cons_inv

variable (h : Nat → UInt64)

/-- Folding `Append(p, f)` over distinct vertices. -/
theorem fold_append (f : Nat) : ∀ (U : List Nat), U.Nodup → ∀ (ix : FM Nat (List Nat)), Inv h ix →
    Inv h (U.foldl (fun ix p => append h ix p f) ix) ∧
    ∀ p, load h (U.foldl (fun ix p => append h ix p f) ix) p =
      if p ∈ U then some ((load h ix p).getD [] ++ [f]) else load h ix p := by
  intro U
  induction U with
  | nil => intro _ ix hi; exact ⟨hi, fun p => by simp⟩
  | cons u U ih =>
    intro hn ix hi
    have hn' : u ∉ U ∧ U.Nodup := by simpa using hn
    have hi1 := inv_append hi u f
    obtain ⟨hinv, hl⟩ := ih hn'.2 (append h ix u f) hi1
    refine ⟨hinv, fun p => ?_⟩
    simp only [List.foldl_cons]
    rw [hl p, load_append hi]
    by_cases e : p = u
    · subst e; simp [hn'.1]
    · simp [e]

/-- One `removeFaceFromVertex`. -/
theorem load_removeFace (ix : FM Nat (List Nat)) (hi : Inv h ix) (f p p' : Nat) :
    Inv h (removeFaceFromVertex h ix f p) ∧
    load h (removeFaceFromVertex h ix f p) p' =
      if p' = p then
        (if (rmFace f ((load h ix p).getD [])).isEmpty then none
         else some (rmFace f ((load h ix p).getD [])))
      else load h ix p' := by
  have e : removeFaceFromVertex h ix f p =
      (if (rmFace f ((load h ix p).getD [])).isEmpty then delete h ix p
       else store h ix p (rmFace f ((load h ix p).getD []))) := by
    unfold removeFaceFromVertex rmFace; rfl
  rw [e]
  by_cases he : (rmFace f ((load h ix p).getD [])).isEmpty
  · simp only [he, if_true]
    exact ⟨inv_delete hi p, load_delete hi p p'⟩
  · have he' : (rmFace f ((load h ix p).getD [])).isEmpty = false := by simpa using he
    simp only [he', Bool.false_eq_true, if_false]
    exact ⟨inv_store hi p _, load_store hi p p' _⟩

theorem fold_remove (f : Nat) : ∀ (U : List Nat), U.Nodup → ∀ (ix : FM Nat (List Nat)), Inv h ix →
    Inv h (U.foldl (fun ix p => removeFaceFromVertex h ix f p) ix) ∧
    ∀ p, load h (U.foldl (fun ix p => removeFaceFromVertex h ix f p) ix) p =
      if p ∈ U then
        (if (rmFace f ((load h ix p).getD [])).isEmpty then none
         else some (rmFace f ((load h ix p).getD [])))
      else load h ix p := by
  intro U
  induction U with
  | nil => intro _ ix hi; exact ⟨hi, fun p => by simp⟩
  | cons u U ih =>
    intro hn ix hi
    have hn' : u ∉ U ∧ U.Nodup := by simpa using hn
    have h1 := load_removeFace h ix hi f u
    obtain ⟨hinv, hl⟩ := ih hn'.2 (removeFaceFromVertex h ix f u) (h1 u).1
    refine ⟨hinv, fun p => ?_⟩
    simp only [List.foldl_cons]
    rw [hl p]
    by_cases e : p = u
    · subst e
      simp only [hn'.1, if_false, List.mem_cons, true_or, if_true]
      rw [(h1 p).2]; simp
    · by_cases e2 : p ∈ U
      · have : p ≠ u := e
        simp only [e2, if_true, List.mem_cons, or_true]
        rw [(h1 p).2]; simp [e]
      · simp only [e2, if_false, List.mem_cons, e, or_false]
        rw [(h1 p).2]; simp [e]

end M3d.Mesh
