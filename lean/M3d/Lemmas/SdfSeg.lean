import M3d.Lemmas.Sdf
/-!
C06 helper lemmas: `Segment.Closest` is the minimiser of the squared distance over the segment
(3-D and 2-D), and equals its `sqrt`-free form.
-/
namespace M3d.Sdf
set_option linter.unusedSectionVars false
set_option linter.unusedVariables false

variable {K : Type} [Field K] [LinearOrder K] [IsStrictOrderedRing K]

/-- the point of the line `s0 s1` with parameter `t` -/
def V3.lerp (s0 s1 : V3 K) (t : K) : V3 K := s0.add ((s1.sub s0).scale t)
def V2.lerp (s0 s1 : V2 K) (t : K) : V2 K := s0.add ((s1.sub s0).scale t)

/-- `|s0 + t v1 - c|² = C - 2 t B + t² A` -/
theorem lerp_sqDist3 (s0 s1 c : V3 K) (t : K) :
    (V3.lerp s0 s1 t).sqDist c =
      (c.sub s0).normSq - 2 * t * ((s1.sub s0).dot (c.sub s0)) + t * t * (s1.sub s0).normSq := by
  simp only [V3.lerp, V3.sqDist, V3.add, V3.sub, V3.scale, V3.normSq, V3.dot]; ring

theorem lerp_sqDist2 (s0 s1 c : V2 K) (t : K) :
    (V2.lerp s0 s1 t).sqDist c =
      (c.sub s0).normSq - 2 * t * ((s1.sub s0).dot (c.sub s0)) + t * t * (s1.sub s0).normSq := by
  simp only [V2.lerp, V2.sqDist, V2.add, V2.sub, V2.scale, V2.normSq, V2.dot]; ring

/-- scalar core: the clamped vertex of the parabola `C - 2 t B + t² A` minimises it over `[0,1]` -/
theorem quad_min {A B C : K} (hA : 0 < A) (t : K) (ht0 : 0 ≤ t) (ht1 : t ≤ 1) :
    (if A < B then C - 2 * 1 * B + 1 * 1 * A else if B < 0 then C - 2 * 0 * B + 0 * 0 * A
      else C - 2 * (B / A) * B + (B / A) * (B / A) * A) ≤ C - 2 * t * B + t * t * A := by
  split_ifs with h1 h2
  · nlinarith [mul_nonneg (sub_nonneg.mpr ht1) (sub_nonneg.mpr h1.le), mul_nonneg (sub_nonneg.mpr ht1) (mul_nonneg (sub_nonneg.mpr ht1) hA.le)]
  · nlinarith [mul_nonneg ht0 (neg_nonneg.mpr h2.le), mul_nonneg (mul_nonneg ht0 ht0) hA.le]
  · have hne : A ≠ 0 := hA.ne'
    have : C - 2 * t * B + t * t * A - (C - 2 * (B / A) * B + (B / A) * (B / A) * A) = A * (t - B / A) * (t - B / A) := by
      field_simp; ring
    nlinarith [mul_nonneg hA.le (mul_self_nonneg (t - B / A))]

/-- `Segment.Closest` in its `sqrt`-free form is on the segment. -/
theorem segClosestQ3_mem (s0 s1 c : V3 K) (hA : 0 < (s1.sub s0).normSq) :
    ∃ t, 0 ≤ t ∧ t ≤ 1 ∧ segClosestQ3 s0 s1 c = V3.lerp s0 s1 t := by
  unfold segClosestQ3
  have hd : (s1.sub s0).dot (s1.sub s0) = (s1.sub s0).normSq := rfl
  simp only [hd]
  split_ifs with h1 h2
  · exact ⟨1, zero_le_one, le_rfl, by ext <;> simp [V3.lerp, V3.add, V3.sub, V3.scale]⟩
  · exact ⟨0, le_rfl, zero_le_one, by ext <;> simp [V3.lerp, V3.add, V3.sub, V3.scale]⟩
  · refine ⟨(s1.sub s0).dot (c.sub s0) / (s1.sub s0).normSq, div_nonneg (not_lt.mp h2) hA.le,
      (div_le_one hA).mpr (not_lt.mp h1), ?_⟩
    ext <;> simp [V3.lerp, V3.add, V3.sub, V3.scale] <;> ring

theorem segClosestQ2_mem (s0 s1 c : V2 K) (hA : 0 < (s1.sub s0).normSq) :
    ∃ t, 0 ≤ t ∧ t ≤ 1 ∧ segClosestQ2 s0 s1 c = V2.lerp s0 s1 t := by
  unfold segClosestQ2
  have hd : (s1.sub s0).dot (s1.sub s0) = (s1.sub s0).normSq := rfl
  simp only [hd]
  split_ifs with h1 h2
  · exact ⟨1, zero_le_one, le_rfl, by ext <;> simp [V2.lerp, V2.add, V2.sub, V2.scale]⟩
  · exact ⟨0, le_rfl, zero_le_one, by ext <;> simp [V2.lerp, V2.add, V2.sub, V2.scale]⟩
  · refine ⟨(s1.sub s0).dot (c.sub s0) / (s1.sub s0).normSq, div_nonneg (not_lt.mp h2) hA.le,
      (div_le_one hA).mpr (not_lt.mp h1), ?_⟩
    ext <;> simp [V2.lerp, V2.add, V2.sub, V2.scale] <;> ring

theorem segClosestQ3_eq_lerp (s0 s1 c : V3 K) :
    segClosestQ3 s0 s1 c =
      V3.lerp s0 s1 (if (s1.sub s0).normSq < (s1.sub s0).dot (c.sub s0) then 1
        else if (s1.sub s0).dot (c.sub s0) < 0 then 0 else (s1.sub s0).dot (c.sub s0) / (s1.sub s0).normSq) := by
  unfold segClosestQ3
  have hd : (s1.sub s0).dot (s1.sub s0) = (s1.sub s0).normSq := rfl
  simp only [hd]
  split_ifs <;> ext <;> simp [V3.lerp, V3.add, V3.sub, V3.scale] <;> ring

theorem segClosestQ2_eq_lerp (s0 s1 c : V2 K) :
    segClosestQ2 s0 s1 c =
      V2.lerp s0 s1 (if (s1.sub s0).normSq < (s1.sub s0).dot (c.sub s0) then 1
        else if (s1.sub s0).dot (c.sub s0) < 0 then 0 else (s1.sub s0).dot (c.sub s0) / (s1.sub s0).normSq) := by
  unfold segClosestQ2
  have hd : (s1.sub s0).dot (s1.sub s0) = (s1.sub s0).normSq := rfl
  simp only [hd]
  split_ifs <;> ext <;> simp [V2.lerp, V2.add, V2.sub, V2.scale] <;> ring

/-- The `sqrt`-free `Segment.Closest` minimises the squared distance over the segment. -/
theorem segClosestQ3_le (s0 s1 c : V3 K) (hA : 0 < (s1.sub s0).normSq) (t : K) (ht0 : 0 ≤ t) (ht1 : t ≤ 1) :
    (segClosestQ3 s0 s1 c).sqDist c ≤ (V3.lerp s0 s1 t).sqDist c := by
  rw [segClosestQ3_eq_lerp, lerp_sqDist3, lerp_sqDist3]
  have := quad_min (C := (c.sub s0).normSq) (B := (s1.sub s0).dot (c.sub s0)) hA t ht0 ht1
  split_ifs at this ⊢ <;> linarith

theorem segClosestQ2_le (s0 s1 c : V2 K) (hA : 0 < (s1.sub s0).normSq) (t : K) (ht0 : 0 ≤ t) (ht1 : t ≤ 1) :
    (segClosestQ2 s0 s1 c).sqDist c ≤ (V2.lerp s0 s1 t).sqDist c := by
  rw [segClosestQ2_eq_lerp, lerp_sqDist2, lerp_sqDist2]
  have := quad_min (C := (c.sub s0).normSq) (B := (s1.sub s0).dot (c.sub s0)) hA t ht0 ht1
  split_ifs at this ⊢ <;> linarith

/-- With an exact square root the code's `Segment.Closest` (normalised direction, `mag` against `norm`)
is its `sqrt`-free form. -/
theorem segClosest3_eq_Q {E : Env K} (hE : E.Exact) (s0 s1 c : V3 K) (hA : 0 < (s1.sub s0).normSq) :
    segClosest3 E s0 s1 c = segClosestQ3 s0 s1 c := by
  obtain ⟨hn, hu, hun, huu⟩ := inv_norm_facts hE hA
  have hnn : (s1.sub s0).norm E * (s1.sub s0).norm E = (s1.sub s0).normSq := hE.sqrt_sq _ hA.le
  change 0 < (s1.sub s0).norm E at hn
  change 0 < 1 / (s1.sub s0).norm E at hu
  change 1 / (s1.sub s0).norm E * (s1.sub s0).norm E = 1 at hun
  change 1 / (s1.sub s0).norm E * (1 / (s1.sub s0).norm E) * (s1.sub s0).normSq = 1 at huu
  have hd : (s1.sub s0).dot (s1.sub s0) = (s1.sub s0).normSq := rfl
  have hmag : ((s1.sub s0).scale (1 / (s1.sub s0).norm E)).dot (c.sub s0)
      = 1 / (s1.sub s0).norm E * (s1.sub s0).dot (c.sub s0) := by
    simp only [V3.dot, V3.scale]; ring
  unfold segClosest3 segClosestQ3
  dsimp only
  generalize (s1.sub s0).norm E = n at *
  generalize (s1.sub s0).normSq = A at *
  generalize hu' : 1 / n = u at *
  have h1 : ∀ B : K, n < u * B ↔ A < B := by
    intro B
    constructor
    · intro h; have := mul_lt_mul_of_pos_left h hn; nlinarith
    · intro h; have h3 : u * A < u * B := mul_lt_mul_of_pos_left h hu
      have : u * A = n := by rw [← hnn]; linear_combination n * hun
      linarith
  have h2 : ∀ B : K, u * B < 0 ↔ B < 0 := by
    intro B
    constructor
    · intro h; by_contra hc; have := mul_nonneg hu.le (not_lt.mp hc); linarith
    · intro h; exact mul_neg_of_pos_of_neg hu h
  simp only [hmag, hd, h1, h2]
  have hAne : A ≠ 0 := hA.ne'
  have huA : u * u = 1 / A := by field_simp; linarith
  split_ifs
  · rfl
  · rfl
  · ext <;> simp only [V3.add, V3.scale] <;>
      rw [show ∀ B : K, B / A = B * (1 / A) from fun B => by ring, ← huA] <;> ring

theorem segClosest2_eq_Q {E : Env K} (hE : E.Exact) (s0 s1 c : V2 K) (hA : 0 < (s1.sub s0).normSq) :
    segClosest2 E s0 s1 c = segClosestQ2 s0 s1 c := by
  obtain ⟨hn, hu, hun, huu⟩ := inv_norm_facts hE hA
  have hnn : (s1.sub s0).norm E * (s1.sub s0).norm E = (s1.sub s0).normSq := hE.sqrt_sq _ hA.le
  change 0 < (s1.sub s0).norm E at hn
  change 0 < 1 / (s1.sub s0).norm E at hu
  change 1 / (s1.sub s0).norm E * (s1.sub s0).norm E = 1 at hun
  change 1 / (s1.sub s0).norm E * (1 / (s1.sub s0).norm E) * (s1.sub s0).normSq = 1 at huu
  have hd : (s1.sub s0).dot (s1.sub s0) = (s1.sub s0).normSq := rfl
  have hmag : ((s1.sub s0).scale (1 / (s1.sub s0).norm E)).dot (c.sub s0)
      = 1 / (s1.sub s0).norm E * (s1.sub s0).dot (c.sub s0) := by
    simp only [V2.dot, V2.scale]; ring
  unfold segClosest2 segClosestQ2
  dsimp only
  generalize (s1.sub s0).norm E = n at *
  generalize (s1.sub s0).normSq = A at *
  generalize hu' : 1 / n = u at *
  have h1 : ∀ B : K, n < u * B ↔ A < B := by
    intro B
    constructor
    · intro h; have := mul_lt_mul_of_pos_left h hn; nlinarith
    · intro h; have h3 : u * A < u * B := mul_lt_mul_of_pos_left h hu
      have : u * A = n := by rw [← hnn]; linear_combination n * hun
      linarith
  have h2 : ∀ B : K, u * B < 0 ↔ B < 0 := by
    intro B
    constructor
    · intro h; by_contra hc; have := mul_nonneg hu.le (not_lt.mp hc); linarith
    · intro h; exact mul_neg_of_pos_of_neg hu h
  simp only [hmag, hd, h1, h2]
  have hAne : A ≠ 0 := hA.ne'
  have huA : u * u = 1 / A := by field_simp; linarith
  split_ifs
  · rfl
  · rfl
  · ext <;> simp only [V2.add, V2.scale] <;>
      rw [show ∀ B : K, B / A = B * (1 / A) from fun B => by ring, ← huA] <;> ring

end M3d.Sdf
