import M3d.Gen.Kernels
import M3d.Model.RectSet
import Mathlib.Tactic.Tauto
import Mathlib.Order.Basic
import Mathlib.Order.Defs.LinearOrder
/-!
# Tie between the REGENERATED kernels and the box-set model of C04 (`M3d/Model/RectSet.lean`)

`toolbox3d.splitRect` (the one place where `RectSet.Add/Remove/AddRectSet/RemoveRectSet` cut a box:
`addSplit` and `splitRectAxis` both call it) and `model3d.Rect.Contains` (the leaf test of
`rectSetSolid.Contains` and of the plain union the solid is compared with) as the Go source defines them
NOW (`M3d/Gen/Kernels.lean`, regenerated on every check) are the model's `RectSet.splitRect` and
`Rect.contains`, which all the box-set theorems of `Props/C04.lean` are about — for every linear order
(no arithmetic is involved), every box, every axis 0/1/2 and every cutting value.
-/
namespace M3d.KernelsTie.RectSet
open M3d.RectSet M3d.Gen.Kernels M3d.GenPrelude
set_option linter.unusedSectionVars false
set_option linter.unusedVariables false
set_option linter.unusedSimpArgs false

variable {K : Type} [LinearOrder K] [OfNat K 0]

@[reducible] def g3 (a : V3 K) : model3d.Coord3D K := ⟨a.x, a.y, a.z⟩
@[reducible] def gR (r : Rect K) : model3d.Rect K := ⟨g3 r.lo, g3 r.hi⟩

theorem feq_mn (c lo : K) : feq (mn c lo) lo = decide (lo ≤ c) := by
  unfold feq mn
  rcases lt_trichotomy c lo with h | h | h <;> simp [h, lt_asymm, not_le.mpr, le_of_lt, le_refl]

theorem feq_mx (c hi : K) : feq (mx c hi) hi = decide (c ≤ hi) := by
  unfold feq mx
  rcases lt_trichotomy c hi with h | h | h <;> simp [h, lt_asymm, not_le.mpr, le_of_lt, le_refl]

/-- `model3d.Rect.Contains` (`c.Min(MinVal) == MinVal && c.Max(MaxVal) == MaxVal`) is the model's
per-axis test `lo ≤ p ≤ hi`. -/
theorem rect_contains_eq (r : Rect K) (p : V3 K) :
    model3d.Rect_Contains (gR r) (g3 p) = r.contains p := by
  unfold model3d.Rect_Contains Rect.contains
  simp only [model3d.Coord3D_Min, model3d.Coord3D_Max, feq_mn, feq_mx, List.all_cons, List.all_nil,
    V3.get, Bool.and_true]
  rw [Bool.eq_iff_iff]
  simp only [Bool.and_eq_true, decide_eq_true_eq]
  tauto

private theorem splitRect_axis (r : Rect K) (axis : Nat) (ai : Int) (value : K)
    (h : (axis = 0 ∧ ai = 0) ∨ (axis = 1 ∧ ai = 1) ∨ (axis = 2 ∧ ai = 2)) :
    toolbox3d.splitRect (gR r) ai value =
      match splitRect r axis value with
      | none => (gR r, gR r, false)
      | some (r1, r2) => (gR r1, gR r2, true) := by
  rcases h with ⟨rfl, rfl⟩ | ⟨rfl, rfl⟩ | ⟨rfl, rfl⟩
  · by_cases h1 : value ≤ r.lo.x <;> by_cases h2 : r.hi.x ≤ value <;>
      simp [toolbox3d.splitRect, splitRect, model3d.Coord3D_Array, model3d.NewCoord3DArray, V3.get, V3.set, h1, h2]
  · by_cases h1 : value ≤ r.lo.y <;> by_cases h2 : r.hi.y ≤ value <;>
      simp [toolbox3d.splitRect, splitRect, model3d.Coord3D_Array, model3d.NewCoord3DArray, V3.get, V3.set, h1, h2]
  · by_cases h1 : value ≤ r.lo.z <;> by_cases h2 : r.hi.z ≤ value <;>
      simp [toolbox3d.splitRect, splitRect, model3d.Coord3D_Array, model3d.NewCoord3DArray, V3.get, V3.set, h1, h2]

/-- The regenerated package-level `splitRect(r, axis, value)` is the model's `splitRect`: `ok == false`
exactly when the model answers `none` (the plane does not pass strictly through the box), and otherwise the
two pieces are the model's (`r1` = the box up to the plane, `r2` = the box from the plane on). -/
theorem splitRect_eq (r : Rect K) (axis : Nat) (haxis : axis < 3) (value : K) :
    toolbox3d.splitRect (gR r) (axis : Int) value =
      match splitRect r axis value with
      | none => (gR r, gR r, false)
      | some (r1, r2) => (gR r1, gR r2, true) := by
  apply splitRect_axis
  have hax : axis = 0 ∨ axis = 1 ∨ axis = 2 := by omega
  rcases hax with rfl | rfl | rfl <;> simp

/-- Non-vacuity: cutting `[0,2]³` at `x = 1` gives the two halves; at `x = 2` (a face) nothing. -/
example : splitRect (⟨⟨0, 0, 0⟩, ⟨2, 2, 2⟩⟩ : Rect Int) 0 1 = some (⟨⟨0, 0, 0⟩, ⟨1, 2, 2⟩⟩, ⟨⟨1, 0, 0⟩, ⟨2, 2, 2⟩⟩) ∧
    splitRect (⟨⟨0, 0, 0⟩, ⟨2, 2, 2⟩⟩ : Rect Int) 0 2 = none := by decide

end M3d.KernelsTie.RectSet
