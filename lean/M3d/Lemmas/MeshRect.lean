import M3d.Lemmas.RectMeshClosed
import M3d.Lemmas.C01Search
import Mathlib.Data.Fintype.Prod
/-!
# `NewMeshRect` is a closed manifold for every box of positive extent (property C01)

`model3d.NewMeshRect(min, max)` adds the same six quads `ExactMesh` lists for one box (`M3d.RectMesh.boxQuads`, same
corner function, same vertex order) with `AddQuad`: the 12 triangles `meshRect r`.  On the abstract cube (corners =
`Bool³`) edge balance and the eight vertex fans are checked by the kernel; the corner map of a box of positive extent
is injective, and the soup predicates are transported along injective vertex maps (`M3d.C01Search`).
-/
namespace M3d.RectMesh
open M3d.RectSet M3d.C01Search
set_option linter.unusedSectionVars false

/-- the 12 triangles on the abstract cube -/
def absTris : List (B3 × B3 × B3) := absQuads.flatMap gtris

/-- follow the link arcs from `p` -/
def followArcs : Nat → List (B3 × B3) → B3 → List B3
  | 0, _, _ => []
  | n + 1, arcs, p =>
    match arcs.find? (fun a => a.1 == p) with
    | some a => p :: followArcs n (arcs.erase a) a.2
    | none => []

/-- the cycle of neighbours round corner `V` -/
def cubeCycle (V : B3) : List B3 :=
  match plink V absTris with
  | [] => []
  | a :: rest => followArcs (rest.length + 1) (a :: rest) a.1

theorem abs_balanced : ∀ U V : B3, pecnt absTris (U, V) = pecnt absTris (V, U) ∧ pecnt absTris (U, V) ≤ 1 := by
  decide

theorem abs_fans : ∀ V : B3, (cubeCycle V).Nodup ∧ (plink V absTris).Perm (pcycleEdges (cubeCycle V)) := by
  decide

theorem abs_link_ne : ∀ V : B3, plink V absTris ≠ [] := by decide

section
variable {K : Type} [LinearOrder K] [OfNat K 0]

theorem meshRect_eq (r : Rect K) : meshRect r = absTris.map (map3 (crn r)) := by
  unfold meshRect absTris
  rw [boxQuads_eq_abs, List.flatMap_map, List.map_flatMap]
  rfl

theorem crn_injective (r : Rect K) (h : Pos r) : Function.Injective (crn r) := by
  obtain ⟨⟨a, b, c⟩, ⟨d, e, f⟩⟩ := r
  have hx : a ≠ d := ne_of_lt (h 0 (by omega))
  have hy : b ≠ e := ne_of_lt (h 1 (by omega))
  have hz : c ≠ f := ne_of_lt (h 2 (by omega))
  rintro ⟨x, y, z⟩ ⟨x', y', z'⟩ hxy
  simp only [crn, corner, V3.mk.injEq] at hxy
  obtain ⟨h1, h2, h3⟩ := hxy
  cases x <;> cases x' <;> cases y <;> cases y' <;> cases z <;> cases z' <;>
    simp_all [Ne.symm hx, Ne.symm hy, Ne.symm hz]

theorem meshRect_balanced (r : Rect K) (h : Pos r) (p q : V3 K) :
    pecnt (meshRect r) (p, q) = pecnt (meshRect r) (q, p) ∧ pecnt (meshRect r) (p, q) ≤ 1 := by
  rw [meshRect_eq]
  exact balanced_map _ (crn_injective r h) absTris abs_balanced p q

theorem meshRect_fans (r : Rect K) (h : Pos r) (p : V3 K) (hne : plink p (meshRect r) ≠ []) :
    PFanCycle (plink p (meshRect r)) := by
  rw [meshRect_eq] at hne ⊢
  exact fans_map _ (crn_injective r h) absTris (fun V _ => ⟨cubeCycle V, (abs_fans V).1, (abs_fans V).2⟩) p hne

/-! ### the 2-D rectangle -/

abbrev B2 := Bool × Bool

def absSegs : List (B2 × B2) :=
  [((false, false), (false, true)), ((false, true), (true, true)), ((true, true), (true, false)),
   ((true, false), (false, false))]

theorem abs_closed2 : ∀ v : B2, pcnt false absSegs v = pcnt true absSegs v ∧ pcnt false absSegs v ≤ 1 := by decide

def crn2 (lo hi : K × K) (b : B2) : K × K := (if b.1 then hi.1 else lo.1, if b.2 then hi.2 else lo.2)

theorem meshRect2_eq (lo hi : K × K) : meshRect2 lo hi = absSegs.map (map2 (crn2 lo hi)) := by
  simp [meshRect2, absSegs, map2, crn2]

theorem crn2_injective (lo hi : K × K) (hx : lo.1 < hi.1) (hy : lo.2 < hi.2) : Function.Injective (crn2 lo hi) := by
  have h1 := ne_of_lt hx
  have h2 := ne_of_lt hy
  rintro ⟨x, y⟩ ⟨x', y'⟩ hxy
  simp only [crn2, Prod.mk.injEq] at hxy
  obtain ⟨e1, e2⟩ := hxy
  cases x <;> cases x' <;> cases y <;> cases y' <;> simp_all [Ne.symm h1, Ne.symm h2]

theorem meshRect2_closed (lo hi : K × K) (hx : lo.1 < hi.1) (hy : lo.2 < hi.2) (p : K × K) :
    pcnt false (meshRect2 lo hi) p = pcnt true (meshRect2 lo hi) p ∧ pcnt false (meshRect2 lo hi) p ≤ 1 := by
  rw [meshRect2_eq]
  exact closed_map _ (crn2_injective lo hi hx hy) absSegs abs_closed2 p

end
end M3d.RectMesh
