import Mathlib.Tactic.Ring
import Mathlib.Tactic.LinearCombination
import Mathlib.Tactic.Linarith
import Mathlib.Tactic.Positivity
import Mathlib.Tactic.FieldSimp
import Mathlib.Algebra.Order.Field.Basic
import Mathlib.Algebra.BigOperators.Group.List.Basic
import M3d.Model.Numeric
/-!
# `numerical.Vec` (vectors as lists, `M3d.Num.VecN`): sums of squares, scaling, normalisation, projection
-/
namespace M3d.Num.VecN

variable {K : Type} [Field K]

theorem foldl_add_eq {β : Type} (f : β → K) (l : List β) (r : K) :
    l.foldl (fun r a => r + f a) r = r + (l.map f).sum := by
  induction l generalizing r with
  | nil => simp
  | cons a l ih => simp only [List.foldl_cons, ih, List.map_cons, List.sum_cons]; ring

/-- The dot product as a plain sum (no length test). -/
def dotSum (v w : List K) : K := ((v.zip w).map (fun xy => xy.1 * xy.2)).sum

theorem normSquared_eq_sum (v : List K) : normSquared v = (v.map (fun x => x * x)).sum := by
  simp only [normSquared, foldl_add_eq (fun x : K => x * x), Nat.cast_zero, zero_add]

@[simp] theorem normSquared_nil : normSquared ([] : List K) = 0 := by simp [normSquared_eq_sum]
@[simp] theorem normSquared_cons (x : K) (v : List K) : normSquared (x :: v) = x * x + normSquared v := by
  simp [normSquared_eq_sum]

theorem normSquared_scale (v : List K) (s : K) : normSquared (scale v s) = s * s * normSquared v := by
  induction v with
  | nil => simp [scale]
  | cons x v ih => simp only [scale, List.map_cons, normSquared_cons] at ih ⊢; rw [ih]; ring

theorem distSquared_eq_sum (v w : List K) :
    distSquared v w = ((v.zip w).map (fun xy => (xy.1 - xy.2) * (xy.1 - xy.2))).sum := by
  simp only [distSquared, foldl_add_eq (fun xy : K × K => (xy.1 - xy.2) * (xy.1 - xy.2)), Nat.cast_zero, zero_add]

theorem distSquared_eq_normSquared (v w : List K) :
    distSquared v w = normSquared (List.zipWith (· - ·) v w) := by
  rw [distSquared_eq_sum, normSquared_eq_sum]
  induction v generalizing w with
  | nil => simp
  | cons x v ih => cases w with
    | nil => simp
    | cons y w => simp [ih]

theorem distSquared_comm (v w : List K) : distSquared v w = distSquared w v := by
  rw [distSquared_eq_sum, distSquared_eq_sum]
  induction v generalizing w with
  | nil => simp
  | cons x v ih => cases w with
    | nil => simp
    | cons y w => simp only [List.zip_cons_cons, List.map_cons, List.sum_cons, ih]; ring

theorem dot_eq (v w : List K) (h : v.length = w.length) : dot v w = some (dotSum v w) := by
  simp only [dot, h, if_true, dotSum, foldl_add_eq (fun xy : K × K => xy.1 * xy.2), Nat.cast_zero, zero_add]

theorem dotSum_comm (v w : List K) : dotSum v w = dotSum w v := by
  induction v generalizing w with
  | nil => simp [dotSum]
  | cons x v ih => cases w with
    | nil => simp [dotSum]
    | cons y w =>
      simp only [dotSum, List.zip_cons_cons, List.map_cons, List.sum_cons] at ih ⊢
      rw [ih]; ring

theorem dotSum_self (v : List K) : dotSum v v = normSquared v := by
  rw [normSquared_eq_sum]
  induction v with
  | nil => simp [dotSum]
  | cons x v ih => simp only [dotSum, List.zip_cons_cons, List.map_cons, List.sum_cons] at ih ⊢; rw [ih]

theorem dotSum_scale_left (v w : List K) (s : K) : dotSum (scale v s) w = s * dotSum v w := by
  induction v generalizing w with
  | nil => simp [dotSum, scale]
  | cons x v ih => cases w with
    | nil => simp [dotSum, scale]
    | cons y w =>
      simp only [dotSum, scale, List.map_cons, List.zip_cons_cons, List.sum_cons] at ih ⊢
      rw [ih]; ring

theorem dotSum_sub_left (v u w : List K) (h : v.length = u.length) :
    dotSum (List.zipWith (· - ·) v u) w = dotSum v w - dotSum u w := by
  induction v generalizing u w with
  | nil =>
    have : u = [] := List.length_eq_zero_iff.mp h.symm
    subst this; simp [dotSum]
  | cons x v ih =>
    match u, h with
    | y :: u, h =>
      cases w with
      | nil => simp [dotSum]
      | cons z w =>
        have h' : v.length = u.length := by simpa using h
        simp only [dotSum, List.zipWith_cons_cons, List.zip_cons_cons, List.map_cons, List.sum_cons] at ih ⊢
        rw [ih u w h']; ring

section Ordered
variable [LinearOrder K] [IsStrictOrderedRing K]

theorem normSquared_nonneg (v : List K) : 0 ≤ normSquared v := by
  induction v with
  | nil => simp
  | cons x v ih => rw [normSquared_cons]; nlinarith [mul_self_nonneg x]

theorem normSquared_eq_zero_iff (v : List K) : normSquared v = 0 ↔ ∀ x ∈ v, x = 0 := by
  induction v with
  | nil => simp
  | cons x v ih =>
    rw [normSquared_cons]
    have h1 := mul_self_nonneg x
    have h2 := normSquared_nonneg v
    constructor
    · intro h
      have hx : x * x = 0 := by linarith
      have hv : normSquared v = 0 := by linarith
      intro y hy
      rcases List.mem_cons.mp hy with rfl | hy
      · exact mul_self_eq_zero.mp hx
      · exact ih.mp hv y hy
    · intro h
      have hx : x = 0 := h x (by simp)
      have hv : normSquared v = 0 := ih.mpr (fun y hy => h y (by simp [hy]))
      rw [hx, hv]; ring

end Ordered

/-- `Normalize` gives a unit vector whenever `sqrt` squares back to the squared norm and the vector is not zero. -/
theorem normalize_unit (sqrt : K → K) (v : List K)
    (hs : sqrt (normSquared v) * sqrt (normSquared v) = normSquared v) (hn : normSquared v ≠ 0) :
    normSquared (normalize sqrt v) = 1 := by
  have hq : sqrt (normSquared v) ≠ 0 := by intro h; rw [h] at hs; exact hn (by linear_combination -hs)
  simp only [normalize, norm, normSquared_scale, Nat.cast_one]
  generalize sqrt (normSquared v) = q at *
  field_simp
  linear_combination -hs

/-- `ProjectOut(v1)` removes the component along `v1`. -/
theorem projectOut_orthogonal (sqrt : K → K) (v w : List K) (hl : v.length = w.length)
    (hs : sqrt (normSquared w) * sqrt (normSquared w) = normSquared w) (hn : normSquared w ≠ 0) :
    ∃ r, projectOut sqrt v w = some r ∧ r.length = v.length ∧ dot r w = some 0 := by
  have hq : sqrt (normSquared w) ≠ 0 := by intro h; rw [h] at hs; exact hn (by linear_combination -hs)
  have hnl : (normalize sqrt w).length = v.length := by simp [normalize, scale, hl]
  have hsl : ∀ d, (scale (normalize sqrt w) d).length = v.length := by intro d; simpa [scale] using hnl
  refine ⟨List.zipWith (· - ·) v (scale (normalize sqrt w) (dotSum (normalize sqrt w) v)), ?_, ?_, ?_⟩
  · simp only [projectOut, dot_eq _ _ hnl, sub]
    rw [if_pos (hsl _).symm]
  · simp [hsl]
  · rw [dot_eq _ _ (by simp [hsl, hl]), dotSum_sub_left _ _ _ (hsl _).symm]
    simp only [normalize, norm, dotSum_scale_left, dotSum_self, Nat.cast_one, dotSum_comm w v]
    generalize sqrt (normSquared w) = q at *
    congr 1
    field_simp
    linear_combination (dotSum v w) * hs

end M3d.Num.VecN
