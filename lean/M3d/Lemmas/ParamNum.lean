import M3d.Model.Param
import Mathlib.Algebra.Order.Field.Basic
import Mathlib.Tactic.Linarith
import Mathlib.Tactic.Ring
import Mathlib.Tactic.FieldSimp
import Mathlib.Tactic.Positivity
import Mathlib.Tactic.LinearCombination
/-!
# Numeric facts for C18 over a linear ordered field (so for ℚ and ℝ)

Floater rows are convex combinations, weighted means stay in the hull, discrete maximum principle,
quad-tree cells, `ToBounds`, barycentric round trip, soundness of the UV checker.
-/
namespace M3d.Param
set_option linter.unusedSectionVars false
set_option linter.unusedVariables false
variable {K : Type} [Field K] [LinearOrder K] [IsStrictOrderedRing K]

/-! ## Floater rows -/

/-- The neighbour list as `(weight, coordinate)` pairs at the solution `x` / fixed positions. -/
def nbPairsX (nbs : List (Nb K)) (x : Nat → K) : List (K × K) :=
  nbs.map fun nb => match nb with
    | .var j w => (w, x j)
    | .fixed p w => (w, p.x)

def nbPairsY (nbs : List (Nb K)) (y : Nat → K) : List (K × K) :=
  nbs.map fun nb => match nb with
    | .var j w => (w, y j)
    | .fixed p w => (w, p.y)

theorem nbSum_fold (nbs : List (Nb K)) (x y : Nat → K) (s : V2 K) :
    (nbs.foldl (fun s nb =>
      match nb with
      | .var j w => s.add ⟨w * x j, w * y j⟩
      | .fixed p w => s.add ⟨w * p.x, w * p.y⟩) s) =
    ⟨s.x + wsum (nbPairsX nbs x), s.y + wsum (nbPairsY nbs y)⟩ := by
  induction nbs generalizing s with
  | nil => simp [nbPairsX, nbPairsY, wsum]
  | cons nb r ih =>
    rw [List.foldl_cons, ih]
    cases nb <;> simp [nbPairsX, nbPairsY, wsum, V2.add] <;> constructor <;> ring

theorem nbSum_eq (nbs : List (Nb K)) (x y : Nat → K) :
    nbSum nbs x y = ⟨wsum (nbPairsX nbs x), wsum (nbPairsY nbs y)⟩ := by
  unfold nbSum; exact (nbSum_fold nbs x y ⟨0, 0⟩).trans (by simp)

theorem totalWeight_fold (nbs : List (Nb K)) (s : K) :
    nbs.foldl (fun s nb => s + nb.weight) s = s + wtot (nbPairsX nbs (fun _ => 0)) := by
  induction nbs generalizing s with
  | nil => simp [nbPairsX, wtot]
  | cons nb r ih =>
    rw [List.foldl_cons, ih]
    cases nb <;> simp [nbPairsX, wtot, Nb.weight] <;> ring

theorem wtot_nbPairsX (nbs : List (Nb K)) (x x' : Nat → K) :
    wtot (nbPairsX nbs x) = wtot (nbPairsX nbs x') := by
  induction nbs with
  | nil => rfl
  | cons nb r ih => cases nb <;> simp [nbPairsX, wtot] at ih ⊢ <;> rw [ih]

theorem wtot_nbPairsXY (nbs : List (Nb K)) (x y : Nat → K) :
    wtot (nbPairsX nbs x) = wtot (nbPairsY nbs y) := by
  induction nbs with
  | nil => rfl
  | cons nb r ih => cases nb <;> simp [nbPairsX, nbPairsY, wtot] at ih ⊢ <;> rw [ih]

theorem totalWeight_eq (nbs : List (Nb K)) (x : Nat → K) :
    totalWeight nbs = wtot (nbPairsX nbs x) := by
  unfold totalWeight; rw [totalWeight_fold, wtot_nbPairsX nbs _ x]; simp

theorem rowLhs_append (r : Row K) (i : Nat) (x : Nat → K) (j : Nat) (w : K) :
    rowLhs { r with offs := r.offs ++ [(j, w)] } i x = rowLhs r i x + w * x j := by
  simp [rowLhs, List.foldl_append]

/-- Residual bookkeeping: for the row built from `nbs` starting at `r0`, the residual grows by
exactly the weighted neighbour sum. -/
theorem floaterRow_fold (nbs : List (Nb K)) (i : Nat) (x y : Nat → K) (r0 : Row K) :
    let r := nbs.foldl (fun r nb =>
      match nb with
      | .var j w => { r with offs := r.offs ++ [(j, w)] }
      | .fixed p w => { r with bias := r.bias.add (p.scale (-w)) }) r0
    rowLhs r i x - r.bias.x = rowLhs r0 i x - r0.bias.x + wsum (nbPairsX nbs x) ∧
    rowLhs r i y - r.bias.y = rowLhs r0 i y - r0.bias.y + wsum (nbPairsY nbs y) := by
  induction nbs generalizing r0 with
  | nil => simp [nbPairsX, nbPairsY, wsum]
  | cons nb rest ih =>
    simp only [List.foldl_cons]
    cases nb with
    | var j w =>
      obtain ⟨h1, h2⟩ := ih { r0 with offs := r0.offs ++ [(j, w)] }
      simp only at h1 h2 ⊢
      rw [h1, h2, rowLhs_append, rowLhs_append]
      simp only [nbPairsX, nbPairsY, List.map_cons, wsum]
      constructor <;> ring
    | fixed p w =>
      obtain ⟨h1, h2⟩ := ih { r0 with bias := r0.bias.add (p.scale (-w)) }
      simp only at h1 h2 ⊢
      rw [h1, h2]
      simp only [nbPairsX, nbPairsY, List.map_cons, wsum, rowLhs, V2.add, V2.scale]
      constructor <;> ring

/-- A solution of the assembled row is the weighted neighbour sum. -/
theorem floaterRow_solution (nbs : List (Nb K)) (i : Nat) (x y : Nat → K)
    (hx : rowLhs (floaterRow nbs) i x = (floaterRow nbs).bias.x)
    (hy : rowLhs (floaterRow nbs) i y = (floaterRow nbs).bias.y) :
    x i = wsum (nbPairsX nbs x) ∧ y i = wsum (nbPairsY nbs y) := by
  have h := floaterRow_fold nbs i x y ⟨-1, [], ⟨0, 0⟩⟩
  simp only [rowLhs, List.foldl_nil] at h
  obtain ⟨h1, h2⟩ := h
  unfold floaterRow at hx hy
  simp only [rowLhs] at hx hy
  constructor
  · linear_combination h1 - hx
  · linear_combination h2 - hy

/-! ## Weighted means -/

theorem wsum_le (l : List (K × K)) (hi : K) (hw : ∀ q ∈ l, 0 ≤ q.1) (hp : ∀ q ∈ l, q.2 ≤ hi) :
    wsum l ≤ hi * wtot l := by
  induction l with
  | nil => simp [wsum, wtot]
  | cons q r ih =>
    obtain ⟨w, p⟩ := q
    simp only [wsum, wtot]
    have h1 := hw (w, p) (by simp)
    have h2 := hp (w, p) (by simp)
    have := ih (fun q hq => hw q (by simp [hq])) (fun q hq => hp q (by simp [hq]))
    simp only at h1 h2
    nlinarith [mul_le_mul_of_nonneg_left h2 h1]

theorem le_wsum (l : List (K × K)) (lo : K) (hw : ∀ q ∈ l, 0 ≤ q.1) (hp : ∀ q ∈ l, lo ≤ q.2) :
    lo * wtot l ≤ wsum l := by
  induction l with
  | nil => simp [wsum, wtot]
  | cons q r ih =>
    obtain ⟨w, p⟩ := q
    simp only [wsum, wtot]
    have h1 := hw (w, p) (by simp)
    have h2 := hp (w, p) (by simp)
    have := ih (fun q hq => hw q (by simp [hq])) (fun q hq => hp q (by simp [hq]))
    simp only at h1 h2
    nlinarith [mul_le_mul_of_nonneg_left h2 h1]

theorem weightedMean_mem_hull (l : List (K × K)) (lo hi : K) (hw : ∀ q ∈ l, 0 ≤ q.1) (hpos : 0 < wtot l)
    (hlo : ∀ q ∈ l, lo ≤ q.2) (hhi : ∀ q ∈ l, q.2 ≤ hi) :
    lo ≤ weightedMean l ∧ weightedMean l ≤ hi := by
  unfold weightedMean
  constructor
  · rw [le_div_iff₀ hpos]; exact le_wsum l lo hw hlo
  · rw [div_le_iff₀ hpos]; exact wsum_le l hi hw hhi

/-- If a weighted sum with positive weights reaches the upper bound of its points, every point
equals the bound. -/
theorem eq_of_wsum_ge (l : List (K × K)) (M : K) (hw : ∀ q ∈ l, 0 < q.1) (hp : ∀ q ∈ l, q.2 ≤ M)
    (h : M * wtot l ≤ wsum l) : ∀ q ∈ l, q.2 = M := by
  induction l with
  | nil => simp
  | cons q r ih =>
    obtain ⟨w, p⟩ := q
    simp only [wsum, wtot] at h
    have h1 : 0 < w := hw (w, p) (by simp)
    have h2 : p ≤ M := hp (w, p) (by simp)
    have hr := wsum_le r M (fun q hq => le_of_lt (hw q (by simp [hq]))) (fun q hq => hp q (by simp [hq]))
    have hwp : w * p ≤ w * M := mul_le_mul_of_nonneg_left h2 (le_of_lt h1)
    have hpM : p = M := by
      by_contra hne
      have hlt : p < M := lt_of_le_of_ne h2 hne
      have : w * p < w * M := mul_lt_mul_of_pos_left hlt h1
      nlinarith
    intro q hq
    rcases List.mem_cons.mp hq with rfl | hq
    · exact hpM
    · exact ih (fun q hq => hw q (by simp [hq])) (fun q hq => hp q (by simp [hq])) (by nlinarith) q hq

/-! ## Discrete maximum principle -/

/-- `i` is connected to the boundary set `B` through neighbour steps. -/
inductive ReachB (nbr : Nat → List (K × Nat)) (B : Nat → Prop) : Nat → Prop where
  | toB (i j : Nat) (w : K) (hj : (w, j) ∈ nbr i) (h : B j) : ReachB nbr B i
  | step (i j : Nat) (w : K) (hj : (w, j) ∈ nbr i) (h : ReachB nbr B j) : ReachB nbr B i

theorem exists_max_of_ne_nil (V : List Nat) (val : Nat → K) (h : V ≠ []) :
    ∃ m ∈ V, ∀ v ∈ V, val v ≤ val m := by
  induction V with
  | nil => exact absurd rfl h
  | cons a r ih =>
    by_cases hr : r = []
    · subst hr; exact ⟨a, by simp, by simp⟩
    · obtain ⟨m, hm, hmax⟩ := ih hr
      by_cases hc : val m ≤ val a
      · exact ⟨a, by simp, fun v hv => by
          rcases List.mem_cons.mp hv with rfl | hv
          · exact le_refl _
          · exact le_trans (hmax v hv) hc⟩
      · exact ⟨m, by simp [hm], fun v hv => by
          rcases List.mem_cons.mp hv with rfl | hv
          · exact le_of_lt (lt_of_not_ge hc)
          · exact hmax v hv⟩

/-- At an interior vertex that attains the global maximum, a boundary vertex attains it too. -/
theorem max_reaches_boundary (V : List Nat) (B : Nat → Prop) (nbr : Nat → List (K × Nat)) (val : Nat → K)
    (hclosed : ∀ i ∈ V, ¬ B i → ∀ q ∈ nbr i, q.2 ∈ V)
    (hpos : ∀ i ∈ V, ¬ B i → ∀ q ∈ nbr i, 0 < q.1)
    (hsum : ∀ i ∈ V, ¬ B i → wtot ((nbr i).map fun q => (q.1, val q.2)) = 1)
    (hmean : ∀ i ∈ V, ¬ B i → val i = wsum ((nbr i).map fun q => (q.1, val q.2)))
    (M : K) (hM : ∀ v ∈ V, val v ≤ M)
    (i : Nat) (hr : ReachB nbr B i) (hi : i ∈ V) (hnb : ¬ B i) (hval : val i = M) :
    ∃ b ∈ V, B b ∧ val b = M := by
  have key : ∀ i j (w : K), (w, j) ∈ nbr i → i ∈ V → ¬ B i → val i = M → j ∈ V ∧ val j = M := by
    intro i j w hj hi hnb hval
    have hall := eq_of_wsum_ge ((nbr i).map fun q => (q.1, val q.2)) M
      (by intro q hq; obtain ⟨q', hq', rfl⟩ := List.mem_map.mp hq; exact hpos i hi hnb q' hq')
      (by intro q hq; obtain ⟨q', hq', rfl⟩ := List.mem_map.mp hq; exact hM _ (hclosed i hi hnb q' hq'))
      (by rw [hsum i hi hnb, ← hmean i hi hnb, hval]; simp)
    exact ⟨hclosed i hi hnb (w, j) hj, hall (w, val j) (List.mem_map.mpr ⟨(w, j), hj, rfl⟩)⟩
  induction hr with
  | toB i j w hj h =>
    obtain ⟨hjV, hjv⟩ := key i j w hj hi hnb hval
    exact ⟨j, hjV, h, hjv⟩
  | step i j w hj h ih =>
    obtain ⟨hjV, hjv⟩ := key i j w hj hi hnb hval
    by_cases hB : B j
    · exact ⟨j, hjV, hB, hjv⟩
    · exact ih hjV hB hjv

/-! ## Quad tree -/

def Rect.Valid (r : Rect K) : Prop := r.lo.x ≤ r.hi.x ∧ r.lo.y ≤ r.hi.y

/-- `s` lies inside `r`. -/
def Rect.Sub (s r : Rect K) : Prop := r.lo.x ≤ s.lo.x ∧ r.lo.y ≤ s.lo.y ∧ s.hi.x ≤ r.hi.x ∧ s.hi.y ≤ r.hi.y

/-- The open interiors of `r` and `s` are disjoint: an axis-parallel line separates them. -/
def Rect.IntDisj (r s : Rect K) : Prop :=
  r.hi.x ≤ s.lo.x ∨ s.hi.x ≤ r.lo.x ∨ r.hi.y ≤ s.lo.y ∨ s.hi.y ≤ r.lo.y

theorem Rect.Sub.trans {a b c : Rect K} (h1 : a.Sub b) (h2 : b.Sub c) : a.Sub c := by
  obtain ⟨a1, a2, a3, a4⟩ := h1; obtain ⟨b1, b2, b3, b4⟩ := h2
  exact ⟨le_trans b1 a1, le_trans b2 a2, le_trans a3 b3, le_trans a4 b4⟩

/-- Sub-rectangles of separated valid-or-not rectangles are separated, provided they are valid
(a non-valid "rectangle" has no interior; we only need it for valid ones). -/
theorem Rect.IntDisj.mono {a b a' b' : Rect K} (h : a.IntDisj b) (ha : a'.Sub a) (hb : b'.Sub b)
    (va : a'.Valid) (vb : b'.Valid) : a'.IntDisj b' := by
  obtain ⟨a1, a2, a3, a4⟩ := ha; obtain ⟨b1, b2, b3, b4⟩ := hb
  rcases h with h | h | h | h
  · exact Or.inl (by linarith)
  · exact Or.inr (Or.inl (by linarith))
  · exact Or.inr (Or.inr (Or.inl (by linarith)))
  · exact Or.inr (Or.inr (Or.inr (by linarith)))

theorem half_between {a b : K} (h : a ≤ b) : a ≤ (a + b) / 2 ∧ (a + b) / 2 ≤ b := by
  constructor
  · rw [le_div_iff₀ (by norm_num : (0:K) < 2)]; linarith
  · rw [div_le_iff₀ (by norm_num : (0:K) < 2)]; linarith

theorem pairwise_append_of {α} {R : α → α → Prop} {l1 l2 : List α} (h1 : l1.Pairwise R) (h2 : l2.Pairwise R)
    (h : ∀ a ∈ l1, ∀ b ∈ l2, R a b) : (l1 ++ l2).Pairwise R :=
  List.pairwise_append.mpr ⟨h1, h2, h⟩

/-- The sub-rectangles used by `Joined`. -/
def Rect.botHalf (r : Rect K) : Rect K := ⟨r.lo, ⟨r.hi.x, (r.lo.y + r.hi.y) / 2⟩⟩
def Rect.topHalf (r : Rect K) : Rect K := ⟨⟨r.lo.x, (r.lo.y + r.hi.y) / 2⟩, r.hi⟩
def Rect.leftHalf (r : Rect K) : Rect K := ⟨r.lo, ⟨(r.lo.x + r.hi.x) / 2, r.hi.y⟩⟩
def Rect.rightHalf (r : Rect K) : Rect K := ⟨⟨(r.lo.x + r.hi.x) / 2, r.lo.y⟩, r.hi⟩
def Rect.q0 (r : Rect K) : Rect K := ⟨r.lo, ⟨(r.lo.x + r.hi.x) / 2, (r.lo.y + r.hi.y) / 2⟩⟩
def Rect.q1 (r : Rect K) : Rect K := ⟨⟨(r.lo.x + r.hi.x) / 2, r.lo.y⟩, ⟨r.hi.x, (r.lo.y + r.hi.y) / 2⟩⟩
def Rect.q2 (r : Rect K) : Rect K := ⟨⟨r.lo.x, (r.lo.y + r.hi.y) / 2⟩, ⟨(r.lo.x + r.hi.x) / 2, r.hi.y⟩⟩
def Rect.q3 (r : Rect K) : Rect K := ⟨⟨(r.lo.x + r.hi.x) / 2, (r.lo.y + r.hi.y) / 2⟩, r.hi⟩

theorem cells_n2 (r : Rect K) (a b : QT) :
    cells r (.n2 a b) = if r.hi.x - r.lo.x < r.hi.y - r.lo.y then cells r.botHalf a ++ cells r.topHalf b
      else cells r.leftHalf a ++ cells r.rightHalf b := rfl

theorem cells_n4 (r : Rect K) (a b c d : QT) :
    cells r (.n4 a b c d) = cells r.q0 a ++ cells r.q1 b ++ cells r.q2 c ++ cells r.q3 d := rfl

theorem subrects (r : Rect K) (hv : r.Valid) :
    (r.botHalf.Valid ∧ r.botHalf.Sub r) ∧ (r.topHalf.Valid ∧ r.topHalf.Sub r) ∧
    (r.leftHalf.Valid ∧ r.leftHalf.Sub r) ∧ (r.rightHalf.Valid ∧ r.rightHalf.Sub r) ∧
    (r.q0.Valid ∧ r.q0.Sub r) ∧ (r.q1.Valid ∧ r.q1.Sub r) ∧ (r.q2.Valid ∧ r.q2.Sub r) ∧ (r.q3.Valid ∧ r.q3.Sub r) := by
  obtain ⟨hx, hy⟩ := hv
  obtain ⟨mx1, mx2⟩ := half_between hx
  obtain ⟨my1, my2⟩ := half_between hy
  simp only [Rect.Valid, Rect.Sub, Rect.botHalf, Rect.topHalf, Rect.leftHalf, Rect.rightHalf, Rect.q0, Rect.q1,
    Rect.q2, Rect.q3, le_refl, true_and, and_true]
  exact ⟨⟨⟨hx, my1⟩, my2⟩, ⟨⟨hx, my2⟩, my1⟩, ⟨⟨mx1, hy⟩, mx2⟩, ⟨⟨mx2, hy⟩, mx1⟩, ⟨⟨mx1, my1⟩, mx2, my2⟩,
    ⟨⟨mx2, my1⟩, mx1, my2⟩, ⟨⟨mx1, my2⟩, my1, mx2⟩, ⟨⟨mx2, my2⟩, mx1, my1⟩⟩

theorem subrects_disj (r : Rect K) :
    r.botHalf.IntDisj r.topHalf ∧ r.leftHalf.IntDisj r.rightHalf ∧ r.q0.IntDisj r.q1 ∧ r.q0.IntDisj r.q2 ∧
    r.q0.IntDisj r.q3 ∧ r.q1.IntDisj r.q2 ∧ r.q1.IntDisj r.q3 ∧ r.q2.IntDisj r.q3 := by
  simp [Rect.IntDisj, Rect.botHalf, Rect.topHalf, Rect.leftHalf, Rect.rightHalf, Rect.q0, Rect.q1, Rect.q2, Rect.q3]

/-- Every cell is valid and inside the root. -/
theorem cells_sub (t : QT) (r : Rect K) (hv : r.Valid) : ∀ c ∈ cells r t, c.2.Valid ∧ c.2.Sub r := by
  induction t generalizing r with
  | empty => simp [cells]
  | leaf id =>
    intro c hc; simp [cells] at hc; subst hc
    exact ⟨hv, le_refl _, le_refl _, le_refl _, le_refl _⟩
  | n2 a b iha ihb =>
    obtain ⟨⟨v1, s1⟩, ⟨v2, s2⟩, ⟨v3, s3⟩, ⟨v4, s4⟩, _⟩ := subrects r hv
    intro c hc
    rw [cells_n2] at hc
    split at hc
    · rcases List.mem_append.mp hc with hc | hc
      · obtain ⟨v, s⟩ := iha _ v1 c hc; exact ⟨v, s.trans s1⟩
      · obtain ⟨v, s⟩ := ihb _ v2 c hc; exact ⟨v, s.trans s2⟩
    · rcases List.mem_append.mp hc with hc | hc
      · obtain ⟨v, s⟩ := iha _ v3 c hc; exact ⟨v, s.trans s3⟩
      · obtain ⟨v, s⟩ := ihb _ v4 c hc; exact ⟨v, s.trans s4⟩
  | n4 a b c d iha ihb ihc ihd =>
    obtain ⟨_, _, _, _, ⟨v1, s1⟩, ⟨v2, s2⟩, ⟨v3, s3⟩, ⟨v4, s4⟩⟩ := subrects r hv
    intro e he
    rw [cells_n4] at he
    simp only [List.mem_append] at he
    rcases he with ((he | he) | he) | he
    · obtain ⟨v, s⟩ := iha _ v1 e he; exact ⟨v, s.trans s1⟩
    · obtain ⟨v, s⟩ := ihb _ v2 e he; exact ⟨v, s.trans s2⟩
    · obtain ⟨v, s⟩ := ihc _ v3 e he; exact ⟨v, s.trans s3⟩
    · obtain ⟨v, s⟩ := ihd _ v4 e he; exact ⟨v, s.trans s4⟩

/-- Cells below two separated sub-rectangles are separated. -/
theorem cells_cross (a b : QT) (ra rb : Rect K) (va : ra.Valid) (vb : rb.Valid) (h : ra.IntDisj rb) :
    ∀ c ∈ cells ra a, ∀ d ∈ cells rb b, c.2.IntDisj d.2 := by
  intro c hc d hd
  obtain ⟨vc, sc⟩ := cells_sub a ra va c hc
  obtain ⟨vd, sd⟩ := cells_sub b rb vb d hd
  exact h.mono sc sd vc vd

/-- Cells of different leaves have disjoint interiors. -/
theorem cells_pairwise (t : QT) (r : Rect K) (hv : r.Valid) :
    (cells r t).Pairwise fun c d => c.2.IntDisj d.2 := by
  induction t generalizing r with
  | empty => simp [cells]
  | leaf id => simp [cells]
  | n2 a b iha ihb =>
    obtain ⟨⟨v1, s1⟩, ⟨v2, s2⟩, ⟨v3, s3⟩, ⟨v4, s4⟩, _⟩ := subrects r hv
    obtain ⟨d1, d2, _⟩ := subrects_disj r
    rw [cells_n2]
    split
    · exact pairwise_append_of (iha _ v1) (ihb _ v2) (cells_cross a b _ _ v1 v2 d1)
    · exact pairwise_append_of (iha _ v3) (ihb _ v4) (cells_cross a b _ _ v3 v4 d2)
  | n4 a b c d iha ihb ihc ihd =>
    obtain ⟨_, _, _, _, ⟨v0, s0⟩, ⟨v1, s1⟩, ⟨v2, s2⟩, ⟨v3, s3⟩⟩ := subrects r hv
    obtain ⟨_, _, d01, d02, d03, d12, d13, d23⟩ := subrects_disj r
    rw [cells_n4]
    refine pairwise_append_of (pairwise_append_of (pairwise_append_of (iha _ v0) (ihb _ v1) ?_) (ihc _ v2) ?_) (ihd _ v3) ?_
    · exact cells_cross a b _ _ v0 v1 d01
    · intro e he f hf
      rcases List.mem_append.mp he with he | he
      · exact cells_cross a c _ _ v0 v2 d02 e he f hf
      · exact cells_cross b c _ _ v1 v2 d12 e he f hf
    · intro e he f hf
      rcases List.mem_append.mp he with he | he
      · rcases List.mem_append.mp he with he | he
        · exact cells_cross a d _ _ v0 v3 d03 e he f hf
        · exact cells_cross b d _ _ v1 v3 d13 e he f hf
      · exact cells_cross c d _ _ v2 v3 d23 e he f hf

theorem shrink_sub (r : Rect K) (b : K) (hb : 0 ≤ b) : (r.shrink b).Sub r := by
  refine ⟨?_, ?_, ?_, ?_⟩ <;> simp [Rect.shrink] <;> linarith

theorem Rect.IntDisj.of_sub {a b a' b' : Rect K} (h : a.IntDisj b) (ha : a'.Sub a) (hb : b'.Sub b)
    (va : a'.Valid) (vb : b'.Valid) : a'.IntDisj b' := h.mono ha hb va vb

/-! ## ToBounds -/

theorem toBounds1_lo (omin omax nmin nmax : K) : toBounds1 omin omax nmin nmax omin = nmin := by
  simp [toBounds1]

theorem toBounds1_hi (omin omax nmin nmax : K) (h : omax ≠ omin) : toBounds1 omin omax nmin nmax omax = nmax := by
  have : omax - omin ≠ 0 := sub_ne_zero.mpr h
  simp only [toBounds1]; field_simp; ring

/-- `ToBounds` is affine in the coordinate. -/
theorem toBounds1_affine (omin omax nmin nmax c : K) :
    toBounds1 omin omax nmin nmax c = ((nmax - nmin) / (omax - omin)) * c + (nmin - omin * ((nmax - nmin) / (omax - omin))) := by
  simp only [toBounds1]; ring

/-- … and inverted by `ToBounds` back to the old box when both boxes are non-degenerate. -/
theorem toBounds1_inverse (omin omax nmin nmax c : K) (ho : omax ≠ omin) (hn : nmax ≠ nmin) :
    toBounds1 nmin nmax omin omax (toBounds1 omin omax nmin nmax c) = c := by
  have h1 : omax - omin ≠ 0 := sub_ne_zero.mpr ho
  have h2 : nmax - nmin ≠ 0 := sub_ne_zero.mpr hn
  simp only [toBounds1]; field_simp; ring

/-- Points of the old interval land in the new one. -/
theorem toBounds1_mem (omin omax nmin nmax c : K) (ho : omin < omax) (hn : nmin ≤ nmax)
    (h1 : omin ≤ c) (h2 : c ≤ omax) :
    nmin ≤ toBounds1 omin omax nmin nmax c ∧ toBounds1 omin omax nmin nmax c ≤ nmax := by
  have hd : 0 < omax - omin := sub_pos.mpr ho
  have hs : 0 ≤ (nmax - nmin) / (omax - omin) := div_nonneg (sub_nonneg.mpr hn) (le_of_lt hd)
  simp only [toBounds1]
  constructor
  · nlinarith [mul_nonneg (sub_nonneg.mpr h1) hs]
  · have : (c - omin) * ((nmax - nmin) / (omax - omin)) ≤ (omax - omin) * ((nmax - nmin) / (omax - omin)) :=
      mul_le_mul_of_nonneg_right (by linarith) hs
    have e : (omax - omin) * ((nmax - nmin) / (omax - omin)) = nmax - nmin := by field_simp
    linarith

/-! ## Barycentric round trip -/

theorem bary2_roundtrip (t : Tri2 K) (α β γ : K) (hsum : α + β + γ = 1)
    (hdet : (t.b.x - t.a.x) * (t.c.y - t.a.y) - (t.c.x - t.a.x) * (t.b.y - t.a.y) ≠ 0) :
    bary2 t (atBary2 t (α, β, γ)) = (α, β, γ) := by
  have hα : α = 1 - β - γ := by linear_combination hsum
  subst hα
  have hs : ((t.b.x - t.a.x) * (t.c.y - t.a.y) - (t.c.x - t.a.x) * (t.b.y - t.a.y)) *
      (1 / ((t.b.x - t.a.x) * (t.c.y - t.a.y) - (t.c.x - t.a.x) * (t.b.y - t.a.y))) = 1 := by
    field_simp
  simp only [bary2, atBary2, V2.sub, V2.add, V2.scale, Prod.mk.injEq]
  generalize (1 / ((t.b.x - t.a.x) * (t.c.y - t.a.y) - (t.c.x - t.a.x) * (t.b.y - t.a.y))) = s at hs ⊢
  refine ⟨?_, ?_, ?_⟩
  · linear_combination (-β - γ) * hs
  · linear_combination β * hs
  · linear_combination γ * hs

theorem atBary3_eq (t : Tri3 K) (α β γ : K) :
    atBary3 t (α, β, γ) =
      ⟨α * t.a.x + β * t.b.x + γ * t.c.x, α * t.a.y + β * t.b.y + γ * t.c.y, α * t.a.z + β * t.b.z + γ * t.c.z⟩ := by
  simp only [atBary3, V3.add, V3.scale, V3.mk.injEq]
  refine ⟨?_, ?_, ?_⟩ <;> ring

theorem atBary2_eq (t : Tri2 K) (α β γ : K) :
    atBary2 t (α, β, γ) = ⟨α * t.a.x + β * t.b.x + γ * t.c.x, α * t.a.y + β * t.b.y + γ * t.c.y⟩ := by
  simp only [atBary2, V2.add, V2.scale, V2.mk.injEq]
  refine ⟨?_, ?_⟩ <;> ring

/-! ## The UV checker -/

/-- `p` is strictly inside `t`: a convex combination of the corners with positive coefficients. -/
def StrictIn (t : Tri2 K) (p : V2 K) : Prop :=
  ∃ α β γ : K, 0 < α ∧ 0 < β ∧ 0 < γ ∧ α + β + γ = 1 ∧ p = atBary2 t (α, β, γ)

/-- No point is strictly inside both. -/
def InteriorDisjoint (s t : Tri2 K) : Prop := ∀ p, ¬ (StrictIn s p ∧ StrictIn t p)

theorem orient_affine (a b : V2 K) (t : Tri2 K) (α β γ : K) (hsum : α + β + γ = 1) :
    orient a b (atBary2 t (α, β, γ)) = α * orient a b t.a + β * orient a b t.b + γ * orient a b t.c := by
  rw [atBary2_eq]
  simp only [orient]
  linear_combination ((b.x - a.x) * a.y - a.x * (b.y - a.y)) * hsum

theorem sepBy_le (a b : V2 K) (t : Tri2 K) (h : sepBy a b t = true) (p : V2 K) (hp : StrictIn t p) :
    orient a b p ≤ 0 := by
  obtain ⟨α, β, γ, h1, h2, h3, hsum, rfl⟩ := hp
  simp only [sepBy, Bool.and_eq_true, decide_eq_true_eq] at h
  obtain ⟨⟨ha, hb⟩, hc⟩ := h
  rw [orient_affine a b t α β γ hsum]
  nlinarith [mul_nonneg (le_of_lt h1) (neg_nonneg.mpr ha), mul_nonneg (le_of_lt h2) (neg_nonneg.mpr hb),
    mul_nonneg (le_of_lt h3) (neg_nonneg.mpr hc)]

/-- For a counter-clockwise triangle a strictly interior point is strictly left of every edge. -/
theorem strictIn_left (s : Tri2 K) (hs : 0 < s.orient) (p : V2 K) (hp : StrictIn s p) :
    0 < orient s.a s.b p ∧ 0 < orient s.b s.c p ∧ 0 < orient s.c s.a p := by
  obtain ⟨α, β, γ, h1, h2, h3, hsum, rfl⟩ := hp
  rw [orient_affine _ _ s α β γ hsum, orient_affine _ _ s α β γ hsum, orient_affine _ _ s α β γ hsum]
  simp only [Tri2.orient, orient] at hs ⊢
  refine ⟨?_, ?_, ?_⟩
  · have : 0 < γ * ((s.b.x - s.a.x) * (s.c.y - s.a.y) - (s.c.x - s.a.x) * (s.b.y - s.a.y)) := mul_pos h3 hs
    nlinarith
  · have : 0 < α * ((s.b.x - s.a.x) * (s.c.y - s.a.y) - (s.c.x - s.a.x) * (s.b.y - s.a.y)) := mul_pos h1 hs
    nlinarith
  · have : 0 < β * ((s.b.x - s.a.x) * (s.c.y - s.a.y) - (s.c.x - s.a.x) * (s.b.y - s.a.y)) := mul_pos h2 hs
    nlinarith

theorem triDisjoint_sound (s t : Tri2 K) (hs : 0 < s.orient) (ht : 0 < t.orient)
    (h : triDisjoint s t = true) : InteriorDisjoint s t := by
  intro p ⟨hps, hpt⟩
  obtain ⟨s1, s2, s3⟩ := strictIn_left s hs p hps
  obtain ⟨t1, t2, t3⟩ := strictIn_left t ht p hpt
  simp only [triDisjoint, Bool.or_eq_true] at h
  rcases h with ((((h | h) | h) | h) | h) | h
  · exact absurd (sepBy_le _ _ t h p hpt) (not_le.mpr s1)
  · exact absurd (sepBy_le _ _ t h p hpt) (not_le.mpr s2)
  · exact absurd (sepBy_le _ _ t h p hpt) (not_le.mpr s3)
  · exact absurd (sepBy_le _ _ s h p hps) (not_le.mpr t1)
  · exact absurd (sepBy_le _ _ s h p hps) (not_le.mpr t2)
  · exact absurd (sepBy_le _ _ s h p hps) (not_le.mpr t3)

theorem le_max3 (a b c : K) : a ≤ max3 a b c ∧ b ≤ max3 a b c ∧ c ≤ max3 a b c := by
  unfold max3; simp only
  split_ifs <;> refine ⟨?_, ?_, ?_⟩ <;> linarith

theorem min3_le (a b c : K) : min3 a b c ≤ a ∧ min3 a b c ≤ b ∧ min3 a b c ≤ c := by
  unfold min3; simp only
  split_ifs <;> refine ⟨?_, ?_, ?_⟩ <;> linarith

/-- A strictly interior point lies within the coordinate range of the corners. -/
theorem strictIn_range (t : Tri2 K) (p : V2 K) (hp : StrictIn t p) :
    min3 t.a.x t.b.x t.c.x ≤ p.x ∧ p.x ≤ max3 t.a.x t.b.x t.c.x ∧
    min3 t.a.y t.b.y t.c.y ≤ p.y ∧ p.y ≤ max3 t.a.y t.b.y t.c.y := by
  obtain ⟨α, β, γ, h1, h2, h3, hsum, rfl⟩ := hp
  rw [atBary2_eq]
  obtain ⟨x1, x2, x3⟩ := le_max3 t.a.x t.b.x t.c.x
  obtain ⟨x4, x5, x6⟩ := min3_le t.a.x t.b.x t.c.x
  obtain ⟨y1, y2, y3⟩ := le_max3 t.a.y t.b.y t.c.y
  obtain ⟨y4, y5, y6⟩ := min3_le t.a.y t.b.y t.c.y
  simp only
  have e : ∀ m : K, m = α * m + β * m + γ * m := by intro m; linear_combination (-m) * hsum
  refine ⟨?_, ?_, ?_, ?_⟩
  · rw [e (min3 t.a.x t.b.x t.c.x)]
    nlinarith [mul_le_mul_of_nonneg_left x4 h1.le, mul_le_mul_of_nonneg_left x5 h2.le, mul_le_mul_of_nonneg_left x6 h3.le]
  · rw [e (max3 t.a.x t.b.x t.c.x)]
    nlinarith [mul_le_mul_of_nonneg_left x1 h1.le, mul_le_mul_of_nonneg_left x2 h2.le, mul_le_mul_of_nonneg_left x3 h3.le]
  · rw [e (min3 t.a.y t.b.y t.c.y)]
    nlinarith [mul_le_mul_of_nonneg_left y4 h1.le, mul_le_mul_of_nonneg_left y5 h2.le, mul_le_mul_of_nonneg_left y6 h3.le]
  · rw [e (max3 t.a.y t.b.y t.c.y)]
    nlinarith [mul_le_mul_of_nonneg_left y1 h1.le, mul_le_mul_of_nonneg_left y2 h2.le, mul_le_mul_of_nonneg_left y3 h3.le]

theorem bboxSep_sound (s t : Tri2 K) (h : bboxSep s t = true) : InteriorDisjoint s t := by
  intro p ⟨hps, hpt⟩
  obtain ⟨s1, s2, s3, s4⟩ := strictIn_range s p hps
  obtain ⟨t1, t2, t3, t4⟩ := strictIn_range t p hpt
  simp only [bboxSep, Bool.or_eq_true, decide_eq_true_eq] at h
  rcases h with ((h | h) | h) | h <;> linarith

theorem triDisjointF_sound (s t : Tri2 K) (hs : 0 < s.orient) (ht : 0 < t.orient)
    (h : triDisjointF s t = true) : InteriorDisjoint s t := by
  simp only [triDisjointF, Bool.or_eq_true] at h
  rcases h with h | h
  · exact bboxSep_sound s t h
  · exact triDisjoint_sound s t hs ht h

theorem pairwiseB_sound {β} (f : β → β → Bool) (l : List β) (h : pairwiseB f l = true) :
    l.Pairwise fun a b => f a b = true := by
  induction l with
  | nil => exact List.Pairwise.nil
  | cons x r ih =>
    simp only [pairwiseB, Bool.and_eq_true, List.all_eq_true] at h
    exact List.Pairwise.cons h.1 (ih h.2)

def InBox (lo hi : K) (p : V2 K) : Prop := lo ≤ p.x ∧ p.x ≤ hi ∧ lo ≤ p.y ∧ p.y ≤ hi

/-- What `uvValidCCW` decides. -/
def UVValidCCW (lo hi : K) (ts : List (Tri2 K)) : Prop :=
  (∀ t ∈ ts, 0 < t.orient) ∧ ts.Pairwise InteriorDisjoint ∧
  ∀ t ∈ ts, InBox lo hi t.a ∧ InBox lo hi t.b ∧ InBox lo hi t.c

theorem inBox_iff (lo hi : K) (p : V2 K) : inBox lo hi p = true ↔ InBox lo hi p := by
  simp [inBox, InBox, and_assoc]

theorem uvValidCCW_sound (lo hi : K) (ts : List (Tri2 K)) (h : uvValidCCW lo hi ts = true) :
    UVValidCCW lo hi ts := by
  simp only [uvValidCCW, Bool.and_eq_true, List.all_eq_true, decide_eq_true_eq] at h
  obtain ⟨⟨ho, hp⟩, hb⟩ := h
  refine ⟨ho, ?_, ?_⟩
  · have := pairwiseB_sound triDisjointF ts hp
    -- strengthen pointwise using the orientation facts
    have key : ∀ (l : List (Tri2 K)), (∀ t ∈ l, 0 < t.orient) → l.Pairwise (fun a b => triDisjointF a b = true) →
        l.Pairwise InteriorDisjoint := by
      intro l hl hpw
      induction hpw with
      | nil => exact List.Pairwise.nil
      | @cons x r hx _ ih =>
        refine List.Pairwise.cons ?_ (ih (fun t ht => hl t (by simp [ht])))
        intro b hb
        exact triDisjointF_sound x b (hl x (by simp)) (hl b (by simp [hb])) (hx b hb)
    exact key ts ho this
  · intro t ht
    have := hb t ht
    simp only [Tri2.inBox, Bool.and_eq_true, inBox_iff] at this
    exact ⟨this.1.1, this.1.2, this.2⟩

/-! ## Arc-length placement -/

theorem runSums_gt (ls : List K) (acc : K) (hpos : ∀ l ∈ ls, 0 < l) : ∀ x ∈ runSums acc ls, acc < x := by
  induction ls generalizing acc with
  | nil => simp [runSums]
  | cons l r ih =>
    intro x hx
    have hl : 0 < l := hpos l (by simp)
    simp only [runSums, List.mem_cons] at hx
    rcases hx with rfl | hx
    · linarith
    · have := ih (acc + l) (fun y hy => hpos y (by simp [hy])) x hx
      linarith

/-- With positive segment lengths the cumulative lengths are strictly increasing. -/
theorem runSums_pairwise (ls : List K) (acc : K) (hpos : ∀ l ∈ ls, 0 < l) : (runSums acc ls).Pairwise (· < ·) := by
  induction ls generalizing acc with
  | nil => simp [runSums]
  | cons l r ih =>
    simp only [runSums, List.pairwise_cons]
    exact ⟨runSums_gt r (acc + l) (fun y hy => hpos y (by simp [hy])), ih (acc + l) (fun y hy => hpos y (by simp [hy]))⟩

theorem runSums_le_total (ls : List K) (acc : K) (hpos : ∀ l ∈ ls, 0 < l) :
    ∀ x ∈ runSums acc ls, x ≤ ls.foldl (· + ·) acc := by
  induction ls generalizing acc with
  | nil => simp [runSums]
  | cons l r ih =>
    intro x hx
    simp only [runSums, List.mem_cons] at hx
    simp only [List.foldl_cons]
    rcases hx with rfl | hx
    · cases r with
      | nil => simp
      | cons l2 r2 =>
        have h1 := runSums_gt (l2 :: r2) (acc + l) (fun y hy => hpos y (by simp [hy]))
        have h2 := ih (acc + l) (fun y hy => hpos y (by simp [hy]))
        have hm : (acc + l + l2) ∈ runSums (acc + l) (l2 :: r2) := by simp [runSums]
        exact le_of_lt (lt_of_lt_of_le (h1 _ hm) (h2 _ hm))
    · exact ih (acc + l) (fun y hy => hpos y (by simp [hy])) x hx

end M3d.Param
