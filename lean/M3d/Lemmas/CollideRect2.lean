import M3d.Model.CollideQuery
import M3d.Lemmas.CollideTri
import M3d.Lemmas.CollideXf
import Mathlib.Algebra.Order.Field.Basic
import Mathlib.Tactic.Ring
import Mathlib.Tactic.FieldSimp
import Mathlib.Tactic.Linarith
import Mathlib.Tactic.Positivity
import Mathlib.Tactic.LinearCombination
/-!
# C07 — box queries: 2-D `Segment.RectCollision` and the mesh collider's `RectCollision`

* `first_entry`: a point moving along a line from outside a polyhedron `⋂ {a + b·λ ≥ 0}` to a point inside it at
  `λ` passes, at some `0 < μ ≤ λ`, through a point of the polyhedron that lies on one of the bounding lines.
* `seg2RectSpec_iff`: the decidable specification = some point of the segment lies in the closed box.
* `seg2Rect_iff`: so does the Go method `Segment.RectCollision` (no near-parallel rejection of a crossing side).
* `treeRect2_iff`: the hierarchy with the bounds test of `joinedMultiCollider.RectCollision` = some leaf.
-/
set_option linter.unusedSectionVars false
namespace M3d.Col

variable {K : Type} [Field K] [LinearOrder K] [IsStrictOrderedRing K]

/-- the closed box `[lo, hi]` contains `p` -/
def InRect2 (lo hi p : V2 K) : Prop := lo.x ≤ p.x ∧ p.x ≤ hi.x ∧ lo.y ≤ p.y ∧ p.y ≤ hi.y

theorem minS_eq (a b : K) : minS a b = min a b := by
  unfold minS
  split
  · rename_i h; rw [min_eq_right (le_of_lt h)]
  · rename_i h; rw [min_eq_left (not_lt.1 h)]

theorem maxS_eq (a b : K) : maxS a b = max a b := by
  unfold maxS
  split
  · rename_i h; rw [max_eq_right (le_of_lt h)]
  · rename_i h; rw [max_eq_left (not_lt.1 h)]

theorem inBox2_iff (lo hi p : V2 K) : inBox2 lo hi p = true ↔ InRect2 lo hi p := by
  simp only [inBox2, InRect2, Bool.and_eq_true, decide_eq_true_eq, and_assoc]

theorem rect2Contains_iff (lo hi p : V2 K) : rect2Contains lo hi p = true ↔ InRect2 lo hi p := by
  simp only [rect2Contains, InRect2, Bool.and_eq_true, Bool.not_eq_true', decide_eq_false_iff_not, not_lt]
  constructor
  · rintro ⟨⟨⟨h1, h2⟩, h3⟩, h4⟩; exact ⟨h1, h3, h2, h4⟩
  · rintro ⟨h1, h3, h2, h4⟩; exact ⟨⟨⟨h1, h2⟩, h3⟩, h4⟩

/-! ## entering a polyhedron along a line -/

theorem exists_max_of_list {β : Type} (f : β → K) : ∀ l : List β, l ≠ [] → ∃ x ∈ l, ∀ y ∈ l, f y ≤ f x
  | [], h => absurd rfl h
  | [a], _ => ⟨a, by simp, by simp⟩
  | a :: b :: rest, _ => by
    obtain ⟨x, hx, hmax⟩ := exists_max_of_list f (b :: rest) (by simp)
    by_cases h : f x ≤ f a
    · refine ⟨a, by simp, ?_⟩
      intro y hy
      rcases List.mem_cons.1 hy with rfl | hy
      · exact le_rfl
      · exact le_trans (hmax y hy) h
    · refine ⟨x, List.mem_cons_of_mem _ hx, ?_⟩
      intro y hy
      rcases List.mem_cons.1 hy with rfl | hy
      · exact le_of_lt (not_le.1 h)
      · exact hmax y hy

/-- Constraints `c.1 + c.2·λ ≥ 0`.  If all hold at `λ ≥ 0` and one fails at `0`, then at some `0 < μ ≤ λ` all hold
and one of them, with positive slope, holds with equality. -/
theorem first_entry (cs : List (K × K)) (lam : K) (h0 : 0 ≤ lam)
    (hall : ∀ c ∈ cs, 0 ≤ c.1 + c.2 * lam) (hviol : ∃ c ∈ cs, c.1 < 0) :
    ∃ c ∈ cs, ∃ mu, 0 < mu ∧ mu ≤ lam ∧ c.1 + c.2 * mu = 0 ∧ 0 < c.2 ∧ ∀ c' ∈ cs, 0 ≤ c'.1 + c'.2 * mu := by
  -- facts about a violated constraint
  have hv : ∀ c ∈ cs, c.1 < 0 → 0 < c.2 ∧ 0 < lam ∧ 0 < -c.1 / c.2 ∧ -c.1 / c.2 ≤ lam := by
    intro c hc hneg
    have h1 := hall c hc
    have hpos : 0 < c.2 * lam := by linarith
    have hc2 : 0 < c.2 := by
      by_contra hn
      have : c.2 * lam ≤ 0 := mul_nonpos_of_nonpos_of_nonneg (not_lt.1 hn) h0
      linarith
    have hl : 0 < lam := by
      rcases lt_or_eq_of_le h0 with h | h
      · exact h
      · rw [← h] at hpos; simp at hpos
    refine ⟨hc2, hl, div_pos (by linarith) hc2, ?_⟩
    rw [div_le_iff₀ hc2]; linarith
  obtain ⟨c0, hc0, hneg0⟩ := hviol
  have hne : cs.filter (fun c => decide (c.1 < 0)) ≠ [] := by
    intro h
    have : c0 ∈ cs.filter (fun c => decide (c.1 < 0)) := List.mem_filter.2 ⟨hc0, by simpa using hneg0⟩
    rw [h] at this; cases this
  obtain ⟨c, hcm, hmax⟩ := exists_max_of_list (fun c : K × K => -c.1 / c.2) _ hne
  obtain ⟨hc, hneg⟩ := List.mem_filter.1 hcm
  have hneg : c.1 < 0 := by simpa using hneg
  obtain ⟨hc2, _, hmu0, hmul⟩ := hv c hc hneg
  refine ⟨c, hc, -c.1 / c.2, hmu0, hmul, ?_, hc2, ?_⟩
  · field_simp; ring
  · intro c' hc'
    by_cases hn' : c'.1 < 0
    · obtain ⟨hc2', _, _, _⟩ := hv c' hc' hn'
      have hle : -c'.1 / c'.2 ≤ -c.1 / c.2 := hmax c' (List.mem_filter.2 ⟨hc', by simpa using hn'⟩)
      have : c'.2 * (-c'.1 / c'.2) ≤ c'.2 * (-c.1 / c.2) := mul_le_mul_of_nonneg_left hle hc2'.le
      have e : c'.2 * (-c'.1 / c'.2) = -c'.1 := by field_simp
      linarith
    · have h1 := hall c' hc'
      have hn' : 0 ≤ c'.1 := not_lt.1 hn'
      by_cases hs : 0 ≤ c'.2
      · have : 0 ≤ c'.2 * (-c.1 / c.2) := mul_nonneg hs hmu0.le
        linarith
      · have : c'.2 * lam ≤ c'.2 * (-c.1 / c.2) := mul_le_mul_of_nonpos_left hmul (not_le.1 hs).le
        linarith

/-! ## the box as four constraints on the parameter -/

/-- `lo ≤ s0 + λ(s1 - s0) ≤ hi` as `a + b·λ ≥ 0` (left, right, bottom, top) -/
def boxCons (s0 s1 lo hi : V2 K) : List (K × K) :=
  [(s0.x - lo.x, s1.x - s0.x), (hi.x - s0.x, -(s1.x - s0.x)), (s0.y - lo.y, s1.y - s0.y), (hi.y - s0.y, -(s1.y - s0.y))]

theorem inRect2_segPoint (s0 s1 lo hi : V2 K) (lam : K) :
    InRect2 lo hi (segPoint2 s0 s1 lam) ↔ ∀ c ∈ boxCons s0 s1 lo hi, 0 ≤ c.1 + c.2 * lam := by
  simp only [InRect2, segPoint2, V2.add, V2.scale, V2.sub, boxCons, List.mem_cons, List.mem_nil_iff, or_false,
    forall_eq_or_imp, forall_eq]
  constructor
  · rintro ⟨h1, h2, h3, h4⟩; refine ⟨?_, ?_, ?_, ?_⟩ <;> linarith
  · rintro ⟨h1, h2, h3, h4⟩; refine ⟨?_, ?_, ?_, ?_⟩ <;> linarith

/-- **`seg2RectSpec` decides "some point of the segment lies in the closed box".** -/
theorem seg2RectSpec_iff (s0 s1 lo hi : V2 K) :
    seg2RectSpec s0 s1 lo hi = true ↔ ∃ lam, 0 ≤ lam ∧ lam ≤ 1 ∧ InRect2 lo hi (segPoint2 s0 s1 lam) := by
  unfold seg2RectSpec
  simp only [List.any_eq_true, Bool.and_eq_true, decide_eq_true_eq, inBox2_iff]
  constructor
  · rintro ⟨lam, _, ⟨h0, h1⟩, hb⟩
    exact ⟨lam, h0, h1, hb⟩
  · rintro ⟨lam, h0, h1, hb⟩
    by_cases hz : ∀ c ∈ boxCons s0 s1 lo hi, 0 ≤ c.1
    · refine ⟨0, by simp, ⟨le_rfl, zero_le_one⟩, ?_⟩
      show InRect2 lo hi (segPoint2 s0 s1 0)
      rw [inRect2_segPoint]
      intro c hc; simpa using hz c hc
    · push Not at hz
      obtain ⟨c, hc, mu, hmu0, hmul, heq, hpos, hallmu⟩ :=
        first_entry (boxCons s0 s1 lo hi) lam h0 ((inRect2_segPoint s0 s1 lo hi lam).1 hb) hz
      have hin : InRect2 lo hi (segPoint2 s0 s1 mu) := (inRect2_segPoint s0 s1 lo hi mu).2 hallmu
      have hmu : mu = -c.1 / c.2 := by field_simp; linarith
      refine ⟨mu, ?_, ⟨hmu0.le, le_trans hmul h1⟩, hin⟩
      simp only [boxCons, List.mem_cons, List.mem_nil_iff, or_false] at hc
      simp only [List.mem_cons, List.mem_nil_iff, or_false]
      rcases hc with rfl | rfl | rfl | rfl
      · right; left; rw [hmu]; simp only []; ring
      · right; right; left; rw [hmu]; simp only []
        have : -(s1.x - s0.x) ≠ 0 := ne_of_gt hpos
        have h2 : s1.x - s0.x ≠ 0 := by intro h; apply this; rw [h]; simp
        field_simp
      · right; right; right; left; rw [hmu]; simp only []; ring
      · right; right; right; right; rw [hmu]; simp only []
        have : -(s1.y - s0.y) ≠ 0 := ne_of_gt hpos
        have h2 : s1.y - s0.y ≠ 0 := by intro h; apply this; rw [h]; simp
        field_simp

/-! ## the Go method -/

/-- the four sides of the rectangle as `Segment.RectCollision` lists them -/
def rectSides (lo hi : V2 K) : List (V2 K × V2 K) :=
  [(lo, ⟨hi.x, lo.y⟩), (lo, ⟨lo.x, hi.y⟩), (hi, ⟨hi.x, lo.y⟩), (hi, ⟨lo.x, hi.y⟩)]

theorem norm2_pos {sqrtF : K → K} (hs : SqrtOK sqrtF) (v : V2 K) (hv : v.dot v ≠ 0) : 0 < v.norm sqrtF := by
  have hnn : 0 ≤ v.x * v.x + v.y * v.y := add_nonneg (mul_self_nonneg _) (mul_self_nonneg _)
  obtain ⟨h1, h2⟩ := hs _ hnn
  rcases lt_or_eq_of_le h1 with h | h
  · exact h
  · exfalso; apply hv
    have : v.x * v.x + v.y * v.y = 0 := by rw [← h2, ← h]; ring
    simpa [V2.dot] using this

/-- a side that is exactly parallel to the segment is rejected by the near-parallel test (`eps > 0`) -/
theorem seg2Ray_none_of_det {sqrtF : K → K} (hs : SqrtOK sqrtF) (eps : K) (heps : 0 < eps) (s0 s1 o d : V2 K)
    (hv : (s1.sub s0).dot (s1.sub s0) ≠ 0) (hd : d.dot d ≠ 0) (hdet : segDet s0 s1 d = 0) :
    seg2Ray sqrtF eps s0 s1 o d = none := by
  unfold seg2Ray
  simp only [absS_eq]
  have hd' : (s1.sub s0).x * d.y - d.x * (s1.sub s0).y = segDet s0 s1 d := rfl
  rw [hd', hdet, abs_zero, if_pos]
  exact mul_pos (mul_pos heps (norm2_pos hs _ hv)) (norm2_pos hs _ hd)

theorem seg2Segment_iff {sqrtF : K → K} (hs : SqrtOK sqrtF) (eps : K) (heps : 0 < eps) (s0 s1 q0 q1 : V2 K)
    (hv : (s1.sub s0).dot (s1.sub s0) ≠ 0) (hq : (q1.sub q0).dot (q1.sub q0) ≠ 0) :
    seg2Segment sqrtF eps s0 s1 q0 q1 = true ↔
      segDet s0 s1 (q1.sub q0) ≠ 0 ∧ ¬ segNearPar sqrtF eps s0 s1 (q1.sub q0) ∧
        ∃ t a, SegEq s0 s1 q0 (q1.sub q0) t a ∧ 0 ≤ a ∧ a ≤ 1 ∧ 0 ≤ t ∧ t ≤ 1 := by
  unfold seg2Segment
  by_cases hdet : segDet s0 s1 (q1.sub q0) = 0
  · rw [seg2Ray_none_of_det hs eps heps s0 s1 q0 _ hv hq hdet]
    simp [hdet]
  · constructor
    · intro h
      cases hr : seg2Ray sqrtF eps s0 s1 q0 (q1.sub q0) with
      | none => rw [hr] at h; cases h
      | some p =>
        obtain ⟨hit, t⟩ := p
        rw [hr] at h
        cases hit with
        | false => cases h
        | true =>
          simp only [Bool.and_eq_true, decide_eq_true_eq] at h
          obtain ⟨hp, a, he, ha⟩ := (seg2Ray_iff sqrtF eps s0 s1 q0 _ true t hdet).1 hr
          exact ⟨hdet, hp, t, a, he, (ha.1 rfl).1, (ha.1 rfl).2, h.1, h.2⟩
    · rintro ⟨_, hp, t, a, he, ha0, ha1, ht0, ht1⟩
      have := (seg2Ray_iff sqrtF eps s0 s1 q0 _ true t hdet).2 ⟨hp, a, he, by simp [ha0, ha1]⟩
      rw [this]
      simp [ht0, ht1]

theorem minS_le_conv (a b lam : K) (h0 : 0 ≤ lam) (h1 : lam ≤ 1) :
    minS a b ≤ a + (b - a) * lam ∧ a + (b - a) * lam ≤ maxS a b := by
  rw [minS_eq, maxS_eq]
  constructor
  · rcases le_total a b with h | h
    · rw [min_eq_left h]; nlinarith
    · rw [min_eq_right h]; nlinarith
  · rcases le_total a b with h | h
    · rw [max_eq_right h]; nlinarith
    · rw [max_eq_left h]; nlinarith

/-- a point of a side of the rectangle is a point of the closed rectangle -/
theorem side_in_rect (lo hi : V2 K) (hx : lo.x ≤ hi.x) (hy : lo.y ≤ hi.y) (q : V2 K × V2 K)
    (hq : q ∈ rectSides lo hi) (t : K) (h0 : 0 ≤ t) (h1 : t ≤ 1) :
    InRect2 lo hi (q.1.add ((q.2.sub q.1).scale t)) := by
  simp only [rectSides, List.mem_cons, List.mem_nil_iff, or_false] at hq
  rcases hq with rfl | rfl | rfl | rfl <;>
    simp only [InRect2, V2.add, V2.sub, V2.scale] <;> refine ⟨?_, ?_, ?_, ?_⟩ <;> nlinarith

/-- **`Segment.RectCollision` (model2d) answers "touching" iff some point of the segment lies in the closed box**,
for a segment with distinct end points, a rectangle with positive width and height, `eps > 0`, provided no side of
the rectangle that is not exactly parallel to the segment is rejected by the library's near-parallel test. -/
theorem seg2Rect_iff {sqrtF : K → K} (hs : SqrtOK sqrtF) (eps : K) (heps : 0 < eps) (s0 s1 lo hi : V2 K)
    (hv : (s1.sub s0).dot (s1.sub s0) ≠ 0) (hx : lo.x < hi.x) (hy : lo.y < hi.y)
    (hnp : ∀ q ∈ rectSides lo hi, segDet s0 s1 (q.2.sub q.1) ≠ 0 → ¬ segNearPar sqrtF eps s0 s1 (q.2.sub q.1)) :
    seg2Rect sqrtF eps s0 s1 lo hi = true ↔ ∃ lam, 0 ≤ lam ∧ lam ≤ 1 ∧ InRect2 lo hi (segPoint2 s0 s1 lam) := by
  have hside : ∀ q ∈ rectSides lo hi, (q.2.sub q.1).dot (q.2.sub q.1) ≠ 0 := by
    intro q hq
    simp only [rectSides, List.mem_cons, List.mem_nil_iff, or_false] at hq
    rcases hq with rfl | rfl | rfl | rfl <;> simp only [V2.dot, V2.sub] <;> nlinarith
  have hseg : ∀ q ∈ rectSides lo hi, seg2Segment sqrtF eps s0 s1 q.1 q.2 = true →
      ∃ lam, 0 ≤ lam ∧ lam ≤ 1 ∧ InRect2 lo hi (segPoint2 s0 s1 lam) := by
    intro q hq h
    obtain ⟨_, _, t, a, he, ha0, ha1, ht0, ht1⟩ := (seg2Segment_iff hs eps heps s0 s1 q.1 q.2 hv (hside q hq)).1 h
    refine ⟨a, ha0, ha1, ?_⟩
    have hpt : segPoint2 s0 s1 a = q.1.add ((q.2.sub q.1).scale t) := by
      obtain ⟨e1, e2⟩ := he
      simp only [segPoint2, V2.add, V2.scale, V2.sub, V2.mk.injEq] at e1 e2 ⊢
      exact ⟨e1, e2⟩
    rw [hpt]
    exact side_in_rect lo hi hx.le hy.le q hq t ht0 ht1
  constructor
  · intro h
    unfold seg2Rect at h
    simp only [] at h
    split at h
    · cases h
    split at h
    · cases h
    split at h
    · rename_i hc
      simp only [Bool.or_eq_true] at hc
      rcases hc with hc | hc
      · refine ⟨0, le_rfl, zero_le_one, ?_⟩
        have : segPoint2 s0 s1 0 = s0 := by simp [segPoint2, V2.add, V2.scale]
        rw [this]; exact (rect2Contains_iff lo hi s0).1 hc
      · refine ⟨1, zero_le_one, le_rfl, ?_⟩
        have : segPoint2 s0 s1 1 = s1 := by simp [segPoint2, V2.add, V2.scale, V2.sub]
        rw [this]; exact (rect2Contains_iff lo hi s1).1 hc
    · simp only [Bool.or_eq_true] at h
      rcases h with ((h | h) | h) | h
      · exact hseg (lo, ⟨hi.x, lo.y⟩) (by simp [rectSides]) h
      · exact hseg (lo, ⟨lo.x, hi.y⟩) (by simp [rectSides]) h
      · exact hseg (hi, ⟨hi.x, lo.y⟩) (by simp [rectSides]) h
      · exact hseg (hi, ⟨lo.x, hi.y⟩) (by simp [rectSides]) h
  · rintro ⟨lam, h0, h1, hb⟩
    have hbx := minS_le_conv s0.x s1.x lam h0 h1
    have hby := minS_le_conv s0.y s1.y lam h0 h1
    obtain ⟨b1, b2, b3, b4⟩ := hb
    simp only [segPoint2, V2.add, V2.scale, V2.sub] at b1 b2 b3 b4
    unfold seg2Rect
    dsimp only
    have e1 : ¬ (hi.x < (s0.min s1).x ∨ hi.y < (s0.min s1).y) := by
      show ¬ (hi.x < minS s0.x s1.x ∨ hi.y < minS s0.y s1.y)
      rintro (h | h)
      · linarith [hbx.1]
      · linarith [hby.1]
    have e2 : ¬ ((s0.max s1).x < lo.x ∨ (s0.max s1).y < lo.y) := by
      show ¬ (maxS s0.x s1.x < lo.x ∨ maxS s0.y s1.y < lo.y)
      rintro (h | h)
      · linarith [hbx.2]
      · linarith [hby.2]
    rw [if_neg e1, if_neg e2]
    by_cases hc : (rect2Contains lo hi s0 || rect2Contains lo hi s1) = true
    · rw [if_pos hc]
    · rw [if_neg hc]
      have hc0 : ¬ InRect2 lo hi s0 := by
        intro h; apply hc; rw [(rect2Contains_iff lo hi s0).2 h]; rfl
      have hz : ∃ c ∈ boxCons s0 s1 lo hi, c.1 < 0 := by
        by_contra hcon
        push Not at hcon
        apply hc0
        have := (inRect2_segPoint s0 s1 lo hi 0).2 (fun c hc => by simpa using hcon c hc)
        simpa [segPoint2, V2.add, V2.scale] using this
      have hall := (inRect2_segPoint s0 s1 lo hi lam).1
        (show InRect2 lo hi (segPoint2 s0 s1 lam) from by
          simp only [InRect2, segPoint2, V2.add, V2.scale, V2.sub]; exact ⟨b1, b2, b3, b4⟩)
      obtain ⟨c, hcm, mu, hmu0, hmul, heq, hpos, hallmu⟩ := first_entry (boxCons s0 s1 lo hi) lam h0 hall hz
      obtain ⟨m1, m2, m3, m4⟩ := (inRect2_segPoint s0 s1 lo hi mu).2 hallmu
      simp only [segPoint2, V2.add, V2.scale, V2.sub] at m1 m2 m3 m4
      have hmu1 : mu ≤ 1 := le_trans hmul h1
      -- the side through which the segment enters
      have key : ∀ q ∈ rectSides lo hi, segDet s0 s1 (q.2.sub q.1) ≠ 0 →
          (∃ t, SegEq s0 s1 q.1 (q.2.sub q.1) t mu ∧ 0 ≤ t ∧ t ≤ 1) →
          seg2Segment sqrtF eps s0 s1 q.1 q.2 = true := by
        intro q hq hdet ⟨t, he, ht0, ht1⟩
        exact (seg2Segment_iff hs eps heps s0 s1 q.1 q.2 hv (hside q hq)).2
          ⟨hdet, hnp q hq hdet, t, mu, he, hmu0.le, hmu1, ht0, ht1⟩
      simp only [Bool.or_eq_true]
      simp only [boxCons, List.mem_cons, List.mem_nil_iff, or_false] at hcm
      have hwx : hi.x - lo.x ≠ 0 := ne_of_gt (by linarith)
      have hwy : hi.y - lo.y ≠ 0 := ne_of_gt (by linarith)
      rcases hcm with rfl | rfl | rfl | rfl
      · -- left side `x = lo.x`: the second side `lo → (lo.x, hi.y)`
        left; left; right
        simp only [] at heq hpos
        apply key (lo, ⟨lo.x, hi.y⟩) (by simp [rectSides])
        · simp only [segDet, V2.sub]; intro h
          have : (s1.x - s0.x) * (hi.y - lo.y) = 0 := by linear_combination h
          rcases mul_eq_zero.1 this with h | h
          · linarith
          · exact hwy h
        · refine ⟨(s0.y + (s1.y - s0.y) * mu - lo.y) / (hi.y - lo.y), ?_, ?_, ?_⟩
          · simp only [SegEq, V2.sub]
            constructor
            · linarith
            · field_simp; ring
          · apply div_nonneg <;> linarith
          · rw [div_le_one (by linarith)]; linarith
      · -- right side `x = hi.x`: the third side `hi → (hi.x, lo.y)`
        left; right
        simp only [] at heq hpos
        apply key (hi, ⟨hi.x, lo.y⟩) (by simp [rectSides])
        · simp only [segDet, V2.sub]; intro h
          have : (s1.x - s0.x) * (lo.y - hi.y) = 0 := by linear_combination h
          rcases mul_eq_zero.1 this with h | h
          · linarith
          · apply hwy; linarith
        · refine ⟨(hi.y - (s0.y + (s1.y - s0.y) * mu)) / (hi.y - lo.y), ?_, ?_, ?_⟩
          · simp only [SegEq, V2.sub]
            constructor
            · linarith
            · field_simp; ring
          · apply div_nonneg <;> linarith
          · rw [div_le_one (by linarith)]; linarith
      · -- bottom `y = lo.y`: the first side `lo → (hi.x, lo.y)`
        left; left; left
        simp only [] at heq hpos
        apply key (lo, ⟨hi.x, lo.y⟩) (by simp [rectSides])
        · simp only [segDet, V2.sub]; intro h
          have : (hi.x - lo.x) * (s1.y - s0.y) = 0 := by linear_combination -h
          rcases mul_eq_zero.1 this with h | h
          · exact hwx h
          · linarith
        · refine ⟨(s0.x + (s1.x - s0.x) * mu - lo.x) / (hi.x - lo.x), ?_, ?_, ?_⟩
          · simp only [SegEq, V2.sub]
            constructor
            · field_simp; ring
            · linarith
          · apply div_nonneg <;> linarith
          · rw [div_le_one (by linarith)]; linarith
      · -- top `y = hi.y`: the fourth side `hi → (lo.x, hi.y)`
        right
        simp only [] at heq hpos
        apply key (hi, ⟨lo.x, hi.y⟩) (by simp [rectSides])
        · simp only [segDet, V2.sub]; intro h
          have : (lo.x - hi.x) * (s1.y - s0.y) = 0 := by linear_combination -h
          rcases mul_eq_zero.1 this with h | h
          · apply hwx; linarith
          · linarith
        · refine ⟨(hi.x - (s0.x + (s1.x - s0.x) * mu)) / (hi.x - lo.x), ?_, ?_, ?_⟩
          · simp only [SegEq, V2.sub]
            constructor
            · field_simp; ring
            · linarith
          · apply div_nonneg <;> linarith
          · rw [div_le_one (by linarith)]; linarith

/-! ## the hierarchy -/

variable {L : Type}

/-- the bounds test admits a box that shares a point with the node's bounds -/
theorem rectOverlap2_of_point (lo hi jlo jhi x : V2 K) (h1 : InRect2 lo hi x) (h2 : InRect2 jlo jhi x) :
    rectOverlap2 lo hi jlo jhi = true := by
  obtain ⟨a1, a2, a3, a4⟩ := h1
  obtain ⟨b1, b2, b3, b4⟩ := h2
  simp only [rectOverlap2, V2.min, V2.max, Bool.and_eq_true, eqB_iff, minS_eq, maxS_eq]
  constructor
  · apply min_eq_left
    exact le_trans (max_le a1 b1) (le_min a2 b2)
  · apply min_eq_left
    exact le_trans (max_le a3 b3) (le_min a4 b4)

/-- … and conversely a box admitted by the bounds test shares a point with the node's bounds (when the bounds are a
box): the test prunes exactly the boxes disjoint from the bounds. -/
theorem rectOverlap2_iff (lo hi jlo jhi : V2 K) :
    rectOverlap2 lo hi jlo jhi = true ↔ ∃ x, InRect2 lo hi x ∧ InRect2 jlo jhi x := by
  constructor
  · intro h
    simp only [rectOverlap2, V2.min, V2.max, Bool.and_eq_true, eqB_iff, minS_eq, maxS_eq] at h
    obtain ⟨h1, h2⟩ := h
    have e1 : max lo.x jlo.x ≤ min hi.x jhi.x := min_eq_left_iff.1 h1
    have e2 : max lo.y jlo.y ≤ min hi.y jhi.y := min_eq_left_iff.1 h2
    refine ⟨⟨max lo.x jlo.x, max lo.y jlo.y⟩, ⟨le_max_left _ _, le_trans e1 (min_le_left _ _), le_max_left _ _,
      le_trans e2 (min_le_left _ _)⟩, ⟨le_max_right _ _, le_trans e1 (min_le_right _ _), le_max_right _ _,
      le_trans e2 (min_le_right _ _)⟩⟩
  · rintro ⟨x, h1, h2⟩; exact rectOverlap2_of_point lo hi jlo jhi x h1 h2

theorem btMin2_le (leafMin : L → V2 K) (t : BTree L) (l : L) (hl : l ∈ t.leaves) :
    (btMin2 leafMin t).x ≤ (leafMin l).x ∧ (btMin2 leafMin t).y ≤ (leafMin l).y := by
  induction t with
  | leaf l' => simp only [BTree.leaves, List.mem_singleton] at hl; subst hl; exact ⟨le_rfl, le_rfl⟩
  | node a b iha ihb =>
    simp only [BTree.leaves, List.mem_append] at hl
    simp only [btMin2, V2.min, minS_eq]
    rcases hl with h | h
    · exact ⟨le_trans (min_le_left _ _) (iha h).1, le_trans (min_le_left _ _) (iha h).2⟩
    · exact ⟨le_trans (min_le_right _ _) (ihb h).1, le_trans (min_le_right _ _) (ihb h).2⟩

theorem le_btMax2 (leafMax : L → V2 K) (t : BTree L) (l : L) (hl : l ∈ t.leaves) :
    (leafMax l).x ≤ (btMax2 leafMax t).x ∧ (leafMax l).y ≤ (btMax2 leafMax t).y := by
  induction t with
  | leaf l' => simp only [BTree.leaves, List.mem_singleton] at hl; subst hl; exact ⟨le_rfl, le_rfl⟩
  | node a b iha ihb =>
    simp only [BTree.leaves, List.mem_append] at hl
    simp only [btMax2, V2.max, maxS_eq]
    rcases hl with h | h
    · exact ⟨le_trans (iha h).1 (le_max_left _ _), le_trans (iha h).2 (le_max_left _ _)⟩
    · exact ⟨le_trans (ihb h).1 (le_max_right _ _), le_trans (ihb h).2 (le_max_right _ _)⟩

/-- **The hierarchy answers what its leaves answer**: if every leaf that answers "touching" does so because one of
its points — which lies within the leaf's own bounds — is in the box, then `joinedMultiCollider.RectCollision` over
any hierarchy (bounds as `NewJoinedCollider` computes them) is true iff some leaf's `RectCollision` is. -/
theorem treeRect2_iff (leafMin leafMax : L → V2 K) (leafRect : L → V2 K → V2 K → Bool) (P : L → V2 K → Prop)
    (t : BTree L) (lo hi : V2 K)
    (hb : ∀ l ∈ t.leaves, ∀ x, P l x → InRect2 (leafMin l) (leafMax l) x)
    (hsound : ∀ l ∈ t.leaves, leafRect l lo hi = true → ∃ x, P l x ∧ InRect2 lo hi x) :
    treeRect2 leafMin leafMax leafRect t lo hi = true ↔ ∃ l ∈ t.leaves, leafRect l lo hi = true := by
  induction t with
  | leaf l => simp [treeRect2, BTree.leaves]
  | node a b iha ihb =>
    have ha : ∀ l ∈ a.leaves, l ∈ (BTree.node a b).leaves := fun l hl => by simp [BTree.leaves, hl]
    have hb' : ∀ l ∈ b.leaves, l ∈ (BTree.node a b).leaves := fun l hl => by simp [BTree.leaves, hl]
    simp only [treeRect2, Bool.and_eq_true, Bool.or_eq_true,
      iha (fun l hl => hb l (ha l hl)) (fun l hl => hsound l (ha l hl)),
      ihb (fun l hl => hb l (hb' l hl)) (fun l hl => hsound l (hb' l hl)), BTree.leaves, List.mem_append]
    constructor
    · rintro ⟨_, ⟨l, hl, h⟩ | ⟨l, hl, h⟩⟩
      · exact ⟨l, Or.inl hl, h⟩
      · exact ⟨l, Or.inr hl, h⟩
    · rintro ⟨l, hl, h⟩
      have hl' : l ∈ (BTree.node a b).leaves := by simpa [BTree.leaves] using hl
      refine ⟨?_, ?_⟩
      · obtain ⟨x, hp, hx⟩ := hsound l hl' h
        apply rectOverlap2_of_point lo hi _ _ x hx
        obtain ⟨c1, c2, c3, c4⟩ := hb l hl' x hp
        have m := btMin2_le leafMin (.node a b) l hl'
        have M := le_btMax2 leafMax (.node a b) l hl'
        exact ⟨le_trans m.1 c1, le_trans c2 M.1, le_trans m.2 c3, le_trans c4 M.2⟩
      · rcases hl with hl | hl
        · exact Or.inl ⟨l, hl, h⟩
        · exact Or.inr ⟨l, hl, h⟩

/-- a point of a segment lies within the segment's bounds (`Segment.Min/Max`) -/
theorem segPoint2_in_bounds (s0 s1 : V2 K) (lam : K) (h0 : 0 ≤ lam) (h1 : lam ≤ 1) :
    InRect2 (s0.min s1) (s0.max s1) (segPoint2 s0 s1 lam) := by
  have hx := minS_le_conv s0.x s1.x lam h0 h1
  have hy := minS_le_conv s0.y s1.y lam h0 h1
  simp only [InRect2, V2.min, V2.max, segPoint2, V2.add, V2.scale, V2.sub]
  exact ⟨hx.1, hx.2, hy.1, hy.2⟩

end M3d.Col
