import M3d.Model.ArapLoop
import Mathlib.Tactic.Ring
import Mathlib.Tactic.Linarith
import Mathlib.Tactic.FieldSimp
import Mathlib.Algebra.Order.Field.Basic
/-!
Lemmas about `M3d.ArapLoop` (the control loop of `ARAP.deformMap`): where the loop stops (any
scalar type, `Float` included), invariance of the relative stopping rule under scaling of the
energies, and: no allowed stop while a positive energy keeps falling by the tolerance fraction.
-/
namespace M3d.ArapLoop

section Structural
variable {α : Type}

theorem loopFrom_spec (stop : α → α → Bool) (minIters : Nat) (E : Nat → α) :
    ∀ (fuel iter : Nat),
      iter ≤ loopFrom stop minIters E fuel iter ∧ loopFrom stop minIters E fuel iter ≤ iter + fuel ∧
        (loopFrom stop minIters E fuel iter < iter + fuel →
          minIters ≤ loopFrom stop minIters E fuel iter ∧ iter < loopFrom stop minIters E fuel iter ∧
            stop (E (loopFrom stop minIters E fuel iter)) (E (loopFrom stop minIters E fuel iter - 1)) = true) ∧
        ∀ k, iter < k → k < loopFrom stop minIters E fuel iter → minIters ≤ k → stop (E k) (E (k - 1)) = false := by
  intro fuel
  induction fuel with
  | zero => intro iter; simp [loopFrom]; intro k h1 h2; omega
  | succ f ih =>
    intro iter
    unfold loopFrom
    by_cases hc : (decide (minIters ≤ iter + 1) && stop (E (iter + 1)) (E iter)) = true
    · rw [if_pos hc]
      simp only [Bool.and_eq_true, decide_eq_true_eq] at hc
      refine ⟨by omega, by omega, fun _ => ⟨hc.1, by omega, by simpa using hc.2⟩, fun k h1 h2 => by omega⟩
    · rw [if_neg hc]
      obtain ⟨h1, h2, h3, h4⟩ := ih (iter + 1)
      refine ⟨by omega, by omega, fun hlt => ?_, fun k hk1 hk2 hk3 => ?_⟩
      · obtain ⟨a, b, c⟩ := h3 (by omega)
        exact ⟨a, by omega, c⟩
      · by_cases hk : k = iter + 1
        · subst hk
          simp only [Bool.and_eq_true, decide_eq_true_eq, not_and, Bool.not_eq_true] at hc
          simpa using hc hk3
        · exact h4 k (by omega) hk2 hk3

theorem loopFrom_congr {β : Type} (stop : α → α → Bool) (stop' : β → β → Bool) (minIters : Nat) (E : Nat → α) (E' : Nat → β)
    (h : ∀ k, stop (E (k + 1)) (E k) = stop' (E' (k + 1)) (E' k)) :
    ∀ fuel iter, loopFrom stop minIters E fuel iter = loopFrom stop' minIters E' fuel iter := by
  intro fuel
  induction fuel with
  | zero => intro iter; rfl
  | succ f ih => intro iter; unfold loopFrom; rw [h iter, ih (iter + 1)]

variable [Sub α] [Div α] [OfNat α 1] [LT α] [DecidableLT α] [BEq α] [OfNat α 0]

/-- The loop as it is stops at an allowed iteration count — for every scalar type (`Float` too). -/
theorem allowedStop_countRel (tol : α) (minIters maxIters : Nat) (E : Nat → α) :
    allowedStop tol minIters maxIters E (countRel tol minIters maxIters E) = true := by
  obtain ⟨_, h2, h3, _⟩ := loopFrom_spec (converged tol) minIters E maxIters 0
  unfold allowedStop countRel count
  by_cases hm : loopFrom (converged tol) minIters E maxIters 0 = maxIters
  · simp [hm]
  · obtain ⟨a, b, c⟩ := h3 (by omega)
    have hlt : loopFrom (converged tol) minIters E maxIters 0 < maxIters := by omega
    simp [hlt, a, c]
    omega

end Structural

section Field
variable {K : Type} [Field K] [LinearOrder K] [IsStrictOrderedRing K]

omit [IsStrictOrderedRing K] in
theorem converged_scale (c tol e last : K) (hc : c ≠ 0) :
    converged tol (c * e) (c * last) = converged tol e last := by
  unfold converged
  rw [mul_div_mul_left e last hc]

theorem spent_scale (c e : K) (hc : c ≠ 0) : spent (c * e) = spent e := by
  unfold spent
  simp [hc]

omit [IsStrictOrderedRing K] in
theorem countRel_scale (c tol : K) (hc : c ≠ 0) (minIters maxIters : Nat) (E : Nat → K) :
    countRel tol minIters maxIters (fun k => c * E k) = countRel tol minIters maxIters E := by
  unfold countRel count
  exact loopFrom_congr _ _ _ _ _ (fun k => converged_scale c tol _ _ hc) _ _

theorem allowedStop_scale (c tol : K) (hc : c ≠ 0) (minIters maxIters : Nat) (E : Nat → K) (n : Nat) :
    allowedStop tol minIters maxIters (fun k => c * E k) n = allowedStop tol minIters maxIters E n := by
  unfold allowedStop
  simp only [converged_scale c tol _ _ hc, spent_scale c _ hc]

/-- `converged` is false right after an iteration that lowered a positive energy by at least the
fraction `tol`. -/
theorem not_converged_of_drop (tol e last : K) (hl : 0 < last) (h : e ≤ (1 - tol) * last) :
    converged tol e last = false := by
  unfold converged
  simp only [decide_eq_false_iff_not, not_lt]
  have : e / last ≤ 1 - tol := by
    rw [div_le_iff₀ hl]; exact h
  linarith

theorem no_allowed_stop_while_dropping (tol guard : K) (minIters maxIters : Nat) (E : Nat → K) (n : Nat)
    (ht : tol < 1) (hg : 0 ≤ guard) (hn : n < maxIters)
    (ha : allowedStop tol minIters maxIters E n = true) (hd : stillDropping tol guard E n = true) : False := by
  unfold allowedStop at ha
  unfold stillDropping at hd
  simp only [Bool.or_eq_true, Bool.and_eq_true, decide_eq_true_eq, beq_iff_eq] at ha hd
  obtain ⟨⟨hg1, hd1⟩, hd2⟩ := hd
  rcases ha with ha | ⟨⟨⟨_, _⟩, h1⟩, hcs⟩
  · omega
  · have hn0 : n ≠ 0 := by omega
    have hd2' : E n ≤ (1 - tol) * E (n - 1) := by
      rcases hd2 with h | h
      · exact absurd h hn0
      · exact h
    have hpos1 : 0 < E (n + 1) := lt_of_le_of_lt hg hg1
    have h1t : 0 < 1 - tol := by linarith
    have hposn : 0 < E n := by
      by_contra hc
      have : (1 - tol) * E n ≤ 0 := mul_nonpos_of_nonneg_of_nonpos h1t.le (not_lt.1 hc)
      linarith
    have hposp : 0 < E (n - 1) := by
      by_contra hc
      have : (1 - tol) * E (n - 1) ≤ 0 := mul_nonpos_of_nonneg_of_nonpos h1t.le (not_lt.1 hc)
      linarith
    rcases hcs with hc | hs
    · rw [not_converged_of_drop tol _ _ hposp hd2'] at hc
      exact Bool.false_ne_true hc
    · unfold spent at hs
      simp only [Bool.or_eq_true, beq_iff_eq, Bool.not_eq_true', beq_eq_false_iff_ne, ne_eq, not_true_eq_false, or_false] at hs
      linarith

theorem geometric_bound (tol : K) (maxIters : Nat) (E : Nat → K) (ht : tol ≤ 1)
    (h : ∀ k, k < maxIters → E (k + 1) ≤ (1 - tol) * E k) :
    ∀ k, k ≤ maxIters → E k ≤ (1 - tol) ^ k * E 0 := by
  intro k
  induction k with
  | zero => intro _; simp
  | succ j ih =>
    intro hj
    have h1 := h j (by omega)
    have h2 := ih (by omega)
    have h1t : 0 ≤ 1 - tol := by linarith
    calc E (j + 1) ≤ (1 - tol) * E j := h1
      _ ≤ (1 - tol) * ((1 - tol) ^ j * E 0) := mul_le_mul_of_nonneg_left h2 h1t
      _ = (1 - tol) ^ (j + 1) * E 0 := by ring

end Field

end M3d.ArapLoop
