import M3d.Lemmas.SdfRound
/-!
C06 helper lemmas: the normals reported by `Cylinder`, `Cone` and `Torus` (and the rounded side of
`Capsule`) are the unit outward normals of the face containing the nearest point.
-/
namespace M3d.Sdf
set_option linter.unusedSectionVars false
set_option linter.unusedVariables false

variable {K : Type} [Field K] [LinearOrder K] [IsStrictOrderedRing K]

/-- `safeNormal` returns a unit vector orthogonal to `invalid` whenever the fallback is one. -/
theorem safeNormal3_unit_orth {E : Env K} (hE : E.Exact) (d fb inv : V3 K) (hinv : 0 < inv.normSq)
    (hfb1 : fb.normSq = 1) (hfb2 : inv.dot fb = 0) :
    (safeNormal3 E d fb inv).normSq = 1 ∧ inv.dot (safeNormal3 E d fb inv) = 0 := by
  unfold safeNormal3
  dsimp only
  split_ifs with h1 h2
  · exact ⟨hfb1, hfb2⟩
  · exact ⟨hfb1, hfb2⟩
  · -- the projected, renormalised direction
    obtain ⟨hn, hsq, hunit, _⟩ := V3.normalized_spec hE inv hinv
    set d1 := d.scale (1 / d.norm E) with hd1
    set d2 := d1.projectOut E inv with hd2
    have horth : inv.dot d2 = 0 := by
      simp only [hd2, V3.projectOut, V3.normalize]
      generalize inv.norm E = ρ at *
      generalize 1 / ρ = u at *
      simp only [V3.normSq, V3.scale] at hunit
      simp only [V3.dot, V3.sub, V3.scale]
      linear_combination (-(inv.x * d1.x + inv.y * d1.y + inv.z * d1.z)) * hunit
    have hpos : 0 < d2.norm E := lt_of_lt_of_le hE.eps_pos (not_lt.mp h2)
    have hd2pos : 0 < d2.normSq := by
      rcases (V3.normSq_nonneg d2).lt_or_eq with h | h
      · exact h
      · exfalso
        have : d2.norm E = 0 := by show E.sqrt d2.normSq = 0; rw [← h]; exact hE.sqrt_zero
        linarith
    obtain ⟨_, _, hu2, _⟩ := V3.normalized_spec hE d2 hd2pos
    refine ⟨hu2, ?_⟩
    have : inv.dot (d2.scale (1 / d2.norm E)) = (1 / d2.norm E) * inv.dot d2 := by
      simp only [V3.dot, V3.scale]; ring
    rw [this, horth, mul_zero]

/-! ## the rounded side of `Cylinder` and `Capsule` -/

/-- For a unit `axis` and `d = axis · (c - p1)` the offset `c - (p1 + d axis)` is orthogonal to the axis. -/
theorem side_delta_orth (p1 axis c : V3 K) (ha : axis.normSq = 1) :
    axis.dot (c.sub (p1.add (axis.scale (axis.dot (c.sub p1))))) = 0 := by
  simp only [V3.normSq] at ha
  simp only [V3.dot, V3.sub, V3.add, V3.scale]
  linear_combination (-(axis.x * (c.x - p1.x) + axis.y * (c.y - p1.y) + axis.z * (c.z - p1.z))) * ha

/-- **Side of the cylinder / capsule.**  With a unit `axis`, `d = axis · (c - P1)` and
`δ = c - (P1 + d axis) ≠ 0`, the reported normal `safeNormal(δ, b1, axis)` is `δ/‖δ‖`: a unit vector, orthogonal
to both tangent directions of the side at the nearest point (the axis and `axis × n`), pointing from the axis
towards the query (`δ = ‖δ‖ n`, `‖δ‖ > 0`). -/
theorem sideNormal3_spec {E : Env K} (hE : E.Exact) (p1 axis c : V3 K) (ha : axis.normSq = 1)
    (hδ : 0 < (c.sub (p1.add (axis.scale (axis.dot (c.sub p1))))).normSq) :
    let δ := c.sub (p1.add (axis.scale (axis.dot (c.sub p1))))
    let n := sideNormal3 E p1 axis (axis.dot (c.sub p1)) c
    n.normSq = 1 ∧ n.dot axis = 0 ∧ n.dot (axis.cross n) = 0 ∧ 0 < δ.norm E ∧ δ = n.scale (δ.norm E) := by
  intro δ n
  have horth := side_delta_orth p1 axis c ha
  have hn : n = δ.scale (1 / δ.norm E) := safeNormal3_of_orth hE δ _ axis hδ horth
  obtain ⟨h1, h2, h3, h4⟩ := V3.normalized_spec hE δ hδ
  rw [hn]
  refine ⟨h3, ?_, ?_, h1, h4⟩
  · have : (δ.scale (1 / δ.norm E)).dot axis = (1 / δ.norm E) * axis.dot δ := by
      simp only [V3.dot, V3.scale]; ring
    rw [this, horth, mul_zero]
  · simp only [V3.dot, V3.cross, V3.scale]; ring

/-- The normalised axis `v/‖v‖` of a cylinder/capsule/cone is a unit vector with `axis · v = ‖v‖ > 0`:
the cap normal `axis` at `P2` points away from `P1`, the cap normal `-axis` at `P1` away from `P2`. -/
theorem axis_spec {E : Env K} (hE : E.Exact) (p1 p2 : V3 K) (hne : 0 < (p2.sub p1).normSq) :
    let axis := (p2.sub p1).scale (1 / (p2.sub p1).norm E)
    axis.normSq = 1 ∧ 0 < axis.dot (p2.sub p1) ∧ 0 < (axis.scale (-1)).dot (p1.sub p2) := by
  intro axis
  obtain ⟨h1, h2, h3, h4⟩ := V3.normalized_spec hE (p2.sub p1) hne
  have hd : axis.dot (p2.sub p1) = (p2.sub p1).norm E := by
    have : axis.dot (p2.sub p1) = (1 / (p2.sub p1).norm E) * (p2.sub p1).normSq := by
      simp only [axis, V3.dot, V3.scale, V3.normSq]; ring
    rw [this, ← h2]; field_simp
  refine ⟨h3, by rw [hd]; exact h1, ?_⟩
  have : (axis.scale (-1)).dot (p1.sub p2) = axis.dot (p2.sub p1) := by
    simp only [V3.dot, V3.scale, V3.sub]; ring
  rw [this, hd]; exact h1

/-- `filledCircleDist` either leaves the running minimum alone or reports the cap normal `axis`
(the outward unit normal of the disc, orthogonal to the in-plane directions `b1`, `b2`). -/
theorem filledCircleDist_normal (E : Env K) (c center axis : V3 K) (radius : K) (st : St K) :
    filledCircleDist E c center axis radius st = st ∨ (filledCircleDist E c center axis radius st).n = axis := by
  unfold filledCircleDist
  dsimp only
  split_ifs <;> simp

/-! ## `Cone` -/

/-- **Slanted side of the cone** (repaired code).  `H = Tip - Base ≠ 0`, `a` the radial unit vector
(`a · a = 1`, `a · H = 0`), `R` the radius.  The reported normal
`normalize(a ‖H‖ + H (R/‖H‖))` is a unit vector orthogonal to both tangent directions of the side at the nearest
point — the generator `Tip - (Base + R a) = H - R a` and the circumferential direction `H × a` — and has
positive dot product with the outward radial direction `a`. -/
theorem coneSideNormal_spec {E : Env K} (hE : E.Exact) (tip base a : V3 K) (r : K)
    (hH : 0 < (tip.sub base).normSq) (ha1 : a.normSq = 1) (ha2 : a.dot (tip.sub base) = 0) :
    let n := coneSideNormal E tip base r a
    n.normSq = 1 ∧ n.dot ((tip.sub base).sub (a.scale r)) = 0 ∧ n.dot ((tip.sub base).cross a) = 0 ∧ 0 < n.dot a := by
  intro n
  obtain ⟨hpos, hsq, _, _⟩ := V3.normalized_spec hE (tip.sub base) hH
  set H := tip.sub base with hHdef
  set h := H.norm E with hh
  set m := (a.scale h).add (H.scale (r / h)) with hm
  have hne : h ≠ 0 := hpos.ne'
  have hmm : m.normSq = h * h + r * r := by
    simp only [V3.normSq] at ha1 hsq
    simp only [V3.dot] at ha2
    simp only [hm, V3.normSq, V3.add, V3.scale]
    field_simp
    linear_combination (h * h * h * h) * ha1 + (-(r * r)) * hsq + (2 * h * h * r) * ha2
  have hmpos : 0 < m.normSq := by rw [hmm]; nlinarith [mul_self_nonneg r, mul_pos hpos hpos]
  obtain ⟨hn1, hn2, hn3, hn4⟩ := V3.normalized_spec hE m hmpos
  have hnm : n = m.scale (1 / m.norm E) := rfl
  have hdot : ∀ w : V3 K, n.dot w = (1 / m.norm E) * m.dot w := by
    intro w; rw [hnm]; simp only [V3.dot, V3.scale]; ring
  have hu : 0 < 1 / m.norm E := by positivity
  refine ⟨by rw [hnm]; exact hn3, ?_, ?_, ?_⟩
  · rw [hdot]
    have : m.dot (H.sub (a.scale r)) = 0 := by
      simp only [V3.normSq] at ha1 hsq
      simp only [V3.dot] at ha2
      simp only [hm, V3.dot, V3.add, V3.scale, V3.sub]
      field_simp
      linear_combination (-(h * h * r)) * ha1 + (-r) * hsq + (h * h - r * r) * ha2
    rw [this, mul_zero]
  · rw [hdot]
    have : m.dot (H.cross a) = 0 := by
      simp only [hm, V3.dot, V3.add, V3.scale, V3.cross]; ring
    rw [this, mul_zero]
  · rw [hdot]
    have : m.dot a = h := by
      simp only [V3.normSq] at ha1
      simp only [V3.dot] at ha2
      simp only [hm, V3.dot, V3.add, V3.scale]
      field_simp
      linear_combination (h * h) * ha1 + r * ha2
    rw [this]; positivity

/-- **Defect F6, on the model of the code before the repair.**  The old formula `normalize(a R + H)` is
*not* orthogonal to the generator of the side unless the height equals the radius: its dot product with
`H - R a` is `(‖H‖² - R²)/‖a R + H‖`. -/
theorem coneSideNormalOld_not_orth {E : Env K} (hE : E.Exact) (tip base a : V3 K) (r : K)
    (ha1 : a.normSq = 1) (ha2 : a.dot (tip.sub base) = 0) (hHR : (tip.sub base).normSq ≠ r * r)
    (hm : 0 < ((a.scale r).add (tip.sub base)).normSq) :
    (coneSideNormalOld E tip base r a).dot ((tip.sub base).sub (a.scale r)) ≠ 0 := by
  obtain ⟨hn1, _, _, _⟩ := V3.normalized_spec hE _ hm
  set H := tip.sub base
  set m := (a.scale r).add H with hmdef
  have hdot : (coneSideNormalOld E tip base r a).dot (H.sub (a.scale r)) = (1 / m.norm E) * m.dot (H.sub (a.scale r)) := by
    show (m.scale (1 / m.norm E)).dot (H.sub (a.scale r)) = _
    simp only [V3.dot, V3.scale]; ring
  have hval : m.dot (H.sub (a.scale r)) = H.normSq - r * r := by
    simp only [V3.normSq] at ha1
    simp only [V3.dot] at ha2
    simp only [hmdef, V3.dot, V3.add, V3.scale, V3.sub, V3.normSq]
    linear_combination (-(r * r)) * ha1
  rw [hdot, hval]
  have : (1 : K) / m.norm E ≠ 0 := by positivity
  exact mul_ne_zero this (sub_ne_zero.mpr hHR)

/-- The radial vector `safeNormal(p - Base, fallback, Tip - Base)` of `Cone.genericSDF` is a unit vector
orthogonal to the centre line, provided the `OrthoBasis` fallback is. -/
theorem coneRadial_spec {E : Env K} (hE : E.Exact) (tip base p : V3 K) (hH : 0 < (tip.sub base).normSq)
    (hfb1 : ((tip.sub base).orthoBasis E).1.normSq = 1)
    (hfb2 : (tip.sub base).dot ((tip.sub base).orthoBasis E).1 = 0) :
    (coneRadial E tip base p).normSq = 1 ∧ (coneRadial E tip base p).dot (tip.sub base) = 0 := by
  obtain ⟨h1, h2⟩ := safeNormal3_unit_orth hE (p.sub base) _ (tip.sub base) hH hfb1 hfb2
  refine ⟨h1, ?_⟩
  have : (coneRadial E tip base p).dot (tip.sub base) = (tip.sub base).dot (coneRadial E tip base p) := by
    simp only [V3.dot]; ring
  rw [this]; exact h2

/-! ## `Torus` -/

/-- **Torus.**  `rp` the nearest point of the centre ring (any vector), `A` the axis (`A ≠ 0`, `rp × A ≠ 0`).
The reported normal `safeNormal(centered - rp, A/‖A‖, rp × A)` is a unit vector orthogonal to the
circumferential tangent `rp × A` of the torus at the nearest point (the other tangent direction, of the tube
circle, is `n × (rp × A)`, orthogonal to `n` by construction). -/
theorem torusNormal_unit_orth {E : Env K} (hE : E.Exact) (A rp centered : V3 K) (hA : 0 < A.normSq)
    (hinv : 0 < (rp.cross A).normSq) :
    (torusNormal E A rp centered).normSq = 1 ∧ (rp.cross A).dot (torusNormal E A rp centered) = 0 ∧
      (torusNormal E A rp centered).dot ((torusNormal E A rp centered).cross (rp.cross A)) = 0 := by
  obtain ⟨_, _, hu, _⟩ := V3.normalized_spec hE A hA
  have hfb2 : (rp.cross A).dot (A.normalize E) = 0 := by
    simp only [V3.normalize, V3.dot, V3.cross, V3.scale]; ring
  obtain ⟨h1, h2⟩ := safeNormal3_unit_orth hE (centered.sub rp) (A.normalize E) (rp.cross A) hinv hu hfb2
  refine ⟨h1, h2, ?_⟩
  simp only [V3.dot, V3.cross]; ring

/-- … and when the query decomposes as `centered = k rp + z A` off the ring (`centered ≠ rp`) — which is what
the orthonormal basis `b1, b2, A/‖A‖` gives — the normal is `(centered - rp)/‖centered - rp‖`: it points from
the centre of the tube towards the query, i.e. outwards. -/
theorem torusNormal_outward {E : Env K} (hE : E.Exact) (A rp centered : V3 K) (k z : K)
    (hdec : centered = (rp.scale k).add (A.scale z)) (hne : 0 < (centered.sub rp).normSq) :
    torusNormal E A rp centered = (centered.sub rp).scale (1 / (centered.sub rp).norm E) ∧
      0 < (torusNormal E A rp centered).dot (centered.sub rp) := by
  have horth : (rp.cross A).dot (centered.sub rp) = 0 := by
    rw [hdec]; simp only [V3.dot, V3.cross, V3.sub, V3.add, V3.scale]; ring
  have hn := safeNormal3_of_orth hE (centered.sub rp) (A.normalize E) (rp.cross A) hne horth
  obtain ⟨h1, h2, h3, h4⟩ := V3.normalized_spec hE (centered.sub rp) hne
  refine ⟨hn, ?_⟩
  show 0 < (safeNormal3 E (centered.sub rp) (A.normalize E) (rp.cross A)).dot (centered.sub rp)
  rw [hn]
  have : ((centered.sub rp).scale (1 / (centered.sub rp).norm E)).dot (centered.sub rp)
      = (1 / (centered.sub rp).norm E) * (centered.sub rp).normSq := by
    simp only [V3.dot, V3.scale, V3.normSq]; ring
  rw [this]; positivity

end M3d.Sdf
