import M3d.Lemmas.SdfTri
/-!
C06 helper lemmas: when the orthogonal projection of the query falls outside the triangle, the nearest
point of the triangle is on an edge — so the edge loop of `Triangle.Closest` is optimal over the whole triangle.
-/
namespace M3d.Sdf
set_option linter.unusedSectionVars false
set_option linter.unusedVariables false

variable {K : Type} [Field K] [LinearOrder K] [IsStrictOrderedRing K]

/-- parameter at which the affine function `g(s) = g0 + s (g1 - g0)` (with `g1 ≥ 0`) becomes non-negative -/
def crossAt (g0 g1 : K) : K := if g0 < 0 then g0 / (g0 - g1) else 0

theorem crossAt_spec (g0 g1 : K) (h1 : 0 ≤ g1) :
    0 ≤ crossAt g0 g1 ∧ crossAt g0 g1 ≤ 1 ∧
    (∀ s, crossAt g0 g1 ≤ s → s ≤ 1 → 0 ≤ g0 + s * (g1 - g0)) ∧
    (g0 < 0 → g0 + crossAt g0 g1 * (g1 - g0) = 0 ∧ 0 < crossAt g0 g1) := by
  unfold crossAt
  by_cases h : g0 < 0
  · simp only [h, if_true]
    have hd : g0 - g1 < 0 := by linarith
    have hc : g0 / (g0 - g1) * (g0 - g1) = g0 := div_mul_cancel₀ _ hd.ne
    have hpos : 0 < g0 / (g0 - g1) := div_pos_of_neg_of_neg h hd
    refine ⟨hpos.le, ?_, ?_, fun _ => ⟨by linear_combination (-1 : K) * hc, hpos⟩⟩
    · by_contra hgt
      have hgt := not_le.mp hgt
      nlinarith
    · intro s hs _
      nlinarith
  · simp only [h, if_false]
    have h0 := not_lt.mp h
    refine ⟨le_rfl, zero_le_one, ?_, fun hc => hc.elim⟩
    intro s hs hs1
    nlinarith [mul_nonneg (sub_nonneg.mpr hs1) h0, mul_nonneg hs h1]

/-- A segment from a point outside the triangle (in barycentric coefficients) to a point inside meets the
boundary of the triangle. -/
theorem tri_exit (a b a' b' : K) (hout : ¬ InTri a b) (hin : InTri a' b') :
    ∃ s, 0 ≤ s ∧ s ≤ 1 ∧ InTri (a + s * (a' - a)) (b + s * (b' - b)) ∧
      (a + s * (a' - a) = 0 ∨ b + s * (b' - b) = 0 ∨ (a + s * (a' - a)) + (b + s * (b' - b)) = 1) := by
  obtain ⟨ha', hb', hab'⟩ := hin
  have h3' : 0 ≤ 1 - a' - b' := by linarith
  obtain ⟨p1, q1, r1, e1⟩ := crossAt_spec a a' ha'
  obtain ⟨p2, q2, r2, e2⟩ := crossAt_spec b b' hb'
  obtain ⟨p3, q3, r3, e3⟩ := crossAt_spec (1 - a - b) (1 - a' - b') h3'
  set s1 := crossAt a a'
  set s2 := crossAt b b'
  set s3 := crossAt (1 - a - b) (1 - a' - b')
  set s := max (max s1 s2) s3 with hs
  have hs1 : s1 ≤ s := le_trans (le_max_left _ _) (le_max_left _ _)
  have hs2 : s2 ≤ s := le_trans (le_max_right _ _) (le_max_left _ _)
  have hs3 : s3 ≤ s := le_max_right _ _
  have hs0 : 0 ≤ s := le_trans p1 hs1
  have hs_le : s ≤ 1 := max_le (max_le q1 q2) q3
  have g1 := r1 s hs1 hs_le
  have g2 := r2 s hs2 hs_le
  have g3 := r3 s hs3 hs_le
  refine ⟨s, hs0, hs_le, ⟨g1, g2, by linarith⟩, ?_⟩
  -- some constraint is violated at 0, so s > 0
  have hviol : a < 0 ∨ b < 0 ∨ 1 - a - b < 0 := by
    by_contra hc
    simp only [not_or, not_lt] at hc
    exact hout ⟨hc.1, hc.2.1, by linarith [hc.2.2]⟩
  have hspos : 0 < s := by
    rcases hviol with h | h | h
    · exact lt_of_lt_of_le (e1 h).2 hs1
    · exact lt_of_lt_of_le (e2 h).2 hs2
    · exact lt_of_lt_of_le (e3 h).2 hs3
  -- s is one of the three crossing parameters
  have hone : s = s1 ∨ s = s2 ∨ s = s3 := by
    rcases max_choice (max s1 s2) s3 with h | h
    · rcases max_choice s1 s2 with h' | h'
      · left; rw [hs, h, h']
      · right; left; rw [hs, h, h']
    · right; right; rw [hs, h]
  rcases hone with h | h | h
  · left
    by_cases hv : a < 0
    · rw [h]; exact (e1 hv).1
    · exfalso
      have : s1 = 0 := by simp only [s1, crossAt, hv, if_false]
      linarith
  · right; left
    by_cases hv : b < 0
    · rw [h]; exact (e2 hv).1
    · exfalso
      have : s2 = 0 := by simp only [s2, crossAt, hv, if_false]
      linarith
  · right; right
    by_cases hv : 1 - a - b < 0
    · have := (e3 hv).1
      rw [h]; linarith
    · exfalso
      have : s3 = 0 := by simp only [s3, crossAt, hv, if_false]
      linarith

/-- squared distance from `P + z n` to a point of the plane, `n ⊥ v1, v2` -/
theorem plane_sqDist (t0 t1 t2 n : V3 K) (a b z : K)
    (h1 : n.dot (t1.sub t0) = 0) (h2 : n.dot (t2.sub t0) = 0) (a' b' : K) :
    ((triPoint t0 t1 t2 a b).add (n.scale z)).sqDist (triPoint t0 t1 t2 a' b') =
      z * z * n.normSq + (triPoint t0 t1 t2 a b).sqDist (triPoint t0 t1 t2 a' b') := by
  simp only [V3.dot, V3.sub] at h1 h2
  simp only [triPoint, V3.sqDist, V3.add, V3.scale, V3.sub, V3.normSq]
  linear_combination (2 * z * (a - a')) * h1 + (2 * z * (b - b')) * h2

theorem plane_point_scale (t0 t1 t2 : V3 K) (a b a' b' s : K) :
    (triPoint t0 t1 t2 a b).sqDist (triPoint t0 t1 t2 (a + s * (a' - a)) (b + s * (b' - b))) =
      s * s * (triPoint t0 t1 t2 a b).sqDist (triPoint t0 t1 t2 a' b') := by
  simp only [triPoint, V3.sqDist, V3.add, V3.scale, V3.sub]; ring

theorem triPoint_edges (t0 t1 t2 : V3 K) (a b : K) :
    (b = 0 → triPoint t0 t1 t2 a b = V3.lerp t0 t1 a) ∧
    (a = 0 → triPoint t0 t1 t2 a b = V3.lerp t2 t0 (1 - b)) ∧
    (a + b = 1 → triPoint t0 t1 t2 a b = V3.lerp t1 t2 b) := by
  refine ⟨?_, ?_, ?_⟩
  · rintro rfl; ext <;> simp only [triPoint, V3.lerp, V3.add, V3.scale, V3.sub] <;> ring
  · rintro rfl; ext <;> simp only [triPoint, V3.lerp, V3.add, V3.scale, V3.sub] <;> ring
  · intro h
    have : a = 1 - b := by linarith
    subst this
    ext <;> simp only [triPoint, V3.lerp, V3.add, V3.scale, V3.sub] <;> ring

/-- **Edge region, full strength.**  If `c = P + z n` with `P = triPoint a b` outside the triangle and a point `r` is
at least as close to `c` as every point of the three edges, then it is at least as close as every point of the
triangle. -/
theorem edge_optimal_imp_triangle_optimal (t0 t1 t2 n c r : V3 K) (a b z : K)
    (h1 : n.dot (t1.sub t0) = 0) (h2 : n.dot (t2.sub t0) = 0)
    (hc : c = (triPoint t0 t1 t2 a b).add (n.scale z)) (hout : ¬ InTri a b)
    (hedge : ∀ t, 0 ≤ t → t ≤ 1 → r.sqDist c ≤ (V3.lerp t0 t1 t).sqDist c ∧
      r.sqDist c ≤ (V3.lerp t1 t2 t).sqDist c ∧ r.sqDist c ≤ (V3.lerp t2 t0 t).sqDist c)
    (a' b' : K) (hin : InTri a' b') : r.sqDist c ≤ (triPoint t0 t1 t2 a' b').sqDist c := by
  obtain ⟨s, hs0, hs1, ⟨i1, i2, i3⟩, hon⟩ := tri_exit a b a' b' hout hin
  set a'' := a + s * (a' - a)
  set b'' := b + s * (b' - b)
  -- the boundary point is at least as close as the interior point
  have hcloser : (triPoint t0 t1 t2 a'' b'').sqDist c ≤ (triPoint t0 t1 t2 a' b').sqDist c := by
    rw [V3.sqDist_comm _ c, V3.sqDist_comm _ c, hc, plane_sqDist t0 t1 t2 n a b z h1 h2,
      plane_sqDist t0 t1 t2 n a b z h1 h2, plane_point_scale]
    have hnn := V3.sqDist_nonneg (triPoint t0 t1 t2 a b) (triPoint t0 t1 t2 a' b')
    have : s * s ≤ 1 := by nlinarith
    nlinarith
  obtain ⟨e1, e2, e3⟩ := triPoint_edges t0 t1 t2 a'' b''
  refine le_trans ?_ hcloser
  rcases hon with h | h | h
  · rw [e2 h]; exact (hedge (1 - b'') (by linarith) (by linarith)).2.2
  · rw [e1 h]; exact (hedge a'' i1 (by linarith)).1
  · rw [e3 h]; exact (hedge b'' i2 (by linarith)).2.1

end M3d.Sdf
