import M3d.Lemmas.CollideJordan
import M3d.Lemmas.CollideXf
/-!
# C07 — 2-D: the crossing parity of a closed polygon (system) does not depend on the direction of the ray

The planar case of `CollideJordan.lean`: with the wedge coordinates `a x = det·((x-o) × d2)`, `b x = det·(d1 × (x-o))`
(`det = d1 × d2 ≠ 0`; `det²·(x - o) = a·d1 + b·d2`) the wedge of the two rays is the open first quadrant, and by the
quadrant lemma a segment has its end points on the same side of the quadrant's boundary iff it meets both rays or
none.  Summed over a closed polygon system — every point is an end point of an even number of segments — the
vertex terms cancel.
-/
set_option linter.unusedSectionVars false
set_option linter.unusedVariables false
set_option linter.unusedSimpArgs false
namespace M3d.Col

variable {K : Type} [Field K] [LinearOrder K] [IsStrictOrderedRing K]

section Wedge2
variable (o d1 d2 : V2 K)

def w2Det : K := d1.x * d2.y - d1.y * d2.x
def w2A (x : V2 K) : K := ((x.x - o.x) * d2.y - (x.y - o.y) * d2.x) * w2Det d1 d2
def w2B (x : V2 K) : K := (d1.x * (x.y - o.y) - d1.y * (x.x - o.x)) * w2Det d1 d2

/-- a 2-D segment `(p, q)` -/
abbrev Seg (K : Type) := V2 K × V2 K

/-- the ray from `o` along `d` meets the (closed) segment -/
def segHits (o d : V2 K) (S : Seg K) : Prop :=
  ∃ t s, 0 ≤ t ∧ 0 ≤ s ∧ s ≤ 1 ∧ o.along d t = segPoint2 S.1 S.2 s

/-- `o` is a point of the segment -/
def onSeg (o : V2 K) (S : Seg K) : Prop := ∃ s, 0 ≤ s ∧ s ≤ 1 ∧ segPoint2 S.1 S.2 s = o

theorem w2A_seg (p q : V2 K) (s : K) : w2A o d1 d2 (segPoint2 p q s) = (1 - s) * w2A o d1 d2 p + s * w2A o d1 d2 q := by
  simp only [w2A, segPoint2, V2.add, V2.sub, V2.scale]; ring

theorem w2B_seg (p q : V2 K) (s : K) : w2B o d1 d2 (segPoint2 p q s) = (1 - s) * w2B o d1 d2 p + s * w2B o d1 d2 q := by
  simp only [w2B, segPoint2, V2.add, V2.sub, V2.scale]; ring

/-- `det²·(x - o) = a·d1 + b·d2` -/
theorem wedge2_decomp (x : V2 K) :
    (x.x - o.x) * (w2Det d1 d2 * w2Det d1 d2) = w2A o d1 d2 x * d1.x + w2B o d1 d2 x * d2.x ∧
    (x.y - o.y) * (w2Det d1 d2 * w2Det d1 d2) = w2A o d1 d2 x * d1.y + w2B o d1 d2 x * d2.y := by
  simp only [w2A, w2B, w2Det]
  exact ⟨by ring, by ring⟩

theorem wedge2_origin (hdet : w2Det d1 d2 ≠ 0) (x : V2 K) (ha : w2A o d1 d2 x = 0) (hb : w2B o d1 d2 x = 0) :
    x = o := by
  obtain ⟨h1, h2⟩ := wedge2_decomp o d1 d2 x
  rw [ha, hb] at h1 h2
  simp only [zero_mul, add_zero] at h1 h2
  have hne : w2Det d1 d2 * w2Det d1 d2 ≠ 0 := mul_ne_zero hdet hdet
  have e1 := (mul_eq_zero.1 h1).resolve_right hne
  have e2 := (mul_eq_zero.1 h2).resolve_right hne
  cases x; cases o
  simp only [V2.mk.injEq] at *
  exact ⟨by linarith, by linarith⟩

theorem ray1_iff2 (hdet : w2Det d1 d2 ≠ 0) (S : Seg K) (ho : ¬ onSeg o S) :
    segHits o d1 S ↔ ∃ s, 0 ≤ s ∧ s ≤ 1 ∧ w2B o d1 d2 (segPoint2 S.1 S.2 s) = 0 ∧
      0 < w2A o d1 d2 (segPoint2 S.1 S.2 s) := by
  have hpos : 0 < w2Det d1 d2 * w2Det d1 d2 := mul_self_pos.2 hdet
  constructor
  · rintro ⟨t, s, ht, hs0, hs1, he⟩
    have hb : w2B o d1 d2 (o.along d1 t) = 0 := by
      simp only [w2B, V2.along, V2.add, V2.scale]; ring
    have ha : w2A o d1 d2 (o.along d1 t) = t * (w2Det d1 d2 * w2Det d1 d2) := by
      simp only [w2A, w2Det, V2.along, V2.add, V2.scale]; ring
    rw [he] at hb ha
    refine ⟨s, hs0, hs1, hb, ?_⟩
    rcases lt_or_eq_of_le ht with h | h
    · rw [ha]; exact mul_pos h hpos
    · exfalso; apply ho
      refine ⟨s, hs0, hs1, ?_⟩
      rw [← he, ← h]
      simp only [V2.along, V2.add, V2.scale, mul_zero, add_zero]
  · rintro ⟨s, hs0, hs1, hb, ha⟩
    refine ⟨w2A o d1 d2 (segPoint2 S.1 S.2 s) / (w2Det d1 d2 * w2Det d1 d2), s,
      div_nonneg (le_of_lt ha) (le_of_lt hpos), hs0, hs1, ?_⟩
    obtain ⟨h1, h2⟩ := wedge2_decomp o d1 d2 (segPoint2 S.1 S.2 s)
    rw [hb] at h1 h2
    set x := segPoint2 S.1 S.2 s
    simp only [zero_mul, add_zero] at h1 h2
    simp only [V2.along, V2.add, V2.scale]
    cases hx : x
    rw [hx] at h1 h2
    simp only [V2.mk.injEq] at *
    refine ⟨?_, ?_⟩ <;> field_simp <;> linarith

theorem ray2_iff2 (hdet : w2Det d1 d2 ≠ 0) (S : Seg K) (ho : ¬ onSeg o S) :
    segHits o d2 S ↔ ∃ s, 0 ≤ s ∧ s ≤ 1 ∧ w2A o d1 d2 (segPoint2 S.1 S.2 s) = 0 ∧
      0 < w2B o d1 d2 (segPoint2 S.1 S.2 s) := by
  have hpos : 0 < w2Det d1 d2 * w2Det d1 d2 := mul_self_pos.2 hdet
  constructor
  · rintro ⟨t, s, ht, hs0, hs1, he⟩
    have ha : w2A o d1 d2 (o.along d2 t) = 0 := by
      simp only [w2A, V2.along, V2.add, V2.scale]; ring
    have hb : w2B o d1 d2 (o.along d2 t) = t * (w2Det d1 d2 * w2Det d1 d2) := by
      simp only [w2B, w2Det, V2.along, V2.add, V2.scale]; ring
    rw [he] at hb ha
    refine ⟨s, hs0, hs1, ha, ?_⟩
    rcases lt_or_eq_of_le ht with h | h
    · rw [hb]; exact mul_pos h hpos
    · exfalso; apply ho
      refine ⟨s, hs0, hs1, ?_⟩
      rw [← he, ← h]
      simp only [V2.along, V2.add, V2.scale, mul_zero, add_zero]
  · rintro ⟨s, hs0, hs1, ha, hb⟩
    refine ⟨w2B o d1 d2 (segPoint2 S.1 S.2 s) / (w2Det d1 d2 * w2Det d1 d2), s,
      div_nonneg (le_of_lt hb) (le_of_lt hpos), hs0, hs1, ?_⟩
    obtain ⟨h1, h2⟩ := wedge2_decomp o d1 d2 (segPoint2 S.1 S.2 s)
    rw [ha] at h1 h2
    set x := segPoint2 S.1 S.2 s
    simp only [zero_mul, zero_add] at h1 h2
    simp only [V2.along, V2.add, V2.scale]
    cases hx : x
    rw [hx] at h1 h2
    simp only [V2.mk.injEq] at *
    refine ⟨?_, ?_⟩ <;> field_simp <;> linarith

/-- general position of a segment: its end points are off the two lines through `o`, and `o` is not on it -/
def segGP (S : Seg K) : Prop :=
  w2A o d1 d2 S.1 ≠ 0 ∧ w2B o d1 d2 S.1 ≠ 0 ∧ w2A o d1 d2 S.2 ≠ 0 ∧ w2B o d1 d2 S.2 ≠ 0 ∧ ¬ onSeg o S

/-- **one segment in general position**: its end points are on the same side of the wedge's boundary iff it
meets both rays or none -/
theorem seg_parity (hdet : w2Det d1 d2 ≠ 0) (S : Seg K) (hgp : segGP o d1 d2 S) :
    (inQ (w2A o d1 d2 S.1) (w2B o d1 d2 S.1) ↔ inQ (w2A o d1 d2 S.2) (w2B o d1 d2 S.2)) ↔
      (segHits o d1 S ↔ segHits o d2 S) := by
  obtain ⟨hA1, hB1, hA2, hB2, ho⟩ := hgp
  set A1 := w2A o d1 d2 S.1
  set B1 := w2B o d1 d2 S.1
  set A2 := w2A o d1 d2 S.2
  set B2 := w2B o d1 d2 S.2
  have hr1 : segHits o d1 S ↔ crossA A1 B1 A2 B2 := by
    rw [ray1_iff2 o d1 d2 hdet S ho, ← crossA_geom A1 B1 A2 B2 hB1 hB2]
    simp only [w2A_seg, w2B_seg]
    exact Iff.rfl
  have hr2 : segHits o d2 S ↔ crossB A1 B1 A2 B2 := by
    rw [ray2_iff2 o d1 d2 hdet S ho, ← crossB_geom A1 B1 A2 B2 hA1 hA2]
    simp only [w2A_seg, w2B_seg]
    exact Iff.rfl
  rw [hr1, hr2]
  by_cases hN : A1 * B2 - A2 * B1 = 0
  · have hseg : ∀ m, 0 ≤ m → m ≤ 1 → (1 - m) * A1 + m * A2 = 0 → (1 - m) * B1 + m * B2 = 0 → False := by
      intro m hm0 hm1 hA hB
      apply ho
      refine ⟨m, hm0, hm1, ?_⟩
      apply wedge2_origin o d1 d2 hdet
      · rw [w2A_seg]; exact hA
      · rw [w2B_seg]; exact hB
    have hBB : 0 < B1 * B2 := by
      rcases lt_or_gt_of_ne (mul_ne_zero hB1 hB2) with h | h
      · exfalso
        have hne : B1 - B2 ≠ 0 := by
          intro h0; have : B1 = B2 := by linarith
          rw [this] at h; nlinarith [mul_self_nonneg B2]
        have hm0 : 0 ≤ B1 / (B1 - B2) := by
          rw [div_nonneg_iff]
          rcases lt_or_gt_of_ne hne with h' | h'
          · right; constructor <;> nlinarith
          · left; constructor <;> nlinarith
        have hm1 : B1 / (B1 - B2) ≤ 1 := by
          rw [div_le_one_iff]
          rcases lt_or_gt_of_ne hne with h' | h'
          · right; right; constructor <;> nlinarith
          · left; constructor <;> nlinarith
        refine hseg (B1 / (B1 - B2)) hm0 hm1 ?_ ?_
        · have e : (1 - B1 / (B1 - B2)) * A1 + B1 / (B1 - B2) * A2 = -(A1 * B2 - A2 * B1) / (B1 - B2) := by
            field_simp; ring
          rw [e, hN]; simp
        · field_simp; ring
      · exact h
    have hAA : 0 < A1 * A2 := by
      rcases lt_or_gt_of_ne (mul_ne_zero hA1 hA2) with h | h
      · exfalso
        have hne : A1 - A2 ≠ 0 := by
          intro h0; have : A1 = A2 := by linarith
          rw [this] at h; nlinarith [mul_self_nonneg A2]
        have hm0 : 0 ≤ A1 / (A1 - A2) := by
          rw [div_nonneg_iff]
          rcases lt_or_gt_of_ne hne with h' | h'
          · right; constructor <;> nlinarith
          · left; constructor <;> nlinarith
        have hm1 : A1 / (A1 - A2) ≤ 1 := by
          rw [div_le_one_iff]
          rcases lt_or_gt_of_ne hne with h' | h'
          · right; right; constructor <;> nlinarith
          · left; constructor <;> nlinarith
        refine hseg (A1 / (A1 - A2)) hm0 hm1 ?_ ?_
        · field_simp; ring
        · have e : (1 - A1 / (A1 - A2)) * B1 + A1 / (A1 - A2) * B2 = (A1 * B2 - A2 * B1) / (A1 - A2) := by
            field_simp; ring
          rw [e, hN]; simp
      · exact h
    obtain ⟨q1, q2, q3⟩ := quadrant_same A1 B1 A2 B2 hAA hBB
    exact ⟨fun _ => ⟨fun h => absurd h q2, fun h => absurd h q3⟩, fun _ => q1⟩
  · exact quadrant_parity A1 B1 A2 B2 hA1 hB1 hA2 hB2 hN

end Wedge2

/-! ## closed polygon systems -/

section Poly
open Classical

/-- if every element of a list occurs an even number of times, every predicate holds for an even number of entries -/
theorem even_countP_of_even_mult {V : Type} (P : V → Prop) :
    ∀ (n : Nat) (L : List V), L.length ≤ n → (∀ v, (L.countP (fun x => decide (x = v))) % 2 = 0) →
      (L.countP (fun x => decide (P x))) % 2 = 0
  | 0, L, hlen, _ => by
    have : L = [] := List.eq_nil_of_length_eq_zero (Nat.le_zero.1 hlen)
    rw [this]; rfl
  | n + 1, [], _, _ => rfl
  | n + 1, v :: L', hlen, hcl => by
    set L := v :: L' with hL
    set s : V → Bool := fun x => decide (x = v) with hs
    rw [countP_split _ s L]
    have h1 : ((L.filter s).countP (fun x => decide (P x))) % 2 = 0 := by
      have hc : (L.filter s).countP (fun x => decide (P x)) = (L.filter s).countP (fun _ => decide (P v)) :=
        List.countP_congr (by
          intro x hx
          have : x = v := by simpa [hs] using (List.mem_filter.1 hx).2
          rw [this])
      rw [hc]
      by_cases hp : P v
      · have : (L.filter s).countP (fun _ => decide (P v)) = (L.filter s).length := by simp [hp]
        rw [this, ← List.countP_eq_length_filter]
        exact hcl v
      · simp [hp]
    have hlen' : (L.filter (fun a => !s a)).length ≤ n := by
      have hhead : s v = true := by simp [hs]
      have : L.filter (fun a => !s a) = L'.filter (fun a => !s a) := by simp [hL, hhead]
      rw [this]
      have := List.length_filter_le (fun a => !s a) L'
      simp only [hL, List.length_cons] at hlen
      omega
    have hcl' : ∀ w, ((L.filter (fun a => !s a)).countP (fun x => decide (x = w))) % 2 = 0 := by
      intro w
      rw [List.countP_filter]
      by_cases hw : w = v
      · have : L.countP (fun a => decide (a = w) && !s a) = 0 := by
          rw [List.countP_eq_zero]
          intro x _
          simp only [hs, hw, Bool.and_eq_true, decide_eq_true_eq, Bool.not_eq_true', decide_eq_false_iff_not, not_and,
            not_not, imp_self]
        rw [this]
      · have : L.countP (fun a => decide (a = w) && !s a) = L.countP (fun a => decide (a = w)) := by
          apply List.countP_congr
          intro x _
          by_cases h : x = w
          · have : ¬ x = v := fun hc => hw (h ▸ hc)
            simp [hs, h, this, hw]
          · simp [h]
        rw [this]; exact hcl w
    have h2 := even_countP_of_even_mult P n _ hlen' hcl'
    omega

variable (o d1 d2 : V2 K)

/-- the end points of all segments -/
def polyEnds (segs : List (Seg K)) : List (V2 K) := segs.flatMap fun S => [S.1, S.2]

/-- **closed (mod 2)**: every point is an end point of an even number of segments -/
def ClosedPoly (segs : List (Seg K)) : Prop :=
  ∀ v : V2 K, ((polyEnds segs).countP (fun x => decide (x = v))) % 2 = 0

theorem countP_polyEnds (P : V2 K → Prop) (segs : List (Seg K)) :
    (polyEnds segs).countP (fun x => decide (P x)) = (segs.map fun S => ind (P S.1) + ind (P S.2)).sum := by
  induction segs with
  | nil => rfl
  | cons S ss ih =>
    have : polyEnds (S :: ss) = [S.1, S.2] ++ polyEnds ss := by simp [polyEnds]
    rw [this, List.countP_append, ih]
    simp only [List.map_cons, List.sum_cons, List.countP_cons, List.countP_nil, ind, decide_eq_true_eq]
    omega

/-- **The two rays of a wedge cross a closed polygon system in general position the same number of times modulo 2.** -/
theorem wedge_parity2 (hdet : w2Det d1 d2 ≠ 0) (segs : List (Seg K)) (hgp : ∀ S ∈ segs, segGP o d1 d2 S)
    (hcl : ClosedPoly segs) :
    ((segs.map fun S => ind (segHits o d1 S)).sum + (segs.map fun S => ind (segHits o d2 S)).sum) % 2 = 0 := by
  set Q : V2 K → Prop := fun x => inQ (w2A o d1 d2 x) (w2B o d1 d2 x) with hQ
  have hall := sum_even (fun S : Seg K => ind (Q S.1) + ind (Q S.2) + ind (segHits o d1 S) + ind (segHits o d2 S)) segs
    (by
      intro S hS
      have h := seg_parity o d1 d2 hdet S (hgp S hS)
      by_cases h1 : Q S.1 <;> by_cases h2 : Q S.2 <;> by_cases h3 : segHits o d1 S <;> by_cases h4 : segHits o d2 S <;>
        simp only [ind, h1, h2, h3, h4, if_true, if_false] <;> first | rfl | (exfalso; simp only [hQ] at h1 h2; tauto))
  have hsplit : (segs.map fun S : Seg K => ind (Q S.1) + ind (Q S.2) + ind (segHits o d1 S) + ind (segHits o d2 S)).sum =
      (segs.map fun S : Seg K => ind (Q S.1) + ind (Q S.2)).sum +
      (segs.map fun S => ind (segHits o d1 S)).sum + (segs.map fun S => ind (segHits o d2 S)).sum := by
    rw [← sum_map_add', ← sum_map_add']
  have hends := even_countP_of_even_mult Q _ (polyEnds segs) le_rfl hcl
  rw [countP_polyEnds] at hends
  rw [hsplit] at hall
  omega

end Poly

/-! ## decidable sufficient conditions (for concrete polygons) -/

deriving instance DecidableEq for V2

section Dec2
variable (o d1 d2 : V2 K)

/-- a point off the line of a segment is not on the segment -/
theorem not_onSeg_of_line (S : Seg K)
    (h : (S.2.x - S.1.x) * (o.y - S.1.y) - (S.2.y - S.1.y) * (o.x - S.1.x) ≠ 0) : ¬ onSeg o S := by
  rintro ⟨s, _, _, he⟩
  apply h
  rw [← he]
  simp only [segPoint2, V2.add, V2.sub, V2.scale]; ring

/-- Boolean form of `segGP` ("off the segment's line" for "not on the segment") -/
def segGPb (S : Seg K) : Bool :=
  decide (w2A o d1 d2 S.1 ≠ 0) && decide (w2B o d1 d2 S.1 ≠ 0) && decide (w2A o d1 d2 S.2 ≠ 0) &&
    decide (w2B o d1 d2 S.2 ≠ 0) &&
    decide ((S.2.x - S.1.x) * (o.y - S.1.y) - (S.2.y - S.1.y) * (o.x - S.1.x) ≠ 0)

theorem segGP_of_b (S : Seg K) (h : segGPb o d1 d2 S = true) : segGP o d1 d2 S := by
  simp only [segGPb, Bool.and_eq_true, decide_eq_true_eq] at h
  obtain ⟨⟨⟨⟨h1, h2⟩, h3⟩, h4⟩, h5⟩ := h
  exact ⟨h1, h2, h3, h4, not_onSeg_of_line o S h5⟩

/-- Boolean form of `ClosedPoly`: the check over the end points that occur -/
def closedPolyB (segs : List (Seg K)) : Bool :=
  (polyEnds segs).all fun v => ((polyEnds segs).countP (fun x => decide (x = v))) % 2 == 0

theorem closedPoly_of_b (segs : List (Seg K)) (h : closedPolyB segs = true) : ClosedPoly segs := by
  classical
  intro v
  simp only [closedPolyB, List.all_eq_true, beq_iff_eq] at h
  by_cases hv : v ∈ polyEnds segs
  · have := h v hv
    convert this
  · have h0 : ∀ x ∈ polyEnds segs, ¬ (x = v) := fun x hx hxv => hv (hxv ▸ hx)
    have : ∀ (l : List (V2 K)), (∀ x ∈ l, ¬ (x = v)) → l.countP (fun x => decide (x = v)) = 0 := by
      intro l hl
      rw [List.countP_eq_zero]
      intro x hx
      simp only [decide_eq_true_eq]
      exact hl x hx
    have e := this _ h0
    have : (polyEnds segs).countP (fun x => decide (x = v)) % 2 = 0 := by rw [e]
    convert this

end Dec2

end M3d.Col
