import M3d.Model.ConcQuery
/-!
# C13 helper lemmas: the ownership discipline gives non-interference and race freedom

`Agree t c c'`: thread `t` cannot tell `c` from `c'` (same registers, same memory wherever it
may read).  A step of `t` keeps two agreeing configurations agreeing; a step of another thread
that respects the discipline does not change what `t` sees.  Hence a thread's view after any
schedule is its view after its own steps alone.
-/
set_option linter.unusedSimpArgs false
set_option linter.unusedVariables false
namespace M3d.Conc

section
variable (own : Tid → Loc → Bool) (shared : Loc → Bool)

def Agree (t : Tid) (c c' : Config) : Prop :=
  viewOf c t = viewOf c' t ∧ ∀ l, (own t l = true ∨ shared l = true) → c.mem l = c'.mem l

theorem Agree.refl (t : Tid) (c : Config) : Agree own shared t c c := ⟨rfl, fun _ _ => rfl⟩

theorem Agree.symm {t : Tid} {c c' : Config} (h : Agree own shared t c c') : Agree own shared t c' c :=
  ⟨h.1.symm, fun l hl => (h.2 l hl).symm⟩

theorem Agree.trans {t : Tid} {c c' c'' : Config} (h : Agree own shared t c c')
    (h' : Agree own shared t c' c'') : Agree own shared t c c'' :=
  ⟨h.1.trans h'.1, fun l hl => (h.2 l hl).trans (h'.2 l hl)⟩

/-- The next step of `t` is the same in configurations that agree for `t`. -/
theorem agree_next {t : Tid} {c c' : Config} (h : Agree own shared t c c') (p : Program) :
    (p t)[(c.thr t).pc]? = (p t)[(c'.thr t).pc]? := by
  have := h.1
  simp only [viewOf, View.mk.injEq] at this
  rw [this.1]

theorem agree_step_self (p : Program) (hp : ∀ t, ∀ s ∈ p t, stepRO own shared t s = true)
    {t : Tid} {c c' : Config} (h : Agree own shared t c c') :
    Agree own shared t (step p c t) (step p c' t) := by
  have hn := agree_next own shared h p
  obtain ⟨hv, hm⟩ := h
  simp only [viewOf, View.mk.injEq] at hv
  obtain ⟨h1, h2, h3, h4⟩ := hv
  unfold step
  rw [← hn]
  cases hs : (p t)[(c.thr t).pc]? with
  | none => exact ⟨by simp [viewOf, h1, h2, h3, h4], hm⟩
  | some s =>
    have hro := hp t s (List.mem_of_getElem? hs)
    cases s <;> simp only [stepRO, Bool.or_eq_true, Bool.false_eq_true] at hro
    case tau => exact ⟨by simp [exec, advance, viewOf, upd, h1, h2, h3, h4], by simpa [exec, advance] using hm⟩
    case setReg v => exact ⟨by simp [exec, advance, viewOf, upd, h1, h2, h3, h4], by simpa [exec, advance] using hm⟩
    case read l =>
      refine ⟨?_, by simpa [exec, advance, access] using hm⟩
      simp [exec, advance, access, viewOf, upd, h1, h2, h3, h4, hm l hro]
    case write l v =>
      refine ⟨by simp [exec, advance, access, viewOf, upd, h1, h2, h3, h4], ?_⟩
      intro l' hl'
      simp only [exec, advance, access, upd]
      split
      · rfl
      · exact hm l' hl'
    case writeF l g =>
      refine ⟨by simp [exec, advance, access, viewOf, upd, h1, h2, h3, h4], ?_⟩
      intro l' hl'
      simp only [exec, advance, access, upd, h3]
      split
      · rfl
      · exact hm l' hl'
    case rmw l g =>
      refine ⟨by simp [exec, advance, access, viewOf, upd, h1, h2, h3, h4], ?_⟩
      intro l' hl'
      simp only [exec, advance, access, upd, h3, hm l (Or.inl hro)]
      split
      · rfl
      · exact hm l' hl'

theorem agree_step_other (hdisj : ∀ t t' l, own t l = true → own t' l = true → t = t')
    (hsh : ∀ t l, shared l = true → own t l = false)
    (p : Program) (hp : ∀ t, ∀ s ∈ p t, stepRO own shared t s = true)
    {t u : Tid} (hne : u ≠ t) (c : Config) : Agree own shared t (step p c u) c := by
  unfold step
  cases hs : (p u)[(c.thr u).pc]? with
  | none => exact Agree.refl own shared t c
  | some s =>
    have hro := hp u s (List.mem_of_getElem? hs)
    have hne' : t ≠ u := fun h => hne h.symm
    cases s <;> simp only [stepRO, Bool.or_eq_true, Bool.false_eq_true] at hro
    case tau => exact ⟨by simp [exec, advance, viewOf, upd, hne'], by simp [exec, advance]⟩
    case setReg v => exact ⟨by simp [exec, advance, viewOf, upd, hne'], by simp [exec, advance]⟩
    case read l => exact ⟨by simp [exec, advance, access, viewOf, upd, hne'], by simp [exec, advance, access]⟩
    case write l v =>
      refine ⟨by simp [exec, advance, access, viewOf, upd, hne'], ?_⟩
      intro l' hl'
      simp only [exec, advance, access, upd]
      split
      · next he =>
        subst he
        rcases hl' with hl' | hl'
        · exact absurd (hdisj _ _ _ hl' hro) hne'
        · rw [hsh u _ hl'] at hro; exact absurd hro (by simp)
      · rfl
    case writeF l g =>
      refine ⟨by simp [exec, advance, access, viewOf, upd, hne'], ?_⟩
      intro l' hl'
      simp only [exec, advance, access, upd]
      split
      · next he =>
        subst he
        rcases hl' with hl' | hl'
        · exact absurd (hdisj _ _ _ hl' hro) hne'
        · rw [hsh u _ hl'] at hro; exact absurd hro (by simp)
      · rfl
    case rmw l g =>
      refine ⟨by simp [exec, advance, access, viewOf, upd, hne'], ?_⟩
      intro l' hl'
      simp only [exec, advance, access, upd]
      split
      · next he =>
        subst he
        rcases hl' with hl' | hl'
        · exact absurd (hdisj _ _ _ hl' hro) hne'
        · rw [hsh u _ hl'] at hro; exact absurd hro (by simp)
      · rfl

theorem alone_cons_self (t : Tid) (s : Schedule) : alone (t :: s) t = t :: alone s t := by
  simp [alone, List.filter_cons]

theorem alone_cons_other {t u : Tid} (h : u ≠ t) (s : Schedule) : alone (u :: s) t = alone s t := by
  simp [alone, List.filter_cons, h]

/-- **Non-interference**: after any schedule thread `t` sees what it sees after its own steps
alone. -/
theorem agree_run (hdisj : ∀ t t' l, own t l = true → own t' l = true → t = t')
    (hsh : ∀ t l, shared l = true → own t l = false)
    (p : Program) (hp : ∀ t, ∀ s ∈ p t, stepRO own shared t s = true)
    (t : Tid) (sched : Schedule) (c c' : Config) (h : Agree own shared t c c') :
    Agree own shared t (run p c sched) (run p c' (alone sched t)) := by
  induction sched generalizing c c' with
  | nil => simpa [alone] using h
  | cons u s ih =>
    by_cases hu : u = t
    · subst hu
      rw [alone_cons_self, run_cons, run_cons]
      exact ih _ _ (agree_step_self own shared p hp h)
    · rw [alone_cons_other hu, run_cons]
      exact ih _ _ ((agree_step_other own shared hdisj hsh p hp hu c).trans own shared h)

/-- Every recorded plain access respects the discipline, no race was detected, and the shared
locations still hold what they held after construction (`m0`). -/
structure OwnInv (m0 : Loc → Val) (c : Config) : Prop where
  hist : ∀ a ∈ c.hist, (a.isWrite = true → own a.tid a.loc = true) ∧
    (own a.tid a.loc = true ∨ shared a.loc = true)
  norace : c.races = []
  frozen : ∀ l, shared l = true → c.mem l = m0 l

/-- No earlier access conflicts with an access that respects the discipline. -/
theorem unordered_nil (hdisj : ∀ t t' l, own t l = true → own t' l = true → t = t')
    (hsh : ∀ t l, shared l = true → own t l = false) {c : Config}
    (hh : ∀ a ∈ c.hist, (a.isWrite = true → own a.tid a.loc = true) ∧
      (own a.tid a.loc = true ∨ shared a.loc = true))
    (t : Tid) (l : Loc) (w : Bool) (hw : w = true → own t l = true)
    (hr : own t l = true ∨ shared l = true) : unordered c t l w = [] := by
  simp only [unordered, List.filter_eq_nil_iff]
  intro a ha
  obtain ⟨h1, h2⟩ := hh a ha
  simp only [Bool.and_eq_true, beq_iff_eq, Bool.or_eq_true, bne_iff_ne, ne_eq, Bool.not_eq_true', not_and]
  rintro ⟨⟨hloc, hconf⟩, htid⟩ _
  exfalso
  subst hloc
  rcases hconf with hconf | hconf
  · have ho := h1 hconf
    rcases hr with hr | hr
    · exact htid (hdisj _ _ _ ho hr)
    · rw [hsh _ _ hr] at ho; exact absurd ho (by simp)
  · have ho := hw hconf
    rcases h2 with h2 | h2
    · exact htid (hdisj _ _ _ h2 ho)
    · rw [hsh _ _ h2] at ho; exact absurd ho (by simp)

theorem ownInv_step (hdisj : ∀ t t' l, own t l = true → own t' l = true → t = t')
    (hsh : ∀ t l, shared l = true → own t l = false)
    (p : Program) (hp : ∀ t, ∀ s ∈ p t, stepRO own shared t s = true) (m0 : Loc → Val)
    (c : Config) (t : Tid) (I : OwnInv own shared m0 c) : OwnInv own shared m0 (step p c t) := by
  unfold step
  cases hs : (p t)[(c.thr t).pc]? with
  | none => exact I
  | some s =>
    have hro := hp t s (List.mem_of_getElem? hs)
    obtain ⟨i1, i2, i3⟩ := I
    cases s <;> simp only [stepRO, Bool.or_eq_true, Bool.false_eq_true] at hro
    case tau => exact ⟨by simpa [exec, advance] using i1, by simpa [exec, advance] using i2, by simpa [exec, advance] using i3⟩
    case setReg v => exact ⟨by simpa [exec, advance] using i1, by simpa [exec, advance] using i2, by simpa [exec, advance] using i3⟩
    case read l =>
      have hu := unordered_nil own shared hdisj hsh i1 t l false (by simp) hro
      refine ⟨?_, by simp [exec, advance, access, hu, i2], by simpa [exec, advance, access] using i3⟩
      intro a ha
      simp only [exec, advance, access, List.mem_cons] at ha
      rcases ha with rfl | ha
      · exact ⟨by simp, hro⟩
      · exact i1 a ha
    case write l v =>
      have hu := unordered_nil own shared hdisj hsh i1 t l true (fun _ => hro) (Or.inl hro)
      refine ⟨?_, by simp [exec, advance, access, hu, i2], ?_⟩
      · intro a ha
        simp only [exec, advance, access, List.mem_cons] at ha
        rcases ha with rfl | ha
        · exact ⟨fun _ => hro, Or.inl hro⟩
        · exact i1 a ha
      · intro l' hl'
        simp only [exec, advance, access, upd]
        split
        · next he => subst he; rw [hsh t _ hl'] at hro; exact absurd hro (by simp)
        · exact i3 l' hl'
    case writeF l g =>
      have hu := unordered_nil own shared hdisj hsh i1 t l true (fun _ => hro) (Or.inl hro)
      refine ⟨?_, by simp [exec, advance, access, hu, i2], ?_⟩
      · intro a ha
        simp only [exec, advance, access, List.mem_cons] at ha
        rcases ha with rfl | ha
        · exact ⟨fun _ => hro, Or.inl hro⟩
        · exact i1 a ha
      · intro l' hl'
        simp only [exec, advance, access, upd]
        split
        · next he => subst he; rw [hsh t _ hl'] at hro; exact absurd hro (by simp)
        · exact i3 l' hl'
    case rmw l g =>
      have hu := unordered_nil own shared hdisj hsh i1 t l true (fun _ => hro) (Or.inl hro)
      refine ⟨?_, by simp [exec, advance, access, hu, i2], ?_⟩
      · intro a ha
        simp only [exec, advance, access, List.mem_cons] at ha
        rcases ha with rfl | ha
        · exact ⟨fun _ => hro, Or.inl hro⟩
        · exact i1 a ha
      · intro l' hl'
        simp only [exec, advance, access, upd]
        split
        · next he => subst he; rw [hsh t _ hl'] at hro; exact absurd hro (by simp)
        · exact i3 l' hl'

theorem ownInv_run (hdisj : ∀ t t' l, own t l = true → own t' l = true → t = t')
    (hsh : ∀ t l, shared l = true → own t l = false)
    (p : Program) (hp : ∀ t, ∀ s ∈ p t, stepRO own shared t s = true) (m0 : Loc → Val)
    (c : Config) (sched : Schedule) (I : OwnInv own shared m0 c) :
    OwnInv own shared m0 (run p c sched) := by
  induction sched generalizing c with
  | nil => exact I
  | cons t s ih => exact ih _ (ownInv_step own shared hdisj hsh p hp m0 c t I)

end

theorem alone_eq_replicate (sched : Schedule) (t : Tid) : alone sched t = List.replicate (sched.count t) t := by
  simp [alone, List.filter_beq]

/-- A finished thread only stutters. -/
theorem run_replicate_done (p : Program) (c : Config) (t : Tid) (h : (p t).length ≤ (c.thr t).pc) (j : Nat) :
    run p c (List.replicate j t) = c := by
  induction j with
  | zero => rfl
  | succ j ih =>
    rw [List.replicate_succ, run_cons]
    have : step p c t = c := by
      unfold step
      rw [List.getElem?_eq_none h]
    rw [this, ih]

/-- The staged query run alone: after `k < 4` steps it is at step `k`; after at least 4 it has
returned `f s x`. -/
theorem query_solo (f : Val → Val → Val) (xs : Tid → Val) (s : Val) (t : Tid) (k : Nat) :
    let c := run (queryLocalProg f xs) (structInit s) (List.replicate k t)
    (k < 4 → (c.thr t).pc = k) ∧ (4 ≤ k → (c.thr t).out = f s (xs t)) := by
  intro c
  have h4 : ((run (queryLocalProg f xs) (structInit s) (List.replicate 4 t)).thr t).pc = 4 ∧
      ((run (queryLocalProg f xs) (structInit s) (List.replicate 4 t)).thr t).out = f s (xs t) := by
    simp [List.replicate, run, List.foldl, step, queryLocalProg, queryThread, exec, advance, access, structInit,
      Config.init, TState.init, upd, STRUCT, PRIV]
  constructor
  · intro hk
    obtain rfl | rfl | rfl | rfl : k = 0 ∨ k = 1 ∨ k = 2 ∨ k = 3 := by omega
    all_goals
      simp [c, List.replicate, run, List.foldl, step, queryLocalProg, queryThread, exec, advance, access, structInit,
        Config.init, TState.init, upd, STRUCT, PRIV]
  · intro hk
    obtain ⟨j, rfl⟩ : ∃ j, k = 4 + j := ⟨k - 4, by omega⟩
    have : c = run (queryLocalProg f xs) (structInit s) (List.replicate 4 t) := by
      simp only [c]
      rw [← List.replicate_append_replicate, run_append]
      exact run_replicate_done _ _ t (by rw [h4.1]; simp [queryLocalProg, queryThread]) j
    rw [this]
    exact h4.2

/-! ## Memoisation: every caller of `cacheThread v` returns `v` -/

structure CacheInv (v : Val) (c : Config) : Prop where
  pcle : ∀ t, (c.thr t).pc ≤ 4
  cell : c.mem CACHE = 0 ∨ c.mem CACHE = v
  r1 : ∀ t, (c.thr t).pc = 1 → (c.thr t).reg = 0 ∨ (c.thr t).reg = v
  r2 : ∀ t, (c.thr t).pc = 2 → (c.thr t).reg = 0
  r3 : ∀ t, (c.thr t).pc = 3 → (c.thr t).reg = v
  r4 : ∀ t, (c.thr t).pc = 4 → (c.thr t).reg = v
  hist : c.hist = []
  norace : c.races = []

theorem cacheInv_init (v : Val) : CacheInv v Config.init := by
  constructor <;> simp [Config.init, TState.init]

theorem cache_at (v : Val) :
    (cacheThread v)[0]? = some (.atomicLoad CACHE) ∧ (cacheThread v)[1]? = some (.jmpIfSet 2) ∧
    (cacheThread v)[2]? = some (.setReg v) ∧ (cacheThread v)[3]? = some (.atomicStore CACHE) ∧
    (cacheThread v)[4]? = none := ⟨rfl, rfl, rfl, rfl, rfl⟩

theorem cacheInv_step (v : Val) (hv : v ≠ 0) (c : Config) (t : Tid) (I : CacheInv v c) :
    CacheInv v (step (cacheProg v) c t) := by
  have hp := I.pcle t
  obtain ⟨a0, a1, a2, a3, a4⟩ := cache_at v
  obtain ⟨i1, i2, i3, i4, i5, i6, i7, i8⟩ := I
  obtain h|h|h|h|h : (c.thr t).pc = 0 ∨ (c.thr t).pc = 1 ∨ (c.thr t).pc = 2 ∨ (c.thr t).pc = 3 ∨
      (c.thr t).pc = 4 := by omega
  · simp only [step, cacheProg, h, a0, exec, advance, CACHE]
    constructor <;> (try simp only [upd, CACHE] at *) <;> grind
  · simp only [step, cacheProg, h, a1, exec, advance, CACHE]
    constructor <;> (try simp only [upd, CACHE] at *) <;> grind
  · simp only [step, cacheProg, h, a2, exec, advance, CACHE]
    constructor <;> (try simp only [upd, CACHE] at *) <;> grind
  · simp only [step, cacheProg, h, a3, exec, advance, CACHE]
    constructor <;> (try simp only [upd, CACHE] at *) <;> grind
  · simp only [step, cacheProg, h, a4]
    exact ⟨i1, i2, i3, i4, i5, i6, i7, i8⟩

theorem cacheInv_run (v : Val) (hv : v ≠ 0) (c : Config) (sched : Schedule) (I : CacheInv v c) :
    CacheInv v (run (cacheProg v) c sched) := by
  induction sched generalizing c with
  | nil => exact I
  | cons t s ih => exact ih _ (cacheInv_step v hv c t I)

end M3d.Conc
