import M3d.Model.ArapLin
import M3d.Lemmas.ArapOp
import Mathlib.Tactic.Ring
import Mathlib.Tactic.FieldSimp
import Mathlib.Tactic.LinearCombination
import Mathlib.Algebra.BigOperators.Group.List.Basic
/-!
Lemmas about the linear step of `ARAP` (`M3d/Model/ArapLin.lean`): every accumulation loop is a
sum of per-neighbour terms, the row of the squeezed matrix applied to a vector is the row of
`Apply`, and for a rigid image `y = R p + t` (any matrix `R`) the row of `Apply` equals the row of
`Targets(R,…,R)` plus the row of `SqueezeDelta` — as long as all three read the SAME weights.
-/
namespace M3d.ArapLin
open M3d.MeshOps

variable {K : Type} [Field K]

omit [Field K] in
theorem V3.ext' {a b : V3 K} (hx : a.x = b.x) (hy : a.y = b.y) (hz : a.z = b.z) : a = b := by
  cases a; cases b; simp_all

/-- Component-wise sum of a list of vectors. -/
def vsum (l : List (V3 K)) : V3 K := ⟨(l.map (·.x)).sum, (l.map (·.y)).sum, (l.map (·.z)).sum⟩

theorem vsum_nil : vsum ([] : List (V3 K)) = V3.zero := rfl

theorem vsum_cons (a : V3 K) (l : List (V3 K)) : vsum (a :: l) = a.add (vsum l) := by
  simp [vsum, V3.add]

theorem add_zero' (a : V3 K) : a.add V3.zero = a := by
  apply V3.ext' <;> simp [V3.add, V3.zero]

theorem zero_add' (a : V3 K) : (V3.zero : V3 K).add a = a := by
  apply V3.ext' <;> simp [V3.add, V3.zero]

theorem add_assoc' (a b c : V3 K) : (a.add b).add c = a.add (b.add c) := by
  apply V3.ext' <;> simp [V3.add, add_assoc]

theorem add_comm' (a b : V3 K) : a.add b = b.add a := by
  apply V3.ext' <;> simp [V3.add, add_comm]

/-- An accumulation loop whose step adds a term is the sum of the terms. -/
theorem foldl_eq_vsum {β : Type} (step : V3 K → β → V3 K) (term : β → V3 K)
    (h : ∀ acc a, step acc a = acc.add (term a)) (l : List β) (z : V3 K) :
    l.foldl step z = z.add (vsum (l.map term)) := by
  induction l generalizing z with
  | nil => simp [vsum_nil, add_zero']
  | cons a l ih => simp only [List.foldl_cons, List.map_cons, ih, h, vsum_cons, add_assoc']

theorem vsum_map_add {β : Type} (t1 t2 t3 : β → V3 K) (l : List β)
    (h : ∀ a ∈ l, t1 a = (t2 a).add (t3 a)) :
    vsum (l.map t1) = (vsum (l.map t2)).add (vsum (l.map t3)) := by
  induction l with
  | nil => simp [vsum_nil, add_zero']
  | cons a l ih =>
    simp only [List.map_cons, vsum_cons]
    rw [ih (fun b hb => h b (List.mem_cons_of_mem _ hb)), h a List.mem_cons_self]
    apply V3.ext' <;> simp only [V3.add] <;> ring

/-! ### The loops as sums -/

def targetTerm (p : Nat → V3 K) (rot : Nat → Mat3 K) (i : Nat) (nw : Nat × K) : V3 K :=
  ((rot i).add (rot nw.1)).mulCol ((sub (p i) (p nw.1)).scale (nw.2 / 2))

def applyTerm (f2s : Nat → Option Nat) (v : Nat → V3 K) (pi : V3 K) (nw : Nat × K) : V3 K :=
  match f2s nw.1 with
  | some s => (pi.scale nw.2).add (((v s).scale nw.2).scale (-1))
  | none => pi.scale nw.2

def deltaTerm (f2s : Nat → Option Nat) (cons : Nat → V3 K) (nw : Nat × K) : V3 K :=
  match f2s nw.1 with
  | some _ => V3.zero
  | none => (cons nw.1).scale nw.2

theorem targetRow_eq (p : Nat → V3 K) (rot : Nat → Mat3 K) (i : Nat) (row : List (Nat × K)) :
    targetRow p rot i row = vsum (row.map (targetTerm p rot i)) := by
  unfold targetRow
  exact (foldl_eq_vsum _ (targetTerm p rot i) (fun _ _ => rfl) row V3.zero).trans (zero_add' _)

theorem applyRow_eq (f2s : Nat → Option Nat) (v : Nat → V3 K) (pi : V3 K) (row : List (Nat × K)) :
    applyRow f2s v pi row = vsum (row.map (applyTerm f2s v pi)) := by
  unfold applyRow
  rw [foldl_eq_vsum _ (applyTerm f2s v pi), zero_add']
  intro acc a
  unfold applyTerm
  cases f2s a.1 with
  | none => rfl
  | some s => simp only [sub]; rw [add_assoc']

theorem deltaRow_eq (f2s : Nat → Option Nat) (cons : Nat → V3 K) (row : List (Nat × K)) :
    deltaRow f2s cons row = vsum (row.map (deltaTerm f2s cons)) := by
  unfold deltaRow
  rw [foldl_eq_vsum _ (deltaTerm f2s cons), zero_add']
  intro acc a
  unfold deltaTerm
  cases f2s a.1 with
  | none => rfl
  | some s => simp only [add_zero']

/-- **The heart of "a rigid motion is reproduced"**: for `y = R p + t` — `R` ANY matrix — one
row of the operator applied to `y` (free neighbours read from the squeezed vector, which holds
`y`) is the row of `Targets(R, …, R)` plus the row of `SqueezeDelta` (constrained neighbours read
from the constraints, which hold `y`).  All three loops read the weights of the SAME `row`. -/
theorem applyRow_rigid (h2 : (2 : K) ≠ 0) (p : Nat → V3 K) (R : Mat3 K) (t : V3 K)
    (f2s : Nat → Option Nat) (v cons : Nat → V3 K) (i : Nat) (row : List (Nat × K))
    (hfree : ∀ nw ∈ row, ∀ s, f2s nw.1 = some s → v s = rigid R t (p nw.1))
    (hcons : ∀ nw ∈ row, f2s nw.1 = none → cons nw.1 = rigid R t (p nw.1)) :
    applyRow f2s v (rigid R t (p i)) row =
      (targetRow p (fun _ => R) i row).add (deltaRow f2s cons row) := by
  rw [applyRow_eq, targetRow_eq, deltaRow_eq]
  apply vsum_map_add
  intro nw hnw
  unfold applyTerm deltaTerm targetTerm
  cases hf : f2s nw.1 with
  | none =>
    simp only [hcons nw hnw hf]
    apply V3.ext' <;>
      simp only [V3.add, V3.scale, rigid, Mat3.mulCol, Mat3.add, sub] <;> field_simp <;> ring
  | some s =>
    simp only [hfree nw hnw s hf]
    apply V3.ext' <;>
      simp only [V3.add, V3.scale, V3.zero, rigid, Mat3.mulCol, Mat3.add, sub] <;> field_simp <;> ring

/-! ### The matrix row -/

theorem rowDot_eq (mrow : List (Nat × K)) (v : Nat → V3 K) :
    rowDot mrow v = vsum (mrow.map fun cx => (v cx.1).scale cx.2) := by
  unfold rowDot
  exact (foldl_eq_vsum _ (fun cx => (v cx.1).scale cx.2) (fun _ _ => rfl) mrow V3.zero).trans (zero_add' _)

theorem vsum_append (a b : List (V3 K)) : vsum (a ++ b) = (vsum a).add (vsum b) := by
  induction a with
  | nil => simp [vsum_nil, zero_add']
  | cons x a ih => simp only [List.cons_append, vsum_cons, ih, add_assoc']

/-- The state of the loop of `squeezedMatrix` after a row: the off-diagonal entries dotted with
`v`, plus the diagonal times `pi`, is the start value plus the terms of `Apply`. -/
theorem matRow_fold (f2s : Nat → Option Nat) (v : Nat → V3 K) (pi : V3 K) (row : List (Nat × K))
    (L : List (Nat × K)) (d : K) :
    let st := row.foldl (fun (st : List (Nat × K) × K) nw =>
      match f2s nw.1 with
      | some s => (st.1 ++ [(s, -nw.2)], st.2 + nw.2)
      | none => (st.1, st.2 + nw.2)) (L, d)
    (vsum (st.1.map fun cx => (v cx.1).scale cx.2)).add (pi.scale st.2) =
      ((vsum (L.map fun cx => (v cx.1).scale cx.2)).add (pi.scale d)).add (vsum (row.map (applyTerm f2s v pi))) := by
  induction row generalizing L d with
  | nil => simp [vsum_nil, add_zero']
  | cons nw row ih =>
    simp only [List.foldl_cons, List.map_cons, vsum_cons]
    cases hf : f2s nw.1 with
    | none =>
      simp only []
      rw [ih]
      unfold applyTerm
      simp only [hf]
      apply V3.ext' <;> simp only [V3.add, V3.scale] <;> ring
    | some s =>
      simp only []
      rw [ih]
      unfold applyTerm
      simp only [hf, List.map_append, List.map_cons, List.map_nil, vsum_append, vsum_cons, vsum_nil]
      apply V3.ext' <;> simp only [V3.add, V3.scale, V3.zero] <;> ring

/-- **The row of `squeezedMatrix` times `v` is the row of `Apply(v)`** (`pi = v[r]`, the diagonal
entry sits in column `r`). -/
theorem rowDot_matRow (f2s : Nat → Option Nat) (v : Nat → V3 K) (r : Nat) (row : List (Nat × K)) :
    rowDot (matRow f2s r row) v = applyRow f2s v (v r) row := by
  rw [rowDot_eq, applyRow_eq]
  unfold matRow
  have h := matRow_fold f2s v (v r) row [] 0
  simp only [List.map_nil, vsum_nil] at h
  simp only [List.map_append, List.map_cons, List.map_nil, vsum_append, vsum_cons, vsum_nil, add_zero']
  refine h.trans ?_
  apply V3.ext' <;> simp only [V3.add, V3.scale, V3.zero] <;> ring

/-! ### Energy -/

theorem energy_inner_zero (R : Mat3 K) (t : V3 K) (p : Nat → V3 K) (i : Nat) (row : List (Nat × K)) (e : K) :
    row.foldl (fun e nw =>
      let rotated := R.mulCol (sub (p i) (p nw.1))
      let diff := sub (sub (rigid R t (p i)) (rigid R t (p nw.1))) rotated
      e + nw.2 * dot diff diff) e = e := by
  induction row generalizing e with
  | nil => rfl
  | cons nw row ih =>
    simp only [List.foldl_cons]
    rw [ih]
    have hd : sub (sub (rigid R t (p i)) (rigid R t (p nw.1))) (R.mulCol (sub (p i) (p nw.1))) = V3.zero := by
      apply V3.ext' <;> simp only [V3.add, V3.scale, V3.zero, rigid, Mat3.mulCol, sub] <;> ring
    rw [hd]
    simp [dot, V3.zero]

/-- The ARAP energy of a rigid image with the rotation of the motion at every vertex is zero,
for every weight table. -/
theorem energy_rigid (n : Nat) (rows : Nat → List (Nat × K)) (p : Nat → V3 K) (R : Mat3 K) (t : V3 K) :
    energy n rows p (fun i => rigid R t (p i)) (fun _ => R) = 0 := by
  unfold energy
  suffices h : ∀ (l : List Nat) (e : K), l.foldl (fun e i =>
      (rows i).foldl (fun e nw =>
        let rotated := R.mulCol (sub (p i) (p nw.1))
        let diff := sub (sub (rigid R t (p i)) (rigid R t (p nw.1))) rotated
        e + nw.2 * dot diff diff) e) e = e from h _ 0
  intro l
  induction l with
  | nil => intro e; rfl
  | cons i l ih => intro e; simp only [List.foldl_cons]; rw [energy_inner_zero, ih]

/-! ### The index maps of `newARAPOperator` are inverse to each other -/

theorem build_inv (cst : Nat → Bool) (m : Nat) : ∀ (k : Nat) (s : List Nat) (f : List (Option Nat)),
    f.length = k →
    (∀ (j t : Nat), f[j]? = some (some t) → s[t]? = some j) →
    (∀ (t j : Nat), s[t]? = some j → f[j]? = some (some t)) →
    (∀ (j t : Nat), (ArapOp.build cst (List.range' k m) s f).2[j]? = some (some t) →
        (ArapOp.build cst (List.range' k m) s f).1[t]? = some j) ∧
      (∀ (t j : Nat), (ArapOp.build cst (List.range' k m) s f).1[t]? = some j →
        (ArapOp.build cst (List.range' k m) s f).2[j]? = some (some t)) := by
  induction m with
  | zero => intro k s f _ h1 h2; exact ⟨h1, h2⟩
  | succ m ih =>
    intro k s f hl h1 h2
    rw [List.range'_succ]
    unfold ArapOp.build
    by_cases hc : cst k = true
    · simp only [hc, if_true]
      apply ih (k + 1) s (f ++ [none]) (by simp [hl])
      · intro j t hj
        rw [List.getElem?_append] at hj
        split at hj
        · exact h1 j t hj
        · rename_i hge
          by_cases hje : j - f.length = 0
          · simp [hje] at hj
          · have : ([none] : List (Option Nat))[j - f.length]? = none := by
              apply List.getElem?_eq_none; simp; omega
            rw [this] at hj; cases hj
      · intro t j ht
        have := h2 t j ht
        have hlt : j < f.length := by
          by_contra hge
          rw [List.getElem?_eq_none (by omega)] at this; cases this
        rw [List.getElem?_append_left hlt]; exact this
    · have hc' : cst k = false := by simpa using hc
      simp only [hc', Bool.false_eq_true, if_false]
      apply ih (k + 1) (s ++ [k]) (f ++ [some s.length]) (by simp [hl])
      · intro j t hj
        rw [List.getElem?_append] at hj
        split at hj
        · have hs := h1 j t hj
          have hlt : t < s.length := by
            by_contra hge
            rw [List.getElem?_eq_none (by omega)] at hs; cases hs
          rw [List.getElem?_append_left hlt]; exact hs
        · rename_i hge
          by_cases hje : j - f.length = 0
          · simp only [hje, List.getElem?_cons_zero, Option.some.injEq] at hj
            subst hj
            have : j = k := by omega
            subst this
            simp
          · have : ([some s.length] : List (Option Nat))[j - f.length]? = none := by
              apply List.getElem?_eq_none; simp; omega
            rw [this] at hj; cases hj
      · intro t j ht
        rw [List.getElem?_append] at ht
        split at ht
        · have := h2 t j ht
          have hlt : j < f.length := by
            by_contra hge
            rw [List.getElem?_eq_none (by omega)] at this; cases this
          rw [List.getElem?_append_left hlt]; exact this
        · rename_i hge
          by_cases hte : t - s.length = 0
          · simp only [hte, List.getElem?_cons_zero, Option.some.injEq] at ht
            subst ht
            have : t = s.length := by omega
            subst this
            rw [List.getElem?_append_right (by omega)]
            simp [hl]
          · have : ([k] : List Nat)[t - s.length]? = none := by
              apply List.getElem?_eq_none; simp; omega
            rw [this] at ht; cases ht

theorem newOp_maps_inverse {P : Type} (n : Nat) (cons : List (Nat × P)) :
    (∀ (j t : Nat), (ArapOp.newOp n cons).f2s[j]? = some (some t) → (ArapOp.newOp n cons).s2f[t]? = some j) ∧
      (∀ (t j : Nat), (ArapOp.newOp n cons).s2f[t]? = some j → (ArapOp.newOp n cons).f2s[j]? = some (some t)) := by
  have h := build_inv (ArapOp.hasKey cons) n 0 [] [] rfl (by intro j t h; simp at h) (by intro t j h; simp at h)
  rw [← List.range_eq_range'] at h
  exact h

/-! ### The whole linear step -/

omit [Field K] in
theorem f2sFn_some {op : ArapOp.Op (V3 K)} {j t : Nat} (h : f2sFn op j = some t) : op.f2s[j]? = some (some t) := by
  unfold f2sFn at h
  rw [List.getD_eq_getElem?_getD] at h
  cases hj : op.f2s[j]? with
  | none => rw [hj] at h; cases h
  | some o => rw [hj] at h; simp only [Option.getD_some] at h; rw [h]

/-- **`squeezedMatrix · Squeeze(y) = Squeeze(Targets(R,…,R)) + SqueezeDelta()`** in the form the
code evaluates it (`Apply` is the matrix, `rowDot_matRow`): for the operator `newARAPOperator`
builds from constraints that put every handle on its image under `x ↦ R x + t`, the operator
applied to the squeezed rigid image IS the right-hand side `LinSolve` hands to the factorisation
for the rotations `R, …, R`. -/
theorem linear_step_rigid (h2 : (2 : K) ≠ 0) (n : Nat) (rows : Nat → List (Nat × K)) (p : Nat → V3 K)
    (R : Mat3 K) (t : V3 K) (cons : List (Nat × V3 K)) (hc : (ArapOp.keys cons).Nodup)
    (hk : ∀ kv ∈ cons, kv.2 = rigid R t (p kv.1))
    (hrows : ∀ i, i < n → ∀ nw ∈ rows i, nw.1 < n) :
    applyOp (ArapOp.newOp n cons) rows
        (ArapOp.squeeze (ArapOp.newOp n cons) V3.zero ((List.range n).map fun i => rigid R t (p i))) =
      rhs (ArapOp.newOp n cons) rows (targets n rows p (fun _ => R)) := by
  obtain ⟨hfs, hsf⟩ := newOp_maps_inverse (P := V3 K) n cons
  have hflen := ArapOp.newOp_f2s_length (P := V3 K) n cons
  -- facts about one squeezed index
  have hfull : ∀ r, r < (ArapOp.newOp n cons).s2f.length →
      (ArapOp.newOp n cons).s2f.getD r 0 < n ∧
        (ArapOp.newOp n cons).s2f[r]? = some ((ArapOp.newOp n cons).s2f.getD r 0) := by
    intro r hr
    have e : (ArapOp.newOp n cons).s2f[r]? = some ((ArapOp.newOp n cons).s2f.getD r 0) := by
      rw [List.getD_eq_getElem?_getD, List.getElem?_eq_getElem hr]; rfl
    refine ⟨?_, e⟩
    have := hsf r _ e
    by_contra hge
    rw [List.getElem?_eq_none (by omega)] at this; cases this
  have hy : ∀ j, j < n → ((List.range n).map fun i => rigid R t (p i)).getD j V3.zero = rigid R t (p j) := by
    intro j hj
    rw [List.getD_eq_getElem?_getD, List.getElem?_map, List.getElem?_range hj]; rfl
  have hsq : ∀ s j, (ArapOp.newOp n cons).s2f[s]? = some j → j < n →
      vecFn (ArapOp.squeeze (ArapOp.newOp n cons) V3.zero ((List.range n).map fun i => rigid R t (p i))) s =
        rigid R t (p j) := by
    intro s j hs hj
    unfold vecFn ArapOp.squeeze
    rw [List.getD_eq_getElem?_getD, List.getElem?_map, hs]
    simp only [Option.map_some, Option.getD_some]
    exact hy j hj
  apply List.ext_getElem
  · simp [applyOp, rhs, squeezeDelta, ArapOp.squeeze]
  · intro r hr1 hr2
    have hr : r < (ArapOp.newOp n cons).s2f.length := by simpa [applyOp] using hr1
    obtain ⟨hlt, he⟩ := hfull r hr
    generalize hfu : (ArapOp.newOp n cons).s2f.getD r 0 = full at hlt he
    -- left-hand side
    have hL : (applyOp (ArapOp.newOp n cons) rows
        (ArapOp.squeeze (ArapOp.newOp n cons) V3.zero ((List.range n).map fun i => rigid R t (p i))))[r] =
        applyRow (f2sFn (ArapOp.newOp n cons))
          (vecFn (ArapOp.squeeze (ArapOp.newOp n cons) V3.zero ((List.range n).map fun i => rigid R t (p i))))
          (rigid R t (p full)) (rows full) := by
      simp only [applyOp, List.getElem_map, List.getElem_range, hfu]
      rw [hsq r full he hlt]
    -- right-hand side
    have hR : (rhs (ArapOp.newOp n cons) rows (targets n rows p (fun _ => R)))[r] =
        (targetRow p (fun _ => R) full (rows full)).add
          (deltaRow (f2sFn (ArapOp.newOp n cons)) (consFn (ArapOp.newOp n cons)) (rows full)) := by
      have hg : (ArapOp.newOp n cons).s2f[r] = full := by
        have := List.getElem?_eq_getElem hr
        rw [he] at this; exact (Option.some.inj this).symm
      simp only [rhs, squeezeDelta, ArapOp.squeeze, List.getElem_zipWith, List.getElem_map, hg]
      congr 1
      unfold targets
      rw [List.getD_eq_getElem?_getD, List.getElem?_map, List.getElem?_range hlt]; rfl
    rw [hL, hR]
    apply applyRow_rigid h2
    · intro nw hnw s hs
      have hn := hrows full hlt nw hnw
      exact hsq s nw.1 (hfs _ _ (f2sFn_some hs)) hn
    · intro nw hnw hnone
      have hn := hrows full hlt nw hnw
      have hkey : ArapOp.hasKey cons nw.1 = true := (ArapOp.newOp_f2s_none n cons hn).1 hnone
      rw [ArapOp.hasKey_iff] at hkey
      obtain ⟨kv, hkv, hk1⟩ := List.mem_map.1 hkey
      have hl : ArapOp.lookup cons nw.1 = some kv.2 := ArapOp.lookup_of_mem hc (by rw [← hk1]; exact hkv)
      unfold consFn
      have : (ArapOp.newOp n cons).cons = cons := rfl
      rw [this, hl, Option.getD_some, hk kv hkv, hk1]

/-- The matrix `LinSolve` factorises, applied to a squeezed vector, is `Apply` of that vector. -/
theorem matrix_is_apply (op : ArapOp.Op (V3 K)) (rows : Nat → List (Nat × K)) (v : List (V3 K)) :
    (matrix op rows).map (fun mr => rowDot mr (vecFn v)) = applyOp op rows v := by
  unfold matrix applyOp
  rw [List.map_map]
  apply List.map_congr_left
  intro r _
  exact rowDot_matRow _ _ _ _

/-- `Unsqueeze(Squeeze(y)) = y` for the rigid image: the fixed point of the linear step IS the
image (free entries are copied back, constrained entries are the constraints, which hold `y`). -/
theorem unsqueeze_squeeze_rigid (n : Nat) (y : Nat → V3 K) (cons : List (Nat × V3 K))
    (hc : (ArapOp.keys cons).Nodup) (hk : ∀ kv ∈ cons, kv.2 = y kv.1) :
    ArapOp.unsqueeze (ArapOp.newOp n cons) V3.zero
        (ArapOp.squeeze (ArapOp.newOp n cons) V3.zero ((List.range n).map y)) = (List.range n).map y := by
  obtain ⟨hfs, _⟩ := newOp_maps_inverse (P := V3 K) n cons
  have hflen := ArapOp.newOp_f2s_length (P := V3 K) n cons
  apply List.ext_getElem?
  intro k
  by_cases hkn : k < n
  · rw [ArapOp.unsqueeze_getElem? _ _ _ (by rw [hflen]; exact hkn), List.getElem?_map, List.getElem?_range hkn]
    simp only [Option.map_some, Option.some.injEq]
    unfold ArapOp.unsqueezeAt
    cases hf : (ArapOp.newOp n cons).f2s.getD k none with
    | none =>
      have hkey : ArapOp.hasKey cons k = true := (ArapOp.newOp_f2s_none n cons hkn).1 hf
      rw [ArapOp.hasKey_iff] at hkey
      obtain ⟨kv, hkv, hk1⟩ := List.mem_map.1 hkey
      have hl : ArapOp.lookup cons k = some kv.2 := ArapOp.lookup_of_mem hc (by rw [← hk1]; exact hkv)
      have : (ArapOp.newOp n cons).cons = cons := rfl
      simp only [this, hl, Option.getD_some, hk kv hkv, hk1]
    | some s =>
      have h1 : (ArapOp.newOp n cons).f2s[k]? = some (some s) := f2sFn_some (op := ArapOp.newOp n cons) hf
      have h2 := hfs k s h1
      simp only [ArapOp.squeeze]
      rw [List.getD_eq_getElem?_getD, List.getElem?_map, h2]
      simp only [Option.map_some, Option.getD_some]
      rw [List.getD_eq_getElem?_getD, List.getElem?_map, List.getElem?_range hkn]; rfl
  · rw [List.getElem?_eq_none (by simp [ArapOp.unsqueeze, hflen]; omega),
      List.getElem?_eq_none (by simp; omega)]

end M3d.ArapLin
