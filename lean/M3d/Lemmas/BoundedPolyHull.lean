import M3d.Lemmas.BoundedPoly
/-!
# The box of the vertices that `Mesh()` enumerates encloses a bounded polytope (C03)

For a bounded intersection of half-spaces, every point is dominated on every axis by a *basic* feasible
point: a point where `d` constraints with independent normals are active (`d` = 2 or 3).  The proof is the
textbook one: shoot a ray from the point until a constraint becomes active, continue inside the active
planes (directions orthogonal to the active normals, sign chosen so that the coordinate does not
decrease), until `d` independent constraints are active.  A basic feasible point is the solution of the
linear system that `ConvexPolytope.vertex` solves for those constraints (Cramer), it passes the acceptance
loop, hence — unless the conditioning test rejects it — it is among `meshVerts`, and the box spanned by
them contains the point.
-/
set_option linter.unusedSectionVars false
set_option linter.unusedVariables false
set_option linter.unusedSimpArgs false
set_option linter.unusedTactic false
set_option linter.unreachableTactic false
namespace M3d.Bd

variable {K : Type} [Field K] [LinearOrder K] [IsStrictOrderedRing K]

/-! ## feasibility -/

/-- every constraint `n·q ≤ m` holds at `q` -/
def Feas (cs : List (Pt K × K)) (q : Pt K) : Prop := ∀ l ∈ cs, pdot l.1 q ≤ l.2

theorem pdot_comm (a b : Pt K) : pdot a b = pdot b a := by
  simp only [pdot_xyz]; ring

theorem polyContains_iff (cs : List (Pt K × K)) (q : Pt K) : polyContains cs q = true ↔ Feas cs q := by
  simp only [polyContains, List.all_eq_true, decide_eq_true_eq, Feas]
  constructor
  · intro h l hl; rw [pdot_comm]; exact h l hl
  · intro h l hl; rw [pdot_comm]; exact h l hl

theorem padd_x (a b : Pt K) : (padd a b).x = a.x + b.x := rfl
theorem padd_y (a b : Pt K) : (padd a b).y = a.y + b.y := rfl
theorem padd_z (a b : Pt K) : (padd a b).z = a.z + b.z := rfl

/-- the point `q + t·d` -/
def along (q d : Pt K) (t : K) : Pt K := padd q (pscale d t)

theorem pdot_along (n q d : Pt K) (t : K) : pdot n (along q d t) = pdot n q + t * pdot n d := by
  simp only [along, pdot_xyz, padd_x, padd_y, padd_z, pscale_x, pscale_y, pscale_z]; ring

theorem get_x (a : Pt K) : a 0 = a.x := rfl
theorem get_y (a : Pt K) : a 1 = a.y := rfl
theorem get_z (a : Pt K) : a 2 = a.z := rfl

theorem along_get (q d : Pt K) (t : K) (j : Fin 3) : (along q d t) j = q j + t * d j := by
  rcases fin3 j with rfl | rfl | rfl
  · simp only [get_x, along, padd_x, pscale_x]; ring
  · simp only [get_y, along, padd_y, pscale_y]; ring
  · simp only [get_z, along, padd_z, pscale_z]; ring

/-- a non-empty list has a minimiser of any function into a linear order -/
theorem exists_min_list {β : Type} (f : β → K) (l : List β) (hl : l ≠ []) : ∃ x ∈ l, ∀ y ∈ l, f x ≤ f y := by
  induction l with
  | nil => exact absurd rfl hl
  | cons a t ih =>
    by_cases ht : t = []
    · subst ht
      exact ⟨a, List.mem_cons_self .., fun y hy => by simp at hy; subst hy; exact le_refl _⟩
    · obtain ⟨x, hx, hmin⟩ := ih ht
      rcases le_total (f a) (f x) with h | h
      · refine ⟨a, List.mem_cons_self .., fun y hy => ?_⟩
        rcases List.mem_cons.mp hy with rfl | hy
        · exact le_refl _
        · exact le_trans h (hmin y hy)
      · refine ⟨x, List.mem_cons_of_mem _ hx, fun y hy => ?_⟩
        rcases List.mem_cons.mp hy with rfl | hy
        · exact h
        · exact hmin y hy

/-- **Ray shooting.**  From a feasible point of a polytope that is bounded along axis `j`, in a direction
with `d j ≠ 0`, the ray hits a constraint with `n·d > 0` at a feasible point. -/
theorem ray_hit (cs : List (Pt K × K)) (q d : Pt K) (hq : Feas cs q) (j : Fin 3) (hdj : d j ≠ 0) (R : K)
    (hR : ∀ q', Feas cs q' → q' j ≤ R ∧ -R ≤ q' j) :
    ∃ t, 0 ≤ t ∧ Feas cs (along q d t) ∧ ∃ c ∈ cs, 0 < pdot c.1 d ∧ pdot c.1 (along q d t) = c.2 := by
  by_cases hS : ∃ c ∈ cs, 0 < pdot c.1 d
  · -- the constraint with the smallest ratio
    let S := cs.filter (fun c => decide (0 < pdot c.1 d))
    have hSne : S ≠ [] := by
      obtain ⟨c, hc, hpos⟩ := hS
      intro h
      have : c ∈ S := List.mem_filter.mpr ⟨hc, by simpa using hpos⟩
      rw [h] at this; exact absurd this (List.not_mem_nil)
    obtain ⟨c, hcS, hmin⟩ := exists_min_list (fun c : Pt K × K => (c.2 - pdot c.1 q) / pdot c.1 d) S hSne
    have hc := (List.mem_filter.mp hcS).1
    have hpos : 0 < pdot c.1 d := by simpa using (List.mem_filter.mp hcS).2
    refine ⟨(c.2 - pdot c.1 q) / pdot c.1 d, div_nonneg (sub_nonneg.mpr (hq c hc)) (le_of_lt hpos), ?_,
      c, hc, hpos, ?_⟩
    · intro l hl
      rw [pdot_along]
      by_cases hlpos : 0 < pdot l.1 d
      · have hlS : l ∈ S := List.mem_filter.mpr ⟨hl, by simpa using hlpos⟩
        have h1 : (c.2 - pdot c.1 q) / pdot c.1 d ≤ (l.2 - pdot l.1 q) / pdot l.1 d := hmin l hlS
        calc pdot l.1 q + (c.2 - pdot c.1 q) / pdot c.1 d * pdot l.1 d
            ≤ pdot l.1 q + (l.2 - pdot l.1 q) / pdot l.1 d * pdot l.1 d :=
              by gcongr
          _ = l.2 := by field_simp; ring
      · have h0 : 0 ≤ (c.2 - pdot c.1 q) / pdot c.1 d :=
          div_nonneg (sub_nonneg.mpr (hq c hc)) (le_of_lt hpos)
        have : (c.2 - pdot c.1 q) / pdot c.1 d * pdot l.1 d ≤ 0 :=
          mul_nonpos_of_nonneg_of_nonpos h0 (not_lt.mp hlpos)
        linarith [hq l hl]
    · rw [pdot_along]; field_simp; ring
  · -- no constraint faces the direction: the whole ray is feasible, contradicting boundedness
    exfalso
    have hall : ∀ c ∈ cs, pdot c.1 d ≤ 0 := fun c hc => not_lt.mp (fun h => hS ⟨c, hc, h⟩)
    have hfeas : ∀ t, 0 ≤ t → Feas cs (along q d t) := by
      intro t ht l hl
      rw [pdot_along]
      have : t * pdot l.1 d ≤ 0 := mul_nonpos_of_nonneg_of_nonpos ht (hall l hl)
      linarith [hq l hl]
    have hqR := hR q hq
    have hR0 : 0 ≤ R := by linarith [hqR.1, hqR.2]
    rcases lt_or_gt_of_ne hdj with hneg | hpos
    · have ht : 0 ≤ (2 * R + 1) / (-(d j)) := div_nonneg (by linarith) (by linarith)
      have h := (hR _ (hfeas _ ht)).2
      rw [along_get] at h
      have : (2 * R + 1) / (-(d j)) * d j = -(2 * R + 1) := by
        have hnd : -(d j) ≠ 0 := neg_ne_zero.mpr hdj
        field_simp
      linarith
    · have ht : 0 ≤ (2 * R + 1) / (d j) := div_nonneg (by linarith) (le_of_lt hpos)
      have h := (hR _ (hfeas _ ht)).1
      rw [along_get] at h
      have : (2 * R + 1) / (d j) * d j = 2 * R + 1 := by field_simp
      linarith

/-- ray shooting in whichever of the directions `±d` does not decrease the linear form `e`: the end
point is `q + s·d` for a signed `s` -/
theorem ray_hit_up (cs : List (Pt K × K)) (q d e : Pt K) (hq : Feas cs q) (j : Fin 3) (hdj : d j ≠ 0) (R : K)
    (hR : ∀ q', Feas cs q' → q' j ≤ R ∧ -R ≤ q' j) :
    ∃ s, Feas cs (along q d s) ∧ pdot e q ≤ pdot e (along q d s) ∧
      ∃ c ∈ cs, pdot c.1 d ≠ 0 ∧ pdot c.1 (along q d s) = c.2 := by
  rcases le_total 0 (pdot e d) with hpos | hneg
  · obtain ⟨t, ht, hf, c, hc, hcd, hact⟩ := ray_hit cs q d hq j hdj R hR
    refine ⟨t, hf, ?_, c, hc, ne_of_gt hcd, hact⟩
    rw [pdot_along]; nlinarith
  · have hdj' : (pscale d (-1)) j ≠ 0 := by rw [pscale_get]; simpa using hdj
    obtain ⟨t, ht, hf, c, hc, hcd, hact⟩ := ray_hit cs q (pscale d (-1)) hq j hdj' R hR
    have heq : along q (pscale d (-1)) t = along q d (-t) := by
      apply Pt.ext'; intro i
      rw [along_get, along_get, pscale_get]; ring
    rw [heq] at hf hact
    rw [pdot_pscale_right] at hcd
    refine ⟨-t, hf, ?_, c, hc, fun h0 => by rw [h0] at hcd; simp at hcd, hact⟩
    rw [pdot_along]; nlinarith

/-! ## the enumeration is complete (up to the order inside a tuple) -/

theorem picksAfter_complete {β : Type} (l : List β) (y : β) (hy : y ∈ l) :
    ∃ r, (y, r) ∈ triples.picksAfter l ∧ ∀ z ∈ r, z ∈ l := by
  induction l with
  | nil => simp at hy
  | cons h t ih =>
    by_cases hh : y = h
    · subst hh
      exact ⟨t, by simp [triples.picksAfter], fun z hz => List.mem_cons_of_mem _ hz⟩
    · have hyt : y ∈ t := by
        rcases List.mem_cons.mp hy with h1 | h1
        · exact absurd h1 hh
        · exact h1
      obtain ⟨r, hr, hsub⟩ := ih hyt
      refine ⟨h :: r, ?_, ?_⟩
      · simp only [triples.picksAfter, List.mem_cons, List.mem_map]
        exact Or.inr ⟨(y, r), hr, rfl⟩
      · intro z hz
        rcases List.mem_cons.mp hz with rfl | hz
        · exact List.mem_cons_self ..
        · exact List.mem_cons_of_mem _ (hsub z hz)

theorem picks2_complete {β : Type} (l : List β) (a b : β) (ha : a ∈ l) (hb : b ∈ l) (hab : a ≠ b) :
    ∃ r, ((a, b, r) ∈ triples.picks2 l ∨ (b, a, r) ∈ triples.picks2 l) ∧ ∀ z ∈ r, z ∈ l := by
  induction l with
  | nil => simp at ha
  | cons h t ih =>
    by_cases h1 : a = h
    · subst h1
      have hbt : b ∈ t := by
        rcases List.mem_cons.mp hb with h2 | h2
        · exact absurd h2.symm hab
        · exact h2
      obtain ⟨r, hr, hsub⟩ := picksAfter_complete t b hbt
      refine ⟨r, Or.inl ?_, fun z hz => List.mem_cons_of_mem _ (hsub z hz)⟩
      simp only [triples.picks2, List.mem_append, List.mem_map]
      exact Or.inl ⟨(b, r), hr, rfl⟩
    · by_cases h2 : b = h
      · subst h2
        have hat : a ∈ t := by
          rcases List.mem_cons.mp ha with h3 | h3
          · exact absurd h3 h1
          · exact h3
        obtain ⟨r, hr, hsub⟩ := picksAfter_complete t a hat
        refine ⟨r, Or.inr ?_, fun z hz => List.mem_cons_of_mem _ (hsub z hz)⟩
        simp only [triples.picks2, List.mem_append, List.mem_map]
        exact Or.inl ⟨(a, r), hr, rfl⟩
      · have hat : a ∈ t := by
          rcases List.mem_cons.mp ha with h3 | h3
          · exact absurd h3 h1
          · exact h3
        have hbt : b ∈ t := by
          rcases List.mem_cons.mp hb with h3 | h3
          · exact absurd h3 h2
          · exact h3
        obtain ⟨r, hr, hsub⟩ := ih hat hbt
        refine ⟨h :: r, ?_, ?_⟩
        · simp only [triples.picks2, List.mem_append, List.mem_map]
          rcases hr with hr | hr
          · exact Or.inl (Or.inr ⟨(a, b, r), hr, rfl⟩)
          · exact Or.inr (Or.inr ⟨(b, a, r), hr, rfl⟩)
        · intro z hz
          rcases List.mem_cons.mp hz with rfl | hz
          · exact List.mem_cons_self ..
          · exact List.mem_cons_of_mem _ (hsub z hz)

/-- `(x, y, z)` is `(a, b, c)` in some order -/
def Perm3 {β : Type} (x y z a b c : β) : Prop :=
  (x = a ∧ y = b ∧ z = c) ∨ (x = a ∧ y = c ∧ z = b) ∨ (x = b ∧ y = a ∧ z = c) ∨
  (x = b ∧ y = c ∧ z = a) ∨ (x = c ∧ y = a ∧ z = b) ∨ (x = c ∧ y = b ∧ z = a)

theorem triples_complete {β : Type} (l : List β) (a b c : β) (ha : a ∈ l) (hb : b ∈ l) (hc : c ∈ l)
    (hab : a ≠ b) (hac : a ≠ c) (hbc : b ≠ c) :
    ∃ x y z r, (x, y, z, r) ∈ triples l ∧ Perm3 x y z a b c ∧ ∀ w ∈ r, w ∈ l := by
  induction l with
  | nil => simp at ha
  | cons h t ih =>
    have tail_of : ∀ u, u ∈ h :: t → u ≠ h → u ∈ t := by
      intro u hu hne
      rcases List.mem_cons.mp hu with h1 | h1
      · exact absurd h1 hne
      · exact h1
    by_cases h1 : a = h
    · subst h1
      obtain ⟨r, hr, hsub⟩ := picks2_complete t b c (tail_of b hb (Ne.symm hab)) (tail_of c hc (Ne.symm hac)) hbc
      rcases hr with hr | hr
      · refine ⟨a, b, c, r, ?_, Or.inl ⟨rfl, rfl, rfl⟩, fun w hw => List.mem_cons_of_mem _ (hsub w hw)⟩
        simp only [triples, List.mem_append, List.mem_map]
        exact Or.inl ⟨(b, c, r), hr, rfl⟩
      · refine ⟨a, c, b, r, ?_, Or.inr (Or.inl ⟨rfl, rfl, rfl⟩), fun w hw => List.mem_cons_of_mem _ (hsub w hw)⟩
        simp only [triples, List.mem_append, List.mem_map]
        exact Or.inl ⟨(c, b, r), hr, rfl⟩
    · by_cases h2 : b = h
      · subst h2
        obtain ⟨r, hr, hsub⟩ := picks2_complete t a c (tail_of a ha h1) (tail_of c hc (Ne.symm hbc)) hac
        rcases hr with hr | hr
        · refine ⟨b, a, c, r, ?_, Or.inr (Or.inr (Or.inl ⟨rfl, rfl, rfl⟩)),
            fun w hw => List.mem_cons_of_mem _ (hsub w hw)⟩
          simp only [triples, List.mem_append, List.mem_map]
          exact Or.inl ⟨(a, c, r), hr, rfl⟩
        · refine ⟨b, c, a, r, ?_, Or.inr (Or.inr (Or.inr (Or.inl ⟨rfl, rfl, rfl⟩))),
            fun w hw => List.mem_cons_of_mem _ (hsub w hw)⟩
          simp only [triples, List.mem_append, List.mem_map]
          exact Or.inl ⟨(c, a, r), hr, rfl⟩
      · by_cases h3 : c = h
        · subst h3
          obtain ⟨r, hr, hsub⟩ := picks2_complete t a b (tail_of a ha h1) (tail_of b hb h2) hab
          rcases hr with hr | hr
          · refine ⟨c, a, b, r, ?_, Or.inr (Or.inr (Or.inr (Or.inr (Or.inl ⟨rfl, rfl, rfl⟩)))),
              fun w hw => List.mem_cons_of_mem _ (hsub w hw)⟩
            simp only [triples, List.mem_append, List.mem_map]
            exact Or.inl ⟨(a, b, r), hr, rfl⟩
          · refine ⟨c, b, a, r, ?_, Or.inr (Or.inr (Or.inr (Or.inr (Or.inr ⟨rfl, rfl, rfl⟩)))),
              fun w hw => List.mem_cons_of_mem _ (hsub w hw)⟩
            simp only [triples, List.mem_append, List.mem_map]
            exact Or.inl ⟨(b, a, r), hr, rfl⟩
        · obtain ⟨x, y, z, r, hr, hperm, hsub⟩ := ih (tail_of a ha h1) (tail_of b hb h2) (tail_of c hc h3)
          refine ⟨x, y, z, h :: r, ?_, hperm, ?_⟩
          · simp only [triples, List.mem_append, List.mem_map]
            exact Or.inr ⟨(x, y, z, r), hr, rfl⟩
          · intro w hw
            rcases List.mem_cons.mp hw with rfl | hw
            · exact List.mem_cons_self ..
            · exact List.mem_cons_of_mem _ (hsub w hw)

/-! ## Cramer: a basic point is the solution `vertex` computes -/

theorem cramer3 (a b c v : Pt K) (ma mb mc : K) (hdet : det3 a b c ≠ 0) (ha : pdot a v = ma) (hb : pdot b v = mb)
    (hc : pdot c v = mc) : mulColInv3 a b c (mk3 ma mb mc) (det3 a b c) = v := by
  subst ha hb hc
  have kx : (b.y * c.z - b.z * c.y) * pdot a v + (a.z * c.y - a.y * c.z) * pdot b v +
      (a.y * b.z - a.z * b.y) * pdot c v = det3 a b c * v.x := by
    simp only [det3, pdot_xyz]; ring
  have ky : (b.z * c.x - b.x * c.z) * pdot a v + (a.x * c.z - a.z * c.x) * pdot b v +
      (a.z * b.x - a.x * b.z) * pdot c v = det3 a b c * v.y := by
    simp only [det3, pdot_xyz]; ring
  have kz : (b.x * c.y - b.y * c.x) * pdot a v + (a.y * c.x - a.x * c.y) * pdot b v +
      (a.x * b.y - a.y * b.x) * pdot c v = det3 a b c * v.z := by
    simp only [det3, pdot_xyz]; ring
  generalize det3 a b c = D at hdet kx ky kz
  generalize pdot a v = A at kx ky kz
  generalize pdot b v = B at kx ky kz
  generalize pdot c v = C at kx ky kz
  have hx : (mulColInv3 a b c (mk3 A B C) D).x = v.x := by
    simp only [mulColInv3, mk3_x, mk3_y, mk3_z]
    calc _ = ((b.y * c.z - b.z * c.y) * A + (a.z * c.y - a.y * c.z) * B + (a.y * b.z - a.z * b.y) * C) * (1 / D) := by
          ring
      _ = v.x := by rw [kx]; field_simp
  have hy : (mulColInv3 a b c (mk3 A B C) D).y = v.y := by
    simp only [mulColInv3, mk3_x, mk3_y, mk3_z]
    calc _ = ((b.z * c.x - b.x * c.z) * A + (a.x * c.z - a.z * c.x) * B + (a.z * b.x - a.x * b.z) * C) * (1 / D) := by
          ring
      _ = v.y := by rw [ky]; field_simp
  have hz : (mulColInv3 a b c (mk3 A B C) D).z = v.z := by
    simp only [mulColInv3, mk3_x, mk3_y, mk3_z]
    calc _ = ((b.x * c.y - b.y * c.x) * A + (a.y * c.x - a.x * c.y) * B + (a.x * b.y - a.y * b.x) * C) * (1 / D) := by
          ring
      _ = v.z := by rw [kz]; field_simp
  cases v
  cases hm : mulColInv3 a b c (mk3 A B C) D
  rw [hm] at hx hy hz
  simp only at hx hy hz
  subst hx hy hz
  rfl

theorem cramer2 (a b v : Pt K) (ma mb : K) (hdet : det2 a b ≠ 0) (haz : a.z = 0) (hbz : b.z = 0)
    (ha : pdot a v = ma) (hb : pdot b v = mb) :
    (mulColInv2 a b (mk3 ma mb 0) (det2 a b)).x = v.x ∧ (mulColInv2 a b (mk3 ma mb 0) (det2 a b)).y = v.y ∧
    (mulColInv2 a b (mk3 ma mb 0) (det2 a b)).z = 0 := by
  subst ha hb
  have kx : b.y * pdot a v + (-a.y) * pdot b v = det2 a b * v.x := by
    simp only [det2, pdot_xyz, haz, hbz]; ring
  have ky : (-b.x) * pdot a v + a.x * pdot b v = det2 a b * v.y := by
    simp only [det2, pdot_xyz, haz, hbz]; ring
  generalize det2 a b = D at hdet kx ky
  generalize pdot a v = A at kx ky
  generalize pdot b v = B at kx ky
  refine ⟨?_, ?_, rfl⟩
  · simp only [mulColInv2, mk3_x, mk3_y, mk3_z]
    calc _ = (b.y * A + (-a.y) * B) * (1 / D) := by ring
      _ = v.x := by rw [kx]; field_simp
  · simp only [mulColInv2, mk3_x, mk3_y, mk3_z]
    calc _ = ((-b.x) * A + a.x * B) * (1 / D) := by ring
      _ = v.y := by rw [ky]; field_simp

theorem det3_perm (a b c : Pt K) :
    det3 a c b = -det3 a b c ∧ det3 b a c = -det3 a b c ∧ det3 b c a = det3 a b c ∧
    det3 c a b = det3 a b c ∧ det3 c b a = -det3 a b c := by
  simp only [det3]
  refine ⟨?_, ?_, ?_, ?_, ?_⟩ <;> ring

theorem det2_swap (a b : Pt K) : det2 b a = -det2 a b := by simp only [det2]; ring

/-! ## basic feasible points dominate every point of a bounded polytope -/

/-- `d`-dimensional boundedness of the feasible set along axis `j` -/
def BddAx (cs : List (Pt K × K)) (j : Fin 3) (R : K) : Prop := ∀ q, Feas cs q → q j ≤ R ∧ -R ≤ q j

/-- 2-D: two constraints with `det2 ≠ 0` active at a feasible point that is at least as high as `p` for
the linear form `e` -/
theorem basic2 (cs : List (Pt K × K)) (R : K) (hR0 : BddAx cs 0 R) (hR1 : BddAx cs 1 R) (e p : Pt K)
    (hp : Feas cs p) :
    ∃ v, Feas cs v ∧ pdot e p ≤ pdot e v ∧ ∃ a ∈ cs, ∃ b ∈ cs, det2 a.1 b.1 ≠ 0 ∧
      pdot a.1 v = a.2 ∧ pdot b.1 v = b.2 := by
  -- first constraint: along ±x
  obtain ⟨s0, hf1, he1, c1, hc1, hn1, hact1⟩ :=
    ray_hit_up cs p (mk3 1 0 0) e hp 0 (by simp) R hR0
  have hn1x : c1.1.x ≠ 0 := by
    simpa [pdot_xyz, mk3_x, mk3_y, mk3_z] using hn1
  -- second: inside the line of the first
  obtain ⟨s1, hf2, he2, c2, hc2, hn2, hact2⟩ :=
    ray_hit_up cs (along p (mk3 1 0 0) s0) (mk3 (-c1.1.y) c1.1.x 0) e hf1 1 (by simpa using hn1x) R hR1
  refine ⟨_, hf2, le_trans he1 he2, c1, hc1, c2, hc2, ?_, ?_, hact2⟩
  · intro h0
    apply hn2
    simp only [pdot_xyz, mk3_x, mk3_y, mk3_z]
    simp only [det2] at h0
    linear_combination h0
  · rw [pdot_along, hact1]
    have : pdot c1.1 (mk3 (-c1.1.y) c1.1.x 0) = 0 := by
      simp only [pdot_xyz, mk3_x, mk3_y, mk3_z]; ring
    rw [this]; ring

/-- 3-D: three constraints with `det3 ≠ 0` active at a feasible point that is at least as high as `p`
for the linear form `e` -/
theorem basic3 (cs : List (Pt K × K)) (R : K) (hR : ∀ j, BddAx cs j R) (e p : Pt K) (hp : Feas cs p) :
    ∃ v, Feas cs v ∧ pdot e p ≤ pdot e v ∧ ∃ a ∈ cs, ∃ b ∈ cs, ∃ c ∈ cs, det3 a.1 b.1 c.1 ≠ 0 ∧
      pdot a.1 v = a.2 ∧ pdot b.1 v = b.2 ∧ pdot c.1 v = c.2 := by
  obtain ⟨s0, hf1, he1, c1, hc1, hn1, hact1⟩ :=
    ray_hit_up cs p (mk3 1 0 0) e hp 0 (by simp) R (hR 0)
  have hn1x : c1.1.x ≠ 0 := by
    simpa [pdot_xyz, mk3_x, mk3_y, mk3_z] using hn1
  obtain ⟨s1, hf2, he2, c2, hc2, hn2, hact2⟩ :=
    ray_hit_up cs (along p (mk3 1 0 0) s0) (mk3 (-c1.1.y) c1.1.x 0) e hf1 1 (by simpa using hn1x) R (hR 1)
  have hact1' : pdot c1.1 (along (along p (mk3 1 0 0) s0) (mk3 (-c1.1.y) c1.1.x 0) s1) = c1.2 := by
    rw [pdot_along, hact1]
    have : pdot c1.1 (mk3 (-c1.1.y) c1.1.x 0) = 0 := by
      simp only [pdot_xyz, mk3_x, mk3_y, mk3_z]; ring
    rw [this]; ring
  -- third: along the line of the first two, direction n1 × n2
  have hcz : c1.1.x * c2.1.y - c1.1.y * c2.1.x ≠ 0 := by
    intro h0
    apply hn2
    simp only [pdot_xyz, mk3_x, mk3_y, mk3_z]
    linear_combination h0
  obtain ⟨s2, hf3, he3, c3, hc3, hn3, hact3⟩ :=
    ray_hit_up cs (along (along p (mk3 1 0 0) s0) (mk3 (-c1.1.y) c1.1.x 0) s1)
      (mk3 (c1.1.y * c2.1.z - c1.1.z * c2.1.y) (c1.1.z * c2.1.x - c1.1.x * c2.1.z)
        (c1.1.x * c2.1.y - c1.1.y * c2.1.x)) e hf2 2 (by simpa using hcz) R (hR 2)
  refine ⟨_, hf3, le_trans he1 (le_trans he2 he3), c1, hc1, c2, hc2, c3, hc3, ?_, ?_, ?_, hact3⟩
  · intro h0
    apply hn3
    simp only [pdot_xyz, mk3_x, mk3_y, mk3_z]
    simp only [det3] at h0
    linear_combination h0
  · rw [pdot_along, hact1']
    have : pdot c1.1 (mk3 (c1.1.y * c2.1.z - c1.1.z * c2.1.y) (c1.1.z * c2.1.x - c1.1.x * c2.1.z)
        (c1.1.x * c2.1.y - c1.1.y * c2.1.x)) = 0 := by
      simp only [pdot_xyz, mk3_x, mk3_y, mk3_z]; ring
    rw [this]; ring
  · rw [pdot_along, hact2]
    have : pdot c2.1 (mk3 (c1.1.y * c2.1.z - c1.1.z * c2.1.y) (c1.1.z * c2.1.x - c1.1.x * c2.1.z)
        (c1.1.x * c2.1.y - c1.1.y * c2.1.x)) = 0 := by
      simp only [pdot_xyz, mk3_x, mk3_y, mk3_z]; ring
    rw [this]; ring

/-! ## a basic feasible point is among the vertices `Mesh()` enumerates -/

theorem smax_ge_left (a b : K) : a ≤ smax a b := by rw [smax_eq]; exact le_max_left _ _

theorem foldl_smax_ge {β : Type} (f : β → K) (l : List β) (acc : K) :
    acc ≤ l.foldl (fun a x => smax a (f x)) acc := by
  induction l generalizing acc with
  | nil => exact le_refl _
  | cons x xs ih => exact le_trans (smax_ge_left _ _) (ih _)

theorem spatialEps_nonneg (sq : K → K) (tol : K) (htol : 0 ≤ tol) (cs : List (Pt K × K)) :
    0 ≤ spatialEps sq tol cs := by
  unfold spatialEps
  exact mul_nonneg (foldl_smax_ge (fun l : Pt K × K => sabs l.2 / pnorm sq l.1) cs 0) htol

/-- the acceptance loop accepts a feasible point (the slack `epsilon·|n|` is non-negative) -/
theorem vertexOk_of_feas (sq : K → K) (hsq : SqrtOK sq) (epsilon : K) (heps : 0 ≤ epsilon) (cs r : List (Pt K × K))
    (hr : ∀ l ∈ r, l ∈ cs) (v : Pt K) (hv : Feas cs v) : vertexOk sq epsilon r v = true := by
  simp only [vertexOk, List.all_eq_true, Bool.not_eq_true', decide_eq_false_iff_not, not_lt]
  intro l hl
  have h1 := hv l (hr l hl)
  have h2 : 0 ≤ epsilon * pnorm sq l.1 := mul_nonneg heps (pnorm_nonneg sq hsq l.1)
  linarith

theorem vertsBox_mem (vs : List (Pt K)) (v : Pt K) (hv : v ∈ vs) (i : Fin 3) :
    (vertsBox vs).lo i ≤ v i ∧ v i ≤ (vertsBox vs).hi i := by
  cases vs with
  | nil => simp at hv
  | cons w ws => exact hull_mem w ws v hv i

/-- 3-D: a feasible point where three constraints of the system with `det3 ≠ 0` are active is one of the
vertices `Mesh()` enumerates, unless the conditioning test `|det| < rawArea·tol` rejects it. -/
theorem basic3_mem (sq : K → K) (hsq : SqrtOK sq) (tol : K) (htol : 0 ≤ tol) (cs : List (Pt K × K))
    (hcond : ∀ a ∈ cs, ∀ b ∈ cs, ∀ c ∈ cs, det3 a.1 b.1 c.1 ≠ 0 →
      ¬ sabs (det3 a.1 b.1 c.1) < pnorm sq a.1 * pnorm sq b.1 * pnorm sq c.1 * tol)
    (v : Pt K) (hv : Feas cs v) (a b c : Pt K × K) (ha : a ∈ cs) (hb : b ∈ cs) (hc : c ∈ cs)
    (hdet : det3 a.1 b.1 c.1 ≠ 0) (hav : pdot a.1 v = a.2) (hbv : pdot b.1 v = b.2) (hcv : pdot c.1 v = c.2) :
    v ∈ meshVerts3 sq tol cs := by
  -- pairwise distinct (a repeated row makes the determinant vanish)
  have hab : a ≠ b := by
    intro h; apply hdet; rw [h]; simp only [det3]; ring
  have hac : a ≠ c := by
    intro h; apply hdet; rw [h]; simp only [det3]; ring
  have hbc : b ≠ c := by
    intro h; apply hdet; rw [h]; simp only [det3]; ring
  obtain ⟨x, y, z, r, hmem, hperm, hsub⟩ := triples_complete cs a b c ha hb hc hab hac hbc
  have hp := det3_perm a.1 b.1 c.1
  -- in every order: members, active, determinant non-zero
  have hall : x ∈ cs ∧ y ∈ cs ∧ z ∈ cs ∧ det3 x.1 y.1 z.1 ≠ 0 ∧ pdot x.1 v = x.2 ∧ pdot y.1 v = y.2 ∧
      pdot z.1 v = z.2 := by
    rcases hperm with ⟨rfl, rfl, rfl⟩ | ⟨rfl, rfl, rfl⟩ | ⟨rfl, rfl, rfl⟩ | ⟨rfl, rfl, rfl⟩ | ⟨rfl, rfl, rfl⟩ |
      ⟨rfl, rfl, rfl⟩
    · exact ⟨ha, hb, hc, hdet, hav, hbv, hcv⟩
    · exact ⟨ha, hc, hb, by rw [hp.1]; exact neg_ne_zero.mpr hdet, hav, hcv, hbv⟩
    · exact ⟨hb, ha, hc, by rw [hp.2.1]; exact neg_ne_zero.mpr hdet, hbv, hav, hcv⟩
    · exact ⟨hb, hc, ha, by rw [hp.2.2.1]; exact hdet, hbv, hcv, hav⟩
    · exact ⟨hc, ha, hb, by rw [hp.2.2.2.1]; exact hdet, hcv, hav, hbv⟩
    · exact ⟨hc, hb, ha, by rw [hp.2.2.2.2]; exact neg_ne_zero.mpr hdet, hcv, hbv, hav⟩
  obtain ⟨hx, hy, hz, hd, hxv, hyv, hzv⟩ := hall
  simp only [meshVerts3, List.mem_filterMap]
  refine ⟨(x, y, z, r), hmem, ?_⟩
  show vertex3 sq tol (spatialEps sq tol cs) x y z r = some v
  unfold vertex3
  simp only
  rw [if_neg (hcond x hx y hy z hz hd), cramer3 x.1 y.1 z.1 v x.2 y.2 z.2 hd hxv hyv hzv,
    vertexOk_of_feas sq hsq _ (spatialEps_nonneg sq tol htol cs) cs r hsub v hv]
  rfl

/-- 2-D: the X/Y coordinates of a feasible point where two constraints with `det2 ≠ 0` are active are those
of one of the vertices `Mesh()` enumerates, unless the conditioning test rejects it. -/
theorem basic2_mem (sq : K → K) (hsq : SqrtOK sq) (tol : K) (htol : 0 ≤ tol) (cs : List (Pt K × K))
    (hz : ∀ l ∈ cs, l.1.z = 0)
    (hcond : ∀ a ∈ cs, ∀ b ∈ cs, det2 a.1 b.1 ≠ 0 → ¬ sabs (det2 a.1 b.1) < pnorm sq a.1 * pnorm sq b.1 * tol)
    (v : Pt K) (hv : Feas cs v) (a b : Pt K × K) (ha : a ∈ cs) (hb : b ∈ cs)
    (hdet : det2 a.1 b.1 ≠ 0) (hav : pdot a.1 v = a.2) (hbv : pdot b.1 v = b.2) :
    ∃ w ∈ meshVerts2 sq tol cs, w.x = v.x ∧ w.y = v.y := by
  have hab : a ≠ b := by
    intro h; apply hdet; rw [h]; simp only [det2]; ring
  obtain ⟨r, hmem, hsub⟩ := picks2_complete cs a b ha hb hab
  -- the enumerated pair, in its order
  have hall : ∃ x y, (x, y, r) ∈ triples.picks2 cs ∧ x ∈ cs ∧ y ∈ cs ∧ det2 x.1 y.1 ≠ 0 ∧ pdot x.1 v = x.2 ∧
      pdot y.1 v = y.2 := by
    rcases hmem with h | h
    · exact ⟨a, b, h, ha, hb, hdet, hav, hbv⟩
    · exact ⟨b, a, h, hb, ha, by rw [det2_swap]; exact neg_ne_zero.mpr hdet, hbv, hav⟩
  obtain ⟨x, y, hm, hx, hy, hd, hxv, hyv⟩ := hall
  obtain ⟨cx, cy, cz⟩ := cramer2 x.1 y.1 v x.2 y.2 hd (hz x hx) (hz y hy) hxv hyv
  refine ⟨mulColInv2 x.1 y.1 (mk3 x.2 y.2 0) (det2 x.1 y.1), ?_, cx, cy⟩
  simp only [meshVerts2, pairs, List.mem_filterMap]
  refine ⟨(x, y, r), hm, ?_⟩
  show vertex2 sq tol (spatialEps sq tol cs) x y r = some _
  unfold vertex2
  simp only
  -- the solution is feasible: it differs from `v` only in the unused third slot
  have hfeas : Feas cs (mulColInv2 x.1 y.1 (mk3 x.2 y.2 0) (det2 x.1 y.1)) := by
    intro l hl
    have := hv l hl
    rw [pdot_xyz] at this ⊢
    rw [cx, cy, hz l hl] at *
    linarith
  rw [if_neg (hcond x hx y hy hd),
    vertexOk_of_feas sq hsq _ (spatialEps_nonneg sq tol htol cs) cs r hsub _ hfeas]
  rfl

/-! ## the box encloses the polytope -/

theorem pdot_unitAx_left (n : Pt K) (i : Fin 3) (sign : K) : pdot (unitAx i sign) n = n i * sign := by
  rw [pdot_comm]; exact pdot_unitAx n i sign

/-- **3-D.**  If the intersection of the half-spaces is bounded and none of its basic points is rejected by
the conditioning test of `vertex`, every point of it lies in the box spanned by the vertices `Mesh()`
enumerates. -/
theorem verts_box_encloses3 (sq : K → K) (hsq : SqrtOK sq) (tol : K) (htol : 0 ≤ tol) (cs : List (Pt K × K))
    (R : K) (hR : ∀ j, BddAx cs j R)
    (hcond : ∀ a ∈ cs, ∀ b ∈ cs, ∀ c ∈ cs, det3 a.1 b.1 c.1 ≠ 0 →
      ¬ sabs (det3 a.1 b.1 c.1) < pnorm sq a.1 * pnorm sq b.1 * pnorm sq c.1 * tol)
    (p : Pt K) (hp : Feas cs p) : InBox true (vertsBox (meshVerts3 sq tol cs)) p := by
  intro i _
  constructor
  · obtain ⟨v, hv, hev, a, ha, b, hb, c, hc, hdet, hav, hbv, hcv⟩ := basic3 cs R hR (unitAx i (-1)) p hp
    have hm := basic3_mem sq hsq tol htol cs hcond v hv a b c ha hb hc hdet hav hbv hcv
    rw [pdot_unitAx_left, pdot_unitAx_left] at hev
    have := (vertsBox_mem _ v hm i).1
    linarith
  · obtain ⟨v, hv, hev, a, ha, b, hb, c, hc, hdet, hav, hbv, hcv⟩ := basic3 cs R hR (unitAx i 1) p hp
    have hm := basic3_mem sq hsq tol htol cs hcond v hv a b c ha hb hc hdet hav hbv hcv
    rw [pdot_unitAx_left, pdot_unitAx_left] at hev
    have := (vertsBox_mem _ v hm i).2
    linarith

/-- **2-D.** -/
theorem verts_box_encloses2 (sq : K → K) (hsq : SqrtOK sq) (tol : K) (htol : 0 ≤ tol) (cs : List (Pt K × K))
    (hz : ∀ l ∈ cs, l.1.z = 0) (R : K) (hR0 : BddAx cs 0 R) (hR1 : BddAx cs 1 R)
    (hcond : ∀ a ∈ cs, ∀ b ∈ cs, det2 a.1 b.1 ≠ 0 → ¬ sabs (det2 a.1 b.1) < pnorm sq a.1 * pnorm sq b.1 * tol)
    (p : Pt K) (hp : Feas cs p) : InBox false (vertsBox (meshVerts2 sq tol cs)) p := by
  intro i hi
  have hi2 : i = 0 ∨ i = 1 := by
    rcases fin3 i with rfl | rfl | rfl
    · exact Or.inl rfl
    · exact Or.inr rfl
    · rcases hi with h | h
      · exact absurd h (by decide)
      · exact absurd h (by decide)
  have hcoord : ∀ (w v : Pt K), w.x = v.x → w.y = v.y → w i = v i := by
    intro w v h1 h2
    rcases hi2 with rfl | rfl
    · exact h1
    · exact h2
  constructor
  · obtain ⟨v, hv, hev, a, ha, b, hb, hdet, hav, hbv⟩ := basic2 cs R hR0 hR1 (unitAx i (-1)) p hp
    obtain ⟨w, hm, hwx, hwy⟩ := basic2_mem sq hsq tol htol cs hz hcond v hv a b ha hb hdet hav hbv
    rw [pdot_unitAx_left, pdot_unitAx_left] at hev
    have := (vertsBox_mem _ w hm i).1
    rw [hcoord w v hwx hwy] at this
    linarith
  · obtain ⟨v, hv, hev, a, ha, b, hb, hdet, hav, hbv⟩ := basic2 cs R hR0 hR1 (unitAx i 1) p hp
    obtain ⟨w, hm, hwx, hwy⟩ := basic2_mem sq hsq tol htol cs hz hcond v hv a b ha hb hdet hav hbv
    rw [pdot_unitAx_left, pdot_unitAx_left] at hev
    have := (vertsBox_mem _ w hm i).2
    rw [hcoord w v hwx hwy] at this
    linarith

end M3d.Bd
