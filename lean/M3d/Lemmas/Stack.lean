import Mathlib.Algebra.Order.Field.Basic
import Mathlib.Tactic.Linarith
import M3d.Lemmas.SolidTree
/-! Helper lemmas for C04: `StackSolids` / `StackedSolid`. -/
namespace M3d.SolidAlg
set_option linter.unusedSectionVars false
variable {K : Type} [Field K] [LinearOrder K] [IsStrictOrderedRing K]

theorem subZ_zero (p : Pt K) : subZ p 0 = p := by
  funext i; simp [subZ]

theorem translateZ_hi (s : Solid K) (δ : K) : (translateZ s δ).box.hi 2 = s.box.hi 2 + δ := by
  simp [translateZ, Box.addZ]

/-- For an operand that respects its bounds, the bounds test `TransformSolid` adds is redundant. -/
theorem translateZ_f {s : Solid K} (hs : Bounded 3 s) (δ : K) (p : Pt K) :
    (translateZ s δ).f p = s.f (subZ p δ) := by
  simp only [translateZ]
  cases h : s.f (subZ p δ)
  · simp
  · have hb := (Box.contains_iff 3 s.box (subZ p δ)).mp (hs _ h)
    have : (s.box.addZ δ).contains 3 p = true := by
      rw [Box.contains_iff]
      intro i hi
      have := hb i hi
      by_cases h2 : i = 2
      · subst h2
        simp only [subZ, Box.addZ, if_true] at this ⊢
        constructor <;> linarith [this.1, this.2]
      · simpa [subZ, Box.addZ, h2] using this
    simp [this]

theorem stackRest_eq (top : K) (rest : List (Solid K)) (hb : ∀ x ∈ rest, Bounded 3 x) (p : Pt K) :
    joined ((stackRest top rest).map (·.f)) p = translatedUnion rest (stackOffsets top rest) p := by
  induction rest generalizing top with
  | nil => rfl
  | cons s rest ih =>
    simp only [stackRest, stackOffsets, List.map_cons, joined, translatedUnion, List.zip_cons_cons,
      List.any_cons]
    rw [translateZ_f (hb s (by simp)), translateZ_hi, ih _ (fun x hx => hb x (by simp [hx]))]
    cases s.f (subZ p (top - s.box.lo 2)) <;> simp [translatedUnion]

theorem stackedLoop_eq (z : K) (ss : List (Solid K)) (p : Pt K) :
    stackedLoop z ss p = translatedUnion ss (stackOffsets z ss) p := by
  induction ss generalizing z with
  | nil => rfl
  | cons s rest ih =>
    simp only [stackedLoop, stackOffsets, translatedUnion, List.zip_cons_cons, List.any_cons]
    rw [ih]
    cases s.f (subZ p (z - s.box.lo 2)) <;> simp [translatedUnion]

end M3d.SolidAlg
