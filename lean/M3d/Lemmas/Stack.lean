import Mathlib.Algebra.Order.Field.Basic
import Mathlib.Tactic.Linarith
import M3d.Lemmas.SolidTree
/-! Helper lemmas for C04: `StackSolids` / `StackedSolid`. -/
namespace M3d.SolidAlg
set_option linter.unusedSectionVars false
variable {K : Type} [Field K] [LinearOrder K] [IsStrictOrderedRing K]

theorem subZ_zero (p : Pt K) : subZ p 0 = p := by
  funext i; simp [subZ]

theorem translateZ_hi (s : Solid K) (δ : K) : (translateZ s δ).box.hi 2 = s.box.hi 2 + δ := by
  simp [translateZ, Box.addZ]

/-- For an operand that respects its bounds, the bounds test `TransformSolid` adds is redundant. -/
theorem translateZ_f {s : Solid K} (hs : Bounded 3 s) (δ : K) (p : Pt K) :
    (translateZ s δ).f p = s.f (subZ p δ) := by
  simp only [translateZ]
  cases h : s.f (subZ p δ)
  · simp
  · have hb := (Box.contains_iff 3 s.box (subZ p δ)).mp (hs _ h)
    have : (s.box.addZ δ).contains 3 p = true := by
      rw [Box.contains_iff]
      intro i hi
      have := hb i hi
      by_cases h2 : i = 2
      · subst h2
        simp only [subZ, Box.addZ, if_true] at this ⊢
        constructor <;> linarith [this.1, this.2]
      · simpa [subZ, Box.addZ, h2] using this
    simp [this]

theorem stackRest_eq (top : K) (rest : List (Solid K)) (hb : ∀ x ∈ rest, Bounded 3 x) (p : Pt K) :
    joined ((stackRest top rest).map (·.f)) p = translatedUnion rest (stackOffsets top rest) p := by
  induction rest generalizing top with
  | nil => rfl
  | cons s rest ih =>
    simp only [stackRest, stackOffsets, List.map_cons, joined, translatedUnion, List.zip_cons_cons,
      List.any_cons]
    rw [translateZ_f (hb s (by simp)), translateZ_hi, ih _ (fun x hx => hb x (by simp [hx]))]
    cases s.f (subZ p (top - s.box.lo 2)) <;> simp [translatedUnion]

theorem stackedLoop_eq (z : K) (ss : List (Solid K)) (p : Pt K) :
    stackedLoop z ss p = translatedUnion ss (stackOffsets z ss) p := by
  induction ss generalizing z with
  | nil => rfl
  | cons s rest ih =>
    simp only [stackedLoop, stackOffsets, translatedUnion, List.zip_cons_cons, List.any_cons]
    rw [ih]
    cases s.f (subZ p (z - s.box.lo 2)) <;> simp [translatedUnion]

/-! ### `StackedSolid.Min/Max` enclose the stack -/

/-- One step of `StackedSolid.Max()`. -/
def stepM (M : Pt K) (s : Solid K) : Pt K :=
  fun i => maxOf (M i) (if i = 2 then s.box.hi 2 + (M 2 - s.box.lo 2) else s.box.hi i)

theorem stackedMax_eq (first : Solid K) (rest : List (Solid K)) :
    stackedMax first rest = rest.foldl stepM first.box.hi := rfl

theorem maxOf_eq_right {a b : K} (h : a ≤ b) : maxOf a b = b := by
  unfold maxOf; simp [h]

theorem stackedFold_spec : ∀ (rest : List (Solid K)) (M : Pt K), (∀ s ∈ rest, s.box.lo 2 ≤ s.box.hi 2) →
    (∀ i, M i ≤ (rest.foldl stepM M) i) ∧
    ∀ x ∈ rest.zip (stackOffsets (M 2) rest),
      M 2 ≤ x.1.box.lo 2 + x.2 ∧ x.1.box.hi 2 + x.2 ≤ (rest.foldl stepM M) 2 ∧
      ∀ i, i ≠ 2 → x.1.box.hi i ≤ (rest.foldl stepM M) i := by
  intro rest
  induction rest with
  | nil => intro M _; simp
  | cons s rest ih =>
    intro M hv
    have hs : s.box.lo 2 ≤ s.box.hi 2 := hv s List.mem_cons_self
    have hM2 : stepM M s 2 = s.box.hi 2 + (M 2 - s.box.lo 2) := by
      simp only [stepM, if_true]
      exact maxOf_eq_right (by linarith)
    obtain ⟨m, r⟩ := ih (stepM M s) (fun x hx => hv x (List.mem_cons_of_mem _ hx))
    have hstep : ∀ i, M i ≤ stepM M s i := fun i => le_maxOf_left _ _
    refine ⟨fun i => le_trans (hstep i) (m i), ?_⟩
    intro x hx
    simp only [stackOffsets, List.zip_cons_cons, List.mem_cons] at hx
    simp only [List.foldl_cons]
    rcases hx with rfl | hx
    · refine ⟨by simp, ?_, ?_⟩
      · have := m 2
        rw [hM2] at this
        simpa using this
      · intro i hi
        refine le_trans ?_ (m i)
        simp only [stepM, hi, if_false]
        exact le_maxOf_right _ _
    · rw [← hM2] at hx
      obtain ⟨a, b, c⟩ := r x hx
      exact ⟨le_trans (hstep 2) a, b, c⟩

theorem foldl_join_lo_le (rest : List (Solid K)) (acc : Box K) (i : Nat) :
    (rest.foldl (fun b s => b.join s.box) acc).lo i ≤ acc.lo i ∧
    ∀ x ∈ rest, (rest.foldl (fun b s => b.join s.box) acc).lo i ≤ x.box.lo i := by
  induction rest generalizing acc with
  | nil => simp
  | cons s rest ih =>
    simp only [List.foldl_cons]
    obtain ⟨a, b⟩ := ih (acc.join s.box)
    refine ⟨le_trans a (minOf_le_left _ _), ?_⟩
    intro x hx
    rcases List.mem_cons.mp hx with rfl | hx
    · exact le_trans a (minOf_le_right _ _)
    · exact b x hx

theorem joinedBox_lo_le (first : Solid K) (rest : List (Solid K)) {x : Solid K} (hx : x ∈ first :: rest)
    (i : Nat) : (joinedBox first rest).lo i ≤ x.box.lo i := by
  unfold joinedBox
  rcases List.mem_cons.mp hx with rfl | hx
  · exact (foldl_join_lo_le rest _ i).1
  · exact (foldl_join_lo_le rest _ i).2 x hx

/-- For operands that respect their bounds (and whose bounds have `min.z ≤ max.z`), every point of the
translated union lies inside `StackedSolid`'s own bounds, so its `InBounds` test never cuts anything off. -/
theorem stacked_bounds_redundant (s0 : Solid K) (rest : List (Solid K))
    (hb : ∀ x ∈ s0 :: rest, Bounded 3 x) (hv : ∀ x ∈ s0 :: rest, x.box.lo 2 ≤ x.box.hi 2) (p : Pt K)
    (h : translatedUnion (s0 :: rest) (0 :: stackOffsets (s0.box.hi 2) rest) p = true) :
    (⟨(joinedBox s0 rest).lo, stackedMax s0 rest⟩ : Box K).contains 3 p = true := by
  obtain ⟨m, r⟩ := stackedFold_spec rest s0.box.hi (fun x hx => hv x (List.mem_cons_of_mem _ hx))
  simp only [translatedUnion, List.zip_cons_cons, List.any_cons, Bool.or_eq_true, List.any_eq_true] at h
  rw [Box.contains_iff, stackedMax_eq]
  intro i hi
  rcases h with h | ⟨x, hx, h⟩
  · rw [subZ_zero] at h
    have hc := (Box.contains_iff 3 s0.box p).mp (hb s0 List.mem_cons_self p h) i hi
    exact ⟨le_trans (joinedBox_lo_le s0 rest List.mem_cons_self i) hc.1, le_trans hc.2 (m i)⟩
  · have hxm : x.1 ∈ s0 :: rest := List.mem_cons_of_mem _ (List.of_mem_zip hx).1
    have hc := (Box.contains_iff 3 x.1.box (subZ p x.2)).mp (hb x.1 hxm _ h) i hi
    obtain ⟨a, b, c⟩ := r x hx
    by_cases e : i = 2
    · subst e
      simp only [subZ, if_true] at hc
      have h0 := hv s0 List.mem_cons_self
      have hj := joinedBox_lo_le s0 rest (x := s0) List.mem_cons_self 2
      constructor <;> linarith [hc.1, hc.2]
    · simp only [subZ, e, if_false] at hc
      exact ⟨le_trans (joinedBox_lo_le s0 rest hxm i) hc.1, le_trans hc.2 (c i e)⟩

end M3d.SolidAlg
