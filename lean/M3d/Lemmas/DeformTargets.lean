import M3d.Lemmas.Surface
import M3d.Model.DeformTargets
/-!
What a vertex map that meets positional constraints leaves visible in the output soup
(`ARAP.coordsToMesh`: the same triangles with every vertex replaced by its new position).
-/
namespace M3d.Surface

theorem triVerts_mapTri (f : Nat → Nat) (t : Tri) : triVerts (mapTri f t) = (triVerts t).map f := rfl

theorem mem_vertsAll_relabel (f : Nat → Nat) {ts : List Tri} {k : Nat} (hk : k ∈ vertsAll ts) :
    f k ∈ vertsAll (relabel f ts) := by
  simp only [vertsAll, relabel, List.mem_flatMap, List.mem_map] at hk ⊢
  obtain ⟨t, ht, hkt⟩ := hk
  exact ⟨mapTri f t, ⟨t, ht, rfl⟩, by rw [triVerts_mapTri]; exact List.mem_map.2 ⟨k, hkt, rfl⟩⟩

theorem starSize_relabel {f : Nat → Nat} {ts : List Tri} (hf : InjOn f (vertsAll ts)) {k : Nat}
    (hk : k ∈ vertsAll ts) : starSize (f k) (relabel f ts) = starSize k ts := by
  simp only [starSize, relabel, List.countP_map]
  apply List.countP_congr
  intro t ht
  simp only [Function.comp, triVerts_mapTri, List.contains_iff_mem, List.mem_map]
  constructor
  · rintro ⟨x, hx, hfx⟩
    have hxa : x ∈ vertsAll ts := List.mem_flatMap.2 ⟨t, ht, hx⟩
    rw [← hf x hxa k hk hfx]; exact hx
  · intro h; exact ⟨k, h, rfl⟩

theorem starSize_perm {ts ts' : List Tri} (h : ts.Perm ts') (v : Nat) : starSize v ts = starSize v ts' :=
  h.countP_eq _

theorem vertsAll_perm {ts ts' : List Tri} (h : ts.Perm ts') {v : Nat} : v ∈ vertsAll ts ↔ v ∈ vertsAll ts' := by
  simp only [vertsAll, List.mem_flatMap]
  exact ⟨fun ⟨t, ht, hv⟩ => ⟨t, h.mem_iff.1 ht, hv⟩, fun ⟨t, ht, hv⟩ => ⟨t, h.mem_iff.2 ht, hv⟩⟩

/-- If the output is (a rearrangement of) the input with every vertex moved by a map that meets
the constraints, every target is visible. -/
theorem targetsVisible_of_met {f : Nat → Nat} {inp out : List Tri} (hout : out.Perm (relabel f inp))
    {cons : List (Nat × Nat)} (hmet : ∀ kp ∈ cons, f kp.1 = kp.2) : targetsVisible cons inp out = true := by
  simp only [targetsVisible, List.all_eq_true, Bool.or_eq_true, Bool.not_eq_true', List.contains_iff_mem]
  intro kp hkp
  by_cases hk : kp.1 ∈ vertsAll inp
  · right
    rw [vertsAll_perm hout, ← hmet kp hkp]
    exact mem_vertsAll_relabel f hk
  · left
    simpa using hk

/-- … and, when the map is injective on the mesh's vertices, every target carries the star of
its vertex. -/
theorem starsAgree_of_met {f : Nat → Nat} {inp out : List Tri} (hout : out.Perm (relabel f inp))
    (hf : InjOn f (vertsAll inp)) {cons : List (Nat × Nat)} (hmet : ∀ kp ∈ cons, f kp.1 = kp.2) :
    starsAgree cons inp out = true := by
  simp only [starsAgree, List.all_eq_true, Bool.or_eq_true, Bool.not_eq_true', beq_iff_eq]
  intro kp hkp
  by_cases hk : kp.1 ∈ vertsAll inp
  · right
    rw [starSize_perm hout, ← hmet kp hkp]
    exact starSize_relabel hf hk
  · left
    simpa using hk

end M3d.Surface
