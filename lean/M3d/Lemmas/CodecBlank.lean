import M3d.Model.CodecBlank
import M3d.Lemmas.CodecSafe
/-! White-space-only rows (C16): `strings.Fields(line)` is empty exactly when `strings.TrimSpace(line)`
is, so the guard `len(line) > 0` of the comment test in `PLYReader.Read` protects the index
`strings.Fields(line)[0]` *because* the line was trimmed. -/
namespace M3d.Codec

/-- a field under construction is always emitted -/
theorem fieldsAux_cur_ne_nil (fuel : Nat) (bs cur : Bytes) (h : cur ≠ []) : fieldsAux fuel bs cur ≠ [] := by
  induction fuel generalizing bs cur with
  | zero =>
    unfold fieldsAux
    cases cur with
    | nil => exact absurd rfl h
    | cons c cs => simp
  | succ fuel ih =>
    cases bs with
    | nil =>
      unfold fieldsAux
      cases cur with
      | nil => exact absurd rfl h
      | cons c cs => simp
    | cons b t =>
      unfold fieldsAux
      simp only
      split
      · exact ih t (b :: cur) (by simp)
      · cases cur with
        | nil => exact absurd rfl h
        | cons c cs => simp

/-- `strings.Fields(s)` is empty exactly when `s` is white space only -/
theorem fieldsAux_nil_iff (fuel : Nat) (bs : Bytes) (h : bs.length ≤ fuel) :
    fieldsAux fuel bs [] = [] ↔ (trimLeftAux fuel bs).isEmpty = true := by
  induction fuel generalizing bs with
  | zero =>
    have : bs = [] := List.eq_nil_of_length_eq_zero (by omega)
    subst this
    simp [fieldsAux, trimLeftAux]
  | succ fuel ih =>
    cases bs with
    | nil => simp [fieldsAux, trimLeftAux, spaceWidth]
    | cons b t =>
      unfold fieldsAux trimLeftAux
      simp only
      by_cases hw : spaceWidth (b :: t) = 0
      · simp only [hw, if_true]
        have := fieldsAux_cur_ne_nil fuel t [b] (by simp)
        simp [this]
      · simp only [hw, if_false, List.isEmpty_nil, if_true]
        apply ih
        simp only [List.length_drop, List.length_cons] at h ⊢
        omega

theorem fields_eq_nil_iff (bs : Bytes) : fields bs = [] ↔ allSpace bs = true :=
  fieldsAux_nil_iff bs.length bs (Nat.le_refl _)

/-- the fuel of `fieldsAux` is irrelevant once it covers the input -/
theorem fieldsAux_fuel (f1 f2 : Nat) (bs cur : Bytes) (h1 : bs.length ≤ f1) (h2 : bs.length ≤ f2) :
    fieldsAux f1 bs cur = fieldsAux f2 bs cur := by
  induction f1 generalizing f2 bs cur with
  | zero =>
    have : bs = [] := List.eq_nil_of_length_eq_zero (by omega)
    subst this
    cases f2 <;> simp [fieldsAux]
  | succ f1 ih =>
    cases bs with
    | nil => cases f2 <;> simp [fieldsAux]
    | cons b t =>
      cases f2 with
      | zero => simp at h2
      | succ f2 =>
        simp only [List.length_cons] at h1 h2
        unfold fieldsAux
        simp only
        by_cases hw : spaceWidth (b :: t) = 0
        · simp only [hw, if_true]
          exact ih f2 t (b :: cur) (by omega) (by omega)
        · simp only [hw, if_false]
          have hd : ((b :: t).drop (spaceWidth (b :: t))).length ≤ t.length := by
            simp only [List.length_drop, List.length_cons]; omega
          rw [ih f2 _ [] (by omega) (by omega)]

/-- dropping a leading white-space rune does not change the fields -/
theorem fields_drop_space (bs : Bytes) (hw : spaceWidth bs ≠ 0) : fields (bs.drop (spaceWidth bs)) = fields bs := by
  cases bs with
  | nil => simp [spaceWidth] at hw
  | cons b t =>
    have hd : ((b :: t).drop (spaceWidth (b :: t))).length ≤ t.length := by
      simp only [List.length_drop, List.length_cons]; omega
    conv => rhs; unfold fields
    simp only [List.length_cons]
    unfold fieldsAux
    simp only [hw, if_false, List.isEmpty_nil, if_true]
    unfold fields
    exact fieldsAux_fuel _ _ _ _ (Nat.le_refl _) hd

theorem fields_trimLeftAux (fuel : Nat) (bs : Bytes) : fields (trimLeftAux fuel bs) = fields bs := by
  induction fuel generalizing bs with
  | zero => simp [trimLeftAux]
  | succ fuel ih =>
    unfold trimLeftAux
    simp only
    split
    · rfl
    · next hw => rw [ih, fields_drop_space bs hw]

/-- `strings.Fields(strings.TrimSpace(s)) = strings.Fields(s)` (left half) -/
theorem fields_trimLeft (bs : Bytes) : fields (trimLeft bs) = fields bs := fields_trimLeftAux _ bs

/-- `strings.TrimSpace(s) == ""` is `allSpace s` -/
theorem trimLeft_isEmpty (bs : Bytes) : (trimLeft bs).isEmpty = allSpace bs := rfl

/-- a row without a token is rejected by `DecodeInstanceString` when the element has properties -/
theorem decodeTokens_nil (ft : FloatText) (ps : List PProp) (h : ps ≠ []) : decodeTokens ft ps [] = .error .bad := by
  cases ps with
  | nil => exact absurd rfl h
  | cons p ps =>
    unfold decodeTokens
    cases p.lenType <;> rfl

/-- the explicit-index head equals the total one for every `keep` that behaves like `TrimSpace` -/
theorem rowHead_eq_spec (keep : Bytes → Bytes) (h2 : ∀ r, fields (keep r) = fields r)
    (h3 : ∀ r, (keep r).isEmpty = allSpace r) (raw : Bytes) (found : Bool) :
    rowHead keep raw found = rowHeadSpec raw found := by
  unfold rowHead rowHeadSpec commentGuard
  simp only [h2, h3]
  by_cases hs : allSpace raw = true
  · have hf := (fields_eq_nil_iff raw).mpr hs
    cases found <;> simp [hs, hf]
  · have hf : fields raw ≠ [] := fun h => hs ((fields_eq_nil_iff raw).mp h)
    simp only [Bool.not_eq_true] at hs
    cases hfr : fields raw with
    | nil => exact absurd hfr hf
    | cons t ts =>
      by_cases ht : t = tokComment <;> cases found <;> simp [hs, ht]

/-- **white-space-only rows**: a row that holds no token (empty, blanks, tabs, any Unicode white space), of an
element that has properties, is an error — `bad` when the line was terminated, `io.ErrUnexpectedEOF` when
the input ended in it. -/
theorem readRowAscii_blank (ft : FloatText) (el : Element) (bs ln rest : Bytes) (found : Bool)
    (h : readLine bs = (ln, rest, found)) (hb : allSpace ln = true) (hp : el.props ≠ []) :
    readRowAscii ft el bs = .error (if found then .bad else .unexpectedEOF) := by
  have hf := (fields_eq_nil_iff ln).mpr hb
  unfold readRowAscii
  simp only [h, hf, List.head?_nil, hb, decodeTokens_nil ft el.props hp]
  cases found <;> simp

/-- OFF: a vertex row / face row that holds no token is an error -/
theorem offReadVerts_blank (pf64 : Bytes → Option UInt64) (n : Nat) (bs ln rest : Bytes) (found : Bool)
    (h : readLine bs = (ln, rest, found)) (hb : allSpace ln = true) : offReadVerts pf64 (n + 1) bs = none := by
  have hf := (fields_eq_nil_iff ln).mpr hb
  unfold offReadVerts
  rw [h]
  cases found <;> simp [hf]

theorem offReadFaces_blank (verts : List V3) (n : Nat) (bs ln rest : Bytes) (found : Bool)
    (h : readLine bs = (ln, rest, found)) (hb : allSpace ln = true) : offReadFaces verts (n + 1) bs = none := by
  have hf := (fields_eq_nil_iff ln).mpr hb
  unfold offReadFaces
  rw [h]
  cases found <;> simp [hf]

/-- ASCII STL: a terminated line that holds no token is skipped (and consumed) -/
theorem stlAsciiLoop_blank (pf32 : Bytes → Option UInt32) (bs ln rest : Bytes) (normal verts : List UInt32) (acc : List Rec)
    (h : readLine bs = (ln, rest, true)) (hb : allSpace ln = true) :
    stlAsciiLoop pf32 bs normal verts acc = stlAsciiLoop pf32 rest normal verts acc := by
  have hf := (fields_eq_nil_iff ln).mpr hb
  conv => lhs; unfold stlAsciiLoop
  simp only [h, hf]
  simp

/-- ASCII STL: input that ends in white space without `endsolid` is `io.ErrUnexpectedEOF` -/
theorem stlAsciiLoop_blank_eof (pf32 : Bytes → Option UInt32) (bs ln rest : Bytes) (normal verts : List UInt32) (acc : List Rec)
    (h : readLine bs = (ln, rest, false)) (hb : allSpace ln = true) :
    stlAsciiLoop pf32 bs normal verts acc = .error .unexpectedEOF := by
  have he : trimLeftAux ln.length ln = [] := by
    unfold allSpace at hb
    exact List.isEmpty_iff.mp hb
  conv => lhs; unfold stlAsciiLoop
  simp only [h, he]
  simp [tokEndsolid, ascii]

/-- the row reader of the model is the head followed by `rowAfterHead` -/
theorem readRowAscii_head (ft : FloatText) (el : Element) (bs ln rest : Bytes) (found : Bool)
    (h : readLine bs = (ln, rest, found)) :
    readRowAscii ft el bs = rowAfterHead ft el rest found (rowHeadSpec ln found) := by
  conv => lhs; unfold readRowAscii
  simp only [h]
  unfold rowHeadSpec
  by_cases h1 : (!found && allSpace ln) = true
  · simp only [h1, if_true, rowAfterHead]
  · simp only [h1]
    by_cases h2 : (fields ln).head? = some tokComment
    · simp only [h2, rowAfterHead]
      cases found <;> simp
    · simp only [h2, rowAfterHead]
      cases hd : decodeTokens ft el.props (fields ln) with
      | error e => simp [hd]
      | ok q =>
        obtain ⟨vs, l, a⟩ := q
        cases l <;> simp [hd]

end M3d.Codec
