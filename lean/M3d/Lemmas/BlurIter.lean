import M3d.Model.BlurIter
import M3d.Lemmas.MeshOpsAlg
/-!
Lemmas about `Blur`/`BlurFiltered` with several rates (`M3d/Model/BlurIter.lean`): the loop over
the rates is the composition of single iterations, every iteration applies the published rule to
the PREVIOUS positions, rate 0 iterations change nothing.
-/
namespace M3d.MeshOps
variable {K : Type} [Field K] [DecidableEq K]

theorem blurStep_length (nbrs : Nat → List Nat) (d : V3 K) (r : K) (cs : List (V3 K)) :
    (blurStep nbrs d r cs).length = cs.length := by
  simp [blurStep]

theorem blurRates_length (nbrs : Nat → List Nat) (d : V3 K) (rates : List K) (cs : List (V3 K)) :
    (blurRates nbrs d rates cs).length = cs.length := by
  induction rates generalizing cs with
  | nil => rfl
  | cons r rs ih =>
    have : blurRates nbrs d (r :: rs) cs = blurRates nbrs d rs (blurStep nbrs d r cs) := rfl
    rw [this, ih, blurStep_length]

theorem blurRates_cons (nbrs : Nat → List Nat) (d : V3 K) (r : K) (rs : List K) (cs : List (V3 K)) :
    blurRates nbrs d (r :: rs) cs = blurRates nbrs d rs (blurStep nbrs d r cs) := rfl

theorem blurRates_append (nbrs : Nat → List Nat) (d : V3 K) (r1 r2 : List K) (cs : List (V3 K)) :
    blurRates nbrs d (r1 ++ r2) cs = blurRates nbrs d r2 (blurRates nbrs d r1 cs) := by
  simp [blurRates, List.foldl_append]

/-- Vertex `i` after one iteration: the rule on the previous positions of `i` and its neighbours. -/
theorem blurStep_getElem? (nbrs : Nat → List Nat) (d : V3 K) (r : K) (cs : List (V3 K)) {i : Nat}
    (hi : i < cs.length) :
    (blurStep nbrs d r cs)[i]? = some (blurRule r (cs.getD i d) ((nbrs i).map (cs.getD · d))) := by
  simp [blurStep, List.getElem?_map, List.getElem?_range hi]

theorem blurRule_rate0 (c : V3 K) (ns : List (V3 K)) : blurRule 0 c ns = c := by
  have h : (0 : K) ≠ -1 := by
    intro h
    have : (1 : K) = 0 := by
      have := congrArg (fun x => x + 1) h
      simpa using this.symm
    exact one_ne_zero this
  simp only [blurRule, h, if_false]
  exact blurPoint_rate0 c ns

theorem blurRule_rate1 [CharZero K] (c : V3 K) (ns : List (V3 K)) (h : ns ≠ []) :
    blurRule 1 c ns = (ns.foldl V3.add V3.zero).scale (1 / (ns.length : K)) := by
  have h1 : (1 : K) ≠ -1 := by
    intro h
    have : (2 : K) = 0 := by
      have := congrArg (fun x => x + 1) h
      simp only [neg_add_cancel] at this
      rw [← this]; norm_num
    have h2 : ((2 : Nat) : K) = 0 := by push_cast; exact this
    exact absurd (Nat.cast_eq_zero.1 h2) (by norm_num)
  simp only [blurRule, h1, if_false]
  exact blurPoint_rate1 c ns h

/-- A rate 0 iteration leaves every vertex where it is. -/
theorem blurStep_rate0 (nbrs : Nat → List Nat) (d : V3 K) (cs : List (V3 K)) :
    blurStep nbrs d 0 cs = cs := by
  apply List.ext_getElem?
  intro i
  by_cases hi : i < cs.length
  · rw [blurStep_getElem? nbrs d 0 cs hi, blurRule_rate0, List.getD_eq_getElem?_getD,
      List.getElem?_eq_getElem hi]
    simp
  · have h1 : cs.length ≤ i := Nat.le_of_not_lt hi
    rw [List.getElem?_eq_none (by rw [blurStep_length]; exact h1), List.getElem?_eq_none h1]

theorem blurRates_zeros (nbrs : Nat → List Nat) (d : V3 K) (rates : List K) (h : ∀ r ∈ rates, r = 0)
    (cs : List (V3 K)) : blurRates nbrs d rates cs = cs := by
  induction rates generalizing cs with
  | nil => rfl
  | cons r rs ih =>
    rw [blurRates_cons, h r (List.mem_cons_self ..), blurStep_rate0]
    exact ih (fun r hr => h r (List.mem_cons_of_mem _ hr)) cs

/-- With a single rate the loop with aliased buffers is the loop as it is (why no single-rate
call shows the difference). -/
theorem blurRatesAliased_single (nbrs : Nat → List Nat) (d : V3 K) (r : K) (cs : List (V3 K)) :
    blurRatesAliased nbrs d [r] cs = blurRates nbrs d [r] cs := rfl

end M3d.MeshOps
