import M3d.Model.LightTree
import M3d.Lemmas.RenderSampling
import Mathlib.Order.Interval.Finset.Nat
import Mathlib.Algebra.BigOperators.Ring.Finset
/-!
Lemmas about nested `JoinAreaLights` (`M3d/Model/LightTree.lean`) over a linear ordered field.
-/
set_option linter.unusedSectionVars false
namespace M3d.RS
variable {K : Type} [Field K] [LinearOrder K] [IsStrictOrderedRing K] [HasSqrt K]

/-! ### totals -/

mutual
/-- `TotalEmission` of a nested join is the sum over its primitive lights. -/
theorem LTree.total_eq_leaves_sum : ∀ t : LTree K, t.total = t.leaves.sum
  | .leaf w => by simp [LTree.total, LTree.leaves]
  | .join ts => by
    rw [LTree.total, total_eq_sum, LTree.totals_sum ts, LTree.leaves]
theorem LTree.totals_sum : ∀ ts : List (LTree K), (LTree.totals ts).sum = (LTree.leavesL ts).sum
  | [] => by simp [LTree.totals, LTree.leavesL]
  | t :: ts => by
    simp only [LTree.totals, LTree.leavesL, List.sum_cons, List.sum_append,
      LTree.total_eq_leaves_sum t, LTree.totals_sum ts]
end

theorem LTree.totals_length (ts : List (LTree K)) : (LTree.totals ts).length = ts.length := by
  induction ts with
  | nil => rfl
  | cons t ts ih => simp [LTree.totals, ih]

/-- Members of non-negative lights have non-negative totals. -/
theorem LTree.totals_nonneg : ∀ ts : List (LTree K), (∀ w ∈ LTree.leavesL ts, 0 ≤ w) →
    ∀ w ∈ LTree.totals ts, 0 ≤ w
  | [], _ => by simp [LTree.totals]
  | t :: ts, h => by
    intro w hw
    simp only [LTree.totals, List.mem_cons] at hw
    simp only [LTree.leavesL, List.mem_append] at h
    rcases hw with hw | hw
    · rw [hw, LTree.total_eq_leaves_sum]
      exact List.sum_nonneg (fun x hx => h x (Or.inl hx))
    · exact LTree.totals_nonneg ts (fun x hx => h x (Or.inr hx)) w hw

/-! ### uniqueness of the selected part -/

omit [HasSqrt K] in
/-- The part whose cumulative interval contains `u·T` is the one `selectIdx` returns. -/
theorem selectIdx_unique {ws : List K} (hnn : ∀ w ∈ ws, 0 ≤ w) (hne : ws ≠ []) {u : K}
    (hu : u * ws.sum ≤ ws.sum) {i : Nat} (_hi : i < ws.length)
    (hlo : (ws.take i).sum < u * ws.sum) (hhi : u * ws.sum ≤ (ws.take (i + 1)).sum) :
    selectIdx ws u = i := by
  obtain ⟨_, h2, h3⟩ := selectIdx_spec hnn hne hu
  rcases Nat.lt_trichotomy (selectIdx ws u) i with h | h | h
  · have := sum_take_mono hnn (a := selectIdx ws u + 1) (b := i) (by omega)
    linarith
  · exact h
  · have := h3 i h
    linarith

/-! ### cells of draws -/

/-- The draws `us` lie in the cell `cs` (level by level, `lo < u ≤ hi`). -/
def InCell : List K → List (K × K) → Prop
  | _, [] => True
  | [], _ :: _ => False
  | u :: us, c :: cs => (c.1 < u ∧ u ≤ c.2) ∧ InCell us cs

/-- The volume (product of the interval lengths) of a cell. -/
def cellVol (cs : List (K × K)) : K := (cs.map fun c => c.2 - c.1).prod

/-- What `SampleLight` of a nested join does for the draws `us`, and on which cell of draws it does
the same (statement of the mutual induction; see `M3d.C19.nested_join_selection_proportional`). -/
def SelSpec (sel : List K → Option Nat) (cell : List (K × K)) (leaves : List K) (W : K) (us : List K) : Prop :=
  ∃ idx w, sel us = some idx ∧ leaves[idx]? = some w ∧ 0 < w ∧ cellVol cell = w / W ∧
    InCell us cell ∧ ∀ us', InCell us' cell → sel us' = some idx

mutual
theorem LTree.select_spec : ∀ (t : LTree K) (us : List K), (∀ w ∈ t.leaves, 0 ≤ w) → 0 < t.total →
    (∀ u ∈ us, 0 < u ∧ u ≤ 1) → t.depth ≤ us.length →
    SelSpec t.select (t.cell us) t.leaves t.total us
  | .leaf w, us, _, hpos, _, _ => by
    refine ⟨0, w, ?_, ?_, ?_, ?_, ?_, ?_⟩
    · simp [LTree.select]
    · simp [LTree.leaves]
    · simpa [LTree.total] using hpos
    · simp only [LTree.cell, cellVol, List.map_nil, List.prod_nil, LTree.total]
      have : w ≠ 0 := ne_of_gt (by simpa [LTree.total] using hpos)
      field_simp
    · simp [LTree.cell, InCell]
    · intro us' _; simp [LTree.select]
  | .join ts, [], _, _, _, hd => by simp [LTree.depth] at hd
  | .join ts, u :: us, hnn, hpos, hus, hd => by
    have hnnW := LTree.totals_nonneg ts (by simpa [LTree.leaves] using hnn)
    have hW : RS.total (LTree.totals ts) = (LTree.totals ts).sum := total_eq_sum _
    have hWpos : 0 < (LTree.totals ts).sum := by rw [← hW]; simpa [LTree.total] using hpos
    have hne : LTree.totals ts ≠ [] := by
      intro h; rw [h] at hWpos; simp at hWpos
    have hu := hus u (by simp)
    have huW : u * (LTree.totals ts).sum ≤ (LTree.totals ts).sum := by nlinarith [hu.1, hu.2]
    have hposW : 0 < u * (LTree.totals ts).sum := mul_pos hu.1 hWpos
    obtain ⟨hi, hwi⟩ := selectIdx_weight_pos hnnW hne huW hposW
    obtain ⟨_, hs2, hs3⟩ := selectIdx_spec hnnW hne huW
    set ws := LTree.totals ts with hws
    set i := selectIdx ws u with hidef
    have hget : ws[i]? = some ws[i] := List.getElem?_eq_getElem hi
    have hd' : LTree.depthL ts ≤ us.length := by
      simp only [LTree.depth, List.length_cons] at hd; omega
    obtain ⟨idx, w, h1, h2, h3, h4, h5, h6⟩ :=
      LTree.selectL_spec ts i us ws[i] hget hwi (by simpa [LTree.leaves] using hnn)
        (fun v hv => hus v (List.mem_cons_of_mem _ hv)) hd'
    have hstep := List.sum_take_succ ws i hi
    have hlo : (ws.take i).sum < u * ws.sum := by
      rcases Nat.eq_zero_or_pos i with h0 | h0
      · rw [h0]; simpa using hposW
      · have := hs3 (i - 1) (by omega)
        rwa [show i - 1 + 1 = i by omega] at this
    refine ⟨idx, w, ?_, ?_, h3, ?_, ?_, ?_⟩
    · simp only [LTree.select]; exact h1
    · simpa [LTree.leaves] using h2
    · simp only [LTree.cell, cellVol, List.map_cons, List.prod_cons, LTree.total]
      rw [← hws, ← hidef]
      have h4' : ((LTree.cellL ts i us).map fun c => c.2 - c.1).prod = w / ws[i] := h4
      rw [h4', total_eq_sum, total_eq_sum, total_eq_sum, hstep]
      have : ws[i] ≠ 0 := ne_of_gt hwi
      have : ws.sum ≠ 0 := ne_of_gt hWpos
      field_simp
      ring
    · simp only [LTree.cell, InCell]
      rw [← hws, ← hidef, total_eq_sum, total_eq_sum, total_eq_sum]
      refine ⟨⟨?_, ?_⟩, h5⟩
      · rw [div_lt_iff₀ hWpos]; exact hlo
      · rw [le_div_iff₀ hWpos]; exact hs2
    · intro us' hin
      simp only [LTree.cell] at hin
      rw [← hws, ← hidef, total_eq_sum, total_eq_sum, total_eq_sum] at hin
      cases us' with
      | nil => simp [InCell] at hin
      | cons u' us' =>
        simp only [InCell] at hin
        obtain ⟨⟨hl, hh⟩, hrest⟩ := hin
        rw [div_lt_iff₀ hWpos] at hl
        rw [le_div_iff₀ hWpos] at hh
        have hle : (ws.take (i + 1)).sum ≤ ws.sum := by
          have := sum_take_mono hnnW (a := i + 1) (b := ws.length) (by omega)
          rwa [List.take_length] at this
        have hsel : selectIdx ws u' = i := selectIdx_unique hnnW hne (le_trans hh hle) hi hl hh
        simp only [LTree.select]
        rw [← hws, hsel]
        exact h6 us' hrest
theorem LTree.selectL_spec : ∀ (ts : List (LTree K)) (i : Nat) (us : List K) (Wi : K),
    (LTree.totals ts)[i]? = some Wi → 0 < Wi → (∀ w ∈ LTree.leavesL ts, 0 ≤ w) →
    (∀ u ∈ us, 0 < u ∧ u ≤ 1) → LTree.depthL ts ≤ us.length →
    SelSpec (LTree.selectL ts i) (LTree.cellL ts i us) (LTree.leavesL ts) Wi us
  | [], i, us, Wi, h, _, _, _, _ => by simp [LTree.totals] at h
  | t :: ts, 0, us, Wi, h, hWi, hnn, hus, hd => by
    simp only [LTree.totals, List.getElem?_cons_zero, Option.some.injEq] at h
    subst h
    simp only [LTree.leavesL, List.mem_append] at hnn
    have hd' : t.depth ≤ us.length := by
      simp only [LTree.depthL] at hd; omega
    obtain ⟨idx, w, h1, h2, h3, h4, h5, h6⟩ :=
      LTree.select_spec t us (fun x hx => hnn x (Or.inl hx)) hWi hus hd'
    refine ⟨idx, w, ?_, ?_, h3, ?_, ?_, ?_⟩
    · simpa [LTree.selectL] using h1
    · simp only [LTree.leavesL]
      have hlt : idx < t.leaves.length := by
        rcases List.getElem?_eq_some_iff.mp h2 with ⟨hl, _⟩; exact hl
      rw [List.getElem?_append_left hlt]; exact h2
    · simpa [LTree.cellL] using h4
    · simpa [LTree.cellL] using h5
    · intro us' hin
      simp only [LTree.cellL] at hin
      simpa [LTree.selectL] using h6 us' hin
  | t :: ts, i + 1, us, Wi, h, hWi, hnn, hus, hd => by
    simp only [LTree.totals, List.getElem?_cons_succ] at h
    simp only [LTree.leavesL, List.mem_append] at hnn
    have hd' : LTree.depthL ts ≤ us.length := by
      simp only [LTree.depthL] at hd; omega
    obtain ⟨idx, w, h1, h2, h3, h4, h5, h6⟩ :=
      LTree.selectL_spec ts i us Wi h hWi (fun x hx => hnn x (Or.inr hx)) hus hd'
    refine ⟨idx + t.leaves.length, w, ?_, ?_, h3, ?_, ?_, ?_⟩
    · simp [LTree.selectL, h1]
    · simp only [LTree.leavesL]
      rw [List.getElem?_append_right (by omega)]
      simpa using h2
    · simpa [LTree.cellL] using h4
    · simpa [LTree.cellL] using h5
    · intro us' hin
      simp only [LTree.cellL] at hin
      simp [LTree.selectL, h6 us' hin]
end

/-! ### exact counts on a midpoint grid -/

omit [HasSqrt K] in
theorem cast_take_sum (ms : List Nat) (i : Nat) :
    ((ms.map (Nat.cast : Nat → K)).take i).sum = (((ms.take i).sum : Nat) : K) := by
  rw [← List.map_take, Nat.cast_list_sum]

omit [HasSqrt K] in
/-- One level, integer weights `ms` with total `T`, the `k`-th midpoint `(2k+1)/(2N)` of a grid of
`N = q·T` cells: part `i` is selected exactly for `q·cum(i−1) ≤ k < q·cum(i)`. -/
theorem selectIdx_midpoint_iff (ms : List Nat) (q : Nat) (hq : 0 < q) (hT : 0 < ms.sum)
    (k : Nat) (hk : k < q * ms.sum) (i : Nat) (hi : i < ms.length) :
    selectIdx (ms.map (Nat.cast : Nat → K)) (((2 * k + 1 : Nat) : K) / ((2 * (q * ms.sum) : Nat) : K)) = i ↔
      q * (ms.take i).sum ≤ k ∧ k < q * (ms.take (i + 1)).sum := by
  set ws := ms.map (Nat.cast : Nat → K) with hws
  have hsum : ws.sum = ((ms.sum : Nat) : K) := by rw [hws, Nat.cast_list_sum]
  have hnn : ∀ w ∈ ws, 0 ≤ w := by
    intro w hw; rw [hws, List.mem_map] at hw; obtain ⟨m, _, rfl⟩ := hw; exact Nat.cast_nonneg m
  have hlen : ws.length = ms.length := by simp [hws]
  have hne : ws ≠ [] := by
    intro h; rw [h] at hlen; simp at hlen; omega
  have hTK : (0 : K) < ((ms.sum : Nat) : K) := by exact_mod_cast hT
  have hqK : (0 : K) < ((q : Nat) : K) := by exact_mod_cast hq
  set u : K := ((2 * k + 1 : Nat) : K) / ((2 * (q * ms.sum) : Nat) : K) with hu
  have huT : u * ws.sum = ((2 * k + 1 : Nat) : K) / ((2 * q : Nat) : K) := by
    have hden : ((2 * (q * ms.sum) : Nat) : K) = ((2 * q : Nat) : K) * ((ms.sum : Nat) : K) := by
      rw [← Nat.cast_mul]; congr 1; ring
    have hT0 : ((ms.sum : Nat) : K) ≠ 0 := ne_of_gt hTK
    have hq0 : ((2 * q : Nat) : K) ≠ 0 := by
      have : (0 : K) < ((2 * q : Nat) : K) := by exact_mod_cast (by omega : 0 < 2 * q)
      exact ne_of_gt this
    rw [hu, hsum, hden]; field_simp
  have h2q : (0 : K) < ((2 * q : Nat) : K) := by exact_mod_cast (by omega : 0 < 2 * q)
  have hule : u * ws.sum ≤ ws.sum := by
    rw [huT, hsum, div_le_iff₀ h2q]
    have : 2 * k + 1 ≤ ms.sum * (2 * q) := by nlinarith
    exact_mod_cast this
  -- comparisons with a cumulative total, in ℕ
  have hlt : ∀ c : Nat, ((c : Nat) : K) < u * ws.sum ↔ q * c ≤ k := by
    intro c
    rw [huT, lt_div_iff₀ h2q]
    have : ((c : Nat) : K) * ((2 * q : Nat) : K) = ((c * (2 * q) : Nat) : K) := by push_cast; ring
    rw [this, Nat.cast_lt]
    generalize hqc : q * c = a
    have : c * (2 * q) = 2 * a := by rw [← hqc]; ring
    omega
  have hle : ∀ c : Nat, u * ws.sum ≤ ((c : Nat) : K) ↔ k < q * c := by
    intro c
    rw [huT, div_le_iff₀ h2q]
    have : ((c : Nat) : K) * ((2 * q : Nat) : K) = ((c * (2 * q) : Nat) : K) := by push_cast; ring
    rw [this, Nat.cast_le]
    generalize hqc : q * c = a
    have : c * (2 * q) = 2 * a := by rw [← hqc]; ring
    omega
  constructor
  · intro hsel
    obtain ⟨_, h2, h3⟩ := selectIdx_spec hnn hne hule
    rw [hsel, hws, cast_take_sum, ← hws, hle] at h2
    refine ⟨?_, h2⟩
    rcases Nat.eq_zero_or_pos i with h0 | h0
    · simp [h0]
    · have := h3 (i - 1) (by omega)
      rw [show i - 1 + 1 = i by omega, hws, cast_take_sum, ← hws, hlt] at this
      exact this
  · rintro ⟨hlo, hhi⟩
    apply selectIdx_unique hnn hne hule (by omega)
    · rw [hws, cast_take_sum, ← hws, hlt]; exact hlo
    · rw [hws, cast_take_sum, ← hws, hle]; exact hhi

omit [HasSqrt K] in
/-- **Exact proportionality on a midpoint grid** (one level): of the `N = q·T` midpoints exactly
`q·mᵢ = N·mᵢ/T` select part `i`. -/
theorem selectIdx_midpoint_count (ms : List Nat) (q : Nat) (hq : 0 < q) (hT : 0 < ms.sum)
    (i : Nat) (hi : i < ms.length) :
    ((Finset.range (q * ms.sum)).filter (fun k =>
      selectIdx (ms.map (Nat.cast : Nat → K)) (((2 * k + 1 : Nat) : K) / ((2 * (q * ms.sum) : Nat) : K)) = i)).card
      = q * ms[i] := by
  have hmono : (ms.take (i + 1)).sum ≤ ms.sum := by
    conv_rhs => rw [← List.take_append_drop (i + 1) ms]
    rw [List.sum_append]; omega
  have : (Finset.range (q * ms.sum)).filter (fun k =>
      selectIdx (ms.map (Nat.cast : Nat → K)) (((2 * k + 1 : Nat) : K) / ((2 * (q * ms.sum) : Nat) : K)) = i)
      = Finset.Ico (q * (ms.take i).sum) (q * (ms.take (i + 1)).sum) := by
    ext k
    simp only [Finset.mem_filter, Finset.mem_range, Finset.mem_Ico]
    constructor
    · rintro ⟨hk, hsel⟩
      exact (selectIdx_midpoint_iff ms q hq hT k hk i hi).mp hsel
    · rintro ⟨hlo, hhi⟩
      have hk : k < q * ms.sum := lt_of_lt_of_le hhi (Nat.mul_le_mul_left q hmono)
      exact ⟨hk, (selectIdx_midpoint_iff ms q hq hT k hk i hi).mpr ⟨hlo, hhi⟩⟩
  rw [this, Nat.card_Ico, List.sum_take_succ ms i hi, Nat.mul_add]
  omega

end M3d.RS

/-! ### exact counts on the full midpoint grid, any nesting -/
namespace M3d.RS
variable {K : Type} [Field K] [LinearOrder K] [IsStrictOrderedRing K] [HasSqrt K]

mutual
/-- Integer weights read as scalars. -/
def LTree.castK : LTree Nat → LTree K
  | .leaf m => .leaf (m : K)
  | .join ts => .join (LTree.castKL ts)
def LTree.castKL : List (LTree Nat) → List (LTree K)
  | [] => []
  | t :: ts => t.castK :: LTree.castKL ts
end

mutual
/-- Total integer weight. -/
def LTree.wt : LTree Nat → Nat
  | .leaf m => m
  | .join ts => (LTree.wts ts).sum
def LTree.wts : List (LTree Nat) → List Nat
  | [] => []
  | t :: ts => t.wt :: LTree.wts ts
end

mutual
/-- The integer weights of the primitive lights, left to right. -/
def LTree.leavesN : LTree Nat → List Nat
  | .leaf m => [m]
  | .join ts => LTree.leavesNL ts
def LTree.leavesNL : List (LTree Nat) → List Nat
  | [] => []
  | t :: ts => t.leavesN ++ LTree.leavesNL ts
end

mutual
def LTree.depthN : LTree Nat → Nat
  | .leaf _ => 0
  | .join ts => LTree.depthNL ts + 1
def LTree.depthNL : List (LTree Nat) → Nat
  | [] => 0
  | t :: ts => max t.depthN (LTree.depthNL ts)
end

mutual
/-- Every join of the tree has a positive total that divides the grid size `N`. -/
def LTree.gridOK (N : Nat) : LTree Nat → Prop
  | .leaf _ => True
  | .join ts => (0 < (LTree.wts ts).sum ∧ (LTree.wts ts).sum ∣ N) ∧ LTree.gridOKL N ts
def LTree.gridOKL (N : Nat) : List (LTree Nat) → Prop
  | [] => True
  | t :: ts => t.gridOK N ∧ LTree.gridOKL N ts
end

theorem LTree.totals_castKL : ∀ ts : List (LTree Nat),
    LTree.totals (LTree.castKL (K := K) ts) = (LTree.wts ts).map (Nat.cast : Nat → K)
  | [] => by simp [LTree.castKL, LTree.totals, LTree.wts]
  | .leaf m :: ts => by
    simp [LTree.castKL, LTree.castK, LTree.totals, LTree.total, LTree.wts, LTree.wt, LTree.totals_castKL ts]
  | .join us :: ts => by
    simp only [LTree.castKL, LTree.castK, LTree.totals, LTree.total, LTree.wts, LTree.wt, List.map_cons,
      LTree.totals_castKL ts, LTree.totals_castKL us, total_eq_sum, Nat.cast_list_sum]

mutual
theorem LTree.leaves_castK_length : ∀ t : LTree Nat, (t.castK (K := K)).leaves.length = t.leavesN.length
  | .leaf m => by simp [LTree.castK, LTree.leaves, LTree.leavesN]
  | .join ts => by
    simp only [LTree.castK, LTree.leaves, LTree.leavesN]; exact LTree.leavesL_castKL_length ts
theorem LTree.leavesL_castKL_length : ∀ ts : List (LTree Nat),
    (LTree.leavesL (LTree.castKL (K := K) ts)).length = (LTree.leavesNL ts).length
  | [] => by simp [LTree.castKL, LTree.leavesL, LTree.leavesNL]
  | t :: ts => by
    simp [LTree.castKL, LTree.leavesL, LTree.leavesNL, LTree.leaves_castK_length t,
      LTree.leavesL_castKL_length ts]
end

mutual
/-- `SampleLight` always reaches one of the tree's lights. -/
theorem LTree.select_lt : ∀ (t : LTree K) (us : List K) (idx : Nat), t.select us = some idx →
    idx < t.leaves.length
  | .leaf w, us, idx, h => by
    simp only [LTree.select, Option.some.injEq] at h; subst h; simp [LTree.leaves]
  | .join ts, [], idx, h => by simp [LTree.select] at h
  | .join ts, u :: us, idx, h => by
    simp only [LTree.select] at h
    simpa [LTree.leaves] using LTree.selectL_lt ts _ us idx h
theorem LTree.selectL_lt : ∀ (ts : List (LTree K)) (i : Nat) (us : List K) (idx : Nat),
    LTree.selectL ts i us = some idx → idx < (LTree.leavesL ts).length
  | [], i, us, idx, h => by simp [LTree.selectL] at h
  | t :: ts, 0, us, idx, h => by
    simp only [LTree.selectL] at h
    have := LTree.select_lt t us idx h
    simp only [LTree.leavesL, List.length_append]; omega
  | t :: ts, i + 1, us, idx, h => by
    simp only [LTree.selectL, Option.map_eq_some_iff] at h
    obtain ⟨a, ha, rfl⟩ := h
    have := LTree.selectL_lt ts i us a ha
    simp only [LTree.leavesL, List.length_append]; omega
end

/-- The `k`-th midpoint of a grid of `N` cells. -/
def mid (N k : Nat) : K := ((2 * k + 1 : Nat) : K) / ((2 * N : Nat) : K)

/-- All `N^d` vectors of cell indices. -/
def gridVecs (N : Nat) : Nat → List (List Nat)
  | 0 => [[]]
  | d + 1 => (List.range N).flatMap fun k => (gridVecs N d).map (k :: ·)

/-- Number of grid vectors (of midpoints) for which `sel` answers `idx`. -/
def gridCount (N : Nat) (sel : List K → Option Nat) (d idx : Nat) : Nat :=
  (gridVecs N d).countP fun v => decide (sel (v.map (mid N)) = some idx)

omit [HasSqrt K] [LinearOrder K] [IsStrictOrderedRing K] in
theorem gridVecs_length (N d : Nat) : (gridVecs N d).length = N ^ d := by
  induction d with
  | zero => simp [gridVecs]
  | succ d ih =>
    simp only [gridVecs, List.length_flatMap, List.length_map, ih, List.map_const', List.sum_replicate,
      List.length_range, smul_eq_mul]
    ring

theorem sum_map_range (f : Nat → Nat) (n : Nat) :
    ((List.range n).map f).sum = ∑ k ∈ Finset.range n, f k := by
  induction n with
  | zero => simp
  | succ n ih => simp [List.range_succ, Finset.sum_range_succ, ih]

omit [HasSqrt K] [LinearOrder K] [IsStrictOrderedRing K] in
theorem gridCount_succ (N : Nat) (sel : List K → Option Nat) (d idx : Nat) :
    gridCount N sel (d + 1) idx = ∑ k ∈ Finset.range N, gridCount N (fun us => sel (mid N k :: us)) d idx := by
  simp only [gridCount, gridVecs, List.countP_flatMap]
  rw [← sum_map_range]
  congr 1
  apply List.map_congr_left
  intro k _
  simp only [Function.comp, List.countP_map]
  congr 1

omit [HasSqrt K] [LinearOrder K] [IsStrictOrderedRing K] in
theorem gridCount_const (N : Nat) (a : Option Nat) (d idx : Nat) :
    gridCount (K := K) N (fun _ => a) d idx = if a = some idx then N ^ d else 0 := by
  simp only [gridCount]
  split_ifs with h
  · simp [h, gridVecs_length]
  · simp [h]

omit [HasSqrt K] [LinearOrder K] [IsStrictOrderedRing K] in
theorem gridCount_zero_of_ne (N : Nat) (sel : List K → Option Nat) (d idx : Nat)
    (h : ∀ us, sel us ≠ some idx) : gridCount N sel d idx = 0 := by
  simp only [gridCount, List.countP_eq_zero]
  intro v _; simp [h]

omit [HasSqrt K] [LinearOrder K] [IsStrictOrderedRing K] in
theorem gridCount_map_add (N : Nat) (sel : List K → Option Nat) (L d idx : Nat) :
    gridCount N (fun us => (sel us).map (· + L)) d idx =
      if L ≤ idx then gridCount N sel d (idx - L) else 0 := by
  simp only [gridCount]
  split_ifs with h
  · congr 1; funext v
    simp only [Option.map_eq_some_iff, decide_eq_decide]
    constructor
    · rintro ⟨a, ha, hb⟩; rw [ha]; congr 1; omega
    · intro ha; exact ⟨idx - L, ha, by omega⟩
  · simp only [List.countP_eq_zero]
    intro v _
    simp only [Option.map_eq_some_iff, decide_eq_true_eq, not_exists, not_and]
    intro a _ hb; omega

end M3d.RS

namespace M3d.RS
variable {K : Type} [Field K] [LinearOrder K] [IsStrictOrderedRing K] [HasSqrt K]

omit [HasSqrt K] in
/-- On a midpoint the selected part is always a valid index. -/
theorem selectIdx_midpoint_lt (ms : List Nat) (q : Nat) (hq : 0 < q) (hT : 0 < ms.sum)
    (k : Nat) (hk : k < q * ms.sum) :
    selectIdx (ms.map (Nat.cast : Nat → K)) (mid (q * ms.sum) k) < ms.length := by
  by_contra hcon
  -- some part's interval contains `k`; by `selectIdx_midpoint_iff` that part is the selected one
  have hex : ∃ i, i < ms.length ∧ q * (ms.take i).sum ≤ k ∧ k < q * (ms.take (i + 1)).sum := by
    by_contra hno
    have hall : ∀ i, i ≤ ms.length → q * (ms.take i).sum ≤ k := by
      intro i
      induction i with
      | zero => intro _; simp
      | succ i ih =>
        intro hi
        have h1 := ih (by omega)
        by_contra h2
        exact hno ⟨i, by omega, h1, by omega⟩
    have := hall ms.length le_rfl
    rw [List.take_length] at this
    omega
  obtain ⟨i, hi, hlo, hhi⟩ := hex
  have := (selectIdx_midpoint_iff (K := K) ms q hq hT k hk i hi).mpr ⟨hlo, hhi⟩
  simp only [mid] at hcon
  rw [this] at hcon
  exact hcon hi

omit [HasSqrt K] in
/-- Summing a function of the selected part over all midpoints: part `i` is met `q·mᵢ` times. -/
theorem sum_over_midpoints (ms : List Nat) (q : Nat) (hq : 0 < q) (hT : 0 < ms.sum) (g : Nat → Nat) :
    ∑ k ∈ Finset.range (q * ms.sum), g (selectIdx (ms.map (Nat.cast : Nat → K)) (mid (q * ms.sum) k)) =
      ∑ i ∈ Finset.range ms.length, q * ms.getD i 0 * g i := by
  rw [← Finset.sum_fiberwise_of_maps_to (s := Finset.range (q * ms.sum)) (t := Finset.range ms.length)
    (g := fun k => selectIdx (ms.map (Nat.cast : Nat → K)) (mid (q * ms.sum) k))
    (f := fun k => g (selectIdx (ms.map (Nat.cast : Nat → K)) (mid (q * ms.sum) k)))]
  · apply Finset.sum_congr rfl
    intro i hi
    rw [Finset.mem_range] at hi
    have hcard : ((Finset.range (q * ms.sum)).filter (fun k =>
        selectIdx (ms.map (Nat.cast : Nat → K)) (mid (q * ms.sum) k) = i)).card = q * ms[i] :=
      selectIdx_midpoint_count (K := K) ms q hq hT i hi
    rw [Finset.sum_congr rfl (g := fun _ => g i)]
    · rw [Finset.sum_const, smul_eq_mul, hcard]
      simp [List.getD_eq_getElem?_getD, hi]
    · intro k hk
      rw [Finset.mem_filter] at hk
      rw [hk.2]
  · intro k hk
    rw [Finset.mem_range] at hk ⊢
    exact selectIdx_midpoint_lt ms q hq hT k hk

theorem LTree.wts_length (ts : List (LTree Nat)) : (LTree.wts ts).length = ts.length := by
  induction ts with
  | nil => rfl
  | cons t ts ih => simp [LTree.wts, ih]

mutual
/-- **Exact proportionality on the full midpoint grid, any nesting**: if every join of the tree has
a positive integer total dividing `N`, then of the `N^d` vectors of midpoints (`d ≥` the depth)
exactly `N^d · m / T` reach a light of weight `m` (`T` the total): `count · T = N^d · m`. -/
theorem LTree.gridCount_spec (N : Nat) : ∀ (t : LTree Nat) (d idx m : Nat), t.gridOK N → t.depthN ≤ d →
    t.leavesN[idx]? = some m →
    gridCount N (t.castK (K := K)).select d idx * t.wt = N ^ d * m
  | .leaf m0, d, idx, m, _, _, hm => by
    have hsel : (LTree.castK (K := K) (.leaf m0)).select = fun _ => some 0 := by
      funext us; simp [LTree.castK, LTree.select]
    rw [hsel, gridCount_const]
    simp only [LTree.leavesN] at hm
    cases idx with
    | zero =>
      simp only [List.getElem?_cons_zero, Option.some.injEq] at hm
      subst hm; simp [LTree.wt]
    | succ i => simp at hm
  | .join ts, 0, idx, m, _, hd, _ => by simp [LTree.depthN] at hd
  | .join ts, d + 1, idx, m, hok, hd, hm => by
    obtain ⟨⟨hpos, q, hq⟩, hokL⟩ := hok
    have hd' : LTree.depthNL ts ≤ d := by simp only [LTree.depthN] at hd; omega
    have hm' : (LTree.leavesNL ts)[idx]? = some m := by simpa [LTree.leavesN] using hm
    have hsel : ∀ k, (fun us => (LTree.castK (K := K) (.join ts)).select (mid N k :: us)) =
        LTree.selectL (LTree.castKL ts) (selectIdx ((LTree.wts ts).map (Nat.cast : Nat → K)) (mid N k)) := by
      intro k; funext us; simp only [LTree.castK, LTree.select, LTree.totals_castKL]
    rw [gridCount_succ]
    simp only [hsel, LTree.wt]
    rcases Nat.eq_zero_or_pos q with h0 | hq0
    · subst h0
      simp only [Nat.mul_zero] at hq
      subst hq
      simp
    · have hN : N = q * (LTree.wts ts).sum := by rw [hq, Nat.mul_comm]
      have hsum := sum_over_midpoints (K := K) (LTree.wts ts) q hq0 hpos
        (fun i => gridCount N (LTree.selectL (LTree.castKL (K := K) ts) i) d idx)
      rw [← hN, LTree.wts_length] at hsum
      rw [hsum]
      have hB := LTree.gridCountL_spec N ts d idx m hokL hd' hm'
      have hpow : N ^ (d + 1) = N ^ d * (q * (LTree.wts ts).sum) := by rw [pow_succ, ← hN]
      rw [hpow]
      calc (∑ i ∈ Finset.range ts.length, q * (LTree.wts ts).getD i 0 *
              gridCount N (LTree.selectL (LTree.castKL (K := K) ts) i) d idx) * (LTree.wts ts).sum
          = q * (∑ i ∈ Finset.range ts.length, (LTree.wts ts).getD i 0 *
              gridCount N (LTree.selectL (LTree.castKL (K := K) ts) i) d idx) * (LTree.wts ts).sum := by
            rw [Finset.mul_sum]; congr 1
            apply Finset.sum_congr rfl; intro i _; ring
        _ = N ^ d * (q * (LTree.wts ts).sum) * m := by rw [hB]; ring
theorem LTree.gridCountL_spec (N : Nat) : ∀ (ts : List (LTree Nat)) (d idx m : Nat), LTree.gridOKL N ts →
    LTree.depthNL ts ≤ d → (LTree.leavesNL ts)[idx]? = some m →
    ∑ i ∈ Finset.range ts.length,
      (LTree.wts ts).getD i 0 * gridCount N (LTree.selectL (LTree.castKL (K := K) ts) i) d idx = N ^ d * m
  | [], d, idx, m, _, _, hm => by simp [LTree.leavesNL] at hm
  | t :: rest, d, idx, m, hok, hd, hm => by
    obtain ⟨hokt, hokr⟩ := hok
    have hdt : t.depthN ≤ d := by simp only [LTree.depthNL] at hd; omega
    have hdr : LTree.depthNL rest ≤ d := by simp only [LTree.depthNL] at hd; omega
    rw [List.length_cons, Finset.sum_range_succ']
    have h0 : LTree.selectL (LTree.castKL (K := K) (t :: rest)) 0 = (t.castK (K := K)).select := by
      funext us; simp [LTree.castKL, LTree.selectL]
    have hs : ∀ i, LTree.selectL (LTree.castKL (K := K) (t :: rest)) (i + 1) =
        fun us => (LTree.selectL (LTree.castKL (K := K) rest) i us).map (· + t.leavesN.length) := by
      intro i; funext us; simp [LTree.castKL, LTree.selectL, LTree.leaves_castK_length]
    simp only [h0, hs, gridCount_map_add, LTree.wts, List.getD_cons_zero, List.getD_cons_succ]
    simp only [LTree.leavesNL] at hm
    by_cases hL : idx < t.leavesN.length
    · rw [List.getElem?_append_left hL] at hm
      have hA := LTree.gridCount_spec N t d idx m hokt hdt hm
      have hn : ¬ t.leavesN.length ≤ idx := by omega
      simp only [hn, if_false, mul_zero, Finset.sum_const_zero, zero_add]
      rw [mul_comm]; exact hA
    · have hL' : t.leavesN.length ≤ idx := by omega
      rw [List.getElem?_append_right hL'] at hm
      have hB := LTree.gridCountL_spec N rest d (idx - t.leavesN.length) m hokr hdr hm
      simp only [hL', if_true]
      rw [hB]
      have hz : gridCount N (t.castK (K := K)).select d idx = 0 := by
        apply gridCount_zero_of_ne
        intro us h
        have := LTree.select_lt _ us idx h
        rw [LTree.leaves_castK_length] at this; omega
      rw [hz]; simp
end

end M3d.RS
