import M3d.Gen.C01Margin
import M3d.Props.C01
import Mathlib.Tactic.Linarith
import Mathlib.Tactic.Positivity
import Mathlib.Algebra.Order.Field.Basic
/-!
# Tie of the coarse-to-fine contract to the source (property C01)

`M3d/Gen/C01Margin.lean` is REGENERATED on every C01 check (go/ast over `MarchingSquaresC2F` in
model2d/marching.go and `MarchingCubesC2F` in model3d/mc.go): it holds, as a function of the caller's
`extraSpace`, the literal value by which the code expands a fine block's bounds before testing them
against the coarse mesh.  The theorems below re-prove, against the current text, the documented contract

  *the space considered around the coarse mesh is at least the caller's `extraSpace` plus two coarse
  spacings* (`extraSpace` is "extra space to consider around the coarse mesh"; two coarse spacings are what
  the built-in "conservative amount of space" has to bridge: the coarse cell the coarse mesh runs through
  plus the neighbouring one),

and instantiate the covering theorems with it: under the documented cover (`seenAll2/3 m (m+E)` with
`E·smallDelta ≤ extraSpace`) the C2F output is watertight.  An edit that sizes the margin with the fine
spacing, drops below two coarse spacings, or discards the caller's `extraSpace` (`=` for `+=`) breaks
these proofs.

`math.Sqrt` is an uninterpreted function with the two facts used: `sqrt x · sqrt x = x` and
`0 ≤ sqrt x` for `0 ≤ x`.
-/
namespace M3d.C01MarginTie
open M3d.GenPrelude M3d.Gen.C01Margin

variable {K : Type} [Field K] [LinearOrder K] [IsStrictOrderedRing K]

/-- `MarchingSquaresC2F`: for `bigDelta ≥ 0` and every `e ≤ extraSpace` the bounds of a fine block are
expanded by at least `e + 2·bigDelta`, whatever `smallDelta` is. -/
theorem ms_total_ge_extra_plus_two_coarse (sq : K → K)
    (hsq : ∀ x : K, 0 ≤ x → sq x * sq x = x ∧ 0 ≤ sq x) (bigDelta smallDelta extraSpace e : K)
    (hΔ : 0 ≤ bigDelta) (he : e ≤ extraSpace) :
    (letI : HasSqrt K := ⟨sq⟩; e + 2 * bigDelta ≤ msTotal bigDelta smallDelta extraSpace) := by
  obtain ⟨h3, h3p⟩ := hsq 3 (by norm_num)
  have h1 : 1 ≤ sq 3 := by nlinarith
  obtain ⟨h2, h2p⟩ := hsq 2 (by norm_num)
  have h1' : 1 ≤ sq 2 := by nlinarith
  simp only [msTotal]
  nlinarith [mul_nonneg hΔ (sub_nonneg.2 h1), mul_nonneg hΔ (sub_nonneg.2 h1')]

/-- `MarchingCubesC2F`: the same. -/
theorem mc_total_ge_extra_plus_two_coarse (sq : K → K)
    (hsq : ∀ x : K, 0 ≤ x → sq x * sq x = x ∧ 0 ≤ sq x) (bigDelta smallDelta extraSpace e : K)
    (hΔ : 0 ≤ bigDelta) (he : e ≤ extraSpace) :
    (letI : HasSqrt K := ⟨sq⟩; e + 2 * bigDelta ≤ mcTotal bigDelta smallDelta extraSpace) := by
  obtain ⟨h3, h3p⟩ := hsq 3 (by norm_num)
  have h1 : 1 ≤ sq 3 := by nlinarith
  obtain ⟨h2, h2p⟩ := hsq 2 (by norm_num)
  have h1' : 1 ≤ sq 2 := by nlinarith
  simp only [mcTotal]
  nlinarith [mul_nonneg hΔ (sub_nonneg.2 h1), mul_nonneg hΔ (sub_nonneg.2 h1')]

open M3d.Marching M3d.Partition M3d.Gen M3d.C2F M3d.C12 M3d.C01 in
/-- **`MarchingSquaresC2F`, with the expansion AS WRITTEN IN THE SOURCE (regenerated), is closed under the
documented cover** (`M3d.C01.c2f_ms_closed_under_documented_cover` instantiated with the code's own
expansion): for every ratio `m`, every `E` with `E·smallDelta ≤ extraSpace`, every solid, every worker
schedule — if every fine sign-change cell lies within `E` fine steps plus one coarse cell of a coarse
sign-change cell (what the driver evaluates on every `msc2f` case), every point of the C2F output starts
as many segments as it ends, and at most one. -/
theorem c2f_ms_closed_code_margin (sq : K → K)
    (hsq : ∀ x : K, 0 ≤ x → sq x * sq x = x ∧ 0 ≤ sq x)
    (m E nx ny cnx cny : Nat) (labF labC : Nat → Nat → Bool)
    (hb : ∀ x y, (x = 0 ∨ y = 0 ∨ nx ≤ x ∨ ny ≤ y) → labF x y = false)
    (g : Block2 → Bool) (sched : List (List Block2))
    (hs : Schedule2 (blockQueue2 g (rootBlock2 nx ny)) sched)
    (hseen : seenAll2 m (m + E) labF labC nx ny cnx cny = true)
    (fx fy δ ε extraSpace : K) (hδ : 0 ≤ δ) (hε : 0 ≤ ε) (hE : (E : K) * δ ≤ extraSpace)
    (verts : List (K × K))
    (hverts : ∀ J ∈ coarseMixed2 labC cnx cny, ∃ v ∈ verts,
      (coarseCoord fx δ m J.1 ≤ v.1 ∧ v.1 ≤ coarseCoord fx δ m J.1 + (m : K) * δ) ∧
      (coarseCoord fy δ m J.2 ≤ v.2 ∧ v.2 ≤ coarseCoord fy δ m J.2 + (m : K) * δ))
    (hg : letI : HasSqrt K := ⟨sq⟩
      ∀ b, C2FKeeps2 verts fx fy δ ε (msTotal ((m : K) * δ) δ extraSpace) b → g b = true) (v : GV2) :
    cnt false (msFilterMesh msTable labF g sched) v = cnt true (msFilterMesh msTable labF g sched) v ∧
    cnt false (msFilterMesh msTable labF g sched) v ≤ 1 :=
  c2f_ms_closed_under_documented_cover m E nx ny cnx cny labF labC hb g sched hs hseen fx fy δ ε _ hδ hε
    verts hverts
    (ms_total_ge_extra_plus_two_coarse sq hsq ((m : K) * δ) δ extraSpace ((E : K) * δ) (by positivity) hE)
    hg v

open M3d.Marching M3d.Partition M3d.Gen M3d.C2F M3d.C12 M3d.C01 in
/-- **3-D twin: `MarchingCubesC2F` with the regenerated expansion is edge-balanced under the documented
cover.** -/
theorem c2f_mc_balanced_code_margin (sq : K → K)
    (hsq : ∀ x : K, 0 ≤ x → sq x * sq x = x ∧ 0 ≤ sq x)
    (m E nx ny nz cnx cny cnz : Nat) (labF labC : Nat → Nat → Nat → Bool)
    (hb : ∀ x y z, (x = 0 ∨ y = 0 ∨ z = 0 ∨ nx ≤ x ∨ ny ≤ y ∨ nz ≤ z) → labF x y z = false)
    (g : Block → Bool) (sched : List (List Block))
    (hs : Schedule (blockQueue g (rootBlock nx ny nz)) sched)
    (hseen : seenAll3 m (m + E) labF labC nx ny nz cnx cny cnz = true)
    (fx fy fz δ ε extraSpace : K) (hδ : 0 ≤ δ) (hε : 0 ≤ ε) (hE : (E : K) * δ ≤ extraSpace)
    (verts : List (K × K × K))
    (hverts : ∀ J ∈ coarseMixed3 labC cnx cny cnz, ∃ v ∈ verts,
      (coarseCoord fx δ m J.1 ≤ v.1 ∧ v.1 ≤ coarseCoord fx δ m J.1 + (m : K) * δ) ∧
      (coarseCoord fy δ m J.2.1 ≤ v.2.1 ∧ v.2.1 ≤ coarseCoord fy δ m J.2.1 + (m : K) * δ) ∧
      (coarseCoord fz δ m J.2.2 ≤ v.2.2 ∧ v.2.2 ≤ coarseCoord fz δ m J.2.2 + (m : K) * δ))
    (hg : letI : HasSqrt K := ⟨sq⟩
      ∀ b, C2FKeeps3 verts fx fy fz δ ε (mcTotal ((m : K) * δ) δ extraSpace) b → g b = true) (U V : GV) :
    ecnt (mcFilterMesh mcTable labF g sched) (U, V) = ecnt (mcFilterMesh mcTable labF g sched) (V, U) ∧
    ecnt (mcFilterMesh mcTable labF g sched) (U, V) ≤ 1 :=
  c2f_mc_edges_balanced_under_documented_cover m E nx ny nz cnx cny cnz labF labC hb g sched hs hseen
    fx fy fz δ ε _ hδ hε verts hverts
    (mc_total_ge_extra_plus_two_coarse sq hsq ((m : K) * δ) δ extraSpace ((E : K) * δ) (by positivity) hE)
    hg U V

end M3d.C01MarginTie
