import M3d.Lemmas.DualContour
import Mathlib.Algebra.Order.Field.Basic
import Mathlib.Tactic.Linarith
import Mathlib.Tactic.Ring
import Mathlib.Tactic.NormNum
import Mathlib.Tactic.Positivity
/-!
# Dual contouring: a quad meets no lattice edge but its own (C02)

The four vertices of the quad of a lattice edge `e` lie strictly inside the four cells round `e`
(`Clip`, `dc_clip_in_cell`), hence inside the *open block* `B = (a,c) × (d,f) × (g,h)` made of those
four cells, where — `e` running along the third axis — `a < b < c` and `d < e' < f` are three
consecutive lattice values of the two other axes (`e` sits at `(b, e')`) and `g < h` are the two
consecutive lattice values at the ends of `e`.  `B` is convex, so both triangles of either
triangulation lie in `B` (`tri_in_block`); and the only points of `B` that lie on a lattice line at
all are points of `e` itself (`block_lattice_point_on_own_edge`).  So the surface built from the
quads crosses a lattice edge only with that edge's own quad — the bridge from the per-quad statement
`dc_quad_crossed_once` to "every lattice edge is crossed exactly once iff its ends differ".
The other two edge directions are the same statement with the coordinates permuted.
-/
namespace M3d.DcBlock
set_option linter.unusedSectionVars false

variable {K : Type} [Field K] [LinearOrder K] [IsStrictOrderedRing K]

/-- the open block `(a,c) × (d,f) × (g,h)` -/
def InBlock (a c d f g h : K) (p : K × K × K) : Prop :=
  a < p.1 ∧ p.1 < c ∧ d < p.2.1 ∧ p.2.1 < f ∧ g < p.2.2 ∧ p.2.2 < h

/-- `u·p0 + v·p1 + w·p2` -/
def comb (u v w : K) (p0 p1 p2 : K × K × K) : K × K × K :=
  (u * p0.1 + v * p1.1 + w * p2.1, u * p0.2.1 + v * p1.2.1 + w * p2.2.1, u * p0.2.2 + v * p1.2.2 + w * p2.2.2)

theorem comb_lt (u v w x0 x1 x2 c : K) (hu : 0 ≤ u) (hv : 0 ≤ v) (hw : 0 ≤ w) (hs : u + v + w = 1)
    (h0 : x0 < c) (h1 : x1 < c) (h2 : x2 < c) : u * x0 + v * x1 + w * x2 < c := by
  have e : c = u * c + v * c + w * c := by rw [← add_mul, ← add_mul, hs, one_mul]
  have a0 : u * x0 ≤ u * c := mul_le_mul_of_nonneg_left h0.le hu
  have a1 : v * x1 ≤ v * c := mul_le_mul_of_nonneg_left h1.le hv
  have a2 : w * x2 ≤ w * c := mul_le_mul_of_nonneg_left h2.le hw
  -- one of the weights is positive, there the inequality is strict
  rcases lt_or_eq_of_le hu with pu | zu
  · have : u * x0 < u * c := mul_lt_mul_of_pos_left h0 pu
    linarith
  · rcases lt_or_eq_of_le hv with pv | zv
    · have : v * x1 < v * c := mul_lt_mul_of_pos_left h1 pv
      linarith
    · have pw : 0 < w := by linarith
      have : w * x2 < w * c := mul_lt_mul_of_pos_left h2 pw
      linarith

theorem lt_comb (u v w x0 x1 x2 a : K) (hu : 0 ≤ u) (hv : 0 ≤ v) (hw : 0 ≤ w) (hs : u + v + w = 1)
    (h0 : a < x0) (h1 : a < x1) (h2 : a < x2) : a < u * x0 + v * x1 + w * x2 := by
  have h := comb_lt u v w (-x0) (-x1) (-x2) (-a) hu hv hw hs (by linarith) (by linarith) (by linarith)
  have e : u * -x0 + v * -x1 + w * -x2 = -(u * x0 + v * x1 + w * x2) := by ring
  rw [e] at h
  linarith

/-- **Convexity**: a triangle whose three vertices lie in the open block lies in the open block. -/
theorem tri_in_block (a c d f g h : K) (p0 p1 p2 : K × K × K)
    (h0 : InBlock a c d f g h p0) (h1 : InBlock a c d f g h p1) (h2 : InBlock a c d f g h p2)
    (u v w : K) (hu : 0 ≤ u) (hv : 0 ≤ v) (hw : 0 ≤ w) (hs : u + v + w = 1) :
    InBlock a c d f g h (comb u v w p0 p1 p2) := by
  obtain ⟨a0, b0, c0, d0, e0, f0⟩ := h0
  obtain ⟨a1, b1, c1, d1, e1, f1⟩ := h1
  obtain ⟨a2, b2, c2, d2, e2, f2⟩ := h2
  unfold InBlock comb
  exact ⟨lt_comb u v w _ _ _ a hu hv hw hs a0 a1 a2, comb_lt u v w _ _ _ c hu hv hw hs b0 b1 b2,
    lt_comb u v w _ _ _ d hu hv hw hs c0 c1 c2, comb_lt u v w _ _ _ f hu hv hw hs d0 d1 d2,
    lt_comb u v w _ _ _ g hu hv hw hs e0 e1 e2, comb_lt u v w _ _ _ h hu hv hw hs f0 f1 f2⟩

/-- A point of a lattice edge has (at least) two lattice coordinates: `LX`, `LY`, `LZ` are the sets of
lattice values of the three axes. -/
def OnLatticeLine (LX LY LZ : K → Prop) (q : K × K × K) : Prop :=
  (LX q.1 ∧ LY q.2.1) ∨ (LX q.1 ∧ LZ q.2.2) ∨ (LY q.2.1 ∧ LZ q.2.2)

/-- **The open block round an edge meets no other lattice edge.**  `b` is the only lattice value
of the first axis strictly between `a` and `c`, `e` the only one of the second axis strictly between
`d` and `f`, and there is none of the third axis strictly between `g` and `h` (consecutive lattice
values).  Then a point of the block that lies on any lattice line lies on the line `x = b, y = e` of
the block's own edge, between its two ends. -/
theorem block_lattice_point_on_own_edge (LX LY LZ : K → Prop) (a b c d e f g h : K)
    (hx : ∀ v, LX v → a < v → v < c → v = b) (hy : ∀ v, LY v → d < v → v < f → v = e)
    (hz : ∀ v, LZ v → g < v → v < h → False)
    (q : K × K × K) (hq : InBlock a c d f g h q) (hl : OnLatticeLine LX LY LZ q) :
    q.1 = b ∧ q.2.1 = e ∧ g < q.2.2 ∧ q.2.2 < h := by
  obtain ⟨q1, q2, q3, q4, q5, q6⟩ := hq
  rcases hl with ⟨lx, ly⟩ | ⟨_, lz⟩ | ⟨_, lz⟩
  · exact ⟨hx _ lx q1 q2, hy _ ly q3 q4, q5, q6⟩
  · exact (hz _ lz q5 q6).elim
  · exact (hz _ lz q5 q6).elim

/-- non-vacuity: the integer lattice, the edge from `(0,0,0)` to `(0,0,1)`, block `(-1,1)²×(0,1)` -/
example : InBlock (-1 : ℚ) 1 (-1) 1 0 1 (1 / 2, -1 / 2, 1 / 2) := by
  unfold InBlock; norm_num

/-! ### `Repair`: the midpoint inserted on a singular edge stays between the edge's ends

Projected along a grid edge `g` of the face shared by the two cubes of a singular mesh edge `A–B`
(`g` at the origin): `A = (−a₁, a₂)` and `B = (b₁, b₂)` lie in two neighbouring open quadrants, at
least `m` away from both coordinate axes (the faces of their cubes: `singularEdgeGroup.Constrain`
with margin `m`).  `Repair` replaces the edge by two edges through a new vertex
`N = (A+B)/2 + ε·dir`, `dir` a unit vector (here only `|dir.x|, |dir.z| ≤ 1` is used).  If
`m > 2ε` then `N` is strictly between `A` and `B` as seen from `g` (`cross2 N A > 0`, `cross2 B N > 0`):
the fan of the quad round `g` keeps its cyclic order, every sub-triangle keeps the orientation of
the triangle it replaces, and `g` is still crossed once.  With `m = ε` — the margin before the repair
of /repo (commit 08bc264) — `N` can pass `B` (`repair_midpoint_old_margin_fails`): the surface folds
over `g`, which is then crossed three times. -/

open M3d.DC in
theorem repair_midpoint_between (a1 a2 b1 b2 m eps dx dz : K)
    (ha1 : m ≤ a1) (ha2 : m ≤ a2) (hb1 : m ≤ b1) (hb2 : m ≤ b2) (he : 0 ≤ eps) (hm : 2 * eps < m)
    (hdx : |dx| ≤ 1) (hdz : |dz| ≤ 1) :
    let A : K × K := (-a1, a2)
    let B : K × K := (b1, b2)
    let N : K × K := ((-a1 + b1) / 2 + eps * dx, (a2 + b2) / 2 + eps * dz)
    0 < cross2 B N ∧ 0 < cross2 N A := by
  intro A B N
  have hx := abs_le.1 hdx
  have hz := abs_le.1 hdz
  have hmpos : 0 < m := by linarith
  have pa1 : 0 < a1 := by linarith
  have pa2 : 0 < a2 := by linarith
  have pb1 : 0 < b1 := by linarith
  have pb2 : 0 < b2 := by linarith
  -- the products that matter
  have k1 : m * b1 ≤ a2 * b1 := mul_le_mul_of_nonneg_right ha2 pb1.le
  have k2 : m * b2 ≤ a1 * b2 := mul_le_mul_of_nonneg_right ha1 pb2.le
  have k3 : m * a2 ≤ b1 * a2 := mul_le_mul_of_nonneg_right hb1 pa2.le
  have k4 : m * a1 ≤ b2 * a1 := mul_le_mul_of_nonneg_right hb2 pa1.le
  have e1 : -(eps * b1) ≤ eps * (b1 * dz) := by
    have h : b1 * (-1) ≤ b1 * dz := mul_le_mul_of_nonneg_left hz.1 pb1.le
    have := mul_le_mul_of_nonneg_left h he
    linarith
  have e2 : -(eps * b2) ≤ -(eps * (b2 * dx)) := by
    have h : b2 * dx ≤ b2 * 1 := mul_le_mul_of_nonneg_left hx.2 pb2.le
    have := mul_le_mul_of_nonneg_left h he
    linarith
  have e3 : -(eps * a2) ≤ eps * (a2 * dx) := by
    have h : a2 * (-1) ≤ a2 * dx := mul_le_mul_of_nonneg_left hx.1 pa2.le
    have := mul_le_mul_of_nonneg_left h he
    linarith
  have e4 : -(eps * a1) ≤ eps * (a1 * dz) := by
    have h : a1 * (-1) ≤ a1 * dz := mul_le_mul_of_nonneg_left hz.1 pa1.le
    have := mul_le_mul_of_nonneg_left h he
    linarith
  have g1 : eps * b1 < m * b1 / 2 := by
    have := mul_lt_mul_of_pos_right hm pb1
    linarith
  have g2 : eps * b2 < m * b2 / 2 := by
    have := mul_lt_mul_of_pos_right hm pb2
    linarith
  have g3 : eps * a2 < m * a2 / 2 := by
    have := mul_lt_mul_of_pos_right hm pa2
    linarith
  have g4 : eps * a1 < m * a1 / 2 := by
    have := mul_lt_mul_of_pos_right hm pa1
    linarith
  constructor
  · show 0 < b1 * ((a2 + b2) / 2 + eps * dz) - b2 * ((-a1 + b1) / 2 + eps * dx)
    have : b1 * ((a2 + b2) / 2 + eps * dz) - b2 * ((-a1 + b1) / 2 + eps * dx)
        = (a2 * b1 + a1 * b2) / 2 + eps * (b1 * dz) - eps * (b2 * dx) := by ring
    rw [this]; linarith
  · show 0 < ((-a1 + b1) / 2 + eps * dx) * a2 - ((a2 + b2) / 2 + eps * dz) * (-a1)
    have : ((-a1 + b1) / 2 + eps * dx) * a2 - ((a2 + b2) / 2 + eps * dz) * (-a1)
        = (b1 * a2 + b2 * a1) / 2 + eps * (a2 * dx) + eps * (a1 * dz) := by ring
    rw [this]; linarith

open M3d.DC in
/-- With the old margin `m = ε` the conclusion fails: both ends at the margin, direction `(1, −1)/√2`
scaled into the max-norm unit box — the new vertex is past `B`. -/
theorem repair_midpoint_old_margin_fails :
    ∃ (a1 a2 b1 b2 m eps dx dz : ℚ), m ≤ a1 ∧ m ≤ a2 ∧ m ≤ b1 ∧ m ≤ b2 ∧ 0 < eps ∧ m = eps ∧
      |dx| ≤ 1 ∧ |dz| ≤ 1 ∧
      cross2 ((b1, b2) : ℚ × ℚ) ((-a1 + b1) / 2 + eps * dx, (a2 + b2) / 2 + eps * dz) < 0 := by
  refine ⟨1, 1, 1, 1, 1, 1, 1, -1, ?_⟩
  unfold cross2
  norm_num

/-! ### the two `Repair` passes together

`repairSingularEdges` inserts `N` from the ends as they are THEN; `repairSingularVertices` may afterwards
move either end (a singular vertex is split into copies, each moved by `ev` in a unit direction).  What
has to hold is that `N` lies between the FINAL ends.  Relative to the midpoint of the final ends `N` is
displaced by at most `ee + ev`, and the final ends are `m − ev` inside their cubes: `2·ee + 3·ev < m`
suffices.  With `ee = ev = 0.49·m` (the code before the repair of /repo) it does not
(`repair_two_passes_old_factor_fails`, the numbers of a real failing input). -/

open M3d.DC in
theorem repair_two_passes_between (a1 a2 b1 b2 m ee ev dx dz p1 p2 q1 q2 : K)
    (ha1 : m ≤ a1) (ha2 : m ≤ a2) (hb1 : m ≤ b1) (hb2 : m ≤ b2) (hee : 0 ≤ ee) (hev : 0 ≤ ev)
    (hm : 2 * ee + 3 * ev < m)
    (hdx : |dx| ≤ 1) (hdz : |dz| ≤ 1) (hp1 : |p1| ≤ 1) (hp2 : |p2| ≤ 1) (hq1 : |q1| ≤ 1) (hq2 : |q2| ≤ 1) :
    let A : K × K := (-(a1 + ev * p1), a2 + ev * p2)
    let B : K × K := (b1 + ev * q1, b2 + ev * q2)
    let N : K × K := ((-a1 + b1) / 2 + ee * dx, (a2 + b2) / 2 + ee * dz)
    0 < cross2 B N ∧ 0 < cross2 N A := by
  intro A B N
  have hx := abs_le.1 hdx
  have hz := abs_le.1 hdz
  have hP1 := abs_le.1 hp1
  have hP2 := abs_le.1 hp2
  have hQ1 := abs_le.1 hq1
  have hQ2 := abs_le.1 hq2
  -- products with the unit-box bounds
  have tx1 : 0 ≤ ee * (dx + 1) := mul_nonneg hee (by linarith)
  have tx2 : 0 ≤ ee * (1 - dx) := mul_nonneg hee (by linarith)
  have tz1 : 0 ≤ ee * (dz + 1) := mul_nonneg hee (by linarith)
  have tz2 : 0 ≤ ee * (1 - dz) := mul_nonneg hee (by linarith)
  have tp1 : 0 ≤ ev * (p1 + 1) := mul_nonneg hev (by linarith)
  have tp1' : 0 ≤ ev * (1 - p1) := mul_nonneg hev (by linarith)
  have tp2 : 0 ≤ ev * (p2 + 1) := mul_nonneg hev (by linarith)
  have tp2' : 0 ≤ ev * (1 - p2) := mul_nonneg hev (by linarith)
  have tq1 : 0 ≤ ev * (q1 + 1) := mul_nonneg hev (by linarith)
  have tq1' : 0 ≤ ev * (1 - q1) := mul_nonneg hev (by linarith)
  have tq2 : 0 ≤ ev * (q2 + 1) := mul_nonneg hev (by linarith)
  have tq2' : 0 ≤ ev * (1 - q2) := mul_nonneg hev (by linarith)
  -- margins of the final ends
  have f1 : m - ev ≤ a1 + ev * p1 := by linarith
  have f2 : m - ev ≤ a2 + ev * p2 := by linarith
  have f3 : m - ev ≤ b1 + ev * q1 := by linarith
  have f4 : m - ev ≤ b2 + ev * q2 := by linarith
  by_cases h0 : ee + ev = 0
  · have hee0 : ee = 0 := by linarith
    have hev0 : ev = 0 := by linarith
    have := repair_midpoint_between a1 a2 b1 b2 m 0 0 0 ha1 ha2 hb1 hb2 (le_refl 0) (by linarith)
      (by simp) (by simp)
    simp only [mul_zero, add_zero] at this
    show 0 < cross2 (b1 + ev * q1, b2 + ev * q2) ((-a1 + b1) / 2 + ee * dx, (a2 + b2) / 2 + ee * dz) ∧
      0 < cross2 ((-a1 + b1) / 2 + ee * dx, (a2 + b2) / 2 + ee * dz) (-(a1 + ev * p1), a2 + ev * p2)
    rw [hee0, hev0]
    simpa using this
  · have hpos : 0 < ee + ev := lt_of_le_of_ne (by linarith) (Ne.symm h0)
    -- the displacement of `N` from the midpoint of the final ends, in units of `ee + ev`
    have key := repair_midpoint_between (a1 + ev * p1) (a2 + ev * p2) (b1 + ev * q1) (b2 + ev * q2) (m - ev)
      (ee + ev) ((ee * dx + ev * (p1 - q1) / 2) / (ee + ev)) ((ee * dz - ev * (p2 + q2) / 2) / (ee + ev))
      f1 f2 f3 f4 (by linarith) (by linarith)
      (by
        rw [abs_div, abs_of_pos hpos, div_le_one hpos, abs_le]
        constructor <;> linarith)
      (by
        rw [abs_div, abs_of_pos hpos, div_le_one hpos, abs_le]
        constructor <;> linarith)
    have c1 : (ee + ev) * ((ee * dx + ev * (p1 - q1) / 2) / (ee + ev)) = ee * dx + ev * (p1 - q1) / 2 := by
      rw [← mul_div_assoc, mul_div_cancel_left₀ _ h0]
    have c2 : (ee + ev) * ((ee * dz - ev * (p2 + q2) / 2) / (ee + ev)) = ee * dz - ev * (p2 + q2) / 2 := by
      rw [← mul_div_assoc, mul_div_cancel_left₀ _ h0]
    have e1 : (-(a1 + ev * p1) + (b1 + ev * q1)) / 2 +
        (ee + ev) * ((ee * dx + ev * (p1 - q1) / 2) / (ee + ev)) = (-a1 + b1) / 2 + ee * dx := by
      rw [c1]; ring
    have e2 : ((a2 + ev * p2) + (b2 + ev * q2)) / 2 +
        (ee + ev) * ((ee * dz - ev * (p2 + q2) / 2) / (ee + ev)) = (a2 + b2) / 2 + ee * dz := by
      rw [c2]; ring
    simp only [e1, e2] at key
    exact key

open M3d.DC in
/-- the factor 0.49 in BOTH passes (margin `m = RepairEpsilon`): the numbers of a real input (lattice units
scaled by 100; `blobSolid` seed 2078, x-edge (8,7,7)) — the inserted vertex is past the moved end. -/
theorem repair_two_passes_old_factor_fails :
    ∃ (a1 a2 b1 b2 m ee ev dx dz p1 p2 : ℚ), m ≤ a1 ∧ m ≤ a2 ∧ m ≤ b1 ∧ m ≤ b2 ∧
      ee = 49 / 100 * m ∧ ev = 49 / 100 * m ∧ |dx| ≤ 1 ∧ |dz| ≤ 1 ∧ |p1| ≤ 1 ∧ |p2| ≤ 1 ∧
      cross2 (((-a1 + b1) / 2 + ee * dx, (a2 + b2) / 2 + ee * dz) : ℚ × ℚ) (-(a1 + ev * p1), a2 + ev * p2) < 0 := by
  refine ⟨491 / 10, 1, 1, 1, 1, 49 / 100, 49 / 100, -5 / 49, -6 / 7, -20 / 49, 24 / 49, ?_⟩
  unfold cross2
  norm_num [abs_le]

end M3d.DcBlock
