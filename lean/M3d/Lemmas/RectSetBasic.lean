import Mathlib.Order.Basic
import Mathlib.Tactic.SplitIfs
import Mathlib.Tactic.Order
import Mathlib.Tactic.Tauto
import M3d.Lemmas.RectSetTree
/-! Helper lemmas for C04 (RectSet histories): coordinates, `splitRect`, the map-as-list folds,
sorted insertion. -/
namespace M3d.RectSet
set_option linter.unusedSectionVars false
set_option linter.unusedVariables false
variable {K : Type} [LinearOrder K] [OfNat K 0]

/-! ### V3 -/

@[simp] theorem V3.get_set_same {α} (v : V3 α) (i : Nat) (a : α) : (v.set i a).get i = a := by
  rcases i with _ | _ | i <;> rfl

theorem V3.get_set_ne {α} (v : V3 α) {i j : Nat} (hi : i < 3) (hj : j < 3) (h : i ≠ j) (a : α) :
    (v.set i a).get j = v.get j := by
  match i, hi, j, hj with
  | 0, _, 0, _ => exact absurd rfl h
  | 1, _, 1, _ => exact absurd rfl h
  | 2, _, 2, _ => exact absurd rfl h
  | 0, _, 1, _ | 0, _, 2, _ | 1, _, 0, _ | 1, _, 2, _ | 2, _, 0, _ | 2, _, 1, _ => rfl

theorem V3.get_set {α} (v : V3 α) {i j : Nat} (hi : i < 3) (hj : j < 3) (a : α) :
    (v.set i a).get j = if i = j then a else v.get j := by
  split_ifs with h
  · subst h; simp
  · exact V3.get_set_ne v hi hj h a

theorem V3.ext_get {α} {a b : V3 α} (h : ∀ i, i < 3 → a.get i = b.get i) : a = b := by
  cases a; cases b
  have h0 := h 0 (by omega); have h1 := h 1 (by omega); have h2 := h 2 (by omega)
  simp only [V3.get] at h0 h1 h2
  simp [h0, h1, h2]

theorem V3.set_get_self {α} (v : V3 α) (i : Nat) : v.set i (v.get i) = v := by
  rcases i with _ | _ | i <;> rfl

theorem Rect.ext_get {a b : Rect K} (hlo : ∀ i, i < 3 → a.lo.get i = b.lo.get i)
    (hhi : ∀ i, i < 3 → a.hi.get i = b.hi.get i) : a = b := by
  cases a; cases b
  simp only [Rect.mk.injEq]
  exact ⟨V3.ext_get hlo, V3.ext_get hhi⟩

/-! ### `splitRect` -/

theorem splitRect_none_iff (r : Rect K) (ax : Nat) (v : K) :
    splitRect r ax v = none ↔ ¬ (r.lo.get ax < v ∧ v < r.hi.get ax) := by
  unfold splitRect
  split_ifs with h
  · simp only [true_iff, not_and, not_lt]
    intro h1
    rcases h with h | h
    · exact absurd h1 (not_lt.mpr h)
    · exact h
  · simp only [not_or, not_le] at h
    simp [h.1, h.2]

theorem splitRect_some {r r1 r2 : Rect K} {ax : Nat} {v : K} (h : splitRect r ax v = some (r1, r2)) :
    r.lo.get ax < v ∧ v < r.hi.get ax ∧ r1 = ⟨r.lo, r.hi.set ax v⟩ ∧ r2 = ⟨r.lo.set ax v, r.hi⟩ := by
  unfold splitRect at h
  split_ifs at h with hc
  simp only [not_or, not_le] at hc
  simp only [Option.some.injEq, Prod.mk.injEq] at h
  exact ⟨hc.1, hc.2, h.1.symm, h.2.symm⟩

/-- The two halves cover exactly the rect (closed boxes: the cut plane is in both). -/
theorem splitRect_cover {r r1 r2 : Rect K} {ax : Nat} {v : K} (hax : ax < 3)
    (h : splitRect r ax v = some (r1, r2)) (p : V3 K) :
    r.contains p = true ↔ (r1.contains p = true ∨ r2.contains p = true) := by
  obtain ⟨h1, h2, rfl, rfl⟩ := splitRect_some h
  simp only [Rect.contains_iff]
  constructor
  · intro hc
    rcases le_total (p.get ax) v with hv | hv
    · left; intro i hi
      rw [V3.get_set _ hax hi]
      split_ifs with e
      · subst e; exact ⟨(hc _ hi).1, hv⟩
      · exact hc i hi
    · right; intro i hi
      rw [V3.get_set _ hax hi]
      split_ifs with e
      · subst e; exact ⟨hv, (hc _ hi).2⟩
      · exact hc i hi
  · rintro (hc | hc) <;> intro i hi <;> have := hc i hi <;> rw [V3.get_set _ hax hi] at this <;>
      split_ifs at this with e
    · subst e; exact ⟨this.1, le_trans this.2 (le_of_lt h2)⟩
    · exact this
    · subst e; exact ⟨le_trans (le_of_lt h1) this.1, this.2⟩
    · exact this

/-! ### The map-as-list folds -/

theorem mem_insertRect (l : List (Rect K)) (r q : Rect K) : q ∈ insertRect l r ↔ q ∈ l ∨ q = r := by
  unfold insertRect
  split_ifs with h
  · constructor
    · exact Or.inl
    · rintro (h' | rfl); exact h'; exact h
  · simp

theorem nodup_insertRect {l : List (Rect K)} (hl : l.Nodup) (r : Rect K) : (insertRect l r).Nodup := by
  unfold insertRect
  split_ifs with h
  · exact hl
  · rw [List.nodup_append]
    refine ⟨hl, by simp, ?_⟩
    intro a ha b hb
    simp only [List.mem_singleton] at hb
    subst hb
    intro e; subst e; exact h ha

theorem mem_foldl_insertRect (l acc : List (Rect K)) (q : Rect K) :
    q ∈ l.foldl insertRect acc ↔ q ∈ acc ∨ q ∈ l := by
  induction l generalizing acc with
  | nil => simp
  | cons r l ih =>
    simp only [List.foldl_cons, ih, mem_insertRect, List.mem_cons]
    tauto

theorem nodup_foldl_insertRect (l : List (Rect K)) {acc : List (Rect K)} (h : acc.Nodup) :
    (l.foldl insertRect acc).Nodup := by
  induction l generalizing acc with
  | nil => exact h
  | cons r l ih => exact ih (nodup_insertRect h r)

theorem mem_foldl_erase (l : List (Rect K)) {acc : List (Rect K)} (h : acc.Nodup) (q : Rect K) :
    q ∈ l.foldl (fun a p => a.erase p) acc ↔ q ∈ acc ∧ q ∉ l := by
  induction l generalizing acc with
  | nil => simp
  | cons r l ih =>
    simp only [List.foldl_cons, ih (h.erase r), h.mem_erase_iff, List.mem_cons, not_or]
    tauto

theorem nodup_foldl_erase (l : List (Rect K)) {acc : List (Rect K)} (h : acc.Nodup) :
    (l.foldl (fun a p => a.erase p) acc).Nodup := by
  induction l generalizing acc with
  | nil => exact h
  | cons r l ih => exact ih (h.erase r)

/-! ### `splitAll`: the rect loop of `addSplit` -/

def splitStep (ax : Nat) (v : K) (acc : List (Rect K)) (r : Rect K) : List (Rect K) :=
  match splitRect r ax v with
  | some (r1, r2) => insertRect (insertRect (acc.erase r) r1) r2
  | none => acc

theorem splitAll_eq (rects : List (Rect K)) (ax : Nat) (v : K) :
    splitAll rects ax v = rects.foldl (splitStep ax v) rects := rfl

theorem splitRect_piece_none {r r1 r2 : Rect K} {ax : Nat} {v : K} (h : splitRect r ax v = some (r1, r2)) :
    splitRect r1 ax v = none ∧ splitRect r2 ax v = none := by
  obtain ⟨_, _, rfl, rfl⟩ := splitRect_some h
  constructor <;> rw [splitRect_none_iff] <;> simp

/-- Membership in the result of the loop, for a general snapshot `todo ⊆ acc`. -/
theorem splitFold_spec (ax : Nat) (v : K) : ∀ (todo acc : List (Rect K)), todo.Nodup → acc.Nodup →
    (∀ r ∈ todo, r ∈ acc) →
    (todo.foldl (splitStep ax v) acc).Nodup ∧ ∀ q, q ∈ todo.foldl (splitStep ax v) acc ↔
      ((q ∈ acc ∧ ¬ (q ∈ todo ∧ splitRect q ax v ≠ none)) ∨
        ∃ r ∈ todo, ∃ r1 r2, splitRect r ax v = some (r1, r2) ∧ (q = r1 ∨ q = r2)) := by
  intro todo
  induction todo with
  | nil => intro acc _ hacc _; simp [hacc]
  | cons r todo ih =>
    intro acc htodo hacc hsub
    have hr_notin : r ∉ todo := (List.nodup_cons.mp htodo).1
    have htodo' : todo.Nodup := (List.nodup_cons.mp htodo).2
    simp only [List.foldl_cons]
    cases hsp : splitRect r ax v with
    | none =>
      have hstep : splitStep ax v acc r = acc := by simp [splitStep, hsp]
      rw [hstep]
      obtain ⟨hn, hm⟩ := ih acc htodo' hacc (fun x hx => hsub x (List.mem_cons_of_mem _ hx))
      refine ⟨hn, fun q => ?_⟩
      rw [hm q]
      constructor
      · rintro (⟨h1, h2⟩ | ⟨r', hr', r1, r2, h3, h4⟩)
        · left; refine ⟨h1, ?_⟩
          rintro ⟨hq, hne⟩
          rcases List.mem_cons.mp hq with rfl | hq
          · exact hne hsp
          · exact h2 ⟨hq, hne⟩
        · right; exact ⟨r', List.mem_cons_of_mem _ hr', r1, r2, h3, h4⟩
      · rintro (⟨h1, h2⟩ | ⟨r', hr', r1, r2, h3, h4⟩)
        · left; exact ⟨h1, fun ⟨hq, hne⟩ => h2 ⟨List.mem_cons_of_mem _ hq, hne⟩⟩
        · rcases List.mem_cons.mp hr' with rfl | hr'
          · rw [hsp] at h3; cases h3
          · right; exact ⟨r', hr', r1, r2, h3, h4⟩
    | some pr =>
      obtain ⟨r1, r2⟩ := pr
      have hstep : splitStep ax v acc r = insertRect (insertRect (acc.erase r) r1) r2 := by
        simp [splitStep, hsp]
      rw [hstep]
      have hacc' : (insertRect (insertRect (acc.erase r) r1) r2).Nodup :=
        nodup_insertRect (nodup_insertRect (hacc.erase r) r1) r2
      have hmem' : ∀ x, x ∈ insertRect (insertRect (acc.erase r) r1) r2 ↔ (x ∈ acc ∧ x ≠ r) ∨ x = r1 ∨ x = r2 := by
        intro x
        rw [mem_insertRect, mem_insertRect, hacc.mem_erase_iff]
        tauto
      have hsub' : ∀ x ∈ todo, x ∈ insertRect (insertRect (acc.erase r) r1) r2 := by
        intro x hx
        rw [hmem']
        left
        exact ⟨hsub x (List.mem_cons_of_mem _ hx), fun e => hr_notin (e ▸ hx)⟩
      obtain ⟨hn, hm⟩ := ih _ htodo' hacc' hsub'
      obtain ⟨hp1, hp2⟩ := splitRect_piece_none hsp
      refine ⟨hn, fun q => ?_⟩
      rw [hm q, hmem' q]
      constructor
      · rintro (⟨h1, h2⟩ | ⟨r', hr', q1, q2, h3, h4⟩)
        · rcases h1 with ⟨hqa, hqr⟩ | rfl | rfl
          · left; refine ⟨hqa, ?_⟩
            rintro ⟨hq, hne⟩
            rcases List.mem_cons.mp hq with rfl | hq
            · exact hqr rfl
            · exact h2 ⟨hq, hne⟩
          · right; exact ⟨r, List.mem_cons_self, q, r2, hsp, Or.inl rfl⟩
          · right; exact ⟨r, List.mem_cons_self, r1, q, hsp, Or.inr rfl⟩
        · right; exact ⟨r', List.mem_cons_of_mem _ hr', q1, q2, h3, h4⟩
      · rintro (⟨h1, h2⟩ | ⟨r', hr', q1, q2, h3, h4⟩)
        · left
          have hqr : q ≠ r := by
            rintro rfl
            exact h2 ⟨List.mem_cons_self, by rw [hsp]; simp⟩
          exact ⟨Or.inl ⟨h1, hqr⟩, fun ⟨hq, hne⟩ => h2 ⟨List.mem_cons_of_mem _ hq, hne⟩⟩
        · rcases List.mem_cons.mp hr' with rfl | hr'
          · rw [hsp] at h3
            simp only [Option.some.injEq, Prod.mk.injEq] at h3
            obtain ⟨rfl, rfl⟩ := h3
            left
            refine ⟨Or.inr (h4.imp id id), ?_⟩
            rintro ⟨_, hne⟩
            rcases h4 with rfl | rfl
            · exact hne hp1
            · exact hne hp2
          · right; exact ⟨r', hr', q1, q2, h3, h4⟩

theorem mem_splitAll {rects : List (Rect K)} (h : rects.Nodup) (ax : Nat) (v : K) (q : Rect K) :
    q ∈ splitAll rects ax v ↔ ((q ∈ rects ∧ splitRect q ax v = none) ∨
      ∃ r ∈ rects, ∃ r1 r2, splitRect r ax v = some (r1, r2) ∧ (q = r1 ∨ q = r2)) := by
  rw [splitAll_eq, (splitFold_spec ax v rects rects h h (fun _ h => h)).2 q]
  constructor
  · rintro (⟨h1, h2⟩ | h)
    · left; refine ⟨h1, ?_⟩
      by_contra hne; exact h2 ⟨h1, hne⟩
    · right; exact h
  · rintro (⟨h1, h2⟩ | h)
    · left; exact ⟨h1, fun ⟨_, hne⟩ => hne h2⟩
    · right; exact h

theorem nodup_splitAll {rects : List (Rect K)} (h : rects.Nodup) (ax : Nat) (v : K) :
    (splitAll rects ax v).Nodup := by
  rw [splitAll_eq]; exact (splitFold_spec ax v rects rects h h (fun _ h => h)).1

/-- When nothing can be split the loop leaves the map alone. -/
theorem splitAll_id (rects : List (Rect K)) (ax : Nat) (v : K) (h : ∀ r ∈ rects, splitRect r ax v = none) :
    splitAll rects ax v = rects := by
  rw [splitAll_eq]
  suffices ∀ (todo acc : List (Rect K)), (∀ r ∈ todo, splitRect r ax v = none) →
      todo.foldl (splitStep ax v) acc = acc from this rects rects h
  intro todo
  induction todo with
  | nil => intro acc _; rfl
  | cons r todo ih =>
    intro acc hh
    simp only [List.foldl_cons]
    have : splitStep ax v acc r = acc := by simp [splitStep, hh r List.mem_cons_self]
    rw [this]
    exact ih acc (fun x hx => hh x (List.mem_cons_of_mem _ hx))

/-- Splitting does not change the union (closed boxes). -/
theorem any_splitAll {rects : List (Rect K)} (h : rects.Nodup) {ax : Nat} (hax : ax < 3) (v : K) (p : V3 K) :
    (splitAll rects ax v).any (fun r => r.contains p) = rects.any (fun r => r.contains p) := by
  rw [Bool.eq_iff_iff, List.any_eq_true, List.any_eq_true]
  constructor
  · rintro ⟨q, hq, hc⟩
    rcases (mem_splitAll h ax v q).mp hq with ⟨h1, _⟩ | ⟨r, hr, r1, r2, hs, hq'⟩
    · exact ⟨q, h1, hc⟩
    · refine ⟨r, hr, (splitRect_cover hax hs p).mpr ?_⟩
      rcases hq' with rfl | rfl
      · exact Or.inl hc
      · exact Or.inr hc
  · rintro ⟨r, hr, hc⟩
    cases hs : splitRect r ax v with
    | none => exact ⟨r, (mem_splitAll h ax v r).mpr (Or.inl ⟨hr, hs⟩), hc⟩
    | some pr =>
      obtain ⟨r1, r2⟩ := pr
      rcases (splitRect_cover hax hs p).mp hc with h1 | h2
      · exact ⟨r1, (mem_splitAll h ax v r1).mpr (Or.inr ⟨r, hr, r1, r2, hs, Or.inl rfl⟩), h1⟩
      · exact ⟨r2, (mem_splitAll h ax v r2).mpr (Or.inr ⟨r, hr, r1, r2, hs, Or.inr rfl⟩), h2⟩

/-! ### Sorted duplicate-free insertion and `addSplit`'s edit of the split list -/

theorem mem_insertSortedU (v x : K) (l : List K) : x ∈ insertSortedU v l ↔ x = v ∨ x ∈ l := by
  induction l with
  | nil => simp [insertSortedU]
  | cons y l ih =>
    unfold insertSortedU
    split_ifs with h1 h2
    · simp
    · subst h2; simp
    · simp only [List.mem_cons, ih]; tauto

theorem sorted_insertSortedU (v : K) {l : List K} (h : l.Pairwise (· < ·)) :
    (insertSortedU v l).Pairwise (· < ·) := by
  induction l with
  | nil => simp [insertSortedU]
  | cons y l ih =>
    unfold insertSortedU
    have hy := List.pairwise_cons.mp h
    split_ifs with h1 h2
    · refine List.pairwise_cons.mpr ⟨?_, h⟩
      intro a ha
      rcases List.mem_cons.mp ha with rfl | ha
      · exact h1
      · exact lt_trans h1 (hy.1 a ha)
    · exact h
    · refine List.pairwise_cons.mpr ⟨?_, ih hy.2⟩
      intro a ha
      rcases (mem_insertSortedU v a l).mp ha with rfl | ha
      · exact lt_of_le_of_ne (le_of_not_gt h1) (fun e => h2 e.symm)
      · exact hy.1 a ha

/-- The list `addSplit` leaves on the axis (its three branches). -/
def splitsAfter (xs : List K) (v : K) : List K :=
  if searchGE xs v = xs.length then xs ++ [v]
  else if xs.getD (searchGE xs v) 0 = v then xs
  else insertAt xs (searchGE xs v) v

theorem searchGE_cons (x : K) (xs : List K) (v : K) :
    searchGE (x :: xs) v = if x < v then searchGE xs v + 1 else 0 := by
  unfold searchGE
  simp only [List.takeWhile_cons, decide_eq_true_eq]
  split_ifs <;> simp

theorem splitsAfter_eq (xs : List K) (v : K) : splitsAfter xs v = insertSortedU v xs := by
  induction xs with
  | nil => simp [splitsAfter, searchGE, insertSortedU]
  | cons x xs ih =>
    unfold splitsAfter insertSortedU
    rw [searchGE_cons]
    by_cases hxv : x < v
    · have h1 : ¬ v < x := not_lt.mpr (le_of_lt hxv)
      have h2 : v ≠ x := ne_of_gt hxv
      simp only [hxv, if_true, h1, if_false, h2, List.length_cons, Nat.add_right_cancel_iff,
        List.getD_cons_succ, List.cons_append]
      rw [← ih]
      unfold splitsAfter
      split_ifs <;> simp [insertAt]
    · simp only [hxv, if_false, List.length_cons]
      have : (0 : Nat) ≠ xs.length + 1 := by omega
      simp only [this, if_false, List.getD_cons_zero]
      by_cases hvx : v < x
      · have : x ≠ v := ne_of_gt hvx
        simp [hvx, this, insertAt]
      · have : x = v := le_antisymm (le_of_not_gt hvx) (le_of_not_gt hxv)
        simp [this]

theorem searchGE_le (xs : List K) (v : K) : searchGE xs v ≤ xs.length := by
  induction xs with
  | nil => simp [searchGE]
  | cons y ys ih => rw [searchGE_cons]; split_ifs <;> simp <;> omega

/-- `idx = len`: every split is below the value. -/
theorem searchGE_eq_length {xs : List K} {v : K} (h : searchGE xs v = xs.length) : ∀ x ∈ xs, x < v := by
  induction xs with
  | nil => intro x hx; cases hx
  | cons y ys ih =>
    rw [searchGE_cons] at h
    split_ifs at h with hy
    · simp only [List.length_cons, Nat.add_right_cancel_iff] at h
      intro x hx
      rcases List.mem_cons.mp hx with rfl | hx
      · exact hy
      · exact ih h x hx

/-- `xs[idx] == value` with `idx < len`: the value is already a split. -/
theorem searchGE_hit {xs : List K} {v : K} (h1 : searchGE xs v ≠ xs.length)
    (h2 : xs.getD (searchGE xs v) 0 = v) : v ∈ xs := by
  have hlt : searchGE xs v < xs.length := lt_of_le_of_ne (searchGE_le xs v) h1
  rw [List.getD_eq_getElem?_getD, List.getElem?_eq_getElem hlt] at h2
  simp only [Option.getD_some] at h2
  rw [← h2]; exact List.getElem_mem hlt

/-- `idx == 0` on a sorted non-empty list without a hit: the value is below every split. -/
theorem searchGE_zero {xs : List K} {v : K} (hs : xs.Pairwise (· < ·)) (h0 : searchGE xs v = 0)
    (h1 : searchGE xs v ≠ xs.length) (h2 : xs.getD (searchGE xs v) 0 ≠ v) : ∀ x ∈ xs, v < x := by
  cases xs with
  | nil => simp [searchGE] at h1
  | cons y ys =>
    rw [searchGE_cons] at h0
    split_ifs at h0 with hy
    rw [searchGE_cons] at h2
    simp only [hy, if_false, List.getD_cons_zero] at h2
    have hvy : v < y := lt_of_le_of_ne (le_of_not_gt hy) (fun e => h2 e.symm)
    intro x hx
    rcases List.mem_cons.mp hx with rfl | hx
    · exact hvy
    · exact lt_trans hvy ((List.pairwise_cons.mp hs).1 x hx)

/-! ### `splitRectAxis` / `splitRect` (method): cutting a new box along the split planes -/

/-- The result of `splitRectAxis`, head first. -/
def pieces (ax : Nat) : Rect K → List K → List (Rect K)
  | cur, [] => [cur]
  | cur, v :: vs =>
    match splitRect cur ax v with
    | some (r1, r2) => r1 :: pieces ax r2 vs
    | none => pieces ax cur vs

theorem loop_eq_pieces (ax : Nat) (vs : List K) (acc : List (Rect K)) (cur : Rect K) :
    (splitRectAxisLoop ax (acc, cur) vs).1 ++ [(splitRectAxisLoop ax (acc, cur) vs).2]
      = acc ++ pieces ax cur vs := by
  induction vs generalizing acc cur with
  | nil => rfl
  | cons v vs ih =>
    unfold splitRectAxisLoop pieces
    cases h : splitRect cur ax v with
    | none => simp only [h]; exact ih acc cur
    | some pr =>
      obtain ⟨r1, r2⟩ := pr
      simp only [h]
      rw [ih]; simp

theorem splitRectAxis_eq (xs : List K) (r : Rect K) (ax : Nat) : splitRectAxis xs r ax = pieces ax r xs := by
  unfold splitRectAxis
  simpa using loop_eq_pieces ax xs [] r

/-- Everything the later proofs need about the pieces of one rect along one axis. -/
structure PiecesSpec (ax : Nat) (cur : Rect K) (vs : List K) (P : List (Rect K)) : Prop where
  lo_ge : ∀ q ∈ P, cur.lo.get ax ≤ q.lo.get ax
  hi_le : ∀ q ∈ P, q.hi.get ax ≤ cur.hi.get ax
  aligned : ∀ q ∈ P, ∀ w ∈ vs, ¬ (q.lo.get ax < w ∧ w < q.hi.get ax)
  ends : ∀ q ∈ P, (q.lo.get ax = cur.lo.get ax ∨ q.lo.get ax ∈ vs) ∧ (q.hi.get ax = cur.hi.get ax ∨ q.hi.get ax ∈ vs)
  other : ∀ q ∈ P, ∀ ax', ax' < 3 → ax' ≠ ax → q.lo.get ax' = cur.lo.get ax' ∧ q.hi.get ax' = cur.hi.get ax'
  cover : ∀ p, (∃ q ∈ P, q.contains p = true) ↔ cur.contains p = true

theorem pieces_spec {ax : Nat} (hax : ax < 3) : ∀ (vs : List K) (cur : Rect K), vs.Pairwise (· < ·) →
    PiecesSpec ax cur vs (pieces ax cur vs) := by
  intro vs
  induction vs with
  | nil =>
    intro cur _
    refine ⟨?_, ?_, ?_, ?_, ?_, ?_⟩ <;> simp [pieces]
  | cons v vs ih =>
    intro cur hs
    have hs' := List.pairwise_cons.mp hs
    unfold pieces
    cases h : splitRect cur ax v with
    | none =>
      simp only [h]
      have I := ih cur hs'.2
      have hn := (splitRect_none_iff cur ax v).mp h
      refine ⟨I.lo_ge, I.hi_le, ?_, ?_, I.other, I.cover⟩
      · intro q hq w hw
        rcases List.mem_cons.mp hw with rfl | hw
        · rintro ⟨h1, h2⟩
          exact hn ⟨lt_of_le_of_lt (I.lo_ge q hq) h1, lt_of_lt_of_le h2 (I.hi_le q hq)⟩
        · exact I.aligned q hq w hw
      · intro q hq
        have := I.ends q hq
        exact ⟨this.1.imp id (List.mem_cons_of_mem _), this.2.imp id (List.mem_cons_of_mem _)⟩
    | some pr =>
      obtain ⟨r1, r2⟩ := pr
      simp only [h]
      obtain ⟨h1, h2, e1, e2⟩ := splitRect_some h
      have I := ih r2 hs'.2
      have r2lo : r2.lo.get ax = v := by rw [e2]; simp
      have r2hi : r2.hi.get ax = cur.hi.get ax := by rw [e2]
      have r1lo : r1.lo.get ax = cur.lo.get ax := by rw [e1]
      have r1hi : r1.hi.get ax = v := by rw [e1]; simp
      refine ⟨?_, ?_, ?_, ?_, ?_, ?_⟩
      · intro q hq
        rcases List.mem_cons.mp hq with rfl | hq
        · rw [r1lo]
        · exact le_trans (le_of_lt h1) (r2lo ▸ I.lo_ge q hq)
      · intro q hq
        rcases List.mem_cons.mp hq with rfl | hq
        · rw [r1hi]; exact le_of_lt h2
        · rw [← r2hi]; exact I.hi_le q hq
      · intro q hq w hw
        rcases List.mem_cons.mp hq with rfl | hq
        · rw [r1hi]
          rcases List.mem_cons.mp hw with rfl | hw
          · exact fun ⟨_, h4⟩ => lt_irrefl _ h4
          · exact fun ⟨_, h4⟩ => lt_asymm h4 (hs'.1 w hw)
        · rcases List.mem_cons.mp hw with rfl | hw
          · exact fun ⟨h3, _⟩ => absurd (r2lo ▸ I.lo_ge q hq) (not_le.mpr h3)
          · exact I.aligned q hq w hw
      · intro q hq
        rcases List.mem_cons.mp hq with rfl | hq
        · exact ⟨Or.inl r1lo, Or.inr (by rw [r1hi]; exact List.mem_cons_self)⟩
        · have := I.ends q hq
          refine ⟨?_, ?_⟩
          · rcases this.1 with h3 | h3
            · right; rw [h3, r2lo]; exact List.mem_cons_self
            · right; exact List.mem_cons_of_mem _ h3
          · rcases this.2 with h3 | h3
            · left; rw [h3, r2hi]
            · right; exact List.mem_cons_of_mem _ h3
      · intro q hq ax' hax' hne
        rcases List.mem_cons.mp hq with rfl | hq
        · rw [e1]; exact ⟨rfl, V3.get_set_ne _ hax hax' (Ne.symm hne) _⟩
        · have := I.other q hq ax' hax' hne
          rw [this.1, this.2, e2]
          exact ⟨V3.get_set_ne _ hax hax' (Ne.symm hne) _, rfl⟩
      · intro p
        rw [splitRect_cover hax h p, ← I.cover p]
        constructor
        · rintro ⟨q, hq, hc⟩
          rcases List.mem_cons.mp hq with rfl | hq
          · exact Or.inl hc
          · exact Or.inr ⟨q, hq, hc⟩
        · rintro (hc | ⟨q, hq, hc⟩)
          · exact ⟨r1, List.mem_cons_self, hc⟩
          · exact ⟨q, List.mem_cons_of_mem _ hq, hc⟩

/-- `q` is a grid cell cut out of `r`: on every axis its ends are ends of `r` or split values, and
(on the axes in `D`) no split value lies strictly inside it. -/
def Stage (sp : V3 (List K)) (r : Rect K) (D : Nat → Prop) (q : Rect K) : Prop :=
  ∀ ax, ax < 3 →
    (q.lo.get ax = r.lo.get ax ∨ q.lo.get ax ∈ sp.get ax) ∧
    (q.hi.get ax = r.hi.get ax ∨ q.hi.get ax ∈ sp.get ax) ∧
    (D ax → ∀ w ∈ sp.get ax, ¬ (q.lo.get ax < w ∧ w < q.hi.get ax))

theorem stage_step {sp : V3 (List K)} {r : Rect K} {D : Nat → Prop} {ax : Nat} (hax : ax < 3)
    (hs : (sp.get ax).Pairwise (· < ·)) {L : List (Rect K)} (hL : ∀ q ∈ L, Stage sp r D q) :
    (∀ q ∈ L.flatMap (fun q => splitRectAxis (sp.get ax) q ax), Stage sp r (fun a => D a ∨ a = ax) q) ∧
    ∀ p, (∃ q ∈ L.flatMap (fun q => splitRectAxis (sp.get ax) q ax), q.contains p = true) ↔
      (∃ q ∈ L, q.contains p = true) := by
  constructor
  · intro q' hq'
    obtain ⟨q, hq, hq'⟩ := List.mem_flatMap.mp hq'
    rw [splitRectAxis_eq] at hq'
    have S := pieces_spec hax (sp.get ax) q hs
    have hQ := hL q hq
    intro ax' hax'
    by_cases e : ax' = ax
    · subst e
      obtain ⟨e1, e2⟩ := S.ends q' hq'
      refine ⟨?_, ?_, fun _ => S.aligned q' hq'⟩
      · rcases e1 with e1 | e1
        · rw [e1]; exact (hQ ax' hax').1
        · exact Or.inr e1
      · rcases e2 with e2 | e2
        · rw [e2]; exact (hQ ax' hax').2.1
        · exact Or.inr e2
    · obtain ⟨o1, o2⟩ := S.other q' hq' ax' hax' e
      rw [o1, o2]
      refine ⟨(hQ ax' hax').1, (hQ ax' hax').2.1, ?_⟩
      rintro (hd | hd)
      · exact (hQ ax' hax').2.2 hd
      · exact absurd hd e
  · intro p
    constructor
    · rintro ⟨q', hq', hc⟩
      obtain ⟨q, hq, hq'⟩ := List.mem_flatMap.mp hq'
      rw [splitRectAxis_eq] at hq'
      exact ⟨q, hq, ((pieces_spec hax (sp.get ax) q hs).cover p).mp ⟨q', hq', hc⟩⟩
    · rintro ⟨q, hq, hc⟩
      obtain ⟨q', hq', hc'⟩ := ((pieces_spec hax (sp.get ax) q hs).cover p).mpr hc
      exact ⟨q', List.mem_flatMap.mpr ⟨q, hq, by rw [splitRectAxis_eq]; exact hq'⟩, hc'⟩

/-- Method `splitRect`: the pieces are aligned grid cells and cover exactly the rect. -/
theorem splitRectAll_spec (sp : V3 (List K)) (r : Rect K) (hs : ∀ ax, ax < 3 → (sp.get ax).Pairwise (· < ·)) :
    (∀ q ∈ splitRectAll sp r, Stage sp r (fun _ => True) q) ∧
    ∀ p, (∃ q ∈ splitRectAll sp r, q.contains p = true) ↔ r.contains p = true := by
  have h0 : ∀ q ∈ [r], Stage sp r (fun _ => False) q := by
    intro q hq
    rw [List.mem_singleton] at hq; subst hq
    intro ax _
    exact ⟨Or.inl rfl, Or.inl rfl, fun h => h.elim⟩
  obtain ⟨s1, c1⟩ := stage_step (by omega : 0 < 3) (hs 0 (by omega)) h0
  obtain ⟨s2, c2⟩ := stage_step (by omega : 1 < 3) (hs 1 (by omega)) s1
  obtain ⟨s3, c3⟩ := stage_step (by omega : 2 < 3) (hs 2 (by omega)) s2
  have e : splitRectAll sp r = (([r].flatMap (fun q => splitRectAxis (sp.get 0) q 0)).flatMap
      (fun q => splitRectAxis (sp.get 1) q 1)).flatMap (fun q => splitRectAxis (sp.get 2) q 2) := rfl
  rw [e]
  constructor
  · intro q hq ax hax
    obtain ⟨a, b, c⟩ := s3 q hq ax hax
    refine ⟨a, b, fun _ => c ?_⟩
    match ax, hax with
    | 0, _ => exact Or.inl (Or.inl (Or.inr rfl))
    | 1, _ => exact Or.inl (Or.inr rfl)
    | 2, _ => exact Or.inr rfl
  · intro p
    rw [c3 p, c2 p, c1 p]
    simp

end M3d.RectSet
