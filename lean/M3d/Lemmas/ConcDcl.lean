import M3d.Model.Conc
/-!
# C13 helper lemmas: the double-checked creation of the vertex index (`getVertexToFace`)

`DclInv` is an inductive invariant of `Conc.dclProg` (any number of threads, any schedule);
`inv_pcK` is its preservation by the step at program counter `K`.
-/
namespace M3d.Conc

/-- Inductive invariant of the double-checked-locking program.  `pc` ranges over the ten steps
of `dclThread` (10 = finished). -/

structure DclInv (c : Config) : Prop where
  pcle : ∀ t, (c.thr t).pc ≤ 10
  mtx_iff : ∀ t, c.mtx M = some t ↔ (3 ≤ (c.thr t).pc ∧ (c.thr t).pc ≤ 8)
  reg_eq : ∀ t, (c.thr t).pc ≠ 6 → (c.thr t).pc ≠ 7 → (c.thr t).reg ≠ 0 → (c.thr t).reg = c.mem V
  reg4 : ∀ t, (c.thr t).pc = 4 → (c.thr t).reg = c.mem V
  v0 : ∀ t, 5 ≤ (c.thr t).pc → (c.thr t).pc ≤ 7 → c.mem V = 0
  reg67 : ∀ t, 6 ≤ (c.thr t).pc → (c.thr t).pc ≤ 7 → (c.thr t).reg = t + 1
  regnz : ∀ t, 8 ≤ (c.thr t).pc → (c.thr t).reg ≠ 0
  built7 : ∀ t, (c.thr t).pc = 7 → c.mem (D + (t+1)) = 1
  builtV : c.mem V ≠ 0 → c.mem (D + c.mem V) = 1
  out10 : ∀ t, (c.thr t).pc = 10 → (c.thr t).out = 1
  wr_pc : ∀ a ∈ c.hist, a.isWrite = true → 7 ≤ (c.thr a.tid).pc
  wr_who : ∀ a ∈ c.hist, a.isWrite = true → (c.mem V = a.tid + 1 ∨ (c.thr a.tid).pc = 7)
  builds_le : builds c ≤ 1
  built_ex7 : ∀ t, (c.thr t).pc = 7 → builds c = 1
  built_exV : c.mem V ≠ 0 → builds c = 1
  wr_in_clk : c.mem V ≠ 0 → ∀ a ∈ c.hist, a.isWrite = true → a.eid ∈ c.clk V
  wr_seen : ∀ t, (c.thr t).reg ≠ 0 → ∀ a ∈ c.hist, a.isWrite = true → a.eid ∈ (c.thr t).seen
  rd_after : ∀ a ∈ c.hist, a.isWrite = false → c.mem V ≠ 0
  norace : c.races = []

theorem dclInv_init : DclInv Config.init := by
  constructor <;> simp [Config.init, TState.init, builds]

theorem dcl_at0 (t : Tid) : (dclThread t)[0]? = some (.atomicLoad V) := rfl
theorem dcl_at1 (t : Tid) : (dclThread t)[1]? = some (.jmpIfSet 7) := rfl
theorem dcl_at2 (t : Tid) : (dclThread t)[2]? = some (.lock M) := rfl
theorem dcl_at3 (t : Tid) : (dclThread t)[3]? = some (.atomicLoad V) := rfl
theorem dcl_at4 (t : Tid) : (dclThread t)[4]? = some (.jmpIfSet 3) := rfl
theorem dcl_at5 (t : Tid) : (dclThread t)[5]? = some (.setReg (t+1)) := rfl
theorem dcl_at6 (t : Tid) : (dclThread t)[6]? = some (.writeAt D 1) := rfl
theorem dcl_at7 (t : Tid) : (dclThread t)[7]? = some (.atomicStore V) := rfl
theorem dcl_at8 (t : Tid) : (dclThread t)[8]? = some (.unlock M) := rfl
theorem dcl_at9 (t : Tid) : (dclThread t)[9]? = some (.readAt D) := rfl
theorem dcl_at10 (t : Tid) : (dclThread t)[10]? = none := rfl

theorem inv_pc0 (c : Config) (t : Tid) (I : DclInv c) (h : (c.thr t).pc = 0) :
    DclInv (exec (.atomicLoad V) c t) := by
  obtain ⟨i1, i2, i3, i4, i5, i6, i7, i8, i9, i10, i11, i12, i13, i14, i15, i16, i17, i18, i19⟩ := I
  simp only [builds] at i13 i14 i15
  simp only [V, D] at *
  simp only [exec, advance, access]
  constructor <;> (try simp only [upd, builds, unordered, V, D, List.append_eq_nil_iff, List.map_eq_nil_iff, List.filter_eq_nil_iff]) <;> grind

theorem inv_pc1 (c : Config) (t : Tid) (I : DclInv c) (h : (c.thr t).pc = 1) :
    DclInv (exec (.jmpIfSet 7) c t) := by
  obtain ⟨i1, i2, i3, i4, i5, i6, i7, i8, i9, i10, i11, i12, i13, i14, i15, i16, i17, i18, i19⟩ := I
  simp only [builds] at i13 i14 i15
  simp only [V, D] at *
  simp only [exec, advance, access]
  constructor <;> (try simp only [upd, builds, unordered, V, D, List.append_eq_nil_iff, List.map_eq_nil_iff, List.filter_eq_nil_iff]) <;> grind

theorem inv_pc2 (c : Config) (t : Tid) (I : DclInv c) (h : (c.thr t).pc = 2) :
    DclInv (exec (.lock M) c t) := by
  obtain ⟨i1, i2, i3, i4, i5, i6, i7, i8, i9, i10, i11, i12, i13, i14, i15, i16, i17, i18, i19⟩ := I
  simp only [builds] at i13 i14 i15
  simp only [V, D] at *
  simp only [exec, advance, access]
  cases hm : c.mtx M with
  | some u => simp only []; constructor <;> (try simp only [upd, builds, unordered, V, D, List.append_eq_nil_iff, List.map_eq_nil_iff, List.filter_eq_nil_iff]) <;> grind
  | none => simp only []; constructor <;> (try simp only [upd, builds, unordered, V, D, List.append_eq_nil_iff, List.map_eq_nil_iff, List.filter_eq_nil_iff]) <;> grind

theorem inv_pc3 (c : Config) (t : Tid) (I : DclInv c) (h : (c.thr t).pc = 3) :
    DclInv (exec (.atomicLoad V) c t) := by
  obtain ⟨i1, i2, i3, i4, i5, i6, i7, i8, i9, i10, i11, i12, i13, i14, i15, i16, i17, i18, i19⟩ := I
  simp only [builds] at i13 i14 i15
  simp only [V, D] at *
  simp only [exec, advance, access]
  constructor <;> (try simp only [upd, builds, unordered, V, D, List.append_eq_nil_iff, List.map_eq_nil_iff, List.filter_eq_nil_iff]) <;> grind

theorem inv_pc4 (c : Config) (t : Tid) (I : DclInv c) (h : (c.thr t).pc = 4) :
    DclInv (exec (.jmpIfSet 3) c t) := by
  obtain ⟨i1, i2, i3, i4, i5, i6, i7, i8, i9, i10, i11, i12, i13, i14, i15, i16, i17, i18, i19⟩ := I
  simp only [builds] at i13 i14 i15
  simp only [V, D] at *
  simp only [exec, advance, access]
  constructor <;> (try simp only [upd, builds, unordered, V, D, List.append_eq_nil_iff, List.map_eq_nil_iff, List.filter_eq_nil_iff]) <;> grind

theorem inv_pc5 (c : Config) (t : Tid) (I : DclInv c) (h : (c.thr t).pc = 5) :
    DclInv (exec (.setReg (t+1)) c t) := by
  obtain ⟨i1, i2, i3, i4, i5, i6, i7, i8, i9, i10, i11, i12, i13, i14, i15, i16, i17, i18, i19⟩ := I
  simp only [builds] at i13 i14 i15
  simp only [V, D] at *
  simp only [exec, advance, access]
  constructor <;> (try simp only [upd, builds, unordered, V, D, List.append_eq_nil_iff, List.map_eq_nil_iff, List.filter_eq_nil_iff]) <;> grind

theorem inv_pc6 (c : Config) (t : Tid) (I : DclInv c) (h : (c.thr t).pc = 6) :
    DclInv (exec (.writeAt D 1) c t) := by
  obtain ⟨i1, i2, i3, i4, i5, i6, i7, i8, i9, i10, i11, i12, i13, i14, i15, i16, i17, i18, i19⟩ := I
  simp only [builds] at i13 i14 i15
  simp only [V, D] at *
  have hnil : c.hist.filter (·.isWrite) = [] := by rw [List.filter_eq_nil_iff]; grind
  simp only [exec, advance, access]
  constructor <;> (try simp only [upd, builds, unordered, V, D, List.append_eq_nil_iff, List.map_eq_nil_iff, List.filter_eq_nil_iff]) <;> grind

theorem inv_pc7 (c : Config) (t : Tid) (I : DclInv c) (h : (c.thr t).pc = 7) :
    DclInv (exec (.atomicStore V) c t) := by
  obtain ⟨i1, i2, i3, i4, i5, i6, i7, i8, i9, i10, i11, i12, i13, i14, i15, i16, i17, i18, i19⟩ := I
  simp only [builds] at i13 i14 i15
  simp only [V, D] at *
  simp only [exec, advance, access]
  constructor <;> (try simp only [upd, builds, unordered, V, D, List.append_eq_nil_iff, List.map_eq_nil_iff, List.filter_eq_nil_iff]) <;> grind

theorem inv_pc8 (c : Config) (t : Tid) (I : DclInv c) (h : (c.thr t).pc = 8) :
    DclInv (exec (.unlock M) c t) := by
  obtain ⟨i1, i2, i3, i4, i5, i6, i7, i8, i9, i10, i11, i12, i13, i14, i15, i16, i17, i18, i19⟩ := I
  simp only [builds] at i13 i14 i15
  simp only [V, D] at *
  simp only [exec, advance, access]
  constructor <;> (try simp only [upd, builds, unordered, V, D, List.append_eq_nil_iff, List.map_eq_nil_iff, List.filter_eq_nil_iff]) <;> grind

theorem inv_pc9 (c : Config) (t : Tid) (I : DclInv c) (h : (c.thr t).pc = 9) :
    DclInv (exec (.readAt D) c t) := by
  obtain ⟨i1, i2, i3, i4, i5, i6, i7, i8, i9, i10, i11, i12, i13, i14, i15, i16, i17, i18, i19⟩ := I
  simp only [builds] at i13 i14 i15
  simp only [V, D] at *
  simp only [exec, advance, access]
  constructor <;> (try simp only [upd, builds, unordered, V, D, List.append_eq_nil_iff, List.map_eq_nil_iff, List.filter_eq_nil_iff]) <;> grind


theorem dclInv_step (c : Config) (t : Tid) (I : DclInv c) : DclInv (step dclProg c t) := by
  have hp := I.pcle t
  obtain h|h|h|h|h|h|h|h|h|h|h : (c.thr t).pc = 0 ∨ (c.thr t).pc = 1 ∨ (c.thr t).pc = 2 ∨ (c.thr t).pc = 3 ∨ (c.thr t).pc = 4 ∨ (c.thr t).pc = 5 ∨ (c.thr t).pc = 6 ∨ (c.thr t).pc = 7 ∨ (c.thr t).pc = 8 ∨ (c.thr t).pc = 9 ∨ (c.thr t).pc = 10 := by omega
  · simp only [step, dclProg, h, dcl_at0]; exact inv_pc0 c t I h
  · simp only [step, dclProg, h, dcl_at1]; exact inv_pc1 c t I h
  · simp only [step, dclProg, h, dcl_at2]; exact inv_pc2 c t I h
  · simp only [step, dclProg, h, dcl_at3]; exact inv_pc3 c t I h
  · simp only [step, dclProg, h, dcl_at4]; exact inv_pc4 c t I h
  · simp only [step, dclProg, h, dcl_at5]; exact inv_pc5 c t I h
  · simp only [step, dclProg, h, dcl_at6]; exact inv_pc6 c t I h
  · simp only [step, dclProg, h, dcl_at7]; exact inv_pc7 c t I h
  · simp only [step, dclProg, h, dcl_at8]; exact inv_pc8 c t I h
  · simp only [step, dclProg, h, dcl_at9]; exact inv_pc9 c t I h
  · simp only [step, dclProg, h, dcl_at10]; exact I

theorem dclInv_run (c : Config) (sched : Schedule) (I : DclInv c) : DclInv (run dclProg c sched) := by
  induction sched generalizing c with
  | nil => exact I
  | cons t s ih => exact ih _ (dclInv_step c t I)

theorem dcl_done_iff (c : Config) (t : Tid) : done dclProg c t = true ↔ 10 ≤ (c.thr t).pc := by
  simp [done, dclProg, dclThread]

/-- Every build in an execution was done by the thread whose object is published. -/
theorem DclInv.builder {c : Config} (I : DclInv c) (hV : c.mem V ≠ 0) :
    ∀ a ∈ c.hist, a.isWrite = true → a.tid + 1 = c.mem V := by
  intro a ha hw
  rcases I.wr_who a ha hw with h | h
  · exact h.symm
  · exact absurd (I.v0 a.tid (by omega) (by omega)) hV

end M3d.Conc
